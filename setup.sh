#!/bin/bash
# MANIFEST.setup_cmd — build everything from files on disk, offline.
set -e
cd "$(dirname "$0")"
export CARGO_NET_OFFLINE=true
python3 tools/extract.py
# every property module (and the modules about the definitions regenerated from the source) is built here once, so
# that a check only re-elaborates what a changed source invalidates
(cd lean && lake build CB cbmodel $(ls CB/Props/*.lean | sed 's#/#.#g; s#\.lean$##') 2>&1 | tail -3)
(cd harness && cargo build --offline --release 2>&1 | tail -2 && cargo build --offline --profile dbgchk 2>&1 | tail -2)
echo setup-done
