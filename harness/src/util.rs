//! parsing / canonical printing shared by all op modules
#![allow(dead_code)]
use crypto_bigint::{BoxedUint, ConstChoice, Int, Limb, Uint, Word};
use subtle::Choice;

pub const BAD: &str = "bad-args";
/// answer of every `cxx.hook.*` operation when the crate was built without `--cfg crypto_bigint_verif`
#[allow(dead_code)]
pub const HOOK_UNAVAILABLE: &str = "hook-unavailable";

pub fn hex_words(s: &str, n: usize) -> Option<Vec<Word>> {
    if s.is_empty() || !s.bytes().all(|c| c.is_ascii_digit() || (b'a'..=b'f').contains(&c)) {
        return None;
    }
    let mut words = vec![0 as Word; n];
    let bytes = s.as_bytes();
    let mut pos = bytes.len();
    let mut i = 0;
    while pos > 0 {
        let start = pos.saturating_sub(16);
        let chunk = std::str::from_utf8(&bytes[start..pos]).ok()?;
        let w = u64::from_str_radix(chunk, 16).ok()?;
        if i < n {
            words[i] = w;
        } else if w != 0 {
            return None; // does not fit: generator bug
        }
        i += 1;
        pos = start;
    }
    Some(words)
}

pub fn uint<const N: usize>(s: &str) -> Option<Uint<N>> {
    let w = hex_words(s, N)?;
    let mut arr = [0 as Word; N];
    arr.copy_from_slice(&w);
    Some(Uint::from_words(arr))
}

pub fn int<const N: usize>(s: &str) -> Option<Int<N>> {
    Some(uint::<N>(s)?.as_int())
}

pub fn boxed(s: &str, nlimbs: usize) -> Option<BoxedUint> {
    let w = hex_words(s, nlimbs)?;
    Some(BoxedUint::from_words(w))
}

pub fn limb(s: &str) -> Option<Limb> {
    let w = hex_words(s, 1)?;
    Some(Limb(w[0]))
}

pub fn word(s: &str) -> Option<Word> {
    Some(limb(s)?.0)
}

pub fn dec(s: &str) -> Option<usize> {
    s.parse::<usize>().ok()
}
pub fn dec32(s: &str) -> Option<u32> {
    s.parse::<u32>().ok()
}

pub fn bytes(s: &str) -> Option<Vec<u8>> {
    let s = s.strip_prefix('x')?;
    if s.len() % 2 != 0 {
        return None;
    }
    (0..s.len() / 2).map(|i| u8::from_str_radix(&s[2 * i..2 * i + 2], 16).ok()).collect()
}

pub fn bytes_tok(b: &[u8]) -> String {
    let mut s = String::from("x");
    for x in b {
        s.push_str(&format!("{x:02x}"));
    }
    s
}

pub fn words_hex(words: &[Word]) -> String {
    let mut s = String::new();
    let mut started = false;
    for w in words.iter().rev() {
        if started {
            s.push_str(&format!("{w:016x}"));
        } else if *w != 0 {
            s.push_str(&format!("{w:x}"));
            started = true;
        }
    }
    if !started {
        s.push('0');
    }
    s
}

pub fn uhex<const N: usize>(u: &Uint<N>) -> String {
    words_hex(u.as_words())
}
pub fn ihex<const N: usize>(u: &Int<N>) -> String {
    words_hex(u.as_uint().as_words())
}
pub fn bhex(u: &BoxedUint) -> String {
    words_hex(u.as_words())
}
/// boxed value with its limb count: `n:hex`
pub fn bhexlen(u: &BoxedUint) -> String {
    format!("{}:{}", u.as_words().len(), words_hex(u.as_words()))
}
pub fn lhex(l: Limb) -> String {
    format!("{:x}", l.0)
}
pub fn choice(c: Choice) -> String {
    format!("{}", c.unwrap_u8())
}
pub fn cchoice(c: ConstChoice) -> String {
    let c: bool = c.into();
    format!("{}", c as u8)
}
pub fn bit(b: bool) -> String {
    format!("{}", b as u8)
}
pub fn tochoice(s: &str) -> Option<Choice> {
    match s {
        "0" => Some(Choice::from(0)),
        "1" => Some(Choice::from(1)),
        _ => None,
    }
}
pub fn toconst(s: &str) -> Option<ConstChoice> {
    match s {
        "0" => Some(ConstChoice::FALSE),
        "1" => Some(ConstChoice::TRUE),
        _ => None,
    }
}

/// Dispatch a const-generic function over the supported limb counts.
#[macro_export]
macro_rules! with_n {
    ($n:expr, $f:ident, $($args:expr),*) => {
        match $n {
            1 => $f::<1>($($args),*),
            2 => $f::<2>($($args),*),
            3 => $f::<3>($($args),*),
            4 => $f::<4>($($args),*),
            5 => $f::<5>($($args),*),
            6 => $f::<6>($($args),*),
            7 => $f::<7>($($args),*),
            8 => $f::<8>($($args),*),
            12 => $f::<12>($($args),*),
            16 => $f::<16>($($args),*),
            32 => $f::<32>($($args),*),
            _ => Some("unsupported-width".to_string()),
        }
    };
}

/// `?`-style unwrapping of parsed arguments: bad arguments give the `bad-args` line.
#[macro_export]
macro_rules! arg {
    ($e:expr) => {
        match $e {
            Some(v) => v,
            None => return Some($crate::util::BAD.to_string()),
        }
    };
}
