//! cbh — correspondence harness: executes one operation per input line against the real
//! crypto-bigint crate (path dependency on /repo) and prints one canonical result line.
#![allow(clippy::all)]
use std::io::{BufRead, Write};
use std::panic;

#[macro_use]
mod util;
mod ops;

fn main() {
    // panics are results, not noise
    panic::set_hook(Box::new(|info| {
        if std::env::var_os("CBH_PANIC_MSG").is_some() {
            eprintln!("panic: {info}");
        }
    }));
    let stdin = std::io::stdin();
    let stdout = std::io::stdout();
    let mut out = std::io::BufWriter::new(stdout.lock());
    for line in stdin.lock().lines() {
        let line = line.expect("read");
        let toks: Vec<&str> = line.split_ascii_whitespace().collect();
        if toks.is_empty() {
            writeln!(out, "empty").unwrap();
            continue;
        }
        let op = toks[0];
        let args = &toks[1..];
        let res = panic::catch_unwind(|| ops::dispatch(op, args));
        match res {
            Ok(Some(s)) => writeln!(out, "{s}").unwrap(),
            Ok(None) => writeln!(out, "unknown-op").unwrap(),
            Err(_) => writeln!(out, "panic").unwrap(),
        }
    }
    out.flush().unwrap();
}
