//! C08 operations (op names start with `c08.`): Montgomery forms over operation histories.
//!
//!   c08.hist <kind> <n> <modulus> <step;step;…>   kind ∈ dyn dynv const boxed boxedv
//!   c08.params <kind> <n> <modulus>               kind ∈ dyn dynv const dynfromconst boxedfromconst boxed boxedv
//!   c08.params_eq <n> <modulus>                   new == new_vartime (fixed), (boxed), fixed fields == boxed fields
//!   c08.params_eq_const <n> <modulus>             from_const_params == new (fixed), (boxed)
//!   c08.redc <n> <lower> <upper> <modulus> <k>    public `montgomery_reduction`
//!   c08.mul_mod <kind> <n> <a> <b> <p>            `Uint::mul_mod` / `BoxedUint::mul_mod`
//! crate-internal functions through `crypto_bigint::verif_hooks`:
//!   c08.hook.amm <n> <x> <y> <m> <k>              `almost_montgomery_mul` on a zeroed `z` (ANY x, y < B^n), prints z
//!   c08.hook.amm_by_one <n> <x> <m> <k>           `almost_montgomery_mul_by_one`
//!   c08.hook.redc_inner <n> <lower> <upper> <m> <k>   `montgomery_reduction_inner`, prints `upper meta_carry`
//!   c08.hook.params <kind> <n> <modulus>          the private fields through `verif_fields()` (kinds as `c08.params`
//!                                                 except `const`), same line format as `c08.params`
//! coverage round (further public forms of the three types, as steps of `c08.hist` unless noted):
//!   new.t / zero.t / one.t        `Monty::{new,zero,one}` (dyn, boxed)      new.arc  `BoxedMontyForm::new_with_arc`
//!   zero.d / zero.z               `Default::default()` / `num_traits::Zero::zero()` (const)
//!   frommont,v                    `from_montgomery(v[, params])` (caller-supplied representative, canonical)
//!   setmont,i,v                   `*x.as_montgomery_mut() = v` (dyn, const)
//!   lincomb.t,i,j,i,j,…           `Monty::lincomb_vartime(&[(&s[i], &s[j]), …])` (dyn, boxed)
//!   zeroize,i                     `Zeroize::zeroize` (dyn: also prints the zeroized parameter fields `|zp=…`)
//!   eq,i,j                        `ConstantTimeEq::ct_eq` and `==` (dyn, const), `==` (boxed): `|eq=b`
//!   obs.t / obs.tm                token read through `Monty::as_montgomery` / `to_montgomery` and `Retrieve::retrieve`
//!   obs.p / obs.pt                `params()` / `Monty::params()`: `|mod=…,one=…,…`
//!   obs.z                         `is_zero()`+`is_nonzero()` (boxed), `num_traits::Zero::is_zero` (const): `|z=…`
//!   obs.bp                        `BoxedMontyForm::bits_precision()`: `|bits=…`
//!   kinds dynt / boxedt           parameters from `Monty::new_params_vartime`
//!   c08.params_cteq <n> <m1> <m2> `MontyParams::ct_eq`, `MontyForm::ct_eq` across parameter sets
//!
//! NOTE: `core::ops::{Add, Sub, Mul, Neg}` are deliberately NOT imported, so `<T>::add(&a, &b)` is the
//! inherent method and `a + b` the operator impl.
use crate::util::*;
use crypto_bigint::modular::{
    BoxedMontyForm, BoxedMontyParams, ConstMontyForm, ConstMontyParams, MontyForm, MontyParams, Retrieve,
    montgomery_reduction,
};
use crypto_bigint::zeroize::Zeroize;
#[cfg(crypto_bigint_verif)]
use crypto_bigint::verif_hooks as hooks;
use crypto_bigint::{
    BoxedUint, Concat, Integer, Limb, Monty, MontyMultiplier, NonZero, Odd, Split, Square, SquareAssign, Uint,
    impl_modulus,
};
use std::panic::{AssertUnwindSafe, catch_unwind};
use std::sync::Arc;
use subtle::{ConditionallySelectable, ConstantTimeEq};

// ------------------------------------------------------------------ compile-time moduli (impl_modulus!)
// (name, Uint type, limbs, big-endian hex).  tools/gen/c08.py carries the same table.
/// a computation generic over a compile-time modulus
trait ConstVisitor {
    fn visit<P: ConstMontyParams<N>, const N: usize>(self) -> Option<String>;
}

macro_rules! const_moduli {
    ($( ($name:ident, $ty:ty, $n:expr, $hex:expr) ),* $(,)?) => {
        $( impl_modulus!($name, $ty, $hex); )*
        /// run the visitor for the const modulus identified by (limbs, value)
        fn with_const_modulus<V: ConstVisitor>(nlimbs: usize, mhex: &str, v: V) -> Option<String> {
            let key = (nlimbs, norm_hex(mhex));
            $( if key == ($n as usize, norm_hex($hex)) { return v.visit::<$name, { $n }>(); } )*
            Some("bad-args".to_string())
        }
    };
}

use crypto_bigint::{U64, U128, U192, U256, U384, U512, U1024, U2048};
const_moduli! {
    (M1One, U64, 1, "0000000000000001"),
    (M1Three, U64, 1, "0000000000000003"),
    (M1Max, U64, 1, "ffffffffffffffff"),
    (M1Half, U64, 1, "8000000000000001"),
    (M1Third, U64, 1, "5555555555555555"),
    (M1Quarter, U64, 1, "3fffffffffffffff"),
    (M1Small, U64, 1, "00000000000000f1"),
    (M2Max, U128, 2, "ffffffffffffffffffffffffffffffff"),
    (M2Half, U128, 2, "80000000000000000000000000000001"),
    (M2Third, U128, 2, "55555555555555555555555555555555"),
    (M2Zhl, U128, 2, "0000000000000000ffffffffffffffc5"),
    (M2One, U128, 2, "00000000000000000000000000000001"),
    (M3P192, U192, 3, "fffffffffffffffffffffffffffffffeffffffffffffffff"),
    (M3Quarter, U192, 3, "3fffffffffffffffffffffffffffffffffffffffffffffff"),
    (M4P256n, U256, 4, "ffffffff00000000ffffffffffffffffbce6faada7179e84f3b9cac2fc632551"),
    (M4Half, U256, 4, "8000000000000000000000000000000000000000000000000000000000000001"),
    (M4Third, U256, 4, "5555555555555555555555555555555555555555555555555555555555555555"),
    (M4Zhl, U256, 4, "00000000000000000000000000000000d5777c45019673125ad240f83094d425"),
    (M4Three, U256, 4, "0000000000000000000000000000000000000000000000000000000000000003"),
    (M4One, U256, 4, "0000000000000000000000000000000000000000000000000000000000000001"),
    (M6P384, U384, 6, "fffffffffffffffffffffffffffffffffffffffffffffffffffffffffffffffeffffffff0000000000000000ffffffff"),
    (M8Max, U512, 8, "ffffffffffffffffffffffffffffffffffffffffffffffffffffffffffffffffffffffffffffffffffffffffffffffffffffffffffffffffffffffffffffffff"),
    (M8Quarter, U512, 8, "3fffffffffffffffffffffffffffffffffffffffffffffffffffffffffffffffffffffffffffffffffffffffffffffffffffffffffffffffffffffffffffffff"),
    (M16Half, U1024, 16, "8000000000000000000000000000000000000000000000000000000000000000000000000000000000000000000000000000000000000000000000000000000000000000000000000000000000000000000000000000000000000000000000000000000000000000000000000000000000000000000000000000000000000001"),
    (M32Third, U2048, 32, "55555555555555555555555555555555555555555555555555555555555555555555555555555555555555555555555555555555555555555555555555555555555555555555555555555555555555555555555555555555555555555555555555555555555555555555555555555555555555555555555555555555555555555555555555555555555555555555555555555555555555555555555555555555555555555555555555555555555555555555555555555555555555555555555555555555555555555555555555555555555555555555555555555555555555555555555555555555555555555555555555555555555555555555555555555555"),
}

fn norm_hex(s: &str) -> String {
    let t = s.trim_start_matches('0').to_ascii_lowercase();
    if t.is_empty() { "0".to_string() } else { t }
}

/// dispatch over the widths that have `Concat` (needed by `MontyParams::new`)
macro_rules! with_nw {
    ($n:expr, $f:ident, $($args:expr),*) => {
        match $n {
            1 => $f::<1, 2>($($args),*),
            2 => $f::<2, 4>($($args),*),
            3 => $f::<3, 6>($($args),*),
            4 => $f::<4, 8>($($args),*),
            6 => $f::<6, 12>($($args),*),
            8 => $f::<8, 16>($($args),*),
            16 => $f::<16, 32>($($args),*),
            32 => $f::<32, 64>($($args),*),
            _ => Some("unsupported-width".to_string()),
        }
    };
}

// ------------------------------------------------------------------ history steps

struct Step<'a> {
    name: &'a str,
    form: &'a str,
    args: Vec<&'a str>,
}

fn parse_steps(s: &str) -> Option<Vec<Step<'_>>> {
    s.split(';')
        .map(|st| {
            let mut it = st.split(',');
            let nf = it.next()?;
            let (name, form) = match nf.split_once('.') {
                Some((a, b)) => (a, b),
                None => (nf, ""),
            };
            Some(Step { name, form, args: it.collect() })
        })
        .collect()
}

fn idx(s: &str, len: usize) -> Option<usize> {
    let i = s.parse::<usize>().ok()?;
    if i < len { Some(i) } else { None }
}

/// the five operator surface forms + inherent method + the two assigning forms of a binary operation
macro_rules! bin_forms {
    ($T:ty, $store:ident, $st:ident, $meth:ident, $op:tt, $opa:tt) => {(|| {
        if $st.args.len() != 2 { return Err(()); }
        let i = idx($st.args[0], $store.len()).ok_or(())?;
        let j = idx($st.args[1], $store.len()).ok_or(())?;
        let (a, b) = ($store[i].clone(), $store[j].clone());
        match $st.form {
            "m" => { $store.push(<$T>::$meth(&a, &b)); Ok($store.len() - 1) }
            "rr" => { $store.push(&a $op &b); Ok($store.len() - 1) }
            "rv" => { $store.push(&a $op b); Ok($store.len() - 1) }
            "vr" => { $store.push(a $op &b); Ok($store.len() - 1) }
            "vv" => { $store.push(a $op b); Ok($store.len() - 1) }
            "a" => { let mut x = a; x $opa &b; $store[i] = x; Ok(i) }
            "av" => { let mut x = a; x $opa b; $store[i] = x; Ok(i) }
            _ => Err(()),
        }
    })()};
}

/// steps whose surface syntax is the same for all three representations
macro_rules! shared_step {
    ($T:ty, $store:ident, $st:ident) => {
        match $st.name {
            "add" => Some(bin_forms!($T, $store, $st, add, +, +=)),
            "sub" => Some(bin_forms!($T, $store, $st, sub, -, -=)),
            "mul" if $st.form != "mm" => Some(bin_forms!($T, $store, $st, mul, *, *=)),
            "neg" if $st.args.len() == 1 => Some((|| {
                let i = idx($st.args[0], $store.len()).ok_or(())?;
                let a = $store[i].clone();
                let r = match $st.form {
                    "m" => <$T>::neg(&a),
                    "v" => -a,
                    "r" => -&a,
                    _ => return Err(()),
                };
                $store.push(r);
                Ok($store.len() - 1)
            })()),
            "square" if $st.args.len() == 1 && ($st.form == "m" || $st.form == "t") => Some((|| {
                let i = idx($st.args[0], $store.len()).ok_or(())?;
                let a = $store[i].clone();
                let r = if $st.form == "m" { <$T>::square(&a) } else { Square::square(&a) };
                $store.push(r);
                Ok($store.len() - 1)
            })()),
            "double" if $st.args.len() == 1 && $st.form == "" => Some((|| {
                let i = idx($st.args[0], $store.len()).ok_or(())?;
                let r = <$T>::double(&$store[i]);
                $store.push(r);
                Ok($store.len() - 1)
            })()),
            "div2" if $st.args.len() == 1 && $st.form == "" => Some((|| {
                let i = idx($st.args[0], $store.len()).ok_or(())?;
                let r = <$T>::div_by_2(&$store[i]);
                $store.push(r);
                Ok($store.len() - 1)
            })()),
            _ => None,
        }
    };
}

/// steps available through the `Monty` / `MontyMultiplier` / `SquareAssign` traits (runtime and boxed forms)
macro_rules! monty_trait_step {
    ($T:ty, $store:ident, $st:ident, $params:expr) => {
        match ($st.name, $st.form) {
            ("double", "t") | ("div2", "t") if $st.args.len() == 1 => Some((|| {
                let i = idx($st.args[0], $store.len()).ok_or(())?;
                let r = if $st.name == "double" { Monty::double(&$store[i]) } else { Monty::div_by_2(&$store[i]) };
                $store.push(r);
                Ok($store.len() - 1)
            })()),
            ("div2", "a") if $st.args.len() == 1 => Some((|| {
                let i = idx($st.args[0], $store.len()).ok_or(())?;
                Monty::div_by_2_assign(&mut $store[i]);
                Ok(i)
            })()),
            ("square", "a") if $st.args.len() == 1 => Some((|| {
                let i = idx($st.args[0], $store.len()).ok_or(())?;
                SquareAssign::square_assign(&mut $store[i]);
                Ok(i)
            })()),
            ("square", "mm") if $st.args.len() == 1 => Some((|| {
                let i = idx($st.args[0], $store.len()).ok_or(())?;
                let p = $params;
                let mut mm = <<$T as Monty>::Multiplier<'_>>::from(&p);
                mm.square_assign(&mut $store[i]);
                Ok(i)
            })()),
            ("mul", "mm") if $st.args.len() == 2 => Some((|| {
                let i = idx($st.args[0], $store.len()).ok_or(())?;
                let j = idx($st.args[1], $store.len()).ok_or(())?;
                let rhs = $store[j].clone();
                let p = $params;
                let mut mm = <<$T as Monty>::Multiplier<'_>>::from(&p);
                mm.mul_assign(&mut $store[i], &rhs);
                Ok(i)
            })()),
            ("copy", "") if $st.args.len() == 2 => Some((|| {
                let i = idx($st.args[0], $store.len()).ok_or(())?;
                let j = idx($st.args[1], $store.len()).ok_or(())?;
                let src = $store[j].clone();
                Monty::copy_montgomery_from(&mut $store[i], &src);
                Ok(i)
            })()),
            _ => None,
        }
    };
}

macro_rules! select_step {
    ($T:ty, $store:ident, $st:ident) => {
        if $st.name == "select" && $st.args.len() == 3 {
            Some((|| {
                let i = idx($st.args[0], $store.len()).ok_or(())?;
                let j = idx($st.args[1], $store.len()).ok_or(())?;
                let c = tochoice($st.args[2]).ok_or(())?;
                let r = <$T>::conditional_select(&$store[i], &$store[j], c);
                $store.push(r);
                Ok($store.len() - 1)
            })())
        } else {
            None
        }
    };
}

type StepRes = Result<usize, ()>;

/// Run one step under `catch_unwind`; `Ok(Some(tok))` = output token, `Ok(None)` = bad args, `Err` = panic.
fn guarded<F: FnOnce() -> Option<String>>(f: F) -> Result<Option<String>, ()> {
    catch_unwind(AssertUnwindSafe(f)).map_err(|_| ())
}


/// handle pairs `i,j,i,j,…` of a `lincomb` step
fn pairs(args: &[&str], len: usize) -> Option<Vec<(usize, usize)>> {
    if args.is_empty() || args.len() % 2 != 0 {
        return None;
    }
    args.chunks(2).map(|c| Some((idx(c[0], len)?, idx(c[1], len)?))).collect()
}

/// `|eq=b` from `ct_eq` and `==` (which must agree)
fn eq_extra(ct: Option<bool>, pe: bool) -> String {
    match ct {
        Some(c) if c != pe => "|eq=mismatch".to_string(),
        _ => format!("|eq={}", bit(pe)),
    }
}

// ---- boxed
fn run_boxed(mut store: Vec<BoxedMontyForm>, params: BoxedMontyParams, steps: &[Step<'_>], out: &mut Vec<String>) -> Option<()> {
    let n = params.modulus().as_ref().nlimbs();
    for st in steps {
        let r = guarded(|| {
            let (mut extra, mut acc) = (String::new(), "");
            let res: StepRes = if let Some(r) = shared_step!(BoxedMontyForm, store, st) {
                r
            } else if let Some(r) = monty_trait_step!(BoxedMontyForm, store, st, params.clone()) {
                r
            } else {
                match (st.name, st.form, st.args.as_slice()) {
                    ("new", "", [v]) => boxed(v, n).map(|v| {
                        store.push(BoxedMontyForm::new(v, params.clone()));
                        store.len() - 1
                    }).ok_or(()),
                    ("zero", "", []) => { store.push(BoxedMontyForm::zero(params.clone())); Ok(store.len() - 1) }
                    ("one", "", []) => { store.push(BoxedMontyForm::one(params.clone())); Ok(store.len() - 1) }
                    ("div2", "ai", [i]) => idx(i, store.len()).map(|i| { store[i].div_by_2_assign(); i }).ok_or(()),
                    ("conv", "", []) if !store.is_empty() => Ok(store.len() - 1),
                    // ---- coverage round
                    ("new", "t", [v]) => boxed(v, n).map(|v| {
                        store.push(<BoxedMontyForm as Monty>::new(v, params.clone()));
                        store.len() - 1
                    }).ok_or(()),
                    ("new", "arc", [v]) => boxed(v, n).map(|v| {
                        store.push(BoxedMontyForm::new_with_arc(v, Arc::new(params.clone())));
                        store.len() - 1
                    }).ok_or(()),
                    ("zero", "t", []) => { store.push(<BoxedMontyForm as Monty>::zero(params.clone())); Ok(store.len() - 1) }
                    ("one", "t", []) => { store.push(<BoxedMontyForm as Monty>::one(params.clone())); Ok(store.len() - 1) }
                    ("frommont", "", [v]) => boxed(v, n).map(|v| {
                        store.push(BoxedMontyForm::from_montgomery(v, params.clone()));
                        store.len() - 1
                    }).ok_or(()),
                    ("lincomb", "t", ij) => pairs(ij, store.len()).map(|ps| {
                        let refs: Vec<(&BoxedMontyForm, &BoxedMontyForm)> = ps.iter().map(|&(i, j)| (&store[i], &store[j])).collect();
                        let r = <BoxedMontyForm as Monty>::lincomb_vartime(&refs);
                        store.push(r);
                        store.len() - 1
                    }).ok_or(()),
                    ("zeroize", "", [i]) => idx(i, store.len()).map(|i| { Zeroize::zeroize(&mut store[i]); i }).ok_or(()),
                    ("eq", "", [i, j]) => (|| {
                        let (i, j) = (idx(i, store.len())?, idx(j, store.len())?);
                        extra = eq_extra(None, store[i] == store[j]);
                        Some(i)
                    })().ok_or(()),
                    ("obs", f, [i]) => (|| {
                        let i = idx(i, store.len())?;
                        let v = &store[i];
                        match f {
                            "t" | "tm" => acc = f,
                            "p" => extra = format!("|{}", fields_line_boxed(v.params()).replace(' ', ",")),
                            "pt" => extra = format!("|{}", fields_line_boxed(Monty::params(v)).replace(' ', ",")),
                            "z" => extra = format!("|z={}{}", bit(bool::from(v.is_zero())), bit(bool::from(v.is_nonzero()))),
                            "bp" => extra = format!("|bits={}", v.bits_precision()),
                            _ => return None,
                        }
                        Some(i)
                    })().ok_or(()),
                    _ => Err(()),
                }
            };
            let i = res.ok()?;
            let v = &store[i];
            let (form, retr) = match acc {
                "t" => (bhex(Monty::as_montgomery(v)), bhex(&Retrieve::retrieve(v))),
                "tm" => (bhex(&v.to_montgomery()), bhex(&Retrieve::retrieve(v))),
                _ => (bhex(v.as_montgomery()), bhex(&v.retrieve())),
            };
            Some(format!("{form}:{retr}{extra}"))
        });
        match r {
            Ok(Some(tok)) => out.push(tok),
            Ok(None) => return None,
            Err(()) => { out.push("panic".into()); return Some(()); }
        }
    }
    Some(())
}

// ---- runtime modulus
fn run_dyn<const N: usize>(
    mut store: Vec<MontyForm<N>>,
    params: MontyParams<N>,
    from_const: Option<BoxedMontyParams>,
    steps: &[Step<'_>],
    out: &mut Vec<String>,
) -> Option<()> {
    for (k, st) in steps.iter().enumerate() {
        if st.name == "conv" {
            if store.is_empty() { return None; }
            // dyn -> boxed: the Montgomery representation is carried over; parameters come from the const
            // parameters when the history started there, else from `BoxedMontyParams::new`.
            let r = guarded(|| {
                let bp = match &from_const {
                    Some(p) => p.clone(),
                    None => BoxedMontyParams::new(Odd::<BoxedUint>::from(params.modulus())),
                };
                let bstore: Vec<BoxedMontyForm> = store
                    .iter()
                    .map(|v| BoxedMontyForm::from_montgomery(BoxedUint::from(v.to_montgomery()), bp.clone()))
                    .collect();
                let v = bstore.last().unwrap();
                out.push(format!("{}:{}", bhex(v.as_montgomery()), bhex(&v.retrieve())));
                run_boxed(bstore, bp, &steps[k + 1..], out).map(|_| String::new())
            });
            return match r {
                Ok(Some(_)) => Some(()),
                Ok(None) => None,
                Err(()) => { out.push("panic".into()); Some(()) }
            };
        }
        let r = guarded(|| {
            let (mut extra, mut acc) = (String::new(), "");
            let res: StepRes = if let Some(r) = shared_step!(MontyForm<N>, store, st) {
                r
            } else if let Some(r) = monty_trait_step!(MontyForm<N>, store, st, params) {
                r
            } else if let Some(r) = select_step!(MontyForm<N>, store, st) {
                r
            } else {
                match (st.name, st.form, st.args.as_slice()) {
                    ("new", "", [v]) => uint::<N>(v).map(|v| { store.push(MontyForm::new(&v, params)); store.len() - 1 }).ok_or(()),
                    ("zero", "", []) => { store.push(MontyForm::zero(params)); Ok(store.len() - 1) }
                    ("one", "", []) => { store.push(MontyForm::one(params)); Ok(store.len() - 1) }
                    // ---- coverage round
                    ("new", "t", [v]) => uint::<N>(v).map(|v| { store.push(<MontyForm<N> as Monty>::new(v, params)); store.len() - 1 }).ok_or(()),
                    ("zero", "t", []) => { store.push(<MontyForm<N> as Monty>::zero(params)); Ok(store.len() - 1) }
                    ("one", "t", []) => { store.push(<MontyForm<N> as Monty>::one(params)); Ok(store.len() - 1) }
                    ("frommont", "", [v]) => uint::<N>(v).map(|v| { store.push(MontyForm::from_montgomery(v, params)); store.len() - 1 }).ok_or(()),
                    ("setmont", "", [i, v]) => (|| {
                        let (i, v) = (idx(i, store.len())?, uint::<N>(v)?);
                        *store[i].as_montgomery_mut() = v;
                        Some(i)
                    })().ok_or(()),
                    ("lincomb", "t", ij) => pairs(ij, store.len()).map(|ps| {
                        let refs: Vec<(&MontyForm<N>, &MontyForm<N>)> = ps.iter().map(|&(i, j)| (&store[i], &store[j])).collect();
                        let r = <MontyForm<N> as Monty>::lincomb_vartime(&refs);
                        store.push(r);
                        store.len() - 1
                    }).ok_or(()),
                    // `Zeroize for MontyForm` clears the value AND its copy of the parameters: print the zeroized fields,
                    // then re-attach the (zero) representative to the live parameters so that the history can go on
                    ("zeroize", "", [i]) => idx(i, store.len()).map(|i| {
                        let mut z = store[i];
                        Zeroize::zeroize(&mut z);
                        extra = format!("|zp={}", fields_line_fixed(z.params()).replace(' ', ","));
                        store[i] = MontyForm::from_montgomery(z.to_montgomery(), params);
                        i
                    }).ok_or(()),
                    ("eq", "", [i, j]) => (|| {
                        let (i, j) = (idx(i, store.len())?, idx(j, store.len())?);
                        extra = eq_extra(Some(bool::from(store[i].ct_eq(&store[j]))), store[i] == store[j]);
                        Some(i)
                    })().ok_or(()),
                    ("obs", f, [i]) => (|| {
                        let i = idx(i, store.len())?;
                        let v = &store[i];
                        match f {
                            "t" | "tm" => acc = f,
                            "p" => extra = format!("|{}", fields_line_fixed(v.params()).replace(' ', ",")),
                            "pt" => extra = format!("|{}", fields_line_fixed(Monty::params(v)).replace(' ', ",")),
                            _ => return None,
                        }
                        Some(i)
                    })().ok_or(()),
                    _ => Err(()),
                }
            };
            let i = res.ok()?;
            let v = &store[i];
            let (form, retr) = match acc {
                "t" => (uhex(Monty::as_montgomery(v)), uhex(&Retrieve::retrieve(v))),
                "tm" => (uhex(&v.to_montgomery()), uhex(&Retrieve::retrieve(v))),
                _ => (uhex(v.as_montgomery()), uhex(&v.retrieve())),
            };
            Some(format!("{form}:{retr}{extra}"))
        });
        match r {
            Ok(Some(tok)) => out.push(tok),
            Ok(None) => return None,
            Err(()) => { out.push("panic".into()); return Some(()); }
        }
    }
    Some(())
}

// ---- compile-time modulus
fn run_const<P: ConstMontyParams<N>, const N: usize>(steps: &[Step<'_>], out: &mut Vec<String>) -> Option<()> {
    let mut store: Vec<ConstMontyForm<P, N>> = Vec::new();
    for (k, st) in steps.iter().enumerate() {
        if st.name == "conv" {
            if store.is_empty() { return None; }
            let r = guarded(|| {
                let dstore: Vec<MontyForm<N>> = store.iter().map(MontyForm::from).collect();
                let v = dstore.last().unwrap();
                out.push(format!("{}:{}", uhex(v.as_montgomery()), uhex(&v.retrieve())));
                let params = MontyParams::<N>::from_const_params::<P>();
                let bp = BoxedMontyParams::from_const_params::<N, P>();
                run_dyn::<N>(dstore, params, Some(bp), &steps[k + 1..], out).map(|_| String::new())
            });
            return match r {
                Ok(Some(_)) => Some(()),
                Ok(None) => None,
                Err(()) => { out.push("panic".into()); Some(()) }
            };
        }
        let r = guarded(|| {
            let (mut extra, mut acc) = (String::new(), "");
            let res: StepRes = if let Some(r) = shared_step!(ConstMontyForm<P, N>, store, st) {
                r
            } else if let Some(r) = select_step!(ConstMontyForm<P, N>, store, st) {
                r
            } else {
                match (st.name, st.form, st.args.as_slice()) {
                    ("new", "", [v]) => uint::<N>(v).map(|v| { store.push(ConstMontyForm::<P, N>::new(&v)); store.len() - 1 }).ok_or(()),
                    ("zero", "", []) => { store.push(ConstMontyForm::<P, N>::ZERO); Ok(store.len() - 1) }
                    ("one", "", []) => { store.push(ConstMontyForm::<P, N>::ONE); Ok(store.len() - 1) }
                    // ---- coverage round
                    ("zero", "d", []) => { store.push(<ConstMontyForm<P, N> as Default>::default()); Ok(store.len() - 1) }
                    ("zero", "z", []) => { store.push(<ConstMontyForm<P, N> as num_traits::Zero>::zero()); Ok(store.len() - 1) }
                    ("frommont", "", [v]) => uint::<N>(v).map(|v| { store.push(ConstMontyForm::<P, N>::from_montgomery(v)); store.len() - 1 }).ok_or(()),
                    ("setmont", "", [i, v]) => (|| {
                        let (i, v) = (idx(i, store.len())?, uint::<N>(v)?);
                        *store[i].as_montgomery_mut() = v;
                        Some(i)
                    })().ok_or(()),
                    ("zeroize", "", [i]) => idx(i, store.len()).map(|i| { Zeroize::zeroize(&mut store[i]); i }).ok_or(()),
                    ("eq", "", [i, j]) => (|| {
                        let (i, j) = (idx(i, store.len())?, idx(j, store.len())?);
                        extra = eq_extra(Some(bool::from(store[i].ct_eq(&store[j]))), store[i] == store[j]);
                        Some(i)
                    })().ok_or(()),
                    ("obs", f, [i]) => (|| {
                        let i = idx(i, store.len())?;
                        let v = &store[i];
                        match f {
                            "t" | "tm" => acc = f,
                            "z" => extra = format!("|z={}", bit(num_traits::Zero::is_zero(v))),
                            _ => return None,
                        }
                        Some(i)
                    })().ok_or(()),
                    _ => Err(()),
                }
            };
            let i = res.ok()?;
            let v = &store[i];
            let (form, retr) = match acc {
                "t" => (uhex(v.as_montgomery()), uhex(&Retrieve::retrieve(v))),
                "tm" => (uhex(&v.to_montgomery()), uhex(&Retrieve::retrieve(v))),
                _ => (uhex(v.as_montgomery()), uhex(&v.retrieve())),
            };
            Some(format!("{form}:{retr}{extra}"))
        });
        match r {
            Ok(Some(tok)) => out.push(tok),
            Ok(None) => return None,
            Err(()) => { out.push("panic".into()); return Some(()); }
        }
    }
    Some(())
}

fn finish(m: &str, ok: Option<()>, out: Vec<String>) -> Option<String> {
    ok?;
    let mut s = format!("mod={}", norm_hex(m));
    for t in out {
        s.push(' ');
        s.push_str(&t);
    }
    Some(s)
}

fn hist_dyn<const N: usize, const W: usize>(kind: &str, m: &str, steps: &[Step<'_>]) -> Option<String>
where
    Uint<N>: Concat<Output = Uint<W>>,
    Uint<W>: Split<Output = Uint<N>>,
{
    let modulus: Option<Odd<Uint<N>>> = Odd::new(arg!(uint::<N>(m))).into();
    let modulus = arg!(modulus);
    let mut out = Vec::new();
    let ok = match guarded(|| {
        let params = match kind {
            "dynv" => MontyParams::new_vartime(modulus),
            "dynt" => <MontyForm<N> as Monty>::new_params_vartime(modulus),
            _ => MontyParams::new(modulus),
        };
        run_dyn::<N>(Vec::new(), params, None, steps, &mut out).map(|_| String::new())
    }) {
        Ok(Some(_)) => Some(()),
        Ok(None) => None,
        Err(()) => { out.push("panic".into()); Some(()) }
    };
    finish(m, ok, out).or(Some(BAD.to_string()))
}

struct HistConst<'a, 'b>(&'a str, &'a [Step<'b>]);
impl ConstVisitor for HistConst<'_, '_> {
    fn visit<P: ConstMontyParams<N>, const N: usize>(self) -> Option<String> {
        let mut out = Vec::new();
        let ok = run_const::<P, N>(self.1, &mut out);
        finish(self.0, ok, out).or(Some(BAD.to_string()))
    }
}

fn hist_boxed(kind: &str, n: usize, m: &str, steps: &[Step<'_>]) -> Option<String> {
    let modulus: Option<Odd<BoxedUint>> = Odd::new(arg!(boxed(m, n))).into();
    let modulus = arg!(modulus);
    let mut out = Vec::new();
    let ok = match guarded(|| {
        let params = match kind {
            "boxedv" => BoxedMontyParams::new_vartime(modulus),
            "boxedt" => <BoxedMontyForm as Monty>::new_params_vartime(modulus),
            _ => BoxedMontyParams::new(modulus),
        };
        run_boxed(Vec::new(), params, steps, &mut out).map(|_| String::new())
    }) {
        Ok(Some(_)) => Some(()),
        Ok(None) => None,
        Err(()) => { out.push("panic".into()); Some(()) }
    };
    finish(m, ok, out).or(Some(BAD.to_string()))
}

// ------------------------------------------------------------------ parameters

/// pull `field: …(0xHEX)` or `field: DEC` out of the derived `Debug` text of a params struct
/// (the fields are private and have no accessors; see notes/C08.md "requests to the integrator")
fn dbg_field(dbg: &str, field: &str) -> Option<String> {
    let key = format!(" {field}: ");
    let at = dbg.find(&key)? + key.len();
    let rest = &dbg[at..];
    if let Some(hx) = rest.find("0x") {
        let end_plain = rest.find([',', '}']).unwrap_or(rest.len());
        if hx < end_plain {
            let h = &rest[hx + 2..];
            let end = h.find(|c: char| !c.is_ascii_hexdigit()).unwrap_or(h.len());
            return Some(norm_hex(&h[..end]));
        }
    }
    let end = rest.find(|c: char| !c.is_ascii_digit()).unwrap_or(rest.len());
    Some(rest[..end].to_string())
}

fn params_line(dbg: &str) -> Option<String> {
    Some(format!(
        "mod={} one={} r2={} r3={} k={} lz={}",
        dbg_field(dbg, "modulus")?,
        dbg_field(dbg, "one")?,
        dbg_field(dbg, "r2")?,
        dbg_field(dbg, "r3")?,
        dbg_field(dbg, "mod_neg_inv")?,
        dbg_field(dbg, "mod_leading_zeros")?
    ))
}

fn params_dyn<const N: usize, const W: usize>(kind: &str, m: &str) -> Option<String>
where
    Uint<N>: Concat<Output = Uint<W>>,
    Uint<W>: Split<Output = Uint<N>>,
{
    let modulus: Option<Odd<Uint<N>>> = Odd::new(arg!(uint::<N>(m))).into();
    let modulus = arg!(modulus);
    let p = match kind {
        "dynv" => MontyParams::new_vartime(modulus),
        "dynt" => <MontyForm<N> as Monty>::new_params_vartime(modulus),
        _ => MontyParams::new(modulus),
    };
    params_line(&format!("{p:?}")).or(Some(BAD.to_string()))
}

fn params_boxed(kind: &str, n: usize, m: &str) -> Option<String> {
    let modulus: Option<Odd<BoxedUint>> = Odd::new(arg!(boxed(m, n))).into();
    let modulus = arg!(modulus);
    let p = match kind {
        "boxedv" => BoxedMontyParams::new_vartime(modulus),
        "boxedt" => <BoxedMontyForm as Monty>::new_params_vartime(modulus),
        _ => BoxedMontyParams::new(modulus),
    };
    params_line(&format!("{p:?}")).or(Some(BAD.to_string()))
}

struct ParamsConst<'a>(&'a str);
impl ConstVisitor for ParamsConst<'_> {
    fn visit<P: ConstMontyParams<N>, const N: usize>(self) -> Option<String> {
        params_const::<P, N>(self.0)
    }
}
fn params_const<P: ConstMontyParams<N>, const N: usize>(kind: &str) -> Option<String> {
    match kind {
        "const" => Some(format!(
            "mod={} one={} r2={} r3={} k={} lz={}",
            uhex(P::MODULUS.as_ref()),
            uhex(&P::ONE),
            uhex(&P::R2),
            uhex(&P::R3),
            lhex(P::MOD_NEG_INV),
            P::MOD_LEADING_ZEROS
        )),
        "dynfromconst" => params_line(&format!("{:?}", MontyParams::<N>::from_const_params::<P>())),
        "boxedfromconst" => params_line(&format!("{:?}", BoxedMontyParams::from_const_params::<N, P>())),
        _ => None,
    }
    .or(Some(BAD.to_string()))
}

fn params_eq<const N: usize, const W: usize>(m: &str) -> Option<String>
where
    Uint<N>: Concat<Output = Uint<W>>,
    Uint<W>: Split<Output = Uint<N>>,
{
    let modulus: Option<Odd<Uint<N>>> = Odd::new(arg!(uint::<N>(m))).into();
    let modulus = arg!(modulus);
    let (a, b) = (MontyParams::new(modulus), MontyParams::new_vartime(modulus));
    let bm = Odd::<BoxedUint>::from(&modulus);
    let (c, d) = (BoxedMontyParams::new(bm.clone()), BoxedMontyParams::new_vartime(bm));
    let fields = |s: String| params_line(&s);
    let cross = fields(format!("{a:?}")) == fields(format!("{c:?}"));
    Some(format!("{} {} {}", bit(a == b), bit(c == d), bit(cross)))
}

/// `ConstantTimeEq for MontyParams` and `for MontyForm` across two parameter sets
fn params_cteq<const N: usize, const W: usize>(m1: &str, m2: &str) -> Option<String>
where
    Uint<N>: Concat<Output = Uint<W>>,
    Uint<W>: Split<Output = Uint<N>>,
{
    let a: Option<Odd<Uint<N>>> = Odd::new(arg!(uint::<N>(m1))).into();
    let b: Option<Odd<Uint<N>>> = Odd::new(arg!(uint::<N>(m2))).into();
    let (p, q) = (MontyParams::new(arg!(a)), MontyParams::new_vartime(arg!(b)));
    let params_eq = bool::from(p.ct_eq(&q));
    if params_eq != (p == q) {
        return Some("ct_eq-differs-from-==".to_string());
    }
    let forms_eq = bool::from(MontyForm::zero(p).ct_eq(&MontyForm::zero(q)));
    Some(format!("{} {}", bit(params_eq), bit(forms_eq)))
}

/// `c08.params_select n m1 m2 c x`: `ConditionallySelectable` on `MontyParams` and on `MontyForm` between two DIFFERENT
/// parameter sets (seeds C06-m9 / C08-m8: one field taken from the wrong side): the selected parameters must be exactly the
/// chosen side's (every private field), the selected form must retrieve the chosen side's value and multiply like it.
fn params_select<const N: usize, const W: usize>(m1: &str, m2: &str, c: &str, x: &str) -> Option<String>
where
    Uint<N>: Concat<Output = Uint<W>>,
    Uint<W>: Split<Output = Uint<N>>,
{
    let a: Option<Odd<Uint<N>>> = Odd::new(arg!(uint::<N>(m1))).into();
    let b: Option<Odd<Uint<N>>> = Odd::new(arg!(uint::<N>(m2))).into();
    let (p, q) = (MontyParams::new(arg!(a)), MontyParams::new(arg!(b)));
    let c = arg!(dec(c));
    let ch = subtle::Choice::from((c & 1) as u8);
    let x = arg!(uint::<N>(x));
    let sel = MontyParams::conditional_select(&p, &q, ch);
    let mut asg = p;
    asg.conditional_assign(&q, ch);
    let (mut s1, mut s2) = (p, q);
    MontyParams::conditional_swap(&mut s1, &mut s2, ch);
    let want = if c & 1 == 1 { q } else { p };
    let (fa, fb) = (MontyForm::new(&x, p), MontyForm::new(&x, q));
    let fsel = MontyForm::conditional_select(&fa, &fb, ch);
    let sq = fsel * fsel;
    Some(format!(
        "{} {} {} {} | {} {} {}",
        fields_line_fixed(&sel).replace(' ', ","),
        bit(fields_line_fixed(&asg) == fields_line_fixed(&sel)),
        bit(fields_line_fixed(&s1) == fields_line_fixed(&sel)),
        bit(sel == want && bool::from(sel.ct_eq(&want))),
        uhex(&fsel.retrieve()),
        uhex(&sq.retrieve()),
        fields_line_fixed(fsel.params()).replace(' ', ",")
    ))
}

/// `c08.mmseq <kind> n m x y <ops>`: a SEQUENCE of operations on ONE multiplier object (`Monty::Multiplier`): `m` = `mul_assign(acc, y)`,
/// `s` = `square_assign(acc)`; after every operation prints `retrieve()/as_montgomery()` of the accumulator (seed C15-m8: a
/// multiplier whose internal product buffer is not cleared is wrong from its SECOND operation on).
fn mmseq_dyn<const N: usize, const W: usize>(m: &str, x: &str, y: &str, ops: &str) -> Option<String>
where
    Uint<N>: Concat<Output = Uint<W>>,
    Uint<W>: Split<Output = Uint<N>>,
{
    let modulus: Option<Odd<Uint<N>>> = Odd::new(arg!(uint::<N>(m))).into();
    let p = MontyParams::new(arg!(modulus));
    let (mut acc, y) = (MontyForm::new(&arg!(uint::<N>(x)), p), MontyForm::new(&arg!(uint::<N>(y)), p));
    let mut mm = <<MontyForm<N> as Monty>::Multiplier<'_>>::from(&p);
    let mut out = Vec::new();
    for c in ops.chars() {
        match c {
            'm' => mm.mul_assign(&mut acc, &y),
            's' => mm.square_assign(&mut acc),
            _ => return Some(BAD.to_string()),
        }
        out.push(format!("{}/{}", uhex(&acc.retrieve()), uhex(acc.as_montgomery())));
    }
    Some(out.join(" "))
}

fn mmseq_boxed(n: usize, m: &str, x: &str, y: &str, ops: &str) -> Option<String> {
    let modulus: Option<Odd<BoxedUint>> = Odd::new(arg!(boxed(m, n))).into();
    let p = BoxedMontyParams::new(arg!(modulus));
    let (mut acc, y) = (BoxedMontyForm::new(arg!(boxed(x, n)), p.clone()), BoxedMontyForm::new(arg!(boxed(y, n)), p.clone()));
    let mut mm = <<BoxedMontyForm as Monty>::Multiplier<'_>>::from(&p);
    let mut out = Vec::new();
    for c in ops.chars() {
        match c {
            'm' => mm.mul_assign(&mut acc, &y),
            's' => mm.square_assign(&mut acc),
            _ => return Some(BAD.to_string()),
        }
        out.push(format!("{}/{}", bhex(&acc.retrieve()), bhex(acc.as_montgomery())));
    }
    Some(out.join(" "))
}

struct ParamsEqConst;
impl ConstVisitor for ParamsEqConst {
    fn visit<P: ConstMontyParams<N>, const N: usize>(self) -> Option<String> {
        params_eq_const::<P, N>()
    }
}
fn params_eq_const<P: ConstMontyParams<N>, const N: usize>() -> Option<String> {
    let a = MontyParams::<N>::from_const_params::<P>();
    let b = MontyParams::<N>::new_vartime(P::MODULUS);
    let c = BoxedMontyParams::from_const_params::<N, P>();
    let d = BoxedMontyParams::new(Odd::<BoxedUint>::from(&P::MODULUS));
    Some(format!("{} {}", bit(a == b), bit(c == d)))
}

// ------------------------------------------------------------------ single operations

fn redc<const N: usize>(lo: &str, hi: &str, m: &str, k: &str) -> Option<String> {
    let modulus: Option<Odd<Uint<N>>> = Odd::new(arg!(uint::<N>(m))).into();
    let modulus = arg!(modulus);
    let r = montgomery_reduction(&(arg!(uint::<N>(lo)), arg!(uint::<N>(hi))), &modulus, arg!(limb(k)));
    Some(uhex(&r))
}

fn mul_mod_fixed<const N: usize, const W: usize>(a: &str, b: &str, p: &str) -> Option<String>
where
    Uint<N>: Concat<Output = Uint<W>>,
    Uint<W>: Split<Output = Uint<N>>,
{
    let p: Option<NonZero<Uint<N>>> = NonZero::new(arg!(uint::<N>(p))).into();
    Some(uhex(&arg!(uint::<N>(a)).mul_mod(&arg!(uint::<N>(b)), &arg!(p))))
}

// ------------------------------------------------------------------ hooks

fn limbs_of(s: &str, n: usize) -> Option<Vec<Limb>> {
    Some(hex_words(s, n)?.into_iter().map(Limb).collect())
}
fn limbs_hex(l: &[Limb]) -> String {
    words_hex(&l.iter().map(|x| x.0).collect::<Vec<_>>())
}

#[cfg(crypto_bigint_verif)]
fn hook_amm(n: usize, x: &str, y: Option<&str>, m: &str, k: &str) -> Option<String> {
    if n == 0 || n > 128 {
        return Some("unsupported-width".to_string());
    }
    let (x, m, k) = (arg!(limbs_of(x, n)), arg!(limbs_of(m, n)), arg!(limb(k)));
    let mut z = vec![Limb::ZERO; n];
    match y {
        Some(y) => hooks::almost_montgomery_mul(&mut z, &x, &arg!(limbs_of(y, n)), &m, k),
        None => hooks::almost_montgomery_mul_by_one(&mut z, &x, &m, k),
    }
    Some(limbs_hex(&z))
}

#[cfg(crypto_bigint_verif)]
fn hook_redc_inner(n: usize, lo: &str, hi: &str, m: &str, k: &str) -> Option<String> {
    if n == 0 || n > 128 {
        return Some("unsupported-width".to_string());
    }
    let (mut lower, mut upper) = (arg!(limbs_of(lo, n)), arg!(limbs_of(hi, n)));
    let meta = hooks::montgomery_reduction_inner(&mut upper, &mut lower, &arg!(limbs_of(m, n)), arg!(limb(k)));
    Some(format!("{} {}", limbs_hex(&upper), lhex(meta)))
}

#[cfg(crypto_bigint_verif)]
fn fields_line_fixed<const N: usize>(p: &MontyParams<N>) -> String {
    let (one, r2, r3, k, lz) = p.verif_fields();
    format!("mod={} one={} r2={} r3={} k={} lz={}", uhex(p.modulus().as_ref()), uhex(&one), uhex(&r2), uhex(&r3), lhex(k), lz)
}
#[cfg(crypto_bigint_verif)]
fn fields_line_boxed(p: &BoxedMontyParams) -> String {
    let (one, r2, r3, k, lz) = p.verif_fields();
    format!("mod={} one={} r2={} r3={} k={} lz={}", bhex(p.modulus().as_ref()), bhex(one), bhex(r2), bhex(r3), lhex(k), lz)
}

fn hook_params_dyn<const N: usize, const W: usize>(kind: &str, m: &str) -> Option<String>
where
    Uint<N>: Concat<Output = Uint<W>>,
    Uint<W>: Split<Output = Uint<N>>,
{
    let modulus: Option<Odd<Uint<N>>> = Odd::new(arg!(uint::<N>(m))).into();
    let modulus = arg!(modulus);
    let p = if kind == "dynv" { MontyParams::new_vartime(modulus) } else { MontyParams::new(modulus) };
    // the derived `Debug` text (what `c08.params` reads) must show the same fields
    if params_line(&format!("{p:?}")) != Some(fields_line_fixed(&p)) {
        return Some("debug-text-differs-from-fields".to_string());
    }
    Some(fields_line_fixed(&p))
}

fn hook_params_boxed(kind: &str, n: usize, m: &str) -> Option<String> {
    let modulus: Option<Odd<BoxedUint>> = Odd::new(arg!(boxed(m, n))).into();
    let modulus = arg!(modulus);
    let p = if kind == "boxedv" { BoxedMontyParams::new_vartime(modulus) } else { BoxedMontyParams::new(modulus) };
    if params_line(&format!("{p:?}")) != Some(fields_line_boxed(&p)) {
        return Some("debug-text-differs-from-fields".to_string());
    }
    Some(fields_line_boxed(&p))
}

struct HookParamsConst<'a>(&'a str);
impl ConstVisitor for HookParamsConst<'_> {
    fn visit<P: ConstMontyParams<N>, const N: usize>(self) -> Option<String> {
        match self.0 {
            "dynfromconst" => Some(fields_line_fixed(&MontyParams::<N>::from_const_params::<P>())),
            "boxedfromconst" => Some(fields_line_boxed(&BoxedMontyParams::from_const_params::<N, P>())),
            _ => Some(BAD.to_string()),
        }
    }
}

pub fn dispatch(op: &str, a: &[&str]) -> Option<String> {
    match (op, a) {
        ("c08.hook.amm", [n, x, y, m, k]) => hook_amm(arg!(dec(n)), x, Some(y), m, k),
        ("c08.hook.amm_by_one", [n, x, m, k]) => hook_amm(arg!(dec(n)), x, None, m, k),
        ("c08.hook.redc_inner", [n, lo, hi, m, k]) => hook_redc_inner(arg!(dec(n)), lo, hi, m, k),
        ("c08.hook.params", [kind, n, m]) => {
            let n = arg!(dec(n));
            match *kind {
                "dyn" | "dynv" => with_nw!(n, hook_params_dyn, kind, m),
                "boxed" | "boxedv" => hook_params_boxed(kind, n, m),
                "dynfromconst" | "boxedfromconst" => with_const_modulus(n, m, HookParamsConst(kind)),
                _ => Some(BAD.to_string()),
            }
        }
        ("c08.hist", [kind, n, m, ops]) => {
            let n = arg!(dec(n));
            let steps = arg!(parse_steps(ops));
            let steps = steps.as_slice();
            match *kind {
                "dyn" | "dynv" | "dynt" => with_nw!(n, hist_dyn, kind, m, steps),
                "const" => with_const_modulus(n, m, HistConst(m, steps)),
                "boxed" | "boxedv" | "boxedt" => hist_boxed(kind, n, m, steps),
                _ => Some(BAD.to_string()),
            }
        }
        ("c08.params", [kind, n, m]) => {
            let n = arg!(dec(n));
            match *kind {
                "dyn" | "dynv" | "dynt" => with_nw!(n, params_dyn, kind, m),
                "boxed" | "boxedv" | "boxedt" => params_boxed(kind, n, m),
                "const" | "dynfromconst" | "boxedfromconst" => with_const_modulus(n, m, ParamsConst(kind)),
                _ => Some(BAD.to_string()),
            }
        }
        ("c08.params_eq", [n, m]) => {
            let n = arg!(dec(n));
            with_nw!(n, params_eq, m)
        }
        ("c08.params_cteq", [n, m1, m2]) => {
            let n = arg!(dec(n));
            with_nw!(n, params_cteq, m1, m2)
        }
        ("c08.params_select", [n, m1, m2, c, x]) => {
            let n = arg!(dec(n));
            with_nw!(n, params_select, m1, m2, c, x)
        }
        ("c08.params_eq_const", [n, m]) => {
            let n = arg!(dec(n));
            with_const_modulus(n, m, ParamsEqConst)
        }
        ("c08.redc", [n, lo, hi, m, k]) => {
            let n = arg!(dec(n));
            with_n!(n, redc, lo, hi, m, k)
        }
        ("c08.mmseq", [kind, n, m, x, y, ops]) => {
            let n = arg!(dec(n));
            match *kind {
                "dyn" => with_nw!(n, mmseq_dyn, m, x, y, ops),
                "boxed" => mmseq_boxed(n, m, x, y, ops),
                _ => Some(BAD.to_string()),
            }
        }
        ("c08.mul_mod", [kind, n, x, y, p]) => {
            let n = arg!(dec(n));
            match *kind {
                "dyn" => with_nw!(n, mul_mod_fixed, x, y, p),
                "boxed" => {
                    let (x, y, p) = (arg!(boxed(x, n)), arg!(boxed(y, n)), arg!(boxed(p, n)));
                    if !bool::from(p.is_odd()) {
                        return Some(BAD.to_string());
                    }
                    Some(bhex(&x.mul_mod(&y, &p)))
                }
                _ => Some(BAD.to_string()),
            }
        }
        _ => None,
    }
}

// ---- the same entry points when the crate is built WITHOUT `--cfg crypto_bigint_verif` (fallback build of the runner when the
// hook forwarders of /repo no longer compile, e.g. after a refactor of an internal signature): hook operations answer
// `hook-unavailable` and are skipped by the runner; the public operations still run.
#[cfg(not(crypto_bigint_verif))]
fn hook_amm(_n: usize, _x: &str, _y: Option<&str>, _m: &str, _k: &str) -> Option<String> {
    Some(crate::util::HOOK_UNAVAILABLE.to_string())
}
#[cfg(not(crypto_bigint_verif))]
fn hook_redc_inner(_n: usize, _lo: &str, _hi: &str, _m: &str, _k: &str) -> Option<String> {
    Some(crate::util::HOOK_UNAVAILABLE.to_string())
}
// without the field accessors the parameters are read from the derived `Debug` text (the hook build checks that both agree)
#[cfg(not(crypto_bigint_verif))]
fn fields_line_fixed<const N: usize>(p: &MontyParams<N>) -> String {
    params_line(&format!("{p:?}")).unwrap_or_else(|| "debug-text-unparsable".to_string())
}
#[cfg(not(crypto_bigint_verif))]
fn fields_line_boxed(p: &BoxedMontyParams) -> String {
    params_line(&format!("{p:?}")).unwrap_or_else(|| "debug-text-unparsable".to_string())
}
