//! C18 operations (op names start with `c18.`)
#[allow(unused_imports)]
use crate::util::*;

pub fn dispatch(_op: &str, _a: &[&str]) -> Option<String> {
    None
}
