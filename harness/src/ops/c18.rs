//! C18 — DER INTEGER and RLP codecs of `Uint<N>` (src/uint/encoding/{der,rlp}.rs, src/uint/array.rs).
//! Every decoder error is printed as `err` (the property only demands "an error"); a panic is
//! printed as `panic` by main.rs.
use crate::util::*;
use crypto_bigint::Uint;
use der::asn1::{AnyRef, UintRef};
use der::{Decode, Encode, EncodeValue, Tag};

macro_rules! widths {
    ($n:expr, $f:ident, $($args:expr),*) => {
        match $n {
            1 => $f::<1>($($args),*),
            2 => $f::<2>($($args),*),
            3 => $f::<3>($($args),*),
            4 => $f::<4>($($args),*),
            6 => $f::<6>($($args),*),
            7 => $f::<7>($($args),*),
            8 => $f::<8>($($args),*),
            9 => $f::<9>($($args),*),
            12 => $f::<12>($($args),*),
            13 => $f::<13>($($args),*),
            14 => $f::<14>($($args),*),
            16 => $f::<16>($($args),*),
            24 => $f::<24>($($args),*),
            28 => $f::<28>($($args),*),
            32 => $f::<32>($($args),*),
            48 => $f::<48>($($args),*),
            56 => $f::<56>($($args),*),
            64 => $f::<64>($($args),*),
            96 => $f::<96>($($args),*),
            128 => $f::<128>($($args),*),
            _ => Some("unsupported-width".to_string()),
        }
    };
}

fn res<const N: usize, E>(r: Result<Uint<N>, E>) -> String {
    match r {
        Ok(v) => uhex(&v),
        Err(_) => "err".into(),
    }
}

fn der_ops<const N: usize>(op: &str, a: &[&str]) -> Option<String>
where
    Uint<N>: crypto_bigint::ArrayEncoding,
{
    Some(match (op, a) {
        // Encode::to_der (header + value through UintRef)
        ("c18.der.to_der", [v]) => {
            let v = arg!(uint::<N>(v));
            match v.to_der() {
                Ok(b) => bytes_tok(&b),
                Err(_) => "err".into(),
            }
        }
        // Encode::encoded_len and EncodeValue::value_len
        ("c18.der.len", [v]) => {
            let v = arg!(uint::<N>(v));
            match (v.encoded_len(), v.value_len()) {
                (Ok(e), Ok(l)) => format!("{} {}", u32::from(e), u32::from(l)),
                _ => "err".into(),
            }
        }
        // Encode::encode_to_slice into a buffer of the given size (too small => err)
        ("c18.der.encode_to_slice", [v, cap]) => {
            let v = arg!(uint::<N>(v));
            let mut buf = vec![0u8; arg!(dec(cap))];
            match v.encode_to_slice(&mut buf) {
                Ok(b) => bytes_tok(b),
                Err(_) => "err".into(),
            }
        }
        // Decode::from_der (Header::decode, tag check, DecodeValue, trailing-data check)
        ("c18.der.from_der", [b]) => {
            let b = arg!(bytes(b));
            res(Uint::<N>::from_der(&b))
        }
        // AnyRef::from_der then TryFrom<AnyRef>
        ("c18.der.any_from_der", [b]) => {
            let b = arg!(bytes(b));
            match AnyRef::from_der(&b) {
                Ok(any) => res(Uint::<N>::try_from(any)),
                Err(_) => "err".into(),
            }
        }
        // TryFrom<AnyRef> on a hand-made ANY (tag octet, content octets)
        ("c18.der.any", [t, b]) => {
            let t = arg!(bytes(t));
            let b = arg!(bytes(b));
            if t.len() != 1 {
                return Some(BAD.into());
            }
            match Tag::try_from(t[0]).and_then(|tag| AnyRef::new(tag, &b)) {
                Ok(any) => res(Uint::<N>::try_from(any)),
                Err(_) => "err".into(),
            }
        }
        // TryFrom<UintRef> on a hand-made UintRef (UintRef::new strips leading zeros)
        ("c18.der.uintref", [b]) => {
            let b = arg!(bytes(b));
            match UintRef::new(&b) {
                Ok(u) => res(Uint::<N>::try_from(u)),
                Err(_) => "err".into(),
            }
        }
        _ => return None,
    })
}

/// `rlp::Encodable` exists for every alias width
fn rlp_enc<const N: usize>(op: &str, a: &[&str]) -> Option<String>
where
    Uint<N>: crypto_bigint::Encoding + rlp::Encodable,
{
    Some(match (op, a) {
        ("c18.rlp.encode", [v]) => {
            let v = arg!(uint::<N>(v));
            bytes_tok(&rlp::encode(&v))
        }
        _ => return None,
    })
}

/// `rlp::Decodable` needs `Repr: Default`, i.e. `[u8; BYTES]` with `BYTES <= 32`: U64, U128, U192, U256 only
fn rlp_dec<const N: usize>(op: &str, a: &[&str]) -> Option<String>
where
    Uint<N>: crypto_bigint::Encoding + rlp::Encodable + rlp::Decodable,
{
    Some(match (op, a) {
        ("c18.rlp.decode", [b]) => {
            let b = arg!(bytes(b));
            res(rlp::decode::<Uint<N>>(&b))
        }
        // the same value as the only element of a list: RlpStream::append inside a list, Rlp::val_at
        ("c18.rlp.list1", [v]) => {
            let v = arg!(uint::<N>(v));
            let mut s = rlp::RlpStream::new_list(1);
            s.append(&v);
            let out = s.out();
            let back = rlp::Rlp::new(&out).val_at::<Uint<N>>(0);
            format!("{} {}", bytes_tok(&out), res(back))
        }
        // three values as the elements of ONE bounded list (`RlpStream::new_list(3)`): the item counter of the stream must
        // advance once per element whatever the element is (seed C18-m8: a zero fast path counted the element twice, so a
        // zero that is not the last element closed the list early); decoded back element by element
        ("c18.rlp.list3", [v1, v2, v3]) => {
            let vs = [arg!(uint::<N>(v1)), arg!(uint::<N>(v2)), arg!(uint::<N>(v3))];
            let mut s = rlp::RlpStream::new_list(3);
            for v in &vs {
                s.append(v);
            }
            if !s.is_finished() {
                return Some("list-not-finished".to_string());
            }
            let out = s.out();
            let r = rlp::Rlp::new(&out);
            let n_items = r.item_count().map(|c| c.to_string()).unwrap_or("err".into());
            format!(
                "{} {} {} {} {}",
                bytes_tok(&out),
                n_items,
                res(r.val_at::<Uint<N>>(0)),
                res(r.val_at::<Uint<N>>(1)),
                res(r.val_at::<Uint<N>>(2))
            )
        }
        _ => return None,
    })
}

pub fn dispatch(op: &str, a: &[&str]) -> Option<String> {
    if a.is_empty() {
        return None;
    }
    let n = arg!(dec(a[0]));
    let rest = &a[1..];
    if op.starts_with("c18.der.") {
        widths!(n, der_ops, op, rest)
    } else if op == "c18.rlp.encode" {
        widths!(n, rlp_enc, op, rest)
    } else if op.starts_with("c18.rlp.") {
        match n {
            1 => rlp_dec::<1>(op, rest),
            2 => rlp_dec::<2>(op, rest),
            3 => rlp_dec::<3>(op, rest),
            4 => rlp_dec::<4>(op, rest),
            _ => Some("unsupported-width".to_string()),
        }
    } else {
        None
    }
}
