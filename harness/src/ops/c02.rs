//! C02 operations (op names start with `c02.`)
#[allow(unused_imports)]
use crate::util::*;

pub fn dispatch(_op: &str, _a: &[&str]) -> Option<String> {
    None
}
