//! C02 — unsigned division and remainder (op names start with `c02.`)
//!
//! `c02.recip d`                      Reciprocal::new observed through its Debug output
//! `c02.div2by1 u1 u0 d`              div2by1 observed through a two-limb `div_rem_limb_with_reciprocal`
//! `c02.u.<name> L n d`               fixed width, same-width divisor (or limb divisor)
//! `c02.u.<name>_mixed L R n d`       fixed width, mixed widths
//! `c02.u.rem_wide_vartime L lo hi d`, `c02.u.rem2k_vartime L n k`
//! `c02.b.<name> NL DL n d`           boxed, `c02.b.div_rem_limb NL n d`
//!
//! `c02.hook.<name> …`               crate-internal functions through `crypto_bigint::verif_hooks`:
//!     `short_div dividend dividend_bits divisor divisor_bits` (decimal bit counts, hex u32 values),
//!     `recip_fields d` (`Reciprocal::new(d).verif_fields()`, cross-checked with the Debug output and `shift()`),
//!     `reciprocal d` (raw `reciprocal(d)`, d normalised), `div2by1 u1 u0 d`, `div3by2 u2 u1 u0 v1 v0`
//!     (with `Reciprocal::new(d)` / `Reciprocal::new(v1)`)
//! `c02.u.recip_select L n d c`        `Reciprocal::default()` / `Default::default()` / `ConditionallySelectable::
//!     conditional_select` between `Reciprocal::new(d)` and the default (c: bit 0 = choice, bit 1 = operand order),
//!     then `div_rem_limb_with_reciprocal` / `rem_limb_with_reciprocal` (inherent + trait) with the selected one
//! `c02.b.recip_select NL n d c`       the same on `BoxedUint`
//!
//! Ops ending in `_forms` / printing a trailing `ok` run every forwarding form of the API
//! (operators by value / reference / assigning, `Wrapping`, checked, trait methods) and print `ok`
//! only if all of them return the primary result.
use crate::util::*;
#[cfg(crypto_bigint_verif)]
use crypto_bigint::verif_hooks as hooks;
/// stand-ins for the two forwarders used inside PUBLIC operation lines when the hooks are not compiled in
#[cfg(not(crypto_bigint_verif))]
mod hooks {
    use crypto_bigint::{Limb, Reciprocal, Uint};
    pub fn div_rem_limb_with_reciprocal<const N: usize>(x: &Uint<N>, rc: &Reciprocal) -> (Uint<N>, Limb) {
        x.div_rem_limb_with_reciprocal(rc)
    }
    pub fn rem_limb_with_reciprocal<const N: usize>(x: &Uint<N>, rc: &Reciprocal) -> Limb {
        x.rem_limb_with_reciprocal(rc)
    }
}
use crypto_bigint::{
    BoxedUint, CheckedDiv, DivRemLimb, DivVartime, Limb, NonZero, Reciprocal, RemLimb, RemMixed, Uint, Wrapping,
};

const NONE: &str = "none";

fn forms_tok<T: PartialEq>(base: &T, forms: &[T]) -> String {
    let bad: Vec<String> = forms.iter().enumerate().filter(|(_, f)| *f != base).map(|(i, _)| i.to_string()).collect();
    if bad.is_empty() { "ok".into() } else { format!("forms-differ:{}", bad.join(",")) }
}

/// parse `Reciprocal { divisor_normalized: X, shift: Y, reciprocal: Z }`
fn recip_fields(rc: &Reciprocal) -> Option<(u64, u32, u64)> {
    let s = format!("{rc:?}");
    let num = |key: &str| -> Option<u64> {
        let p = s.find(key)? + key.len();
        let rest = &s[p..];
        let end = rest.find(|c: char| !c.is_ascii_digit()).unwrap_or(rest.len());
        rest[..end].parse::<u64>().ok()
    };
    Some((num("divisor_normalized: ")?, num("shift: ")? as u32, num(" reciprocal: ")?))
}

/// `c`: bit 0 = the `Choice`, bit 1 = operand order (`0`: `select(new(d), default, c)`, `1`: `select(default, new(d), c)`).
/// Returns the selected reciprocal; `Err` = a form of `default` / the selection disagrees with its contract.
fn recip_select(d: Limb, c: usize) -> Option<Result<Reciprocal, String>> {
    use subtle::{Choice, ConditionallySelectable};
    let nz: NonZero<Limb> = Option::from(NonZero::new(d))?;
    let fresh = Reciprocal::new(nz);
    let dflt = Reciprocal::default();
    let dflt_trait: Reciprocal = Default::default();
    if dflt != dflt_trait || fields_tok(&dflt) != fields_tok(&dflt_trait) {
        return Some(Err("default-forms-differ".into()));
    }
    let choice = Choice::from((c & 1) as u8);
    let (a, b) = if c & 2 == 0 { (fresh, dflt) } else { (dflt, fresh) };
    let sel = Reciprocal::conditional_select(&a, &b, choice);
    // the other entry points of the trait are the provided methods on top of `conditional_select`
    let mut asg = a;
    asg.conditional_assign(&b, choice);
    if asg != sel {
        return Some(Err("select-forms-differ".into()));
    }
    Some(Ok(sel))
}

#[cfg(not(crypto_bigint_verif))]
fn fields_tok(rc: &Reciprocal) -> String {
    // without the field accessor: the fields as the derived `Debug` text shows them
    match recip_fields(rc) {
        Some((dn, sh, rv)) => format!("{dn:x} {sh} {rv:x}"),
        None => "debug-text-unparsable".to_string(),
    }
}
#[cfg(crypto_bigint_verif)]
fn fields_tok(rc: &Reciprocal) -> String {
    let (dn, sh, rv) = rc.verif_fields();
    format!("{dn:x} {sh} {rv:x}")
}

#[cfg(not(crypto_bigint_verif))]
fn hook_op(_name: &str, _a: &[&str]) -> Option<String> {
    Some(HOOK_UNAVAILABLE.to_string())
}
#[cfg(crypto_bigint_verif)]
fn hook_op(name: &str, a: &[&str]) -> Option<String> {
    Some(match (name, a) {
        ("short_div", [x, xb, y, yb]) => {
            let (x, y) = (arg!(word(x)), arg!(word(y)));
            if x > u32::MAX as u64 || y > u32::MAX as u64 {
                return Some(BAD.into());
            }
            format!("{:x}", hooks::short_div(x as u32, arg!(dec32(xb)), y as u32, arg!(dec32(yb))))
        }
        ("recip_fields", [d]) => {
            let d = arg!(limb(d));
            let nz: NonZero<Limb> = match Option::from(NonZero::new(d)) { Some(v) => v, None => return Some(NONE.into()) };
            let rc = Reciprocal::new(nz);
            let (dn, sh, rv) = rc.verif_fields();
            if Some((dn, sh, rv)) != recip_fields(&rc) || sh != rc.shift() || rv != hooks::reciprocal(dn) {
                return Some("forms-differ".into());
            }
            fields_tok(&rc)
        }
        ("reciprocal", [d]) => format!("{:x}", hooks::reciprocal(arg!(word(d)))),
        ("div2by1", [u1, u0, d]) => {
            let nz: NonZero<Limb> = match Option::from(NonZero::new(arg!(limb(d)))) { Some(v) => v, None => return Some(NONE.into()) };
            let (q, r) = hooks::div2by1(arg!(word(u1)), arg!(word(u0)), &Reciprocal::new(nz));
            format!("{q:x} {r:x}")
        }
        ("div3by2", [u2, u1, u0, v1, v0]) => {
            let nz: NonZero<Limb> = match Option::from(NonZero::new(arg!(limb(v1)))) { Some(v) => v, None => return Some(NONE.into()) };
            format!("{:x}", hooks::div3by2(arg!(word(u2)), arg!(word(u1)), arg!(word(u0)), &Reciprocal::new(nz), arg!(word(v0))))
        }
        _ => return None,
    })
}

fn fixed<const N: usize>(op: &str, a: &[&str]) -> Option<String> {
    Some(match (op, a) {
        ("c02.u.recip_select", [n, d, c]) => {
            let (x, d, c) = (arg!(uint::<N>(n)), arg!(limb(d)), arg!(dec(c)));
            let rc = match recip_select(d, c) {
                None => return Some(NONE.into()),
                Some(Err(e)) => return Some(e),
                Some(Ok(rc)) => rc,
            };
            let (q, r) = x.div_rem_limb_with_reciprocal(&rc);
            let rr = x.rem_limb_with_reciprocal(&rc);
            let f = vec![
                DivRemLimb::div_rem_limb_with_reciprocal(&x, &rc),
                hooks::div_rem_limb_with_reciprocal(&x, &rc),
                (q, RemLimb::rem_limb_with_reciprocal(&x, &rc)),
                (q, hooks::rem_limb_with_reciprocal(&x, &rc)),
                (q, rr),
            ];
            format!("{} {} {} {}", fields_tok(&rc), uhex(&q), lhex(r), forms_tok(&(q, r), &f))
        }
        ("c02.u.div_rem_limb", [n, d]) => {
            let (x, d) = (arg!(uint::<N>(n)), arg!(limb(d)));
            let nz: NonZero<Limb> = match Option::from(NonZero::new(d)) { Some(v) => v, None => return Some(NONE.into()) };
            let rc = Reciprocal::new(nz);
            let (q, r) = x.div_rem_limb(nz);
            let rr = x.rem_limb(nz);
            let base = (q, r);
            let mut qf: Vec<(Uint<N>, Limb)> = vec![
                x.div_rem_limb_with_reciprocal(&rc),
                DivRemLimb::div_rem_limb(&x, nz),
                DivRemLimb::div_rem_limb_with_reciprocal(&x, &rc),
                (x / nz, x % nz),
                (&x / &nz, &x % &nz),
                (x / &nz, x % &nz),
                (&x / nz, &x % nz),
                ((Wrapping(x) / nz).0, (Wrapping(x) % nz).0),
                ((&Wrapping(x) / nz).0, (&Wrapping(x) % nz).0),
                ((&Wrapping(x) / &nz).0, (&Wrapping(x) % &nz).0),
                ((Wrapping(x) / &nz).0, (Wrapping(x) % &nz).0),
                (q, x.rem_limb_with_reciprocal(&rc)),
                (q, RemLimb::rem_limb(&x, nz)),
                (q, RemLimb::rem_limb_with_reciprocal(&x, &rc)),
            ];
            {
                let (mut t, mut u) = (x, x);
                t /= nz;
                u /= &nz;
                qf.push((t, r));
                qf.push((u, r));
                let (mut t, mut u) = (x, x);
                t %= nz;
                u %= &nz;
                let rl = Uint::<N>::from(r);
                let fix = |v: Uint<N>| if v == rl { r } else { Limb(!r.0) };
                qf.push((q, fix(t)));
                qf.push((q, fix(u)));
                let (mut t, mut u) = (Wrapping(x), Wrapping(x));
                t /= nz;
                u /= &nz;
                qf.push((t.0, r));
                qf.push((u.0, r));
                let (mut t, mut u) = (Wrapping(x), Wrapping(x));
                t %= nz;
                u %= &nz;
                qf.push((q, fix(t.0)));
                qf.push((q, fix(u.0)));
            }
            format!("{} {} {} {}", uhex(&q), lhex(r), lhex(rr), forms_tok(&base, &qf))
        }
        ("c02.u.rem_wide_vartime", [lo, hi, d]) => {
            let (lo, hi, d) = (arg!(uint::<N>(lo)), arg!(uint::<N>(hi)), arg!(uint::<N>(d)));
            let nz: NonZero<Uint<N>> = match Option::from(NonZero::new(d)) { Some(v) => v, None => return Some(NONE.into()) };
            uhex(&Uint::<N>::rem_wide_vartime((lo, hi), &nz))
        }
        ("c02.u.rem2k_vartime", [n, k]) => {
            let (x, k) = (arg!(uint::<N>(n)), arg!(dec32(k)));
            uhex(&x.rem2k_vartime(k))
        }
        ("c02.u.checked_div", [n, d]) => {
            let (x, d) = (arg!(uint::<N>(n)), arg!(uint::<N>(d)));
            let r: Option<Uint<N>> = x.checked_div(&d).into();
            let t: Option<Uint<N>> = CheckedDiv::checked_div(&x, &d).into();
            if r != t { "forms-differ".into() } else { r.map(|v| uhex(&v)).unwrap_or(NONE.into()) }
        }
        ("c02.u.checked_rem", [n, d]) => {
            let (x, d) = (arg!(uint::<N>(n)), arg!(uint::<N>(d)));
            let r: Option<Uint<N>> = x.checked_rem(&d).into();
            r.map(|v| uhex(&v)).unwrap_or(NONE.into())
        }
        ("c02.u.op_div_uint", [n, d]) => {
            let (x, d) = (arg!(uint::<N>(n)), arg!(uint::<N>(d)));
            let q = x / d;
            let q2 = &x / d;
            format!("{} {}", uhex(&q), forms_tok(&q, &[q2]))
        }
        ("c02.u.op_rem_uint", [n, d]) => {
            let (x, d) = (arg!(uint::<N>(n)), arg!(uint::<N>(d)));
            let q = x % d;
            let q2 = &x % d;
            format!("{} {}", uhex(&q), forms_tok(&q, &[q2]))
        }
        ("c02.u.wrapping_rem_vartime", [n, d]) => {
            let (x, d) = (arg!(uint::<N>(n)), arg!(uint::<N>(d)));
            uhex(&x.wrapping_rem_vartime(&d))
        }
        (_, [n, d]) => {
            let (x, d) = (arg!(uint::<N>(n)), arg!(uint::<N>(d)));
            let nz: NonZero<Uint<N>> = match Option::from(NonZero::new(d)) { Some(v) => v, None => return Some(NONE.into()) };
            match op {
                "c02.u.div_rem" => {
                    let (q, r) = x.div_rem(&nz);
                    format!("{} {}", uhex(&q), uhex(&r))
                }
                "c02.u.div_forms" => {
                    let q = x.wrapping_div(&nz);
                    let mut f = vec![
                        x.div_rem(&nz).0,
                        x / nz,
                        &x / &nz,
                        x / &nz,
                        &x / nz,
                        (Wrapping(x) / nz).0,
                        (&Wrapping(x) / nz).0,
                        (&Wrapping(x) / &nz).0,
                        (Wrapping(x) / &nz).0,
                        Option::<Uint<N>>::from(x.checked_div(&d)).unwrap_or(Uint::MAX),
                        Option::<Uint<N>>::from(CheckedDiv::checked_div(&x, &d)).unwrap_or(Uint::MAX),
                    ];
                    let (mut t, mut u) = (x, x);
                    t /= nz;
                    u /= &nz;
                    f.push(t);
                    f.push(u);
                    let (mut t, mut u) = (Wrapping(x), Wrapping(x));
                    t /= nz;
                    u /= &nz;
                    f.push(t.0);
                    f.push(u.0);
                    format!("{} {}", uhex(&q), forms_tok(&q, &f))
                }
                "c02.u.rem_forms" => {
                    let r = x.rem(&nz);
                    let mut f = vec![
                        x.div_rem(&nz).1,
                        x % nz,
                        &x % &nz,
                        x % &nz,
                        &x % nz,
                        (Wrapping(x) % nz).0,
                        (&Wrapping(x) % nz).0,
                        (&Wrapping(x) % &nz).0,
                        (Wrapping(x) % &nz).0,
                        Option::<Uint<N>>::from(x.checked_rem(&d)).unwrap_or(Uint::MAX),
                    ];
                    let (mut t, mut u) = (x, x);
                    t %= nz;
                    u %= &nz;
                    f.push(t);
                    f.push(u);
                    let (mut t, mut u) = (Wrapping(x), Wrapping(x));
                    t %= nz;
                    u %= &nz;
                    f.push(t.0);
                    f.push(u.0);
                    format!("{} {}", uhex(&r), forms_tok(&r, &f))
                }
                "c02.u.div_rem_vartime" => {
                    let (q, r) = x.div_rem_vartime(&nz);
                    let f = vec![
                        (x.wrapping_div_vartime(&nz), x.rem_vartime(&nz)),
                        (DivVartime::div_vartime(&x, &nz), x.wrapping_rem_vartime(&d)),
                    ];
                    format!("{} {} {}", uhex(&q), uhex(&r), forms_tok(&(q, r), &f))
                }
                _ => return None,
            }
        }
        _ => return None,
    })
}

fn mixed<const L: usize, const R: usize>(a: &[&str]) -> Option<String> {
    let (x, d) = (arg!(uint::<L>(a[0])), arg!(uint::<R>(a[1])));
    let nz: NonZero<Uint<R>> = match Option::from(NonZero::new(d)) { Some(v) => v, None => return Some(NONE.into()) };
    let (q, r) = x.div_rem_vartime(&nz);
    if x.wrapping_div_vartime(&nz) != q {
        return Some("forms-differ".into());
    }
    Some(format!("{} {}", uhex(&q), uhex(&r)))
}

fn rem_mixed<const L: usize, const R: usize>(a: &[&str]) -> Option<String>
where
    Uint<L>: RemMixed<Uint<R>>,
{
    let (x, d) = (arg!(uint::<L>(a[0])), arg!(uint::<R>(a[1])));
    let nz: NonZero<Uint<R>> = match Option::from(NonZero::new(d)) { Some(v) => v, None => return Some(NONE.into()) };
    Some(uhex(&x.rem_mixed(&nz)))
}

macro_rules! with_w {
    ($n:expr, $f:ident, $($args:expr),*) => {
        match $n {
            1 => $f::<1>($($args),*), 2 => $f::<2>($($args),*), 3 => $f::<3>($($args),*),
            4 => $f::<4>($($args),*), 5 => $f::<5>($($args),*), 6 => $f::<6>($($args),*),
            7 => $f::<7>($($args),*), 8 => $f::<8>($($args),*), 12 => $f::<12>($($args),*),
            16 => $f::<16>($($args),*), 32 => $f::<32>($($args),*), 64 => $f::<64>($($args),*),
            _ => Some("unsupported-width".to_string()),
        }
    };
}

macro_rules! pairs {
    ($l:expr, $r:expr, $f:ident, $a:expr, [$(($x:literal, $y:literal)),* $(,)?]) => {
        match ($l, $r) {
            $( ($x, $y) => $f::<$x, $y>($a), )*
            _ => Some("unsupported-width".to_string()),
        }
    };
}

fn boxed_op(op: &str, a: &[&str]) -> Option<String> {
    let (nl, dl) = (arg!(dec(a[0])), arg!(dec(a[1])));
    let (x, d) = (arg!(boxed(a[2], nl)), arg!(boxed(a[3], dl)));
    let name = op.strip_prefix("c02.b.")?;
    if name == "checked_div" || name == "checked_div_mixed" {
        let r: Option<BoxedUint> = x.checked_div(&d).into();
        let t: Option<BoxedUint> = CheckedDiv::checked_div(&x, &d).into();
        return Some(if r != t { "forms-differ".into() } else { r.map(|v| bhexlen(&v)).unwrap_or(NONE.into()) });
    }
    let nz: NonZero<BoxedUint> = match Option::from(NonZero::new(d.clone())) { Some(v) => v, None => return Some(NONE.into()) };
    Some(match name {
        "div_rem" | "div_rem_mixed" => {
            let (q, r) = x.div_rem(&nz);
            format!("{} {}", bhexlen(&q), bhexlen(&r))
        }
        "div_forms" | "div_forms_mixed" => {
            let q = x.wrapping_div(&nz);
            let key = |v: &BoxedUint| bhexlen(v);
            let mut f = vec![
                key(&x.div_rem(&nz).0),
                key(&(x.clone() / nz.clone())),
                key(&(&x / &nz)),
                key(&(x.clone() / &nz)),
                key(&(&x / nz.clone())),
                key(&(Wrapping(x.clone()) / nz.clone()).0),
                key(&(&Wrapping(x.clone()) / nz.clone()).0),
                key(&(&Wrapping(x.clone()) / &nz).0),
                key(&(Wrapping(x.clone()) / &nz).0),
                Option::<BoxedUint>::from(x.checked_div(&d)).map(|v| key(&v)).unwrap_or(NONE.into()),
                Option::<BoxedUint>::from(CheckedDiv::checked_div(&x, &d)).map(|v| key(&v)).unwrap_or(NONE.into()),
            ];
            let (mut t, mut u) = (x.clone(), x.clone());
            t /= nz.clone();
            u /= &nz;
            f.push(key(&t));
            f.push(key(&u));
            let (mut t, mut u) = (Wrapping(x.clone()), Wrapping(x.clone()));
            t /= nz.clone();
            u /= &nz;
            f.push(key(&t.0));
            f.push(key(&u.0));
            format!("{} {}", key(&q), forms_tok(&key(&q), &f))
        }
        "rem_forms" | "rem_forms_mixed" => {
            let r = x.rem(&nz);
            let key = |v: &BoxedUint| bhexlen(v);
            let mut f = vec![
                key(&x.div_rem(&nz).1),
                key(&(x.clone() % nz.clone())),
                key(&(&x % &nz)),
                key(&(x.clone() % &nz)),
                key(&(&x % nz.clone())),
            ];
            let (mut t, mut u) = (x.clone(), x.clone());
            t %= nz.clone();
            u %= &nz;
            f.push(key(&t));
            f.push(key(&u));
            format!("{} {}", key(&r), forms_tok(&key(&r), &f))
        }
        "div_rem_vartime" => {
            let (q, r) = x.div_rem_vartime(&nz);
            let key = |q: &BoxedUint, r: &BoxedUint| format!("{} {}", bhexlen(q), bhexlen(r));
            let f = vec![
                key(&x.wrapping_div_vartime(&nz), &x.rem_mixed(&nz)),
                key(&DivVartime::div_vartime(&x, &nz), &r),
            ];
            format!("{} {}", key(&q, &r), forms_tok(&key(&q, &r), &f))
        }
        "rem_vartime" => bhexlen(&x.rem_vartime(&nz)),
        _ => return None,
    })
}

fn boxed_limb(a: &[&str]) -> Option<String> {
    let nl = arg!(dec(a[0]));
    let (x, d) = (arg!(boxed(a[1], nl)), arg!(limb(a[2])));
    let nz: NonZero<Limb> = match Option::from(NonZero::new(d)) { Some(v) => v, None => return Some(NONE.into()) };
    let rc = Reciprocal::new(nz);
    let (q, r) = x.div_rem_limb(nz);
    let rr = x.rem_limb(nz);
    let key = |q: &BoxedUint, r: Limb| format!("{} {}", bhexlen(q), lhex(r));
    let f = vec![
        { let (q2, r2) = x.div_rem_limb_with_reciprocal(&rc); key(&q2, r2) },
        { let (q2, r2) = DivRemLimb::div_rem_limb(&x, nz); key(&q2, r2) },
        { let (q2, r2) = DivRemLimb::div_rem_limb_with_reciprocal(&x, &rc); key(&q2, r2) },
        key(&q, if x.rem_limb_with_reciprocal(&rc) == rr { r } else { Limb(!r.0) }),
        key(&q, if RemLimb::rem_limb(&x, nz) == rr { r } else { Limb(!r.0) }),
        key(&q, if RemLimb::rem_limb_with_reciprocal(&x, &rc) == rr { r } else { Limb(!r.0) }),
    ];
    Some(format!("{} {} {}", key(&q, r), lhex(rr), forms_tok(&key(&q, r), &f)))
}

fn boxed_recip_select(a: &[&str]) -> Option<String> {
    let nl = arg!(dec(a[0]));
    let (x, d, c) = (arg!(boxed(a[1], nl)), arg!(limb(a[2])), arg!(dec(a[3])));
    let rc = match recip_select(d, c) {
        None => return Some(NONE.into()),
        Some(Err(e)) => return Some(e),
        Some(Ok(rc)) => rc,
    };
    let (q, r) = x.div_rem_limb_with_reciprocal(&rc);
    let rr = x.rem_limb_with_reciprocal(&rc);
    let key = |q: &BoxedUint, r: Limb| format!("{} {}", bhexlen(q), lhex(r));
    let f = vec![
        { let (q2, r2) = DivRemLimb::div_rem_limb_with_reciprocal(&x, &rc); key(&q2, r2) },
        key(&q, RemLimb::rem_limb_with_reciprocal(&x, &rc)),
        key(&q, rr),
    ];
    Some(format!("{} {} {}", fields_tok(&rc), key(&q, r), forms_tok(&key(&q, r), &f)))
}

pub fn dispatch(op: &str, a: &[&str]) -> Option<String> {
    if let Some(name) = op.strip_prefix("c02.hook.") {
        return hook_op(name, a);
    }
    match (op, a) {
        ("c02.b.recip_select", [_, _, _, _]) => boxed_recip_select(a),
        ("c02.recip", [d]) => {
            let d = arg!(limb(d));
            let nz: NonZero<Limb> = match Option::from(NonZero::new(d)) { Some(v) => v, None => return Some(NONE.into()) };
            let rc = Reciprocal::new(nz);
            let (dn, sh, rv) = arg!(recip_fields(&rc));
            if sh != rc.shift() {
                return Some("forms-differ".into());
            }
            Some(format!("{dn:x} {sh} {rv:x}"))
        }
        ("c02.div2by1", [u1, u0, d]) => {
            let (u1, u0, d) = (arg!(word(u1)), arg!(word(u0)), arg!(limb(d)));
            let nz: NonZero<Limb> = match Option::from(NonZero::new(d)) { Some(v) => v, None => return Some(NONE.into()) };
            let rc = Reciprocal::new(nz);
            if rc.shift() != 0 || u1 >= d.0 {
                return Some(BAD.into());
            }
            let (q, r) = Uint::<2>::from_words([u0, u1]).div_rem_limb_with_reciprocal(&rc);
            Some(format!("{} {}", uhex(&q), lhex(r)))
        }
        ("c02.u.div_rem_vartime_mixed", [l, r, n, d]) => {
            let (l, r) = (arg!(dec(l)), arg!(dec(r)));
            let rest = [*n, *d];
            pairs!(l, r, mixed, &rest, [
                (1, 1), (1, 2), (1, 3), (1, 4), (1, 8),
                (2, 1), (2, 2), (2, 3), (2, 4), (2, 6),
                (3, 1), (3, 2), (3, 3), (3, 4), (3, 8),
                (4, 1), (4, 2), (4, 3), (4, 4), (4, 6), (4, 8), (4, 16),
                (6, 1), (6, 2), (6, 3), (6, 4), (6, 6), (6, 8),
                (8, 1), (8, 2), (8, 3), (8, 4), (8, 6), (8, 8), (8, 16),
                (16, 1), (16, 2), (16, 4), (16, 8), (16, 16), (16, 32),
                (32, 1), (32, 4), (32, 16), (32, 32), (32, 64),
                (64, 1), (64, 8), (64, 32), (64, 64),
            ])
        }
        ("c02.u.rem_mixed", [l, r, n, d]) => {
            let (l, r) = (arg!(dec(l)), arg!(dec(r)));
            let rest = [*n, *d];
            pairs!(l, r, rem_mixed, &rest, [
                (3, 1), (3, 2), (4, 1), (4, 3), (8, 3), (8, 5), (16, 7), (16, 9), (16, 15),
            ])
        }
        ("c02.b.div_rem_limb", [_, _, _]) => boxed_limb(a),
        _ if op.starts_with("c02.b.") && a.len() == 4 => boxed_op(op, a),
        _ if op.starts_with("c02.u.") && !a.is_empty() => {
            let n = arg!(dec(a[0]));
            let rest = &a[1..];
            with_w!(n, fixed, op, rest)
        }
        _ => None,
    }
}
