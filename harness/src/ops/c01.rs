//! C01 — value correspondence for the leakage model (op names start with `c01.leak.`; crate-internal functions
//! reached through `crypto_bigint::verif_hooks` are `c01.hook.<name>`).
//!
//! Each op calls the REAL public function(s) that one `CB.Leak.*` model function stands for and prints the results in
//! the format of `lean/CB/Driver/C01.lean` (which prints `L1 ;; L0`: leak-model value ;; plain specification).
//! Limb counts, shift amounts, bit indices: decimal.  Values: hex.  Signed values: hex of the two's complement limbs.
use crate::util::*;
use crypto_bigint::modular::{MontyForm, MontyParams};
use crypto_bigint::{MulMod, MultiExponentiateBoundedExp, RandomMod};
use crypto_bigint::subtle::{
    Choice, ConditionallyNegatable, ConditionallySelectable, ConstantTimeEq, ConstantTimeGreater, ConstantTimeLess,
    CtOption,
};
#[cfg(crypto_bigint_verif)]
use crypto_bigint::verif_hooks as hooks;
use crypto_bigint::{
    BitOps, BoxedUint, CheckedMul, CheckedSub, ConstCtOption, ConstantTimeSelect, Int, Limb, NonZero, Odd,
    Uint, Word, Zero,
};
use std::cmp::Ordering;

fn co<const N: usize>(o: ConstCtOption<Uint<N>>) -> String {
    let o: Option<Uint<N>> = o.into();
    o.map(|v| uhex(&v)).unwrap_or("none".into())
}
fn coi<const N: usize>(o: ConstCtOption<Int<N>>) -> String {
    let o: Option<Int<N>> = o.into();
    o.map(|v| ihex(&v)).unwrap_or("none".into())
}
fn cto<T>(o: CtOption<T>, f: impl Fn(&T) -> String) -> String {
    let o: Option<T> = o.into();
    o.map(|v| f(&v)).unwrap_or("none".into())
}
fn ord(o: Ordering) -> &'static str {
    match o {
        Ordering::Less => "-1",
        Ordering::Equal => "0",
        Ordering::Greater => "1",
    }
}
fn hexw(w: u64) -> String {
    format!("{w:x}")
}

/// the widths of the generator: 1,2,3,4,6,8 everywhere, 16 and 32 where Karatsuba starts
macro_rules! with_w {
    ($n:expr, $f:ident, $($args:expr),*) => {
        match $n {
            1 => $f::<1>($($args),*),
            2 => $f::<2>($($args),*),
            3 => $f::<3>($($args),*),
            4 => $f::<4>($($args),*),
            6 => $f::<6>($($args),*),
            8 => $f::<8>($($args),*),
            16 => $f::<16>($($args),*),
            32 => $f::<32>($($args),*),
            _ => Some("unsupported-width".to_string()),
        }
    };
}
macro_rules! with_small {
    ($n:expr, $f:ident, $($args:expr),*) => {
        match $n {
            1 => $f::<1>($($args),*),
            2 => $f::<2>($($args),*),
            3 => $f::<3>($($args),*),
            4 => $f::<4>($($args),*),
            6 => $f::<6>($($args),*),
            8 => $f::<8>($($args),*),
            _ => Some("unsupported-width".to_string()),
        }
    };
}

fn limb_op(a: &[&str]) -> Option<String> {
    let (x, y, c, d) = (arg!(limb(a[0])), arg!(limb(a[1])), arg!(limb(a[2])), arg!(limb(a[3])));
    let sel = Limb::conditional_select(&x, &y, Choice::from((c.0 & 1) as u8));
    let (s, cy) = x.adc(y, c);
    let (df, bw) = x.sbb(y, c);
    let (lo, hi) = x.mac(y, c, d);
    Some(format!(
        "{} {} {} {} {} {} {} {} {} {:x}",
        choice(x.ct_eq(&y)),
        choice(x.ct_lt(&y)),
        lhex(sel),
        lhex(s),
        lhex(cy),
        lhex(df),
        lhex(bw),
        lhex(lo),
        lhex(hi),
        x.bits()
    ))
}

fn ucmp<const N: usize>(a: &[&str]) -> Option<String> {
    let (x, y, c) = (arg!(uint::<N>(a[1])), arg!(uint::<N>(a[2])), arg!(tochoice(a[3])));
    Some(format!(
        "{} {} {} {} {} {} {}",
        uhex(&Uint::conditional_select(&x, &y, c)),
        choice(!x.is_zero()), // `Uint::is_nonzero` itself is crate-private (reached by neg_mod, saturating_mul)
        choice(x.ct_eq(&y)),
        choice(x.ct_lt(&y)),
        choice(x.ct_gt(&y)),
        ord(Ord::cmp(&x, &y)),
        bit(x <= y)
    ))
}

fn cmp_vartime<const N: usize>(a: &[&str]) -> Option<String> {
    let (x, y) = (arg!(uint::<N>(a[1])), arg!(uint::<N>(a[2])));
    Some(ord(x.cmp_vartime(&y)).to_string())
}

fn addsub<const N: usize>(a: &[&str]) -> Option<String> {
    let (x, y, c) = (arg!(uint::<N>(a[1])), arg!(uint::<N>(a[2])), arg!(limb(a[3])));
    let (s, cy) = x.adc(&y, c);
    let (d, bw) = x.sbb(&y, c);
    let (ng, nc) = x.carrying_neg();
    Some(format!(
        "{} {} {} {} {} {} {} {} {} {} {} {} {}",
        uhex(&s),
        lhex(cy),
        uhex(&d),
        lhex(bw),
        uhex(&ng),
        cchoice(nc),
        uhex(&x.wrapping_add(&y)),
        uhex(&x.wrapping_sub(&y)),
        uhex(&x.bitand_limb(c)),
        uhex(&x.not()),
        uhex(&x.bitxor(&y)),
        uhex(&x.bitor(&y)),
        uhex(&x.wrapping_neg_if(arg!(toconst(if c.0 & 1 == 1 { "1" } else { "0" }))))
    ))
}

fn shl_vartime<const N: usize>(a: &[&str]) -> Option<String> {
    let (x, s) = (arg!(uint::<N>(a[1])), arg!(dec32(a[2])));
    Some(co(x.overflowing_shl_vartime(s)))
}
fn shr_vartime<const N: usize>(a: &[&str]) -> Option<String> {
    let (x, s) = (arg!(uint::<N>(a[1])), arg!(dec32(a[2])));
    Some(co(x.overflowing_shr_vartime(s)))
}
fn shl<const N: usize>(a: &[&str]) -> Option<String> {
    let (x, s) = (arg!(uint::<N>(a[1])), arg!(dec32(a[2])));
    Some(co(x.overflowing_shl(s)))
}
fn shr<const N: usize>(a: &[&str]) -> Option<String> {
    let (x, s) = (arg!(uint::<N>(a[1])), arg!(dec32(a[2])));
    Some(co(x.overflowing_shr(s)))
}
#[cfg(crypto_bigint_verif)]
fn shl_limb<const N: usize>(a: &[&str]) -> Option<String> {
    let (x, s) = (arg!(uint::<N>(a[1])), arg!(dec32(a[2])));
    let (v, c) = hooks::uint_shl_limb(&x, s);
    Some(format!("{} {}", uhex(&v), lhex(c)))
}
#[cfg(crypto_bigint_verif)]
fn shr1<const N: usize>(a: &[&str]) -> Option<String> {
    let x = arg!(uint::<N>(a[1]));
    Some(uhex(&hooks::uint_shr1(&x)))
}

fn bits<const N: usize>(a: &[&str]) -> Option<String> {
    let (x, i, v) = (arg!(uint::<N>(a[1])), arg!(dec32(a[2])), arg!(tochoice(a[3])));
    let mut sb = x;
    BitOps::set_bit(&mut sb, i, v);
    Some(format!(
        "{} {} {:x} {:x} {:x} {:x} {:x} {}",
        cchoice(x.bit(i)),
        bit(x.bit_vartime(i)),
        x.leading_zeros(),
        x.trailing_zeros(),
        x.trailing_ones(),
        x.bits(),
        x.bits_vartime(),
        uhex(&sb)
    ))
}

fn modarith<const N: usize>(a: &[&str]) -> Option<String> {
    let (x, y, p) = (arg!(uint::<N>(a[1])), arg!(uint::<N>(a[2])), arg!(uint::<N>(a[3])));
    Some(format!("{} {} {}", uhex(&x.add_mod(&y, &p)), uhex(&x.sub_mod(&y, &p)), uhex(&x.neg_mod(&p))))
}
#[cfg(crypto_bigint_verif)]
fn sub_mod_with_carry<const N: usize>(a: &[&str]) -> Option<String> {
    let (x, c, y, p) = (arg!(uint::<N>(a[1])), arg!(dec(a[2])), arg!(uint::<N>(a[3])), arg!(uint::<N>(a[4])));
    Some(uhex(&hooks::uint_sub_mod_with_carry(&x, Limb(c as Word), &y, &p)))
}

fn split_mul<const N: usize, const M: usize>(a: &[&str]) -> Option<String> {
    let (x, y) = (arg!(uint::<N>(a[2])), arg!(uint::<M>(a[3])));
    let (lo, hi) = x.split_mul(&y);
    Some(format!("{} {}", uhex(&lo), uhex(&hi)))
}
fn square_wide<const N: usize>(a: &[&str]) -> Option<String> {
    let x = arg!(uint::<N>(a[1]));
    let (lo, hi) = x.square_wide();
    Some(format!("{} {}", uhex(&lo), uhex(&hi)))
}
fn mul_forms<const N: usize>(a: &[&str]) -> Option<String> {
    let (x, y) = (arg!(uint::<N>(a[1])), arg!(uint::<N>(a[2])));
    Some(format!(
        "{} {} {} {}",
        uhex(&x.wrapping_mul(&y)),
        cto(CheckedMul::checked_mul(&x, &y), uhex),
        uhex(&x.saturating_mul(&y)),
        co(x.checked_square())
    ))
}
fn concat_split<const N: usize, const W: usize>(a: &[&str]) -> Option<String>
where
    Uint<N>: crypto_bigint::Concat<Output = Uint<W>>,
    Uint<W>: crypto_bigint::Split<Output = Uint<N>>,
{
    let (x, y) = (arg!(uint::<N>(a[1])), arg!(uint::<N>(a[2])));
    let c: Uint<W> = x.concat(&y);
    let (lo, hi) = c.split();
    let r: Uint<N> = c.resize();
    let w: Uint<W> = y.resize();
    Some(format!("{} {} {} {} {}", uhex(&c), uhex(&lo), uhex(&hi), uhex(&r), uhex(&w)))
}

#[cfg(crypto_bigint_verif)]
fn reciprocal(a: &[&str]) -> Option<String> {
    Some(hexw(hooks::reciprocal(arg!(word(a[0])))))
}
fn div_rem_limb<const N: usize>(a: &[&str]) -> Option<String> {
    let (x, d) = (arg!(uint::<N>(a[1])), arg!(limb(a[2])));
    let (q, r) = x.div_rem_limb(arg!(Option::from(NonZero::new(d))));
    Some(format!("{} {}", uhex(&q), lhex(r)))
}
fn div_rem<const N: usize>(a: &[&str]) -> Option<String> {
    let (x, d) = (arg!(uint::<N>(a[1])), arg!(uint::<N>(a[2])));
    let (q, r) = x.div_rem(&arg!(Option::from(NonZero::new(d))));
    Some(format!("{} {}", uhex(&q), uhex(&r)))
}
fn div_rem_vartime<const N: usize>(a: &[&str]) -> Option<String> {
    let (x, d) = (arg!(uint::<N>(a[1])), arg!(uint::<N>(a[2])));
    let (q, r) = x.div_rem_vartime(&arg!(Option::from(NonZero::new(d))));
    Some(format!("{} {}", uhex(&q), uhex(&r)))
}
fn sqrt<const N: usize>(a: &[&str]) -> Option<String> {
    Some(uhex(&arg!(uint::<N>(a[1])).sqrt()))
}
fn inv_mod2k<const N: usize>(a: &[&str]) -> Option<String> {
    let (x, k) = (arg!(uint::<N>(a[1])), arg!(dec32(a[2])));
    Some(format!("{} {}", co(x.inv_mod2k(k)), co(x.inv_mod2k_vartime(k))))
}

fn monty<const N: usize>(a: &[&str]) -> Option<String> {
    let (x, e, m, ebits) = (arg!(uint::<N>(a[1])), arg!(uint::<N>(a[2])), arg!(uint::<N>(a[3])), arg!(dec32(a[4])));
    let params = MontyParams::new_vartime(arg!(Option::from(Odd::new(m))));
    let xm = MontyForm::new(&x, params);
    let em = MontyForm::new(&e, params);
    Some(format!(
        "{} {} {}",
        uhex(&(xm * em).retrieve()),
        uhex(&xm.pow_bounded_exp(&e, ebits).retrieve()),
        uhex(&xm.pow(&e).retrieve())
    ))
}

fn int_arith<const N: usize>(a: &[&str]) -> Option<String> {
    let (x, y) = (arg!(int::<N>(a[1])), arg!(int::<N>(a[2])));
    let (abs, sign) = x.abs_sign();
    let neg = if y.as_uint().as_words()[0] & 1 == 1 { "1" } else { "0" };
    Some(format!(
        "{} {} {} {} {} {} {} {} {} {}",
        uhex(&abs),
        cchoice(sign),
        coi(x.checked_add(&y)),
        cto(CheckedSub::checked_sub(&x, &y), ihex),
        coi(x.checked_neg()),
        ihex(&x.wrapping_neg()),
        choice(x.ct_lt(&y)),
        choice(x.ct_gt(&y)),
        ord(Ord::cmp(&x, &y)),
        coi(Int::new_from_abs_sign(*x.as_uint(), arg!(toconst(neg))))
    ))
}
fn int_mul<const N: usize, const W: usize>(a: &[&str]) -> Option<String>
where
    Uint<N>: crypto_bigint::ConcatMixed<Uint<N>, MixedOutput = Uint<W>>,
{
    let (x, y) = (arg!(int::<N>(a[2])), arg!(int::<N>(a[3])));
    let w: Int<W> = x.widening_mul(&y);
    Some(format!(
        "{} {} {}",
        cto(CheckedMul::checked_mul(&x, &y), ihex),
        cto(CheckedMul::checked_mul(&x, y.as_uint()), ihex),
        ihex(&w)
    ))
}
fn int_shr<const N: usize>(a: &[&str]) -> Option<String> {
    let (x, s) = (arg!(int::<N>(a[1])), arg!(dec32(a[2])));
    Some(format!("{} {} {}", coi(x.overflowing_shr(s)), ihex(&x.wrapping_shr(s)), coi(x.overflowing_shr_vartime(s))))
}
fn int_div<const N: usize>(a: &[&str]) -> Option<String> {
    let (x, d) = (arg!(int::<N>(a[1])), arg!(int::<N>(a[2])));
    let d: NonZero<Int<N>> = arg!(Option::from(NonZero::new(d)));
    let (q, r) = x.checked_div_rem(&d);
    let (fq, fr) = x.checked_div_rem_floor(&d);
    Some(format!("{} {} {} {}", coi(q), ihex(&r), coi(fq), ihex(&fr)))
}
fn int_checked_div<const N: usize>(a: &[&str]) -> Option<String> {
    let (x, d) = (arg!(int::<N>(a[1])), arg!(int::<N>(a[2])));
    Some(cto(x.checked_div(&d), ihex))
}
fn int_div_uint<const N: usize>(a: &[&str]) -> Option<String> {
    let (x, d) = (arg!(int::<N>(a[1])), arg!(uint::<N>(a[2])));
    let d: NonZero<Uint<N>> = arg!(Option::from(NonZero::new(d)));
    let (q, r) = x.div_rem_uint(&d);
    let (fq, fr) = x.div_rem_floor_uint(&d);
    Some(format!("{} {} {} {}", ihex(&q), ihex(&r), ihex(&fq), uhex(&fr)))
}

fn boxed_addsub(a: &[&str]) -> Option<String> {
    let (na, nb) = (arg!(dec(a[0])), arg!(dec(a[2])));
    let (x, y, c) = (arg!(boxed(a[1], na)), arg!(boxed(a[3], nb)), arg!(limb(a[4])));
    let (s, cy) = x.adc(&y, c);
    let (d, bw) = x.sbb(&y, c);
    Some(format!(
        "{} {} {} {} {} {} {} {}",
        bhexlen(&s),
        lhex(cy),
        bhexlen(&d),
        lhex(bw),
        choice(x.ct_eq(&y)),
        choice(x.ct_lt(&y)),
        choice(x.ct_gt(&y)),
        ord(Ord::cmp(&x, &y))
    ))
}
fn boxed_assign(a: &[&str]) -> Option<String> {
    let (na, nb) = (arg!(dec(a[0])), arg!(dec(a[2])));
    let (x, y, c, ch) = (arg!(boxed(a[1], na)), arg!(boxed(a[3], nb)), arg!(limb(a[4])), arg!(tochoice(a[5])));
    let mut s = x.clone();
    let cy = s.adc_assign(&y, c);
    let mut d = x.clone();
    let bw = d.sbb_assign(&y, c);
    let mut cn = x.clone();
    cn.conditional_negate(ch);
    Some(format!(
        "{} {} {} {} {} {} {}",
        bhexlen(&s),
        lhex(cy),
        bhexlen(&d),
        lhex(bw),
        bhexlen(&cn),
        bhexlen(&x.wrapping_neg()),
        choice(x.is_zero())
    ))
}
fn boxed_ct(a: &[&str]) -> Option<String> {
    let n = arg!(dec(a[0]));
    let (x, y, c) = (arg!(boxed(a[1], n)), arg!(boxed(a[2], n)), arg!(tochoice(a[3])));
    let mut asg = x.clone();
    asg.ct_assign(&y, c);
    let (mut s1, mut s2) = (x.clone(), y.clone());
    BoxedUint::ct_swap(&mut s1, &mut s2, c);
    Some(format!("{} {} {} {}", bhexlen(&BoxedUint::ct_select(&x, &y, c)), bhexlen(&asg), bhexlen(&s1), bhexlen(&s2)))
}
fn boxed_mul(a: &[&str]) -> Option<String> {
    let (na, nb) = (arg!(dec(a[0])), arg!(dec(a[2])));
    let (x, y) = (arg!(boxed(a[1], na)), arg!(boxed(a[3], nb)));
    Some(format!(
        "{} {} {}",
        bhexlen(&x.mul(&y)),
        bhexlen(&x.wrapping_mul(&y)),
        cto(CheckedMul::checked_mul(&x, &y), bhexlen)
    ))
}
fn boxed_square(a: &[&str]) -> Option<String> {
    let n = arg!(dec(a[0]));
    Some(bhexlen(&arg!(boxed(a[1], n)).square()))
}
fn boxed_shift(a: &[&str]) -> Option<String> {
    let n = arg!(dec(a[0]));
    let (x, s) = (arg!(boxed(a[1], n)), arg!(dec32(a[2])));
    let (l, lo) = x.overflowing_shl(s);
    let (r, ro) = x.overflowing_shr(s);
    // the model returns `is_some` for the left shift (as the fixed-size form) and `overflow` for the right shift (as written)
    Some(format!(
        "{} {} {} {} {}",
        bhexlen(&l),
        choice(!lo),
        bhexlen(&r),
        choice(ro),
        x.shr_vartime(s).map(|v| bhexlen(&v)).unwrap_or("none".into())
    ))
}
fn boxed_modarith(a: &[&str]) -> Option<String> {
    let n = arg!(dec(a[0]));
    let (x, y, p) = (arg!(boxed(a[1], n)), arg!(boxed(a[2], n)), arg!(boxed(a[3], n)));
    Some(format!("{} {} {}", bhexlen(&x.add_mod(&y, &p)), bhexlen(&x.sub_mod(&y, &p)), bhexlen(&x.neg_mod(&p))))
}
fn boxed_bits(a: &[&str]) -> Option<String> {
    let n = arg!(dec(a[0]));
    let (x, i, v) = (arg!(boxed(a[1], n)), arg!(dec32(a[2])), arg!(tochoice(a[3])));
    let mut sb = x.clone();
    BitOps::set_bit(&mut sb, i, v);
    Some(format!(
        "{} {:x} {:x} {:x} {:x} {}",
        choice(x.bit(i)),
        x.leading_zeros(),
        x.trailing_zeros(),
        x.trailing_ones(),
        x.bits(),
        bhexlen(&sb)
    ))
}
fn boxed_inv_mod2k(a: &[&str]) -> Option<String> {
    let n = arg!(dec(a[0]));
    let (x, k) = (arg!(boxed(a[1], n)), arg!(dec32(a[2])));
    let (r, rs) = x.inv_mod2k(k);
    let (v, vs) = x.inv_mod2k_vartime(k);
    Some(format!("{} {} {} {}", bhexlen(&r), choice(rs), bhexlen(&v), choice(vs)))
}

#[cfg(crypto_bigint_verif)]
fn boxed_shr1(a: &[&str]) -> Option<String> {
    let n = arg!(dec(a[0]));
    Some(bhexlen(&hooks::boxed_shr1(&arg!(boxed(a[1], n)))))
}

// ---- safegcd (hooks): unsaturated integers are arrays of 62-bit limbs, printed / parsed as 64-bit words
#[cfg(crypto_bigint_verif)]
fn arr<const U: usize>(s: &str) -> Option<[u64; U]> {
    let w = hex_words(s, U)?;
    let mut a = [0u64; U];
    a.copy_from_slice(&w);
    Some(a)
}
#[cfg(crypto_bigint_verif)]
fn unsat<const U: usize>(a: &[&str]) -> Option<String> {
    use hooks::safegcd as sg;
    let (x, y, o) = (arg!(arr::<U>(a[1])), arg!(arr::<U>(a[2])), arg!(word(a[3])));
    let sel = if o & 1 == 1 { y } else { x };
    Some(format!(
        "{} {} {} {} {} {} {:x} {}",
        words_hex(&sg::unsat_add(x, y)),
        words_hex(&sg::unsat_mul(x, o as i64)),
        words_hex(&sg::unsat_neg(x)),
        words_hex(&sg::unsat_shr(x)),
        bit(sg::unsat_eq(x, y)),
        bit(sg::unsat_is_negative(x)),
        sg::unsat_bits(x),
        words_hex(&sel) // `UnsatInt::select` has no hook of its own: exercised through inv_odd_mod / gcd
    ))
}
#[cfg(crypto_bigint_verif)]
fn unsat_conv<const N: usize, const U: usize>(a: &[&str]) -> Option<String> {
    use hooks::safegcd as sg;
    let x = arg!(uint::<N>(a[1]));
    let c: [u64; U] = sg::unsat_from_uint::<N, U>(&x);
    Some(format!("{} {}", words_hex(&c), uhex(&sg::unsat_to_uint::<N, U>(c))))
}
#[cfg(crypto_bigint_verif)]
fn jump(a: &[&str]) -> Option<String> {
    let (f, g, d) = (arg!(word(a[0])), arg!(word(a[1])), arg!(word(a[2])));
    let (delta, t) = hooks::safegcd::jump(&[f], &[g], d as i64);
    Some(format!("{:x} {:x} {:x} {:x} {:x}", delta as u64, t[0][0] as u64, t[0][1] as u64, t[1][0] as u64, t[1][1] as u64))
}
#[cfg(crypto_bigint_verif)]
fn fgde<const U: usize>(a: &[&str]) -> Option<String> {
    use hooks::safegcd as sg;
    let (f, g, d, e, m) = (arg!(arr::<U>(a[1])), arg!(arr::<U>(a[2])), arg!(arr::<U>(a[3])), arg!(arr::<U>(a[4])), arg!(arr::<U>(a[5])));
    let inv = arg!(word(a[6])) as i64;
    let t = [[arg!(word(a[7])) as i64, arg!(word(a[8])) as i64], [arg!(word(a[9])) as i64, arg!(word(a[10])) as i64]];
    let (f1, g1) = sg::fg(f, g, t);
    let (d1, e1) = sg::de(m, inv, t, d, e);
    Some(format!("{} {} {} {}", words_hex(&f1), words_hex(&g1), words_hex(&d1), words_hex(&e1)))
}
#[cfg(crypto_bigint_verif)]
fn divsteps<const U: usize>(a: &[&str]) -> Option<String> {
    let (e, f0, g) = (arg!(arr::<U>(a[1])), arg!(arr::<U>(a[2])), arg!(arr::<U>(a[3])));
    let (d, f) = hooks::safegcd::divsteps(e, f0, g, arg!(word(a[4])) as i64);
    Some(format!("{} {}", words_hex(&d), words_hex(&f)))
}
macro_rules! inv_gcd {
    ($inv:ident, $gcd:ident, $n:literal) => {
        fn $inv(a: &[&str]) -> Option<String> {
            let (m, v) = (arg!(uint::<$n>(a[1])), arg!(uint::<$n>(a[2])));
            Some(co(v.inv_odd_mod(&arg!(Option::from(Odd::new(m))))))
        }
        fn $gcd(a: &[&str]) -> Option<String> {
            let (x, y) = (arg!(uint::<$n>(a[1])), arg!(uint::<$n>(a[2])));
            // (`impl Gcd<Uint> for Odd<Uint>` is bounded on `Odd<Odd<Uint>>: PrecomputeInverter` and cannot be called:
            // the constant-time `SafeGcdInverter::gcd` is reached through `Uint::gcd` only)
            Some(uhex(&x.gcd(&y)))
        }
    };
}
macro_rules! inv_mod_fn {
    ($f:ident, $n:literal) => {
        fn $f(a: &[&str]) -> Option<String> {
            let (m, v) = (arg!(uint::<$n>(a[1])), arg!(uint::<$n>(a[2])));
            Some(co(v.inv_mod(&m)))
        }
    };
}
inv_mod_fn!(inv_mod_1, 1);
inv_mod_fn!(inv_mod_2, 2);
inv_mod_fn!(inv_mod_3, 3);
inv_mod_fn!(inv_mod_4, 4);
inv_gcd!(inv_odd_mod_1, gcd_1, 1);
inv_gcd!(inv_odd_mod_2, gcd_2, 2);
inv_gcd!(inv_odd_mod_3, gcd_3, 3);
inv_gcd!(inv_odd_mod_4, gcd_4, 4);
inv_gcd!(inv_odd_mod_6, gcd_6, 6);
inv_gcd!(inv_odd_mod_8, gcd_8, 8);

// ---- special-modulus forms, mul_mod, div_by_2, rem_limb, mac_by_limb, Montgomery parameters
fn special<const N: usize>(a: &[&str]) -> Option<String> {
    let (x, y, c) = (arg!(uint::<N>(a[1])), arg!(uint::<N>(a[2])), arg!(limb(a[3])));
    Some(format!(
        "{} {} {}",
        uhex(&x.add_mod_special(&y, c)),
        uhex(&x.sub_mod_special(&y, c)),
        uhex(&x.mul_mod_special(&y, c))
    ))
}
fn mul_mod<const N: usize, const W: usize>(a: &[&str]) -> Option<String>
where
    Uint<N>: crypto_bigint::Concat<Output = Uint<W>>,
    Uint<W>: crypto_bigint::Split<Output = Uint<N>>,
{
    let (x, y, p) = (arg!(uint::<N>(a[1])), arg!(uint::<N>(a[2])), arg!(uint::<N>(a[3])));
    let nz: NonZero<Uint<N>> = arg!(Option::from(NonZero::new(p)));
    Some(format!("{} {}", uhex(&x.mul_mod::<W>(&y, &nz)), uhex(&x.double_mod(&p))))
}
fn mul_mod_vartime<const N: usize>(a: &[&str]) -> Option<String> {
    let (x, y, p) = (arg!(uint::<N>(a[1])), arg!(uint::<N>(a[2])), arg!(uint::<N>(a[3])));
    let nz: NonZero<Uint<N>> = arg!(Option::from(NonZero::new(p)));
    // the inherent `_vartime` form, and the trait form `MulMod::mul_mod` (not named vartime; forwards to the former)
    Some(format!("{} {}", uhex(&x.mul_mod_vartime(&y, &nz)), uhex(&MulMod::mul_mod(&x, &y, &p))))
}
fn rem_limb<const N: usize>(a: &[&str]) -> Option<String> {
    let (x, d) = (arg!(uint::<N>(a[1])), arg!(limb(a[2])));
    Some(lhex(x.rem_limb(arg!(Option::from(NonZero::new(d))))))
}
#[cfg(crypto_bigint_verif)]
fn mac_by_limb<const N: usize>(a: &[&str]) -> Option<String> {
    let (x, y, c, d) = (arg!(uint::<N>(a[1])), arg!(uint::<N>(a[2])), arg!(limb(a[3])), arg!(limb(a[4])));
    let (v, cy) = hooks::uint_mac_by_limb(&x, &y, c, d);
    Some(format!("{} {}", uhex(&v), lhex(cy)))
}
#[cfg(crypto_bigint_verif)]
fn monty_params<const N: usize, const W: usize>(a: &[&str]) -> Option<String>
where
    Uint<N>: crypto_bigint::Concat<Output = Uint<W>>,
    Uint<W>: crypto_bigint::Split<Output = Uint<N>>,
{
    let m = arg!(uint::<N>(a[1]));
    let params = MontyParams::new(arg!(Option::from(Odd::new(m))));
    let (one, r2, r3, ni, mlz) = params.verif_fields();
    Some(format!("{} {} {} {} {:x}", uhex(&one), uhex(&r2), uhex(&r3), lhex(ni), mlz))
}
#[cfg(crypto_bigint_verif)]
fn div_by_2<const N: usize>(a: &[&str]) -> Option<String> {
    let (x, m) = (arg!(uint::<N>(a[1])), arg!(uint::<N>(a[2])));
    let bx = arg!(boxed(a[1], N));
    let bm = arg!(boxed(a[2], N));
    Some(format!(
        "{} {}",
        uhex(&hooks::div_by_2(&x, &arg!(Option::from(Odd::new(m))))),
        bhex(&hooks::div_by_2_boxed(&bx, &arg!(Option::from(Odd::new(bm)))))
    ))
}
#[cfg(crypto_bigint_verif)]
fn lincomb<const N: usize>(a: &[&str]) -> Option<String> {
    let (mlz, m) = (arg!(dec32(a[1])), arg!(uint::<N>(a[2])));
    let params = MontyParams::new_vartime(arg!(Option::from(Odd::new(m))));
    let mut forms = Vec::new();
    for t in &a[3..] {
        forms.push(MontyForm::new(&arg!(uint::<N>(t)), params));
    }
    let prods: Vec<(&MontyForm<N>, &MontyForm<N>)> = forms.chunks(2).map(|c| (&c[0], &c[1])).collect();
    let (_, _, _, ni, own_mlz) = params.verif_fields();
    let raw = hooks::lincomb_monty_form(&prods, params.modulus(), ni, mlz);
    // out of Montgomery form: a product with the Montgomery form of 1·R⁻¹ … simply `MontyForm::retrieve` of a form holding `raw`
    let mut holder = MontyForm::new(&Uint::<N>::ZERO, params);
    *holder.as_montgomery_mut() = raw;
    let v = holder.retrieve();
    if mlz == own_mlz {
        // the public route must agree with the hook when the window is the parameter set's own
        let pubv = MontyForm::lincomb_vartime(&prods).retrieve();
        if pubv != v {
            return Some(format!("routes-differ:{}:{}", uhex(&v), uhex(&pubv)));
        }
    }
    Some(uhex(&v))
}
fn multi_exp<const N: usize>(a: &[&str]) -> Option<String> {
    let (ebits, m) = (arg!(dec32(a[1])), arg!(uint::<N>(a[2])));
    let params = MontyParams::new_vartime(arg!(Option::from(Odd::new(m))));
    let mut bes: Vec<(MontyForm<N>, Uint<N>)> = Vec::new();
    for c in a[3..].chunks(2) {
        bes.push((MontyForm::new(&arg!(uint::<N>(c[0])), params), arg!(uint::<N>(c[1]))));
    }
    let r = <MontyForm<N> as MultiExponentiateBoundedExp<Uint<N>, [(MontyForm<N>, Uint<N>)]>>::multi_exponentiate_bounded_exp(&bes, ebits);
    Some(uhex(&r.retrieve()))
}
/// an RNG that replays the given words (and panics when they run out: the generator provides enough)
struct Replay(Vec<u64>, usize);
impl rand_core::RngCore for Replay {
    fn next_u32(&mut self) -> u32 {
        self.next_u64() as u32
    }
    fn next_u64(&mut self) -> u64 {
        let w = self.0[self.1];
        self.1 += 1;
        w
    }
    fn fill_bytes(&mut self, dst: &mut [u8]) {
        for ch in dst.chunks_mut(8) {
            let w = self.next_u64().to_le_bytes();
            ch.copy_from_slice(&w[..ch.len()]);
        }
    }
}
fn random_mod<const N: usize>(a: &[&str]) -> Option<String> {
    let m = arg!(uint::<N>(a[1]));
    let mut ws = Vec::new();
    for t in &a[2..] {
        ws.push(arg!(word(t)));
    }
    let mut rng = Replay(ws, 0);
    let nz: NonZero<Uint<N>> = arg!(Option::from(NonZero::new(m)));
    Some(uhex(&Uint::<N>::random_mod(&mut rng, &nz)))
}

pub fn dispatch(op: &str, a: &[&str]) -> Option<String> {
    // crate-internal functions behind `crypto_bigint::verif_hooks` (only with `--cfg crypto_bigint_verif`)
    if let Some(name) = op.strip_prefix("c01.hook.") {
        return hook_dispatch(name, a);
    }
    let name = op.strip_prefix("c01.leak.")?;
    let n = || a.first().and_then(|s| dec(s));
    let need = |k: usize| a.len() == k;
    macro_rules! chk {
        ($k:expr) => {
            if !need($k) {
                return Some(BAD.to_string());
            }
        };
    }
    match name {
        "limb" => { chk!(4); limb_op(a) }
        "ucmp" => { chk!(4); with_w!(arg!(n()), ucmp, a) }
        "cmp_vartime" => { chk!(3); with_w!(arg!(n()), cmp_vartime, a) }
        "addsub" => { chk!(4); with_w!(arg!(n()), addsub, a) }
        "shl_vartime" => { chk!(3); with_w!(arg!(n()), shl_vartime, a) }
        "shr_vartime" => { chk!(3); with_w!(arg!(n()), shr_vartime, a) }
        "shl" => { chk!(3); with_w!(arg!(n()), shl, a) }
        "shr" => { chk!(3); with_w!(arg!(n()), shr, a) }
        "bits" => { chk!(4); with_w!(arg!(n()), bits, a) }
        "modarith" => { chk!(4); with_w!(arg!(n()), modarith, a) }
        "split_mul" => {
            chk!(4);
            match (arg!(n()), arg!(dec(a[1]))) {
                (1, 1) => split_mul::<1, 1>(a),
                (2, 2) => split_mul::<2, 2>(a),
                (3, 3) => split_mul::<3, 3>(a),
                (4, 4) => split_mul::<4, 4>(a),
                (6, 6) => split_mul::<6, 6>(a),
                (8, 8) => split_mul::<8, 8>(a),
                (16, 16) => split_mul::<16, 16>(a),
                (32, 32) => split_mul::<32, 32>(a),
                (64, 64) => split_mul::<64, 64>(a),
                (1, 2) => split_mul::<1, 2>(a),
                (2, 1) => split_mul::<2, 1>(a),
                (3, 5) => split_mul::<3, 5>(a),
                (4, 2) => split_mul::<4, 2>(a),
                (16, 8) => split_mul::<16, 8>(a),
                (8, 16) => split_mul::<8, 16>(a),
                (16, 32) => split_mul::<16, 32>(a),
                (17, 17) => split_mul::<17, 17>(a),
                _ => Some("unsupported-width".to_string()),
            }
        }
        "square_wide" => {
            chk!(2);
            match arg!(n()) {
                64 => square_wide::<64>(a),
                128 => square_wide::<128>(a),
                k => with_w!(k, square_wide, a),
            }
        }
        "mul_forms" => { chk!(3); with_w!(arg!(n()), mul_forms, a) }
        "concat_split" => {
            chk!(3);
            match arg!(n()) {
                1 => concat_split::<1, 2>(a),
                2 => concat_split::<2, 4>(a),
                3 => concat_split::<3, 6>(a),
                4 => concat_split::<4, 8>(a),
                6 => concat_split::<6, 12>(a),
                8 => concat_split::<8, 16>(a),
                16 => concat_split::<16, 32>(a),
                _ => Some("unsupported-width".to_string()),
            }
        }
        "div_rem_limb" => { chk!(3); with_w!(arg!(n()), div_rem_limb, a) }
        "div_rem" => { chk!(3); with_w!(arg!(n()), div_rem, a) }
        "div_rem_vartime" => { chk!(3); with_w!(arg!(n()), div_rem_vartime, a) }
        "sqrt" => { chk!(2); with_w!(arg!(n()), sqrt, a) }
        "inv_mod2k" => { chk!(3); with_small!(arg!(n()), inv_mod2k, a) }
        "monty" => { chk!(5); with_small!(arg!(n()), monty, a) }
        "int_arith" => { chk!(3); with_w!(arg!(n()), int_arith, a) }
        "int_mul" => {
            chk!(4);
            match (arg!(n()), arg!(dec(a[1]))) {
                (1, 1) => int_mul::<1, 2>(a),
                (2, 2) => int_mul::<2, 4>(a),
                (3, 3) => int_mul::<3, 6>(a),
                (4, 4) => int_mul::<4, 8>(a),
                (6, 6) => int_mul::<6, 12>(a),
                (8, 8) => int_mul::<8, 16>(a),
                (16, 16) => int_mul::<16, 32>(a),
                _ => Some("unsupported-width".to_string()),
            }
        }
        "int_shr" => { chk!(3); with_w!(arg!(n()), int_shr, a) }
        "int_div" => { chk!(3); with_small!(arg!(n()), int_div, a) }
        "int_checked_div" => { chk!(3); with_small!(arg!(n()), int_checked_div, a) }
        "int_div_uint" => { chk!(3); with_small!(arg!(n()), int_div_uint, a) }
        "boxed_addsub" => { chk!(5); boxed_addsub(a) }
        "boxed_assign" => { chk!(6); boxed_assign(a) }
        "boxed_ct" => { chk!(4); boxed_ct(a) }
        "boxed_mul" => { chk!(4); boxed_mul(a) }
        "boxed_square" => { chk!(2); boxed_square(a) }
        "boxed_shift" => { chk!(3); boxed_shift(a) }
        "boxed_modarith" => { chk!(4); boxed_modarith(a) }
        "boxed_bits" => { chk!(4); boxed_bits(a) }
        "boxed_inv_mod2k" => { chk!(3); boxed_inv_mod2k(a) }
        "special" => { chk!(4); with_w!(arg!(n()), special, a) }
        "mul_mod" => {
            chk!(4);
            match arg!(n()) {
                1 => mul_mod::<1, 2>(a),
                2 => mul_mod::<2, 4>(a),
                3 => mul_mod::<3, 6>(a),
                4 => mul_mod::<4, 8>(a),
                6 => mul_mod::<6, 12>(a),
                8 => mul_mod::<8, 16>(a),
                _ => Some("unsupported-width".to_string()),
            }
        }
        "mul_mod_vartime" => { chk!(4); with_small!(arg!(n()), mul_mod_vartime, a) }
        "rem_limb" => { chk!(3); with_w!(arg!(n()), rem_limb, a) }
        "multi_exp" => {
            if a.len() < 5 || a.len() % 2 == 0 {
                return Some(BAD.to_string());
            }
            with_small!(arg!(n()), multi_exp, a)
        }
        "random_mod" => {
            if a.len() < 3 {
                return Some(BAD.to_string());
            }
            with_small!(arg!(n()), random_mod, a)
        }
        "inv_odd_mod" => {
            chk!(3);
            match arg!(n()) {
                1 => inv_odd_mod_1(a),
                2 => inv_odd_mod_2(a),
                3 => inv_odd_mod_3(a),
                4 => inv_odd_mod_4(a),
                6 => inv_odd_mod_6(a),
                8 => inv_odd_mod_8(a),
                _ => Some("unsupported-width".to_string()),
            }
        }
        "inv_mod" => {
            chk!(3);
            match arg!(n()) {
                1 => inv_mod_1(a),
                2 => inv_mod_2(a),
                3 => inv_mod_3(a),
                4 => inv_mod_4(a),
                _ => Some("unsupported-width".to_string()),
            }
        }
        "gcd" => {
            chk!(3);
            match arg!(n()) {
                1 => gcd_1(a),
                2 => gcd_2(a),
                3 => gcd_3(a),
                4 => gcd_4(a),
                6 => gcd_6(a),
                8 => gcd_8(a),
                _ => Some("unsupported-width".to_string()),
            }
        }
        _ => None,
    }
}

/// without the hook forwarders every `c01.hook.*` line answers `hook-unavailable` (the runner drops those lines)
#[cfg(not(crypto_bigint_verif))]
fn hook_dispatch(_name: &str, _a: &[&str]) -> Option<String> {
    Some(crate::util::HOOK_UNAVAILABLE.to_string())
}
#[cfg(crypto_bigint_verif)]
fn hook_dispatch(name: &str, a: &[&str]) -> Option<String> {
    let n = || a.first().and_then(|s| dec(s));
    let need = |k: usize| a.len() == k;
    macro_rules! chk {
        ($k:expr) => {
            if !need($k) {
                return Some(BAD.to_string());
            }
        };
    }
    match name {
        "shl_limb" => { chk!(3); with_w!(arg!(n()), shl_limb, a) }
        "shr1" => { chk!(2); with_w!(arg!(n()), shr1, a) }
        "sub_mod_with_carry" => { chk!(5); with_w!(arg!(n()), sub_mod_with_carry, a) }
        "reciprocal" => { chk!(1); reciprocal(a) }
        "mac_by_limb" => { chk!(5); with_w!(arg!(n()), mac_by_limb, a) }
        "monty_params" => {
            chk!(2);
            match arg!(n()) {
                1 => monty_params::<1, 2>(a),
                2 => monty_params::<2, 4>(a),
                3 => monty_params::<3, 6>(a),
                4 => monty_params::<4, 8>(a),
                6 => monty_params::<6, 12>(a),
                8 => monty_params::<8, 16>(a),
                _ => Some("unsupported-width".to_string()),
            }
        }
        "div_by_2" => { chk!(3); with_small!(arg!(n()), div_by_2, a) }
        "lincomb" => {
            if a.len() < 5 || a.len() % 2 == 0 {
                return Some(BAD.to_string());
            }
            with_small!(arg!(n()), lincomb, a)
        }
        "boxed_shr1" => { chk!(2); boxed_shr1(a) }
        "unsat" => {
            chk!(4);
            match arg!(n()) {
                1 => unsat::<1>(a),
                2 => unsat::<2>(a),
                3 => unsat::<3>(a),
                4 => unsat::<4>(a),
                6 => unsat::<6>(a),
                _ => Some("unsupported-width".to_string()),
            }
        }
        "unsat_conv" => {
            chk!(2);
            match arg!(n()) {
                1 => unsat_conv::<1, 3>(a),
                2 => unsat_conv::<2, 4>(a),
                3 => unsat_conv::<3, 5>(a),
                4 => unsat_conv::<4, 6>(a),
                6 => unsat_conv::<6, 8>(a),
                8 => unsat_conv::<8, 10>(a),
                _ => Some("unsupported-width".to_string()),
            }
        }
        "jump" => { chk!(3); jump(a) }
        "fgde" => {
            chk!(11);
            match arg!(n()) {
                2 => fgde::<2>(a),
                3 => fgde::<3>(a),
                4 => fgde::<4>(a),
                6 => fgde::<6>(a),
                _ => Some("unsupported-width".to_string()),
            }
        }
        "divsteps" => {
            chk!(5);
            match arg!(n()) {
                2 => divsteps::<2>(a),
                3 => divsteps::<3>(a),
                4 => divsteps::<4>(a),
                _ => Some("unsupported-width".to_string()),
            }
        }
        _ => None,
    }
}
