//! C12 — every public producer of `NonZero<T>` / `Odd<T>` (T = Limb, Uint<1|2|4>, Int<1|2|4>, BoxedUint),
//! called on the REAL crate.  Each produced wrapper is printed through `tag`, which evaluates the
//! invariant predicate on the raw words (independently of the crate's `is_zero` / `is_odd`):
//! a wrapper that holds an invalid value prints `INVALID:<hex>`.
//!
//! op names: `c12.<nz|odd>.<l|u|i|b>.<producer>`; `u`/`i` ops take the limb count first, `b` ops
//! the limb count of the boxed operand.  RNG streams are `x`-hex byte strings, a multiple of 8
//! bytes long, consumed as little-endian 64-bit words by a buffer-fed `TryRngCore`.
use crate::util::*;
use core::num::{NonZeroU8, NonZeroU16, NonZeroU32, NonZeroU64, NonZeroU128};
use crypto_bigint::modular::{BoxedMontyParams, MontyParams};
use crypto_bigint::rand_core::{RngCore, TryRngCore};
use crypto_bigint::subtle::{ConditionallySelectable, CtOption};
use crypto_bigint::zeroize::Zeroize;
use crypto_bigint::{BoxedUint, ByteArray, ConstCtOption, Encoding, Int, Limb, NonZero, Odd, Random, Uint, Word};

// ------------------------------------------------------------------ canonical printing

fn tag(valid: bool, s: String) -> String {
    if valid { s } else { format!("INVALID:{s}") }
}
fn nonzero_words(w: &[Word]) -> bool {
    w.iter().any(|x| *x != 0)
}
fn odd_words(w: &[Word]) -> bool {
    w.first().map(|x| x & 1 == 1).unwrap_or(false)
}
fn nzl(w: &NonZero<Limb>) -> String {
    tag(w.as_ref().0 != 0, lhex(*w.as_ref()))
}
fn oddl(w: &Odd<Limb>) -> String {
    tag(w.as_ref().0 & 1 == 1, lhex(*w.as_ref()))
}
fn nzu<const N: usize>(w: &NonZero<Uint<N>>) -> String {
    tag(nonzero_words(w.as_ref().as_words()), uhex(w.as_ref()))
}
fn oddu<const N: usize>(w: &Odd<Uint<N>>) -> String {
    tag(odd_words(w.as_ref().as_words()), uhex(w.as_ref()))
}
fn nzi<const N: usize>(w: &NonZero<Int<N>>) -> String {
    tag(nonzero_words(w.as_ref().as_uint().as_words()), ihex(w.as_ref()))
}
fn oddi<const N: usize>(w: &Odd<Int<N>>) -> String {
    tag(odd_words(w.as_ref().as_uint().as_words()), ihex(w.as_ref()))
}
fn nzb(w: &NonZero<BoxedUint>) -> String {
    tag(nonzero_words(w.as_ref().as_words()), bhexlen(w.as_ref()))
}
fn oddb(w: &Odd<BoxedUint>) -> String {
    tag(odd_words(w.as_ref().as_words()), bhexlen(w.as_ref()))
}
fn ct<T>(o: CtOption<T>, f: impl Fn(&T) -> String) -> String {
    let o: Option<T> = o.into();
    o.map(|v| f(&v)).unwrap_or_else(|| "none".into())
}
fn cct<T>(o: ConstCtOption<T>, f: impl Fn(&T) -> String) -> String {
    let o: Option<T> = o.into();
    o.map(|v| f(&v)).unwrap_or_else(|| "none".into())
}
fn opt<T>(o: CtOption<T>) -> Option<T> {
    o.into()
}
fn u128tok(s: &str) -> Option<u128> {
    if s.is_empty() || s.len() > 32 {
        return None;
    }
    u128::from_str_radix(s, 16).ok()
}
fn text(s: &str) -> Option<String> {
    String::from_utf8(bytes(s)?).ok()
}
fn deser_err(e: bincode::Error) -> String {
    match *e {
        bincode::ErrorKind::Custom(m) if m.starts_with("invalid value: zero") => "err:zero".into(),
        bincode::ErrorKind::Custom(m) if m.starts_with("invalid value: even") => "err:even".into(),
        bincode::ErrorKind::Custom(_) => "err:custom".into(),
        _ => "err:decode".into(),
    }
}

// ------------------------------------------------------------------ buffer-fed RNGs

/// fallible: the words of the buffer, then `Err(Exhausted)`
struct BufRng {
    words: Vec<u64>,
    pos: usize,
}
#[derive(Debug)]
struct Exhausted;
impl core::fmt::Display for Exhausted {
    fn fmt(&self, f: &mut core::fmt::Formatter<'_>) -> core::fmt::Result {
        write!(f, "exhausted")
    }
}
fn words_of(s: &str) -> Option<Vec<u64>> {
    let b = bytes(s)?;
    if b.len() % 8 != 0 {
        return None;
    }
    Some(b.chunks(8).map(|c| u64::from_le_bytes(c.try_into().unwrap())).collect())
}
impl BufRng {
    fn new(s: &str) -> Option<Self> {
        Some(Self { words: words_of(s)?, pos: 0 })
    }
    fn pop(&mut self) -> Result<u64, Exhausted> {
        let w = *self.words.get(self.pos).ok_or(Exhausted)?;
        self.pos += 1;
        Ok(w)
    }
}
impl TryRngCore for BufRng {
    type Error = Exhausted;
    fn try_next_u32(&mut self) -> Result<u32, Exhausted> {
        Ok(self.pop()? as u32)
    }
    fn try_next_u64(&mut self) -> Result<u64, Exhausted> {
        self.pop()
    }
    fn try_fill_bytes(&mut self, dst: &mut [u8]) -> Result<(), Exhausted> {
        for c in dst.chunks_mut(8) {
            let w = self.pop()?.to_le_bytes();
            c.copy_from_slice(&w[..c.len()]);
        }
        Ok(())
    }
}
/// infallible: the words of the buffer, then all-ones words for ever
struct TailRng {
    words: Vec<u64>,
    pos: usize,
}
impl TailRng {
    fn new(s: &str) -> Option<Self> {
        Some(Self { words: words_of(s)?, pos: 0 })
    }
    fn pop(&mut self) -> u64 {
        let w = self.words.get(self.pos).copied().unwrap_or(u64::MAX);
        self.pos += 1;
        w
    }
}
impl RngCore for TailRng {
    fn next_u32(&mut self) -> u32 {
        self.pop() as u32
    }
    fn next_u64(&mut self) -> u64 {
        self.pop()
    }
    fn fill_bytes(&mut self, dst: &mut [u8]) {
        for c in dst.chunks_mut(8) {
            let w = self.pop().to_le_bytes();
            c.copy_from_slice(&w[..c.len()]);
        }
    }
}

// ------------------------------------------------------------------ primitives -> NonZero

macro_rules! from_prim {
    ($T:ty, $bits:expr, $v:expr, $via_from:expr, $pr:ident, [$(($b:literal, $P:ty, $p:ty, $f:ident)),*]) => {
        match $bits {
            $($b => {
                if $v > <$p>::MAX as u128 { return Some(BAD.into()); }
                match <$P>::new($v as $p) {
                    None => "none".to_string(),
                    Some(p) => if $via_from { $pr(&<NonZero<$T>>::from(p)) } else { $pr(&<NonZero<$T>>::$f(p)) },
                }
            })*
            _ => return Some(BAD.into()),
        }
    };
}

// ------------------------------------------------------------------ Limb

fn limb_ops(op: &str, a: &[&str]) -> Option<String> {
    Some(match (op, a) {
        ("c12.nz.l.new", [v]) => ct(NonZero::new(arg!(limb(v))), nzl),
        ("c12.nz.l.new_unwrap", [v]) => nzl(&NonZero::<Limb>::new_unwrap(arg!(limb(v)))),
        ("c12.nz.l.to_nz", [v]) => cct(arg!(limb(v)).to_nz(), nzl),
        ("c12.nz.l.to_nz_expect", [v]) => nzl(&arg!(limb(v)).to_nz().expect("c12")),
        ("c12.nz.l.from_prim", [bits, v]) | ("c12.nz.l.from_into", [bits, v]) => {
            let (bits, v, via) = (arg!(dec(bits)), arg!(u128tok(v)), op.ends_with("from_into"));
            from_prim!(Limb, bits, v, via, nzl, [(8, NonZeroU8, u8, from_u8), (16, NonZeroU16, u16, from_u16),
                (32, NonZeroU32, u32, from_u32), (64, NonZeroU64, u64, from_u64)])
        }
        ("c12.nz.l.const", ["one"]) => nzl(&NonZero::<Limb>::ONE),
        ("c12.nz.l.const", ["max"]) => nzl(&NonZero::<Limb>::MAX),
        ("c12.nz.l.default", []) => nzl(&NonZero::<Limb>::default()),
        ("c12.odd.l.default", []) => oddl(&Odd::<Limb>::default()),
        ("c12.nz.l.from_be_bytes", [b]) => {
            let r: [u8; 8] = arg!(arg!(bytes(b)).try_into().ok());
            ct(NonZero::<Limb>::from_be_bytes(r), nzl)
        }
        ("c12.nz.l.from_le_bytes", [b]) => {
            let r: [u8; 8] = arg!(arg!(bytes(b)).try_into().ok());
            ct(NonZero::<Limb>::from_le_bytes(r), nzl)
        }
        ("c12.nz.l.select", [x, y, c]) | ("c12.nz.l.cassign", [x, y, c]) | ("c12.nz.l.cswap", [x, y, c]) => {
            let c = arg!(tochoice(c));
            match (opt(NonZero::new(arg!(limb(x)))), opt(NonZero::new(arg!(limb(y))))) {
                (Some(x), Some(y)) => {
                    if op.ends_with("select") {
                        nzl(&NonZero::conditional_select(&x, &y, c))
                    } else if op.ends_with("cassign") {
                        let mut z = x;
                        z.conditional_assign(&y, c);
                        nzl(&z)
                    } else {
                        let (mut p, mut q) = (x, y);
                        ConditionallySelectable::conditional_swap(&mut p, &mut q, c);
                        format!("{} {}", nzl(&p), nzl(&q))
                    }
                }
                _ => "none".into(),
            }
        }
        ("c12.nz.l.random", [s]) => {
            let mut r = arg!(BufRng::new(s));
            match NonZero::<Limb>::try_random(&mut r) {
                Ok(w) => format!("{} {}", nzl(&w), r.pos),
                Err(_) => "err:exhausted".into(),
            }
        }
        ("c12.nz.l.random_inf", [s]) => {
            let mut r = arg!(TailRng::new(s));
            let w = NonZero::<Limb>::random(&mut r);
            format!("{} {}", nzl(&w), r.pos)
        }
        ("c12.nz.l.deser", [b]) => match bincode::deserialize::<NonZero<Limb>>(&arg!(bytes(b))) {
            Ok(w) => nzl(&w),
            Err(e) => deser_err(e),
        },
        // ---- coverage round: AsRef<T>, Serialize (+ the round trip through Deserialize)
        ("c12.nz.l.as_ref", [v]) => ct(NonZero::new(arg!(limb(v))), |w| {
            let r: &Limb = AsRef::<Limb>::as_ref(w);
            tag(r.0 != 0, lhex(*r))
        }),
        ("c12.odd.l.as_ref", []) => {
            let w = Odd::<Limb>::default();
            let r: &Limb = AsRef::<Limb>::as_ref(&w);
            tag(r.0 & 1 == 1, lhex(*r))
        }
        ("c12.nz.l.ser", [v]) => ct(NonZero::new(arg!(limb(v))), |w| {
            let b = bincode::serialize(w).unwrap();
            let back = match bincode::deserialize::<NonZero<Limb>>(&b) {
                Ok(w) => nzl(&w),
                Err(e) => deser_err(e),
            };
            format!("{} {}", bytes_tok(&b), back)
        }),
        ("c12.odd.l.ser", []) => bytes_tok(&bincode::serialize(&Odd::<Limb>::default()).unwrap()),
        ("c12.nz.l.zeroize", [v]) => match opt(NonZero::new(arg!(limb(v)))) {
            Some(mut w) => {
                w.zeroize();
                nzl(&w)
            }
            None => "none".into(),
        },
        _ => return None,
    })
}

// ------------------------------------------------------------------ Uint<N> / Int<N>, N in {1,2,4}

macro_rules! fixed_impl {
    ($fname:ident, $N:literal) => {
        fn $fname(op: &str, a: &[&str]) -> Option<String> {
            const N: usize = $N;
            type U = Uint<$N>;
            type I = Int<$N>;
            Some(match (op, a) {
                // ---- NonZero<Uint>
                ("c12.nz.u.new", [v]) => ct(NonZero::new(arg!(uint::<N>(v))), nzu),
                ("c12.nz.u.new_unwrap", [v]) => nzu(&NonZero::<U>::new_unwrap(arg!(uint::<N>(v)))),
                ("c12.nz.u.to_nz", [v]) => cct(arg!(uint::<N>(v)).to_nz(), nzu),
                ("c12.nz.u.to_nz_expect", [v]) => nzu(&arg!(uint::<N>(v)).to_nz().expect("c12")),
                ("c12.nz.u.from_prim", [bits, v]) | ("c12.nz.u.from_into", [bits, v]) => {
                    let (bits, v, via) = (arg!(dec(bits)), arg!(u128tok(v)), op.ends_with("from_into"));
                    from_prim!(U, bits, v, via, nzu, [(8, NonZeroU8, u8, from_u8), (16, NonZeroU16, u16, from_u16),
                        (32, NonZeroU32, u32, from_u32), (64, NonZeroU64, u64, from_u64), (128, NonZeroU128, u128, from_u128)])
                }
                ("c12.nz.u.const", ["one"]) => nzu(&NonZero::<U>::ONE),
                ("c12.nz.u.const", ["max"]) => nzu(&NonZero::<U>::MAX),
                ("c12.nz.u.default", []) => nzu(&NonZero::<U>::default()),
                ("c12.nz.u.from_be_bytes", [b]) => {
                    let r = arg!(<U as Encoding>::Repr::try_from(&arg!(bytes(b))[..]).ok());
                    ct(NonZero::<U>::from_be_bytes(r), nzu)
                }
                ("c12.nz.u.from_le_bytes", [b]) => {
                    let r = arg!(<U as Encoding>::Repr::try_from(&arg!(bytes(b))[..]).ok());
                    ct(NonZero::<U>::from_le_bytes(r), nzu)
                }
                ("c12.nz.u.from_be_byte_array", [b]) => {
                    let r = arg!(ByteArray::<U>::try_from(&arg!(bytes(b))[..]).ok());
                    ct(NonZero::<U>::from_be_byte_array(r), nzu)
                }
                ("c12.nz.u.from_le_byte_array", [b]) => {
                    let r = arg!(ByteArray::<U>::try_from(&arg!(bytes(b))[..]).ok());
                    ct(NonZero::<U>::from_le_byte_array(r), nzu)
                }
                ("c12.nz.u.select", [x, y, c]) | ("c12.nz.u.cassign", [x, y, c]) | ("c12.nz.u.cswap", [x, y, c]) => {
                    let c = arg!(tochoice(c));
                    match (opt(NonZero::new(arg!(uint::<N>(x)))), opt(NonZero::new(arg!(uint::<N>(y))))) {
                        (Some(x), Some(y)) => {
                            if op.ends_with("select") {
                                nzu(&NonZero::conditional_select(&x, &y, c))
                            } else if op.ends_with("cassign") {
                                let mut z = x;
                                z.conditional_assign(&y, c);
                                nzu(&z)
                            } else {
                                let (mut p, mut q) = (x, y);
                                ConditionallySelectable::conditional_swap(&mut p, &mut q, c);
                                format!("{} {}", nzu(&p), nzu(&q))
                            }
                        }
                        _ => "none".into(),
                    }
                }
                ("c12.nz.u.random", [s]) => {
                    let mut r = arg!(BufRng::new(s));
                    match NonZero::<U>::try_random(&mut r) {
                        Ok(w) => format!("{} {}", nzu(&w), r.pos),
                        Err(_) => "err:exhausted".into(),
                    }
                }
                ("c12.nz.u.random_inf", [s]) => {
                    let mut r = arg!(TailRng::new(s));
                    let w = NonZero::<U>::random(&mut r);
                    format!("{} {}", nzu(&w), r.pos)
                }
                ("c12.nz.u.deser", [b]) => match bincode::deserialize::<NonZero<U>>(&arg!(bytes(b))) {
                    Ok(w) => nzu(&w),
                    Err(e) => deser_err(e),
                },
                ("c12.nz.u.zeroize", [v]) => match opt(NonZero::new(arg!(uint::<N>(v)))) {
                    Some(mut w) => {
                        w.zeroize();
                        nzu(&w)
                    }
                    None => "none".into(),
                },
                ("c12.nz.u.clone", [v]) => ct(NonZero::new(arg!(uint::<N>(v))), |w| nzu(&w.clone())),
                // ---- coverage round: AsRef<T> / AsRef<[Limb]>, Serialize (+ round trip through Deserialize)
                ("c12.nz.u.as_ref", [v]) => ct(NonZero::new(arg!(uint::<N>(v))), |w| {
                    let r: &U = AsRef::<U>::as_ref(w);
                    tag(nonzero_words(r.as_words()), uhex(r))
                }),
                ("c12.nz.i.as_ref", [v]) => ct(NonZero::new(arg!(int::<N>(v))), |w| {
                    let r: &I = AsRef::<I>::as_ref(w);
                    tag(nonzero_words(r.as_uint().as_words()), ihex(r))
                }),
                ("c12.odd.u.as_ref", [v]) => ct(Odd::new(arg!(uint::<N>(v))), |w| {
                    let r: &U = AsRef::<U>::as_ref(w);
                    tag(odd_words(r.as_words()), uhex(r))
                }),
                ("c12.odd.i.as_ref", [v]) => cct(arg!(int::<N>(v)).to_odd(), |w| {
                    let r: &I = AsRef::<I>::as_ref(w);
                    tag(odd_words(r.as_uint().as_words()), ihex(r))
                }),
                ("c12.odd.u.as_ref_limbs", [v]) => ct(Odd::new(arg!(uint::<N>(v))), |w| {
                    let r: &[Limb] = AsRef::<[Limb]>::as_ref(w);
                    let ws: Vec<Word> = r.iter().map(|l| l.0).collect();
                    tag(odd_words(&ws), format!("{}:{}", ws.len(), words_hex(&ws)))
                }),
                ("c12.odd.i.as_ref_limbs", [v]) => cct(arg!(int::<N>(v)).to_odd(), |w| {
                    let r: &[Limb] = AsRef::<[Limb]>::as_ref(w);
                    let ws: Vec<Word> = r.iter().map(|l| l.0).collect();
                    tag(odd_words(&ws), format!("{}:{}", ws.len(), words_hex(&ws)))
                }),
                ("c12.nz.u.ser", [v]) => ct(NonZero::new(arg!(uint::<N>(v))), |w| {
                    let b = bincode::serialize(w).unwrap();
                    let back = match bincode::deserialize::<NonZero<U>>(&b) {
                        Ok(w) => nzu(&w),
                        Err(e) => deser_err(e),
                    };
                    format!("{} {}", bytes_tok(&b), back)
                }),
                ("c12.odd.u.ser", [v]) => ct(Odd::new(arg!(uint::<N>(v))), |w| {
                    let b = bincode::serialize(w).unwrap();
                    let back = match bincode::deserialize::<Odd<U>>(&b) {
                        Ok(w) => oddu(&w),
                        Err(e) => deser_err(e),
                    };
                    format!("{} {}", bytes_tok(&b), back)
                }),
                // ---- NonZero<Int>
                ("c12.nz.i.new", [v]) => ct(NonZero::new(arg!(int::<N>(v))), nzi),
                ("c12.nz.i.to_nz", [v]) => cct(arg!(int::<N>(v)).to_nz(), nzi),
                ("c12.nz.i.const", ["one"]) => nzi(&NonZero::<I>::ONE),
                ("c12.nz.i.const", ["max"]) => nzi(&NonZero::<I>::MAX),
                ("c12.nz.i.default", []) => nzi(&NonZero::<I>::default()),
                ("c12.nz.i.select", [x, y, c]) => {
                    let c = arg!(tochoice(c));
                    match (opt(NonZero::new(arg!(int::<N>(x)))), opt(NonZero::new(arg!(int::<N>(y))))) {
                        (Some(x), Some(y)) => nzi(&NonZero::conditional_select(&x, &y, c)),
                        _ => "none".into(),
                    }
                }
                ("c12.nz.i.random", [s]) => {
                    let mut r = arg!(BufRng::new(s));
                    match NonZero::<I>::try_random(&mut r) {
                        Ok(w) => format!("{} {}", nzi(&w), r.pos),
                        Err(_) => "err:exhausted".into(),
                    }
                }
                ("c12.nz.i.abs_sign", [v]) => {
                    let w: Option<NonZero<I>> = arg!(int::<N>(v)).to_nz().into();
                    match w {
                        Some(w) => {
                            let (abs, sgn) = w.abs_sign();
                            format!("{} {}", nzu(&abs), cchoice(sgn))
                        }
                        None => "none".into(),
                    }
                }
                // ---- Odd<Uint>
                ("c12.odd.u.new", [v]) => ct(Odd::new(arg!(uint::<N>(v))), oddu),
                ("c12.odd.u.to_odd", [v]) => cct(arg!(uint::<N>(v)).to_odd(), oddu),
                ("c12.odd.u.to_odd_expect", [v]) => oddu(&arg!(uint::<N>(v)).to_odd().expect("c12")),
                ("c12.odd.u.default", []) => oddu(&Odd::<U>::default()),
                ("c12.odd.u.default_as_nz", []) => nzu(Odd::<U>::default().as_nz_ref()),
                ("c12.odd.u.from_be_hex", [t]) => oddu(&Odd::<U>::from_be_hex(&arg!(text(t)))),
                ("c12.odd.u.from_le_hex", [t]) => oddu(&Odd::<U>::from_le_hex(&arg!(text(t)))),
                ("c12.odd.u.select", [x, y, c]) | ("c12.odd.u.cassign", [x, y, c]) | ("c12.odd.u.cswap", [x, y, c]) => {
                    let c = arg!(tochoice(c));
                    match (opt(Odd::new(arg!(uint::<N>(x)))), opt(Odd::new(arg!(uint::<N>(y))))) {
                        (Some(x), Some(y)) => {
                            if op.ends_with("select") {
                                oddu(&Odd::conditional_select(&x, &y, c))
                            } else if op.ends_with("cassign") {
                                let mut z = x;
                                z.conditional_assign(&y, c);
                                oddu(&z)
                            } else {
                                let (mut p, mut q) = (x, y);
                                ConditionallySelectable::conditional_swap(&mut p, &mut q, c);
                                format!("{} {}", oddu(&p), oddu(&q))
                            }
                        }
                        _ => "none".into(),
                    }
                }
                ("c12.odd.u.random", [s]) => {
                    let mut r = arg!(BufRng::new(s));
                    match Odd::<U>::try_random(&mut r) {
                        Ok(w) => format!("{} {}", oddu(&w), r.pos),
                        Err(_) => "err:exhausted".into(),
                    }
                }
                ("c12.odd.u.random_inf", [s]) => {
                    let mut r = arg!(TailRng::new(s));
                    let w = Odd::<U>::random(&mut r);
                    format!("{} {}", oddu(&w), r.pos)
                }
                ("c12.odd.u.deser", [b]) => match bincode::deserialize::<Odd<U>>(&arg!(bytes(b))) {
                    Ok(w) => oddu(&w),
                    Err(e) => deser_err(e),
                },
                ("c12.odd.u.as_nz_ref", [v]) => ct(Odd::new(arg!(uint::<N>(v))), |w| nzu(w.as_nz_ref())),
                ("c12.odd.u.as_ref_nz", [v]) => ct(Odd::new(arg!(uint::<N>(v))), |w| {
                    let r: &NonZero<U> = AsRef::<NonZero<U>>::as_ref(w);
                    nzu(r)
                }),
                ("c12.odd.u.zeroize", [v]) => match opt(Odd::new(arg!(uint::<N>(v)))) {
                    Some(mut w) => {
                        w.zeroize();
                        oddu(&w)
                    }
                    None => "none".into(),
                },
                ("c12.odd.u.clone", [v]) => ct(Odd::new(arg!(uint::<N>(v))), |w| oddu(&w.clone())),
                ("c12.odd.u.into_boxed", [v]) => ct(Odd::new(arg!(uint::<N>(v))), |w| oddb(&Odd::<BoxedUint>::from(*w))),
                ("c12.odd.u.ref_into_boxed", [v]) => ct(Odd::new(arg!(uint::<N>(v))), |w| oddb(&Odd::<BoxedUint>::from(w))),
                ("c12.odd.u.monty_modulus", [v]) => {
                    ct(Odd::new(arg!(uint::<N>(v))), |w| oddu(MontyParams::<N>::new_vartime(*w).modulus()))
                }
                // ---- Odd<Int>
                ("c12.odd.i.to_odd", [v]) => cct(arg!(int::<N>(v)).to_odd(), oddi),
                ("c12.odd.i.default", []) => oddi(&Odd::<I>::default()),
                ("c12.odd.i.select", [x, y, c]) => {
                    let c = arg!(tochoice(c));
                    let (x, y): (Option<Odd<I>>, Option<Odd<I>>) = (arg!(int::<N>(x)).to_odd().into(), arg!(int::<N>(y)).to_odd().into());
                    match (x, y) {
                        (Some(x), Some(y)) => oddi(&Odd::conditional_select(&x, &y, c)),
                        _ => "none".into(),
                    }
                }
                _ => return None,
            })
        }
    };
}
fixed_impl!(fixed1, 1);
fixed_impl!(fixed2, 2);
fixed_impl!(fixed4, 4);

// ------------------------------------------------------------------ BoxedUint

fn boxed_ops(op: &str, a: &[&str]) -> Option<String> {
    Some(match (op, a) {
        ("c12.nz.b.new", [k, v]) => ct(NonZero::new(arg!(boxed(v, arg!(dec(k))))), nzb),
        ("c12.nz.b.widen", [k, v, bits]) => {
            let bits = arg!(dec32(bits));
            ct(NonZero::new(arg!(boxed(v, arg!(dec(k))))), |w| nzb(&w.widen(bits)))
        }
        ("c12.nz.b.clone", [k, v]) => ct(NonZero::new(arg!(boxed(v, arg!(dec(k))))), |w| nzb(&w.clone())),
        ("c12.nz.b.zeroize", [k, v]) => match opt(NonZero::new(arg!(boxed(v, arg!(dec(k)))))) {
            Some(mut w) => {
                w.zeroize();
                nzb(&w)
            }
            None => "none".into(),
        },
        ("c12.nz.b.as_ref", [k, v]) => ct(NonZero::new(arg!(boxed(v, arg!(dec(k))))), |w| {
            let r: &BoxedUint = AsRef::<BoxedUint>::as_ref(w);
            tag(nonzero_words(r.as_words()), bhexlen(r))
        }),
        ("c12.odd.b.as_ref", [k, v]) => ct(Odd::new(arg!(boxed(v, arg!(dec(k))))), |w| {
            let r: &BoxedUint = AsRef::<BoxedUint>::as_ref(w);
            tag(odd_words(r.as_words()), bhexlen(r))
        }),
        ("c12.odd.b.as_ref_limbs", [k, v]) => ct(Odd::new(arg!(boxed(v, arg!(dec(k))))), |w| {
            let r: &[Limb] = AsRef::<[Limb]>::as_ref(w);
            let ws: Vec<Word> = r.iter().map(|l| l.0).collect();
            tag(odd_words(&ws), format!("{}:{}", ws.len(), words_hex(&ws)))
        }),
        ("c12.odd.b.new", [k, v]) => ct(Odd::new(arg!(boxed(v, arg!(dec(k))))), oddb),
        ("c12.odd.b.to_odd", [k, v]) => ct(arg!(boxed(v, arg!(dec(k)))).to_odd(), oddb),
        ("c12.odd.b.default", []) => oddb(&Odd::<BoxedUint>::default()),
        ("c12.odd.b.random", [bits, s]) => {
            let mut r = arg!(BufRng::new(s));
            let w = Odd::<BoxedUint>::random(&mut r, arg!(dec32(bits)));
            format!("{} {}", oddb(&w), r.pos)
        }
        ("c12.odd.b.as_nz_ref", [k, v]) => ct(Odd::new(arg!(boxed(v, arg!(dec(k))))), |w| nzb(w.as_nz_ref())),
        ("c12.odd.b.clone", [k, v]) => ct(Odd::new(arg!(boxed(v, arg!(dec(k))))), |w| oddb(&w.clone())),
        ("c12.odd.b.zeroize", [k, v]) => match opt(Odd::new(arg!(boxed(v, arg!(dec(k)))))) {
            Some(mut w) => {
                w.zeroize();
                oddb(&w)
            }
            None => "none".into(),
        },
        ("c12.odd.b.monty_modulus", [k, v]) => {
            ct(Odd::new(arg!(boxed(v, arg!(dec(k))))), |w| oddb(BoxedMontyParams::new_vartime(w.clone()).modulus()))
        }
        _ => return None,
    })
}

pub fn dispatch(op: &str, a: &[&str]) -> Option<String> {
    if op == "c12.inventory" {
        // a producer exists in the crate that tools/c12_producers.json (and hence the model) does not know
        return Some(format!("producer-in-crate:{}", a.join("_")));
    }
    if op == "c12.inventory.ok" {
        return Some(format!("covered {}", a.join(" ")));
    }
    let parts: Vec<&str> = op.split('.').collect();
    if parts.len() < 4 {
        return None;
    }
    match parts[2] {
        "l" => limb_ops(op, a),
        "b" => boxed_ops(op, a),
        "u" | "i" if !a.is_empty() => {
            let n = arg!(dec(a[0]));
            let rest = &a[1..];
            match n {
                1 => fixed1(op, rest),
                2 => fixed2(op, rest),
                4 => fixed4(op, rest),
                _ => Some("unsupported-width".to_string()),
            }
        }
        _ => None,
    }
}
