//! C10 — modular inversion and gcd (op names start with `c10.`)
//!
//! Fixed widths 1,2,3,4,5,6,7,8,16,32 limbs (concrete aliases: the `PrecomputeInverter` impls exist per
//! alias), `BoxedUint` at any limb count given on the line.
use crate::util::*;
use crypto_bigint::modular::{
    BoxedMontyForm, BoxedMontyParams, ConstMontyForm, ConstMontyParams, MontyForm, MontyParams,
};
use crypto_bigint::{
    BoxedUint, Gcd, InvMod, Invert, Inverter, NonZero, Odd, PrecomputeInverter, U64, U128, U192, U256,
    U384, U448, U512, U1024, U2048, U320, impl_modulus,
};
use subtle::CtOption;

fn opt<T>(o: Option<T>, f: impl Fn(&T) -> String) -> String {
    match o {
        Some(v) => f(&v),
        None => "none".into(),
    }
}

fn flag(s: &str) -> Option<bool> {
    match s {
        "0" => Some(false),
        "1" => Some(true),
        _ => None,
    }
}

macro_rules! impl_fixed {
    ($name:ident, $U:ty, $N:expr) => {
        fn $name(op: &str, a: &[&str]) -> Option<String> {
            type U = $U;
            const N: usize = $N;
            Some(match (op, a) {
                ("c10.u.inv_mod2k", [x, k]) => {
                    let r: Option<U> = arg!(uint::<N>(x)).inv_mod2k(arg!(dec32(k))).into();
                    opt(r, uhex)
                }
                ("c10.u.inv_mod2k_vartime", [x, k]) => {
                    let r: Option<U> = arg!(uint::<N>(x)).inv_mod2k_vartime(arg!(dec32(k))).into();
                    opt(r, uhex)
                }
                ("c10.u.inv_mod", [x, m]) => {
                    let r: Option<U> = arg!(uint::<N>(x)).inv_mod(&arg!(uint::<N>(m))).into();
                    opt(r, uhex)
                }
                ("c10.u.inv_mod_trait", [x, m]) => {
                    let r: CtOption<U> = InvMod::inv_mod(&arg!(uint::<N>(x)), &arg!(uint::<N>(m)));
                    opt(Option::<U>::from(r), uhex)
                }
                // modulus ZERO through the option-returning forms (own op name: known finding, DESIGN §7 row 8)
                ("c10.u.inv_mod_m0", [x, form]) => {
                    let x = arg!(uint::<N>(x));
                    let r: Option<U> = match arg!(dec(form)) {
                        0 => x.inv_mod(&U::ZERO).into(),
                        1 => InvMod::inv_mod(&x, &U::ZERO).into(),
                        _ => return Some(BAD.into()),
                    };
                    opt(r, uhex)
                }
                ("c10.u.inv_odd_mod", [x, m]) => {
                    let m = Odd::new(arg!(uint::<N>(m))).unwrap();
                    let r: Option<U> = arg!(uint::<N>(x)).inv_odd_mod(&m).into();
                    opt(r, uhex)
                }
                ("c10.u.inverter", [m, x, vt]) => {
                    let m = Odd::new(arg!(uint::<N>(m))).unwrap();
                    let x = arg!(uint::<N>(x));
                    let inv = m.precompute_inverter();
                    let r: Option<U> = if arg!(flag(vt)) { inv.invert_vartime(&x) } else { inv.invert(&x) }.into();
                    opt(r, uhex)
                }
                ("c10.u.monty_inv", [m, x, form]) => {
                    let m = Odd::new(arg!(uint::<N>(m))).unwrap();
                    let x = arg!(uint::<N>(x));
                    let params = MontyParams::new(m);
                    let mf = MontyForm::new(&x, params);
                    let r: Option<MontyForm<N>> = match arg!(dec(form)) {
                        0 => mf.inv().into(),
                        1 => mf.inv_vartime().into(),
                        2 => Invert::invert(&mf).into(),
                        3 => Invert::invert_vartime(&mf).into(),
                        4 => params.precompute_inverter().invert(&mf).into(),
                        5 => params.precompute_inverter().invert_vartime(&mf).into(),
                        _ => return Some(BAD.into()),
                    };
                    // "the retrieved values multiply to 1": print the retrieved inverse, and make
                    // sure the product in Montgomery form retrieves 1 mod m as well
                    match r {
                        Some(i) => {
                            let prod = (mf * i).retrieve();
                            let one = U::ONE.rem_vartime(m.as_nz_ref());
                            if prod != one {
                                format!("product-not-one:{}", uhex(&prod))
                            } else {
                                uhex(&i.retrieve())
                            }
                        }
                        None => "none".into(),
                    }
                }
                ("c10.i.inv_odd_mod", [x, m]) => {
                    let m = Odd::new(arg!(uint::<N>(m))).unwrap();
                    let r: Option<U> = arg!(int::<N>(x)).inv_odd_mod(&m).into();
                    opt(r, uhex)
                }
                ("c10.i.inv_mod", [x, m]) => {
                    let m = NonZero::new(arg!(uint::<N>(m))).unwrap();
                    let r: Option<U> = InvMod::inv_mod(&arg!(int::<N>(x)), &m).into();
                    opt(r, uhex)
                }
                ("c10.u.gcd", [x, y]) => uhex(&arg!(uint::<N>(x)).gcd(&arg!(uint::<N>(y)))),
                ("c10.u.gcd_trait", [x, y, vt]) => {
                    let (x, y) = (arg!(uint::<N>(x)), arg!(uint::<N>(y)));
                    uhex(&if arg!(flag(vt)) { Gcd::gcd_vartime(&x, &y) } else { Gcd::gcd(&x, &y) })
                }
                ("c10.u.gcd_int", [x, y, vt]) => {
                    let (x, y) = (arg!(uint::<N>(x)), arg!(int::<N>(y)));
                    uhex(&if arg!(flag(vt)) { Gcd::gcd_vartime(&x, &y) } else { Gcd::gcd(&x, &y) })
                }
                ("c10.i.gcd", [x, y, vt]) => {
                    let (x, y) = (arg!(int::<N>(x)), arg!(int::<N>(y)));
                    uhex(&if arg!(flag(vt)) { Gcd::gcd_vartime(&x, &y) } else { Gcd::gcd(&x, &y) })
                }
                ("c10.i.gcd_uint", [x, y, vt]) => {
                    let (x, y) = (arg!(int::<N>(x)), arg!(uint::<N>(y)));
                    uhex(&if arg!(flag(vt)) { Gcd::gcd_vartime(&x, &y) } else { Gcd::gcd(&x, &y) })
                }
                ("c10.u.odd_gcd", [f, g, form]) => {
                    let f = Odd::new(arg!(uint::<N>(f))).unwrap();
                    let g = arg!(uint::<N>(g));
                    // `impl Gcd<Uint> for Odd<Uint>` (src/uint/gcd.rs:63) is bounded on
                    // `Odd<Odd<Uint>>: PrecomputeInverter`, which no type satisfies: the trait forms
                    // cannot be called; only the inherent `gcd_vartime` exists (form 2).
                    uhex(&match arg!(dec(form)) {
                        2 => f.gcd_vartime(&g),
                        _ => return Some(BAD.into()),
                    })
                }
                _ => return None,
            })
        }
    };
}

impl_fixed!(fixed1, U64, 1);
impl_fixed!(fixed2, U128, 2);
impl_fixed!(fixed3, U192, 3);
impl_fixed!(fixed4, U256, 4);
impl_fixed!(fixed5, U320, 5);
impl_fixed!(fixed7, U448, 7);
impl_fixed!(fixed6, U384, 6);
impl_fixed!(fixed8, U512, 8);
impl_fixed!(fixed16, U1024, 16);
impl_fixed!(fixed32, U2048, 32);

// ---- ConstMontyForm: compile-time moduli (tools/gen/c10.py CONST_MODULI must list the same values)
impl_modulus!(CM0, U64, "ffffffffffffffff"); // 3·5·17·257·641·65537·6700417
impl_modulus!(CM1, U128, "7fffffffffffffffffffffffffffffff"); // 2^127 - 1, prime
impl_modulus!(CM2, U256, "ffffffff00000000ffffffffffffffffbce6faada7179e84f3b9cac2fc632551"); // P-256 order
impl_modulus!(
    CM3,
    U384,
    "fffffffffffffffffffffffffffffffffffffffffffffffffffffffffffffffeffffffff0000000000000000ffffffff"
); // P-384 field prime
impl_modulus!(CM4, U192, "000000000000000000000000000000000000000000000003"); // tiny modulus in a wide type
impl_modulus!(CM5, U64, "0000000000000001"); // modulus 1

macro_rules! const_monty {
    ($M:ty, $N:expr, $x:expr, $form:expr) => {{
        let x = arg!(uint::<$N>($x));
        let mf = ConstMontyForm::<$M, $N>::new(&x);
        let r: Option<ConstMontyForm<$M, $N>> = match $form {
            0 => mf.inv().into(),
            1 => mf.inv_vartime().into(),
            2 => Invert::invert(&mf).into(),
            3 => Invert::invert_vartime(&mf).into(),
            4 => <$M>::precompute_inverter().invert(&mf).into(),
            5 => <$M>::precompute_inverter().invert_vartime(&mf).into(),
            6 => <$M>::precompute_inverter().inv(&mf).into(),
            7 => <$M>::precompute_inverter().inv_vartime(&mf).into(),
            _ => return Some(BAD.into()),
        };
        match r {
            Some(i) => {
                let prod = (mf * i).retrieve();
                let one = ConstMontyForm::<$M, $N>::ONE.retrieve();
                if prod != one { format!("product-not-one:{}", uhex(&prod)) } else { uhex(&i.retrieve()) }
            }
            None => "none".into(),
        }
    }};
}

fn const_monty_dispatch(n: usize, m: &str, x: &str, form: usize) -> Option<String> {
    Some(match (n, m) {
        (1, "ffffffffffffffff") => const_monty!(CM0, 1, x, form),
        (2, "7fffffffffffffffffffffffffffffff") => const_monty!(CM1, 2, x, form),
        (4, "ffffffff00000000ffffffffffffffffbce6faada7179e84f3b9cac2fc632551") => const_monty!(CM2, 4, x, form),
        (6, "fffffffffffffffffffffffffffffffffffffffffffffffffffffffffffffffeffffffff0000000000000000ffffffff") => {
            const_monty!(CM3, 6, x, form)
        }
        (3, "3") => const_monty!(CM4, 3, x, form),
        (1, "1") => const_monty!(CM5, 1, x, form),
        _ => BAD.into(),
    })
}

fn bopt(r: CtOption<BoxedUint>) -> String {
    opt(Option::<BoxedUint>::from(r), bhex)
}

fn boxed_ops(op: &str, a: &[&str]) -> Option<String> {
    Some(match (op, a) {
        ("c10.b.inv_mod2k", [n, x, k]) => {
            let (v, c) = arg!(boxed(x, arg!(dec(n)))).inv_mod2k(arg!(dec32(k)));
            if bool::from(c) { bhex(&v) } else { "none".into() }
        }
        ("c10.b.inv_mod2k_vartime", [n, x, k]) => {
            let (v, c) = arg!(boxed(x, arg!(dec(n)))).inv_mod2k_vartime(arg!(dec32(k)));
            if bool::from(c) { bhex(&v) } else { "none".into() }
        }
        ("c10.b.inv_mod", [n, x, m]) => {
            let n = arg!(dec(n));
            bopt(arg!(boxed(x, n)).inv_mod(&arg!(boxed(m, n))))
        }
        ("c10.b.inv_mod_trait", [n, x, m]) => {
            let n = arg!(dec(n));
            bopt(InvMod::inv_mod(&arg!(boxed(x, n)), &arg!(boxed(m, n))))
        }
        // different precisions: documented panic (an `assert_eq!` in every build since /repo fb50dbc)
        ("c10.b.inv_mod_mixed", [lx, x, lm, m]) => {
            bopt(arg!(boxed(x, arg!(dec(lx)))).inv_mod(&arg!(boxed(m, arg!(dec(lm))))))
        }
        ("c10.b.inv_odd_mod", [n, x, m]) => {
            let n = arg!(dec(n));
            let m = Odd::new(arg!(boxed(m, n))).unwrap();
            bopt(arg!(boxed(x, n)).inv_odd_mod(&m))
        }
        ("c10.b.inv_odd_mod_mixed", [lx, x, lm, m]) => {
            let m = Odd::new(arg!(boxed(m, arg!(dec(lm))))).unwrap();
            bopt(arg!(boxed(x, arg!(dec(lx)))).inv_odd_mod(&m))
        }
        ("c10.b.inverter", [n, m, x, vt]) => {
            let n = arg!(dec(n));
            let m = Odd::new(arg!(boxed(m, n))).unwrap();
            let x = arg!(boxed(x, n));
            let inv = m.precompute_inverter();
            bopt(if arg!(flag(vt)) { inv.invert_vartime(&x) } else { inv.invert(&x) })
        }
        ("c10.b.monty_inv", [n, m, x, form]) => {
            let n = arg!(dec(n));
            let m = Odd::new(arg!(boxed(m, n))).unwrap();
            let x = arg!(boxed(x, n));
            let params = BoxedMontyParams::new(m.clone());
            let mf = BoxedMontyForm::new(x, params.clone());
            let r: Option<BoxedMontyForm> = match arg!(dec(form)) {
                0 => mf.invert().into(),
                1 => mf.invert_vartime().into(),
                2 => Invert::invert(&mf).into(),
                3 => Invert::invert_vartime(&mf).into(),
                4 => params.precompute_inverter().invert(&mf).into(),
                5 => params.precompute_inverter().invert_vartime(&mf).into(),
                _ => return Some(BAD.into()),
            };
            match r {
                Some(i) => {
                    let prod = (&mf * &i).retrieve();
                    let one = BoxedUint::one_with_precision(m.bits_precision()).rem_vartime(m.as_nz_ref());
                    if prod != one { format!("product-not-one:{}", bhex(&prod)) } else { bhex(&i.retrieve()) }
                }
                None => "none".into(),
            }
        }
        ("c10.b.gcd", [n, x, y, vt]) => {
            let n = arg!(dec(n));
            let (x, y) = (arg!(boxed(x, n)), arg!(boxed(y, n)));
            bhex(&if arg!(flag(vt)) { Gcd::gcd_vartime(&x, &y) } else { Gcd::gcd(&x, &y) })
        }
        ("c10.b.odd_gcd", [n, f, g, vt]) => {
            let n = arg!(dec(n));
            let f = Odd::new(arg!(boxed(f, n))).unwrap();
            let g = arg!(boxed(g, n));
            bhex(&if arg!(flag(vt)) { Gcd::gcd_vartime(&f, &g) } else { Gcd::gcd(&f, &g) })
        }
        ("c10.b.gcd_mixed", [lx, x, ly, y, vt]) => {
            let (x, y) = (arg!(boxed(x, arg!(dec(lx)))), arg!(boxed(y, arg!(dec(ly)))));
            bhexlen(&if arg!(flag(vt)) { Gcd::gcd_vartime(&x, &y) } else { Gcd::gcd(&x, &y) })
        }
        ("c10.b.odd_gcd_mixed", [lf, f, lg, g, vt]) => {
            let f = Odd::new(arg!(boxed(f, arg!(dec(lf))))).unwrap();
            let g = arg!(boxed(g, arg!(dec(lg))));
            bhexlen(&if arg!(flag(vt)) { Gcd::gcd_vartime(&f, &g) } else { Gcd::gcd(&f, &g) })
        }
        _ => return None,
    })
}

// ------------------------------------------------------------------ hooks: the safegcd building blocks
// (`crypto_bigint::verif_hooks::{safegcd, safegcd_boxed}`) on plain arrays / slices of 62-bit limbs.
// Unsaturated integers are comma-separated limb lists (least significant first, each a u64 in hex);
// `i64` values (delta, matrix entries, inverse, multiplier) are the hex of their two's complement u64.
//
//   c10.hook.inv_mod2_62 <w0[,w1…]>                      c10.hook.iterations <f_bits> <g_bits>
//   c10.hook.jump <f limbs> <g limbs> <delta>            → delta' t00 t01 t10 t11
//   c10.hook.fg <f> <g> <t00,t01,t10,t11>                → f' g'          (LIMBS = list length; bfg = boxed twin)
//   c10.hook.de <modulus> <inverse> <t> <d> <e>          → d' e'          (bde)
//   c10.hook.divsteps <vt> <e> <f0> <g> <inverse>        → d f            (bdivsteps <vt> <d> <e> <f0> <g> <inverse> → d' g' f)
//   c10.hook.from_uint <sat> <unsat> <hex>  → limbs      c10.hook.to_uint <sat> <limbs> → hex
//   c10.hook.bfrom_uint <sat> <hex> <nlimbs>             c10.hook.bto_uint <limbs> <bits_precision> → <n>:<hex>
//   c10.hook.{add,eq} <a> <b>   c10.hook.mul <a> <i64>   c10.hook.{neg,shr,is_negative,lz,bits} <a>   (b-prefixed: boxed)
//   c10.hook.inverter <sat> <m> <adj> → modulus adjuster inverse     c10.hook.norm <sat> <m> <value> <negate>
//   c10.hook.binverter <n> <m> <nadj> <adj>                           c10.hook.bnorm <n> <m> <value> <negate>
//   c10.hook.bnlimbs <sat>
#[cfg(crypto_bigint_verif)]
mod hook {
    use crate::util::*;
    use crypto_bigint::modular::{BoxedSafeGcdInverter, SafeGcdInverter};
    use crypto_bigint::verif_hooks::{safegcd as h, safegcd_boxed as hb};
    use crypto_bigint::{Odd, Uint};

    pub fn limbs(s: &str) -> Option<Vec<u64>> {
        s.split(',').map(word).collect()
    }
    pub fn i64of(s: &str) -> Option<i64> {
        Some(word(s)? as i64)
    }
    pub fn mat(s: &str) -> Option<[[i64; 2]; 2]> {
        let v: Vec<i64> = s.split(',').map(i64of).collect::<Option<_>>()?;
        if v.len() != 4 {
            return None;
        }
        Some([[v[0], v[1]], [v[2], v[3]]])
    }
    pub fn ltok(l: &[u64]) -> String {
        l.iter().map(|x| format!("{x:x}")).collect::<Vec<_>>().join(",")
    }
    fn arr<const L: usize>(s: &str) -> Option<[u64; L]> {
        limbs(s)?.try_into().ok()
    }
    fn x64(v: i64) -> String {
        format!("{:x}", v as u64)
    }

    /// ops on `UnsatInt<L>` for one `L`; `a` = the line's arguments
    pub fn fixed<const L: usize>(name: &str, a: &[&str]) -> Option<String> {
        Some(match (name, a) {
            ("fg", [f, g, t]) => {
                let (f, g) = h::fg::<L>(arg!(arr(f)), arg!(arr(g)), arg!(mat(t)));
                format!("{} {}", ltok(&f), ltok(&g))
            }
            ("de", [m, inv, t, d, e]) => {
                let (d, e) = h::de::<L>(arg!(arr(m)), arg!(i64of(inv)), arg!(mat(t)), arg!(arr(d)), arg!(arr(e)));
                format!("{} {}", ltok(&d), ltok(&e))
            }
            ("divsteps", [vt, e, f0, g, inv]) => {
                let (e, f0, g, inv) = (arg!(arr::<L>(e)), arg!(arr::<L>(f0)), arg!(arr::<L>(g)), arg!(i64of(inv)));
                let (d, f) = match *vt {
                    "0" => h::divsteps(e, f0, g, inv),
                    "1" => h::divsteps_vartime(e, f0, g, inv),
                    _ => return Some(BAD.into()),
                };
                format!("{} {}", ltok(&d), ltok(&f))
            }
            ("add", [x, y]) => ltok(&h::unsat_add::<L>(arg!(arr(x)), arg!(arr(y)))),
            ("mul", [x, y]) => ltok(&h::unsat_mul::<L>(arg!(arr(x)), arg!(i64of(y)))),
            ("neg", [x]) => ltok(&h::unsat_neg::<L>(arg!(arr(x)))),
            ("shr", [x]) => ltok(&h::unsat_shr::<L>(arg!(arr(x)))),
            ("eq", [x, y]) => bit(h::unsat_eq::<L>(arg!(arr(x)), arg!(arr(y)))),
            ("is_negative", [x]) => bit(h::unsat_is_negative::<L>(arg!(arr(x)))),
            ("lz", [x]) => format!("{}", h::unsat_leading_zeros::<L>(arg!(arr(x)))),
            ("bits", [x]) => format!("{}", h::unsat_bits::<L>(arg!(arr(x)))),
            _ => return None,
        })
    }

    /// ops tied to a saturated width: conversions and the inverter
    pub fn sat<const S: usize, const L: usize>(name: &str, a: &[&str]) -> Option<String> {
        Some(match (name, a) {
            ("from_uint", [x]) => ltok(&h::unsat_from_uint::<S, L>(&arg!(uint::<S>(x)))),
            ("to_uint", [x]) => uhex(&h::unsat_to_uint::<S, L>(arg!(arr(x)))),
            ("inverter", [m, adj]) => {
                let m: Odd<Uint<S>> = arg!(Option::from(Odd::new(arg!(uint::<S>(m)))));
                let inv = SafeGcdInverter::<S, L>::new(&m, &arg!(uint::<S>(adj)));
                let (mo, ad, i) = h::inverter_fields(&inv);
                format!("{} {} {}", ltok(&mo), ltok(&ad), x64(i))
            }
            ("norm", [m, v, neg]) => {
                let m: Odd<Uint<S>> = arg!(Option::from(Odd::new(arg!(uint::<S>(m)))));
                let inv = SafeGcdInverter::<S, L>::new(&m, &Uint::<S>::ONE);
                ltok(&h::inverter_norm(&inv, arg!(arr(v)), arg!(super::flag(neg))))
            }
            _ => return None,
        })
    }

    pub fn free(name: &str, a: &[&str]) -> Option<String> {
        Some(match (name, a) {
            ("inv_mod2_62", [w]) => x64(h::inv_mod2_62(&arg!(limbs(w)))),
            ("iterations", [f, g]) => format!("{}", h::iterations(arg!(dec32(f)), arg!(dec32(g)))),
            ("jump", [f, g, d]) => {
                let (d, t) = h::jump(&arg!(limbs(f)), &arg!(limbs(g)), arg!(i64of(d)));
                format!("{} {} {} {} {}", x64(d), x64(t[0][0]), x64(t[0][1]), x64(t[1][0]), x64(t[1][1]))
            }
            // ---- boxed twins
            ("bnlimbs", [s]) => format!("{}", hb::unsat_nlimbs_for_sat_nlimbs(arg!(dec(s)))),
            ("bfg", [f, g, t]) => {
                let (f, g) = hb::fg(&arg!(limbs(f)), &arg!(limbs(g)), arg!(mat(t)));
                format!("{} {}", ltok(&f), ltok(&g))
            }
            ("bde", [m, inv, t, d, e]) => {
                let (d, e) = hb::de(&arg!(limbs(m)), arg!(i64of(inv)), arg!(mat(t)), &arg!(limbs(d)), &arg!(limbs(e)));
                format!("{} {}", ltok(&d), ltok(&e))
            }
            ("bdivsteps", [vt, d, e, f0, g, inv]) => {
                let (d, g, f) = hb::divsteps(
                    &arg!(limbs(d)),
                    &arg!(limbs(e)),
                    &arg!(limbs(f0)),
                    &arg!(limbs(g)),
                    arg!(i64of(inv)),
                    arg!(super::flag(vt)),
                );
                format!("{} {} {}", ltok(&d), ltok(&g), ltok(&f))
            }
            ("bfrom_uint", [s, x, n]) => ltok(&hb::unsat_from_uint_widened(&arg!(boxed(x, arg!(dec(s)))), arg!(dec(n)))),
            ("bto_uint", [x, p]) => bhexlen(&hb::unsat_to_uint(&arg!(limbs(x)), arg!(dec32(p)))),
            ("badd", [x, y]) => ltok(&hb::unsat_add(&arg!(limbs(x)), &arg!(limbs(y)))),
            ("bmul", [x, y]) => ltok(&hb::unsat_mul(&arg!(limbs(x)), arg!(i64of(y)))),
            ("bneg", [x]) => ltok(&hb::unsat_neg(&arg!(limbs(x)))),
            ("bshr", [x]) => ltok(&hb::unsat_shr(&arg!(limbs(x)))),
            ("bis_negative", [x]) => bit(hb::unsat_is_negative(&arg!(limbs(x)))),
            ("blz", [x]) => format!("{}", hb::unsat_leading_zeros(&arg!(limbs(x)))),
            ("bbits", [x]) => format!("{}", hb::unsat_bits(&arg!(limbs(x)))),
            ("binverter", [n, m, na, adj]) => {
                let m = arg!(Option::from(Odd::new(arg!(boxed(m, arg!(dec(n)))))));
                let inv = BoxedSafeGcdInverter::new(&m, &arg!(boxed(adj, arg!(dec(na)))));
                let (mo, ad, i) = hb::inverter_fields(&inv);
                format!("{} {} {}", ltok(&mo), ltok(&ad), x64(i))
            }
            ("bnorm", [n, m, v, neg]) => {
                let n = arg!(dec(n));
                let m = arg!(Option::from(Odd::new(arg!(boxed(m, n)))));
                let inv = BoxedSafeGcdInverter::new(&m, &crypto_bigint::BoxedUint::one_with_precision(64 * n as u32));
                ltok(&hb::inverter_norm(&inv, &arg!(limbs(v)), arg!(super::flag(neg))))
            }
            _ => return None,
        })
    }
}

#[cfg(not(crypto_bigint_verif))]
fn hook_dispatch(_name: &str, _a: &[&str]) -> Option<String> {
    Some(crate::util::HOOK_UNAVAILABLE.to_string())
}
#[cfg(crypto_bigint_verif)]
fn hook_dispatch(name: &str, a: &[&str]) -> Option<String> {
    let unsupported = Some("unsupported-width".to_string());
    match name {
        // LIMBS = number of limbs of the first unsaturated operand
        "fg" | "de" | "divsteps" | "add" | "mul" | "neg" | "shr" | "eq" | "is_negative" | "lz" | "bits" => {
            let first = match name {
                "divsteps" => a.get(1),
                _ => a.first(),
            };
            let l = arg!(first.and_then(|s| hook::limbs(s))).len();
            match l {
                1 => hook::fixed::<1>(name, a),
                2 => hook::fixed::<2>(name, a),
                3 => hook::fixed::<3>(name, a),
                4 => hook::fixed::<4>(name, a),
                6 => hook::fixed::<6>(name, a),
                10 => hook::fixed::<10>(name, a),
                _ => unsupported,
            }
        }
        "from_uint" | "to_uint" if a.len() >= 2 => {
            let (s, l) = (arg!(dec(a[0])), arg!(dec(a[1])));
            let rest = &a[2..];
            match (s, l) {
                (1, 3) => hook::sat::<1, 3>(name, rest),
                (2, 4) => hook::sat::<2, 4>(name, rest),
                (3, 5) => hook::sat::<3, 5>(name, rest),
                (4, 6) => hook::sat::<4, 6>(name, rest),
                (6, 8) => hook::sat::<6, 8>(name, rest),
                (8, 10) => hook::sat::<8, 10>(name, rest),
                (2, 3) => hook::sat::<2, 3>(name, rest), // mismatched: "incorrect number of limbs"
                (1, 4) => hook::sat::<1, 4>(name, rest),
                _ => unsupported,
            }
        }
        "inverter" | "norm" if !a.is_empty() => {
            let rest = &a[1..];
            match arg!(dec(a[0])) {
                1 => hook::sat::<1, 3>(name, rest),
                2 => hook::sat::<2, 4>(name, rest),
                3 => hook::sat::<3, 5>(name, rest),
                4 => hook::sat::<4, 6>(name, rest),
                6 => hook::sat::<6, 8>(name, rest),
                8 => hook::sat::<8, 10>(name, rest),
                _ => unsupported,
            }
        }
        _ => hook::free(name, a),
    }
}

pub fn dispatch(op: &str, a: &[&str]) -> Option<String> {
    if let Some(name) = op.strip_prefix("c10.hook.") {
        return hook_dispatch(name, a);
    }
    if op.starts_with("c10.b.") {
        return boxed_ops(op, a);
    }
    if op == "c10.c.monty_inv" {
        if let [n, m, x, form] = a {
            return const_monty_dispatch(arg!(dec(n)), m, x, arg!(dec(form)));
        }
        return Some(BAD.into());
    }
    if (op.starts_with("c10.u.") || op.starts_with("c10.i.")) && !a.is_empty() {
        let n = arg!(dec(a[0]));
        let rest = &a[1..];
        return match n {
            1 => fixed1(op, rest),
            2 => fixed2(op, rest),
            3 => fixed3(op, rest),
            4 => fixed4(op, rest),
            5 => fixed5(op, rest),
            7 => fixed7(op, rest),
            6 => fixed6(op, rest),
            8 => fixed8(op, rest),
            16 => fixed16(op, rest),
            32 => fixed32(op, rest),
            _ => Some("unsupported-width".to_string()),
        };
    }
    None
}
