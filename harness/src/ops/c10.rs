//! C10 — modular inversion and gcd (op names start with `c10.`)
//!
//! Fixed widths 1,2,3,4,6,8,16,32 limbs (concrete aliases: the `PrecomputeInverter` impls exist per
//! alias), `BoxedUint` at any limb count given on the line.
use crate::util::*;
use crypto_bigint::modular::{
    BoxedMontyForm, BoxedMontyParams, ConstMontyForm, ConstMontyParams, MontyForm, MontyParams,
};
use crypto_bigint::{
    BoxedUint, Gcd, InvMod, Invert, Inverter, NonZero, Odd, PrecomputeInverter, U64, U128, U192, U256,
    U384, U512, U1024, U2048, impl_modulus,
};
use subtle::CtOption;

fn opt<T>(o: Option<T>, f: impl Fn(&T) -> String) -> String {
    match o {
        Some(v) => f(&v),
        None => "none".into(),
    }
}

fn flag(s: &str) -> Option<bool> {
    match s {
        "0" => Some(false),
        "1" => Some(true),
        _ => None,
    }
}

macro_rules! impl_fixed {
    ($name:ident, $U:ty, $N:expr) => {
        fn $name(op: &str, a: &[&str]) -> Option<String> {
            type U = $U;
            const N: usize = $N;
            Some(match (op, a) {
                ("c10.u.inv_mod2k", [x, k]) => {
                    let r: Option<U> = arg!(uint::<N>(x)).inv_mod2k(arg!(dec32(k))).into();
                    opt(r, uhex)
                }
                ("c10.u.inv_mod2k_vartime", [x, k]) => {
                    let r: Option<U> = arg!(uint::<N>(x)).inv_mod2k_vartime(arg!(dec32(k))).into();
                    opt(r, uhex)
                }
                ("c10.u.inv_mod", [x, m]) => {
                    let r: Option<U> = arg!(uint::<N>(x)).inv_mod(&arg!(uint::<N>(m))).into();
                    opt(r, uhex)
                }
                ("c10.u.inv_mod_trait", [x, m]) => {
                    let r: CtOption<U> = InvMod::inv_mod(&arg!(uint::<N>(x)), &arg!(uint::<N>(m)));
                    opt(Option::<U>::from(r), uhex)
                }
                // modulus ZERO through the option-returning forms (own op name: known finding, DESIGN §7 row 8)
                ("c10.u.inv_mod_m0", [x, form]) => {
                    let x = arg!(uint::<N>(x));
                    let r: Option<U> = match arg!(dec(form)) {
                        0 => x.inv_mod(&U::ZERO).into(),
                        1 => InvMod::inv_mod(&x, &U::ZERO).into(),
                        _ => return Some(BAD.into()),
                    };
                    opt(r, uhex)
                }
                ("c10.u.inv_odd_mod", [x, m]) => {
                    let m = Odd::new(arg!(uint::<N>(m))).unwrap();
                    let r: Option<U> = arg!(uint::<N>(x)).inv_odd_mod(&m).into();
                    opt(r, uhex)
                }
                ("c10.u.inverter", [m, x, vt]) => {
                    let m = Odd::new(arg!(uint::<N>(m))).unwrap();
                    let x = arg!(uint::<N>(x));
                    let inv = m.precompute_inverter();
                    let r: Option<U> = if arg!(flag(vt)) { inv.invert_vartime(&x) } else { inv.invert(&x) }.into();
                    opt(r, uhex)
                }
                ("c10.u.monty_inv", [m, x, form]) => {
                    let m = Odd::new(arg!(uint::<N>(m))).unwrap();
                    let x = arg!(uint::<N>(x));
                    let params = MontyParams::new(m);
                    let mf = MontyForm::new(&x, params);
                    let r: Option<MontyForm<N>> = match arg!(dec(form)) {
                        0 => mf.inv().into(),
                        1 => mf.inv_vartime().into(),
                        2 => Invert::invert(&mf).into(),
                        3 => Invert::invert_vartime(&mf).into(),
                        4 => params.precompute_inverter().invert(&mf).into(),
                        5 => params.precompute_inverter().invert_vartime(&mf).into(),
                        _ => return Some(BAD.into()),
                    };
                    // "the retrieved values multiply to 1": print the retrieved inverse, and make
                    // sure the product in Montgomery form retrieves 1 mod m as well
                    match r {
                        Some(i) => {
                            let prod = (mf * i).retrieve();
                            let one = U::ONE.rem_vartime(m.as_nz_ref());
                            if prod != one {
                                format!("product-not-one:{}", uhex(&prod))
                            } else {
                                uhex(&i.retrieve())
                            }
                        }
                        None => "none".into(),
                    }
                }
                ("c10.i.inv_odd_mod", [x, m]) => {
                    let m = Odd::new(arg!(uint::<N>(m))).unwrap();
                    let r: Option<U> = arg!(int::<N>(x)).inv_odd_mod(&m).into();
                    opt(r, uhex)
                }
                ("c10.i.inv_mod", [x, m]) => {
                    let m = NonZero::new(arg!(uint::<N>(m))).unwrap();
                    let r: Option<U> = InvMod::inv_mod(&arg!(int::<N>(x)), &m).into();
                    opt(r, uhex)
                }
                ("c10.u.gcd", [x, y]) => uhex(&arg!(uint::<N>(x)).gcd(&arg!(uint::<N>(y)))),
                ("c10.u.gcd_trait", [x, y, vt]) => {
                    let (x, y) = (arg!(uint::<N>(x)), arg!(uint::<N>(y)));
                    uhex(&if arg!(flag(vt)) { Gcd::gcd_vartime(&x, &y) } else { Gcd::gcd(&x, &y) })
                }
                ("c10.u.gcd_int", [x, y, vt]) => {
                    let (x, y) = (arg!(uint::<N>(x)), arg!(int::<N>(y)));
                    uhex(&if arg!(flag(vt)) { Gcd::gcd_vartime(&x, &y) } else { Gcd::gcd(&x, &y) })
                }
                ("c10.i.gcd", [x, y, vt]) => {
                    let (x, y) = (arg!(int::<N>(x)), arg!(int::<N>(y)));
                    uhex(&if arg!(flag(vt)) { Gcd::gcd_vartime(&x, &y) } else { Gcd::gcd(&x, &y) })
                }
                ("c10.i.gcd_uint", [x, y, vt]) => {
                    let (x, y) = (arg!(int::<N>(x)), arg!(uint::<N>(y)));
                    uhex(&if arg!(flag(vt)) { Gcd::gcd_vartime(&x, &y) } else { Gcd::gcd(&x, &y) })
                }
                ("c10.u.odd_gcd", [f, g, form]) => {
                    let f = Odd::new(arg!(uint::<N>(f))).unwrap();
                    let g = arg!(uint::<N>(g));
                    // `impl Gcd<Uint> for Odd<Uint>` (src/uint/gcd.rs:63) is bounded on
                    // `Odd<Odd<Uint>>: PrecomputeInverter`, which no type satisfies: the trait forms
                    // cannot be called; only the inherent `gcd_vartime` exists (form 2).
                    uhex(&match arg!(dec(form)) {
                        2 => f.gcd_vartime(&g),
                        _ => return Some(BAD.into()),
                    })
                }
                _ => return None,
            })
        }
    };
}

impl_fixed!(fixed1, U64, 1);
impl_fixed!(fixed2, U128, 2);
impl_fixed!(fixed3, U192, 3);
impl_fixed!(fixed4, U256, 4);
impl_fixed!(fixed6, U384, 6);
impl_fixed!(fixed8, U512, 8);
impl_fixed!(fixed16, U1024, 16);
impl_fixed!(fixed32, U2048, 32);

// ---- ConstMontyForm: compile-time moduli (tools/gen/c10.py CONST_MODULI must list the same values)
impl_modulus!(CM0, U64, "ffffffffffffffff"); // 3·5·17·257·641·65537·6700417
impl_modulus!(CM1, U128, "7fffffffffffffffffffffffffffffff"); // 2^127 - 1, prime
impl_modulus!(CM2, U256, "ffffffff00000000ffffffffffffffffbce6faada7179e84f3b9cac2fc632551"); // P-256 order
impl_modulus!(
    CM3,
    U384,
    "fffffffffffffffffffffffffffffffffffffffffffffffffffffffffffffffeffffffff0000000000000000ffffffff"
); // P-384 field prime
impl_modulus!(CM4, U192, "000000000000000000000000000000000000000000000003"); // tiny modulus in a wide type
impl_modulus!(CM5, U64, "0000000000000001"); // modulus 1

macro_rules! const_monty {
    ($M:ty, $N:expr, $x:expr, $form:expr) => {{
        let x = arg!(uint::<$N>($x));
        let mf = ConstMontyForm::<$M, $N>::new(&x);
        let r: Option<ConstMontyForm<$M, $N>> = match $form {
            0 => mf.inv().into(),
            1 => mf.inv_vartime().into(),
            2 => Invert::invert(&mf).into(),
            3 => Invert::invert_vartime(&mf).into(),
            4 => <$M>::precompute_inverter().invert(&mf).into(),
            5 => <$M>::precompute_inverter().invert_vartime(&mf).into(),
            6 => <$M>::precompute_inverter().inv(&mf).into(),
            7 => <$M>::precompute_inverter().inv_vartime(&mf).into(),
            _ => return Some(BAD.into()),
        };
        match r {
            Some(i) => {
                let prod = (mf * i).retrieve();
                let one = ConstMontyForm::<$M, $N>::ONE.retrieve();
                if prod != one { format!("product-not-one:{}", uhex(&prod)) } else { uhex(&i.retrieve()) }
            }
            None => "none".into(),
        }
    }};
}

fn const_monty_dispatch(n: usize, m: &str, x: &str, form: usize) -> Option<String> {
    Some(match (n, m) {
        (1, "ffffffffffffffff") => const_monty!(CM0, 1, x, form),
        (2, "7fffffffffffffffffffffffffffffff") => const_monty!(CM1, 2, x, form),
        (4, "ffffffff00000000ffffffffffffffffbce6faada7179e84f3b9cac2fc632551") => const_monty!(CM2, 4, x, form),
        (6, "fffffffffffffffffffffffffffffffffffffffffffffffffffffffffffffffeffffffff0000000000000000ffffffff") => {
            const_monty!(CM3, 6, x, form)
        }
        (3, "3") => const_monty!(CM4, 3, x, form),
        (1, "1") => const_monty!(CM5, 1, x, form),
        _ => BAD.into(),
    })
}

fn bopt(r: CtOption<BoxedUint>) -> String {
    opt(Option::<BoxedUint>::from(r), bhex)
}

fn boxed_ops(op: &str, a: &[&str]) -> Option<String> {
    Some(match (op, a) {
        ("c10.b.inv_mod2k", [n, x, k]) => {
            let (v, c) = arg!(boxed(x, arg!(dec(n)))).inv_mod2k(arg!(dec32(k)));
            if bool::from(c) { bhex(&v) } else { "none".into() }
        }
        ("c10.b.inv_mod2k_vartime", [n, x, k]) => {
            let (v, c) = arg!(boxed(x, arg!(dec(n)))).inv_mod2k_vartime(arg!(dec32(k)));
            if bool::from(c) { bhex(&v) } else { "none".into() }
        }
        ("c10.b.inv_mod", [n, x, m]) => {
            let n = arg!(dec(n));
            bopt(arg!(boxed(x, n)).inv_mod(&arg!(boxed(m, n))))
        }
        ("c10.b.inv_mod_trait", [n, x, m]) => {
            let n = arg!(dec(n));
            bopt(InvMod::inv_mod(&arg!(boxed(x, n)), &arg!(boxed(m, n))))
        }
        // different precisions: documented panic (an `assert_eq!` in every build since /repo fb50dbc)
        ("c10.b.inv_mod_mixed", [lx, x, lm, m]) => {
            bopt(arg!(boxed(x, arg!(dec(lx)))).inv_mod(&arg!(boxed(m, arg!(dec(lm))))))
        }
        ("c10.b.inv_odd_mod", [n, x, m]) => {
            let n = arg!(dec(n));
            let m = Odd::new(arg!(boxed(m, n))).unwrap();
            bopt(arg!(boxed(x, n)).inv_odd_mod(&m))
        }
        ("c10.b.inv_odd_mod_mixed", [lx, x, lm, m]) => {
            let m = Odd::new(arg!(boxed(m, arg!(dec(lm))))).unwrap();
            bopt(arg!(boxed(x, arg!(dec(lx)))).inv_odd_mod(&m))
        }
        ("c10.b.inverter", [n, m, x, vt]) => {
            let n = arg!(dec(n));
            let m = Odd::new(arg!(boxed(m, n))).unwrap();
            let x = arg!(boxed(x, n));
            let inv = m.precompute_inverter();
            bopt(if arg!(flag(vt)) { inv.invert_vartime(&x) } else { inv.invert(&x) })
        }
        ("c10.b.monty_inv", [n, m, x, form]) => {
            let n = arg!(dec(n));
            let m = Odd::new(arg!(boxed(m, n))).unwrap();
            let x = arg!(boxed(x, n));
            let params = BoxedMontyParams::new(m.clone());
            let mf = BoxedMontyForm::new(x, params.clone());
            let r: Option<BoxedMontyForm> = match arg!(dec(form)) {
                0 => mf.invert().into(),
                1 => mf.invert_vartime().into(),
                2 => Invert::invert(&mf).into(),
                3 => Invert::invert_vartime(&mf).into(),
                4 => params.precompute_inverter().invert(&mf).into(),
                5 => params.precompute_inverter().invert_vartime(&mf).into(),
                _ => return Some(BAD.into()),
            };
            match r {
                Some(i) => {
                    let prod = (&mf * &i).retrieve();
                    let one = BoxedUint::one_with_precision(m.bits_precision()).rem_vartime(m.as_nz_ref());
                    if prod != one { format!("product-not-one:{}", bhex(&prod)) } else { bhex(&i.retrieve()) }
                }
                None => "none".into(),
            }
        }
        ("c10.b.gcd", [n, x, y, vt]) => {
            let n = arg!(dec(n));
            let (x, y) = (arg!(boxed(x, n)), arg!(boxed(y, n)));
            bhex(&if arg!(flag(vt)) { Gcd::gcd_vartime(&x, &y) } else { Gcd::gcd(&x, &y) })
        }
        ("c10.b.odd_gcd", [n, f, g, vt]) => {
            let n = arg!(dec(n));
            let f = Odd::new(arg!(boxed(f, n))).unwrap();
            let g = arg!(boxed(g, n));
            bhex(&if arg!(flag(vt)) { Gcd::gcd_vartime(&f, &g) } else { Gcd::gcd(&f, &g) })
        }
        ("c10.b.gcd_mixed", [lx, x, ly, y, vt]) => {
            let (x, y) = (arg!(boxed(x, arg!(dec(lx)))), arg!(boxed(y, arg!(dec(ly)))));
            bhexlen(&if arg!(flag(vt)) { Gcd::gcd_vartime(&x, &y) } else { Gcd::gcd(&x, &y) })
        }
        ("c10.b.odd_gcd_mixed", [lf, f, lg, g, vt]) => {
            let f = Odd::new(arg!(boxed(f, arg!(dec(lf))))).unwrap();
            let g = arg!(boxed(g, arg!(dec(lg))));
            bhexlen(&if arg!(flag(vt)) { Gcd::gcd_vartime(&f, &g) } else { Gcd::gcd(&f, &g) })
        }
        _ => return None,
    })
}

pub fn dispatch(op: &str, a: &[&str]) -> Option<String> {
    if op.starts_with("c10.b.") {
        return boxed_ops(op, a);
    }
    if op == "c10.c.monty_inv" {
        if let [n, m, x, form] = a {
            return const_monty_dispatch(arg!(dec(n)), m, x, arg!(dec(form)));
        }
        return Some(BAD.into());
    }
    if (op.starts_with("c10.u.") || op.starts_with("c10.i.")) && !a.is_empty() {
        let n = arg!(dec(a[0]));
        let rest = &a[1..];
        return match n {
            1 => fixed1(op, rest),
            2 => fixed2(op, rest),
            3 => fixed3(op, rest),
            4 => fixed4(op, rest),
            6 => fixed6(op, rest),
            8 => fixed8(op, rest),
            16 => fixed16(op, rest),
            32 => fixed32(op, rest),
            _ => Some("unsupported-width".to_string()),
        };
    }
    None
}
