//! one module per property; each exports `dispatch(op, args) -> Option<String>`
pub mod c04;

pub fn dispatch(op: &str, args: &[&str]) -> Option<String> {
    c04::dispatch(op, args)
}
