//! one module per property; each exports `dispatch(op, args) -> Option<String>`; routed by op-name prefix
pub mod c01;
pub mod c02;
pub mod c03;
pub mod c04;
pub mod c05;
pub mod c06;
pub mod c07;
pub mod c08;
pub mod c09;
pub mod c10;
pub mod c11;
pub mod c12;
pub mod c13;
pub mod c14;
pub mod c15;
pub mod c16;
pub mod c17;
pub mod c18;
pub mod c19;
pub mod c20;

pub fn dispatch(op: &str, args: &[&str]) -> Option<String> {
    match op.split('.').next().unwrap_or("") {
        "c01" => c01::dispatch(op, args),
        "c02" => c02::dispatch(op, args),
        "c03" => c03::dispatch(op, args),
        "c04" => c04::dispatch(op, args),
        "c05" => c05::dispatch(op, args),
        "c06" => c06::dispatch(op, args),
        "c07" => c07::dispatch(op, args),
        "c08" => c08::dispatch(op, args),
        "c09" => c09::dispatch(op, args),
        "c10" => c10::dispatch(op, args),
        "c11" => c11::dispatch(op, args),
        "c12" => c12::dispatch(op, args),
        "c13" => c13::dispatch(op, args),
        "c14" => c14::dispatch(op, args),
        "c15" => c15::dispatch(op, args),
        "c16" => c16::dispatch(op, args),
        "c17" => c17::dispatch(op, args),
        "c18" => c18::dispatch(op, args),
        "c19" => c19::dispatch(op, args),
        "c20" => c20::dispatch(op, args),
        _ => None,
    }
}
