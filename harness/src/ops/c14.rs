//! C14 — every signed division flavour of `Int<LIMBS>` (src/int/div.rs, src/int/div_uint.rs).
//! Each op prints the `(quotient, remainder)` of the `*_div_rem*` method and compares all thin
//! forwarding forms (single-result methods, `CheckedDiv`, `DivVartime`, `/ % /= %=` on `Int` and on
//! `Wrapping<Int>`, `Checked<Int> /`) inside the harness: a form that disagrees prints
//! `forms-differ:<name>`.
#![allow(clippy::all)]
use crate::util::*;
use crypto_bigint::{Checked, CheckedDiv, ConstCtOption, DivVartime, Int, NonZero, Uint, Wrapping};
use std::panic::{AssertUnwindSafe, catch_unwind};
use subtle::CtOption;

fn oi<const N: usize>(v: Option<Int<N>>) -> String {
    v.map(|x| ihex(&x)).unwrap_or("none".into())
}
fn cc<const N: usize>(v: ConstCtOption<Int<N>>) -> Option<Int<N>> {
    v.into()
}
fn ct<const N: usize>(v: CtOption<Int<N>>) -> Option<Int<N>> {
    v.into()
}
fn caught<T>(f: impl FnOnce() -> T) -> Option<T> {
    catch_unwind(AssertUnwindSafe(f)).ok()
}

struct Forms(Option<String>);
impl Forms {
    fn new() -> Self {
        Forms(None)
    }
    fn same<T: PartialEq>(&mut self, name: &str, got: T, want: &T) {
        if self.0.is_none() && got != *want {
            self.0 = Some(format!("forms-differ:{name}"));
        }
    }
    fn done(self, s: String) -> String {
        self.0.unwrap_or(s)
    }
}

/// `Int / Int`, constant time, equal widths
fn div_rem<const N: usize>(a: &[&str]) -> Option<String> {
    let (x, y) = (arg!(int::<N>(a[0])), arg!(int::<N>(a[1])));
    let mut f = Forms::new();
    let nz: Option<NonZero<Int<N>>> = y.to_nz().into();
    let Some(d) = nz else {
        // no NonZero exists: only the forms taking a plain divisor can be called
        let c = ct(x.checked_div(&y));
        f.same("CheckedDiv", ct(CheckedDiv::checked_div(&x, &y)), &c);
        f.same("checked_div_floor", ct(x.checked_div_floor(&y)), &c);
        f.same("Checked/", Option::from((Checked::new(x) / Checked::new(y)).0), &c);
        f.same("NonZero::new", Option::<NonZero<Int<N>>>::from(NonZero::new(y)).is_none(), &true);
        return Some(f.done(format!("zero-divisor {}", oi(c))));
    };
    let (q, r) = x.checked_div_rem(&d);
    let q = cc(q);
    f.same("checked_div", ct(x.checked_div(&y)), &q);
    f.same("CheckedDiv", ct(CheckedDiv::checked_div(&x, &y)), &q);
    f.same("rem", x.rem(&d), &r);
    f.same("/", ct(x / d), &q);
    f.same("/&", ct(x / &d), &q);
    f.same("&/", ct(&x / d), &q);
    f.same("&/&", ct(&x / &d), &q);
    f.same("/=", caught(|| { let mut t = x; t /= d; t }), &q);
    f.same("/=&", caught(|| { let mut t = x; t /= &d; t }), &q);
    f.same("%", x % d, &r);
    f.same("%&", x % &d, &r);
    f.same("&%", &x % d, &r);
    f.same("&%&", &x % &d, &r);
    f.same("%=", { let mut t = x; t %= d; t }, &r);
    f.same("%=&", { let mut t = x; t %= &d; t }, &r);
    let w = Wrapping(x);
    f.same("Wrapping/", caught(|| (w / d).0), &q);
    f.same("Wrapping/&", caught(|| (w / &d).0), &q);
    f.same("&Wrapping/", caught(|| (&w / d).0), &q);
    f.same("&Wrapping/&", caught(|| (&w / &d).0), &q);
    f.same("Wrapping/=", caught(|| { let mut t = w; t /= d; t.0 }), &q);
    f.same("Wrapping/=&", caught(|| { let mut t = w; t /= &d; t.0 }), &q);
    f.same("Wrapping%", (w % d).0, &r);
    f.same("Wrapping%&", (w % &d).0, &r);
    f.same("&Wrapping%", (&w % d).0, &r);
    f.same("&Wrapping%&", (&w % &d).0, &r);
    f.same("Wrapping%=", { let mut t = w; t %= d; t.0 }, &r);
    f.same("Wrapping%=&", { let mut t = w; t %= &d; t.0 }, &r);
    let (cx, cy) = (Checked::new(x), Checked::new(y));
    f.same("Checked/", Option::from((cx / cy).0), &q);
    f.same("Checked/&", Option::from((cx / &cy).0), &q);
    f.same("&Checked/", Option::from((&cx / cy).0), &q);
    f.same("&Checked/&", Option::from((&cx / &cy).0), &q);
    f.same("DivVartime", caught(|| DivVartime::div_vartime(&x, &d)), &q);
    Some(f.done(format!("{} {}", oi(q), ihex(&r))))
}

/// flooring `Int / Int`, constant time
fn div_rem_floor<const N: usize>(a: &[&str]) -> Option<String> {
    let (x, y) = (arg!(int::<N>(a[0])), arg!(int::<N>(a[1])));
    let mut f = Forms::new();
    let nz: Option<NonZero<Int<N>>> = y.to_nz().into();
    let Some(d) = nz else {
        return Some(format!("zero-divisor {}", oi(ct(x.checked_div_floor(&y)))));
    };
    let (q, r) = x.checked_div_rem_floor(&d);
    let q = cc(q);
    f.same("checked_div_floor", ct(x.checked_div_floor(&y)), &q);
    Some(f.done(format!("{} {}", oi(q), ihex(&r))))
}

/// `Int / Uint`, constant time
fn div_rem_uint<const N: usize>(a: &[&str]) -> Option<String> {
    let (x, y) = (arg!(int::<N>(a[0])), arg!(uint::<N>(a[1])));
    let nz: Option<NonZero<Uint<N>>> = y.to_nz().into();
    let Some(d) = nz else { return Some("zero-divisor".into()) };
    let mut f = Forms::new();
    let (q, r) = x.div_rem_uint(&d);
    f.same("div_uint", x.div_uint(&d), &q);
    f.same("rem_uint", x.rem_uint(&d), &r);
    f.same("/", x / d, &q);
    f.same("/&", x / &d, &q);
    f.same("&/", &x / d, &q);
    f.same("&/&", &x / &d, &q);
    f.same("/=", { let mut t = x; t /= d; t }, &q);
    f.same("/=&", { let mut t = x; t /= &d; t }, &q);
    f.same("%", x % d, &r);
    f.same("%&", x % &d, &r);
    f.same("&%", &x % d, &r);
    f.same("&%&", &x % &d, &r);
    f.same("%=", { let mut t = x; t %= d; t }, &r);
    f.same("%=&", { let mut t = x; t %= &d; t }, &r);
    let w = Wrapping(x);
    f.same("Wrapping/", (w / d).0, &q);
    f.same("Wrapping/&", (w / &d).0, &q);
    f.same("&Wrapping/", (&w / d).0, &q);
    f.same("&Wrapping/&", (&w / &d).0, &q);
    f.same("Wrapping/=", { let mut t = w; t /= d; t.0 }, &q);
    f.same("Wrapping/=&", { let mut t = w; t /= &d; t.0 }, &q);
    f.same("Wrapping%", (w % d).0, &r);
    f.same("Wrapping%&", (w % &d).0, &r);
    f.same("&Wrapping%", (&w % d).0, &r);
    f.same("&Wrapping%&", (&w % &d).0, &r);
    f.same("Wrapping%=", { let mut t = w; t %= d; t.0 }, &r);
    f.same("Wrapping%=&", { let mut t = w; t %= &d; t.0 }, &r);
    Some(f.done(format!("{} {}", ihex(&q), ihex(&r))))
}

/// flooring `Int / Uint`, constant time
fn div_rem_floor_uint<const N: usize>(a: &[&str]) -> Option<String> {
    let (x, y) = (arg!(int::<N>(a[0])), arg!(uint::<N>(a[1])));
    let nz: Option<NonZero<Uint<N>>> = y.to_nz().into();
    let Some(d) = nz else { return Some("zero-divisor".into()) };
    let mut f = Forms::new();
    let (q, r) = x.div_rem_floor_uint(&d);
    f.same("div_floor_uint", x.div_floor_uint(&d), &q);
    f.same("normalized_rem", x.normalized_rem(&d), &r);
    Some(f.done(format!("{} {}", ihex(&q), uhex(&r))))
}

// ---- vartime, two widths

fn div_rem_vartime<const N: usize, const M: usize>(a: &[&str]) -> Option<String> {
    let (x, y) = (arg!(int::<N>(a[0])), arg!(int::<M>(a[1])));
    let nz: Option<NonZero<Int<M>>> = y.to_nz().into();
    let Some(d) = nz else {
        return Some(format!("zero-divisor {}", oi(ct(x.checked_div_vartime(&y)))));
    };
    let mut f = Forms::new();
    let (q, r) = x.checked_div_rem_vartime(&d);
    let q = cc(q);
    f.same("checked_div_vartime", ct(x.checked_div_vartime(&y)), &q);
    f.same("rem_vartime", x.rem_vartime(&d), &r);
    Some(f.done(format!("{} {}", oi(q), ihex(&r))))
}

fn div_rem_floor_vartime<const N: usize, const M: usize>(a: &[&str]) -> Option<String> {
    let (x, y) = (arg!(int::<N>(a[0])), arg!(int::<M>(a[1])));
    let nz: Option<NonZero<Int<M>>> = y.to_nz().into();
    let Some(d) = nz else {
        return Some(format!("zero-divisor {}", oi(ct(x.checked_div_floor_vartime(&y)))));
    };
    let mut f = Forms::new();
    let (q, r) = x.checked_div_rem_floor_vartime(&d);
    let q = cc(q);
    f.same("checked_div_floor_vartime", ct(x.checked_div_floor_vartime(&y)), &q);
    Some(f.done(format!("{} {}", oi(q), ihex(&r))))
}

fn div_rem_uint_vartime<const N: usize, const M: usize>(a: &[&str]) -> Option<String> {
    let (x, y) = (arg!(int::<N>(a[0])), arg!(uint::<M>(a[1])));
    let nz: Option<NonZero<Uint<M>>> = y.to_nz().into();
    let Some(d) = nz else { return Some("zero-divisor".into()) };
    let mut f = Forms::new();
    let (q, r) = x.div_rem_uint_vartime(&d);
    f.same("div_uint_vartime", x.div_uint_vartime(&d), &q);
    f.same("rem_uint_vartime", x.rem_uint_vartime(&d), &r);
    Some(f.done(format!("{} {}", ihex(&q), ihex(&r))))
}

fn div_rem_floor_uint_vartime<const N: usize, const M: usize>(a: &[&str]) -> Option<String> {
    let (x, y) = (arg!(int::<N>(a[0])), arg!(uint::<M>(a[1])));
    let nz: Option<NonZero<Uint<M>>> = y.to_nz().into();
    let Some(d) = nz else { return Some("zero-divisor".into()) };
    let mut f = Forms::new();
    let (q, r) = x.div_rem_floor_uint_vartime(&d);
    f.same("div_floor_uint_vartime", x.div_floor_uint_vartime(&d), &q);
    f.same("normalized_rem_vartime", x.normalized_rem_vartime(&d), &r);
    Some(f.done(format!("{} {}", ihex(&q), uhex(&r))))
}

macro_rules! with_pair {
    ($n:expr, $m:expr, $f:ident, $($args:expr),*) => {
        match ($n, $m) {
            (1, 1) => $f::<1, 1>($($args),*), (2, 2) => $f::<2, 2>($($args),*),
            (3, 3) => $f::<3, 3>($($args),*), (4, 4) => $f::<4, 4>($($args),*),
            (8, 8) => $f::<8, 8>($($args),*), (16, 16) => $f::<16, 16>($($args),*),
            (1, 2) => $f::<1, 2>($($args),*), (2, 1) => $f::<2, 1>($($args),*),
            (1, 3) => $f::<1, 3>($($args),*), (3, 1) => $f::<3, 1>($($args),*),
            (2, 4) => $f::<2, 4>($($args),*), (4, 2) => $f::<4, 2>($($args),*),
            (3, 4) => $f::<3, 4>($($args),*), (4, 3) => $f::<4, 3>($($args),*),
            (4, 8) => $f::<4, 8>($($args),*), (8, 4) => $f::<8, 4>($($args),*),
            (1, 8) => $f::<1, 8>($($args),*), (8, 1) => $f::<8, 1>($($args),*),
            (8, 16) => $f::<8, 16>($($args),*), (16, 8) => $f::<16, 8>($($args),*),
            _ => Some("unsupported-width".to_string()),
        }
    };
}

macro_rules! with_w6 {
    ($n:expr, $f:ident, $($args:expr),*) => {
        match $n {
            1 => $f::<1>($($args),*), 2 => $f::<2>($($args),*), 3 => $f::<3>($($args),*),
            4 => $f::<4>($($args),*), 8 => $f::<8>($($args),*), 16 => $f::<16>($($args),*),
            _ => Some("unsupported-width".to_string()),
        }
    };
}

pub fn dispatch(op: &str, a: &[&str]) -> Option<String> {
    if a.is_empty() {
        return None;
    }
    let n = arg!(dec(a[0]));
    match (op, a.len()) {
        ("c14.div_rem", 3) => with_w6!(n, div_rem, &a[1..]),
        ("c14.div_rem_floor", 3) => with_w6!(n, div_rem_floor, &a[1..]),
        ("c14.div_rem_uint", 3) => with_w6!(n, div_rem_uint, &a[1..]),
        ("c14.div_rem_floor_uint", 3) => with_w6!(n, div_rem_floor_uint, &a[1..]),
        (_, 4) => {
            let m = arg!(dec(a[2]));
            let v = [a[1], a[3]];
            match op {
                "c14.div_rem_vartime" => with_pair!(n, m, div_rem_vartime, &v),
                "c14.div_rem_floor_vartime" => with_pair!(n, m, div_rem_floor_vartime, &v),
                "c14.div_rem_uint_vartime" => with_pair!(n, m, div_rem_uint_vartime, &v),
                "c14.div_rem_floor_uint_vartime" => with_pair!(n, m, div_rem_floor_uint_vartime, &v),
                _ => None,
            }
        }
        _ => None,
    }
}
