//! C19 — random sampling (op names start with `c19.`)
//!
//! Every op takes the RNG output as an `x`-hex byte string and feeds it to the crate through an
//! instrumented byte-stream RNG (`Stream`): `fill_bytes` copies the next `len` bytes,
//! `next_u32` / `next_u64` take the next 4 / 8 bytes little-endian (exactly
//! `rand_core::impls::next_u{32,64}_via_fill`). A request for more bytes than remain consumes
//! nothing and fails: the fallible RNG (`TryStream`, a direct `TryRngCore` impl) returns
//! `Err(Exhausted)`, the infallible one (`PanicStream`, an `RngCore` impl) sets a flag and panics;
//! the op then prints `exhausted <consumed>`. Results are printed as `<value> <bytes consumed>`.
use crate::util::*;
use core::fmt;
use crypto_bigint::modular::{ConstMontyForm, ConstMontyParams};
use crypto_bigint::{
    impl_modulus, BoxedUint, Int, Limb, NonZero, Odd, Random, RandomBits, RandomBitsError, RandomMod,
    Uint, Wrapping, U128, U256, U64,
};
use rand_chacha::ChaCha20Rng;
use rand_core::{RngCore, SeedableRng, TryRngCore};
use std::panic::{catch_unwind, AssertUnwindSafe};

#[derive(Debug)]
pub struct Exhausted;
impl fmt::Display for Exhausted {
    fn fmt(&self, f: &mut fmt::Formatter<'_>) -> fmt::Result {
        write!(f, "stream exhausted")
    }
}

struct Stream {
    buf: Vec<u8>,
    pos: usize,
    exhausted: bool,
}
impl Stream {
    fn new(buf: Vec<u8>) -> Self {
        Stream { buf, pos: 0, exhausted: false }
    }
    fn take(&mut self, dst: &mut [u8]) -> Result<(), Exhausted> {
        if self.buf.len() - self.pos < dst.len() {
            self.exhausted = true;
            return Err(Exhausted);
        }
        dst.copy_from_slice(&self.buf[self.pos..self.pos + dst.len()]);
        self.pos += dst.len();
        Ok(())
    }
}

/// fallible byte-stream RNG
struct TryStream(Stream);
impl TryRngCore for TryStream {
    type Error = Exhausted;
    fn try_next_u32(&mut self) -> Result<u32, Exhausted> {
        let mut b = [0u8; 4];
        self.0.take(&mut b)?;
        Ok(u32::from_le_bytes(b))
    }
    fn try_next_u64(&mut self) -> Result<u64, Exhausted> {
        let mut b = [0u8; 8];
        self.0.take(&mut b)?;
        Ok(u64::from_le_bytes(b))
    }
    fn try_fill_bytes(&mut self, dst: &mut [u8]) -> Result<(), Exhausted> {
        self.0.take(dst)
    }
}

/// infallible byte-stream RNG: panics (after flagging) when the stream is exhausted
struct PanicStream(Stream);
impl RngCore for PanicStream {
    fn next_u32(&mut self) -> u32 {
        let mut b = [0u8; 4];
        self.0.take(&mut b).expect("stream exhausted");
        u32::from_le_bytes(b)
    }
    fn next_u64(&mut self) -> u64 {
        let mut b = [0u8; 8];
        self.0.take(&mut b).expect("stream exhausted");
        u64::from_le_bytes(b)
    }
    fn fill_bytes(&mut self, dst: &mut [u8]) {
        self.0.take(dst).expect("stream exhausted")
    }
}

/// run an infallible sampler; `exhausted <n>` when the fixture ran dry, re-panic otherwise
fn infallible<T>(stream: Vec<u8>, f: impl FnOnce(&mut PanicStream) -> T, show: impl Fn(&T) -> String) -> String {
    let mut rng = PanicStream(Stream::new(stream));
    let r = catch_unwind(AssertUnwindSafe(|| f(&mut rng)));
    match r {
        Ok(v) => format!("{} {}", show(&v), rng.0.pos),
        Err(e) => {
            if rng.0.exhausted {
                format!("exhausted {}", rng.0.pos)
            } else {
                std::panic::resume_unwind(e)
            }
        }
    }
}

/// run a fallible sampler returning `Result<T, Exhausted>`
fn fallible<T>(
    stream: Vec<u8>,
    f: impl FnOnce(&mut TryStream) -> Result<T, Exhausted>,
    show: impl Fn(&T) -> String,
) -> String {
    let mut rng = TryStream(Stream::new(stream));
    match f(&mut rng) {
        Ok(v) => format!("{} {}", show(&v), rng.0.pos),
        Err(Exhausted) => format!("err:RandCore {}", rng.0.pos),
    }
}

/// run a fallible bit sampler returning `Result<T, RandomBitsError<Exhausted>>`
fn fallible_bits<T>(
    stream: Vec<u8>,
    f: impl FnOnce(&mut TryStream) -> Result<T, RandomBitsError<Exhausted>>,
    show: impl Fn(&T) -> String,
) -> String {
    let mut rng = TryStream(Stream::new(stream));
    match f(&mut rng) {
        Ok(v) => format!("{} {}", show(&v), rng.0.pos),
        Err(RandomBitsError::RandCore(Exhausted)) => format!("err:RandCore {}", rng.0.pos),
        Err(RandomBitsError::BitsPrecisionMismatch { bits_precision, integer_bits }) => {
            format!("err:BitsPrecisionMismatch {} {} {}", bits_precision, integer_bits, rng.0.pos)
        }
        Err(RandomBitsError::BitLengthTooLarge { bit_length, bits_precision }) => {
            format!("err:BitLengthTooLarge {} {} {}", bit_length, bits_precision, rng.0.pos)
        }
    }
}

/// the panicking wrappers (`random_bits`, `random_bits_with_precision`) run on the fallible RNG:
/// every error is a documented panic
fn panicking<T>(stream: Vec<u8>, f: impl FnOnce(&mut TryStream) -> T, show: impl Fn(&T) -> String) -> String {
    let mut rng = TryStream(Stream::new(stream));
    let v = f(&mut rng);
    format!("{} {}", show(&v), rng.0.pos)
}

impl_modulus!(M0, U64, "ffffffff00000001");
impl_modulus!(M1, U128, "0000000000000001000000000000000d");
impl_modulus!(M2, U256, "73eda753299d7d483339d80809a1d80553bda402fffe5bfeffffffff00000001");
impl_modulus!(M3, U256, "ffffffffffffffffffffffffffffffffffffffffffffffffffffffffffffff43");
impl_modulus!(M4, U64, "0000000000000003");

fn cmf<MOD: ConstMontyParams<N>, const N: usize>(s: Vec<u8>) -> String {
    infallible(s, |r| ConstMontyForm::<MOD, N>::random(r), |v| uhex(&v.retrieve()))
}
fn cmf_try<MOD: ConstMontyParams<N>, const N: usize>(s: Vec<u8>) -> String {
    fallible(s, |r| ConstMontyForm::<MOD, N>::try_random(r), |v| uhex(&v.retrieve()))
}

fn fixed<const N: usize>(op: &str, a: &[&str]) -> Option<String> {
    Some(match (op, a) {
        ("c19.u.random_mod", [m, s]) => {
            let m = arg!(Option::<NonZero<Uint<N>>>::from(NonZero::new(arg!(uint::<N>(m)))));
            infallible(arg!(bytes(s)), |r| Uint::<N>::random_mod(r, &m), |v| uhex(v))
        }
        ("c19.u.try_random_mod", [m, s]) => {
            let m = arg!(Option::<NonZero<Uint<N>>>::from(NonZero::new(arg!(uint::<N>(m)))));
            fallible(arg!(bytes(s)), |r| Uint::<N>::try_random_mod(r, &m), |v| uhex(v))
        }
        ("c19.u.random", [s]) => infallible(arg!(bytes(s)), |r| Uint::<N>::random(r), |v| uhex(v)),
        ("c19.u.try_random", [s]) => fallible(arg!(bytes(s)), |r| Uint::<N>::try_random(r), |v| uhex(v)),
        ("c19.i.random", [s]) => infallible(arg!(bytes(s)), |r| Int::<N>::random(r), |v| ihex(v)),
        ("c19.i.try_random", [s]) => fallible(arg!(bytes(s)), |r| Int::<N>::try_random(r), |v| ihex(v)),
        ("c19.wrapping.random", [s]) => {
            infallible(arg!(bytes(s)), |r| Wrapping::<Uint<N>>::random(r), |v| uhex(&v.0))
        }
        ("c19.u.try_random_bits", [bl, s]) => {
            let bl = arg!(dec32(bl));
            fallible_bits(arg!(bytes(s)), |r| Uint::<N>::try_random_bits(r, bl), |v| uhex(v))
        }
        ("c19.u.try_random_bits_wp", [bl, bp, s]) => {
            let (bl, bp) = (arg!(dec32(bl)), arg!(dec32(bp)));
            fallible_bits(arg!(bytes(s)), |r| Uint::<N>::try_random_bits_with_precision(r, bl, bp), |v| uhex(v))
        }
        ("c19.u.random_bits", [bl, s]) => {
            let bl = arg!(dec32(bl));
            panicking(arg!(bytes(s)), |r| Uint::<N>::random_bits(r, bl), |v| uhex(v))
        }
        ("c19.u.random_bits_wp", [bl, bp, s]) => {
            let (bl, bp) = (arg!(dec32(bl)), arg!(dec32(bp)));
            panicking(arg!(bytes(s)), |r| Uint::<N>::random_bits_with_precision(r, bl, bp), |v| uhex(v))
        }
        ("c19.i.try_random_bits", [bl, s]) => {
            let bl = arg!(dec32(bl));
            fallible_bits(arg!(bytes(s)), |r| Int::<N>::try_random_bits(r, bl), |v| ihex(v))
        }
        ("c19.i.try_random_bits_wp", [bl, bp, s]) => {
            let (bl, bp) = (arg!(dec32(bl)), arg!(dec32(bp)));
            fallible_bits(arg!(bytes(s)), |r| Int::<N>::try_random_bits_with_precision(r, bl, bp), |v| ihex(v))
        }
        ("c19.nz.random", [s]) => {
            infallible(arg!(bytes(s)), |r| NonZero::<Uint<N>>::random(r), |v| uhex(v.as_ref()))
        }
        ("c19.nz.try_random", [s]) => {
            fallible(arg!(bytes(s)), |r| NonZero::<Uint<N>>::try_random(r), |v| uhex(v.as_ref()))
        }
        ("c19.odd.random", [s]) => {
            infallible(arg!(bytes(s)), |r| Odd::<Uint<N>>::random(r), |v| uhex(v.as_ref()))
        }
        ("c19.odd.try_random", [s]) => {
            fallible(arg!(bytes(s)), |r| Odd::<Uint<N>>::try_random(r), |v| uhex(v.as_ref()))
        }
        _ => return None,
    })
}

/// boxed modulus with exactly `n` limbs
fn bnz(m: &str, n: usize) -> Option<NonZero<BoxedUint>> {
    NonZero::new(boxed(m, n)?).into()
}

/// upper 1e-12 tail bound of the chi-square distribution with `k` degrees of freedom
/// (Laurent–Massart: P[X >= k + 2 sqrt(k x) + 2 x] <= exp(-x), x = ln 1e12)
fn chi2_bound(k: f64) -> f64 {
    let x = 12.0 * std::f64::consts::LN_10;
    k + 2.0 * (k * x).sqrt() + 2.0 * x
}

fn chi2_verdict(counts: &[u64], draws: u64) -> String {
    let m = counts.len() as f64;
    let e = draws as f64 / m;
    let stat: f64 = counts.iter().map(|&c| (c as f64 - e) * (c as f64 - e) / e).sum();
    if stat <= chi2_bound(m - 1.0) { "ok".into() } else { "reject".into() }
}

/// chi-square sanity run on the real crate: `kind` in u1,u2,u4,b2,limb,bits1,bits2
fn chi2(kind: &str, m: u64, seed: u64, draws: u64) -> Option<String> {
    if m < 2 || m > 4096 || draws < 100 * m {
        return Some(BAD.into());
    }
    let mut rng = ChaCha20Rng::seed_from_u64(seed);
    let mut counts = vec![0u64; m as usize];
    fn idx<const N: usize>(v: &Uint<N>) -> usize {
        v.as_words()[0] as usize
    }
    match kind {
        "u1" => {
            let nz = NonZero::new(Uint::<1>::from(m)).unwrap();
            for _ in 0..draws {
                counts[idx(&Uint::<1>::random_mod(&mut rng, &nz))] += 1;
            }
        }
        "u2" => {
            let nz = NonZero::new(Uint::<2>::from(m)).unwrap();
            for _ in 0..draws {
                counts[idx(&Uint::<2>::random_mod(&mut rng, &nz))] += 1;
            }
        }
        "u4" => {
            let nz = NonZero::new(Uint::<4>::from(m)).unwrap();
            for _ in 0..draws {
                counts[idx(&Uint::<4>::random_mod(&mut rng, &nz))] += 1;
            }
        }
        "b2" => {
            let nz = NonZero::new(BoxedUint::from_words([m, 0])).unwrap();
            for _ in 0..draws {
                counts[BoxedUint::random_mod(&mut rng, &nz).as_words()[0] as usize] += 1;
            }
        }
        "limb" => {
            let nz = NonZero::new(Limb(m)).unwrap();
            for _ in 0..draws {
                counts[Limb::random_mod(&mut rng, &nz).0 as usize] += 1;
            }
        }
        // top-heavy two-limb modulus m * 2^64: the bucket is the high limb (tests the early-rejection path)
        "u2hi" => {
            let nz = NonZero::new(Uint::<2>::from_words([0, m])).unwrap();
            for _ in 0..draws {
                counts[Uint::<2>::random_mod(&mut rng, &nz).as_words()[1] as usize] += 1;
            }
        }
        // random_bits with 2^k = m buckets
        "bits1" | "bits2" => {
            if !m.is_power_of_two() {
                return Some(BAD.into());
            }
            let bl = m.trailing_zeros();
            for _ in 0..draws {
                let v = if kind == "bits1" {
                    Uint::<1>::random_bits(&mut rng, bl).as_words()[0]
                } else {
                    Uint::<2>::random_bits(&mut rng, bl).as_words()[0]
                };
                counts[v as usize] += 1;
            }
        }
        _ => return Some(BAD.into()),
    }
    Some(chi2_verdict(&counts, draws))
}

pub fn dispatch(op: &str, a: &[&str]) -> Option<String> {
    match (op, a) {
        ("c19.l.random", [s]) => Some(infallible(arg!(bytes(s)), |r| Limb::random(r), |v| lhex(*v))),
        ("c19.l.try_random", [s]) => Some(fallible(arg!(bytes(s)), |r| Limb::try_random(r), |v| lhex(*v))),
        ("c19.l.random_mod", [m, s]) => {
            let m = arg!(Option::<NonZero<Limb>>::from(NonZero::new(arg!(limb(m)))));
            Some(infallible(arg!(bytes(s)), |r| Limb::random_mod(r, &m), |v| lhex(*v)))
        }
        ("c19.l.try_random_mod", [m, s]) => {
            let m = arg!(Option::<NonZero<Limb>>::from(NonZero::new(arg!(limb(m)))));
            Some(fallible(arg!(bytes(s)), |r| Limb::try_random_mod(r, &m), |v| lhex(*v)))
        }
        ("c19.nzl.random", [s]) => {
            Some(infallible(arg!(bytes(s)), |r| NonZero::<Limb>::random(r), |v| lhex(*v.as_ref())))
        }
        ("c19.b.random_mod", [n, m, s]) => {
            let m = arg!(bnz(m, arg!(dec(n))));
            Some(infallible(arg!(bytes(s)), |r| BoxedUint::random_mod(r, &m), |v| bhexlen(v)))
        }
        ("c19.b.try_random_mod", [n, m, s]) => {
            let m = arg!(bnz(m, arg!(dec(n))));
            Some(fallible(arg!(bytes(s)), |r| BoxedUint::try_random_mod(r, &m), |v| bhexlen(v)))
        }
        ("c19.b.try_random_bits", [bl, s]) => {
            let bl = arg!(dec32(bl));
            Some(fallible_bits(arg!(bytes(s)), |r| BoxedUint::try_random_bits(r, bl), |v| bhexlen(v)))
        }
        ("c19.b.try_random_bits_wp", [bl, bp, s]) => {
            let (bl, bp) = (arg!(dec32(bl)), arg!(dec32(bp)));
            Some(fallible_bits(
                arg!(bytes(s)),
                |r| BoxedUint::try_random_bits_with_precision(r, bl, bp),
                |v| bhexlen(v),
            ))
        }
        ("c19.b.random_bits", [bl, s]) => {
            let bl = arg!(dec32(bl));
            Some(panicking(arg!(bytes(s)), |r| BoxedUint::random_bits(r, bl), |v| bhexlen(v)))
        }
        ("c19.b.random_bits_wp", [bl, bp, s]) => {
            let (bl, bp) = (arg!(dec32(bl)), arg!(dec32(bp)));
            Some(panicking(arg!(bytes(s)), |r| BoxedUint::random_bits_with_precision(r, bl, bp), |v| bhexlen(v)))
        }
        ("c19.oddb.random", [bl, s]) => {
            let bl = arg!(dec32(bl));
            Some(panicking(arg!(bytes(s)), |r| Odd::<BoxedUint>::random(r, bl), |v| bhexlen(v.as_ref())))
        }
        ("c19.cmf.random", [id, s]) => {
            let s = arg!(bytes(s));
            Some(match *id {
                "0" => cmf::<M0, 1>(s),
                "1" => cmf::<M1, 2>(s),
                "2" => cmf::<M2, 4>(s),
                "3" => cmf::<M3, 4>(s),
                "4" => cmf::<M4, 1>(s),
                _ => BAD.into(),
            })
        }
        ("c19.cmf.try_random", [id, s]) => {
            let s = arg!(bytes(s));
            Some(match *id {
                "0" => cmf_try::<M0, 1>(s),
                "1" => cmf_try::<M1, 2>(s),
                "2" => cmf_try::<M2, 4>(s),
                "3" => cmf_try::<M3, 4>(s),
                "4" => cmf_try::<M4, 1>(s),
                _ => BAD.into(),
            })
        }
        ("c19.chi2", [kind, m, seed, draws]) => {
            chi2(kind, arg!(dec(m)) as u64, arg!(dec(seed)) as u64, arg!(dec(draws)) as u64)
        }
        _ if (op.starts_with("c19.u.")
            || op.starts_with("c19.i.")
            || op.starts_with("c19.nz.")
            || op.starts_with("c19.odd.")
            || op.starts_with("c19.wrapping."))
            && !a.is_empty() =>
        {
            let n = arg!(dec(a[0]));
            let rest = &a[1..];
            match n {
                1 => fixed::<1>(op, rest),
                2 => fixed::<2>(op, rest),
                3 => fixed::<3>(op, rest),
                4 => fixed::<4>(op, rest),
                8 => fixed::<8>(op, rest),
                _ => Some("unsupported-width".to_string()),
            }
        }
        _ => None,
    }
}
