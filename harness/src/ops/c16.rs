//! C16 — byte / hex / word / primitive conversions (op names start with `c16.`).
//!
//! Forwarding forms of one operation (inherent const fn, `Encoding`, `ArrayEncoding`, `ArrayDecoding`,
//! `From`, trait methods) are all evaluated; if they do not agree the line prints `forms-differ …`
//! (which no model output equals), otherwise the common value.
#![allow(clippy::all)]
use crate::util::*;
use crypto_bigint::{
    ArrayDecoding, ArrayEncoding, BoxedUint, ByteArray, Concat, ConcatMixed, Encoding, I64, I128, Int, Limb,
    NonZero, Odd, Split, SplitMixed, U64, U128, U192, U256, U320, U384, U448, U512, U768, U1024, U2048, Uint,
    WideWord, Word,
};
use std::fmt;

fn agree<T: PartialEq + Clone, F: Fn(&T) -> String>(v: Vec<T>, show: F) -> String {
    if v.iter().all(|x| *x == v[0]) {
        show(&v[0])
    } else {
        format!("forms-differ {}", v.iter().map(|x| show(x)).collect::<Vec<_>>().join("|"))
    }
}

fn text(s: &str) -> Option<String> {
    String::from_utf8(bytes(s)?).ok()
}

fn words_tok(w: &[Word]) -> String {
    if w.is_empty() {
        "-".into()
    } else {
        w.iter().map(|x| format!("{x:x}")).collect::<Vec<_>>().join(",")
    }
}

fn fmt_kind<T>(kind: &str, v: &T) -> Option<String>
where
    T: fmt::LowerHex + fmt::UpperHex + fmt::Display + fmt::Binary + fmt::Debug,
{
    Some(match kind {
        "x" => format!("{v:x}"),
        "X" => format!("{v:X}"),
        "d" => format!("{v}"),
        "b" => format!("{v:b}"),
        "#x" => format!("{v:#x}"),
        "#X" => format!("{v:#X}"),
        "#b" => format!("{v:#b}"),
        "dbg" => format!("{v:?}"),
        _ => return None,
    })
}

/// forms that need the concrete alias type (inherent `to_*_bytes`, `Encoding::Repr`, hybrid-array, serde)
trait Forms: Sized {
    fn enc_be(&self) -> Vec<Vec<u8>>;
    fn enc_le(&self) -> Vec<Vec<u8>>;
    /// decoders taking an exactly sized array
    fn dec_be(b: &[u8]) -> Vec<Self>;
    fn dec_le(b: &[u8]) -> Vec<Self>;
    fn nz_be_bytes(b: &[u8]) -> Option<Self>;
    fn nz_le_bytes(b: &[u8]) -> Option<Self>;
    /// `None` = the type has no `ArrayEncoding`
    fn nz_be_arr(b: &[u8]) -> Option<Option<Self>>;
    fn nz_le_arr(b: &[u8]) -> Option<Option<Self>>;
    fn ser(&self) -> Vec<u8>;
    fn de(b: &[u8]) -> Option<Self>;
}

macro_rules! forms_common {
    ($t:ty) => {
        fn nz_be_bytes(b: &[u8]) -> Option<Self> {
            let r: <$t as Encoding>::Repr = b.try_into().ok()?;
            Option::<NonZero<$t>>::from(NonZero::<$t>::from_be_bytes(r)).map(|x| x.get())
        }
        fn nz_le_bytes(b: &[u8]) -> Option<Self> {
            let r: <$t as Encoding>::Repr = b.try_into().ok()?;
            Option::<NonZero<$t>>::from(NonZero::<$t>::from_le_bytes(r)).map(|x| x.get())
        }
        fn ser(&self) -> Vec<u8> {
            bincode::serialize(self).unwrap()
        }
        fn de(b: &[u8]) -> Option<Self> {
            bincode::deserialize::<$t>(b).ok()
        }
    };
}

macro_rules! forms_arr {
    ($($t:ty),+) => {$(
        impl Forms for $t {
            fn enc_be(&self) -> Vec<Vec<u8>> {
                vec![<$t>::to_be_bytes(self).to_vec(), AsRef::<[u8]>::as_ref(&Encoding::to_be_bytes(self)).to_vec(),
                     ArrayEncoding::to_be_byte_array(self).to_vec()]
            }
            fn enc_le(&self) -> Vec<Vec<u8>> {
                vec![<$t>::to_le_bytes(self).to_vec(), AsRef::<[u8]>::as_ref(&Encoding::to_le_bytes(self)).to_vec(),
                     ArrayEncoding::to_le_byte_array(self).to_vec()]
            }
            fn dec_be(b: &[u8]) -> Vec<Self> {
                let r: <$t as Encoding>::Repr = b.try_into().unwrap();
                let mut a = ByteArray::<$t>::default();
                a.copy_from_slice(b);
                vec![<$t as Encoding>::from_be_bytes(r), <$t as ArrayEncoding>::from_be_byte_array(a.clone()),
                     ArrayDecoding::into_uint_be(a)]
            }
            fn dec_le(b: &[u8]) -> Vec<Self> {
                let r: <$t as Encoding>::Repr = b.try_into().unwrap();
                let mut a = ByteArray::<$t>::default();
                a.copy_from_slice(b);
                vec![<$t as Encoding>::from_le_bytes(r), <$t as ArrayEncoding>::from_le_byte_array(a.clone()),
                     ArrayDecoding::into_uint_le(a)]
            }
            fn nz_be_arr(b: &[u8]) -> Option<Option<Self>> {
                let mut a = ByteArray::<$t>::default();
                a.copy_from_slice(b);
                Some(Option::<NonZero<$t>>::from(NonZero::<$t>::from_be_byte_array(a)).map(|x| x.get()))
            }
            fn nz_le_arr(b: &[u8]) -> Option<Option<Self>> {
                let mut a = ByteArray::<$t>::default();
                a.copy_from_slice(b);
                Some(Option::<NonZero<$t>>::from(NonZero::<$t>::from_le_byte_array(a)).map(|x| x.get()))
            }
            forms_common!($t);
        }
    )+};
}

macro_rules! forms_noarr {
    ($($t:ty),+) => {$(
        impl Forms for $t {
            fn enc_be(&self) -> Vec<Vec<u8>> {
                vec![<$t>::to_be_bytes(self).to_vec(), AsRef::<[u8]>::as_ref(&Encoding::to_be_bytes(self)).to_vec()]
            }
            fn enc_le(&self) -> Vec<Vec<u8>> {
                vec![<$t>::to_le_bytes(self).to_vec(), AsRef::<[u8]>::as_ref(&Encoding::to_le_bytes(self)).to_vec()]
            }
            fn dec_be(b: &[u8]) -> Vec<Self> {
                let r: <$t as Encoding>::Repr = b.try_into().unwrap();
                vec![<$t as Encoding>::from_be_bytes(r)]
            }
            fn dec_le(b: &[u8]) -> Vec<Self> {
                let r: <$t as Encoding>::Repr = b.try_into().unwrap();
                vec![<$t as Encoding>::from_le_bytes(r)]
            }
            fn nz_be_arr(_b: &[u8]) -> Option<Option<Self>> { None }
            fn nz_le_arr(_b: &[u8]) -> Option<Option<Self>> { None }
            forms_common!($t);
        }
    )+};
}

forms_arr!(U64, U128, U192, U256, U384, U448, U512, U768, U1024, U2048);
forms_noarr!(U320);

fn prim(ty: &str, v: &str) -> Option<u128> {
    if v.is_empty() || v.len() > 32 {
        return None;
    }
    let x = u128::from_str_radix(v, 16).ok()?;
    let bits = match ty {
        "u8" | "i8" => 8,
        "u16" | "i16" => 16,
        "u32" | "i32" => 32,
        "u64" | "i64" | "word" => 64,
        "u128" | "i128" | "wide_word" => 128,
        _ => return None,
    };
    if bits < 128 && x >> bits != 0 {
        return None;
    }
    Some(x)
}

fn fixed<const N: usize>(op: &str, a: &[&str]) -> Option<String>
where
    Uint<N>: Forms,
{
    Some(match (op, a) {
        ("c16.u.to_be_bytes", [v]) => agree(arg!(uint::<N>(v)).enc_be(), |b| bytes_tok(b)),
        ("c16.u.to_le_bytes", [v]) => agree(arg!(uint::<N>(v)).enc_le(), |b| bytes_tok(b)),
        ("c16.u.from_be_slice", [b]) => uhex(&Uint::<N>::from_be_slice(&arg!(bytes(b)))),
        ("c16.u.from_le_slice", [b]) => uhex(&Uint::<N>::from_le_slice(&arg!(bytes(b)))),
        ("c16.u.from_be_bytes", [b]) => {
            let b = arg!(bytes(b));
            if b.len() != 8 * N {
                return Some(BAD.into());
            }
            agree(Uint::<N>::dec_be(&b), |x| uhex(x))
        }
        ("c16.u.from_le_bytes", [b]) => {
            let b = arg!(bytes(b));
            if b.len() != 8 * N {
                return Some(BAD.into());
            }
            agree(Uint::<N>::dec_le(&b), |x| uhex(x))
        }
        ("c16.u.from_be_hex", [t]) => uhex(&Uint::<N>::from_be_hex(&arg!(text(t)))),
        ("c16.u.from_le_hex", [t]) => uhex(&Uint::<N>::from_le_hex(&arg!(text(t)))),
        ("c16.i.from_be_hex", [t]) => ihex(&Int::<N>::from_be_hex(&arg!(text(t)))),
        ("c16.odd.from_be_hex", [t]) => uhex(&Odd::<Uint<N>>::from_be_hex(&arg!(text(t))).get()),
        ("c16.odd.from_le_hex", [t]) => uhex(&Odd::<Uint<N>>::from_le_hex(&arg!(text(t))).get()),
        ("c16.nz.from_be_bytes", [b]) => {
            let b = arg!(bytes(b));
            if b.len() != 8 * N {
                return Some(BAD.into());
            }
            Uint::<N>::nz_be_bytes(&b).map(|x| uhex(&x)).unwrap_or("none".into())
        }
        ("c16.nz.from_le_bytes", [b]) => {
            let b = arg!(bytes(b));
            if b.len() != 8 * N {
                return Some(BAD.into());
            }
            Uint::<N>::nz_le_bytes(&b).map(|x| uhex(&x)).unwrap_or("none".into())
        }
        ("c16.nz.from_be_byte_array", [b]) => {
            let b = arg!(bytes(b));
            if b.len() != 8 * N {
                return Some(BAD.into());
            }
            match Uint::<N>::nz_be_arr(&b) {
                None => "unsupported-width".into(),
                Some(r) => r.map(|x| uhex(&x)).unwrap_or("none".into()),
            }
        }
        ("c16.nz.from_le_byte_array", [b]) => {
            let b = arg!(bytes(b));
            if b.len() != 8 * N {
                return Some(BAD.into());
            }
            match Uint::<N>::nz_le_arr(&b) {
                None => "unsupported-width".into(),
                Some(r) => r.map(|x| uhex(&x)).unwrap_or("none".into()),
            }
        }
        ("c16.u.words", [v]) => {
            let x = arg!(uint::<N>(v));
            let w1: [Word; N] = x.to_words();
            let w2: [Word; N] = *x.as_words();
            let w3: [Word; N] = x.into();
            let w4: [Word; N] = *AsRef::<[Word; N]>::as_ref(&x);
            let l: [Limb; N] = x.into();
            let w5: [Word; N] = l.map(|l| l.0);
            let w6: [Word; N] = x.to_limbs().map(|l| l.0);
            // and back again through every constructor
            let back = [Uint::<N>::from_words(w1), Uint::<N>::from(w1), Uint::<N>::from(l), Uint::<N>::new(l)];
            if back.iter().any(|b| *b != x) {
                return Some("forms-differ from_words".into());
            }
            agree(vec![w1, w2, w3, w4, w5, w6], |w| words_tok(w))
        }
        ("c16.u.from_prim", [ty, v]) => {
            let x = arg!(prim(ty, v));
            let forms: Vec<Uint<N>> = match *ty {
                "u8" => vec![Uint::<N>::from_u8(x as u8), Uint::<N>::from(x as u8)],
                "u16" => vec![Uint::<N>::from_u16(x as u16), Uint::<N>::from(x as u16)],
                "u32" => vec![Uint::<N>::from_u32(x as u32), Uint::<N>::from(x as u32)],
                "u64" => vec![Uint::<N>::from_u64(x as u64), Uint::<N>::from(x as u64)],
                "u128" => vec![Uint::<N>::from_u128(x), Uint::<N>::from(x)],
                "word" => vec![Uint::<N>::from_word(x as Word), Uint::<N>::from(Limb(x as Word))],
                "wide_word" => vec![Uint::<N>::from_wide_word(x as WideWord)],
                _ => return Some(BAD.into()),
            };
            agree(forms, |x| uhex(x))
        }
        ("c16.i.from_prim", [ty, v]) => {
            let x = arg!(prim(ty, v));
            let forms: Vec<Int<N>> = match *ty {
                "i8" => vec![Int::<N>::from_i8(x as u8 as i8), Int::<N>::from(x as u8 as i8)],
                "i16" => vec![Int::<N>::from_i16(x as u16 as i16), Int::<N>::from(x as u16 as i16)],
                "i32" => vec![Int::<N>::from_i32(x as u32 as i32), Int::<N>::from(x as u32 as i32)],
                "i64" => vec![Int::<N>::from_i64(x as u64 as i64), Int::<N>::from(x as u64 as i64)],
                // `From<i128>` carries a `debug_assert!(LIMBS >= 2)`: the two build profiles differ at N = 1,
                // so only the inherent constructor is observed here
                "i128" => vec![Int::<N>::from_i128(x as i128)],
                _ => return Some(BAD.into()),
            };
            agree(forms, |x| ihex(x))
        }
        ("c16.u.fmt", [kind, v]) => bytes_tok(arg!(fmt_kind(kind, &arg!(uint::<N>(v)))).as_bytes()),
        ("c16.i.fmt", [kind, v]) => bytes_tok(arg!(fmt_kind(kind, &arg!(int::<N>(v)))).as_bytes()),
        ("c16.u.serde_ser", [v]) => bytes_tok(&arg!(uint::<N>(v)).ser()),
        ("c16.u.serde_de", [b]) => Uint::<N>::de(&arg!(bytes(b))).map(|x| uhex(&x)).unwrap_or("err:serde".into()),
        ("c16.b.from_uint", [v]) => {
            let x = arg!(uint::<N>(v));
            agree(vec![BoxedUint::from(x), BoxedUint::from(&x)], |b| bhexlen(b))
        }
        _ => return None,
    })
}

// ---------------------------------------------------------------- concat / split

fn concat_op<const L: usize, const H: usize, const O: usize>(lo: &str, hi: &str) -> Option<String>
where
    Uint<L>: ConcatMixed<Uint<H>, MixedOutput = Uint<O>>,
{
    let (lo, hi) = (arg!(uint::<L>(lo)), arg!(uint::<H>(hi)));
    let forms: Vec<Uint<O>> = vec![
        Uint::<L>::concat_mixed(&lo, &hi),
        ConcatMixed::concat_mixed(&lo, &hi),
        Uint::<O>::from((lo, hi)),
        Uint::<O>::from(&(lo, hi)),
    ];
    Some(agree(forms, |x| uhex(x)))
}

fn concat_even<const L: usize, const O: usize>(lo: &str, hi: &str) -> Option<String>
where
    Uint<L>: Concat<Output = Uint<O>> + ConcatMixed<Uint<L>, MixedOutput = Uint<O>>,
{
    let (lo, hi) = (arg!(uint::<L>(lo)), arg!(uint::<L>(hi)));
    let forms: Vec<Uint<O>> = vec![
        lo.concat(&hi),
        Concat::concat(&lo, &hi),
        Uint::<L>::concat_mixed(&lo, &hi),
        ConcatMixed::concat_mixed(&lo, &hi),
        Uint::<O>::from((lo, hi)),
    ];
    Some(agree(forms, |x| uhex(x)))
}

fn split_op<const I: usize, const L: usize, const H: usize>(x: &str) -> Option<String>
where
    Uint<I>: SplitMixed<Uint<L>, Uint<H>>,
{
    let x = arg!(uint::<I>(x));
    let forms: Vec<(Uint<L>, Uint<H>)> =
        vec![x.split_mixed::<L, H>(), SplitMixed::split_mixed(&x), <(Uint<L>, Uint<H>)>::from(x)];
    Some(agree(forms, |p| format!("{} {}", uhex(&p.0), uhex(&p.1))))
}

fn split_even<const I: usize, const O: usize>(x: &str) -> Option<String>
where
    Uint<I>: Split<Output = Uint<O>> + SplitMixed<Uint<O>, Uint<O>>,
{
    let x = arg!(uint::<I>(x));
    let forms: Vec<(Uint<O>, Uint<O>)> =
        vec![x.split(), Split::split(&x), x.split_mixed::<O, O>(), SplitMixed::split_mixed(&x)];
    Some(agree(forms, |p| format!("{} {}", uhex(&p.0), uhex(&p.1))))
}

macro_rules! cs_table {
    (even: [$(($l:literal, $o:literal)),*], mixed: [$(($ml:literal, $mh:literal, $mo:literal)),*]) => {
        fn concat_dispatch(l: usize, h: usize, lo: &str, hi: &str) -> Option<String> {
            match (l, h) {
                $(($l, $l) => concat_even::<$l, $o>(lo, hi),)*
                $(($ml, $mh) => concat_op::<$ml, $mh, $mo>(lo, hi),)*
                _ => Some("unsupported-width".into()),
            }
        }
        fn split_dispatch(l: usize, h: usize, x: &str) -> Option<String> {
            match (l, h) {
                $(($l, $l) => split_even::<$o, $l>(x),)*
                $(($ml, $mh) => split_op::<$mo, $ml, $mh>(x),)*
                _ => Some("unsupported-width".into()),
            }
        }
    };
}

cs_table! {
    even: [(1, 2), (2, 4), (3, 6), (4, 8), (8, 16), (16, 32)],
    mixed: [(2, 1, 3), (1, 2, 3), (3, 1, 4), (1, 3, 4), (4, 1, 5), (1, 4, 5), (3, 2, 5), (2, 3, 5),
            (5, 1, 6), (1, 5, 6), (4, 2, 6), (2, 4, 6), (7, 1, 8), (1, 7, 8), (5, 3, 8), (3, 5, 8),
            (15, 1, 16), (1, 15, 16), (9, 7, 16), (7, 9, 16)]
}

// ---------------------------------------------------------------- resize

fn resize_do<const N: usize, const T: usize>(op: &str, v: &str) -> Option<String> {
    Some(match op {
        "c16.u.resize" => {
            let x = arg!(uint::<N>(v));
            agree(vec![x.resize::<T>(), Uint::<T>::from(&x)], |r| uhex(r))
        }
        "c16.i.resize" => {
            let x = arg!(int::<N>(v));
            agree(vec![x.resize::<T>(), Int::<T>::from(&x)], |r| ihex(r))
        }
        _ => return None,
    })
}

macro_rules! with_t {
    ($n:literal, $t:expr, $op:expr, $v:expr) => {
        match $t {
            1 => resize_do::<$n, 1>($op, $v),
            2 => resize_do::<$n, 2>($op, $v),
            3 => resize_do::<$n, 3>($op, $v),
            4 => resize_do::<$n, 4>($op, $v),
            5 => resize_do::<$n, 5>($op, $v),
            8 => resize_do::<$n, 8>($op, $v),
            16 => resize_do::<$n, 16>($op, $v),
            _ => Some("unsupported-width".into()),
        }
    };
}

fn resize_dispatch(op: &str, n: usize, t: usize, v: &str) -> Option<String> {
    match n {
        1 => with_t!(1, t, op, v),
        2 => with_t!(2, t, op, v),
        3 => with_t!(3, t, op, v),
        4 => with_t!(4, t, op, v),
        5 => with_t!(5, t, op, v),
        8 => with_t!(8, t, op, v),
        16 => with_t!(16, t, op, v),
        _ => Some("unsupported-width".into()),
    }
}

// ---------------------------------------------------------------- boxed

fn boxed_res(r: Result<BoxedUint, crypto_bigint::DecodeError>) -> String {
    match r {
        Ok(v) => bhexlen(&v),
        Err(e) => format!("err:{e:?}"),
    }
}

fn boxed_op(op: &str, a: &[&str]) -> Option<String> {
    Some(match (op, a) {
        ("c16.b.from_be_slice", [bp, b]) => boxed_res(BoxedUint::from_be_slice(&arg!(bytes(b)), arg!(dec32(bp)))),
        ("c16.b.from_le_slice", [bp, b]) => boxed_res(BoxedUint::from_le_slice(&arg!(bytes(b)), arg!(dec32(bp)))),
        ("c16.b.to_be_bytes", [n, v]) => bytes_tok(&arg!(boxed(v, arg!(dec(n)))).to_be_bytes()),
        ("c16.b.to_le_bytes", [n, v]) => bytes_tok(&arg!(boxed(v, arg!(dec(n)))).to_le_bytes()),
        ("c16.b.from_be_hex", [bp, t]) => {
            let r: Option<BoxedUint> = BoxedUint::from_be_hex(&arg!(text(t)), arg!(dec32(bp))).into();
            r.map(|v| bhexlen(&v)).unwrap_or("none".into())
        }
        ("c16.b.fmt", [n, kind, v]) => bytes_tok(arg!(fmt_kind(kind, &arg!(boxed(v, arg!(dec(n)))))).as_bytes()),
        ("c16.b.widen", [n, v, bp]) => bhexlen(&arg!(boxed(v, arg!(dec(n)))).widen(arg!(dec32(bp)))),
        ("c16.b.shorten", [n, v, bp]) => bhexlen(&arg!(boxed(v, arg!(dec(n)))).shorten(arg!(dec32(bp)))),
        ("c16.b.from_prim", [ty, v]) => {
            let x = arg!(prim(ty, v));
            let r = match *ty {
                "u8" => BoxedUint::from(x as u8),
                "u16" => BoxedUint::from(x as u16),
                "u32" => BoxedUint::from(x as u32),
                "u64" => BoxedUint::from(x as u64),
                "u128" => BoxedUint::from(x),
                "word" => BoxedUint::from(Limb(x as Word)),
                _ => return Some(BAD.into()),
            };
            bhexlen(&r)
        }
        ("c16.b.from_vec", [n, v]) => {
            let w = arg!(hex_words(v, arg!(dec(n))));
            let limbs: Vec<Limb> = w.iter().map(|x| Limb(*x)).collect();
            agree(
                vec![BoxedUint::from(limbs.clone()), BoxedUint::from(w.clone()), BoxedUint::from(limbs.clone().into_boxed_slice())],
                |b| bhexlen(b),
            )
        }
        ("c16.b.from_slice", [n, v]) => {
            let w = arg!(hex_words(v, arg!(dec(n))));
            let limbs: Vec<Limb> = w.iter().map(|x| Limb(*x)).collect();
            agree(vec![BoxedUint::from(&limbs[..]), BoxedUint::from_words(w.clone())], |b| bhexlen(b))
        }
        ("c16.b.words", [n, v]) => {
            let x = arg!(boxed(v, arg!(dec(n))));
            let forms: Vec<Vec<Word>> = vec![
                x.to_words().to_vec(),
                x.as_words().to_vec(),
                AsRef::<[Word]>::as_ref(&x).to_vec(),
                x.to_limbs().iter().map(|l| l.0).collect(),
                x.as_limbs().iter().map(|l| l.0).collect(),
                x.clone().into_limbs().iter().map(|l| l.0).collect(),
            ];
            agree(forms, |w| words_tok(w))
        }
        _ => return None,
    })
}

fn limb_op(op: &str, a: &[&str]) -> Option<String> {
    Some(match (op, a) {
        ("c16.l.to_be_bytes", [w]) => bytes_tok(&Encoding::to_be_bytes(&arg!(limb(w)))),
        ("c16.l.to_le_bytes", [w]) => bytes_tok(&Encoding::to_le_bytes(&arg!(limb(w)))),
        ("c16.l.from_be_bytes", [b]) => {
            let r: [u8; 8] = arg!(arg!(bytes(b)).as_slice().try_into().ok());
            lhex(<Limb as Encoding>::from_be_bytes(r))
        }
        ("c16.l.from_le_bytes", [b]) => {
            let r: [u8; 8] = arg!(arg!(bytes(b)).as_slice().try_into().ok());
            lhex(<Limb as Encoding>::from_le_bytes(r))
        }
        ("c16.l.fmt", [kind, w]) => bytes_tok(arg!(fmt_kind(kind, &arg!(limb(w)))).as_bytes()),
        _ => return None,
    })
}

/// crate-internal `decode_hex_byte([hi, lo]) -> (byte, err)` through `crypto_bigint::verif_hooks`:
///   c16.hook.decode_hex_byte a b   prints `<byte> <err>` exactly as returned (hex)
///   c16.hook.hex_pair a b          prints `<byte>` when `err == 0`, else `invalid` (what the callers act on)
fn hook_op(op: &str, a: &[&str]) -> Option<String> {
    let [x, y] = a else { return Some(BAD.to_string()) };
    let (x, y) = (arg!(word(x)), arg!(word(y)));
    if x > 255 || y > 255 {
        return Some(BAD.to_string());
    }
    let (byte, err) = crypto_bigint::verif_hooks::decode_hex_byte([x as u8, y as u8]);
    match op {
        "c16.hook.decode_hex_byte" => Some(format!("{byte:x} {err:x}")),
        "c16.hook.hex_pair" => Some(if err == 0 { format!("{byte:x}") } else { "invalid".to_string() }),
        _ => None,
    }
}

pub fn dispatch(op: &str, a: &[&str]) -> Option<String> {
    match (op, a) {
        _ if op.starts_with("c16.hook.") => hook_op(op, a),
        ("c16.u.concat", [l, h, lo, hi]) => concat_dispatch(arg!(dec(l)), arg!(dec(h)), lo, hi),
        ("c16.u.split", [l, h, x]) => split_dispatch(arg!(dec(l)), arg!(dec(h)), x),
        ("c16.u.resize" | "c16.i.resize", [n, t, v]) => resize_dispatch(op, arg!(dec(n)), arg!(dec(t)), v),
        ("c16.u.to_u64", [v]) => Some(format!("{:x}", u64::from(arg!(uint::<1>(v))))),
        ("c16.u.to_u128", [v]) => Some(format!("{:x}", u128::from(arg!(uint::<2>(v))))),
        ("c16.i.to_i64", [v]) => {
            let x: I64 = arg!(int::<1>(v));
            Some(format!("{:x}", i64::from(x) as u64))
        }
        ("c16.i.to_i128", [v]) => {
            let x: I128 = arg!(int::<2>(v));
            Some(format!("{:x}", i128::from(x) as u128))
        }
        _ if op.starts_with("c16.l.") => limb_op(op, a),
        _ if op.starts_with("c16.b.") && op != "c16.b.from_uint" => boxed_op(op, a),
        _ if !a.is_empty() => {
            let n = arg!(dec(a[0]));
            let rest = &a[1..];
            with_n!(n, fixed, op, rest)
        }
        _ => None,
    }
}
