//! C16 — byte / hex / word / primitive conversions (op names start with `c16.`).
//!
//! Forwarding forms of one operation (inherent const fn, `Encoding`, `ArrayEncoding`, `ArrayDecoding`,
//! `From`, trait methods) are all evaluated; if they do not agree the line prints `forms-differ …`
//! (which no model output equals), otherwise the common value.
#![allow(clippy::all)]
use crate::util::*;
use crypto_bigint::modular::{ConstMontyForm, ConstMontyParams};
use crypto_bigint::subtle::{Choice, ConstantTimeEq, CtOption};
use crypto_bigint::{
    ArrayDecoding, ArrayEncoding, BoxedUint, ByteArray, Checked, Concat, ConcatMixed, ConstZero, DecodeError, Encoding,
    I64, I128, Int, Limb, NonZero, Odd, RandomBitsError, Split, SplitMixed, U64, U128, U192, U256, U320, U384, U448,
    U512, U768, U1024, U2048, Uint, WideWord, Word, Wrapping, impl_modulus,
};
use std::fmt;

fn agree<T: PartialEq + Clone, F: Fn(&T) -> String>(v: Vec<T>, show: F) -> String {
    if v.iter().all(|x| *x == v[0]) {
        show(&v[0])
    } else {
        format!("forms-differ {}", v.iter().map(|x| show(x)).collect::<Vec<_>>().join("|"))
    }
}

fn text(s: &str) -> Option<String> {
    String::from_utf8(bytes(s)?).ok()
}

fn words_tok(w: &[Word]) -> String {
    if w.is_empty() {
        "-".into()
    } else {
        w.iter().map(|x| format!("{x:x}")).collect::<Vec<_>>().join(",")
    }
}

fn fmt_kind<T>(kind: &str, v: &T) -> Option<String>
where
    T: fmt::LowerHex + fmt::UpperHex + fmt::Display + fmt::Binary + fmt::Debug,
{
    Some(match kind {
        "x" => format!("{v:x}"),
        "X" => format!("{v:X}"),
        "d" => format!("{v}"),
        "b" => format!("{v:b}"),
        "#x" => format!("{v:#x}"),
        "#X" => format!("{v:#X}"),
        "#b" => format!("{v:#b}"),
        "dbg" => format!("{v:?}"),
        _ => return None,
    })
}

/// the formatting traits `NonZero<T>` / `Odd<T>` forward to the wrapped value (no `Debug`: that one is derived)
fn wrap_fmt_kind<T>(kind: &str, v: &T) -> Option<String>
where
    T: fmt::LowerHex + fmt::UpperHex + fmt::Display + fmt::Binary,
{
    Some(match kind {
        "x" => format!("{v:x}"),
        "X" => format!("{v:X}"),
        "d" => format!("{v}"),
        "b" => format!("{v:b}"),
        "#x" => format!("{v:#x}"),
        "#X" => format!("{v:#X}"),
        "#b" => format!("{v:#b}"),
        _ => return None,
    })
}

fn flag(s: &str) -> Option<bool> {
    match s {
        "0" => Some(false),
        "1" => Some(true),
        _ => None,
    }
}

/// A minimal wrappable type with an `Octal` impl (no crate type has one): lets the `fmt::Octal` forwarding impls of
/// `NonZero<T>` / `Odd<T>` be instantiated.  `NonZero::new` needs `Zero` (= `ConstZero + ConstantTimeEq`),
/// `Odd::default` needs `num_traits::One`.
#[derive(Clone, Copy, Debug, PartialEq)]
struct Oct(u64);
impl ConstantTimeEq for Oct {
    fn ct_eq(&self, other: &Self) -> Choice {
        self.0.ct_eq(&other.0)
    }
}
impl core::ops::Add for Oct {
    type Output = Oct;
    fn add(self, rhs: Oct) -> Oct {
        Oct(self.0.wrapping_add(rhs.0))
    }
}
impl num_traits::Zero for Oct {
    fn zero() -> Self {
        Oct(0)
    }
    fn is_zero(&self) -> bool {
        self.0 == 0
    }
}
impl ConstZero for Oct {
    const ZERO: Self = Oct(0);
}
impl core::ops::Mul for Oct {
    type Output = Oct;
    fn mul(self, rhs: Oct) -> Oct {
        Oct(self.0.wrapping_mul(rhs.0))
    }
}
impl num_traits::One for Oct {
    fn one() -> Self {
        Oct(1)
    }
}
impl fmt::Octal for Oct {
    fn fmt(&self, f: &mut fmt::Formatter<'_>) -> fmt::Result {
        fmt::Octal::fmt(&self.0, f)
    }
}

/// `Display` payload for `RandomBitsError::RandCore`
struct Msg(String);
impl fmt::Display for Msg {
    fn fmt(&self, f: &mut fmt::Formatter<'_>) -> fmt::Result {
        f.write_str(&self.0)
    }
}

// compile-time moduli for the `ConstMontyForm` serde ops (the op line repeats the modulus; it is compared)
impl_modulus!(C16M1, U64, "ffffffff00000001");
impl_modulus!(C16M2, U128, "00000000000000010000000000000001");
impl_modulus!(C16M4, U256, "ffffffff00000000ffffffffffffffffbce6faada7179e84f3b9cac2fc632551");

/// `Serialize` / `Deserialize for ConstMontyForm<MOD, N>`: the Montgomery representation itself is (de)serialised,
/// so the ops work on raw representations (`from_montgomery` / `as_montgomery`); the conversion is C08's.
fn cm_ops<M: ConstMontyParams<N>, const N: usize>(op: &str, a: &[&str]) -> Option<String>
where
    Uint<N>: Encoding,
{
    let [m, rest @ ..] = a else { return Some(BAD.into()) };
    if arg!(uint::<N>(m)) != *M::MODULUS.as_ref() {
        return Some(BAD.into());
    }
    Some(match (op, rest) {
        ("c16.cm.serde_ser", [v]) => {
            bytes_tok(&bincode::serialize(&ConstMontyForm::<M, N>::from_montgomery(arg!(uint::<N>(v)))).unwrap())
        }
        ("c16.cm.serde_de", [b]) => match bincode::deserialize::<ConstMontyForm<M, N>>(&arg!(bytes(b))) {
            Ok(f) => uhex(f.as_montgomery()),
            Err(_) => "err:serde".into(),
        },
        // de(ser(new(v))) is accepted (a constructed form is always reduced) and retrieves v mod m
        ("c16.cm.roundtrip", [v]) => {
            let f = ConstMontyForm::<M, N>::new(&arg!(uint::<N>(v)));
            match bincode::deserialize::<ConstMontyForm<M, N>>(&bincode::serialize(&f).unwrap()) {
                Ok(g) if g == f => format!("ok {}", uhex(&g.retrieve())),
                Ok(_) => "forms-differ roundtrip".into(),
                Err(_) => "err:serde".into(),
            }
        }
        _ => return None,
    })
}

/// forms that need the concrete alias type (inherent `to_*_bytes`, `Encoding::Repr`, hybrid-array, serde)
trait Forms: Sized {
    fn enc_be(&self) -> Vec<Vec<u8>>;
    fn enc_le(&self) -> Vec<Vec<u8>>;
    /// decoders taking an exactly sized array
    fn dec_be(b: &[u8]) -> Vec<Self>;
    fn dec_le(b: &[u8]) -> Vec<Self>;
    fn nz_be_bytes(b: &[u8]) -> Option<Self>;
    fn nz_le_bytes(b: &[u8]) -> Option<Self>;
    /// `None` = the type has no `ArrayEncoding`
    fn nz_be_arr(b: &[u8]) -> Option<Option<Self>>;
    fn nz_le_arr(b: &[u8]) -> Option<Option<Self>>;
    fn ser(&self) -> Vec<u8>;
    fn de(b: &[u8]) -> Option<Self>;
    /// coverage round: `Serialize`/`Deserialize for Wrapping<T>` and `for Checked<T>` (bincode)
    fn w_ser(&self) -> Vec<u8>;
    fn w_de(b: &[u8]) -> Option<Self>;
    /// `some = false`: a `Checked` whose `CtOption` is none (the inner value is hidden)
    fn ck_ser(&self, some: bool) -> Vec<u8>;
    fn ck_de(b: &[u8]) -> Option<Option<Self>>;
}

macro_rules! forms_common {
    ($t:ty) => {
        fn nz_be_bytes(b: &[u8]) -> Option<Self> {
            let r: <$t as Encoding>::Repr = b.try_into().ok()?;
            Option::<NonZero<$t>>::from(NonZero::<$t>::from_be_bytes(r)).map(|x| x.get())
        }
        fn nz_le_bytes(b: &[u8]) -> Option<Self> {
            let r: <$t as Encoding>::Repr = b.try_into().ok()?;
            Option::<NonZero<$t>>::from(NonZero::<$t>::from_le_bytes(r)).map(|x| x.get())
        }
        fn ser(&self) -> Vec<u8> {
            bincode::serialize(self).unwrap()
        }
        fn de(b: &[u8]) -> Option<Self> {
            bincode::deserialize::<$t>(b).ok()
        }
        fn w_ser(&self) -> Vec<u8> {
            bincode::serialize(&Wrapping(*self)).unwrap()
        }
        fn w_de(b: &[u8]) -> Option<Self> {
            bincode::deserialize::<Wrapping<$t>>(b).ok().map(|w| w.0)
        }
        fn ck_ser(&self, some: bool) -> Vec<u8> {
            let c = if some { Checked::new(*self) } else { Checked(CtOption::new(*self, Choice::from(0))) };
            bincode::serialize(&c).unwrap()
        }
        fn ck_de(b: &[u8]) -> Option<Option<Self>> {
            bincode::deserialize::<Checked<$t>>(b).ok().map(|c| Option::<$t>::from(c))
        }
    };
}

macro_rules! forms_arr {
    ($($t:ty),+) => {$(
        impl Forms for $t {
            fn enc_be(&self) -> Vec<Vec<u8>> {
                vec![<$t>::to_be_bytes(self).to_vec(), AsRef::<[u8]>::as_ref(&Encoding::to_be_bytes(self)).to_vec(),
                     ArrayEncoding::to_be_byte_array(self).to_vec()]
            }
            fn enc_le(&self) -> Vec<Vec<u8>> {
                vec![<$t>::to_le_bytes(self).to_vec(), AsRef::<[u8]>::as_ref(&Encoding::to_le_bytes(self)).to_vec(),
                     ArrayEncoding::to_le_byte_array(self).to_vec()]
            }
            fn dec_be(b: &[u8]) -> Vec<Self> {
                let r: <$t as Encoding>::Repr = b.try_into().unwrap();
                let mut a = ByteArray::<$t>::default();
                a.copy_from_slice(b);
                vec![<$t as Encoding>::from_be_bytes(r), <$t as ArrayEncoding>::from_be_byte_array(a.clone()),
                     ArrayDecoding::into_uint_be(a)]
            }
            fn dec_le(b: &[u8]) -> Vec<Self> {
                let r: <$t as Encoding>::Repr = b.try_into().unwrap();
                let mut a = ByteArray::<$t>::default();
                a.copy_from_slice(b);
                vec![<$t as Encoding>::from_le_bytes(r), <$t as ArrayEncoding>::from_le_byte_array(a.clone()),
                     ArrayDecoding::into_uint_le(a)]
            }
            fn nz_be_arr(b: &[u8]) -> Option<Option<Self>> {
                let mut a = ByteArray::<$t>::default();
                a.copy_from_slice(b);
                Some(Option::<NonZero<$t>>::from(NonZero::<$t>::from_be_byte_array(a)).map(|x| x.get()))
            }
            fn nz_le_arr(b: &[u8]) -> Option<Option<Self>> {
                let mut a = ByteArray::<$t>::default();
                a.copy_from_slice(b);
                Some(Option::<NonZero<$t>>::from(NonZero::<$t>::from_le_byte_array(a)).map(|x| x.get()))
            }
            forms_common!($t);
        }
    )+};
}

macro_rules! forms_noarr {
    ($($t:ty),+) => {$(
        impl Forms for $t {
            fn enc_be(&self) -> Vec<Vec<u8>> {
                vec![<$t>::to_be_bytes(self).to_vec(), AsRef::<[u8]>::as_ref(&Encoding::to_be_bytes(self)).to_vec()]
            }
            fn enc_le(&self) -> Vec<Vec<u8>> {
                vec![<$t>::to_le_bytes(self).to_vec(), AsRef::<[u8]>::as_ref(&Encoding::to_le_bytes(self)).to_vec()]
            }
            fn dec_be(b: &[u8]) -> Vec<Self> {
                let r: <$t as Encoding>::Repr = b.try_into().unwrap();
                vec![<$t as Encoding>::from_be_bytes(r)]
            }
            fn dec_le(b: &[u8]) -> Vec<Self> {
                let r: <$t as Encoding>::Repr = b.try_into().unwrap();
                vec![<$t as Encoding>::from_le_bytes(r)]
            }
            fn nz_be_arr(_b: &[u8]) -> Option<Option<Self>> { None }
            fn nz_le_arr(_b: &[u8]) -> Option<Option<Self>> { None }
            forms_common!($t);
        }
    )+};
}

forms_arr!(U64, U128, U192, U256, U384, U448, U512, U768, U1024, U2048);
forms_noarr!(U320);

fn prim(ty: &str, v: &str) -> Option<u128> {
    if v.is_empty() || v.len() > 32 {
        return None;
    }
    let x = u128::from_str_radix(v, 16).ok()?;
    let bits = match ty {
        "u8" | "i8" => 8,
        "u16" | "i16" => 16,
        "u32" | "i32" => 32,
        "u64" | "i64" | "word" => 64,
        "u128" | "i128" | "wide_word" => 128,
        _ => return None,
    };
    if bits < 128 && x >> bits != 0 {
        return None;
    }
    Some(x)
}

fn fixed<const N: usize>(op: &str, a: &[&str]) -> Option<String>
where
    Uint<N>: Forms,
{
    Some(match (op, a) {
        ("c16.u.to_be_bytes", [v]) => agree(arg!(uint::<N>(v)).enc_be(), |b| bytes_tok(b)),
        ("c16.u.to_le_bytes", [v]) => agree(arg!(uint::<N>(v)).enc_le(), |b| bytes_tok(b)),
        ("c16.u.from_be_slice", [b]) => uhex(&Uint::<N>::from_be_slice(&arg!(bytes(b)))),
        ("c16.u.from_le_slice", [b]) => uhex(&Uint::<N>::from_le_slice(&arg!(bytes(b)))),
        ("c16.u.from_be_bytes", [b]) => {
            let b = arg!(bytes(b));
            if b.len() != 8 * N {
                return Some(BAD.into());
            }
            agree(Uint::<N>::dec_be(&b), |x| uhex(x))
        }
        ("c16.u.from_le_bytes", [b]) => {
            let b = arg!(bytes(b));
            if b.len() != 8 * N {
                return Some(BAD.into());
            }
            agree(Uint::<N>::dec_le(&b), |x| uhex(x))
        }
        ("c16.u.from_be_hex", [t]) => uhex(&Uint::<N>::from_be_hex(&arg!(text(t)))),
        ("c16.u.from_le_hex", [t]) => uhex(&Uint::<N>::from_le_hex(&arg!(text(t)))),
        ("c16.i.from_be_hex", [t]) => ihex(&Int::<N>::from_be_hex(&arg!(text(t)))),
        ("c16.odd.from_be_hex", [t]) => uhex(&Odd::<Uint<N>>::from_be_hex(&arg!(text(t))).get()),
        ("c16.odd.from_le_hex", [t]) => uhex(&Odd::<Uint<N>>::from_le_hex(&arg!(text(t))).get()),
        ("c16.nz.from_be_bytes", [b]) => {
            let b = arg!(bytes(b));
            if b.len() != 8 * N {
                return Some(BAD.into());
            }
            Uint::<N>::nz_be_bytes(&b).map(|x| uhex(&x)).unwrap_or("none".into())
        }
        ("c16.nz.from_le_bytes", [b]) => {
            let b = arg!(bytes(b));
            if b.len() != 8 * N {
                return Some(BAD.into());
            }
            Uint::<N>::nz_le_bytes(&b).map(|x| uhex(&x)).unwrap_or("none".into())
        }
        ("c16.nz.from_be_byte_array", [b]) => {
            let b = arg!(bytes(b));
            if b.len() != 8 * N {
                return Some(BAD.into());
            }
            match Uint::<N>::nz_be_arr(&b) {
                None => "unsupported-width".into(),
                Some(r) => r.map(|x| uhex(&x)).unwrap_or("none".into()),
            }
        }
        ("c16.nz.from_le_byte_array", [b]) => {
            let b = arg!(bytes(b));
            if b.len() != 8 * N {
                return Some(BAD.into());
            }
            match Uint::<N>::nz_le_arr(&b) {
                None => "unsupported-width".into(),
                Some(r) => r.map(|x| uhex(&x)).unwrap_or("none".into()),
            }
        }
        ("c16.u.words", [v]) => {
            let x = arg!(uint::<N>(v));
            let w1: [Word; N] = x.to_words();
            let w2: [Word; N] = *x.as_words();
            let w3: [Word; N] = x.into();
            let w4: [Word; N] = *AsRef::<[Word; N]>::as_ref(&x);
            let l: [Limb; N] = x.into();
            let w5: [Word; N] = l.map(|l| l.0);
            let w6: [Word; N] = x.to_limbs().map(|l| l.0);
            // and back again through every constructor
            let back = [Uint::<N>::from_words(w1), Uint::<N>::from(w1), Uint::<N>::from(l), Uint::<N>::new(l)];
            if back.iter().any(|b| *b != x) {
                return Some("forms-differ from_words".into());
            }
            agree(vec![w1, w2, w3, w4, w5, w6], |w| words_tok(w))
        }
        ("c16.u.from_prim", [ty, v]) => {
            let x = arg!(prim(ty, v));
            let forms: Vec<Uint<N>> = match *ty {
                "u8" => vec![Uint::<N>::from_u8(x as u8), Uint::<N>::from(x as u8)],
                "u16" => vec![Uint::<N>::from_u16(x as u16), Uint::<N>::from(x as u16)],
                "u32" => vec![Uint::<N>::from_u32(x as u32), Uint::<N>::from(x as u32)],
                "u64" => vec![Uint::<N>::from_u64(x as u64), Uint::<N>::from(x as u64)],
                "u128" => vec![Uint::<N>::from_u128(x), Uint::<N>::from(x)],
                "word" => vec![Uint::<N>::from_word(x as Word), Uint::<N>::from(Limb(x as Word))],
                "wide_word" => vec![Uint::<N>::from_wide_word(x as WideWord)],
                _ => return Some(BAD.into()),
            };
            agree(forms, |x| uhex(x))
        }
        ("c16.i.from_prim", [ty, v]) => {
            let x = arg!(prim(ty, v));
            let forms: Vec<Int<N>> = match *ty {
                "i8" => vec![Int::<N>::from_i8(x as u8 as i8), Int::<N>::from(x as u8 as i8)],
                "i16" => vec![Int::<N>::from_i16(x as u16 as i16), Int::<N>::from(x as u16 as i16)],
                "i32" => vec![Int::<N>::from_i32(x as u32 as i32), Int::<N>::from(x as u32 as i32)],
                "i64" => vec![Int::<N>::from_i64(x as u64 as i64), Int::<N>::from(x as u64 as i64)],
                // `From<i128>` carries a `debug_assert!(LIMBS >= 2)`: the two build profiles differ at N = 1,
                // so only the inherent constructor is observed here
                "i128" => vec![Int::<N>::from_i128(x as i128)],
                _ => return Some(BAD.into()),
            };
            agree(forms, |x| ihex(x))
        }
        ("c16.u.fmt", [kind, v]) => bytes_tok(arg!(fmt_kind(kind, &arg!(uint::<N>(v)))).as_bytes()),
        ("c16.i.fmt", [kind, v]) => bytes_tok(arg!(fmt_kind(kind, &arg!(int::<N>(v)))).as_bytes()),
        ("c16.u.serde_ser", [v]) => bytes_tok(&arg!(uint::<N>(v)).ser()),
        ("c16.u.serde_de", [b]) => Uint::<N>::de(&arg!(bytes(b))).map(|x| uhex(&x)).unwrap_or("err:serde".into()),
        // ---------------- coverage round: serde of the Wrapping / Checked wrappers
        ("c16.w.serde_ser", [v]) => bytes_tok(&arg!(uint::<N>(v)).w_ser()),
        ("c16.w.serde_de", [b]) => Uint::<N>::w_de(&arg!(bytes(b))).map(|x| uhex(&x)).unwrap_or("err:serde".into()),
        ("c16.ck.serde_ser", [some, v]) => bytes_tok(&arg!(uint::<N>(v)).ck_ser(arg!(flag(some)))),
        ("c16.ck.serde_de", [b]) => match Uint::<N>::ck_de(&arg!(bytes(b))) {
            None => "err:serde".into(),
            Some(None) => "none".into(),
            Some(Some(x)) => format!("some {}", uhex(&x)),
        },
        // ---------------- coverage round: word / limb views of Int; mutable views of Uint and Int
        ("c16.i.words", [v]) => {
            let x = arg!(int::<N>(v));
            let l: [Limb; N] = x.to_limbs();
            let forms: Vec<Vec<Word>> = vec![
                x.to_words().to_vec(),
                x.as_words().to_vec(),
                AsRef::<[Word; N]>::as_ref(&x).to_vec(),
                l.iter().map(|l| l.0).collect(),
                x.as_limbs().iter().map(|l| l.0).collect(),
                AsRef::<[Limb]>::as_ref(&x).iter().map(|l| l.0).collect(),
            ];
            let back = [Int::<N>::from_words(x.to_words()), Int::<N>::new(l)];
            if back.iter().any(|b| *b != x) {
                return Some("forms-differ from_words".into());
            }
            agree(forms, |w| words_tok(w))
        }
        ("c16.u.words_mut", [v, i, w]) => {
            let (x, i, w) = (arg!(uint::<N>(v)), arg!(dec(i)), arg!(word(w)));
            if i >= N {
                return Some(BAD.into());
            }
            let (mut a, mut b, mut c, mut d) = (x, x, x, x);
            a.as_words_mut()[i] = w;
            b.as_limbs_mut()[i] = Limb(w);
            AsMut::<[Word; N]>::as_mut(&mut c)[i] = w;
            let view: &mut [Limb] = AsMut::<[Limb]>::as_mut(&mut d);
            if view.len() != N {
                return Some("forms-differ len".into());
            }
            view[i] = Limb(w);
            agree(vec![a, b, c, d], |r| uhex(r))
        }
        ("c16.i.words_mut", [v, i, w]) => {
            let (x, i, w) = (arg!(int::<N>(v)), arg!(dec(i)), arg!(word(w)));
            if i >= N {
                return Some(BAD.into());
            }
            let (mut a, mut b, mut c, mut d) = (x, x, x, x);
            a.as_words_mut()[i] = w;
            b.as_limbs_mut()[i] = Limb(w);
            AsMut::<[Word; N]>::as_mut(&mut c)[i] = w;
            let view: &mut [Limb] = AsMut::<[Limb]>::as_mut(&mut d);
            if view.len() != N {
                return Some("forms-differ len".into());
            }
            view[i] = Limb(w);
            agree(vec![a, b, c, d], |r| ihex(r))
        }
        // ---------------- coverage round: From<Odd<Uint>> / From<&Odd<Uint>> for BoxedUint
        ("c16.b.from_odd", [v]) => match Option::<Odd<Uint<N>>>::from(Odd::new(arg!(uint::<N>(v)))) {
            None => "none".into(),
            Some(o) => agree(vec![BoxedUint::from(o), BoxedUint::from(&o)], |b| bhexlen(b)),
        },
        // ---------------- coverage round: formatting forwarded by NonZero<T> / Odd<T>
        ("c16.nz.fmt", [kind, v]) => match Option::<NonZero<Uint<N>>>::from(NonZero::new(arg!(uint::<N>(v)))) {
            None => "none".into(),
            Some(w) => bytes_tok(arg!(wrap_fmt_kind(kind, &w)).as_bytes()),
        },
        ("c16.odd.fmt", [kind, v]) => match Option::<Odd<Uint<N>>>::from(Odd::new(arg!(uint::<N>(v)))) {
            None => "none".into(),
            Some(w) => bytes_tok(arg!(wrap_fmt_kind(kind, &w)).as_bytes()),
        },
        ("c16.nz.i.fmt", [kind, v]) => match Option::<NonZero<Int<N>>>::from(arg!(int::<N>(v)).to_nz()) {
            None => "none".into(),
            Some(w) => bytes_tok(arg!(wrap_fmt_kind(kind, &w)).as_bytes()),
        },
        ("c16.odd.i.fmt", [kind, v]) => match Option::<Odd<Int<N>>>::from(arg!(int::<N>(v)).to_odd()) {
            None => "none".into(),
            Some(w) => bytes_tok(arg!(wrap_fmt_kind(kind, &w)).as_bytes()),
        },
        ("c16.b.from_uint", [v]) => {
            let x = arg!(uint::<N>(v));
            agree(vec![BoxedUint::from(x), BoxedUint::from(&x)], |b| bhexlen(b))
        }
        _ => return None,
    })
}

// ---------------------------------------------------------------- concat / split

fn concat_op<const L: usize, const H: usize, const O: usize>(lo: &str, hi: &str) -> Option<String>
where
    Uint<L>: ConcatMixed<Uint<H>, MixedOutput = Uint<O>>,
{
    let (lo, hi) = (arg!(uint::<L>(lo)), arg!(uint::<H>(hi)));
    let forms: Vec<Uint<O>> = vec![
        Uint::<L>::concat_mixed(&lo, &hi),
        ConcatMixed::concat_mixed(&lo, &hi),
        Uint::<O>::from((lo, hi)),
        Uint::<O>::from(&(lo, hi)),
    ];
    Some(agree(forms, |x| uhex(x)))
}

fn concat_even<const L: usize, const O: usize>(lo: &str, hi: &str) -> Option<String>
where
    Uint<L>: Concat<Output = Uint<O>> + ConcatMixed<Uint<L>, MixedOutput = Uint<O>>,
{
    let (lo, hi) = (arg!(uint::<L>(lo)), arg!(uint::<L>(hi)));
    let forms: Vec<Uint<O>> = vec![
        lo.concat(&hi),
        Concat::concat(&lo, &hi),
        Uint::<L>::concat_mixed(&lo, &hi),
        ConcatMixed::concat_mixed(&lo, &hi),
        Uint::<O>::from((lo, hi)),
    ];
    Some(agree(forms, |x| uhex(x)))
}

fn split_op<const I: usize, const L: usize, const H: usize>(x: &str) -> Option<String>
where
    Uint<I>: SplitMixed<Uint<L>, Uint<H>>,
{
    let x = arg!(uint::<I>(x));
    let forms: Vec<(Uint<L>, Uint<H>)> =
        vec![x.split_mixed::<L, H>(), SplitMixed::split_mixed(&x), <(Uint<L>, Uint<H>)>::from(x)];
    Some(agree(forms, |p| format!("{} {}", uhex(&p.0), uhex(&p.1))))
}

fn split_even<const I: usize, const O: usize>(x: &str) -> Option<String>
where
    Uint<I>: Split<Output = Uint<O>> + SplitMixed<Uint<O>, Uint<O>>,
{
    let x = arg!(uint::<I>(x));
    let forms: Vec<(Uint<O>, Uint<O>)> =
        vec![x.split(), Split::split(&x), x.split_mixed::<O, O>(), SplitMixed::split_mixed(&x)];
    Some(agree(forms, |p| format!("{} {}", uhex(&p.0), uhex(&p.1))))
}

macro_rules! cs_table {
    (even: [$(($l:literal, $o:literal)),*], mixed: [$(($ml:literal, $mh:literal, $mo:literal)),*]) => {
        fn concat_dispatch(l: usize, h: usize, lo: &str, hi: &str) -> Option<String> {
            match (l, h) {
                $(($l, $l) => concat_even::<$l, $o>(lo, hi),)*
                $(($ml, $mh) => concat_op::<$ml, $mh, $mo>(lo, hi),)*
                _ => Some("unsupported-width".into()),
            }
        }
        fn split_dispatch(l: usize, h: usize, x: &str) -> Option<String> {
            match (l, h) {
                $(($l, $l) => split_even::<$o, $l>(x),)*
                $(($ml, $mh) => split_op::<$mo, $ml, $mh>(x),)*
                _ => Some("unsupported-width".into()),
            }
        }
    };
}

cs_table! {
    even: [(1, 2), (2, 4), (3, 6), (4, 8), (8, 16), (16, 32)],
    mixed: [(2, 1, 3), (1, 2, 3), (3, 1, 4), (1, 3, 4), (4, 1, 5), (1, 4, 5), (3, 2, 5), (2, 3, 5),
            (5, 1, 6), (1, 5, 6), (4, 2, 6), (2, 4, 6), (7, 1, 8), (1, 7, 8), (5, 3, 8), (3, 5, 8),
            (15, 1, 16), (1, 15, 16), (9, 7, 16), (7, 9, 16)]
}

// ---------------------------------------------------------------- resize

fn resize_do<const N: usize, const T: usize>(op: &str, v: &str) -> Option<String> {
    Some(match op {
        "c16.u.resize" => {
            let x = arg!(uint::<N>(v));
            agree(vec![x.resize::<T>(), Uint::<T>::from(&x)], |r| uhex(r))
        }
        "c16.i.resize" => {
            let x = arg!(int::<N>(v));
            agree(vec![x.resize::<T>(), Int::<T>::from(&x)], |r| ihex(r))
        }
        _ => return None,
    })
}

macro_rules! with_t {
    ($n:literal, $t:expr, $op:expr, $v:expr) => {
        match $t {
            1 => resize_do::<$n, 1>($op, $v),
            2 => resize_do::<$n, 2>($op, $v),
            3 => resize_do::<$n, 3>($op, $v),
            4 => resize_do::<$n, 4>($op, $v),
            5 => resize_do::<$n, 5>($op, $v),
            8 => resize_do::<$n, 8>($op, $v),
            16 => resize_do::<$n, 16>($op, $v),
            _ => Some("unsupported-width".into()),
        }
    };
}

fn resize_dispatch(op: &str, n: usize, t: usize, v: &str) -> Option<String> {
    match n {
        1 => with_t!(1, t, op, v),
        2 => with_t!(2, t, op, v),
        3 => with_t!(3, t, op, v),
        4 => with_t!(4, t, op, v),
        5 => with_t!(5, t, op, v),
        8 => with_t!(8, t, op, v),
        16 => with_t!(16, t, op, v),
        _ => Some("unsupported-width".into()),
    }
}

// ---------------------------------------------------------------- boxed

fn boxed_res(r: Result<BoxedUint, crypto_bigint::DecodeError>) -> String {
    match r {
        Ok(v) => bhexlen(&v),
        Err(e) => format!("err:{e:?}"),
    }
}

fn boxed_op(op: &str, a: &[&str]) -> Option<String> {
    Some(match (op, a) {
        ("c16.b.from_be_slice", [bp, b]) => boxed_res(BoxedUint::from_be_slice(&arg!(bytes(b)), arg!(dec32(bp)))),
        ("c16.b.from_le_slice", [bp, b]) => boxed_res(BoxedUint::from_le_slice(&arg!(bytes(b)), arg!(dec32(bp)))),
        ("c16.b.to_be_bytes", [n, v]) => bytes_tok(&arg!(boxed(v, arg!(dec(n)))).to_be_bytes()),
        ("c16.b.to_le_bytes", [n, v]) => bytes_tok(&arg!(boxed(v, arg!(dec(n)))).to_le_bytes()),
        ("c16.b.from_be_hex", [bp, t]) => {
            let r: Option<BoxedUint> = BoxedUint::from_be_hex(&arg!(text(t)), arg!(dec32(bp))).into();
            r.map(|v| bhexlen(&v)).unwrap_or("none".into())
        }
        ("c16.b.fmt", [n, kind, v]) => bytes_tok(arg!(fmt_kind(kind, &arg!(boxed(v, arg!(dec(n)))))).as_bytes()),
        ("c16.b.widen", [n, v, bp]) => bhexlen(&arg!(boxed(v, arg!(dec(n)))).widen(arg!(dec32(bp)))),
        ("c16.b.shorten", [n, v, bp]) => bhexlen(&arg!(boxed(v, arg!(dec(n)))).shorten(arg!(dec32(bp)))),
        ("c16.b.from_prim", [ty, v]) => {
            let x = arg!(prim(ty, v));
            let r = match *ty {
                "u8" => BoxedUint::from(x as u8),
                "u16" => BoxedUint::from(x as u16),
                "u32" => BoxedUint::from(x as u32),
                "u64" => BoxedUint::from(x as u64),
                "u128" => BoxedUint::from(x),
                "word" => BoxedUint::from(Limb(x as Word)),
                _ => return Some(BAD.into()),
            };
            bhexlen(&r)
        }
        ("c16.b.from_vec", [n, v]) => {
            let w = arg!(hex_words(v, arg!(dec(n))));
            let limbs: Vec<Limb> = w.iter().map(|x| Limb(*x)).collect();
            agree(
                vec![BoxedUint::from(limbs.clone()), BoxedUint::from(w.clone()), BoxedUint::from(limbs.clone().into_boxed_slice())],
                |b| bhexlen(b),
            )
        }
        ("c16.b.from_slice", [n, v]) => {
            let w = arg!(hex_words(v, arg!(dec(n))));
            let limbs: Vec<Limb> = w.iter().map(|x| Limb(*x)).collect();
            agree(vec![BoxedUint::from(&limbs[..]), BoxedUint::from_words(w.clone())], |b| bhexlen(b))
        }
        ("c16.b.words_mut", [n, v, i, w]) => {
            let (x, i, w) = (arg!(boxed(v, arg!(dec(n)))), arg!(dec(i)), arg!(word(w)));
            if i >= x.nlimbs() {
                return Some(BAD.into());
            }
            let (mut a, mut b, mut c, mut d) = (x.clone(), x.clone(), x.clone(), x.clone());
            a.as_words_mut()[i] = w;
            b.as_limbs_mut()[i] = Limb(w);
            let vw: &mut [Word] = AsMut::<[Word]>::as_mut(&mut c);
            let lw = vw.len();
            vw[i] = w;
            let vl: &mut [Limb] = AsMut::<[Limb]>::as_mut(&mut d);
            if lw != x.nlimbs() || vl.len() != x.nlimbs() {
                return Some("forms-differ len".into());
            }
            vl[i] = Limb(w);
            agree(vec![a, b, c, d], |r| bhexlen(r))
        }
        ("c16.nz.b.fmt", [n, kind, v]) => match Option::<NonZero<BoxedUint>>::from(NonZero::new(arg!(boxed(v, arg!(dec(n)))))) {
            None => "none".into(),
            Some(w) => bytes_tok(arg!(wrap_fmt_kind(kind, &w)).as_bytes()),
        },
        ("c16.odd.b.fmt", [n, kind, v]) => match Option::<Odd<BoxedUint>>::from(Odd::new(arg!(boxed(v, arg!(dec(n)))))) {
            None => "none".into(),
            Some(w) => bytes_tok(arg!(wrap_fmt_kind(kind, &w)).as_bytes()),
        },
        ("c16.b.words", [n, v]) => {
            let x = arg!(boxed(v, arg!(dec(n))));
            let forms: Vec<Vec<Word>> = vec![
                x.to_words().to_vec(),
                x.as_words().to_vec(),
                AsRef::<[Word]>::as_ref(&x).to_vec(),
                x.to_limbs().iter().map(|l| l.0).collect(),
                x.as_limbs().iter().map(|l| l.0).collect(),
                x.clone().into_limbs().iter().map(|l| l.0).collect(),
            ];
            agree(forms, |w| words_tok(w))
        }
        _ => return None,
    })
}

fn limb_op(op: &str, a: &[&str]) -> Option<String> {
    Some(match (op, a) {
        ("c16.l.to_be_bytes", [w]) => bytes_tok(&Encoding::to_be_bytes(&arg!(limb(w)))),
        ("c16.l.to_le_bytes", [w]) => bytes_tok(&Encoding::to_le_bytes(&arg!(limb(w)))),
        ("c16.l.from_be_bytes", [b]) => {
            let r: [u8; 8] = arg!(arg!(bytes(b)).as_slice().try_into().ok());
            lhex(<Limb as Encoding>::from_be_bytes(r))
        }
        ("c16.l.from_le_bytes", [b]) => {
            let r: [u8; 8] = arg!(arg!(bytes(b)).as_slice().try_into().ok());
            lhex(<Limb as Encoding>::from_le_bytes(r))
        }
        ("c16.l.fmt", [kind, w]) => bytes_tok(arg!(fmt_kind(kind, &arg!(limb(w)))).as_bytes()),
        // ---------------- coverage round
        ("c16.l.serde_ser", [w]) => {
            let l = arg!(limb(w));
            agree(vec![bincode::serialize(&l).unwrap(), bincode::serialize(&Wrapping(l)).unwrap()], |b| bytes_tok(b))
        }
        ("c16.l.serde_de", [b]) => {
            let b = arg!(bytes(b));
            let forms = vec![bincode::deserialize::<Limb>(&b).ok(), bincode::deserialize::<Wrapping<Limb>>(&b).ok().map(|w| w.0)];
            agree(forms, |r| r.map(lhex).unwrap_or("err:serde".into()))
        }
        ("c16.l.to_prim", [w]) => {
            let l = arg!(limb(w));
            format!("{:x} {:x}", Word::from(l), WideWord::from(l))
        }
        ("c16.nz.l.fmt", [kind, w]) => match Option::<NonZero<Limb>>::from(NonZero::new(arg!(limb(w)))) {
            None => "none".into(),
            Some(x) => bytes_tok(arg!(wrap_fmt_kind(kind, &x)).as_bytes()),
        },
        ("c16.odd.l.fmt", [kind]) => bytes_tok(arg!(wrap_fmt_kind(kind, &Odd::<Limb>::default())).as_bytes()),
        _ => return None,
    })
}

/// crate-internal `decode_hex_byte([hi, lo]) -> (byte, err)` through `crypto_bigint::verif_hooks`:
///   c16.hook.decode_hex_byte a b   prints `<byte> <err>` exactly as returned (hex)
///   c16.hook.hex_pair a b          prints `<byte>` when `err == 0`, else `invalid` (what the callers act on)
#[cfg(crypto_bigint_verif)]
fn hook_op(op: &str, a: &[&str]) -> Option<String> {
    let [x, y] = a else { return Some(BAD.to_string()) };
    let (x, y) = (arg!(word(x)), arg!(word(y)));
    if x > 255 || y > 255 {
        return Some(BAD.to_string());
    }
    let (byte, err) = crypto_bigint::verif_hooks::decode_hex_byte([x as u8, y as u8]);
    match op {
        "c16.hook.decode_hex_byte" => Some(format!("{byte:x} {err:x}")),
        "c16.hook.hex_pair" => Some(if err == 0 { format!("{byte:x}") } else { "invalid".to_string() }),
        _ => None,
    }
}

/// `fmt::Octal for NonZero<T>` / `Odd<T>` (through the local `Oct`), and the `Display` texts of the error enums
fn misc_op(op: &str, a: &[&str]) -> Option<String> {
    Some(match (op, a) {
        ("c16.nz.octal", [kind, v]) => match Option::<NonZero<Oct>>::from(NonZero::new(Oct(arg!(word(v))))) {
            None => "none".into(),
            Some(w) => bytes_tok(
                match *kind {
                    "o" => format!("{w:o}"),
                    "#o" => format!("{w:#o}"),
                    _ => return Some(BAD.into()),
                }
                .as_bytes(),
            ),
        },
        ("c16.odd.octal", [kind]) => {
            let w = Odd::<Oct>::default();
            bytes_tok(
                match *kind {
                    "o" => format!("{w:o}"),
                    "#o" => format!("{w:#o}"),
                    _ => return Some(BAD.into()),
                }
                .as_bytes(),
            )
        }
        ("c16.err.decode", [kind]) => {
            let e = match *kind {
                "Empty" => DecodeError::Empty,
                "InvalidDigit" => DecodeError::InvalidDigit,
                "InputSize" => DecodeError::InputSize,
                "Precision" => DecodeError::Precision,
                _ => return Some(BAD.into()),
            };
            bytes_tok(format!("{e}").as_bytes())
        }
        // the text of the error a boxed decoder actually returns
        ("c16.err.boxed_decode", [bp, b]) => match BoxedUint::from_be_slice(&arg!(bytes(b)), arg!(dec32(bp))) {
            Ok(_) => "ok".into(),
            Err(e) => bytes_tok(format!("{e}").as_bytes()),
        },
        ("c16.err.randbits", ["rand_core", t]) => bytes_tok(format!("{}", RandomBitsError::RandCore(Msg(arg!(text(t))))).as_bytes()),
        ("c16.err.randbits", ["mismatch", x, y]) => bytes_tok(
            format!("{}", RandomBitsError::<Msg>::BitsPrecisionMismatch { bits_precision: arg!(dec32(x)), integer_bits: arg!(dec32(y)) })
                .as_bytes(),
        ),
        ("c16.err.randbits", ["too_large", x, y]) => bytes_tok(
            format!("{}", RandomBitsError::<Msg>::BitLengthTooLarge { bit_length: arg!(dec32(x)), bits_precision: arg!(dec32(y)) })
                .as_bytes(),
        ),
        _ => return None,
    })
}

pub fn dispatch(op: &str, a: &[&str]) -> Option<String> {
    match (op, a) {
        _ if op.starts_with("c16.hook.") => hook_op(op, a),
        _ if op.starts_with("c16.err.") || op.ends_with(".octal") => misc_op(op, a),
        _ if op.starts_with("c16.cm.") && !a.is_empty() => match arg!(dec(a[0])) {
            1 => cm_ops::<C16M1, 1>(op, &a[1..]),
            2 => cm_ops::<C16M2, 2>(op, &a[1..]),
            4 => cm_ops::<C16M4, 4>(op, &a[1..]),
            _ => Some("unsupported-width".into()),
        },
        _ if op.starts_with("c16.nz.l.") || op.starts_with("c16.odd.l.") => limb_op(op, a),
        _ if op.starts_with("c16.nz.b.") || op.starts_with("c16.odd.b.") => boxed_op(op, a),
        ("c16.u.concat", [l, h, lo, hi]) => concat_dispatch(arg!(dec(l)), arg!(dec(h)), lo, hi),
        ("c16.u.split", [l, h, x]) => split_dispatch(arg!(dec(l)), arg!(dec(h)), x),
        ("c16.u.resize" | "c16.i.resize", [n, t, v]) => resize_dispatch(op, arg!(dec(n)), arg!(dec(t)), v),
        ("c16.u.to_u64", [v]) => Some(format!("{:x}", u64::from(arg!(uint::<1>(v))))),
        ("c16.u.to_u128", [v]) => Some(format!("{:x}", u128::from(arg!(uint::<2>(v))))),
        ("c16.i.to_i64", [v]) => {
            let x: I64 = arg!(int::<1>(v));
            Some(format!("{:x}", i64::from(x) as u64))
        }
        ("c16.i.to_i128", [v]) => {
            let x: I128 = arg!(int::<2>(v));
            Some(format!("{:x}", i128::from(x) as u128))
        }
        _ if op.starts_with("c16.l.") => limb_op(op, a),
        _ if op.starts_with("c16.b.") && op != "c16.b.from_uint" && op != "c16.b.from_odd" => boxed_op(op, a),
        _ if !a.is_empty() => {
            let n = arg!(dec(a[0]));
            let rest = &a[1..];
            with_n!(n, fixed, op, rest)
        }
        _ => None,
    }
}

// ---- the same entry points when the crate is built WITHOUT `--cfg crypto_bigint_verif` (fallback build of the runner when the
// hook forwarders of /repo no longer compile, e.g. after a refactor of an internal signature): hook operations answer
// `hook-unavailable` and are skipped by the runner; the public operations still run.
#[cfg(not(crypto_bigint_verif))]
fn hook_op(_op: &str, _a: &[&str]) -> Option<String> {
    Some(crate::util::HOOK_UNAVAILABLE.to_string())
}
