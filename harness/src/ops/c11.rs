//! C11 operations (op names start with `c11.`): probes that no other property's op set contains.
//!
//! * out-of-domain arguments of option/result-returning APIs (`inv_mod` with modulus 0 / mixed
//!   precision, `inv_mod2k(_vartime)` with `k > BITS`, `BoxedUint::from_be_hex` with a wrong length,
//!   `try_random_bits(_with_precision)` with extreme lengths, shifts by up to `u32::MAX`);
//! * zero-limb `BoxedUint` values (constructible through `From<&[Limb]>`, parsing the numeral `0`,
//!   `from_be_hex("", 0)`) pushed through the public methods;
//! * `BoxedUint` constructors with precision 0;
//! * `Int` extreme forms (`MIN`, `-1`).
//!
//! C11 compares only the panic class of a line, so results are printed as small summaries
//! (`ok`, `some`, `none`, `err:<Kind>`, a limb count) that are identical in both build profiles.
#![allow(deprecated)]
use crate::util::*;
use crypto_bigint::{
    BoxedUint, CheckedAdd, CheckedMul, CheckedSub, Gcd, Int, Integer, Limb, NonZero, Odd,
    RandomBits, RandomBitsError, Uint, Zero,
};
use rand_chacha::ChaCha8Rng;
use rand_core::SeedableRng;
use subtle::ConstantTimeEq;

fn opt<T>(o: Option<T>) -> String {
    match o {
        Some(_) => "some".into(),
        None => "none".into(),
    }
}

fn u_ops<const N: usize>(op: &str, a: &[&str]) -> Option<String> {
    Some(match (op, a) {
        ("c11.u.inv_mod", [x, m]) => {
            let x = arg!(uint::<N>(x));
            let m = arg!(uint::<N>(m));
            u_inv_mod(&x, &m)
        }
        ("c11.u.inv_mod2k", [x, k]) => {
            let x = arg!(uint::<N>(x));
            let k = arg!(dec32(k));
            opt(Option::<Uint<N>>::from(x.inv_mod2k(k)))
        }
        ("c11.u.inv_mod2k_vartime", [x, k]) => {
            let x = arg!(uint::<N>(x));
            let k = arg!(dec32(k));
            opt(Option::<Uint<N>>::from(x.inv_mod2k_vartime(k)))
        }
        // every non-panicking shift form, with any u32 shift
        ("c11.u.shift_all", [x, s]) => {
            let x = arg!(uint::<N>(x));
            let s = arg!(dec32(s));
            let mut n = 0u32;
            n += bool::from(x.overflowing_shl(s).is_some()) as u32;
            n += bool::from(x.overflowing_shr(s).is_some()) as u32;
            n += bool::from(x.overflowing_shl_vartime(s).is_some()) as u32;
            n += bool::from(x.overflowing_shr_vartime(s).is_some()) as u32;
            n += bool::from(x.wrapping_shl(s).is_zero()) as u32;
            n += bool::from(x.wrapping_shr(s).is_zero()) as u32;
            n += bool::from(x.wrapping_shl_vartime(s).is_zero()) as u32;
            n += bool::from(x.wrapping_shr_vartime(s).is_zero()) as u32;
            n += x.bit_vartime(s) as u32;
            n += bool::from(x.bit(s)) as u32;
            let i = x.as_int();
            n += bool::from(i.overflowing_shr(s).is_some()) as u32;
            n += bool::from(i.overflowing_shr_vartime(s).is_some()) as u32;
            n += bool::from(i.wrapping_shr(s).is_zero()) as u32;
            n += bool::from(i.wrapping_shr_vartime(s).is_zero()) as u32;
            n += bool::from(i.overflowing_shl(s).is_some()) as u32;
            n += bool::from(i.wrapping_shl(s).is_zero()) as u32;
            format!("ok:{n}")
        }
        // Int::MIN and -1 through every option-returning / wrapping form
        ("c11.i.extreme", [x, y]) => {
            let x = arg!(int::<N>(x));
            let y = arg!(int::<N>(y));
            let mut n = 0u32;
            n += bool::from(x.checked_neg().is_some()) as u32;
            n += bool::from(x.wrapping_neg().is_min()) as u32;
            n += bool::from(x.overflowing_neg().1) as u32;
            n += bool::from(x.abs().is_zero()) as u32;
            n += bool::from(CheckedAdd::checked_add(&x, &y).is_some()) as u32;
            n += bool::from(CheckedSub::checked_sub(&x, &y).is_some()) as u32;
            n += bool::from(CheckedMul::checked_mul(&x, &y).is_some()) as u32;
            n += bool::from(x.checked_div(&y).is_some()) as u32;
            n += bool::from(x.checked_div_floor(&y).is_some()) as u32;
            n += bool::from(x.checked_square().is_some()) as u32;
            n += bool::from(x.wrapping_add(&y).is_min()) as u32;
            n += bool::from(crypto_bigint::WrappingSub::wrapping_sub(&x, &y).is_min()) as u32;
            if let Some(nz) = Option::<NonZero<Int<N>>>::from(y.to_nz()) {
                let (q, r) = x.checked_div_rem(&nz);
                n += bool::from(q.is_some()) as u32 + bool::from(r.is_min()) as u32;
                let (q, r) = x.checked_div_rem_vartime(&nz);
                n += bool::from(q.is_some()) as u32 + bool::from(r.is_min()) as u32;
                let (q, r) = x.checked_div_rem_floor(&nz);
                n += bool::from(q.is_some()) as u32 + bool::from(r.is_min()) as u32;
                n += bool::from(x.rem(&nz).is_min()) as u32;
            }
            format!("ok:{n}")
        }
        // checked twins with values: div_rem_limb (shl_limb + div2by1 per limb), mul_mod_special (LIMBS >= 2)
        ("c11.u.div_rem_limb", [x, d]) => {
            let x = arg!(uint::<N>(x));
            let d = arg!(limb(d));
            let d = arg!(Option::<NonZero<Limb>>::from(NonZero::new(d)));
            let (q, r) = x.div_rem_limb(d);
            format!("{} {}", uhex(&q), lhex(r))
        }
        ("c11.u.mul_mod_special", [x, y, c]) => {
            let x = arg!(uint::<N>(x));
            let y = arg!(uint::<N>(y));
            let c = arg!(limb(c));
            uhex(&x.mul_mod_special(&y, c))
        }
        _ => return None,
    })
}

// `Uint::inv_mod` exists only for the widths that have a safegcd inverter
fn u_inv_mod<const N: usize>(x: &Uint<N>, m: &Uint<N>) -> String {
    macro_rules! at {
        ($n:expr) => {{
            let x: Uint<$n> = x.resize();
            let m: Uint<$n> = m.resize();
            opt(Option::<Uint<$n>>::from(x.inv_mod(&m)))
        }};
    }
    match N {
        1 => at!(1),
        2 => at!(2),
        3 => at!(3),
        4 => at!(4),
        6 => at!(6),
        8 => at!(8),
        _ => "unsupported-width".into(),
    }
}

/// a zero-limb `BoxedUint`, through the public constructors that produce one
fn zero_limb(ctor: &str) -> Option<BoxedUint> {
    Some(match ctor {
        "slice" => BoxedUint::from(&[][..] as &[Limb]),
        "parse0" => BoxedUint::from_str_radix_vartime("0", 10).ok()?,
        "parse000" => BoxedUint::from_str_radix_vartime("+0_00", 16).ok()?,
        "hex0" => Option::<BoxedUint>::from(BoxedUint::from_be_hex("", 0))?,
        _ => return None,
    })
}

fn b0(ctor: &str, method: &str) -> Option<String> {
    let z = arg!(zero_limb(ctor));
    if z.nlimbs() != 0 {
        // the constructor no longer yields a zero-limb value (e.g. after a repair): the methods run
        // on a regular zero and the line prints what it got
        return Some(format!("nlimbs:{}", z.nlimbs()));
    }
    let one = BoxedUint::one();
    let r: u64 = match method {
        "nlimbs" => z.nlimbs() as u64,
        "bits_precision" => z.bits_precision() as u64,
        "bits" => z.bits() as u64,
        "bits_vartime" => z.bits_vartime() as u64,
        "leading_zeros" => z.leading_zeros() as u64,
        "trailing_zeros" => z.trailing_zeros() as u64,
        "trailing_zeros_vartime" => z.trailing_zeros_vartime() as u64,
        "trailing_ones" => z.trailing_ones() as u64,
        "trailing_ones_vartime" => z.trailing_ones_vartime() as u64,
        "bit" => bool::from(z.bit(0)) as u64,
        "bit_vartime" => z.bit_vartime(0) as u64,
        "is_zero" => bool::from(z.is_zero()) as u64,
        "is_odd" => bool::from(z.is_odd()) as u64,
        "is_one" => bool::from(z.is_one()) as u64,
        "to_odd" => bool::from(z.to_odd().is_some()) as u64,
        "nz_new" => bool::from(NonZero::new(z.clone()).is_some()) as u64,
        "eq_zero" => (z == BoxedUint::zero()) as u64,
        "ct_eq_self" => bool::from(z.ct_eq(&z)) as u64,
        "cmp_one" => (z < one) as u64,
        "to_string_radix_10" => z.to_string_radix_vartime(10).len() as u64,
        "to_string_radix_16" => z.to_string_radix_vartime(16).len() as u64,
        "display" => format!("{z}").len() as u64,
        "lower_hex" => format!("{z:x}").len() as u64,
        "to_be_bytes" => z.to_be_bytes().len() as u64,
        "to_le_bytes" => z.to_le_bytes().len() as u64,
        "to_words" => z.to_words().len() as u64,
        "clone" => z.clone().nlimbs() as u64,
        "widen" => z.widen(64).nlimbs() as u64,
        "shorten" => z.shorten(0).nlimbs() as u64,
        "sqrt" => z.sqrt().nlimbs() as u64,
        "sqrt_vartime" => z.sqrt_vartime().nlimbs() as u64,
        "checked_sqrt" => bool::from(z.checked_sqrt().is_some()) as u64,
        "overflowing_shl" => bool::from(z.overflowing_shl(0).1) as u64,
        "overflowing_shr" => bool::from(z.overflowing_shr(0).1) as u64,
        "wrapping_shl" => z.wrapping_shl(1).nlimbs() as u64,
        "wrapping_shr" => z.wrapping_shr(1).nlimbs() as u64,
        "shl_vartime" => z.shl_vartime(0).is_some() as u64,
        "shr_vartime" => z.shr_vartime(0).is_some() as u64,
        "wrapping_shl_vartime" => z.wrapping_shl_vartime(1).nlimbs() as u64,
        "wrapping_shr_vartime" => z.wrapping_shr_vartime(1).nlimbs() as u64,
        "adc" => z.adc(&z, Limb::ZERO).1.0,
        "sbb" => z.sbb(&z, Limb::ZERO).1.0,
        "wrapping_add" => z.wrapping_add(&z).nlimbs() as u64,
        "wrapping_sub" => z.wrapping_sub(&z).nlimbs() as u64,
        "wrapping_neg" => z.wrapping_neg().nlimbs() as u64,
        "checked_add" => bool::from(z.checked_add(&z).is_some()) as u64,
        "checked_sub" => bool::from(z.checked_sub(&z).is_some()) as u64,
        "add_one" => z.checked_add(&one).is_some().unwrap_u8() as u64,
        "one_add" => one.checked_add(&z).is_some().unwrap_u8() as u64,
        "mul" => z.mul(&z).nlimbs() as u64,
        "mul_one" => z.mul(&one).nlimbs() as u64,
        "wrapping_mul" => z.wrapping_mul(&z).nlimbs() as u64,
        "checked_mul" => bool::from(z.checked_mul(&z).is_some()) as u64,
        "square" => z.square().nlimbs() as u64,
        "bitand" => z.bitand(&z).nlimbs() as u64,
        "bitor" => z.bitor(&z).nlimbs() as u64,
        "bitxor" => z.bitxor(&z).nlimbs() as u64,
        "not" => (!z.clone()).nlimbs() as u64,
        "checked_div_self" => bool::from(z.checked_div(&z).is_some()) as u64,
        "one_checked_div" => bool::from(one.checked_div(&z).is_some()) as u64,
        "gcd_self" => z.gcd(&z).nlimbs() as u64,
        "gcd_one" => one.gcd(&z).nlimbs() as u64,
        "inv_mod2k" => bool::from(z.inv_mod2k(0).1) as u64,
        "inv_mod2k_vartime" => bool::from(z.inv_mod2k_vartime(0).1) as u64,
        "add_mod" => z.add_mod(&z, &z).nlimbs() as u64,
        "sub_mod" => z.sub_mod(&z, &z).nlimbs() as u64,
        "neg_mod" => z.neg_mod(&z).nlimbs() as u64,
        "random_mod_rejects" => 0,
        _ => return None,
    };
    Some(format!("ok:{r}"))
}

fn rbe<E>(e: RandomBitsError<E>) -> String {
    match e {
        RandomBitsError::RandCore(_) => "err:RandCore".into(),
        RandomBitsError::BitsPrecisionMismatch { .. } => "err:BitsPrecisionMismatch".into(),
        RandomBitsError::BitLengthTooLarge { .. } => "err:BitLengthTooLarge".into(),
    }
}

pub fn dispatch(op: &str, a: &[&str]) -> Option<String> {
    if op.starts_with("c11.u.") || op.starts_with("c11.i.") {
        let (n, rest) = a.split_first()?;
        let n = arg!(dec(n));
        return with_n!(n, u_ops, op, rest);
    }
    Some(match (op, a) {
        ("c11.b0", [ctor, method]) => return b0(ctor, method),
        // BoxedUint::inv_mod (CtOption): zero modulus, mixed precision
        ("c11.b.inv_mod", [na, x, nm, m]) => {
            let x = arg!(boxed(x, arg!(dec(na))));
            let m = arg!(boxed(m, arg!(dec(nm))));
            opt(Option::<BoxedUint>::from(x.inv_mod(&m)))
        }
        ("c11.b.inv_mod2k", [na, x, k]) => {
            let x = arg!(boxed(x, arg!(dec(na))));
            bit(bool::from(x.inv_mod2k(arg!(dec32(k))).1))
        }
        ("c11.b.inv_mod2k_vartime", [na, x, k]) => {
            let x = arg!(boxed(x, arg!(dec(na))));
            bit(bool::from(x.inv_mod2k_vartime(arg!(dec32(k))).1))
        }
        // BoxedUint::from_be_hex (CtOption) with any text and precision
        ("c11.b.from_be_hex", [s, prec]) => {
            let s = arg!(bytes(s));
            let s = arg!(String::from_utf8(s).ok());
            opt(Option::<BoxedUint>::from(BoxedUint::from_be_hex(&s, arg!(dec32(prec)))))
        }
        // constructors with precision 0 -> limb count of the result
        ("c11.b.ctor0", [name]) => {
            let v = match *name {
                "zero_with_precision" => BoxedUint::zero_with_precision(0),
                "one_with_precision" => BoxedUint::one_with_precision(0),
                "max" => BoxedUint::max(0),
                "from_be_slice" => arg!(BoxedUint::from_be_slice(&[], 0).ok()),
                "from_le_slice" => arg!(BoxedUint::from_le_slice(&[], 0).ok()),
                "from_words" => BoxedUint::from_words(Vec::<u64>::new()),
                "from_vec" => BoxedUint::from(Vec::<Limb>::new()),
                "from_box" => BoxedUint::from(Vec::<Limb>::new().into_boxed_slice()),
                "radix_prec0" => match BoxedUint::from_str_radix_with_precision_vartime("0", 10, 0) {
                    Ok(v) => v,
                    Err(_) => return Some("err".into()),
                },
                "widen0" => BoxedUint::one().widen(0),
                "shorten0" => BoxedUint::zero().shorten(0),
                _ => return None,
            };
            format!("nlimbs:{}", v.nlimbs())
        }
        ("c11.b.try_random_bits", [bitlen, prec]) => {
            let mut rng = ChaCha8Rng::seed_from_u64(11);
            let bl = arg!(dec32(bitlen));
            let pr = arg!(dec32(prec));
            if pr as u64 > 1 << 20 && bl <= pr {
                return Some(BAD.into()); // would allocate: generator bug
            }
            match BoxedUint::try_random_bits_with_precision(&mut rng, bl, pr) {
                Ok(v) => format!("nlimbs:{}", v.nlimbs()),
                Err(e) => rbe(e),
            }
        }
        ("c11.b.odd_new0", [ctor]) => {
            let z = arg!(zero_limb(ctor));
            bit(bool::from(Odd::new(z).is_some()))
        }
        _ => return None,
    })
}
