//! C20 — integer square root (op names start with `c20.`)
//!   c20.u.<form> <limbs> <hex>   Uint<limbs>, limbs in {1,2,3,4,8,16} (+ the other `with_n!` widths)
//!   c20.b.<form> <limbs> <hex>   BoxedUint with <limbs> limbs (1..=20 generated; any count accepted)
//! forms: sqrt, sqrt_vartime, wrapping_sqrt, wrapping_sqrt_vartime, checked_sqrt,
//!        checked_sqrt_vartime, trait_sqrt, trait_sqrt_vartime (SquareRoot trait), rounds
//! `rounds` replays the Newton iteration with the crate's own public operations (shl, div, add, shr)
//! from the documented initial guess and reports the first index at which the crate's `sqrt` value is
//! reached, plus `log2_bits` (the fixed count of the ct form is `log2_bits + 2`).
use crate::util::*;
use crypto_bigint::{BitOps, BoxedUint, NonZero, SquareRoot, Uint};

const ROUNDS_CAP: u32 = 200;

fn fixed<const N: usize>(form: &str, x: &str) -> Option<String> {
    let x = arg!(uint::<N>(x));
    Some(match form {
        "sqrt" => uhex(&x.sqrt()),
        "sqrt_vartime" => uhex(&x.sqrt_vartime()),
        "wrapping_sqrt" => uhex(&x.wrapping_sqrt()),
        "wrapping_sqrt_vartime" => uhex(&x.wrapping_sqrt_vartime()),
        "checked_sqrt" => {
            let r: Option<Uint<N>> = x.checked_sqrt().into();
            r.map(|v| uhex(&v)).unwrap_or("none".into())
        }
        "checked_sqrt_vartime" => {
            let r: Option<Uint<N>> = x.checked_sqrt_vartime().into();
            r.map(|v| uhex(&v)).unwrap_or("none".into())
        }
        "trait_sqrt" => uhex(&<Uint<N> as SquareRoot>::sqrt(&x)),
        "trait_sqrt_vartime" => uhex(&<Uint<N> as SquareRoot>::sqrt_vartime(&x)),
        "rounds" => {
            let s = x.sqrt();
            let mut cur = Uint::<N>::ONE.shl((x.bits() + 1) >> 1);
            let mut j = 0u32;
            while cur != s && j < ROUNDS_CAP {
                let nz: Option<NonZero<Uint<N>>> = NonZero::new(cur).into();
                cur = match nz {
                    Some(nz) => cur.wrapping_add(&x.wrapping_div(&nz)).shr(1),
                    None => cur,
                };
                j += 1;
            }
            format!("{} {}", j, BitOps::log2_bits(&x))
        }
        _ => return None,
    })
}

fn boxed_form(form: &str, n: usize, x: &str) -> Option<String> {
    let x = arg!(boxed(x, n));
    Some(match form {
        "sqrt" => bhexlen(&x.sqrt()),
        "sqrt_vartime" => bhexlen(&x.sqrt_vartime()),
        "wrapping_sqrt" => bhexlen(&x.wrapping_sqrt()),
        "wrapping_sqrt_vartime" => bhexlen(&x.wrapping_sqrt_vartime()),
        "checked_sqrt" => {
            let r: Option<BoxedUint> = x.checked_sqrt().into();
            r.map(|v| bhexlen(&v)).unwrap_or("none".into())
        }
        "checked_sqrt_vartime" => {
            let r: Option<BoxedUint> = x.checked_sqrt_vartime().into();
            r.map(|v| bhexlen(&v)).unwrap_or("none".into())
        }
        "trait_sqrt" => bhexlen(&<BoxedUint as SquareRoot>::sqrt(&x)),
        "trait_sqrt_vartime" => bhexlen(&<BoxedUint as SquareRoot>::sqrt_vartime(&x)),
        "rounds" => {
            let s = x.sqrt();
            let mut cur = BoxedUint::one_with_precision(x.bits_precision()).shl((x.bits() + 1) >> 1);
            let mut j = 0u32;
            while cur != s && j < ROUNDS_CAP {
                let nz: Option<NonZero<BoxedUint>> = NonZero::new(cur.clone()).into();
                cur = match nz {
                    Some(nz) => cur.wrapping_add(&x.wrapping_div(&nz)).shr(1),
                    None => cur,
                };
                j += 1;
            }
            format!("{} {}", j, x.log2_bits())
        }
        _ => return None,
    })
}

pub fn dispatch(op: &str, a: &[&str]) -> Option<String> {
    let parts: Vec<&str> = op.split('.').collect();
    match (parts.as_slice(), a) {
        (["c20", "u", form], [n, x]) => {
            let n = arg!(dec(n));
            with_n!(n, fixed, form, x)
        }
        (["c20", "b", form], [n, x]) => {
            let n = arg!(dec(n));
            if n == 0 {
                return Some(BAD.to_string());
            }
            boxed_form(form, n, x)
        }
        _ if op.starts_with("c20.") => Some(BAD.to_string()),
        _ => None,
    }
}
