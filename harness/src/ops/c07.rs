//! C07 — modular add / sub / neg / double / mul / halve on `Uint<N>` and `BoxedUint`.
//!
//! Line format: `c07.u.<op> <nlimbs> <hex>…` (fixed) and `c07.b.<op> <nlimbs> <hex>…` (boxed).
//! Fixed results are printed as hex, boxed results as `<nlimbs>:<hex>`.
use crate::util::*;
use crypto_bigint::modular::{BoxedMontyForm, BoxedMontyParams, MontyForm, MontyParams};
#[cfg(crypto_bigint_verif)]
use crypto_bigint::verif_hooks as hooks;
use crypto_bigint::{AddMod, BoxedUint, MulMod, NegMod, NonZero, Odd, SubMod, Uint};

/// fixed widths of the property: 1,2,3,4,6,8,12,16 limbs
macro_rules! with_w {
    ($n:expr, $f:ident, $($args:expr),*) => {
        match $n {
            1 => $f::<1>($($args),*),
            2 => $f::<2>($($args),*),
            3 => $f::<3>($($args),*),
            4 => $f::<4>($($args),*),
            6 => $f::<6>($($args),*),
            8 => $f::<8>($($args),*),
            12 => $f::<12>($($args),*),
            16 => $f::<16>($($args),*),
            _ => Some("unsupported-width".to_string()),
        }
    };
}

fn fixed<const N: usize>(op: &str, a: &[&str]) -> Option<String> {
    Some(match (op, a) {
        ("c07.u.add_mod", [x, y, p]) => {
            uhex(&arg!(uint::<N>(x)).add_mod(&arg!(uint::<N>(y)), &arg!(uint::<N>(p))))
        }
        ("c07.u.add_mod_tr", [x, y, p]) => {
            uhex(&AddMod::add_mod(&arg!(uint::<N>(x)), &arg!(uint::<N>(y)), &arg!(uint::<N>(p))))
        }
        ("c07.u.double_mod", [x, p]) => uhex(&arg!(uint::<N>(x)).double_mod(&arg!(uint::<N>(p)))),
        ("c07.u.sub_mod", [x, y, p]) => {
            uhex(&arg!(uint::<N>(x)).sub_mod(&arg!(uint::<N>(y)), &arg!(uint::<N>(p))))
        }
        ("c07.u.sub_mod_tr", [x, y, p]) => {
            uhex(&SubMod::sub_mod(&arg!(uint::<N>(x)), &arg!(uint::<N>(y)), &arg!(uint::<N>(p))))
        }
        ("c07.u.neg_mod", [x, p]) => uhex(&arg!(uint::<N>(x)).neg_mod(&arg!(uint::<N>(p)))),
        ("c07.u.neg_mod_tr", [x, p]) => uhex(&NegMod::neg_mod(&arg!(uint::<N>(x)), &arg!(uint::<N>(p)))),
        ("c07.u.add_mod_special", [x, y, c]) => {
            uhex(&arg!(uint::<N>(x)).add_mod_special(&arg!(uint::<N>(y)), arg!(limb(c))))
        }
        ("c07.u.sub_mod_special", [x, y, c]) => {
            uhex(&arg!(uint::<N>(x)).sub_mod_special(&arg!(uint::<N>(y)), arg!(limb(c))))
        }
        ("c07.u.neg_mod_special", [x, c]) => uhex(&arg!(uint::<N>(x)).neg_mod_special(arg!(limb(c)))),
        ("c07.u.mul_mod_special", [x, y, c]) => {
            uhex(&arg!(uint::<N>(x)).mul_mod_special(&arg!(uint::<N>(y)), arg!(limb(c))))
        }
        ("c07.u.mul_mod_vartime", [x, y, p]) => {
            let p = arg!(Option::<NonZero<Uint<N>>>::from(NonZero::new(arg!(uint::<N>(p)))));
            uhex(&arg!(uint::<N>(x)).mul_mod_vartime(&arg!(uint::<N>(y)), &p))
        }
        ("c07.u.mul_mod_tr", [x, y, p]) => {
            uhex(&MulMod::mul_mod(&arg!(uint::<N>(x)), &arg!(uint::<N>(y)), &arg!(uint::<N>(p))))
        }
        ("c07.u.div_by_2", [x, p]) => {
            // `div_by_2` is crate-internal; `MontyForm::div_by_2` applies it to the raw
            // Montgomery representation, which `from_montgomery` / `as_montgomery` expose.
            let p = arg!(Option::<Odd<Uint<N>>>::from(Odd::new(arg!(uint::<N>(p)))));
            let params = MontyParams::new_vartime(p);
            let f = MontyForm::from_montgomery(arg!(uint::<N>(x)), params);
            uhex(f.div_by_2().as_montgomery())
        }
        _ => return None,
    })
}

/// `Uint::mul_mod` needs `Concat`, which exists only for particular widths.
macro_rules! mul_mod_at {
    ($n:literal, $w:literal, $a:expr) => {{
        let (x, y, p) = (arg!(uint::<$n>($a[0])), arg!(uint::<$n>($a[1])), arg!(uint::<$n>($a[2])));
        let p = arg!(Option::<NonZero<Uint<$n>>>::from(NonZero::new(p)));
        Some(uhex(&x.mul_mod::<$w>(&y, &p)))
    }};
}

fn mul_mod_fixed(n: usize, a: &[&str]) -> Option<String> {
    if a.len() != 3 {
        return Some(BAD.to_string());
    }
    match n {
        1 => mul_mod_at!(1, 2, a),
        2 => mul_mod_at!(2, 4, a),
        3 => mul_mod_at!(3, 6, a),
        4 => mul_mod_at!(4, 8, a),
        6 => mul_mod_at!(6, 12, a),
        8 => mul_mod_at!(8, 16, a),
        12 => mul_mod_at!(12, 24, a),
        16 => mul_mod_at!(16, 32, a),
        _ => Some("unsupported-width".to_string()),
    }
}

fn boxed_op(op: &str, n: usize, a: &[&str]) -> Option<String> {
    if n == 0 || n > 64 {
        return Some("unsupported-width".to_string());
    }
    let bx = |s: &str| boxed(s, n);
    Some(bhexlen(&match (op, a) {
        ("c07.b.add_mod", [x, y, p]) => arg!(bx(x)).add_mod(&arg!(bx(y)), &arg!(bx(p))),
        ("c07.b.add_mod_assign", [x, y, p]) => {
            let mut r = arg!(bx(x));
            r.add_mod_assign(&arg!(bx(y)), &arg!(bx(p)));
            r
        }
        ("c07.b.add_mod_tr", [x, y, p]) => AddMod::add_mod(&arg!(bx(x)), &arg!(bx(y)), &arg!(bx(p))),
        ("c07.b.double_mod", [x, p]) => arg!(bx(x)).double_mod(&arg!(bx(p))),
        ("c07.b.sub_mod", [x, y, p]) => arg!(bx(x)).sub_mod(&arg!(bx(y)), &arg!(bx(p))),
        ("c07.b.sub_mod_tr", [x, y, p]) => SubMod::sub_mod(&arg!(bx(x)), &arg!(bx(y)), &arg!(bx(p))),
        ("c07.b.neg_mod", [x, p]) => arg!(bx(x)).neg_mod(&arg!(bx(p))),
        ("c07.b.neg_mod_tr", [x, p]) => NegMod::neg_mod(&arg!(bx(x)), &arg!(bx(p))),
        ("c07.b.sub_mod_special", [x, y, c]) => arg!(bx(x)).sub_mod_special(&arg!(bx(y)), arg!(limb(c))),
        ("c07.b.neg_mod_special", [x, c]) => arg!(bx(x)).neg_mod_special(arg!(limb(c))),
        ("c07.b.mul_mod_special", [x, y, c]) => arg!(bx(x)).mul_mod_special(&arg!(bx(y)), arg!(limb(c))),
        ("c07.b.mul_mod", [x, y, p]) => arg!(bx(x)).mul_mod(&arg!(bx(y)), &arg!(bx(p))),
        ("c07.b.mul_mod_tr", [x, y, p]) => MulMod::mul_mod(&arg!(bx(x)), &arg!(bx(y)), &arg!(bx(p))),
        ("c07.b.div_by_2", [x, p]) => {
            let p = arg!(Option::<Odd<BoxedUint>>::from(Odd::new(arg!(bx(p)))));
            let f = BoxedMontyForm::from_montgomery(arg!(bx(x)), BoxedMontyParams::new_vartime(p));
            f.div_by_2().as_montgomery().clone()
        }
        ("c07.b.div_by_2_assign", [x, p]) => {
            let p = arg!(Option::<Odd<BoxedUint>>::from(Odd::new(arg!(bx(p)))));
            let mut f = BoxedMontyForm::from_montgomery(arg!(bx(x)), BoxedMontyParams::new_vartime(p));
            f.div_by_2_assign();
            f.as_montgomery().clone()
        }
        _ => return None,
    }))
}

// ---- hook ops: crate-internal functions reached through `crypto_bigint::verif_hooks`
//   c07.hook.sub_mod_with_carry n a carry b p      Uint::sub_mod_with_carry            -> hex
//   c07.hook.mac_by_limb n a b c carry             uint::mul_mod::mac_by_limb          -> hex carry
//   c07.hook.div_by_2 n a p                        modular::div_by_2::div_by_2 (p odd) -> hex
//   c07.hook.bsub_mod_with_carry / bmac_by_limb / bdiv_by_2 / bdiv_by_2_assign: the BoxedUint twins -> n:hex …
#[cfg(crypto_bigint_verif)]
fn hook_fixed<const N: usize>(op: &str, a: &[&str]) -> Option<String> {
    Some(match (op, a) {
        ("c07.hook.sub_mod_with_carry", [x, c, y, p]) => uhex(&hooks::uint_sub_mod_with_carry(
            &arg!(uint::<N>(x)),
            arg!(limb(c)),
            &arg!(uint::<N>(y)),
            &arg!(uint::<N>(p)),
        )),
        ("c07.hook.mac_by_limb", [x, y, c, carry]) => {
            let (r, k) =
                hooks::uint_mac_by_limb(&arg!(uint::<N>(x)), &arg!(uint::<N>(y)), arg!(limb(c)), arg!(limb(carry)));
            format!("{} {}", uhex(&r), lhex(k))
        }
        ("c07.hook.div_by_2", [x, p]) => {
            let p = arg!(Option::<Odd<Uint<N>>>::from(Odd::new(arg!(uint::<N>(p)))));
            uhex(&hooks::div_by_2(&arg!(uint::<N>(x)), &p))
        }
        _ => return None,
    })
}

#[cfg(crypto_bigint_verif)]
fn hook_boxed(op: &str, n: usize, a: &[&str]) -> Option<String> {
    if n == 0 || n > 64 {
        return Some("unsupported-width".to_string());
    }
    let bx = |s: &str| boxed(s, n);
    Some(match (op, a) {
        ("c07.hook.bsub_mod_with_carry", [x, c, y, p]) => {
            bhexlen(&hooks::boxed_sub_assign_mod_with_carry(&arg!(bx(x)), arg!(limb(c)), &arg!(bx(y)), &arg!(bx(p))))
        }
        ("c07.hook.bmac_by_limb", [x, y, c, carry]) => {
            let (r, k) = hooks::boxed_mac_by_limb(&arg!(bx(x)), &arg!(bx(y)), arg!(limb(c)), arg!(limb(carry)));
            format!("{} {}", bhexlen(&r), lhex(k))
        }
        ("c07.hook.bdiv_by_2", [x, p]) => {
            let p = arg!(Option::<Odd<BoxedUint>>::from(Odd::new(arg!(bx(p)))));
            bhexlen(&hooks::div_by_2_boxed(&arg!(bx(x)), &p))
        }
        ("c07.hook.bdiv_by_2_assign", [x, p]) => {
            let p = arg!(Option::<Odd<BoxedUint>>::from(Odd::new(arg!(bx(p)))));
            let mut r = arg!(bx(x));
            hooks::div_by_2_boxed_assign(&mut r, &p);
            bhexlen(&r)
        }
        _ => return None,
    })
}

pub fn dispatch(op: &str, a: &[&str]) -> Option<String> {
    if a.is_empty() {
        return None;
    }
    let n = arg!(dec(a[0]));
    let rest = &a[1..];
    if op.starts_with("c07.hook.b") {
        hook_boxed(op, n, rest)
    } else if op.starts_with("c07.hook.") {
        with_w!(n, hook_fixed, op, rest)
    } else if op == "c07.u.mul_mod" {
        mul_mod_fixed(n, rest)
    } else if op.starts_with("c07.u.") {
        with_w!(n, fixed, op, rest)
    } else if op.starts_with("c07.b.") {
        boxed_op(op, n, rest)
    } else {
        None
    }
}

// ---- the same entry points when the crate is built WITHOUT `--cfg crypto_bigint_verif` (fallback build of the runner when the
// hook forwarders of /repo no longer compile, e.g. after a refactor of an internal signature): hook operations answer
// `hook-unavailable` and are skipped by the runner; the public operations still run.
#[cfg(not(crypto_bigint_verif))]
fn hook_fixed<const N: usize>(_op: &str, _a: &[&str]) -> Option<String> {
    Some(crate::util::HOOK_UNAVAILABLE.to_string())
}
#[cfg(not(crypto_bigint_verif))]
fn hook_boxed(_op: &str, _n: usize, _a: &[&str]) -> Option<String> {
    Some(crate::util::HOOK_UNAVAILABLE.to_string())
}
