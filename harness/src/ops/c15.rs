//! C15 — all routes to the same operation give bit-identical results (op names start with `c15.`)
//!
//! One op line = one route FAMILY: every route (inherent method, trait method, operator by value /
//! by reference / assigning, `Wrapping` / `Checked`, constant-time and `_vartime` variant, `BoxedUint`
//! at the same precision, precomputed vs one-shot, `const` item vs run time) is executed on the same
//! input and printed, `r1 | r2 | …`.  Fixed results print as hex, boxed results as `<nlimbs>:<hex>`
//! (the precision of the result is part of the output).  A panic inside one route is that route's
//! result `panic`.  The model prints the same tuple (see lean/CB/Driver/C15.lean; route order there
//! follows the order here).
//!
//! `c15.<family> n args…`        fixed `Uint<n>` next to `BoxedUint` of `n` limbs
//! `c15.bm.<family> na a nb b`   boxed operands of two different precisions (documented result precision)
//! `c15.l.<family> …`            `Limb`
//! `c15.const.<family> k args…`  entry `k` of the compile-time table vs the same call at run time
use crate::util::*;
use core::cmp::Ordering;
use crypto_bigint::subtle::{
    Choice, ConditionallyNegatable, ConditionallySelectable, ConstantTimeEq, ConstantTimeGreater, ConstantTimeLess,
    CtOption,
};
use crypto_bigint::{
    ArrayEncoding, Encoding, Int, RandomMod,
    Gcd, InvMod, Inverter, Odd, PrecomputeInverter, U192, U384, U512, U1024,
    AddMod, BitOps, BoxedUint, Checked, CheckedAdd, CheckedDiv, CheckedMul, CheckedSub, ConstChoice, ConstCtOption,
    ConstantTimeSelect, DivRemLimb, DivVartime, Integer, Limb, MulMod, NegMod, NonZero, Reciprocal, RemLimb,
    ShlVartime, ShrVartime, SquareRoot, SubMod, U64, U128, U256, Uint, WideningMul, Wrapping, WrappingAdd, WrappingMul,
    WrappingNeg, WrappingShl, WrappingShr, WrappingSub, Zero,
};
use rand_core::{RngCore, TryRngCore};
use std::panic::{AssertUnwindSafe, catch_unwind};

/// evaluate one route; a panic inside it is the result `panic`
fn form<F: FnOnce() -> String>(f: F) -> String {
    catch_unwind(AssertUnwindSafe(f)).unwrap_or_else(|_| "panic".to_string())
}

macro_rules! routes {
    ($($e:expr),+ $(,)?) => { vec![$(form(|| $e)),+].join(" | ") };
}

fn ord(o: Ordering) -> String {
    match o {
        Ordering::Less => "lt".into(),
        Ordering::Equal => "eq".into(),
        Ordering::Greater => "gt".into(),
    }
}
fn optu<const N: usize>(o: CtOption<Uint<N>>) -> String {
    Option::<Uint<N>>::from(o).map(|v| uhex(&v)).unwrap_or("none".into())
}
fn optb(o: CtOption<BoxedUint>) -> String {
    Option::<BoxedUint>::from(o).map(|v| bhexlen(&v)).unwrap_or("none".into())
}
fn co<const N: usize>(o: ConstCtOption<Uint<N>>) -> String {
    Option::<Uint<N>>::from(o).map(|v| uhex(&v)).unwrap_or("none".into())
}
fn optl(o: CtOption<Limb>) -> String {
    Option::<Limb>::from(o).map(lhex).unwrap_or("none".into())
}
fn ovf(r: (BoxedUint, Choice)) -> String {
    if bool::from(r.1) { "none".into() } else { bhexlen(&r.0) }
}
fn nzu<const N: usize>(d: Uint<N>) -> Option<NonZero<Uint<N>>> {
    NonZero::new(d).into()
}
fn nzb(d: &BoxedUint) -> Option<NonZero<BoxedUint>> {
    NonZero::new(d.clone()).into()
}
fn nzl(d: Limb) -> Option<NonZero<Limb>> {
    NonZero::new(d).into()
}

// ------------------------------------------------------------------------------------------------
// fixed Uint<N> next to BoxedUint of N limbs
// ------------------------------------------------------------------------------------------------

fn fx<const N: usize>(op: &str, a: &[&str]) -> Option<String> {
    let u = |v: &Uint<N>| uhex(v);
    let b = |v: &BoxedUint| bhexlen(v);
    let bits = Uint::<N>::BITS;
    // operands: up to three values; every family parses what it needs
    let ux = |i: usize| a.get(i).and_then(|s| uint::<N>(s));
    let bxv = |i: usize| a.get(i).and_then(|s| boxed(s, N));
    Some(match (op, a.len()) {
        // ---------------------------------------------------------------- C04: add / sub / neg
        ("c15.add", 2) => {
            let (x, y, bx, by) = (arg!(ux(0)), arg!(ux(1)), arg!(bxv(0)), arg!(bxv(1)));
            routes![
                u(&x.wrapping_add(&y)),
                u(&WrappingAdd::wrapping_add(&x, &y)),
                u(&(Wrapping(x) + Wrapping(y)).0),
                u(&(Wrapping(x) + &Wrapping(y)).0),
                u(&(&Wrapping(x) + Wrapping(y)).0),
                u(&(&Wrapping(x) + &Wrapping(y)).0),
                { let mut w = Wrapping(x); w += Wrapping(y); u(&w.0) },
                { let mut w = Wrapping(x); w += &Wrapping(y); u(&w.0) },
                u(&x.adc(&y, Limb::ZERO).0),
                b(&bx.wrapping_add(&by)),
                b(&WrappingAdd::wrapping_add(&bx, &by)),
                b(&(Wrapping(bx.clone()) + Wrapping(by.clone())).0),
                b(&(&Wrapping(bx.clone()) + &Wrapping(by.clone())).0),
                { let mut w = Wrapping(bx.clone()); w += Wrapping(by.clone()); b(&w.0) },
                { let mut w = Wrapping(bx.clone()); w += &Wrapping(by.clone()); b(&w.0) },
                b(&bx.adc(&by, Limb::ZERO).0),
                { let mut t = bx.clone(); t.adc_assign(&by, Limb::ZERO); b(&t) },
            ]
        }
        ("c15.sub", 2) => {
            let (x, y, bx, by) = (arg!(ux(0)), arg!(ux(1)), arg!(bxv(0)), arg!(bxv(1)));
            routes![
                u(&x.wrapping_sub(&y)),
                u(&WrappingSub::wrapping_sub(&x, &y)),
                u(&(Wrapping(x) - Wrapping(y)).0),
                u(&(Wrapping(x) - &Wrapping(y)).0),
                u(&(&Wrapping(x) - Wrapping(y)).0),
                u(&(&Wrapping(x) - &Wrapping(y)).0),
                { let mut w = Wrapping(x); w -= Wrapping(y); u(&w.0) },
                { let mut w = Wrapping(x); w -= &Wrapping(y); u(&w.0) },
                u(&x.sbb(&y, Limb::ZERO).0),
                b(&bx.wrapping_sub(&by)),
                b(&WrappingSub::wrapping_sub(&bx, &by)),
                b(&(Wrapping(bx.clone()) - Wrapping(by.clone())).0),
                b(&(&Wrapping(bx.clone()) - &Wrapping(by.clone())).0),
                { let mut w = Wrapping(bx.clone()); w -= Wrapping(by.clone()); b(&w.0) },
                { let mut w = Wrapping(bx.clone()); w -= &Wrapping(by.clone()); b(&w.0) },
                b(&bx.sbb(&by, Limb::ZERO).0),
                { let mut t = bx.clone(); t.sbb_assign(&by, Limb::ZERO); b(&t) },
            ]
        }
        // checked forms print `none`, panicking operator forms print `panic`
        ("c15.cadd", 2) => {
            let (x, y, bx, by) = (arg!(ux(0)), arg!(ux(1)), arg!(bxv(0)), arg!(bxv(1)));
            let (cx, cy) = (Checked::new(x), Checked::new(y));
            routes![
                optu(CheckedAdd::checked_add(&x, &y)),
                optu((cx + cy).0),
                optu((cx + &cy).0),
                optu((&cx + cy).0),
                optu((&cx + &cy).0),
                { let mut w = cx; w += cy; optu(w.0) },
                { let mut w = cx; w += &cy; optu(w.0) },
                u(&(x + y)),
                u(&(x + &y)),
                { let mut t = x; t += y; u(&t) },
                { let mut t = x; t += &y; u(&t) },
                optb(CheckedAdd::checked_add(&bx, &by)),
                b(&(&bx + &by)),
                b(&(bx.clone() + by.clone())),
                b(&(bx.clone() + &by)),
                b(&(&bx + by.clone())),
                { let mut t = bx.clone(); t += &by; b(&t) },
                { let mut t = bx.clone(); t += by.clone(); b(&t) },
                b(&(&bx + y)),
                b(&(&bx + &y)),
                b(&(bx.clone() + y)),
                b(&(bx.clone() + &y)),
                { let mut t = bx.clone(); t += y; b(&t) },
                { let mut t = bx.clone(); t += &y; b(&t) },
            ]
        }
        ("c15.csub", 2) => {
            let (x, y, bx, by) = (arg!(ux(0)), arg!(ux(1)), arg!(bxv(0)), arg!(bxv(1)));
            let (cx, cy) = (Checked::new(x), Checked::new(y));
            routes![
                optu(CheckedSub::checked_sub(&x, &y)),
                optu((cx - cy).0),
                optu((cx - &cy).0),
                optu((&cx - cy).0),
                optu((&cx - &cy).0),
                { let mut w = cx; w -= cy; optu(w.0) },
                { let mut w = cx; w -= &cy; optu(w.0) },
                u(&(x - y)),
                u(&(x - &y)),
                { let mut t = x; t -= y; u(&t) },
                { let mut t = x; t -= &y; u(&t) },
                optb(CheckedSub::checked_sub(&bx, &by)),
                b(&(&bx - &by)),
                b(&(bx.clone() - by.clone())),
                b(&(bx.clone() - &by)),
                b(&(&bx - by.clone())),
                { let mut t = bx.clone(); t -= &by; b(&t) },
                { let mut t = bx.clone(); t -= by.clone(); b(&t) },
                b(&(&bx - y)),
                b(&(&bx - &y)),
                b(&(bx.clone() - y)),
                b(&(bx.clone() - &y)),
                { let mut t = bx.clone(); t -= y; b(&t) },
                { let mut t = bx.clone(); t -= &y; b(&t) },
            ]
        }
        ("c15.neg", 1) => {
            let (x, bx) = (arg!(ux(0)), arg!(bxv(0)));
            routes![
                u(&x.wrapping_neg()),
                u(&WrappingNeg::wrapping_neg(&x)),
                u(&(-Wrapping(x)).0),
                u(&(-&Wrapping(x)).0),
                u(&x.carrying_neg().0),
                u(&x.wrapping_neg_if(ConstChoice::TRUE)),
                u(&Uint::<N>::ZERO.wrapping_sub(&x)),
                b(&bx.wrapping_neg()),
                b(&WrappingNeg::wrapping_neg(&bx)),
                b(&(-Wrapping(bx.clone())).0),
                { let mut t = bx.clone(); t.conditional_negate(Choice::from(1)); b(&t) },
                b(&BoxedUint::zero_with_precision(bits).wrapping_sub(&bx)),
            ]
        }
        // ---------------------------------------------------------------- C05: shifts
        ("c15.shl", 2) => {
            let (x, bx, s) = (arg!(ux(0)), arg!(bxv(0)), arg!(dec32(a[1])));
            routes![
                u(&x.shl(s)),
                u(&x.shl_vartime(s)),
                u(&(x << s)),
                u(&(&x << s)),
                { let mut y = x; y <<= s; u(&y) },
                u(&(x << (s as i32))),
                u(&(&x << (s as usize))),
                { let mut y = x; y <<= s as usize; u(&y) },
                b(&bx.shl(s)),
                b(&(bx.clone() << s)),
                b(&(&bx << s)),
                { let mut y = bx.clone(); y <<= s; b(&y) },
                b(&(bx.clone() << (s as i32))),
                b(&(&bx << (s as usize))),
                { let mut y = bx.clone(); y.shl_assign(s); b(&y) },
            ]
        }
        ("c15.shr", 2) => {
            let (x, bx, s) = (arg!(ux(0)), arg!(bxv(0)), arg!(dec32(a[1])));
            routes![
                u(&x.shr(s)),
                u(&x.shr_vartime(s)),
                u(&(x >> s)),
                u(&(&x >> s)),
                { let mut y = x; y >>= s; u(&y) },
                u(&(x >> (s as i32))),
                u(&(&x >> (s as usize))),
                { let mut y = x; y >>= s as usize; u(&y) },
                b(&bx.shr(s)),
                b(&(bx.clone() >> s)),
                b(&(&bx >> s)),
                { let mut y = bx.clone(); y >>= s; b(&y) },
                b(&(bx.clone() >> (s as i32))),
                b(&(&bx >> (s as usize))),
                { let mut y = bx.clone(); y.shr_assign(s); b(&y) },
            ]
        }
        ("c15.oshl", 2) => {
            let (x, bx, s) = (arg!(ux(0)), arg!(bxv(0)), arg!(dec32(a[1])));
            routes![
                co(x.overflowing_shl(s)),
                co(x.overflowing_shl_vartime(s)),
                optu(ShlVartime::overflowing_shl_vartime(&x, s)),
                ovf(bx.overflowing_shl(s)),
                bx.shl_vartime(s).map(|v| b(&v)).unwrap_or("none".into()),
                optb(ShlVartime::overflowing_shl_vartime(&bx, s)),
            ]
        }
        ("c15.oshr", 2) => {
            let (x, bx, s) = (arg!(ux(0)), arg!(bxv(0)), arg!(dec32(a[1])));
            routes![
                co(x.overflowing_shr(s)),
                co(x.overflowing_shr_vartime(s)),
                optu(ShrVartime::overflowing_shr_vartime(&x, s)),
                ovf(bx.overflowing_shr(s)),
                bx.shr_vartime(s).map(|v| b(&v)).unwrap_or("none".into()),
                optb(ShrVartime::overflowing_shr_vartime(&bx, s)),
            ]
        }
        ("c15.wshl", 2) => {
            let (x, bx, s) = (arg!(ux(0)), arg!(bxv(0)), arg!(dec32(a[1])));
            routes![
                u(&x.wrapping_shl(s)),
                u(&x.wrapping_shl_vartime(s)),
                u(&WrappingShl::wrapping_shl(&x, s)),
                u(&ShlVartime::wrapping_shl_vartime(&x, s)),
                u(&(Wrapping(x) << s).0),
                u(&(&Wrapping(x) << s).0),
                b(&bx.wrapping_shl(s)),
                b(&bx.wrapping_shl_vartime(s)),
                b(&WrappingShl::wrapping_shl(&bx, s)),
                b(&ShlVartime::wrapping_shl_vartime(&bx, s)),
                b(&(Wrapping(bx.clone()) << s).0),
                b(&(&Wrapping(bx.clone()) << s).0),
            ]
        }
        ("c15.wshr", 2) => {
            let (x, bx, s) = (arg!(ux(0)), arg!(bxv(0)), arg!(dec32(a[1])));
            routes![
                u(&x.wrapping_shr(s)),
                u(&x.wrapping_shr_vartime(s)),
                u(&WrappingShr::wrapping_shr(&x, s)),
                u(&ShrVartime::wrapping_shr_vartime(&x, s)),
                u(&(Wrapping(x) >> s).0),
                u(&(&Wrapping(x) >> s).0),
                b(&bx.wrapping_shr(s)),
                b(&bx.wrapping_shr_vartime(s)),
                b(&WrappingShr::wrapping_shr(&bx, s)),
                b(&ShrVartime::wrapping_shr_vartime(&bx, s)),
                b(&(Wrapping(bx.clone()) >> s).0),
                b(&(&Wrapping(bx.clone()) >> s).0),
            ]
        }
        // ---------------------------------------------------------------- C05: bit queries
        ("c15.bits", 1) => {
            let (x, bx) = (arg!(ux(0)), arg!(bxv(0)));
            routes![
                x.bits().to_string(),
                x.bits_vartime().to_string(),
                BitOps::bits(&x).to_string(),
                BitOps::bits_vartime(&x).to_string(),
                bx.bits().to_string(),
                bx.bits_vartime().to_string(),
                BitOps::bits(&bx).to_string(),
                BitOps::bits_vartime(&bx).to_string(),
            ]
        }
        ("c15.lz", 1) => {
            let (x, bx) = (arg!(ux(0)), arg!(bxv(0)));
            routes![
                x.leading_zeros().to_string(),
                x.leading_zeros_vartime().to_string(),
                BitOps::leading_zeros(&x).to_string(),
                BitOps::leading_zeros_vartime(&x).to_string(),
                bx.leading_zeros().to_string(),
                BitOps::leading_zeros(&bx).to_string(),
                BitOps::leading_zeros_vartime(&bx).to_string(),
            ]
        }
        ("c15.tz", 1) => {
            let (x, bx) = (arg!(ux(0)), arg!(bxv(0)));
            routes![
                x.trailing_zeros().to_string(),
                x.trailing_zeros_vartime().to_string(),
                BitOps::trailing_zeros(&x).to_string(),
                BitOps::trailing_zeros_vartime(&x).to_string(),
                bx.trailing_zeros().to_string(),
                bx.trailing_zeros_vartime().to_string(),
                BitOps::trailing_zeros(&bx).to_string(),
                BitOps::trailing_zeros_vartime(&bx).to_string(),
            ]
        }
        ("c15.to", 1) => {
            let (x, bx) = (arg!(ux(0)), arg!(bxv(0)));
            routes![
                x.trailing_ones().to_string(),
                x.trailing_ones_vartime().to_string(),
                BitOps::trailing_ones(&x).to_string(),
                BitOps::trailing_ones_vartime(&x).to_string(),
                bx.trailing_ones().to_string(),
                bx.trailing_ones_vartime().to_string(),
                BitOps::trailing_ones(&bx).to_string(),
                BitOps::trailing_ones_vartime(&bx).to_string(),
            ]
        }
        ("c15.bit", 2) => {
            let (x, bx, i) = (arg!(ux(0)), arg!(bxv(0)), arg!(dec32(a[1])));
            routes![
                cchoice(x.bit(i)),
                bit(x.bit_vartime(i)),
                choice(BitOps::bit(&x, i)),
                bit(BitOps::bit_vartime(&x, i)),
                choice(bx.bit(i)),
                bit(bx.bit_vartime(i)),
                choice(BitOps::bit(&bx, i)),
                bit(BitOps::bit_vartime(&bx, i)),
            ]
        }
        ("c15.set_bit", 3) => {
            let (x, bx, i, v) = (arg!(ux(0)), arg!(bxv(0)), arg!(dec32(a[1])), arg!(tochoice(a[2])));
            let vb = bool::from(v);
            routes![
                { let mut y = x; BitOps::set_bit(&mut y, i, v); u(&y) },
                { let mut y = x; BitOps::set_bit_vartime(&mut y, i, vb); u(&y) },
                { let mut y = bx.clone(); BitOps::set_bit(&mut y, i, v); b(&y) },
                { let mut y = bx.clone(); BitOps::set_bit_vartime(&mut y, i, vb); b(&y) },
            ]
        }
        // ---------------------------------------------------------------- C05: bitwise operators
        ("c15.and", 2) => {
            let (x, y, bx, by) = (arg!(ux(0)), arg!(ux(1)), arg!(bxv(0)), arg!(bxv(1)));
            routes![
                u(&x.bitand(&y)), u(&(x & y)), u(&(x & &y)), u(&(&x & y)), u(&(&x & &y)),
                { let mut t = x; t &= y; u(&t) }, { let mut t = x; t &= &y; u(&t) },
                u(&x.wrapping_and(&y)), optu(x.checked_and(&y)),
                u(&(Wrapping(x) & Wrapping(y)).0), u(&(&Wrapping(x) & &Wrapping(y)).0),
                { let mut t = Wrapping(x); t &= Wrapping(y); u(&t.0) },
                b(&bx.bitand(&by)), b(&(bx.clone() & by.clone())), b(&(bx.clone() & &by)), b(&(&bx & by.clone())), b(&(&bx & &by)),
                { let mut t = bx.clone(); t &= by.clone(); b(&t) }, { let mut t = bx.clone(); t &= &by; b(&t) },
                b(&bx.wrapping_and(&by)), optb(bx.checked_and(&by)),
                b(&(Wrapping(bx.clone()) & Wrapping(by.clone())).0),
            ]
        }
        ("c15.or", 2) => {
            let (x, y, bx, by) = (arg!(ux(0)), arg!(ux(1)), arg!(bxv(0)), arg!(bxv(1)));
            routes![
                u(&x.bitor(&y)), u(&(x | y)), u(&(x | &y)), u(&(&x | y)), u(&(&x | &y)),
                { let mut t = x; t |= y; u(&t) }, { let mut t = x; t |= &y; u(&t) },
                u(&x.wrapping_or(&y)), optu(x.checked_or(&y)),
                u(&(Wrapping(x) | Wrapping(y)).0), u(&(&Wrapping(x) | &Wrapping(y)).0),
                { let mut t = Wrapping(x); t |= Wrapping(y); u(&t.0) },
                b(&bx.bitor(&by)), b(&(bx.clone() | by.clone())), b(&(bx.clone() | &by)), b(&(&bx | by.clone())), b(&(&bx | &by)),
                { let mut t = bx.clone(); t |= by.clone(); b(&t) }, { let mut t = bx.clone(); t |= &by; b(&t) },
                b(&bx.wrapping_or(&by)), optb(bx.checked_or(&by)),
                b(&(Wrapping(bx.clone()) | Wrapping(by.clone())).0),
            ]
        }
        ("c15.xor", 2) => {
            let (x, y, bx, by) = (arg!(ux(0)), arg!(ux(1)), arg!(bxv(0)), arg!(bxv(1)));
            routes![
                u(&x.bitxor(&y)), u(&(x ^ y)), u(&(x ^ &y)), u(&(&x ^ y)), u(&(&x ^ &y)),
                { let mut t = x; t ^= y; u(&t) }, { let mut t = x; t ^= &y; u(&t) },
                u(&x.wrapping_xor(&y)), optu(x.checked_xor(&y)),
                u(&(Wrapping(x) ^ Wrapping(y)).0), u(&(&Wrapping(x) ^ &Wrapping(y)).0),
                { let mut t = Wrapping(x); t ^= Wrapping(y); u(&t.0) },
                b(&bx.bitxor(&by)), b(&(bx.clone() ^ by.clone())), b(&(bx.clone() ^ &by)), b(&(&bx ^ by.clone())), b(&(&bx ^ &by)),
                { let mut t = bx.clone(); t ^= by.clone(); b(&t) }, { let mut t = bx.clone(); t ^= &by; b(&t) },
                b(&bx.wrapping_xor(&by)), optb(bx.checked_xor(&by)),
                b(&(Wrapping(bx.clone()) ^ Wrapping(by.clone())).0),
            ]
        }
        ("c15.not", 1) => {
            let (x, bx) = (arg!(ux(0)), arg!(bxv(0)));
            routes![
                u(&x.not()), u(&!x), u(&(!Wrapping(x)).0), u(&x.bitxor(&Uint::<N>::MAX)),
                b(&bx.not()), b(&!bx.clone()), b(&(!Wrapping(bx.clone())).0),
            ]
        }
        // ---------------------------------------------------------------- C06: comparison / selection
        ("c15.cmp", 2) => {
            let (x, y, bx, by) = (arg!(ux(0)), arg!(ux(1)), arg!(bxv(0)), arg!(bxv(1)));
            let from_ct = |lt: Choice, gt: Choice| -> String {
                if bool::from(lt) { "lt".into() } else if bool::from(gt) { "gt".into() } else { "eq".into() }
            };
            routes![
                ord(x.cmp(&y)),
                ord(x.partial_cmp(&y).unwrap()),
                ord(x.cmp_vartime(&y)),
                ord(y.cmp(&x).reverse()),
                from_ct(x.ct_lt(&y), x.ct_gt(&y)),
                ord(bx.cmp(&by)),
                ord(bx.partial_cmp(&by).unwrap()),
                ord(bx.cmp_vartime(&by)),
                from_ct(bx.ct_lt(&by), bx.ct_gt(&by)),
            ]
        }
        ("c15.eq", 2) => {
            let (x, y, bx, by) = (arg!(ux(0)), arg!(ux(1)), arg!(bxv(0)), arg!(bxv(1)));
            routes![
                choice(x.ct_eq(&y)), bit(x == y), bit(!(x != y)), choice(!x.ct_ne(&y)), bit(x.cmp_vartime(&y) == Ordering::Equal),
                choice(bx.ct_eq(&by)), bit(bx == by), choice(!bx.ct_ne(&by)),
            ]
        }
        ("c15.lt", 2) => {
            let (x, y, bx, by) = (arg!(ux(0)), arg!(ux(1)), arg!(bxv(0)), arg!(bxv(1)));
            routes![
                choice(x.ct_lt(&y)), bit(x < y), choice(y.ct_gt(&x)), bit(y > x), bit(x.cmp_vartime(&y) == Ordering::Less),
                choice(bx.ct_lt(&by)), bit(bx < by), choice(by.ct_gt(&bx)), bit(by > bx),
            ]
        }
        ("c15.is_zero", 1) => {
            let (x, bx) = (arg!(ux(0)), arg!(bxv(0)));
            routes![
                choice(Zero::is_zero(&x)), bit(x == Uint::<N>::ZERO), choice(x.ct_eq(&Uint::<N>::ZERO)),
                bit(x.bits_vartime() == 0),
                choice(Zero::is_zero(&bx)), bit(bx == BoxedUint::zero()), bit(bx.bits_vartime() == 0),
            ]
        }
        ("c15.is_odd", 1) => {
            let (x, bx) = (arg!(ux(0)), arg!(bxv(0)));
            routes![
                choice(x.is_odd()), choice(Integer::is_odd(&x)), choice(!Integer::is_even(&x)), bit(x.bit_vartime(0)),
                choice(bx.is_odd()), choice(Integer::is_odd(&bx)), choice(!Integer::is_even(&bx)), bit(bx.bit_vartime(0)),
            ]
        }
        ("c15.select", 3) => {
            let (x, y, bx, by, c) = (arg!(ux(0)), arg!(ux(1)), arg!(bxv(0)), arg!(bxv(1)), arg!(tochoice(a[2])));
            routes![
                u(&Uint::conditional_select(&x, &y, c)),
                u(&Uint::ct_select(&x, &y, c)),
                { let mut t = x; t.conditional_assign(&y, c); u(&t) },
                { let mut t = x; t.ct_assign(&y, c); u(&t) },
                { let (mut p, mut q) = (x, y); Uint::conditional_swap(&mut p, &mut q, c); u(&p) },
                { let (mut p, mut q) = (y, x); Uint::ct_swap(&mut p, &mut q, c); u(&q) },
                b(&BoxedUint::ct_select(&bx, &by, c)),
                { let mut t = bx.clone(); t.ct_assign(&by, c); b(&t) },
                { let (mut p, mut q) = (bx.clone(), by.clone()); BoxedUint::ct_swap(&mut p, &mut q, c); b(&p) },
            ]
        }
        // ---------------------------------------------------------------- C03: multiplication / squaring
        ("c15.wmul", 2) => {
            let (x, y, bx, by) = (arg!(ux(0)), arg!(ux(1)), arg!(bxv(0)), arg!(bxv(1)));
            routes![
                u(&x.wrapping_mul(&y)),
                u(&WrappingMul::wrapping_mul(&x, &y)),
                u(&(Wrapping(x) * Wrapping(y)).0),
                u(&(Wrapping(x) * &Wrapping(y)).0),
                u(&(&Wrapping(x) * Wrapping(y)).0),
                u(&(&Wrapping(x) * &Wrapping(y)).0),
                { let mut w = Wrapping(x); w *= Wrapping(y); u(&w.0) },
                { let mut w = Wrapping(x); w *= &Wrapping(y); u(&w.0) },
                u(&x.split_mul(&y).0),
                b(&bx.wrapping_mul(&by)),
                b(&WrappingMul::wrapping_mul(&bx, &by)),
                b(&(Wrapping(bx.clone()) * Wrapping(by.clone())).0),
                { let mut w = Wrapping(bx.clone()); w *= Wrapping(by.clone()); b(&w.0) },
                { let mut w = Wrapping(bx.clone()); w *= &Wrapping(by.clone()); b(&w.0) },
            ]
        }
        ("c15.cmul", 2) => {
            let (x, y, bx, by) = (arg!(ux(0)), arg!(ux(1)), arg!(bxv(0)), arg!(bxv(1)));
            let (cx, cy) = (Checked::new(x), Checked::new(y));
            routes![
                optu(CheckedMul::checked_mul(&x, &y)),
                optu((cx * cy).0),
                optu((cx * &cy).0),
                optu((&cx * cy).0),
                optu((&cx * &cy).0),
                { let mut w = cx; w *= cy; optu(w.0) },
                { let mut w = cx; w *= &cy; optu(w.0) },
                u(&(x * y)),
                u(&(x * &y)),
                u(&(&x * y)),
                u(&(&x * &y)),
                { let mut t = x; t *= y; u(&t) },
                { let mut t = x; t *= &y; u(&t) },
                optb(CheckedMul::checked_mul(&bx, &by)),
            ]
        }
        // the full product: (lo, hi) halves of the fixed forms next to the 2n-limb boxed product;
        // the boxed operator forms by value / `*=` / WideningMul are routes to `BoxedUint::mul`
        ("c15.mulwide", 2) => {
            let (x, y, bx, by) = (arg!(ux(0)), arg!(ux(1)), arg!(bxv(0)), arg!(bxv(1)));
            let lohi = |p: (Uint<N>, Uint<N>)| format!("{} {}", uhex(&p.0), uhex(&p.1));
            routes![
                lohi(x.split_mul(&y)),
                lohi(y.split_mul(&x)),
                b(&bx.mul(&by)),
                b(&by.mul(&bx)),
                b(&(bx.clone() * by.clone())),
                b(&(bx.clone() * &by)),
                b(&(&bx * by.clone())),
                b(&WideningMul::widening_mul(&bx, by.clone())),
                b(&WideningMul::widening_mul(&bx, &by)),
                { let mut w = bx.clone(); w *= by.clone(); b(&w) },
                { let mut w = bx.clone(); w *= &by; b(&w) },
                b(&(&bx * &by)),
            ]
        }
        ("c15.square", 1) => {
            let (x, bx) = (arg!(ux(0)), arg!(bxv(0)));
            let lohi = |p: (Uint<N>, Uint<N>)| format!("{} {}", uhex(&p.0), uhex(&p.1));
            routes![
                lohi(x.square_wide()),
                lohi(x.split_mul(&x)),
                b(&bx.square()),
                b(&bx.mul(&bx)),
            ]
        }
        ("c15.wsquare", 1) => {
            let (x, bx) = (arg!(ux(0)), arg!(bxv(0)));
            routes![
                u(&x.wrapping_square()),
                u(&x.wrapping_mul(&x)),
                u(&x.square_wide().0),
                co(x.checked_square()),
                optu(CheckedMul::checked_mul(&x, &x)),
                u(&x.saturating_square()),
                u(&x.saturating_mul(&x)),
                b(&bx.wrapping_mul(&bx)),
                optb(CheckedMul::checked_mul(&bx, &bx)),
            ]
        }
        // ---------------------------------------------------------------- C07: modular arithmetic (a, b < p)
        ("c15.add_mod", 3) => {
            let (x, y, p, bx, by, bp) = (arg!(ux(0)), arg!(ux(1)), arg!(ux(2)), arg!(bxv(0)), arg!(bxv(1)), arg!(bxv(2)));
            routes![
                u(&x.add_mod(&y, &p)),
                u(&AddMod::add_mod(&x, &y, &p)),
                b(&bx.add_mod(&by, &bp)),
                b(&AddMod::add_mod(&bx, &by, &bp)),
                { let mut t = bx.clone(); t.add_mod_assign(&by, &bp); b(&t) },
            ]
        }
        ("c15.sub_mod", 3) => {
            let (x, y, p, bx, by, bp) = (arg!(ux(0)), arg!(ux(1)), arg!(ux(2)), arg!(bxv(0)), arg!(bxv(1)), arg!(bxv(2)));
            routes![
                u(&x.sub_mod(&y, &p)),
                u(&SubMod::sub_mod(&x, &y, &p)),
                b(&bx.sub_mod(&by, &bp)),
                b(&SubMod::sub_mod(&bx, &by, &bp)),
            ]
        }
        ("c15.neg_mod", 2) => {
            let (x, p, bx, bp) = (arg!(ux(0)), arg!(ux(1)), arg!(bxv(0)), arg!(bxv(1)));
            routes![
                u(&x.neg_mod(&p)),
                u(&NegMod::neg_mod(&x, &p)),
                u(&Uint::<N>::ZERO.sub_mod(&x, &p)),
                b(&bx.neg_mod(&bp)),
                b(&NegMod::neg_mod(&bx, &bp)),
            ]
        }
        ("c15.double_mod", 2) => {
            let (x, p, bx, bp) = (arg!(ux(0)), arg!(ux(1)), arg!(bxv(0)), arg!(bxv(1)));
            routes![
                u(&x.double_mod(&p)),
                u(&x.add_mod(&x, &p)),
                b(&bx.double_mod(&bp)),
                b(&bx.add_mod(&bx, &bp)),
            ]
        }
        ("c15.mul_mod_special", 3) => {
            let (x, y, c, bx, by) = (arg!(ux(0)), arg!(ux(1)), arg!(limb(a[2])), arg!(bxv(0)), arg!(bxv(1)));
            routes![u(&x.mul_mod_special(&y, c)), b(&bx.mul_mod_special(&by, c))]
        }
        ("c15.sub_mod_special", 3) => {
            let (x, y, c, bx, by) = (arg!(ux(0)), arg!(ux(1)), arg!(limb(a[2])), arg!(bxv(0)), arg!(bxv(1)));
            routes![u(&x.sub_mod_special(&y, c)), b(&bx.sub_mod_special(&by, c))]
        }
        ("c15.neg_mod_special", 2) => {
            let (x, c, bx) = (arg!(ux(0)), arg!(limb(a[1])), arg!(bxv(0)));
            routes![u(&x.neg_mod_special(c)), b(&bx.neg_mod_special(c))]
        }

        // ---------------------------------------------------------------- C13 / C14: Int<N>
        ("c15.i.add", 2) => {
            let (x, y) = (arg!(a.first().and_then(|s| int::<N>(s))), arg!(a.get(1).and_then(|s| int::<N>(s))));
            let i = |v: &Int<N>| ihex(v);
            routes![
                i(&x.wrapping_add(&y)),
                i(&WrappingAdd::wrapping_add(&x, &y)),
                i(&(Wrapping(x) + Wrapping(y)).0),
                i(&(Wrapping(x) + &Wrapping(y)).0),
                i(&(&Wrapping(x) + Wrapping(y)).0),
                i(&(&Wrapping(x) + &Wrapping(y)).0),
                { let mut w = Wrapping(x); w += Wrapping(y); i(&w.0) },
                { let mut w = Wrapping(x); w += &Wrapping(y); i(&w.0) },
                i(&x.overflowing_add(&y).0),
            ]
        }
        ("c15.i.sub", 2) => {
            let (x, y) = (arg!(a.first().and_then(|s| int::<N>(s))), arg!(a.get(1).and_then(|s| int::<N>(s))));
            let i = |v: &Int<N>| ihex(v);
            routes![
                i(&WrappingSub::wrapping_sub(&x, &y)),
                i(&(Wrapping(x) - Wrapping(y)).0),
                i(&(Wrapping(x) - &Wrapping(y)).0),
                i(&(&Wrapping(x) - Wrapping(y)).0),
                i(&(&Wrapping(x) - &Wrapping(y)).0),
                { let mut w = Wrapping(x); w -= Wrapping(y); i(&w.0) },
                { let mut w = Wrapping(x); w -= &Wrapping(y); i(&w.0) },
            ]
        }
        ("c15.i.cadd", 2) => {
            let (x, y) = (arg!(a.first().and_then(|s| int::<N>(s))), arg!(a.get(1).and_then(|s| int::<N>(s))));
            let i = |v: &Int<N>| ihex(v);
            let oi = |o: Option<Int<N>>| o.map(|v| ihex(&v)).unwrap_or("none".into());
            let (cx, cy) = (Checked::new(x), Checked::new(y));
            routes![
                oi(x.checked_add(&y).into()),
                oi(CheckedAdd::checked_add(&x, &y).into()),
                oi((cx + cy).0.into()),
                oi((cx + &cy).0.into()),
                oi((&cx + cy).0.into()),
                oi((&cx + &cy).0.into()),
                { let mut w = cx; w += cy; oi(w.0.into()) },
                { let mut w = cx; w += &cy; oi(w.0.into()) },
                i(&(x + y)),
                i(&(x + &y)),
                { let mut t = x; t += y; i(&t) },
                { let mut t = x; t += &y; i(&t) },
            ]
        }
        ("c15.i.csub", 2) => {
            let (x, y) = (arg!(a.first().and_then(|s| int::<N>(s))), arg!(a.get(1).and_then(|s| int::<N>(s))));
            let i = |v: &Int<N>| ihex(v);
            let oi = |o: Option<Int<N>>| o.map(|v| ihex(&v)).unwrap_or("none".into());
            let (cx, cy) = (Checked::new(x), Checked::new(y));
            routes![
                oi(CheckedSub::checked_sub(&x, &y).into()),
                oi((cx - cy).0.into()),
                oi((cx - &cy).0.into()),
                oi((&cx - cy).0.into()),
                oi((&cx - &cy).0.into()),
                { let mut w = cx; w -= cy; oi(w.0.into()) },
                { let mut w = cx; w -= &cy; oi(w.0.into()) },
                i(&(x - y)),
                i(&(x - &y)),
            ]
        }
        ("c15.i.cmul", 2) => {
            let (x, y) = (arg!(a.first().and_then(|s| int::<N>(s))), arg!(a.get(1).and_then(|s| int::<N>(s))));
            let i = |v: &Int<N>| ihex(v);
            let oi = |o: Option<Int<N>>| o.map(|v| ihex(&v)).unwrap_or("none".into());
            let (cx, cy) = (Checked::new(x), Checked::new(y));
            routes![
                oi(CheckedMul::checked_mul(&x, &y).into()),
                oi((cx * cy).0.into()),
                oi((cx * &cy).0.into()),
                oi((&cx * cy).0.into()),
                oi((&cx * &cy).0.into()),
                { let mut w = cx; w *= cy; oi(w.0.into()) },
                { let mut w = cx; w *= &cy; oi(w.0.into()) },
                i(&(x * y)),
                i(&(x * &y)),
                i(&(&x * y)),
                i(&(&x * &y)),
            ]
        }
        ("c15.i.neg", 1) => {
            let x = arg!(a.first().and_then(|s| int::<N>(s)));
            let i = |v: &Int<N>| ihex(v);
            routes![
                i(&x.wrapping_neg()),
                i(&x.overflowing_neg().0),
                i(&x.wrapping_neg_if(ConstChoice::TRUE)),
                i(&Int::<N>::ZERO.wrapping_sub(&x)),
            ]
        }
        ("c15.i.cmp", 2) => {
            let (x, y) = (arg!(a.first().and_then(|s| int::<N>(s))), arg!(a.get(1).and_then(|s| int::<N>(s))));
            let from_ct = |lt: Choice, gt: Choice| -> String {
                if bool::from(lt) { "lt".into() } else if bool::from(gt) { "gt".into() } else { "eq".into() }
            };
            routes![
                ord(x.cmp(&y)),
                ord(x.partial_cmp(&y).unwrap()),
                ord(x.cmp_vartime(&y)),
                ord(y.cmp(&x).reverse()),
                from_ct(x.ct_lt(&y), x.ct_gt(&y)),
            ]
        }
        ("c15.i.shr", 2) => {
            let (x, s) = (arg!(a.first().and_then(|s| int::<N>(s))), arg!(dec32(a[1])));
            let i = |v: &Int<N>| ihex(v);
            routes![
                i(&x.shr(s)),
                i(&x.shr_vartime(s)),
                i(&(x >> s)),
                i(&(&x >> s)),
                { let mut y = x; y >>= s; i(&y) },
                i(&(x >> (s as i32))),
                i(&(&x >> (s as usize))),
            ]
        }
        ("c15.i.wshr", 2) => {
            let (x, s) = (arg!(a.first().and_then(|s| int::<N>(s))), arg!(dec32(a[1])));
            let i = |v: &Int<N>| ihex(v);
            routes![
                i(&x.wrapping_shr(s)),
                i(&x.wrapping_shr_vartime(s)),
                i(&WrappingShr::wrapping_shr(&x, s)),
                i(&ShrVartime::wrapping_shr_vartime(&x, s)),
            ]
        }
        // signed division, d != 0: quotient option and remainder
        ("c15.i.div", 2) => {
            let (x, y) = (arg!(a.first().and_then(|s| int::<N>(s))), arg!(a.get(1).and_then(|s| int::<N>(s))));
            let d: NonZero<Int<N>> = arg!(Option::from(y.to_nz()));
            let i = |v: &Int<N>| ihex(v);
            let oi = |o: Option<Int<N>>| o.map(|v| ihex(&v)).unwrap_or("none".into());
            let qr = |q: Option<Int<N>>, r: Int<N>| format!("{} {}", q.map(|v| ihex(&v)).unwrap_or("none".into()), ihex(&r));
            routes![
                { let (q, r) = x.checked_div_rem(&d); qr(q.into(), r) },
                { let (q, r) = x.checked_div_rem_vartime(&d); qr(q.into(), r) },
                qr(x.checked_div(&y).into(), x.rem(&d)),
                qr(x.checked_div_vartime(&y).into(), x.rem_vartime(&d)),
                qr(CheckedDiv::checked_div(&x, &y).into(), x % d),
                qr((x / d).into(), x % &d),
                qr((&x / &d).into(), &x % &d),
                qr((x / &d).into(), &x % d),
                qr((Checked::new(x) / Checked::new(y)).0.into(), { let mut t = x; t %= d; t }),
                i(&DivVartime::div_vartime(&x, &d)),
                { let mut t = x; t /= d; i(&t) },
                i(&(Wrapping(x) / d).0),
                oi(Option::<Int<N>>::from(x.checked_div(&y))),
            ]
        }
        // ---------------------------------------------------------------- C20: square root
        ("c15.sqrt", 1) => {
            let (x, bx) = (arg!(ux(0)), arg!(bxv(0)));
            routes![
                u(&x.sqrt()),
                u(&x.sqrt_vartime()),
                u(&x.wrapping_sqrt()),
                u(&x.wrapping_sqrt_vartime()),
                u(&<Uint<N> as SquareRoot>::sqrt(&x)),
                u(&<Uint<N> as SquareRoot>::sqrt_vartime(&x)),
                b(&bx.sqrt()),
                b(&bx.sqrt_vartime()),
                b(&bx.wrapping_sqrt()),
                b(&bx.wrapping_sqrt_vartime()),
                b(&<BoxedUint as SquareRoot>::sqrt(&bx)),
                b(&<BoxedUint as SquareRoot>::sqrt_vartime(&bx)),
            ]
        }
        ("c15.csqrt", 1) => {
            let (x, bx) = (arg!(ux(0)), arg!(bxv(0)));
            routes![
                optu(x.checked_sqrt()),
                optu(x.checked_sqrt_vartime()),
                optb(bx.checked_sqrt()),
                optb(bx.checked_sqrt_vartime()),
            ]
        }
        // ---------------------------------------------------------------- C02: division (d != 0)
        ("c15.div", 2) => {
            let (x, d, bx, bd) = (arg!(ux(0)), arg!(ux(1)), arg!(bxv(0)), arg!(bxv(1)));
            let (nz, bnz) = (arg!(nzu(d)), arg!(nzb(&bd)));
            let qr = |p: (Uint<N>, Uint<N>)| format!("{} {}", uhex(&p.0), uhex(&p.1));
            let bqr = |p: (BoxedUint, BoxedUint)| format!("{} {}", bhexlen(&p.0), bhexlen(&p.1));
            routes![
                qr(x.div_rem(&nz)),
                qr(x.div_rem_vartime(&nz)),
                qr((x.wrapping_div(&nz), x.rem(&nz))),
                qr((x.wrapping_div_vartime(&nz), x.rem_vartime(&nz))),
                qr((DivVartime::div_vartime(&x, &nz), x.wrapping_rem_vartime(&d))),
                qr((x / nz, x % nz)),
                qr((&x / &nz, &x % &nz)),
                qr((x / &nz, x % &nz)),
                qr((&x / nz, &x % nz)),
                qr((x / d, x % d)),
                qr((&x / d, &x % d)),
                { let (mut t, mut r) = (x, x); t /= nz; r %= nz; qr((t, r)) },
                { let (mut t, mut r) = (x, x); t /= &nz; r %= &nz; qr((t, r)) },
                qr(((Wrapping(x) / nz).0, (Wrapping(x) % nz).0)),
                qr(((&Wrapping(x) / &nz).0, (&Wrapping(x) % &nz).0)),
                { let (mut t, mut r) = (Wrapping(x), Wrapping(x)); t /= nz; r %= nz; qr((t.0, r.0)) },
                format!("{} {}", optu(x.checked_div(&d)), optu(x.checked_rem(&d))),
                format!("{} {}", optu(CheckedDiv::checked_div(&x, &d)), optu((Checked::new(x) / Checked::new(d)).0)),
                u(&Uint::<N>::rem_wide_vartime((x, Uint::ZERO), &nz)),
                bqr(bx.div_rem(&bnz)),
                bqr(bx.div_rem_vartime(&bnz)),
                bqr((bx.wrapping_div(&bnz), bx.rem(&bnz))),
                bqr((bx.wrapping_div_vartime(&bnz), bx.rem_vartime(&bnz))),
                bqr((DivVartime::div_vartime(&bx, &bnz), bx.rem_vartime(&bnz))),
                bqr((bx.clone() / bnz.clone(), bx.clone() % bnz.clone())),
                bqr((&bx / &bnz, &bx % &bnz)),
                bqr((bx.clone() / &bnz, bx.clone() % &bnz)),
                bqr((&bx / bnz.clone(), &bx % bnz.clone())),
                { let (mut t, mut r) = (bx.clone(), bx.clone()); t /= &bnz; r %= &bnz; bqr((t, r)) },
                { let (mut t, mut r) = (bx.clone(), bx.clone()); t /= bnz.clone(); r %= bnz.clone(); bqr((t, r)) },
                b(&(Wrapping(bx.clone()) / &bnz).0),
                optb(bx.checked_div(&bd)),
                optb(CheckedDiv::checked_div(&bx, &bd)),
            ]
        }
        ("c15.divlimb", 2) => {
            let (x, l, bx) = (arg!(ux(0)), arg!(limb(a[1])), arg!(bxv(0)));
            let nz = arg!(nzl(l));
            let rc = Reciprocal::new(nz);
            let qr = |p: (Uint<N>, Limb)| format!("{} {}", uhex(&p.0), lhex(p.1));
            let qu = |q: Uint<N>, r: Uint<N>| format!("{} {}", uhex(&q), uhex(&r));
            let bqr = |p: (BoxedUint, Limb)| format!("{} {}", bhexlen(&p.0), lhex(p.1));
            routes![
                qr(x.div_rem_limb(nz)),
                qr(x.div_rem_limb_with_reciprocal(&rc)),
                qr(DivRemLimb::div_rem_limb(&x, nz)),
                qr(DivRemLimb::div_rem_limb_with_reciprocal(&x, &rc)),
                qr((x / nz, x % nz)),
                qr((&x / &nz, &x % &nz)),
                qr((x / &nz, x % &nz)),
                qr((&x / nz, &x % nz)),
                qr(((Wrapping(x) / nz).0, (Wrapping(x) % nz).0)),
                qr(((&Wrapping(x) / &nz).0, (&Wrapping(x) % &nz).0)),
                qr((x.div_rem_limb(nz).0, x.rem_limb(nz))),
                qr((x.div_rem_limb(nz).0, x.rem_limb_with_reciprocal(&rc))),
                qr((x.div_rem_limb(nz).0, RemLimb::rem_limb(&x, nz))),
                qr((x.div_rem_limb(nz).0, RemLimb::rem_limb_with_reciprocal(&x, &rc))),
                { let (mut t, mut r) = (x, x); t /= nz; r %= nz; qu(t, r) },
                { let (mut t, mut r) = (x, x); t /= &nz; r %= &nz; qu(t, r) },
                { let (mut t, mut r) = (Wrapping(x), Wrapping(x)); t /= nz; r %= nz; qu(t.0, r.0) },
                bqr(bx.div_rem_limb(nz)),
                bqr(bx.div_rem_limb_with_reciprocal(&rc)),
                bqr(DivRemLimb::div_rem_limb(&bx, nz)),
                bqr(DivRemLimb::div_rem_limb_with_reciprocal(&bx, &rc)),
                bqr((bx.div_rem_limb(nz).0, bx.rem_limb(nz))),
                bqr((bx.div_rem_limb(nz).0, bx.rem_limb_with_reciprocal(&rc))),
                bqr((bx.div_rem_limb(nz).0, RemLimb::rem_limb(&bx, nz))),
                bqr((bx.div_rem_limb(nz).0, RemLimb::rem_limb_with_reciprocal(&bx, &rc))),
            ]
        }
        _ => return None,
    })
}

/// `mul_mod::<2N>` needs the wide limb count as a const argument
macro_rules! mul_mod_at {
    ($n:literal, $w:literal, $a:expr) => {{
        let a = $a;
        if a.len() != 3 { return Some(BAD.to_string()); }
        let (x, y, p) = (arg!(uint::<$n>(a[0])), arg!(uint::<$n>(a[1])), arg!(uint::<$n>(a[2])));
        let (bx, by, bp) = (arg!(boxed(a[0], $n)), arg!(boxed(a[1], $n)), arg!(boxed(a[2], $n)));
        let nz = arg!(nzu(p));
        let bnz = arg!(nzb(&bp));
        Some(routes![
            uhex(&x.mul_mod::<$w>(&y, &nz)),
            uhex(&x.mul_mod_vartime(&y, &nz)),
            uhex(&MulMod::mul_mod(&x, &y, &p)),
            uhex(&x.widening_mul(&y).rem_vartime(&nz.resize::<$w>().to_nz().unwrap()).resize::<$n>()),
            bhexlen(&bx.mul_mod(&by, &bp)),
            bhexlen(&MulMod::mul_mod(&bx, &by, &bp)),
            bhexlen(&bx.mul(&by).rem_vartime(&bnz)),
        ])
    }};
}

fn mul_mod(n: usize, a: &[&str]) -> Option<String> {
    match n {
        1 => mul_mod_at!(1, 2, a),
        2 => mul_mod_at!(2, 4, a),
        3 => mul_mod_at!(3, 6, a),
        4 => mul_mod_at!(4, 8, a),
        8 => mul_mod_at!(8, 16, a),
        16 => mul_mod_at!(16, 32, a),
        _ => Some("unsupported-width".to_string()),
    }
}

// ------------------------------------------------------------------------------------------------
// Limb
// ------------------------------------------------------------------------------------------------

fn limb_op(op: &str, a: &[&str]) -> Option<String> {
    Some(match (op, a) {
        ("c15.l.add", [x, y]) => {
            let (x, y) = (arg!(limb(x)), arg!(limb(y)));
            routes![
                lhex(x.wrapping_add(y)),
                lhex(WrappingAdd::wrapping_add(&x, &y)),
                lhex((Wrapping(x) + Wrapping(y)).0),
                lhex(x.adc(y, Limb::ZERO).0),
                lhex(x.overflowing_add(y).0),
                { let mut w = Wrapping(x); w += Wrapping(y); lhex(w.0) },
                uhex(&U64::from(x).wrapping_add(&U64::from(y))),
            ]
        }
        ("c15.l.sub", [x, y]) => {
            let (x, y) = (arg!(limb(x)), arg!(limb(y)));
            routes![
                lhex(x.wrapping_sub(y)),
                lhex(WrappingSub::wrapping_sub(&x, &y)),
                lhex((Wrapping(x) - Wrapping(y)).0),
                lhex(x.sbb(y, Limb::ZERO).0),
                { let mut w = Wrapping(x); w -= Wrapping(y); lhex(w.0) },
                uhex(&U64::from(x).wrapping_sub(&U64::from(y))),
            ]
        }
        ("c15.l.cadd", [x, y]) => {
            let (x, y) = (arg!(limb(x)), arg!(limb(y)));
            routes![
                optl(x.checked_add(&y)),
                optl((Checked::new(x) + Checked::new(y)).0),
                lhex(x + y),
                optu(CheckedAdd::checked_add(&U64::from(x), &U64::from(y))),
            ]
        }
        ("c15.l.csub", [x, y]) => {
            let (x, y) = (arg!(limb(x)), arg!(limb(y)));
            routes![
                optl(x.checked_sub(&y)),
                optl((Checked::new(x) - Checked::new(y)).0),
                lhex(x - y),
                lhex(x - &y),
                optu(CheckedSub::checked_sub(&U64::from(x), &U64::from(y))),
            ]
        }
        ("c15.l.mul", [x, y]) => {
            let (x, y) = (arg!(limb(x)), arg!(limb(y)));
            routes![
                lhex(x.wrapping_mul(y)),
                lhex(WrappingMul::wrapping_mul(&x, &y)),
                lhex((Wrapping(x) * Wrapping(y)).0),
                { let mut w = Wrapping(x); w *= Wrapping(y); lhex(w.0) },
                lhex(Limb::ZERO.mac(x, y, Limb::ZERO).0), // mac(self, b, c, carry) = self + b*c + carry
                uhex(&U64::from(x).wrapping_mul(&U64::from(y))),
            ]
        }
        ("c15.l.cmul", [x, y]) => {
            let (x, y) = (arg!(limb(x)), arg!(limb(y)));
            routes![
                optl(x.checked_mul(&y)),
                optl((Checked::new(x) * Checked::new(y)).0),
                lhex(x * y),
                lhex(&x * &y),
                optu(CheckedMul::checked_mul(&U64::from(x), &U64::from(y))),
            ]
        }
        ("c15.l.cmp", [x, y]) => {
            let (x, y) = (arg!(limb(x)), arg!(limb(y)));
            routes![
                ord(x.cmp(&y)),
                ord(x.partial_cmp(&y).unwrap()),
                ord(x.cmp_vartime(&y)),
                ord(U64::from(x).cmp(&U64::from(y))),
            ]
        }
        ("c15.l.bits", [x]) => {
            let x = arg!(limb(x));
            routes![
                x.bits().to_string(),
                (Limb::BITS - x.leading_zeros()).to_string(),
                U64::from(x).bits().to_string(),
                U64::from(x).bits_vartime().to_string(),
            ]
        }
        _ => return None,
    })
}

// ------------------------------------------------------------------------------------------------
// const context vs run time: a table of fixed inputs; every entry is evaluated by the compiler
// (`const` item) and again at run time through the same call; the op line names the entry and repeats
// its inputs so that the model can compute the expectation
// ------------------------------------------------------------------------------------------------

const CA: [U256; 6] = [
    U256::ZERO,
    U256::ONE,
    U256::MAX,
    U256::from_be_hex("8000000000000000000000000000000000000000000000000000000000000000"),
    U256::from_be_hex("ffffffff00000001000000000000000000000000ffffffffffffffffffffffff"),
    U256::from_be_hex("0123456789abcdeffedcba9876543210f0e1d2c3b4a5968778695a4b3c2d1e0f"),
];
const CB_: [U256; 6] = [
    U256::ONE,
    U256::MAX,
    U256::MAX,
    U256::from_be_hex("8000000000000000000000000000000000000000000000000000000000000001"),
    U256::from_be_hex("00000000ffffffffffffffffffffffffffffffffffffffff0000000000000003"),
    U256::from_be_hex("00000000000000000000000000000000ffffffffffffffffffffffffffffff61"),
];
const CS: [u32; 6] = [0, 1, 63, 64, 129, 255];

const fn nz256(x: U256) -> NonZero<U256> {
    // const context: NonZero::new is not const for Uint; `to_nz` is
    x.to_nz().expect("non-zero table entry")
}

const K_ADD: [U256; 6] = { let mut o = [U256::ZERO; 6]; let mut i = 0; while i < 6 { o[i] = CA[i].wrapping_add(&CB_[i]); i += 1; } o };
const K_SUB: [U256; 6] = { let mut o = [U256::ZERO; 6]; let mut i = 0; while i < 6 { o[i] = CA[i].wrapping_sub(&CB_[i]); i += 1; } o };
const K_MUL: [U256; 6] = { let mut o = [U256::ZERO; 6]; let mut i = 0; while i < 6 { o[i] = CA[i].wrapping_mul(&CB_[i]); i += 1; } o };
const K_MULHI: [U256; 6] = { let mut o = [U256::ZERO; 6]; let mut i = 0; while i < 6 { o[i] = CA[i].split_mul(&CB_[i]).1; i += 1; } o };
const K_NEG: [U256; 6] = { let mut o = [U256::ZERO; 6]; let mut i = 0; while i < 6 { o[i] = CA[i].wrapping_neg(); i += 1; } o };
const K_SHL: [U256; 6] = { let mut o = [U256::ZERO; 6]; let mut i = 0; while i < 6 { o[i] = CA[i].shl(CS[i]); i += 1; } o };
const K_SHLV: [U256; 6] = { let mut o = [U256::ZERO; 6]; let mut i = 0; while i < 6 { o[i] = CA[i].shl_vartime(CS[i]); i += 1; } o };
const K_SHR: [U256; 6] = { let mut o = [U256::ZERO; 6]; let mut i = 0; while i < 6 { o[i] = CA[i].shr(CS[i]); i += 1; } o };
const K_SHRV: [U256; 6] = { let mut o = [U256::ZERO; 6]; let mut i = 0; while i < 6 { o[i] = CA[i].shr_vartime(CS[i]); i += 1; } o };
const K_BITS: [u32; 6] = { let mut o = [0u32; 6]; let mut i = 0; while i < 6 { o[i] = CA[i].bits(); i += 1; } o };
const K_BITSV: [u32; 6] = { let mut o = [0u32; 6]; let mut i = 0; while i < 6 { o[i] = CA[i].bits_vartime(); i += 1; } o };
const K_TZ: [u32; 6] = { let mut o = [0u32; 6]; let mut i = 0; while i < 6 { o[i] = CA[i].trailing_zeros(); i += 1; } o };
const K_SQRT: [U256; 6] = { let mut o = [U256::ZERO; 6]; let mut i = 0; while i < 6 { o[i] = CA[i].sqrt(); i += 1; } o };
const K_SQRTV: [U256; 6] = { let mut o = [U256::ZERO; 6]; let mut i = 0; while i < 6 { o[i] = CA[i].sqrt_vartime(); i += 1; } o };
const K_DIV: [(U256, U256); 6] = { let mut o = [(U256::ZERO, U256::ZERO); 6]; let mut i = 0; while i < 6 { o[i] = CA[i].div_rem(&nz256(CB_[i])); i += 1; } o };
const K_DIVV: [(U256, U256); 6] = { let mut o = [(U256::ZERO, U256::ZERO); 6]; let mut i = 0; while i < 6 { o[i] = CA[i].div_rem_vartime(&nz256(CB_[i])); i += 1; } o };
const K_CMP: [i8; 6] = { let mut o = [0i8; 6]; let mut i = 0; while i < 6 { o[i] = match CA[i].cmp_vartime(&CB_[i]) { Ordering::Less => -1, Ordering::Equal => 0, Ordering::Greater => 1 }; i += 1; } o };
const K_HEX: U256 = U256::from_be_hex("0123456789abcdeffedcba9876543210f0e1d2c3b4a5968778695a4b3c2d1e0f");
const K_U128: U128 = U128::from_u128(0x0123456789abcdef_fedcba9876543210);
const K_WORDS: U256 = U256::from_words([1, 2, 3, 0x8000000000000000]);

fn const_op(op: &str, a: &[&str]) -> Option<String> {
    let k = arg!(a.first().and_then(|s| dec(s)));
    if k >= 6 {
        return Some(BAD.into());
    }
    // the inputs repeated on the line must be the table's inputs
    let same = |i: usize, v: &U256| a.get(i).and_then(|s| uint::<4>(s)).map(|x| x == *v).unwrap_or(false);
    let (x, y, s) = (CA[k], CB_[k], CS[k]);
    let two = same(1, &x) && same(2, &y) && a.len() == 3;
    let one = same(1, &x) && a.len() == 2;
    let shift = same(1, &x) && a.len() == 3 && a[2].parse::<u32>().ok() == Some(s);
    let ordi = |o: Ordering| match o { Ordering::Less => -1i8, Ordering::Equal => 0, Ordering::Greater => 1 };
    let qr = |p: (U256, U256)| format!("{} {}", uhex(&p.0), uhex(&p.1));
    Some(match op {
        "c15.const.add" if two => routes![uhex(&K_ADD[k]), uhex(&x.wrapping_add(&y))],
        "c15.const.sub" if two => routes![uhex(&K_SUB[k]), uhex(&x.wrapping_sub(&y))],
        "c15.const.mul" if two => routes![
            format!("{} {}", uhex(&K_MUL[k]), uhex(&K_MULHI[k])),
            format!("{} {}", uhex(&x.wrapping_mul(&y)), uhex(&x.split_mul(&y).1))
        ],
        "c15.const.neg" if one => routes![uhex(&K_NEG[k]), uhex(&x.wrapping_neg())],
        "c15.const.shl" if shift => routes![uhex(&K_SHL[k]), uhex(&K_SHLV[k]), uhex(&x.shl(s)), uhex(&x.shl_vartime(s))],
        "c15.const.shr" if shift => routes![uhex(&K_SHR[k]), uhex(&K_SHRV[k]), uhex(&x.shr(s)), uhex(&x.shr_vartime(s))],
        "c15.const.bits" if one => routes![
            K_BITS[k].to_string(), K_BITSV[k].to_string(), x.bits().to_string(), x.bits_vartime().to_string()
        ],
        "c15.const.tz" if one => routes![K_TZ[k].to_string(), x.trailing_zeros().to_string()],
        "c15.const.sqrt" if one => routes![uhex(&K_SQRT[k]), uhex(&K_SQRTV[k]), uhex(&x.sqrt()), uhex(&x.sqrt_vartime())],
        "c15.const.div" if two => routes![
            qr(K_DIV[k]), qr(K_DIVV[k]), qr(x.div_rem(&nz256(y))), qr(x.div_rem_vartime(&nz256(y)))
        ],
        "c15.const.cmp" if two => routes![K_CMP[k].to_string(), ordi(x.cmp_vartime(&y)).to_string(), ordi(x.cmp(&y)).to_string()],
        _ => return Some(BAD.into()),
    })
}

fn const_conv(op: &str, a: &[&str]) -> Option<String> {
    Some(match (op, a) {
        // `from_be_hex` in a const item vs at run time vs the byte decoder
        ("c15.const.hex", [h]) => {
            let bytes_ = arg!(bytes(h));
            let s = arg!(std::str::from_utf8(&bytes_).ok());
            if s != "0123456789abcdeffedcba9876543210f0e1d2c3b4a5968778695a4b3c2d1e0f" {
                return Some(BAD.into());
            }
            let raw: Vec<u8> = (0..32).map(|i| u8::from_str_radix(&s[2 * i..2 * i + 2], 16).unwrap()).collect();
            routes![uhex(&K_HEX), uhex(&U256::from_be_hex(s)), uhex(&U256::from_be_slice(&raw)), uhex(&CA[5])]
        }
        ("c15.const.u128", [v]) => {
            let x = arg!(uint::<2>(v));
            if x != K_U128 {
                return Some(BAD.into());
            }
            let w = x.as_words();
            let p = (w[0] as u128) | ((w[1] as u128) << 64);
            routes![uhex(&K_U128), uhex(&U128::from_u128(p)), uhex(&U128::from(p)), uhex(&U128::from_words([w[0], w[1]]))]
        }
        ("c15.const.words", [v]) => {
            let x = arg!(uint::<4>(v));
            if x != K_WORDS {
                return Some(BAD.into());
            }
            let w = *x.as_words();
            routes![uhex(&K_WORDS), uhex(&U256::from_words(w)), uhex(&U256::new(w.map(Limb)))]
        }
        _ => return None,
    })
}


// ------------------------------------------------------------------------------------------------
// BoxedUint operands of two different precisions: the result precision is part of the output
// (documented: add / sub / bit operators "widened to the same width as the widest input", `mul` "a limb
// count equal to the sums of the input limb counts", `wrapping_mul` "the width of self")
// ------------------------------------------------------------------------------------------------

fn bm(op: &str, a: &[&str]) -> Option<String> {
    let [na, x, nb, y] = a else { return Some(BAD.into()) };
    let (bx, by) = (arg!(boxed(x, arg!(dec(na)))), arg!(boxed(y, arg!(dec(nb)))));
    let b = |v: &BoxedUint| bhexlen(v);
    Some(match op {
        "c15.bm.add" => routes![
            b(&bx.wrapping_add(&by)),
            b(&WrappingAdd::wrapping_add(&bx, &by)),
            b(&bx.adc(&by, Limb::ZERO).0),
            b(&(Wrapping(bx.clone()) + Wrapping(by.clone())).0),
            b(&by.wrapping_add(&bx)),
            optb(CheckedAdd::checked_add(&bx, &by)),
            b(&(&bx + &by)),
            b(&(bx.clone() + by.clone())),
            b(&(bx.clone() + &by)),
            b(&(&bx + by.clone())),
        ],
        "c15.bm.sub" => routes![
            b(&bx.wrapping_sub(&by)),
            b(&WrappingSub::wrapping_sub(&bx, &by)),
            b(&bx.sbb(&by, Limb::ZERO).0),
            b(&(Wrapping(bx.clone()) - Wrapping(by.clone())).0),
            optb(CheckedSub::checked_sub(&bx, &by)),
            b(&(&bx - &by)),
            b(&(bx.clone() - by.clone())),
            b(&(bx.clone() - &by)),
            b(&(&bx - by.clone())),
        ],
        "c15.bm.and" => routes![
            b(&bx.bitand(&by)), b(&(bx.clone() & by.clone())), b(&(bx.clone() & &by)), b(&(&bx & by.clone())), b(&(&bx & &by)),
            { let mut t = bx.clone(); t &= by.clone(); b(&t) }, { let mut t = bx.clone(); t &= &by; b(&t) },
            b(&bx.wrapping_and(&by)), optb(bx.checked_and(&by)), b(&by.bitand(&bx)),
        ],
        "c15.bm.or" => routes![
            b(&bx.bitor(&by)), b(&(bx.clone() | by.clone())), b(&(bx.clone() | &by)), b(&(&bx | by.clone())), b(&(&bx | &by)),
            { let mut t = bx.clone(); t |= by.clone(); b(&t) }, { let mut t = bx.clone(); t |= &by; b(&t) },
            b(&bx.wrapping_or(&by)), optb(bx.checked_or(&by)), b(&by.bitor(&bx)),
        ],
        "c15.bm.xor" => routes![
            b(&bx.bitxor(&by)), b(&(bx.clone() ^ by.clone())), b(&(bx.clone() ^ &by)), b(&(&bx ^ by.clone())), b(&(&bx ^ &by)),
            { let mut t = bx.clone(); t ^= by.clone(); b(&t) }, { let mut t = bx.clone(); t ^= &by; b(&t) },
            b(&bx.wrapping_xor(&by)), optb(bx.checked_xor(&by)), b(&by.bitxor(&bx)),
        ],
        "c15.bm.cmp" => {
            let from_ct = |lt: Choice, gt: Choice| -> String {
                if bool::from(lt) { "lt".into() } else if bool::from(gt) { "gt".into() } else { "eq".into() }
            };
            routes![
                ord(bx.cmp(&by)),
                ord(bx.partial_cmp(&by).unwrap()),
                ord(by.cmp(&bx).reverse()),
                from_ct(bx.ct_lt(&by), bx.ct_gt(&by)),
                if bx == by { "eq".into() } else if bx < by { "lt".into() } else { "gt".to_string() },
                if bool::from(bx.ct_eq(&by)) { "eq".into() } else if bool::from(by.ct_gt(&bx)) { "lt".into() } else { "gt".to_string() },
            ]
        }
        "c15.bm.mul" => routes![
            b(&bx.mul(&by)),
            b(&by.mul(&bx)),
            b(&(bx.clone() * by.clone())),
            b(&(bx.clone() * &by)),
            b(&(&bx * by.clone())),
            b(&WideningMul::widening_mul(&bx, by.clone())),
            b(&WideningMul::widening_mul(&bx, &by)),
            { let mut w = bx.clone(); w *= by.clone(); b(&w) },
            { let mut w = bx.clone(); w *= &by; b(&w) },
            b(&bx.wrapping_mul(&by)),
            b(&WrappingMul::wrapping_mul(&bx, &by)),
            optb(CheckedMul::checked_mul(&bx, &by)),
            b(&(&bx * &by)),
        ],
        "c15.bm.gcd" => routes![
            b(&Gcd::gcd(&bx, &by)),
            b(&Gcd::gcd_vartime(&bx, &by)),
            b(&Gcd::gcd(&by, &bx)),
            b(&Gcd::gcd_vartime(&by, &bx)),
        ],
        _ => return None,
    })
}


// ------------------------------------------------------------------------------------------------
// byte-stream RNG fixtures (as in ops/c19.rs): every sampler sees the same bytes, consumption is printed
// ------------------------------------------------------------------------------------------------

#[derive(Debug)]
pub struct Exhausted;
impl core::fmt::Display for Exhausted {
    fn fmt(&self, f: &mut core::fmt::Formatter<'_>) -> core::fmt::Result {
        write!(f, "stream exhausted")
    }
}
struct Stream {
    buf: Vec<u8>,
    pos: usize,
    exhausted: bool,
}
impl Stream {
    fn take(&mut self, dst: &mut [u8]) -> Result<(), Exhausted> {
        if self.buf.len() - self.pos < dst.len() {
            self.exhausted = true;
            return Err(Exhausted);
        }
        dst.copy_from_slice(&self.buf[self.pos..self.pos + dst.len()]);
        self.pos += dst.len();
        Ok(())
    }
}
struct TryStream(Stream);
impl TryRngCore for TryStream {
    type Error = Exhausted;
    fn try_next_u32(&mut self) -> Result<u32, Exhausted> {
        let mut b = [0u8; 4];
        self.0.take(&mut b)?;
        Ok(u32::from_le_bytes(b))
    }
    fn try_next_u64(&mut self) -> Result<u64, Exhausted> {
        let mut b = [0u8; 8];
        self.0.take(&mut b)?;
        Ok(u64::from_le_bytes(b))
    }
    fn try_fill_bytes(&mut self, dst: &mut [u8]) -> Result<(), Exhausted> {
        self.0.take(dst)
    }
}
struct PanicStream(Stream);
impl RngCore for PanicStream {
    fn next_u32(&mut self) -> u32 {
        let mut b = [0u8; 4];
        self.0.take(&mut b).expect("stream exhausted");
        u32::from_le_bytes(b)
    }
    fn next_u64(&mut self) -> u64 {
        let mut b = [0u8; 8];
        self.0.take(&mut b).expect("stream exhausted");
        u64::from_le_bytes(b)
    }
    fn fill_bytes(&mut self, dst: &mut [u8]) {
        self.0.take(dst).expect("stream exhausted")
    }
}
fn infallible<T>(stream: Vec<u8>, f: impl FnOnce(&mut PanicStream) -> T, show: impl Fn(&T) -> String) -> String {
    let mut rng = PanicStream(Stream { buf: stream, pos: 0, exhausted: false });
    match catch_unwind(AssertUnwindSafe(|| f(&mut rng))) {
        Ok(v) => format!("{} {}", show(&v), rng.0.pos),
        Err(e) => {
            if rng.0.exhausted { format!("exhausted {}", rng.0.pos) } else { std::panic::resume_unwind(e) }
        }
    }
}
fn fallible<T>(stream: Vec<u8>, f: impl FnOnce(&mut TryStream) -> Result<T, Exhausted>, show: impl Fn(&T) -> String) -> String {
    let mut rng = TryStream(Stream { buf: stream, pos: 0, exhausted: false });
    match f(&mut rng) {
        Ok(v) => format!("{} {}", show(&v), rng.0.pos),
        Err(Exhausted) => format!("err:RandCore {}", rng.0.pos),
    }
}

// ------------------------------------------------------------------------------------------------
// C10: inversion and gcd (concrete aliases: `PrecomputeInverter` is implemented per alias)
// ------------------------------------------------------------------------------------------------

macro_rules! impl_c10 {
    ($name:ident, $U:ty, $N:expr) => {
        fn $name(op: &str, a: &[&str]) -> Option<String> {
            type U = $U;
            const N: usize = $N;
            let ou = |o: Option<U>| o.map(|v| uhex(&v)).unwrap_or("none".into());
            Some(match (op, a) {
                ("c15.inv_mod2k", [x, k]) => {
                    let (x, bx, k) = (arg!(uint::<N>(x)), arg!(boxed(x, N)), arg!(dec32(k)));
                    let bo = |r: (BoxedUint, Choice)| if bool::from(r.1) { bhexlen(&r.0) } else { "none".into() };
                    routes![
                        ou(x.inv_mod2k(k).into()),
                        ou(x.inv_mod2k_vartime(k).into()),
                        bo(bx.inv_mod2k(k)),
                        bo(bx.inv_mod2k_vartime(k)),
                    ]
                }
                // m odd: one-shot `inv_odd_mod` / `inv_mod` vs the precomputed inverter
                ("c15.inv_odd_mod", [x, m]) => {
                    let (x, m) = (arg!(uint::<N>(x)), arg!(uint::<N>(m)));
                    let (bx, bmod) = (arg!(boxed(a[0], N)), arg!(boxed(a[1], N)));
                    let om = arg!(Option::<Odd<U>>::from(Odd::new(m)));
                    let bom = arg!(Option::<Odd<BoxedUint>>::from(Odd::new(bmod.clone())));
                    let inv = om.precompute_inverter();
                    let binv = bom.precompute_inverter();
                    routes![
                        ou(x.inv_odd_mod(&om).into()),
                        ou(inv.invert(&x).into()),
                        ou(inv.invert_vartime(&x).into()),
                        ou(x.inv_mod(&m).into()),
                        ou(InvMod::inv_mod(&x, &m).into()),
                        optb(bx.inv_odd_mod(&bom)),
                        optb(binv.invert(&bx)),
                        optb(binv.invert_vartime(&bx)),
                        optb(bx.inv_mod(&bmod)),
                        optb(InvMod::inv_mod(&bx, &bmod)),
                    ]
                }

                // C16: encodings (the `Encoding` impls exist per alias)
                ("c15.enc", [x]) => {
                    let (x, bx) = (arg!(uint::<N>(x)), arg!(boxed(x, N)));
                    let rev = |mut v: Vec<u8>| { v.reverse(); v };
                    routes![
                        bytes_tok(Encoding::to_be_bytes(&x).as_ref()),
                        bytes_tok(&rev(AsRef::<[u8]>::as_ref(&Encoding::to_le_bytes(&x)).to_vec())),
                        bytes_tok(ArrayEncoding::to_be_byte_array(&x).as_slice()),
                        bytes_tok(&rev(ArrayEncoding::to_le_byte_array(&x).as_slice().to_vec())),
                        bytes_tok(&bx.to_be_bytes()),
                        bytes_tok(&rev(bx.to_le_bytes().to_vec())),
                        format!("{:x}", x),
                        format!("{:X}", x).to_lowercase(),
                        format!("{:x}", bx),
                        format!("{:X}", bx).to_lowercase(),
                        format!("{:x}", Wrapping(x)),
                    ]
                }
                // decode `8N` bytes given big endian
                ("c15.dec", [bs]) => {
                    let be = arg!(bytes(bs));
                    if be.len() != 8 * N { return Some(BAD.into()); }
                    let le: Vec<u8> = be.iter().rev().copied().collect();
                    let hex: String = be.iter().map(|b| format!("{b:02x}")).collect();
                    let lehex: String = le.iter().map(|b| format!("{b:02x}")).collect();
                    let rb = |r: Result<BoxedUint, crypto_bigint::DecodeError>| match r { Ok(v) => bhexlen(&v), Err(e) => format!("err:{e:?}") };
                    routes![
                        uhex(&U::from_be_slice(&be)),
                        uhex(&U::from_le_slice(&le)),
                        uhex(&<U as Encoding>::from_be_bytes(be.as_slice().try_into().unwrap())),
                        uhex(&<U as Encoding>::from_le_bytes(le.as_slice().try_into().unwrap())),
                        uhex(&U::from_be_hex(&hex)),
                        uhex(&U::from_le_hex(&lehex)),
                        uhex(&<U as ArrayEncoding>::from_be_byte_array(be.as_slice().try_into().unwrap())),
                        uhex(&<U as ArrayEncoding>::from_le_byte_array(le.as_slice().try_into().unwrap())),
                        rb(BoxedUint::from_be_slice(&be, U::BITS)),
                        rb(BoxedUint::from_le_slice(&le, U::BITS)),
                    ]
                }
                // C17: radix strings, fixed vs boxed, and the round trip through both parsers
                ("c15.radix", [x, r]) => {
                    let (x, bx, r) = (arg!(uint::<N>(x)), arg!(boxed(x, N)), arg!(dec32(r)));
                    let s = x.to_string_radix_vartime(r);
                    let tok = |t: &str| bytes_tok(t.as_bytes());
                    routes![
                        tok(&x.to_string_radix_vartime(r)),
                        tok(&bx.to_string_radix_vartime(r)),
                        U::from_str_radix_vartime(&s, r).map(|v| uhex(&v)).unwrap_or_else(|e| format!("err:{e:?}")),
                        BoxedUint::from_str_radix_with_precision_vartime(&s, r, U::BITS).map(|v| bhexlen(&v)).unwrap_or_else(|e| format!("err:{e:?}")),
                    ]
                }
                // C19: the same byte stream drives the fixed and the boxed sampler
                ("c15.rand", [m, st]) => {
                    let (m, bm) = (arg!(uint::<N>(m)), arg!(boxed(m, N)));
                    let nz = arg!(nzu(m));
                    let bnz = arg!(nzb(&bm));
                    let st = arg!(bytes(st));
                    routes![
                        infallible(st.clone(), |r| U::random_mod(r, &nz), |v| uhex(v)),
                        infallible(st.clone(), |r| <U as RandomMod>::random_mod(r, &nz), |v| uhex(v)),
                        fallible(st.clone(), |r| U::try_random_mod(r, &nz), |v| uhex(v)),
                        infallible(st.clone(), |r| BoxedUint::random_mod(r, &bnz), |v| bhexlen(v)),
                        fallible(st.clone(), |r| BoxedUint::try_random_mod(r, &bnz), |v| bhexlen(v)),
                    ]
                }
                ("c15.gcd", [x, y]) => {
                    let (x, y) = (arg!(uint::<N>(x)), arg!(uint::<N>(y)));
                    let (bx, by) = (arg!(boxed(a[0], N)), arg!(boxed(a[1], N)));
                    routes![
                        uhex(&x.gcd(&y)),
                        uhex(&Gcd::gcd(&x, &y)),
                        uhex(&Gcd::gcd_vartime(&x, &y)),
                        bhexlen(&Gcd::gcd(&bx, &by)),
                        bhexlen(&Gcd::gcd_vartime(&bx, &by)),
                    ]
                }
                _ => return None,
            })
        }
    };
}
impl_c10!(c10_1, U64, 1);
impl_c10!(c10_2, U128, 2);
impl_c10!(c10_3, U192, 3);
impl_c10!(c10_4, U256, 4);
impl_c10!(c10_6, U384, 6);
impl_c10!(c10_8, U512, 8);
impl_c10!(c10_16, U1024, 16);

fn c10(n: usize, op: &str, a: &[&str]) -> Option<String> {
    match n {
        1 => c10_1(op, a),
        2 => c10_2(op, a),
        3 => c10_3(op, a),
        4 => c10_4(op, a),
        6 => c10_6(op, a),
        8 => c10_8(op, a),
        16 => c10_16(op, a),
        _ => Some("unsupported-width".to_string()),
    }
}

macro_rules! with_w {
    ($n:expr, $f:ident, $($args:expr),*) => {
        match $n {
            1 => $f::<1>($($args),*),
            2 => $f::<2>($($args),*),
            3 => $f::<3>($($args),*),
            4 => $f::<4>($($args),*),
            6 => $f::<6>($($args),*),
            8 => $f::<8>($($args),*),
            16 => $f::<16>($($args),*),
            32 => $f::<32>($($args),*),
            _ => Some("unsupported-width".to_string()),
        }
    };
}

pub fn dispatch(op: &str, a: &[&str]) -> Option<String> {
    if op.starts_with("c15.l.") {
        return limb_op(op, a);
    }
    if op.starts_with("c15.bm.") {
        return bm(op, a);
    }
    if op.starts_with("c15.const.") {
        return match const_conv(op, a) {
            Some(s) => Some(s),
            None => const_op(op, a),
        };
    }
    if a.is_empty() {
        return Some(BAD.into());
    }
    let n = arg!(dec(a[0]));
    let rest = &a[1..];
    if op == "c15.mul_mod" {
        return mul_mod(n, rest);
    }
    if matches!(op, "c15.inv_mod2k" | "c15.inv_odd_mod" | "c15.gcd" | "c15.enc" | "c15.dec" | "c15.radix" | "c15.rand") {
        return c10(n, op, rest);
    }
    with_w!(n, fx, op, rest)
}
