//! C13 operations (op names start with `c13.`)
#[allow(unused_imports)]
use crate::util::*;

pub fn dispatch(_op: &str, _a: &[&str]) -> Option<String> {
    None
}
