//! C13 — `Int<LIMBS>` as two's-complement integers: add / sub / neg, sign decomposition, products
//! through magnitudes, resize, from primitives.  Every op computes the inherent method AND all thin
//! forwarding forms (trait methods, operators by value / reference / assigning, `Checked<Int>`,
//! `Wrapping<Int>`); a form that disagrees with its inherent method prints `forms-differ:<name>`.
#![allow(clippy::all)]
use crate::util::*;
use crypto_bigint::{
    Checked, CheckedAdd, CheckedMul, CheckedSub, ConstChoice, ConstCtOption, Int, Uint, Wrapping,
};
use num_traits::{WrappingAdd, WrappingSub};
use std::panic::{AssertUnwindSafe, catch_unwind};
use subtle::CtOption;

fn oi<const N: usize>(v: Option<Int<N>>) -> String {
    v.map(|x| ihex(&x)).unwrap_or("none".into())
}
fn ou<const N: usize>(v: Option<Uint<N>>) -> String {
    v.map(|x| uhex(&x)).unwrap_or("none".into())
}
fn cc<const N: usize>(v: ConstCtOption<Int<N>>) -> Option<Int<N>> {
    v.into()
}
fn ct<const N: usize>(v: CtOption<Int<N>>) -> Option<Int<N>> {
    v.into()
}
fn ck<const N: usize>(v: Checked<Int<N>>) -> Option<Int<N>> {
    v.0.into()
}
/// an operator that panics on overflow, as an option
fn caught<T>(f: impl FnOnce() -> T) -> Option<T> {
    catch_unwind(AssertUnwindSafe(f)).ok()
}

struct Forms(Option<String>);
impl Forms {
    fn new() -> Self {
        Forms(None)
    }
    fn same<T: PartialEq>(&mut self, name: &str, got: T, want: &T) {
        if self.0.is_none() && got != *want {
            self.0 = Some(format!("forms-differ:{name}"));
        }
    }
    fn done(self, s: String) -> String {
        self.0.unwrap_or(s)
    }
}

fn add<const N: usize>(a: &[&str]) -> Option<String> {
    let (x, y) = (arg!(int::<N>(a[0])), arg!(int::<N>(a[1])));
    let (ov, of) = x.overflowing_add(&y);
    let c = cc(x.checked_add(&y));
    let w = x.wrapping_add(&y);
    let mut f = Forms::new();
    f.same("CheckedAdd", ct(CheckedAdd::checked_add(&x, &y)), &c);
    f.same("WrappingAdd", WrappingAdd::wrapping_add(&x, &y), &w);
    f.same("+", caught(|| x + y), &c);
    f.same("+&", caught(|| x + &y), &c);
    f.same("+=", caught(|| { let mut t = x; t += y; t }), &c);
    f.same("+=&", caught(|| { let mut t = x; t += &y; t }), &c);
    let (cx, cy) = (Checked::new(x), Checked::new(y));
    f.same("Checked+", ck(cx + cy), &c);
    f.same("Checked+&", ck(cx + &cy), &c);
    f.same("&Checked+", ck(&cx + cy), &c);
    f.same("&Checked+&", ck(&cx + &cy), &c);
    f.same("Checked+=", ck({ let mut t = cx; t += cy; t }), &c);
    f.same("Checked+=&", ck({ let mut t = cx; t += &cy; t }), &c);
    // a none operand stays none
    let none = Checked(CtOption::new(x, 0.into()));
    f.same("Checked(none)+", ck(none + cy), &None);
    f.same("Checked+(none)", ck(cy + none), &None);
    // … in EVERY operator form and on either side (sticky none: seeds C04-m6 / C13-m7 lost it in one by-reference form)
    f.same("Checked+&(none)", ck(cy + &none), &None);
    f.same("&Checked+(none)", ck(&cy + none), &None);
    f.same("&Checked+&(none)", ck(&cy + &none), &None);
    f.same("&(none)+&Checked", ck(&none + &cy), &None);
    f.same("(none)+&Checked", ck(none + &cy), &None);
    f.same("Checked+=(none)", ck({ let mut t = cy; t += none; t }), &None);
    f.same("Checked+=&(none)", ck({ let mut t = cy; t += &none; t }), &None);
    f.same("(none)+=&Checked", ck({ let mut t = none; t += &cy; t }), &None);
    let (wx, wy) = (Wrapping(x), Wrapping(y));
    f.same("Wrapping+", (wx + wy).0, &w);
    f.same("Wrapping+&", (wx + &wy).0, &w);
    f.same("&Wrapping+", (&wx + wy).0, &w);
    f.same("&Wrapping+&", (&wx + &wy).0, &w);
    f.same("Wrapping+=", { let mut t = wx; t += wy; t.0 }, &w);
    f.same("Wrapping+=&", { let mut t = wx; t += &wy; t.0 }, &w);
    Some(f.done(format!("{} {} {} {}", ihex(&ov), cchoice(of), oi(c), ihex(&w))))
}

fn sub<const N: usize>(a: &[&str]) -> Option<String> {
    let (x, y) = (arg!(int::<N>(a[0])), arg!(int::<N>(a[1])));
    let c = ct(CheckedSub::checked_sub(&x, &y));
    let w = WrappingSub::wrapping_sub(&x, &y);
    let mut f = Forms::new();
    f.same("-", caught(|| x - y), &c);
    f.same("-&", caught(|| x - &y), &c);
    let (cx, cy) = (Checked::new(x), Checked::new(y));
    f.same("Checked-", ck(cx - cy), &c);
    f.same("Checked-&", ck(cx - &cy), &c);
    f.same("&Checked-", ck(&cx - cy), &c);
    f.same("&Checked-&", ck(&cx - &cy), &c);
    f.same("Checked-=", ck({ let mut t = cx; t -= cy; t }), &c);
    f.same("Checked-=&", ck({ let mut t = cx; t -= &cy; t }), &c);
    let none = Checked(CtOption::new(x, 0.into()));
    f.same("Checked(none)-", ck(none - cy), &None);
    f.same("Checked-(none)", ck(cy - none), &None);
    // … in EVERY operator form and on either side (sticky none: seeds C04-m6 / C13-m7 lost it in one by-reference form)
    f.same("Checked-&(none)", ck(cy - &none), &None);
    f.same("&Checked-(none)", ck(&cy - none), &None);
    f.same("&Checked-&(none)", ck(&cy - &none), &None);
    f.same("&(none)-&Checked", ck(&none - &cy), &None);
    f.same("(none)-&Checked", ck(none - &cy), &None);
    f.same("Checked-=(none)", ck({ let mut t = cy; t -= none; t }), &None);
    f.same("Checked-=&(none)", ck({ let mut t = cy; t -= &none; t }), &None);
    f.same("(none)-=&Checked", ck({ let mut t = none; t -= &cy; t }), &None);
    let (wx, wy) = (Wrapping(x), Wrapping(y));
    f.same("Wrapping-", (wx - wy).0, &w);
    f.same("Wrapping-&", (wx - &wy).0, &w);
    f.same("&Wrapping-", (&wx - wy).0, &w);
    f.same("&Wrapping-&", (&wx - &wy).0, &w);
    f.same("Wrapping-=", { let mut t = wx; t -= wy; t.0 }, &w);
    f.same("Wrapping-=&", { let mut t = wx; t -= &wy; t.0 }, &w);
    Some(f.done(format!("{} {}", oi(c), ihex(&w))))
}

fn neg<const N: usize>(a: &[&str]) -> Option<String> {
    let x = arg!(int::<N>(a[0]));
    let (ov, of) = x.overflowing_neg();
    let c = cc(x.checked_neg());
    let w = x.wrapping_neg();
    let mut f = Forms::new();
    f.same("neg_if(true)", x.wrapping_neg_if(ConstChoice::TRUE), &w);
    f.same("neg_if(false)", x.wrapping_neg_if(ConstChoice::FALSE), &x);
    Some(f.done(format!("{} {} {} {}", ihex(&ov), cchoice(of), oi(c), ihex(&w))))
}

fn sign<const N: usize>(a: &[&str]) -> Option<String> {
    let x = arg!(int::<N>(a[0]));
    let (abs, sgn) = x.abs_sign();
    let mut f = Forms::new();
    f.same("abs", x.abs(), &abs);
    f.same("abs_sign.1", cchoice(sgn), &cchoice(x.is_negative()));
    Some(f.done(format!(
        "{} {} {} {} {}",
        cchoice(x.is_negative()),
        cchoice(x.is_positive()),
        cchoice(x.is_min()),
        cchoice(x.is_max()),
        uhex(&abs)
    )))
}

fn from_abs_sign<const N: usize>(a: &[&str]) -> Option<String> {
    let (m, s) = (arg!(uint::<N>(a[0])), arg!(toconst(a[1])));
    Some(oi(cc(Int::<N>::new_from_abs_sign(m, s))))
}

fn square<const N: usize>(a: &[&str]) -> Option<String> {
    let x = arg!(int::<N>(a[0]));
    let c: Option<Uint<N>> = x.checked_square().into();
    Some(format!("{} {} {}", ou(c), uhex(&x.wrapping_square()), uhex(&x.saturating_square())))
}

fn ck_mul<const N: usize>(a: &[&str]) -> Option<String> {
    let (x, y) = (arg!(int::<N>(a[0])), arg!(int::<N>(a[1])));
    let c = ct(CheckedMul::checked_mul(&x, &y));
    let mut f = Forms::new();
    let (cx, cy) = (Checked::new(x), Checked::new(y));
    f.same("Checked*", ck(cx * cy), &c);
    f.same("Checked*&", ck(cx * &cy), &c);
    f.same("&Checked*", ck(&cx * cy), &c);
    f.same("&Checked*&", ck(&cx * &cy), &c);
    f.same("Checked*=", ck({ let mut t = cx; t *= cy; t }), &c);
    f.same("Checked*=&", ck({ let mut t = cx; t *= &cy; t }), &c);
    let none = Checked(CtOption::new(x, 0.into()));
    f.same("Checked(none)*", ck(none * cy), &None);
    f.same("Checked*(none)", ck(cy * none), &None);
    // … in EVERY operator form and on either side (sticky none: seeds C04-m6 / C13-m7 lost it in one by-reference form)
    f.same("Checked*&(none)", ck(cy * &none), &None);
    f.same("&Checked*(none)", ck(&cy * none), &None);
    f.same("&Checked*&(none)", ck(&cy * &none), &None);
    f.same("&(none)*&Checked", ck(&none * &cy), &None);
    f.same("(none)*&Checked", ck(none * &cy), &None);
    f.same("Checked*=(none)", ck({ let mut t = cy; t *= none; t }), &None);
    f.same("Checked*=&(none)", ck({ let mut t = cy; t *= &none; t }), &None);
    f.same("(none)*=&Checked", ck({ let mut t = none; t *= &cy; t }), &None);
    Some(f.done(oi(c)))
}

fn from_prim<const N: usize>(a: &[&str]) -> Option<String> {
    let k = arg!(dec(a[0]));
    let w = arg!(hex_words(a[1], 2));
    let x = (w[0] as u128) | ((w[1] as u128) << 64);
    let mut f = Forms::new();
    let r: Int<N> = match k {
        8 => { let v = x as u8 as i8; f.same("From<i8>", Int::<N>::from(v), &Int::<N>::from_i8(v)); Int::from_i8(v) }
        16 => { let v = x as u16 as i16; f.same("From<i16>", Int::<N>::from(v), &Int::<N>::from_i16(v)); Int::from_i16(v) }
        32 => { let v = x as u32 as i32; f.same("From<i32>", Int::<N>::from(v), &Int::<N>::from_i32(v)); Int::from_i32(v) }
        64 => { let v = x as u64 as i64; f.same("From<i64>", Int::<N>::from(v), &Int::<N>::from_i64(v)); Int::from_i64(v) }
        128 => { let v = x as i128; f.same("From<i128>", Int::<N>::from(v), &Int::<N>::from_i128(v)); Int::from_i128(v) }
        _ => return Some(BAD.to_string()),
    };
    Some(f.done(ihex(&r)))
}

// ---- two widths

fn resize<const N: usize, const T: usize>(a: &[&str]) -> Option<String> {
    let x = arg!(int::<N>(a[0]));
    Some(ihex(&x.resize::<T>()))
}

fn split_mul<const N: usize, const M: usize>(a: &[&str]) -> Option<String> {
    let (x, y) = (arg!(int::<N>(a[0])), arg!(int::<M>(a[1])));
    let (lo, hi, s) = x.split_mul(&y);
    Some(format!("{} {} {}", uhex(&lo), uhex(&hi), cchoice(s)))
}

fn checked_mul<const N: usize, const M: usize>(a: &[&str]) -> Option<String> {
    let (x, y) = (arg!(int::<N>(a[0])), arg!(int::<M>(a[1])));
    let c = ct(CheckedMul::checked_mul(&x, &y));
    let mut f = Forms::new();
    f.same("*", caught(|| x * y), &c);
    f.same("*&", caught(|| x * &y), &c);
    f.same("&*", caught(|| &x * y), &c);
    f.same("&*&", caught(|| &x * &y), &c);
    Some(f.done(oi(c)))
}

fn split_mul_uint<const N: usize, const M: usize>(a: &[&str]) -> Option<String> {
    let (x, y) = (arg!(int::<N>(a[0])), arg!(uint::<M>(a[1])));
    let (lo, hi, s) = x.split_mul_uint(&y);
    Some(format!("{} {} {}", uhex(&lo), uhex(&hi), cchoice(s)))
}

fn split_mul_uint_right<const N: usize, const M: usize>(a: &[&str]) -> Option<String> {
    let (x, y) = (arg!(int::<N>(a[0])), arg!(uint::<M>(a[1])));
    let (lo, hi, s) = x.split_mul_uint_right(&y);
    Some(format!("{} {} {}", uhex(&lo), uhex(&hi), cchoice(s)))
}

fn checked_mul_uint<const N: usize, const M: usize>(a: &[&str]) -> Option<String> {
    let (x, y) = (arg!(int::<N>(a[0])), arg!(uint::<M>(a[1])));
    let c = ct(CheckedMul::checked_mul(&x, &y));
    let mut f = Forms::new();
    f.same("*", caught(|| x * y), &c);
    f.same("*&", caught(|| x * &y), &c);
    f.same("&*", caught(|| &x * y), &c);
    f.same("&*&", caught(|| &x * &y), &c);
    Some(f.done(oi(c)))
}

fn checked_mul_uint_right<const N: usize, const M: usize>(a: &[&str]) -> Option<String> {
    let (x, y) = (arg!(int::<N>(a[0])), arg!(uint::<M>(a[1])));
    Some(oi(ct(x.checked_mul_uint_right(&y))))
}

fn widening<const N: usize, const M: usize, const W: usize>(op: &str, a: &[&str]) -> Option<String>
where
    Uint<N>: crypto_bigint::ConcatMixed<Uint<M>, MixedOutput = Uint<W>>,
{
    let x = arg!(int::<N>(a[0]));
    Some(match op {
        "c13.widening_mul" => ihex(&x.widening_mul(&arg!(int::<M>(a[1])))),
        "c13.widening_mul_uint" => ihex(&x.widening_mul_uint(&arg!(uint::<M>(a[1])))),
        _ => return None,
    })
}

fn widening_square<const N: usize, const W: usize>(a: &[&str]) -> Option<String>
where
    Uint<N>: crypto_bigint::ConcatMixed<Uint<N>, MixedOutput = Uint<W>>,
{
    let x = arg!(int::<N>(a[0]));
    Some(uhex(&x.widening_square()))
}

/// (lhs limbs, rhs limbs) pairs compiled for the mixed-width operations
macro_rules! with_pair {
    ($n:expr, $m:expr, $f:ident, $($args:expr),*) => {
        match ($n, $m) {
            (1, 1) => $f::<1, 1>($($args),*), (2, 2) => $f::<2, 2>($($args),*),
            (3, 3) => $f::<3, 3>($($args),*), (4, 4) => $f::<4, 4>($($args),*),
            (8, 8) => $f::<8, 8>($($args),*), (16, 16) => $f::<16, 16>($($args),*),
            (1, 2) => $f::<1, 2>($($args),*), (2, 1) => $f::<2, 1>($($args),*),
            (1, 3) => $f::<1, 3>($($args),*), (3, 1) => $f::<3, 1>($($args),*),
            (2, 4) => $f::<2, 4>($($args),*), (4, 2) => $f::<4, 2>($($args),*),
            (3, 4) => $f::<3, 4>($($args),*), (4, 3) => $f::<4, 3>($($args),*),
            (4, 8) => $f::<4, 8>($($args),*), (8, 4) => $f::<8, 4>($($args),*),
            (1, 16) => $f::<1, 16>($($args),*), (16, 1) => $f::<16, 1>($($args),*),
            (8, 16) => $f::<8, 16>($($args),*), (16, 8) => $f::<16, 8>($($args),*),
            _ => Some("unsupported-width".to_string()),
        }
    };
}

macro_rules! with_w6 {
    ($n:expr, $f:ident, $($args:expr),*) => {
        match $n {
            1 => $f::<1>($($args),*), 2 => $f::<2>($($args),*), 3 => $f::<3>($($args),*),
            4 => $f::<4>($($args),*), 8 => $f::<8>($($args),*), 16 => $f::<16>($($args),*),
            _ => Some("unsupported-width".to_string()),
        }
    };
}

fn resize_from<const N: usize>(t: usize, a: &[&str]) -> Option<String> {
    match t {
        1 => resize::<N, 1>(a), 2 => resize::<N, 2>(a), 3 => resize::<N, 3>(a),
        4 => resize::<N, 4>(a), 8 => resize::<N, 8>(a), 16 => resize::<N, 16>(a),
        _ => Some("unsupported-width".to_string()),
    }
}

pub fn dispatch(op: &str, a: &[&str]) -> Option<String> {
    if a.is_empty() {
        return None;
    }
    let n = arg!(dec(a[0]));
    match (op, a.len()) {
        // one width: `op n a [b]`
        ("c13.add", 3) => with_w6!(n, add, &a[1..]),
        ("c13.sub", 3) => with_w6!(n, sub, &a[1..]),
        ("c13.neg", 2) => with_w6!(n, neg, &a[1..]),
        ("c13.sign", 2) => with_w6!(n, sign, &a[1..]),
        ("c13.from_abs_sign", 3) => with_w6!(n, from_abs_sign, &a[1..]),
        ("c13.square", 2) => with_w6!(n, square, &a[1..]),
        ("c13.ck_mul", 3) => with_w6!(n, ck_mul, &a[1..]),
        // `c13.from_prim n k x`
        ("c13.from_prim", 3) => with_w6!(n, from_prim, &a[1..]),
        ("c13.widening_square", 2) => match n {
            1 => widening_square::<1, 2>(&a[1..]), 2 => widening_square::<2, 4>(&a[1..]),
            3 => widening_square::<3, 6>(&a[1..]), 4 => widening_square::<4, 8>(&a[1..]),
            8 => widening_square::<8, 16>(&a[1..]), 16 => widening_square::<16, 32>(&a[1..]),
            _ => Some("unsupported-width".to_string()),
        },
        // `c13.resize n a t`
        ("c13.resize", 3) => {
            let t = arg!(dec(a[2]));
            with_w6!(n, resize_from, t, &a[1..2])
        }
        // two widths: `op n a m b`
        (_, 4) => {
            let m = arg!(dec(a[2]));
            let v = [a[1], a[3]];
            match op {
                "c13.split_mul" => with_pair!(n, m, split_mul, &v),
                "c13.checked_mul" => with_pair!(n, m, checked_mul, &v),
                "c13.split_mul_uint" => with_pair!(n, m, split_mul_uint, &v),
                "c13.split_mul_uint_right" => with_pair!(n, m, split_mul_uint_right, &v),
                "c13.checked_mul_uint" => with_pair!(n, m, checked_mul_uint, &v),
                "c13.checked_mul_uint_right" => with_pair!(n, m, checked_mul_uint_right, &v),
                "c13.widening_mul" | "c13.widening_mul_uint" => match (n, m) {
                    (1, 1) => widening::<1, 1, 2>(op, &v), (2, 2) => widening::<2, 2, 4>(op, &v),
                    (3, 3) => widening::<3, 3, 6>(op, &v), (4, 4) => widening::<4, 4, 8>(op, &v),
                    (8, 8) => widening::<8, 8, 16>(op, &v), (16, 16) => widening::<16, 16, 32>(op, &v),
                    (1, 2) => widening::<1, 2, 3>(op, &v), (2, 1) => widening::<2, 1, 3>(op, &v),
                    (1, 3) => widening::<1, 3, 4>(op, &v), (3, 1) => widening::<3, 1, 4>(op, &v),
                    (2, 4) => widening::<2, 4, 6>(op, &v), (4, 2) => widening::<4, 2, 6>(op, &v),
                    (3, 4) => widening::<3, 4, 7>(op, &v), (4, 3) => widening::<4, 3, 7>(op, &v),
                    (4, 8) => widening::<4, 8, 12>(op, &v), (8, 4) => widening::<8, 4, 12>(op, &v),
                    _ => Some("unsupported-width".to_string()),
                },
                _ => None,
            }
        }
        _ => None,
    }
}
