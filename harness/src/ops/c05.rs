//! C05 — shifts and bit queries (op names start with `c05.`)
//!
//! `c05.u.<name> n x …`  fixed `Uint<n>`;  `c05.i.<name> n x …`  `Int<n>` (two's complement hex);
//! `c05.b.<name> n x …`  `BoxedUint` with `n` limbs;  `c05.l.<name> x …`  a single `Limb`.
//! Shift amounts, bit indices, limb counts: decimal. Values: hex.
use crate::util::*;
use crypto_bigint::subtle::{Choice, CtOption};
use crypto_bigint::{
    BitOps, BoxedUint, ConstCtOption, Int, Limb, ShlVartime, ShrVartime, Uint, Wrapping, WrappingShl, WrappingShr,
};

fn co<const N: usize>(o: ConstCtOption<Uint<N>>) -> String {
    let o: Option<Uint<N>> = o.into();
    o.map(|v| uhex(&v)).unwrap_or("none".into())
}
fn coi<const N: usize>(o: ConstCtOption<Int<N>>) -> String {
    let o: Option<Int<N>> = o.into();
    o.map(|v| ihex(&v)).unwrap_or("none".into())
}
fn cto<T>(o: CtOption<T>, f: impl Fn(&T) -> String) -> String {
    let o: Option<T> = o.into();
    o.map(|v| f(&v)).unwrap_or("none".into())
}

fn bitops_line<T: BitOps>(x: &T) -> String {
    format!(
        "{} {} {} {} {} {} {} {} {} {} {}",
        x.bits_precision(),
        x.log2_bits(),
        x.bytes_precision(),
        BitOps::bits(x),
        BitOps::bits_vartime(x),
        BitOps::leading_zeros(x),
        BitOps::leading_zeros_vartime(x),
        BitOps::trailing_zeros(x),
        BitOps::trailing_zeros_vartime(x),
        BitOps::trailing_ones(x),
        BitOps::trailing_ones_vartime(x)
    )
}

/// all spellings of one binary bitwise operator must agree; prints the common value
macro_rules! forms_agree {
    ($vals:expr, $pr:expr) => {{
        let vals = $vals;
        let first = $pr(&vals[0]);
        let mut out = first.clone();
        for (i, v) in vals.iter().enumerate() {
            let s = $pr(v);
            if s != first {
                out = format!("forms-differ:{}:{}:{}", i, first, s);
                break;
            }
        }
        out
    }};
}

fn fixed<const N: usize>(op: &str, a: &[&str]) -> Option<String> {
    let x = arg!(a.first().and_then(|s| uint::<N>(s)));
    let a = &a[1..];
    Some(match (op, a) {
        ("shl", [s]) => uhex(&x.shl(arg!(dec32(s)))),
        ("shr", [s]) => uhex(&x.shr(arg!(dec32(s)))),
        ("shl_vartime", [s]) => uhex(&x.shl_vartime(arg!(dec32(s)))),
        ("shr_vartime", [s]) => uhex(&x.shr_vartime(arg!(dec32(s)))),
        ("overflowing_shl", [s]) => co(x.overflowing_shl(arg!(dec32(s)))),
        ("overflowing_shr", [s]) => co(x.overflowing_shr(arg!(dec32(s)))),
        ("overflowing_shl_vartime", [s]) => co(x.overflowing_shl_vartime(arg!(dec32(s)))),
        ("overflowing_shr_vartime", [s]) => co(x.overflowing_shr_vartime(arg!(dec32(s)))),
        ("wrapping_shl", [s]) => uhex(&x.wrapping_shl(arg!(dec32(s)))),
        ("wrapping_shr", [s]) => uhex(&x.wrapping_shr(arg!(dec32(s)))),
        ("wrapping_shl_vartime", [s]) => uhex(&x.wrapping_shl_vartime(arg!(dec32(s)))),
        ("wrapping_shr_vartime", [s]) => uhex(&x.wrapping_shr_vartime(arg!(dec32(s)))),
        ("tr_wrapping_shl", [s]) => uhex(&WrappingShl::wrapping_shl(&x, arg!(dec32(s)))),
        ("tr_wrapping_shr", [s]) => uhex(&WrappingShr::wrapping_shr(&x, arg!(dec32(s)))),
        ("tr_overflowing_shl_vartime", [s]) => cto(ShlVartime::overflowing_shl_vartime(&x, arg!(dec32(s))), uhex),
        ("tr_overflowing_shr_vartime", [s]) => cto(ShrVartime::overflowing_shr_vartime(&x, arg!(dec32(s))), uhex),
        ("tr_wrapping_shl_vartime", [s]) => uhex(&ShlVartime::wrapping_shl_vartime(&x, arg!(dec32(s)))),
        ("tr_wrapping_shr_vartime", [s]) => uhex(&ShrVartime::wrapping_shr_vartime(&x, arg!(dec32(s)))),
        ("op_shl", [s, f]) => {
            // the shift as written on the line; amounts above u32::MAX exist only for the `usize` forms 4 and 5
            let s64 = arg!(s.parse::<u64>().ok());
            let su = s64 as usize;
            let s = match u32::try_from(s64) {
                Ok(v) => v,
                Err(_) if *f == "4" || *f == "5" => 0,
                Err(_) => return Some(BAD.into()),
            };
            match *f {
                "0" => uhex(&(x << s)),
                "1" => uhex(&(&x << s)),
                "2" => {
                    let mut y = x;
                    y <<= s;
                    uhex(&y)
                }
                "3" => uhex(&(x << (s as i32))),
                "4" => uhex(&(&x << su)),
                "5" => {
                    let mut y = x;
                    y <<= su;
                    uhex(&y)
                }
                _ => return Some(BAD.into()),
            }
        }
        ("op_shr", [s, f]) => {
            // the shift as written on the line; amounts above u32::MAX exist only for the `usize` forms 4 and 5
            let s64 = arg!(s.parse::<u64>().ok());
            let su = s64 as usize;
            let s = match u32::try_from(s64) {
                Ok(v) => v,
                Err(_) if *f == "4" || *f == "5" => 0,
                Err(_) => return Some(BAD.into()),
            };
            match *f {
                "0" => uhex(&(x >> s)),
                "1" => uhex(&(&x >> s)),
                "2" => {
                    let mut y = x;
                    y >>= s;
                    uhex(&y)
                }
                "3" => uhex(&(x >> (s as i32))),
                "4" => uhex(&(&x >> su)),
                "5" => {
                    let mut y = x;
                    y >>= su;
                    uhex(&y)
                }
                _ => return Some(BAD.into()),
            }
        }
        ("shl_wide", [hi, s]) => {
            let hi = arg!(uint::<N>(hi));
            let r: Option<(Uint<N>, Uint<N>)> = Uint::overflowing_shl_vartime_wide((x, hi), arg!(dec32(s))).into();
            r.map(|(l, h)| format!("{} {}", uhex(&l), uhex(&h))).unwrap_or("none".into())
        }
        ("shr_wide", [hi, s]) => {
            let hi = arg!(uint::<N>(hi));
            let r: Option<(Uint<N>, Uint<N>)> = Uint::overflowing_shr_vartime_wide((x, hi), arg!(dec32(s))).into();
            r.map(|(l, h)| format!("{} {}", uhex(&l), uhex(&h))).unwrap_or("none".into())
        }
        ("bits", []) => format!("{}", x.bits()),
        ("bits_vartime", []) => format!("{}", x.bits_vartime()),
        ("leading_zeros", []) => format!("{}", x.leading_zeros()),
        ("leading_zeros_vartime", []) => format!("{}", x.leading_zeros_vartime()),
        ("trailing_zeros", []) => format!("{}", x.trailing_zeros()),
        ("trailing_zeros_vartime", []) => format!("{}", x.trailing_zeros_vartime()),
        ("trailing_ones", []) => format!("{}", x.trailing_ones()),
        ("trailing_ones_vartime", []) => format!("{}", x.trailing_ones_vartime()),
        ("bitops", []) => bitops_line(&x),
        ("bit", [i]) => cchoice(x.bit(arg!(dec32(i)))),
        ("bit_vartime", [i]) => bit(x.bit_vartime(arg!(dec32(i)))),
        ("tr_bit", [i]) => choice(BitOps::bit(&x, arg!(dec32(i)))),
        ("tr_bit_vartime", [i]) => bit(BitOps::bit_vartime(&x, arg!(dec32(i)))),
        ("set_bit", [i, v]) => {
            let mut y = x;
            BitOps::set_bit(&mut y, arg!(dec32(i)), arg!(tochoice(v)));
            uhex(&y)
        }
        ("set_bit_vartime", [i, v]) => {
            let mut y = x;
            BitOps::set_bit_vartime(&mut y, arg!(dec32(i)), *v == "1");
            uhex(&y)
        }
        ("and", [y]) => {
            let y = arg!(uint::<N>(y));
            let (mut a1, mut a2) = (x, x);
            a1 &= y;
            a2 &= &y;
            let (mut w1, mut w2) = (Wrapping(x), Wrapping(x));
            w1 &= Wrapping(y);
            w2 &= &Wrapping(y);
            let ck: Option<Uint<N>> = x.checked_and(&y).into();
            forms_agree!(
                [
                    x.bitand(&y), x & y, x & &y, &x & y, &x & &y, a1, a2, x.wrapping_and(&y),
                    ck.unwrap_or(Uint::MAX), (Wrapping(x) & Wrapping(y)).0, (Wrapping(x) & &Wrapping(y)).0,
                    (&Wrapping(x) & Wrapping(y)).0, (&Wrapping(x) & &Wrapping(y)).0, w1.0, w2.0
                ],
                uhex
            )
        }
        ("or", [y]) => {
            let y = arg!(uint::<N>(y));
            let (mut a1, mut a2) = (x, x);
            a1 |= y;
            a2 |= &y;
            let (mut w1, mut w2) = (Wrapping(x), Wrapping(x));
            w1 |= Wrapping(y);
            w2 |= &Wrapping(y);
            let ck: Option<Uint<N>> = x.checked_or(&y).into();
            forms_agree!(
                [
                    x.bitor(&y), x | y, x | &y, &x | y, &x | &y, a1, a2, x.wrapping_or(&y),
                    ck.unwrap_or(Uint::ZERO), (Wrapping(x) | Wrapping(y)).0, (Wrapping(x) | &Wrapping(y)).0,
                    (&Wrapping(x) | Wrapping(y)).0, (&Wrapping(x) | &Wrapping(y)).0, w1.0, w2.0
                ],
                uhex
            )
        }
        ("xor", [y]) => {
            let y = arg!(uint::<N>(y));
            let (mut a1, mut a2) = (x, x);
            a1 ^= y;
            a2 ^= &y;
            let (mut w1, mut w2) = (Wrapping(x), Wrapping(x));
            w1 ^= Wrapping(y);
            w2 ^= &Wrapping(y);
            let ck: Option<Uint<N>> = x.checked_xor(&y).into();
            forms_agree!(
                [
                    x.bitxor(&y), x ^ y, x ^ &y, &x ^ y, &x ^ &y, a1, a2, x.wrapping_xor(&y),
                    ck.unwrap_or(Uint::MAX), (Wrapping(x) ^ Wrapping(y)).0, (Wrapping(x) ^ &Wrapping(y)).0,
                    (&Wrapping(x) ^ Wrapping(y)).0, (&Wrapping(x) ^ &Wrapping(y)).0, w1.0, w2.0
                ],
                uhex
            )
        }
        ("not", []) => forms_agree!([x.not(), !x, (!Wrapping(x)).0], uhex),
        ("and_limb", [l]) => uhex(&x.bitand_limb(arg!(limb(l)))),
        _ => return None,
    })
}

fn signed<const N: usize>(op: &str, a: &[&str]) -> Option<String> {
    let x = arg!(a.first().and_then(|s| int::<N>(s)));
    let a = &a[1..];
    Some(match (op, a) {
        ("shl", [s]) => ihex(&x.shl(arg!(dec32(s)))),
        ("shr", [s]) => ihex(&x.shr(arg!(dec32(s)))),
        ("shl_vartime", [s]) => ihex(&x.shl_vartime(arg!(dec32(s)))),
        ("shr_vartime", [s]) => ihex(&x.shr_vartime(arg!(dec32(s)))),
        ("overflowing_shl", [s]) => coi(x.overflowing_shl(arg!(dec32(s)))),
        ("overflowing_shr", [s]) => coi(x.overflowing_shr(arg!(dec32(s)))),
        ("overflowing_shl_vartime", [s]) => coi(x.overflowing_shl_vartime(arg!(dec32(s)))),
        ("overflowing_shr_vartime", [s]) => coi(x.overflowing_shr_vartime(arg!(dec32(s)))),
        ("wrapping_shl", [s]) => ihex(&x.wrapping_shl(arg!(dec32(s)))),
        ("wrapping_shr", [s]) => ihex(&x.wrapping_shr(arg!(dec32(s)))),
        ("wrapping_shl_vartime", [s]) => ihex(&x.wrapping_shl_vartime(arg!(dec32(s)))),
        ("wrapping_shr_vartime", [s]) => ihex(&x.wrapping_shr_vartime(arg!(dec32(s)))),
        ("tr_wrapping_shl", [s]) => ihex(&WrappingShl::wrapping_shl(&x, arg!(dec32(s)))),
        ("tr_wrapping_shr", [s]) => ihex(&WrappingShr::wrapping_shr(&x, arg!(dec32(s)))),
        ("tr_overflowing_shl_vartime", [s]) => cto(ShlVartime::overflowing_shl_vartime(&x, arg!(dec32(s))), ihex),
        ("tr_overflowing_shr_vartime", [s]) => cto(ShrVartime::overflowing_shr_vartime(&x, arg!(dec32(s))), ihex),
        ("tr_wrapping_shl_vartime", [s]) => ihex(&ShlVartime::wrapping_shl_vartime(&x, arg!(dec32(s)))),
        ("tr_wrapping_shr_vartime", [s]) => ihex(&ShrVartime::wrapping_shr_vartime(&x, arg!(dec32(s)))),
        ("op_shl", [s, f]) => {
            // the shift as written on the line; amounts above u32::MAX exist only for the `usize` forms 4 and 5
            let s64 = arg!(s.parse::<u64>().ok());
            let su = s64 as usize;
            let s = match u32::try_from(s64) {
                Ok(v) => v,
                Err(_) if *f == "4" || *f == "5" => 0,
                Err(_) => return Some(BAD.into()),
            };
            match *f {
                "0" => ihex(&(x << s)),
                "1" => ihex(&(&x << s)),
                "2" => {
                    let mut y = x;
                    y <<= s;
                    ihex(&y)
                }
                "3" => ihex(&(x << (s as i32))),
                "4" => ihex(&(&x << su)),
                "5" => {
                    let mut y = x;
                    y <<= su;
                    ihex(&y)
                }
                _ => return Some(BAD.into()),
            }
        }
        ("op_shr", [s, f]) => {
            // the shift as written on the line; amounts above u32::MAX exist only for the `usize` forms 4 and 5
            let s64 = arg!(s.parse::<u64>().ok());
            let su = s64 as usize;
            let s = match u32::try_from(s64) {
                Ok(v) => v,
                Err(_) if *f == "4" || *f == "5" => 0,
                Err(_) => return Some(BAD.into()),
            };
            match *f {
                "0" => ihex(&(x >> s)),
                "1" => ihex(&(&x >> s)),
                "2" => {
                    let mut y = x;
                    y >>= s;
                    ihex(&y)
                }
                "3" => ihex(&(x >> (s as i32))),
                "4" => ihex(&(&x >> su)),
                "5" => {
                    let mut y = x;
                    y >>= su;
                    ihex(&y)
                }
                _ => return Some(BAD.into()),
            }
        }
        // ---- coverage round: bitwise operators of `Int<N>` (src/int/bit_and.rs, bit_or.rs, bit_xor.rs, bit_not.rs):
        // inherent, wrapping_*, checked_*, every operator impl (value/reference, assigning) and the
        // `Wrapping<Int<N>>` operator impls must all give the same limbs
        ("and", [y]) => {
            let y = arg!(int::<N>(y));
            let (mut a1, mut a2) = (x, x);
            a1 &= y;
            a2 &= &y;
            let (mut w1, mut w2) = (Wrapping(x), Wrapping(x));
            w1 &= Wrapping(y);
            w2 &= &Wrapping(y);
            let ck: Option<Int<N>> = x.checked_and(&y).into();
            forms_agree!(
                [
                    x.bitand(&y), x & y, x & &y, &x & y, &x & &y, a1, a2, x.wrapping_and(&y),
                    ck.unwrap_or(Int::MAX), (Wrapping(x) & Wrapping(y)).0, (Wrapping(x) & &Wrapping(y)).0,
                    (&Wrapping(x) & Wrapping(y)).0, (&Wrapping(x) & &Wrapping(y)).0, w1.0, w2.0
                ],
                ihex
            )
        }
        ("or", [y]) => {
            let y = arg!(int::<N>(y));
            let (mut a1, mut a2) = (x, x);
            a1 |= y;
            a2 |= &y;
            let (mut w1, mut w2) = (Wrapping(x), Wrapping(x));
            w1 |= Wrapping(y);
            w2 |= &Wrapping(y);
            let ck: Option<Int<N>> = x.checked_or(&y).into();
            forms_agree!(
                [
                    x.bitor(&y), x | y, x | &y, &x | y, &x | &y, a1, a2, x.wrapping_or(&y),
                    ck.unwrap_or(Int::MAX), (Wrapping(x) | Wrapping(y)).0, (Wrapping(x) | &Wrapping(y)).0,
                    (&Wrapping(x) | Wrapping(y)).0, (&Wrapping(x) | &Wrapping(y)).0, w1.0, w2.0
                ],
                ihex
            )
        }
        ("xor", [y]) => {
            let y = arg!(int::<N>(y));
            let (mut a1, mut a2) = (x, x);
            a1 ^= y;
            a2 ^= &y;
            let (mut w1, mut w2) = (Wrapping(x), Wrapping(x));
            w1 ^= Wrapping(y);
            w2 ^= &Wrapping(y);
            let ck: Option<Int<N>> = x.checked_xor(&y).into();
            forms_agree!(
                [
                    x.bitxor(&y), x ^ y, x ^ &y, &x ^ y, &x ^ &y, a1, a2, x.wrapping_xor(&y),
                    ck.unwrap_or(Int::MAX), (Wrapping(x) ^ Wrapping(y)).0, (Wrapping(x) ^ &Wrapping(y)).0,
                    (&Wrapping(x) ^ Wrapping(y)).0, (&Wrapping(x) ^ &Wrapping(y)).0, w1.0, w2.0
                ],
                ihex
            )
        }
        ("not", []) => forms_agree!([x.not(), !x, (!Wrapping(x)).0], ihex),
        ("and_limb", [l]) => ihex(&x.bitand_limb(arg!(limb(l)))),
        _ => return None,
    })
}

fn boxed_op(op: &str, a: &[&str]) -> Option<String> {
    let n = arg!(a.first().and_then(|s| dec(s)));
    let x = arg!(a.get(1).and_then(|s| boxed(s, n)));
    let a = &a[2..];
    let ovf = |r: (BoxedUint, Choice)| format!("{} {}", bhexlen(&r.0), choice(r.1));
    Some(match (op, a) {
        ("shl", [s]) => bhexlen(&x.shl(arg!(dec32(s)))),
        ("shr", [s]) => bhexlen(&x.shr(arg!(dec32(s)))),
        ("overflowing_shl", [s]) => ovf(x.overflowing_shl(arg!(dec32(s)))),
        ("overflowing_shr", [s]) => ovf(x.overflowing_shr(arg!(dec32(s)))),
        ("shl_vartime", [s]) => x.shl_vartime(arg!(dec32(s))).map(|v| bhexlen(&v)).unwrap_or("none".into()),
        ("shr_vartime", [s]) => x.shr_vartime(arg!(dec32(s))).map(|v| bhexlen(&v)).unwrap_or("none".into()),
        ("wrapping_shl", [s]) => bhexlen(&x.wrapping_shl(arg!(dec32(s)))),
        ("wrapping_shr", [s]) => bhexlen(&x.wrapping_shr(arg!(dec32(s)))),
        ("wrapping_shl_vartime", [s]) => bhexlen(&x.wrapping_shl_vartime(arg!(dec32(s)))),
        ("wrapping_shr_vartime", [s]) => bhexlen(&x.wrapping_shr_vartime(arg!(dec32(s)))),
        ("tr_wrapping_shl", [s]) => bhexlen(&WrappingShl::wrapping_shl(&x, arg!(dec32(s)))),
        ("tr_wrapping_shr", [s]) => bhexlen(&WrappingShr::wrapping_shr(&x, arg!(dec32(s)))),
        ("tr_overflowing_shl_vartime", [s]) => cto(ShlVartime::overflowing_shl_vartime(&x, arg!(dec32(s))), bhexlen),
        ("tr_overflowing_shr_vartime", [s]) => cto(ShrVartime::overflowing_shr_vartime(&x, arg!(dec32(s))), bhexlen),
        ("tr_wrapping_shl_vartime", [s]) => bhexlen(&ShlVartime::wrapping_shl_vartime(&x, arg!(dec32(s)))),
        ("tr_wrapping_shr_vartime", [s]) => bhexlen(&ShrVartime::wrapping_shr_vartime(&x, arg!(dec32(s)))),
        ("op_shl", [s, f]) => {
            // the shift as written on the line; amounts above u32::MAX exist only for the `usize` forms 4 and 5
            let s64 = arg!(s.parse::<u64>().ok());
            let su = s64 as usize;
            let s = match u32::try_from(s64) {
                Ok(v) => v,
                Err(_) if *f == "4" || *f == "5" => 0,
                Err(_) => return Some(BAD.into()),
            };
            match *f {
                "0" => bhexlen(&(x << s)),
                "1" => bhexlen(&(&x << s)),
                "2" => {
                    let mut y = x;
                    y <<= s;
                    bhexlen(&y)
                }
                "3" => bhexlen(&(x << (s as i32))),
                "4" => bhexlen(&(&x << su)),
                "5" => {
                    let mut y = x;
                    y <<= su;
                    bhexlen(&y)
                }
                "6" => {
                    let mut y = x;
                    y.shl_assign(s);
                    bhexlen(&y)
                }
                _ => return Some(BAD.into()),
            }
        }
        ("op_shr", [s, f]) => {
            // the shift as written on the line; amounts above u32::MAX exist only for the `usize` forms 4 and 5
            let s64 = arg!(s.parse::<u64>().ok());
            let su = s64 as usize;
            let s = match u32::try_from(s64) {
                Ok(v) => v,
                Err(_) if *f == "4" || *f == "5" => 0,
                Err(_) => return Some(BAD.into()),
            };
            match *f {
                "0" => bhexlen(&(x >> s)),
                "1" => bhexlen(&(&x >> s)),
                "2" => {
                    let mut y = x;
                    y >>= s;
                    bhexlen(&y)
                }
                "3" => bhexlen(&(x >> (s as i32))),
                "4" => bhexlen(&(&x >> su)),
                "5" => {
                    let mut y = x;
                    y >>= su;
                    bhexlen(&y)
                }
                "6" => {
                    let mut y = x;
                    y.shr_assign(s);
                    bhexlen(&y)
                }
                _ => return Some(BAD.into()),
            }
        }
        ("bits", []) => format!("{}", x.bits()),
        ("bits_vartime", []) => format!("{}", x.bits_vartime()),
        ("leading_zeros", []) => format!("{}", x.leading_zeros()),
        ("trailing_zeros", []) => format!("{}", x.trailing_zeros()),
        ("trailing_zeros_vartime", []) => format!("{}", x.trailing_zeros_vartime()),
        ("trailing_ones", []) => format!("{}", x.trailing_ones()),
        ("trailing_ones_vartime", []) => format!("{}", x.trailing_ones_vartime()),
        ("bitops", []) => bitops_line(&x),
        ("bit", [i]) => choice(x.bit(arg!(dec32(i)))),
        ("bit_vartime", [i]) => bit(x.bit_vartime(arg!(dec32(i)))),
        ("tr_bit", [i]) => choice(BitOps::bit(&x, arg!(dec32(i)))),
        ("tr_bit_vartime", [i]) => bit(BitOps::bit_vartime(&x, arg!(dec32(i)))),
        ("set_bit", [i, v]) => {
            let mut y = x;
            BitOps::set_bit(&mut y, arg!(dec32(i)), arg!(tochoice(v)));
            bhexlen(&y)
        }
        ("set_bit_vartime", [i, v]) => {
            let mut y = x;
            BitOps::set_bit_vartime(&mut y, arg!(dec32(i)), *v == "1");
            bhexlen(&y)
        }
        ("not", []) => forms_agree!([x.not(), !x.clone(), (!Wrapping(x.clone())).0], bhexlen),
        ("and_limb", [l]) => bhexlen(&x.bitand_limb(arg!(limb(l)))),
        ("and", [ny, y]) => {
            let y = arg!(boxed(y, arg!(dec(ny))));
            let (mut a1, mut a2) = (x.clone(), x.clone());
            a1 &= y.clone();
            a2 &= &y;
            let (mut w1, mut w2) = (Wrapping(x.clone()), Wrapping(x.clone()));
            w1 &= Wrapping(y.clone());
            w2 &= &Wrapping(y.clone());
            let ck: Option<BoxedUint> = x.checked_and(&y).into();
            forms_agree!(
                [
                    x.bitand(&y), x.clone() & y.clone(), x.clone() & &y, &x & y.clone(), &x & &y, a1, a2,
                    x.wrapping_and(&y), ck.unwrap_or(BoxedUint::zero()),
                    (Wrapping(x.clone()) & Wrapping(y.clone())).0, (Wrapping(x.clone()) & &Wrapping(y.clone())).0,
                    (&Wrapping(x.clone()) & Wrapping(y.clone())).0, (&Wrapping(x.clone()) & &Wrapping(y.clone())).0,
                    w1.0, w2.0
                ],
                bhexlen
            )
        }
        ("or", [ny, y]) => {
            let y = arg!(boxed(y, arg!(dec(ny))));
            let ck: Option<BoxedUint> = x.checked_or(&y).into();
            forms_agree!(
                [
                    x.bitor(&y), x.clone() | y.clone(), x.clone() | &y, &x | y.clone(), &x | &y,
                    x.wrapping_or(&y), ck.unwrap_or(BoxedUint::zero()),
                    (Wrapping(x.clone()) | Wrapping(y.clone())).0, (Wrapping(x.clone()) | &Wrapping(y.clone())).0,
                    (&Wrapping(x.clone()) | Wrapping(y.clone())).0, (&Wrapping(x.clone()) | &Wrapping(y.clone())).0
                ],
                bhexlen
            )
        }
        // `|=` (was a zip over the receiver's limbs before fix e52b2f3): kept as a separate op
        ("or_assign", [ny, y, f]) => {
            let y = arg!(boxed(y, arg!(dec(ny))));
            match *f {
                "0" => {
                    let mut a = x;
                    a |= y;
                    bhexlen(&a)
                }
                "1" => {
                    let mut a = x;
                    a |= &y;
                    bhexlen(&a)
                }
                "2" => {
                    let mut a = Wrapping(x);
                    a |= Wrapping(y);
                    bhexlen(&a.0)
                }
                "3" => {
                    let mut a = Wrapping(x);
                    a |= &Wrapping(y);
                    bhexlen(&a.0)
                }
                _ => return Some(BAD.into()),
            }
        }
        ("xor", [ny, y]) => {
            let y = arg!(boxed(y, arg!(dec(ny))));
            let (mut a1, mut a2) = (x.clone(), x.clone());
            a1 ^= y.clone();
            a2 ^= &y;
            let (mut w1, mut w2) = (Wrapping(x.clone()), Wrapping(x.clone()));
            w1 ^= Wrapping(y.clone());
            w2 ^= &Wrapping(y.clone());
            let ck: Option<BoxedUint> = x.checked_xor(&y).into();
            forms_agree!(
                [
                    x.bitxor(&y), x.clone() ^ y.clone(), x.clone() ^ &y, &x ^ y.clone(), &x ^ &y, a1, a2,
                    x.wrapping_xor(&y), ck.unwrap_or(BoxedUint::zero()),
                    (Wrapping(x.clone()) ^ Wrapping(y.clone())).0, (Wrapping(x.clone()) ^ &Wrapping(y.clone())).0,
                    (&Wrapping(x.clone()) ^ Wrapping(y.clone())).0, (&Wrapping(x.clone()) ^ &Wrapping(y.clone())).0,
                    w1.0, w2.0
                ],
                bhexlen
            )
        }
        _ => return None,
    })
}

fn limb_op(op: &str, a: &[&str]) -> Option<String> {
    let x = arg!(a.first().and_then(|s| limb(s)));
    let a = &a[1..];
    Some(match (op, a) {
        ("shl", [s]) => lhex(x.shl(arg!(dec32(s)))),
        ("shr", [s]) => lhex(x.shr(arg!(dec32(s)))),
        ("op_shl", [s, f]) => {
            // the shift as written on the line; amounts above u32::MAX exist only for the `usize` forms 4 and 5
            let s64 = arg!(s.parse::<u64>().ok());
            let su = s64 as usize;
            let s = match u32::try_from(s64) {
                Ok(v) => v,
                Err(_) if *f == "4" || *f == "5" => 0,
                Err(_) => return Some(BAD.into()),
            };
            match *f {
                "0" => lhex(x << s),
                "1" => lhex(&x << s),
                "2" => {
                    let mut y = x;
                    y <<= s;
                    lhex(y)
                }
                "3" => lhex(x << (s as i32)),
                "4" => lhex(&x << su),
                "5" => {
                    let mut y = x;
                    y <<= su;
                    lhex(y)
                }
                _ => return Some(BAD.into()),
            }
        }
        ("op_shr", [s, f]) => {
            // the shift as written on the line; amounts above u32::MAX exist only for the `usize` forms 4 and 5
            let s64 = arg!(s.parse::<u64>().ok());
            let su = s64 as usize;
            let s = match u32::try_from(s64) {
                Ok(v) => v,
                Err(_) if *f == "4" || *f == "5" => 0,
                Err(_) => return Some(BAD.into()),
            };
            match *f {
                "0" => lhex(x >> s),
                "1" => lhex(&x >> s),
                "2" => {
                    let mut y = x;
                    y >>= s;
                    lhex(y)
                }
                "3" => lhex(x >> (s as i32)),
                "4" => lhex(&x >> su),
                "5" => {
                    let mut y = x;
                    y >>= su;
                    lhex(y)
                }
                _ => return Some(BAD.into()),
            }
        }
        ("wrapping_shl", [s]) => lhex(WrappingShl::wrapping_shl(&x, arg!(dec32(s)))),
        ("wrapping_shr", [s]) => lhex(WrappingShr::wrapping_shr(&x, arg!(dec32(s)))),
        ("bits", []) => format!("{}", x.bits()),
        ("leading_zeros", []) => format!("{}", x.leading_zeros()),
        ("trailing_zeros", []) => format!("{}", x.trailing_zeros()),
        ("trailing_ones", []) => format!("{}", x.trailing_ones()),
        // ---- coverage round: `Limb` bitwise operators incl. the assigning forms (src/limb/bit_and.rs 23-33,
        // bit_or.rs 22-32, bit_xor.rs 14-24, bit_not.rs)
        ("and", [y]) => {
            let y = arg!(limb(y));
            let (mut a1, mut a2) = (x, x);
            a1 &= y;
            a2 &= &y;
            forms_agree!([x.bitand(y), x & y, a1, a2], |l: &Limb| lhex(*l))
        }
        ("or", [y]) => {
            let y = arg!(limb(y));
            let (mut a1, mut a2) = (x, x);
            a1 |= y;
            a2 |= &y;
            forms_agree!([x.bitor(y), x | y, a1, a2], |l: &Limb| lhex(*l))
        }
        ("xor", [y]) => {
            let y = arg!(limb(y));
            let mut a1 = x;
            a1 ^= y;
            forms_agree!([x.bitxor(y), x ^ y, a1], |l: &Limb| lhex(*l))
        }
        ("not", []) => forms_agree!([x.not(), !x], |l: &Limb| lhex(*l)),
        _ => return None,
    })
}

// ---- hook ops: crate-internal functions reached through `crypto_bigint::verif_hooks`
#[cfg(crypto_bigint_verif)]
fn hook_fixed<const N: usize>(op: &str, a: &[&str]) -> Option<String> {
    use crypto_bigint::verif_hooks as h;
    let x = arg!(a.first().and_then(|s| uint::<N>(s)));
    let a = &a[1..];
    Some(match (op, a) {
        ("shl_limb", [s]) => {
            let (r, c) = h::uint_shl_limb(&x, arg!(dec32(s)));
            format!("{} {}", uhex(&r), lhex(c))
        }
        ("shl1", []) => {
            let (r, c) = h::uint_overflowing_shl1(&x);
            format!("{} {}", uhex(&r), lhex(c))
        }
        ("shr1", []) => {
            let (r, c) = h::uint_shr1_with_carry(&x);
            format!("{} {}", uhex(&r), cchoice(c))
        }
        ("ushr1", []) => uhex(&h::uint_shr1(&x)),
        _ => return None,
    })
}
#[cfg(crypto_bigint_verif)]
fn hook_boxed(op: &str, a: &[&str]) -> Option<String> {
    use crypto_bigint::verif_hooks as h;
    let n = arg!(a.first().and_then(|s| dec(s)));
    let x = arg!(a.get(1).and_then(|s| boxed(s, n)));
    let a = &a[2..];
    Some(match (op, a) {
        ("bshl_limb", [s]) => {
            let (r, c) = h::boxed_shl_limb(&x, arg!(dec32(s)));
            format!("{} {}", bhexlen(&r), lhex(c))
        }
        ("bshl1", []) => {
            let (r, c) = h::boxed_overflowing_shl1(&x);
            format!("{} {}", bhexlen(&r), lhex(c))
        }
        ("bshr1", []) => bhexlen(&h::boxed_shr1(&x)),
        _ => return None,
    })
}

pub fn dispatch(op: &str, a: &[&str]) -> Option<String> {
    let mut parts = op.splitn(3, '.');
    let (_, kind, name) = (parts.next()?, parts.next()?, parts.next()?);
    match kind {
        "l" => limb_op(name, a),
        "hook" if name.starts_with('b') => hook_boxed(name, a),
        "hook" => {
            if a.is_empty() {
                return Some(BAD.into());
            }
            let n = arg!(dec(a[0]));
            let rest = &a[1..];
            with_n!(n, hook_fixed, name, rest)
        }
        "b" => boxed_op(name, a),
        "u" | "i" => {
            if a.is_empty() {
                return Some(BAD.into());
            }
            let n = arg!(dec(a[0]));
            let rest = &a[1..];
            if kind == "u" { with_n!(n, fixed, name, rest) } else { with_n!(n, signed, name, rest) }
        }
        _ => None,
    }
}

// ---- the same entry points when the crate is built WITHOUT `--cfg crypto_bigint_verif` (fallback build of the runner when the
// hook forwarders of /repo no longer compile, e.g. after a refactor of an internal signature): hook operations answer
// `hook-unavailable` and are skipped by the runner; the public operations still run.
#[cfg(not(crypto_bigint_verif))]
fn hook_fixed<const N: usize>(_op: &str, _a: &[&str]) -> Option<String> {
    Some(crate::util::HOOK_UNAVAILABLE.to_string())
}
#[cfg(not(crypto_bigint_verif))]
fn hook_boxed(_op: &str, _a: &[&str]) -> Option<String> {
    Some(crate::util::HOOK_UNAVAILABLE.to_string())
}
