//! C17 — radix strings (op names start with `c17.`)
//!
//! Strings travel as `x`-hex of their bytes; the crate API takes `&str`, so the bytes must be
//! valid UTF-8 (anything else is a generator bug → `bad-args`).
//!
//! c17.u.parse      <limbs> <radix> <xstr>      Uint::<N>::from_str_radix_vartime      -> hex | err:<Kind>
//! c17.u.parse_num  <limbs> <radix> <xstr>      <Uint<N> as num_traits::Num>::from_str_radix
//! c17.u.fmt        <limbs> <radix> <hex>       Uint::<N>::to_string_radix_vartime     -> xstr
//! c17.b.parse      <radix> <xstr>              BoxedUint::from_str_radix_vartime      -> n:hex | err
//! c17.b.parse_prec <radix> <bits> <xstr>       BoxedUint::from_str_radix_with_precision_vartime -> n:hex | err
//! c17.b.fmt        <limbs> <radix> <hex>       BoxedUint::to_string_radix_vartime     -> xstr
//! c17.b.roundtrip  <radix> <xstr>              parse (no precision) then format       -> xstr | err
//! c17.b.parse_bits <radix> <xstr>              parse (no precision) then bits_vartime -> decimal | err
use crate::util::*;
use crypto_bigint::{BoxedUint, DecodeError, Uint};

fn err(e: DecodeError) -> String {
    match e {
        DecodeError::Empty => "err:Empty".into(),
        DecodeError::InvalidDigit => "err:InvalidDigit".into(),
        DecodeError::InputSize => "err:InputSize".into(),
        DecodeError::Precision => "err:Precision".into(),
    }
}

fn text(tok: &str) -> Option<String> {
    String::from_utf8(bytes(tok)?).ok()
}

fn fixed<const N: usize>(op: &str, a: &[&str]) -> Option<String> {
    Some(match (op, a) {
        ("c17.u.parse", [r, s]) => {
            let (r, s) = (arg!(dec32(r)), arg!(text(s)));
            match Uint::<N>::from_str_radix_vartime(&s, r) {
                Ok(v) => uhex(&v),
                Err(e) => err(e),
            }
        }
        ("c17.u.parse_num", [r, s]) => {
            let (r, s) = (arg!(dec32(r)), arg!(text(s)));
            match <Uint<N> as num_traits::Num>::from_str_radix(&s, r) {
                Ok(v) => uhex(&v),
                Err(e) => err(e),
            }
        }
        ("c17.u.fmt", [r, x]) => {
            let (r, x) = (arg!(dec32(r)), arg!(uint::<N>(x)));
            bytes_tok(x.to_string_radix_vartime(r).as_bytes())
        }
        _ => return None,
    })
}

fn fixed_n(n: usize, op: &str, a: &[&str]) -> Option<String> {
    match n {
        1 => fixed::<1>(op, a),
        2 => fixed::<2>(op, a),
        3 => fixed::<3>(op, a),
        4 => fixed::<4>(op, a),
        8 => fixed::<8>(op, a),
        16 => fixed::<16>(op, a),
        33 => fixed::<33>(op, a),
        40 => fixed::<40>(op, a),
        _ => Some("unsupported-width".to_string()),
    }
}

pub fn dispatch(op: &str, a: &[&str]) -> Option<String> {
    match (op, a) {
        ("c17.b.parse", [r, s]) => {
            let (r, s) = (arg!(dec32(r)), arg!(text(s)));
            Some(match BoxedUint::from_str_radix_vartime(&s, r) {
                Ok(v) => bhexlen(&v),
                Err(e) => err(e),
            })
        }
        ("c17.b.parse_prec", [r, p, s]) => {
            let (r, p, s) = (arg!(dec32(r)), arg!(dec32(p)), arg!(text(s)));
            Some(match BoxedUint::from_str_radix_with_precision_vartime(&s, r, p) {
                Ok(v) => bhexlen(&v),
                Err(e) => err(e),
            })
        }
        ("c17.b.fmt", [n, r, x]) => {
            let (n, r) = (arg!(dec(n)), arg!(dec32(r)));
            let x = arg!(boxed(x, n));
            Some(bytes_tok(x.to_string_radix_vartime(r).as_bytes()))
        }
        ("c17.b.roundtrip", [r, s]) => {
            let (r, s) = (arg!(dec32(r)), arg!(text(s)));
            Some(match BoxedUint::from_str_radix_vartime(&s, r) {
                Ok(v) => bytes_tok(v.to_string_radix_vartime(r).as_bytes()),
                Err(e) => err(e),
            })
        }
        ("c17.b.parse_bits", [r, s]) => {
            let (r, s) = (arg!(dec32(r)), arg!(text(s)));
            Some(match BoxedUint::from_str_radix_vartime(&s, r) {
                Ok(v) => format!("{}", v.bits_vartime()),
                Err(e) => err(e),
            })
        }
        _ if op.starts_with("c17.u.") && !a.is_empty() => {
            let n = arg!(dec(a[0]));
            fixed_n(n, op, &a[1..])
        }
        _ => None,
    }
}
