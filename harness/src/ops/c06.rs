//! C06 operations (op names start with `c06.`): comparison, equality, hashing, selection
use crate::util::*;
use core::cmp::Ordering;
use crypto_bigint::subtle::{
    Choice, ConditionallyNegatable, ConditionallySelectable, ConstantTimeEq, ConstantTimeGreater,
    ConstantTimeLess, CtOption,
};
use crypto_bigint::{BoxedUint, ConstantTimeSelect, Int, Integer, Limb, Uint, Zero};
use std::hash::{DefaultHasher, Hash, Hasher};

fn ord(o: Ordering) -> &'static str {
    match o {
        Ordering::Less => "lt",
        Ordering::Equal => "eq",
        Ordering::Greater => "gt",
    }
}

fn h<T: Hash>(t: &T) -> u64 {
    let mut s = DefaultHasher::new();
    t.hash(&mut s);
    s.finish()
}

/// all routes must agree before anything is printed; a disagreement is reported as a distinct token
fn agree(vals: &[String]) -> String {
    if vals.iter().all(|v| *v == vals[0]) {
        vals[0].clone()
    } else {
        format!("routes-differ:{}", vals.join("|"))
    }
}

fn fixed<const N: usize>(op: &str, a: &[&str]) -> Option<String> {
    Some(match (op, a) {
        ("c06.u.cmp", [x, y]) => {
            let (x, y) = (arg!(uint::<N>(x)), arg!(uint::<N>(y)));
            let eq = agree(&[choice(x.ct_eq(&y)), bit(x == y), bit(!(x != y)), choice(!x.ct_ne(&y))]);
            let lt = agree(&[choice(x.ct_lt(&y)), bit(x < y), bit(y > x)]);
            let gt = agree(&[choice(x.ct_gt(&y)), bit(x > y), bit(y < x)]);
            let le = agree(&[bit(x <= y), bit(y >= x)]);
            let c = agree(&[ord(x.cmp(&y)).to_string(), ord(x.partial_cmp(&y).unwrap()).to_string(), ord(y.cmp(&x).reverse()).to_string()]);
            format!("{eq} {lt} {gt} {le} {c} {}", ord(x.cmp_vartime(&y)))
        }
        ("c06.u.tests", [x]) => {
            let x = arg!(uint::<N>(x));
            let z = agree(&[choice(x.is_zero()), bit(x == Uint::<N>::ZERO)]);
            let odd = choice(Integer::is_odd(&x));
            let even = choice(Integer::is_even(&x));
            let one = agree(&[bit(x == Uint::<N>::ONE), choice(x.ct_eq(&Uint::<N>::ONE))]);
            format!("{z} {odd} {even} {one}")
        }
        ("c06.i.cmp", [x, y]) => {
            let (x, y) = (arg!(int::<N>(x)), arg!(int::<N>(y)));
            let eq = agree(&[choice(x.ct_eq(&y)), bit(x == y)]);
            let lt = agree(&[choice(x.ct_lt(&y)), bit(x < y), bit(y > x)]);
            let gt = agree(&[choice(x.ct_gt(&y)), bit(x > y), bit(y < x)]);
            let c = agree(&[ord(x.cmp(&y)).to_string(), ord(x.partial_cmp(&y).unwrap()).to_string()]);
            format!("{eq} {lt} {gt} {c} {}", ord(x.cmp_vartime(&y)))
        }
        ("c06.i.tests", [x]) => {
            let x = arg!(int::<N>(x));
            let z = agree(&[choice(Zero::is_zero(&x)), bit(x == Int::<N>::ZERO)]);
            format!(
                "{} {} {} {} {z}",
                cchoice(x.is_negative()),
                cchoice(x.is_positive()),
                cchoice(x.is_min()),
                cchoice(x.is_max())
            )
        }
        ("c06.u.hash", [x, y]) => {
            let (x, y) = (arg!(uint::<N>(x)), arg!(uint::<N>(y)));
            if x == y { format!("1 {}", bit(h(&x) == h(&y))) } else { "0 -".into() }
        }
        ("c06.u.select", [x, y, c]) => {
            let (x, y, c) = (arg!(uint::<N>(x)), arg!(uint::<N>(y)), arg!(tochoice(c)));
            let sel = agree(&[uhex(&Uint::conditional_select(&x, &y, c)), uhex(&Uint::ct_select(&x, &y, c))]);
            let mut t = x;
            t.conditional_assign(&y, c);
            let mut t2 = x;
            t2.ct_assign(&y, c);
            let asg = agree(&[uhex(&t), uhex(&t2)]);
            let (mut p, mut q) = (x, y);
            Uint::conditional_swap(&mut p, &mut q, c);
            let (mut p2, mut q2) = (x, y);
            Uint::ct_swap(&mut p2, &mut q2, c);
            format!("{sel} {asg} {} {}", agree(&[uhex(&p), uhex(&p2)]), agree(&[uhex(&q), uhex(&q2)]))
        }
        ("c06.u.ctoption", [x, d, c]) => {
            let (x, d, c) = (arg!(uint::<N>(x)), arg!(uint::<N>(d)), arg!(dec(c)));
            // a ConstCtOption with a chosen `is_some` through the public API
            let mk = || x.overflowing_shl(if c == 1 { 0 } else { Uint::<N>::BITS });
            let o = mk();
            let ct: CtOption<Uint<N>> = mk().into();
            let opt: Option<Uint<N>> = mk().into();
            let some = agree(&[cchoice(o.is_some()), bit(!bool::from(o.is_none())), bit(opt.is_some())]);
            format!("{some} {} {} {}", uhex(&o.unwrap_or(d)), choice(ct.is_some()), uhex(&ct.unwrap_or(d)))
        }
        _ => return None,
    })
}

pub fn dispatch(op: &str, a: &[&str]) -> Option<String> {
    match (op, a) {
        ("c06.w.cmp", [x, y]) => {
            let (x, y) = (arg!(limb(x)), arg!(limb(y)));
            let eq = agree(&[choice(x.ct_eq(&y)), bit(x == y), bit(x.eq_vartime(&y)), choice(!x.ct_ne(&y))]);
            let lt = agree(&[choice(x.ct_lt(&y)), bit(x < y)]);
            let gt = agree(&[choice(x.ct_gt(&y)), bit(x > y)]);
            let c = agree(&[ord(x.cmp(&y)).into(), ord(x.partial_cmp(&y).unwrap()).into(), ord(x.cmp_vartime(&y)).into()]);
            Some(format!("{eq} {lt} {gt} {c} {} {}", choice(x.is_odd()), choice(x.is_zero())))
        }
        ("c06.w.select", [x, y, c]) => {
            let (x, y, c) = (arg!(limb(x)), arg!(limb(y)), arg!(tochoice(c)));
            Some(lhex(Limb::conditional_select(&x, &y, c)))
        }
        ("c06.b.cmp", [na, x, nb, y]) => {
            let x = arg!(boxed(x, arg!(dec(na))));
            let y = arg!(boxed(y, arg!(dec(nb))));
            let eq = agree(&[choice(x.ct_eq(&y)), bit(x == y)]);
            let lt = agree(&[choice(x.ct_lt(&y)), bit(x < y)]);
            let gt = agree(&[choice(x.ct_gt(&y)), bit(x > y)]);
            let c = agree(&[ord(x.cmp(&y)).into(), ord(x.partial_cmp(&y).unwrap()).into()]);
            Some(format!("{eq} {lt} {gt} {c}"))
        }
        ("c06.b.cmp_vartime", [n, x, y]) => {
            let n = arg!(dec(n));
            let (x, y) = (arg!(boxed(x, n)), arg!(boxed(y, n)));
            Some(ord(x.cmp_vartime(&y)).to_string())
        }
        ("c06.b.hash", [na, x, nb, y]) => {
            let x = arg!(boxed(x, arg!(dec(na))));
            let y = arg!(boxed(y, arg!(dec(nb))));
            Some(if x == y { format!("1 {}", bit(h(&x) == h(&y))) } else { "0 -".into() })
        }
        ("c06.b.select", [n, x, y, c]) => {
            let n = arg!(dec(n));
            let (x, y, c): (BoxedUint, BoxedUint, Choice) = (arg!(boxed(x, n)), arg!(boxed(y, n)), arg!(tochoice(c)));
            let sel = BoxedUint::ct_select(&x, &y, c);
            let mut t = x.clone();
            t.ct_assign(&y, c);
            let (mut p, mut q) = (x.clone(), y.clone());
            BoxedUint::ct_swap(&mut p, &mut q, c);
            let mut ng = x.clone();
            ng.conditional_negate(c);
            Some(format!("{} {} {} {} {}", bhexlen(&sel), bhexlen(&t), bhexlen(&p), bhexlen(&q), bhexlen(&ng)))
        }
        _ if (op.starts_with("c06.u.") || op.starts_with("c06.i.")) && !a.is_empty() => {
            let n = arg!(dec(a[0]));
            let rest = &a[1..];
            with_n!(n, fixed, op, rest)
        }
        _ => None,
    }
}
