//! C06 operations (op names start with `c06.`): comparison, equality, hashing, selection
use crate::util::*;
use core::cmp::Ordering;
use crypto_bigint::subtle::{
    Choice, ConditionallyNegatable, ConditionallySelectable, ConstantTimeEq, ConstantTimeGreater,
    ConstantTimeLess, CtOption,
};
use crypto_bigint::{BoxedUint, ConstChoice, ConstantTimeSelect, Int, Integer, Limb, NonZero, Odd, Uint, Zero};
use std::hash::{DefaultHasher, Hash, Hasher};

fn ord(o: Ordering) -> &'static str {
    match o {
        Ordering::Less => "lt",
        Ordering::Equal => "eq",
        Ordering::Greater => "gt",
    }
}

fn h<T: Hash>(t: &T) -> u64 {
    let mut s = DefaultHasher::new();
    t.hash(&mut s);
    s.finish()
}

/// all routes must agree before anything is printed; a disagreement is reported as a distinct token
fn agree(vals: &[String]) -> String {
    if vals.iter().all(|v| *v == vals[0]) {
        vals[0].clone()
    } else {
        format!("routes-differ:{}", vals.join("|"))
    }
}

fn fixed<const N: usize>(op: &str, a: &[&str]) -> Option<String> {
    Some(match (op, a) {
        ("c06.u.cmp", [x, y]) => {
            let (x, y) = (arg!(uint::<N>(x)), arg!(uint::<N>(y)));
            let eq = agree(&[choice(x.ct_eq(&y)), bit(x == y), bit(!(x != y)), choice(!x.ct_ne(&y))]);
            let lt = agree(&[choice(x.ct_lt(&y)), bit(x < y), bit(y > x)]);
            let gt = agree(&[choice(x.ct_gt(&y)), bit(x > y), bit(y < x)]);
            let le = agree(&[bit(x <= y), bit(y >= x)]);
            let c = agree(&[ord(x.cmp(&y)).to_string(), ord(x.partial_cmp(&y).unwrap()).to_string(), ord(y.cmp(&x).reverse()).to_string()]);
            format!("{eq} {lt} {gt} {le} {c} {}", ord(x.cmp_vartime(&y)))
        }
        ("c06.u.tests", [x]) => {
            let x = arg!(uint::<N>(x));
            let z = agree(&[choice(x.is_zero()), bit(x == Uint::<N>::ZERO)]);
            let odd = choice(Integer::is_odd(&x));
            let even = choice(Integer::is_even(&x));
            let one = agree(&[bit(x == Uint::<N>::ONE), choice(x.ct_eq(&Uint::<N>::ONE))]);
            format!("{z} {odd} {even} {one}")
        }
        ("c06.i.cmp", [x, y]) => {
            let (x, y) = (arg!(int::<N>(x)), arg!(int::<N>(y)));
            let eq = agree(&[choice(x.ct_eq(&y)), bit(x == y)]);
            let lt = agree(&[choice(x.ct_lt(&y)), bit(x < y), bit(y > x)]);
            let gt = agree(&[choice(x.ct_gt(&y)), bit(x > y), bit(y < x)]);
            let c = agree(&[ord(x.cmp(&y)).to_string(), ord(x.partial_cmp(&y).unwrap()).to_string()]);
            format!("{eq} {lt} {gt} {c} {}", ord(x.cmp_vartime(&y)))
        }
        ("c06.i.tests", [x]) => {
            let x = arg!(int::<N>(x));
            let z = agree(&[choice(Zero::is_zero(&x)), bit(x == Int::<N>::ZERO)]);
            format!(
                "{} {} {} {} {z}",
                cchoice(x.is_negative()),
                cchoice(x.is_positive()),
                cchoice(x.is_min()),
                cchoice(x.is_max())
            )
        }
        ("c06.u.hash", [x, y]) => {
            let (x, y) = (arg!(uint::<N>(x)), arg!(uint::<N>(y)));
            if x == y { format!("1 {}", bit(h(&x) == h(&y))) } else { "0 -".into() }
        }
        ("c06.u.select", [x, y, c]) => {
            let (x, y, c) = (arg!(uint::<N>(x)), arg!(uint::<N>(y)), arg!(tochoice(c)));
            let sel = agree(&[uhex(&Uint::conditional_select(&x, &y, c)), uhex(&Uint::ct_select(&x, &y, c))]);
            let mut t = x;
            t.conditional_assign(&y, c);
            let mut t2 = x;
            t2.ct_assign(&y, c);
            let asg = agree(&[uhex(&t), uhex(&t2)]);
            let (mut p, mut q) = (x, y);
            Uint::conditional_swap(&mut p, &mut q, c);
            let (mut p2, mut q2) = (x, y);
            Uint::ct_swap(&mut p2, &mut q2, c);
            format!("{sel} {asg} {} {}", agree(&[uhex(&p), uhex(&p2)]), agree(&[uhex(&q), uhex(&q2)]))
        }
        ("c06.u.ctoption", [x, d, c]) => {
            let (x, d, c) = (arg!(uint::<N>(x)), arg!(uint::<N>(d)), arg!(dec(c)));
            // a ConstCtOption with a chosen `is_some` through the public API
            let mk = || x.overflowing_shl(if c == 1 { 0 } else { Uint::<N>::BITS });
            let o = mk();
            let ct: CtOption<Uint<N>> = mk().into();
            let opt: Option<Uint<N>> = mk().into();
            let some = agree(&[cchoice(o.is_some()), bit(!bool::from(o.is_none())), bit(opt.is_some())]);
            format!("{some} {} {} {}", uhex(&o.unwrap_or(d)), choice(ct.is_some()), uhex(&ct.unwrap_or(d)))
        }
        // ---- coverage round: num-traits style constructors / tests of `Uint` (src/uint.rs 258-299) and the
        // provided methods `one_like`, `set_zero`, `zero_like` of src/traits.rs; prints
        // one  from_limb_like(l, x)  nlimbs  zero  is_zero  is_one  one_like  set_zero  zero_like
        ("c06.u.numtests", [x, l]) => {
            let (x, l) = (arg!(uint::<N>(x)), arg!(limb(l)));
            let one = agree(&[uhex(&<Uint<N> as num_traits::One>::one()), uhex(&<Uint<N> as Integer>::one())]);
            let zero = agree(&[uhex(&<Uint<N> as num_traits::Zero>::zero()), uhex(&<Uint<N> as Zero>::zero())]);
            let mut z = x;
            Zero::set_zero(&mut z);
            format!(
                "{one} {} {} {zero} {} {} {} {} {}",
                uhex(&<Uint<N> as Integer>::from_limb_like(l, &x)),
                Integer::nlimbs(&x),
                bit(num_traits::Zero::is_zero(&x)),
                bit(num_traits::One::is_one(&x)),
                uhex(&<Uint<N> as Integer>::one_like(&x)),
                uhex(&z),
                uhex(&<Uint<N> as Zero>::zero_like(&x))
            )
        }
        // `Int` (src/int.rs 221-235): zero  is_zero  one  is_one  set_zero  zero_like
        ("c06.i.numtests", [x]) => {
            let x = arg!(int::<N>(x));
            let zero = agree(&[ihex(&<Int<N> as num_traits::Zero>::zero()), ihex(&<Int<N> as Zero>::zero())]);
            let mut z = x;
            Zero::set_zero(&mut z);
            format!(
                "{zero} {} {} {} {} {}",
                bit(num_traits::Zero::is_zero(&x)),
                ihex(&<Int<N> as num_traits::One>::one()),
                bit(num_traits::One::is_one(&x)),
                ihex(&z),
                ihex(&<Int<N> as Zero>::zero_like(&x))
            )
        }
        // comparisons through the `Odd` / `NonZero` wrappers (src/odd.rs 110-146, src/non_zero.rs 213-220); prints
        // [x == Odd(y)  x.partial_cmp(&Odd(y))  x < Odd(y)  x > Odd(y)] (`-` each when y is even)
        // Odd(x).ct_eq(&Odd(y)) (`-` unless both odd)   NonZero(x).ct_eq(&NonZero(y)) (`-` unless both nonzero)
        ("c06.u.wrapped_cmp", [x, y]) => {
            let (x, y) = (arg!(uint::<N>(x)), arg!(uint::<N>(y)));
            let oy: Option<Odd<Uint<N>>> = Odd::new(y).into();
            let ox: Option<Odd<Uint<N>>> = Odd::new(x).into();
            let first = match &oy {
                Some(oy) => format!(
                    "{} {} {} {}",
                    agree(&[bit(x == *oy), bit(!(x != *oy))]),
                    ord(x.partial_cmp(oy).unwrap()),
                    bit(x < *oy),
                    bit(x > *oy)
                ),
                None => "- - - -".into(),
            };
            let oeq = match (&ox, &oy) {
                (Some(a), Some(b)) => choice(a.ct_eq(b)),
                _ => "-".into(),
            };
            let nx: Option<NonZero<Uint<N>>> = NonZero::new(x).into();
            let ny: Option<NonZero<Uint<N>>> = NonZero::new(y).into();
            let neq = match (&nx, &ny) {
                (Some(a), Some(b)) => choice(a.ct_eq(b)),
                _ => "-".into(),
            };
            format!("{first} {oeq} {neq}")
        }
        _ => return None,
    })
}

/// a downstream type that implements only the required method of `ConstantTimeSelect`, so that the PROVIDED
/// `ct_assign` / `ct_swap` (src/traits.rs 48-60) are the ones executed (every crate type overrides them)
#[derive(Clone)]
struct OnlySelect(BoxedUint);
impl ConstantTimeSelect for OnlySelect {
    fn ct_select(a: &Self, b: &Self, choice: Choice) -> Self {
        OnlySelect(BoxedUint::ct_select(&a.0, &b.0, choice))
    }
}

pub fn dispatch(op: &str, a: &[&str]) -> Option<String> {
    match (op, a) {
        // ---- coverage round: `Limb` num-traits forms (src/limb.rs 127-143) and the provided `set_zero` / `zero_like`; prints
        // zero  is_zero  one  is_one  set_zero  zero_like
        ("c06.w.numtests", [x]) => {
            let x = arg!(limb(x));
            let zero = agree(&[lhex(<Limb as num_traits::Zero>::zero()), lhex(<Limb as Zero>::zero())]);
            let mut z = x;
            Zero::set_zero(&mut z);
            Some(format!(
                "{zero} {} {} {} {} {}",
                agree(&[bit(num_traits::Zero::is_zero(&x)), choice(Zero::is_zero(&x))]),
                lhex(<Limb as num_traits::One>::one()),
                bit(num_traits::One::is_one(&x)),
                lhex(z),
                lhex(<Limb as Zero>::zero_like(&x))
            ))
        }
        // `ConstChoice: PartialEq` (src/const_choice.rs 281-285): ==  !=
        ("c06.w.choice_eq", [p, q]) => {
            let (p, q): (ConstChoice, ConstChoice) = (arg!(toconst(p)), arg!(toconst(q)));
            Some(format!("{} {}", bit(p == q), bit(p != q)))
        }
        // `BoxedUint` (src/uint/boxed.rs 105-110, 300-352); prints
        // is_one  default  one  from_limb_like(l, x)  nlimbs  zero  is_zero  set_zero  is_one(num)  one_like  zero_like
        ("c06.b.numtests", [n, x, l]) => {
            let (x, l) = (arg!(boxed(x, arg!(dec(n)))), arg!(limb(l)));
            let one = agree(&[bhexlen(&<BoxedUint as num_traits::One>::one()), bhexlen(&<BoxedUint as Integer>::one())]);
            let zero = agree(&[bhexlen(&<BoxedUint as num_traits::Zero>::zero()), bhexlen(&<BoxedUint as Zero>::zero())]);
            let isz = agree(&[bit(num_traits::Zero::is_zero(&x)), choice(Zero::is_zero(&x))]);
            let mut z = x.clone();
            Zero::set_zero(&mut z);
            Some(format!(
                "{} {} {one} {} {} {zero} {isz} {} {} {} {}",
                choice(x.is_one()),
                bhexlen(&BoxedUint::default()),
                bhexlen(&<BoxedUint as Integer>::from_limb_like(l, &x)),
                Integer::nlimbs(&x),
                bhexlen(&z),
                bit(num_traits::One::is_one(&x)),
                bhexlen(&<BoxedUint as Integer>::one_like(&x)),
                bhexlen(&<BoxedUint as Zero>::zero_like(&x))
            ))
        }
        // the PROVIDED `ConstantTimeSelect::ct_assign` / `ct_swap`: assign  swap.0  swap.1
        ("c06.b.select_default", [n, x, y, c]) => {
            let n = arg!(dec(n));
            let (x, y, c) = (OnlySelect(arg!(boxed(x, n))), OnlySelect(arg!(boxed(y, n))), arg!(tochoice(c)));
            let mut t = x.clone();
            t.ct_assign(&y, c);
            let (mut p, mut q) = (x.clone(), y.clone());
            OnlySelect::ct_swap(&mut p, &mut q, c);
            Some(format!("{} {} {}", bhexlen(&t.0), bhexlen(&p.0), bhexlen(&q.0)))
        }
        // `BoxedUint` vs `Odd<BoxedUint>` (src/odd.rs 148-160) and the wrappers' ct_eq, any two precisions
        ("c06.b.wrapped_cmp", [na, x, nb, y]) => {
            let x = arg!(boxed(x, arg!(dec(na))));
            let y = arg!(boxed(y, arg!(dec(nb))));
            let oy: Option<Odd<BoxedUint>> = Odd::new(y.clone()).into();
            let ox: Option<Odd<BoxedUint>> = Odd::new(x.clone()).into();
            let first = match &oy {
                Some(oy) => format!(
                    "{} {} {} {}",
                    agree(&[bit(x == *oy), bit(!(x != *oy))]),
                    ord(x.partial_cmp(oy).unwrap()),
                    bit(x < *oy),
                    bit(x > *oy)
                ),
                None => "- - - -".into(),
            };
            let oeq = match (&ox, &oy) {
                (Some(a), Some(b)) => choice(a.ct_eq(b)),
                _ => "-".into(),
            };
            let nx: Option<NonZero<BoxedUint>> = NonZero::new(x).into();
            let ny: Option<NonZero<BoxedUint>> = NonZero::new(y).into();
            let neq = match (&nx, &ny) {
                (Some(a), Some(b)) => choice(a.ct_eq(b)),
                _ => "-".into(),
            };
            Some(format!("{first} {oeq} {neq}"))
        }
        ("c06.w.cmp", [x, y]) => {
            let (x, y) = (arg!(limb(x)), arg!(limb(y)));
            let eq = agree(&[choice(x.ct_eq(&y)), bit(x == y), bit(x.eq_vartime(&y)), choice(!x.ct_ne(&y))]);
            let lt = agree(&[choice(x.ct_lt(&y)), bit(x < y)]);
            let gt = agree(&[choice(x.ct_gt(&y)), bit(x > y)]);
            let c = agree(&[ord(x.cmp(&y)).into(), ord(x.partial_cmp(&y).unwrap()).into(), ord(x.cmp_vartime(&y)).into()]);
            Some(format!("{eq} {lt} {gt} {c} {} {}", choice(x.is_odd()), choice(x.is_zero())))
        }
        ("c06.w.select", [x, y, c]) => {
            let (x, y, c) = (arg!(limb(x)), arg!(limb(y)), arg!(tochoice(c)));
            Some(lhex(Limb::conditional_select(&x, &y, c)))
        }
        ("c06.b.cmp", [na, x, nb, y]) => {
            let x = arg!(boxed(x, arg!(dec(na))));
            let y = arg!(boxed(y, arg!(dec(nb))));
            let eq = agree(&[choice(x.ct_eq(&y)), bit(x == y)]);
            let lt = agree(&[choice(x.ct_lt(&y)), bit(x < y)]);
            let gt = agree(&[choice(x.ct_gt(&y)), bit(x > y)]);
            let c = agree(&[ord(x.cmp(&y)).into(), ord(x.partial_cmp(&y).unwrap()).into()]);
            Some(format!("{eq} {lt} {gt} {c}"))
        }
        ("c06.b.cmp_vartime", [n, x, y]) => {
            let n = arg!(dec(n));
            let (x, y) = (arg!(boxed(x, n)), arg!(boxed(y, n)));
            Some(ord(x.cmp_vartime(&y)).to_string())
        }
        ("c06.b.hash", [na, x, nb, y]) => {
            let x = arg!(boxed(x, arg!(dec(na))));
            let y = arg!(boxed(y, arg!(dec(nb))));
            Some(if x == y { format!("1 {}", bit(h(&x) == h(&y))) } else { "0 -".into() })
        }
        ("c06.b.select", [n, x, y, c]) => {
            let n = arg!(dec(n));
            let (x, y, c): (BoxedUint, BoxedUint, Choice) = (arg!(boxed(x, n)), arg!(boxed(y, n)), arg!(tochoice(c)));
            let sel = BoxedUint::ct_select(&x, &y, c);
            let mut t = x.clone();
            t.ct_assign(&y, c);
            let (mut p, mut q) = (x.clone(), y.clone());
            BoxedUint::ct_swap(&mut p, &mut q, c);
            let mut ng = x.clone();
            ng.conditional_negate(c);
            Some(format!("{} {} {} {} {}", bhexlen(&sel), bhexlen(&t), bhexlen(&p), bhexlen(&q), bhexlen(&ng)))
        }
        _ if (op.starts_with("c06.u.") || op.starts_with("c06.i.")) && !a.is_empty() => {
            let n = arg!(dec(a[0]));
            let rest = &a[1..];
            with_n!(n, fixed, op, rest)
        }
        _ => None,
    }
}
