//! C09 operations (op names start with `c09.`): pow, multi-exponentiation, lincomb on Montgomery forms.
//!
//!   c09.pow    <kind> <form> <n> <m> <ne> <base> <exp>        kind ∈ dyn const boxed; form ∈ m (inherent) t (Pow trait)
//!   c09.powb   <kind> <form> <n> <m> <ne> <base> <exp> <k>    pow_bounded_exp; form ∈ m | t (PowBoundedExp trait)
//!   c09.multi  <kind> <form> <n> <m> <ne> <b,e;b,e;…|->        MultiExponentiate; form ∈ arr (1..=3 terms) | slice
//!   c09.multib <kind> <form> <n> <m> <ne> <k> <b,e;…|->        MultiExponentiateBoundedExp
//!   c09.lincomb <kind> <n> <m> <a,b;a,b;…|->                  lincomb_vartime
//!
//! Output: `<retrieve()> <as_montgomery()>` (boxed: both as `<nlimbs>:<hex>`).
//!
//! Crate-internal functions through `crypto_bigint::verif_hooks`, on RAW Montgomery-domain limbs (any value of the
//! width, reduced or not; `one` and `mod_neg_inv` = `k` are arguments too):
//!   c09.hook.compute_powers <n> <m> <one> <k> <x>                          `compute_powers` → the 16 entries `p0,p1,…,p15`
//!   c09.hook.multi_internal <n> <ne> <m> <one> <k> <bits> <p0:…:p15,e;…|->  `multi_exponentiate_montgomery_form_internal`
//!                                                                          on caller-provided tables (any 16 values)
//!   c09.hook.longa  <n> <m> <k> <a,b;…|->     ONE pass of `impl_longa_monty_lincomb!` (fixed) → `<u> <hi_carry>`
//!   c09.hook.blonga <n> <m> <k> <a,b;…|->     boxed twin → `<n>:<u> <hi_carry>`
//!   c09.hook.bpow   <n> <ne> <m> <one> <k> <bits> <x> <e>   boxed `pow_montgomery_form` → `<n>:<z>`
//! `kind = const` needs `(n, m)` from the `const_moduli!` table below (tools/gen/c09.py carries the same table).
use crate::util::*;
use core::marker::PhantomData;
use crypto_bigint::modular::{
    BoxedMontyForm, BoxedMontyParams, ConstMontyForm, ConstMontyParams, MontyForm, MontyParams,
};
use crypto_bigint::{
    BoxedUint, MultiExponentiate, MultiExponentiateBoundedExp, Odd, Pow, PowBoundedExp, Uint, impl_modulus,
};

// ------------------------------------------------------------------ the two fixed-width kinds

/// what the ops need from `MontyForm<N>` / `ConstMontyForm<P, N>` beyond the crate's traits
/// (inherent methods cannot be reached through a trait bound).
trait Kind<const N: usize> {
    type F: Copy;
    fn mk(&self, v: &Uint<N>) -> Self::F;
    fn show(f: &Self::F) -> String;
    fn pow_inh<const R: usize>(f: &Self::F, e: &Uint<R>) -> Self::F;
    fn powb_inh<const R: usize>(f: &Self::F, e: &Uint<R>, k: u32) -> Self::F;
    fn lincomb(terms: &[(Self::F, Self::F)]) -> Self::F;
}

struct Dyn<const N: usize>(MontyParams<N>);
impl<const N: usize> Kind<N> for Dyn<N> {
    type F = MontyForm<N>;
    fn mk(&self, v: &Uint<N>) -> Self::F {
        MontyForm::new(v, self.0)
    }
    fn show(f: &Self::F) -> String {
        format!("{} {}", uhex(&f.retrieve()), uhex(f.as_montgomery()))
    }
    fn pow_inh<const R: usize>(f: &Self::F, e: &Uint<R>) -> Self::F {
        f.pow(e)
    }
    fn powb_inh<const R: usize>(f: &Self::F, e: &Uint<R>, k: u32) -> Self::F {
        f.pow_bounded_exp(e, k)
    }
    fn lincomb(terms: &[(Self::F, Self::F)]) -> Self::F {
        let refs: Vec<(&MontyForm<N>, &MontyForm<N>)> = terms.iter().map(|(a, b)| (a, b)).collect();
        MontyForm::lincomb_vartime(&refs)
    }
}

struct Cst<P, const N: usize>(PhantomData<P>);
impl<P: ConstMontyParams<N>, const N: usize> Kind<N> for Cst<P, N> {
    type F = ConstMontyForm<P, N>;
    fn mk(&self, v: &Uint<N>) -> Self::F {
        ConstMontyForm::new(v)
    }
    fn show(f: &Self::F) -> String {
        format!("{} {}", uhex(&f.retrieve()), uhex(f.as_montgomery()))
    }
    fn pow_inh<const R: usize>(f: &Self::F, e: &Uint<R>) -> Self::F {
        f.pow(e)
    }
    fn powb_inh<const R: usize>(f: &Self::F, e: &Uint<R>, k: u32) -> Self::F {
        f.pow_bounded_exp(e, k)
    }
    fn lincomb(terms: &[(Self::F, Self::F)]) -> Self::F {
        ConstMontyForm::lincomb_vartime(terms)
    }
}

fn parse_pairs<const A: usize, const C: usize>(s: &str) -> Option<Vec<(Uint<A>, Uint<C>)>> {
    if s == "-" {
        return Some(Vec::new());
    }
    s.split(';')
        .map(|p| {
            let (a, b) = p.split_once(',')?;
            Some((uint::<A>(a)?, uint::<C>(b)?))
        })
        .collect()
}

/// exponentiation ops for base width `N`, exponent width `R`; `a` = args after `<kind> <form> <n> <m> <ne>`.
fn exp_ops<const N: usize, const R: usize, K: Kind<N>>(kd: &K, op: &str, form: &str, a: &[&str]) -> Option<String>
where
    K::F: Pow<Uint<R>>
        + PowBoundedExp<Uint<R>>
        + MultiExponentiateBoundedExp<Uint<R>, [(K::F, Uint<R>); 1]>
        + MultiExponentiateBoundedExp<Uint<R>, [(K::F, Uint<R>); 2]>
        + MultiExponentiateBoundedExp<Uint<R>, [(K::F, Uint<R>); 3]>
        + MultiExponentiateBoundedExp<Uint<R>, [(K::F, Uint<R>)]>,
{
    let bad = Some(BAD.to_string());
    match (op, a.len()) {
        ("c09.pow", 2) => {
            let (Some(b), Some(e)) = (uint::<N>(a[0]), uint::<R>(a[1])) else { return bad };
            let x = kd.mk(&b);
            let r = match form {
                "m" => K::pow_inh(&x, &e),
                "t" => Pow::pow(&x, &e),
                _ => return bad,
            };
            Some(K::show(&r))
        }
        ("c09.powb", 3) => {
            let (Some(b), Some(e), Some(k)) = (uint::<N>(a[0]), uint::<R>(a[1]), dec32(a[2])) else { return bad };
            let x = kd.mk(&b);
            let r = match form {
                "m" => K::powb_inh(&x, &e, k),
                "t" => PowBoundedExp::pow_bounded_exp(&x, &e, k),
                _ => return bad,
            };
            Some(K::show(&r))
        }
        ("c09.multi", 1) | ("c09.multib", 2) => {
            let bounded = op == "c09.multib";
            let k = if bounded {
                let Some(k) = dec32(a[0]) else { return bad };
                k
            } else {
                0
            };
            let Some(pairs) = parse_pairs::<N, R>(a[a.len() - 1]) else { return bad };
            let bes: Vec<(K::F, Uint<R>)> = pairs.iter().map(|(b, e)| (kd.mk(b), *e)).collect();
            let r = match (form, bes.len()) {
                ("slice", _) => {
                    if bounded {
                        <K::F as MultiExponentiateBoundedExp<Uint<R>, [(K::F, Uint<R>)]>>::multi_exponentiate_bounded_exp(&bes[..], k)
                    } else {
                        <K::F as MultiExponentiate<Uint<R>, [(K::F, Uint<R>)]>>::multi_exponentiate(&bes[..])
                    }
                }
                ("arr", 1) => {
                    let arr = [bes[0]];
                    if bounded {
                        <K::F as MultiExponentiateBoundedExp<Uint<R>, [(K::F, Uint<R>); 1]>>::multi_exponentiate_bounded_exp(&arr, k)
                    } else {
                        <K::F as MultiExponentiate<Uint<R>, [(K::F, Uint<R>); 1]>>::multi_exponentiate(&arr)
                    }
                }
                ("arr", 2) => {
                    let arr = [bes[0], bes[1]];
                    if bounded {
                        <K::F as MultiExponentiateBoundedExp<Uint<R>, [(K::F, Uint<R>); 2]>>::multi_exponentiate_bounded_exp(&arr, k)
                    } else {
                        <K::F as MultiExponentiate<Uint<R>, [(K::F, Uint<R>); 2]>>::multi_exponentiate(&arr)
                    }
                }
                ("arr", 3) => {
                    let arr = [bes[0], bes[1], bes[2]];
                    if bounded {
                        <K::F as MultiExponentiateBoundedExp<Uint<R>, [(K::F, Uint<R>); 3]>>::multi_exponentiate_bounded_exp(&arr, k)
                    } else {
                        <K::F as MultiExponentiate<Uint<R>, [(K::F, Uint<R>); 3]>>::multi_exponentiate(&arr)
                    }
                }
                _ => return bad,
            };
            Some(K::show(&r))
        }
        _ => bad,
    }
}

fn lincomb_op<const N: usize, K: Kind<N>>(kd: &K, s: &str) -> Option<String> {
    let Some(pairs) = parse_pairs::<N, N>(s) else { return Some(BAD.to_string()) };
    let terms: Vec<(K::F, K::F)> = pairs.iter().map(|(a, b)| (kd.mk(a), kd.mk(b))).collect();
    Some(K::show(&K::lincomb(&terms)))
}

/// exponent widths per base width (narrower, equal, wider); tools/gen/c09.py: `EXP_WIDTHS`
macro_rules! with_r {
    ($n:literal, $ne:expr, $K:ty, $kd:expr, $op:expr, $form:expr, $a:expr, [$($r:literal),*]) => {
        match $ne {
            $( $r => exp_ops::<$n, $r, $K>($kd, $op, $form, $a), )*
            _ => Some("unsupported-width".to_string()),
        }
    };
}

fn fixed_ops<const N: usize, K: Kind<N>>(kd: &K, op: &str, a: &[&str]) -> Option<String>
where
    K: KindAll<N>,
{
    K::run(kd, op, a)
}

/// per-width instantiation of the exponent-width table (const generics cannot be computed from `N`)
trait KindAll<const N: usize>: Kind<N> + Sized {
    fn run(kd: &Self, op: &str, a: &[&str]) -> Option<String>;
}

macro_rules! impl_kind_all {
    ($n:literal, [$($r:literal),*]) => {
        impl KindAll<$n> for Dyn<$n> {
            fn run(kd: &Self, op: &str, a: &[&str]) -> Option<String> { run_all!($n, Dyn<$n>, kd, op, a, [$($r),*]) }
        }
        impl<P: ConstMontyParams<$n>> KindAll<$n> for Cst<P, $n> {
            fn run(kd: &Self, op: &str, a: &[&str]) -> Option<String> { run_all!($n, Cst<P, $n>, kd, op, a, [$($r),*]) }
        }
    };
}

/// `a` = all args of the line: `<kind> [<form>] <n> <m> [<ne>] …`
macro_rules! run_all {
    ($n:literal, $K:ty, $kd:expr, $op:expr, $a:expr, [$($r:literal),*]) => {{
        let a: &[&str] = $a;
        if $op == "c09.lincomb" {
            if a.len() != 4 { return Some(BAD.to_string()); }
            return lincomb_op::<$n, $K>($kd, a[3]);
        }
        if a.len() < 6 { return Some(BAD.to_string()); }
        let Some(ne) = dec(a[4]) else { return Some(BAD.to_string()) };
        with_r!($n, ne, $K, $kd, $op, a[1], &a[5..], [$($r),*])
    }};
}

impl_kind_all!(1, [1, 2, 4]);
impl_kind_all!(2, [1, 2, 4]);
impl_kind_all!(4, [1, 2, 4, 8]);
impl_kind_all!(8, [1, 4, 8, 16]);
impl_kind_all!(16, [1, 8, 16, 32]);

// ------------------------------------------------------------------ compile-time moduli (impl_modulus!)

trait ConstVisitor {
    fn visit<P: ConstMontyParams<N>, const N: usize>(self) -> Option<String>
    where
        Cst<P, N>: KindAll<N>;
}

fn norm_hex(s: &str) -> String {
    let t = s.trim_start_matches('0').to_ascii_lowercase();
    if t.is_empty() { "0".to_string() } else { t }
}

macro_rules! const_moduli {
    ($( ($name:ident, $ty:ty, $n:expr, $hex:expr) ),* $(,)?) => {
        $( impl_modulus!($name, $ty, $hex); )*
        fn with_const_modulus<V: ConstVisitor>(nlimbs: usize, mhex: &str, v: V) -> Option<String> {
            let key = (nlimbs, norm_hex(mhex));
            $( if key == ($n as usize, norm_hex($hex)) { return v.visit::<$name, { $n }>(); } )*
            Some(BAD.to_string())
        }
    };
}

use crypto_bigint::{U64, U128, U256, U512, U1024};
const_moduli! {
    (C1One, U64, 1, "0000000000000001"),
    (C1Three, U64, 1, "0000000000000003"),
    (C1Max, U64, 1, "ffffffffffffffff"),
    (C1Third, U64, 1, "5555555555555555"),
    (C1Quarter, U64, 1, "3fffffffffffffff"),
    (C1Small, U64, 1, "00000000000000f1"),
    (C2Top, U128, 2, "ffffffffffffffffffffffffffffffc5"),
    (C2Zhl, U128, 2, "0000000000000000ffffffffffffffc5"),
    (C2Lz3, U128, 2, "1fffffffffffffffffffffffffffffff"),
    (C4P256n, U256, 4, "ffffffff00000000ffffffffffffffffbce6faada7179e84f3b9cac2fc632551"),
    (C4Lz1, U256, 4, "7fffffff00000000ffffffffffffffffbce6faada7179e84f3b9cac2fc632551"),
    (C4Lz4, U256, 4, "0fffffff00000000ffffffffffffffffbce6faada7179e84f3b9cac2fc632551"),
    (C8Quarter, U512, 8, "3fffffffffffffffffffffffffffffffffffffffffffffffffffffffffffffffffffffffffffffffffffffffffffffffffffffffffffffffffffffffffffffff"),
    // full-width moduli whose LOW limb has many leading zeros (seed C09-m7: MOD_LEADING_ZEROS taken from limb 0)
    (C2LowZ, U128, 2, "ffffffffffffffff0000000000000005"),
    (C4LowZ, U256, 4, "ffffffffffffffffffffffffffffffffffffffffffffffff0000000000000003"),
    (C1Sq, U64, 1, "fffffff600000019"),
    (C2Pow3, U128, 2, "6f32f1ef8b18a2bc3cea59789c79d441"),
    (C16Half, U1024, 16, "8000000000000000000000000000000000000000000000000000000000000000000000000000000000000000000000000000000000000000000000000000000000000000000000000000000000000000000000000000000000000000000000000000000000000000000000000000000000000000000000000000000000000001"),
}

struct ConstRun<'a> {
    op: &'a str,
    a: &'a [&'a str],
}
impl ConstVisitor for ConstRun<'_> {
    fn visit<P: ConstMontyParams<N>, const N: usize>(self) -> Option<String>
    where
        Cst<P, N>: KindAll<N>,
    {
        fixed_ops::<N, Cst<P, N>>(&Cst(PhantomData), self.op, self.a)
    }
}

// ------------------------------------------------------------------ runtime moduli

fn dyn_ops<const N: usize>(op: &str, a: &[&str], mhex: &str) -> Option<String>
where
    Dyn<N>: KindAll<N>,
{
    let Some(m) = uint::<N>(mhex) else { return Some(BAD.to_string()) };
    let Some(m) = Option::<Odd<Uint<N>>>::from(Odd::new(m)) else { return Some(BAD.to_string()) };
    fixed_ops::<N, Dyn<N>>(&Dyn(MontyParams::new_vartime(m)), op, a)
}

// ------------------------------------------------------------------ boxed

fn boxed_ops(op: &str, a: &[&str]) -> Option<String> {
    let bad = Some(BAD.to_string());
    let lincomb = op == "c09.lincomb";
    let (ni, mi) = if lincomb { (1, 2) } else { (2, 3) };
    if a.len() <= mi {
        return bad;
    }
    let Some(n) = dec(a[ni]) else { return bad };
    let Some(m) = boxed(a[mi], n) else { return bad };
    let Some(m) = Option::<Odd<BoxedUint>>::from(Odd::new(m)) else { return bad };
    let params = BoxedMontyParams::new(m);
    let show = |f: &BoxedMontyForm| format!("{} {}", bhexlen(&f.retrieve()), bhexlen(f.as_montgomery()));
    let mk = |s: &str| -> Option<BoxedMontyForm> { Some(BoxedMontyForm::new(boxed(s, n)?, params.clone())) };
    match (op, a.len()) {
        ("c09.lincomb", 4) => {
            let mut terms = Vec::new();
            if a[3] != "-" {
                for p in a[3].split(';') {
                    let Some((x, y)) = p.split_once(',') else { return bad };
                    let (Some(x), Some(y)) = (mk(x), mk(y)) else { return bad };
                    terms.push((x, y));
                }
            }
            let refs: Vec<(&BoxedMontyForm, &BoxedMontyForm)> = terms.iter().map(|(x, y)| (x, y)).collect();
            Some(show(&BoxedMontyForm::lincomb_vartime(&refs)))
        }
        ("c09.pow", 7) if a[1] == "m" => {
            let Some(ne) = dec(a[4]) else { return bad };
            let (Some(x), Some(e)) = (mk(a[5]), boxed(a[6], ne)) else { return bad };
            Some(show(&x.pow(&e)))
        }
        ("c09.powb", 8) => {
            let Some(ne) = dec(a[4]) else { return bad };
            let (Some(x), Some(e), Some(k)) = (mk(a[5]), boxed(a[6], ne), dec32(a[7])) else { return bad };
            let r = match a[1] {
                "m" => x.pow_bounded_exp(&e, k),
                "t" => PowBoundedExp::pow_bounded_exp(&x, &e, k),
                _ => return bad,
            };
            Some(show(&r))
        }
        _ => bad,
    }
}

// ------------------------------------------------------------------ hooks (crate-internal functions)

#[cfg(crypto_bigint_verif)]
mod hook {
    use crate::util::*;
    use crypto_bigint::modular::{BoxedMontyForm, BoxedMontyParams, MontyForm, MontyParams};
    use crypto_bigint::verif_hooks as hooks;
    use crypto_bigint::{BoxedUint, Odd, Uint};

    fn odd<const N: usize>(m: &str) -> Option<Odd<Uint<N>>> {
        Option::from(Odd::new(uint::<N>(m)?))
    }

    pub fn compute_powers<const N: usize>(a: &[&str]) -> Option<String> {
        let [m, one, k, x] = a else { return Some(BAD.into()) };
        let (m, one, k, x) = (arg!(odd::<N>(m)), arg!(uint::<N>(one)), arg!(limb(k)), arg!(uint::<N>(x)));
        let t = hooks::compute_powers(&x, &m, &one, k);
        Some(t.iter().map(uhex).collect::<Vec<_>>().join(","))
    }

    pub fn multi_internal<const N: usize, const R: usize>(a: &[&str]) -> Option<String> {
        let [m, one, k, bits, terms] = a else { return Some(BAD.into()) };
        let (m, one, k, bits) = (arg!(odd::<N>(m)), arg!(uint::<N>(one)), arg!(limb(k)), arg!(dec32(bits)));
        let mut pes: Vec<([Uint<N>; hooks::POW_TABLE], Uint<R>)> = Vec::new();
        if *terms != "-" {
            for t in terms.split(';') {
                let (tab, e) = arg!(t.split_once(','));
                let ps: Vec<&str> = tab.split(':').collect();
                if ps.len() != hooks::POW_TABLE {
                    return Some(BAD.into());
                }
                let mut arr = [Uint::<N>::ZERO; hooks::POW_TABLE];
                for (i, p) in ps.iter().enumerate() {
                    arr[i] = arg!(uint::<N>(p));
                }
                pes.push((arr, arg!(uint::<R>(e))));
            }
        }
        Some(uhex(&hooks::multi_exponentiate_montgomery_form_internal(&pes, bits, &m, &one, k)))
    }

    pub fn longa<const N: usize>(a: &[&str]) -> Option<String> {
        let [m, k, terms] = a else { return Some(BAD.into()) };
        let (m, k) = (arg!(odd::<N>(m)), arg!(limb(k)));
        let params = MontyParams::new_vartime(m);
        let mut forms: Vec<(MontyForm<N>, MontyForm<N>)> = Vec::new();
        if *terms != "-" {
            for t in terms.split(';') {
                let (x, y) = arg!(t.split_once(','));
                forms.push((
                    MontyForm::from_montgomery(arg!(uint::<N>(x)), params),
                    MontyForm::from_montgomery(arg!(uint::<N>(y)), params),
                ));
            }
        }
        let refs: Vec<(&MontyForm<N>, &MontyForm<N>)> = forms.iter().map(|(x, y)| (x, y)).collect();
        let (u, hc) = hooks::longa_monty_lincomb(&refs, &m, k);
        Some(format!("{} {}", uhex(&u), lhex(hc)))
    }

    fn bodd(m: &str, n: usize) -> Option<Odd<BoxedUint>> {
        Option::from(Odd::new(boxed(m, n)?))
    }

    pub fn blonga(a: &[&str]) -> Option<String> {
        let [n, m, k, terms] = a else { return Some(BAD.into()) };
        let n = arg!(dec(n));
        let (m, k) = (arg!(bodd(m, n)), arg!(limb(k)));
        let params = BoxedMontyParams::new_vartime(m.clone());
        let mut forms: Vec<(BoxedMontyForm, BoxedMontyForm)> = Vec::new();
        if *terms != "-" {
            for t in terms.split(';') {
                let (x, y) = arg!(t.split_once(','));
                forms.push((
                    BoxedMontyForm::from_montgomery(arg!(boxed(x, n)), params.clone()),
                    BoxedMontyForm::from_montgomery(arg!(boxed(y, n)), params.clone()),
                ));
            }
        }
        let refs: Vec<(&BoxedMontyForm, &BoxedMontyForm)> = forms.iter().map(|(x, y)| (x, y)).collect();
        let (u, hc) = hooks::longa_boxed_monty_lincomb(&refs, &m, k);
        Some(format!("{} {}", bhexlen(&u), lhex(hc)))
    }

    pub fn bpow(a: &[&str]) -> Option<String> {
        let [n, ne, m, one, k, bits, x, e] = a else { return Some(BAD.into()) };
        let (n, ne) = (arg!(dec(n)), arg!(dec(ne)));
        let m = arg!(bodd(m, n));
        let z = hooks::boxed_pow_montgomery_form(
            &arg!(boxed(x, n)),
            &arg!(boxed(e, ne)),
            arg!(dec32(bits)),
            m.as_ref(),
            &arg!(boxed(one, n)),
            arg!(limb(k)),
        );
        Some(bhexlen(&z))
    }
}

#[cfg(not(crypto_bigint_verif))]
fn hook_dispatch(_name: &str, _a: &[&str]) -> Option<String> {
    Some(crate::util::HOOK_UNAVAILABLE.to_string())
}
#[cfg(crypto_bigint_verif)]
fn hook_dispatch(name: &str, a: &[&str]) -> Option<String> {
    let unsupported = Some("unsupported-width".to_string());
    match name {
        "compute_powers" | "longa" if !a.is_empty() => {
            let n = arg!(dec(a[0]));
            let rest = &a[1..];
            macro_rules! go {
                ($($n:literal),*) => {
                    match (name, n) {
                        $( ("compute_powers", $n) => hook::compute_powers::<$n>(rest), ("longa", $n) => hook::longa::<$n>(rest), )*
                        _ => unsupported,
                    }
                };
            }
            go!(1, 2, 3, 4, 8, 16)
        }
        "multi_internal" if a.len() >= 2 => {
            let (n, ne) = (arg!(dec(a[0])), arg!(dec(a[1])));
            let rest = &a[2..];
            match (n, ne) {
                (1, 1) => hook::multi_internal::<1, 1>(rest),
                (1, 2) => hook::multi_internal::<1, 2>(rest),
                (2, 1) => hook::multi_internal::<2, 1>(rest),
                (2, 2) => hook::multi_internal::<2, 2>(rest),
                (3, 1) => hook::multi_internal::<3, 1>(rest),
                (4, 1) => hook::multi_internal::<4, 1>(rest),
                (4, 4) => hook::multi_internal::<4, 4>(rest),
                (4, 8) => hook::multi_internal::<4, 8>(rest),
                (8, 2) => hook::multi_internal::<8, 2>(rest),
                _ => unsupported,
            }
        }
        "blonga" => hook::blonga(a),
        "bpow" => hook::bpow(a),
        _ => None,
    }
}

pub fn dispatch(op: &str, a: &[&str]) -> Option<String> {
    if let Some(name) = op.strip_prefix("c09.hook.") {
        return hook_dispatch(name, a);
    }
    if !matches!(op, "c09.pow" | "c09.powb" | "c09.multi" | "c09.multib" | "c09.lincomb") {
        return None;
    }
    let bad = Some(BAD.to_string());
    if a.len() < 4 {
        return bad;
    }
    let kind = a[0];
    if kind == "boxed" {
        return boxed_ops(op, a);
    }
    let (ni, mi) = if op == "c09.lincomb" { (1, 2) } else { (2, 3) };
    let Some(n) = dec(a[ni]) else { return bad };
    let mhex = a[mi];
    match kind {
        "dyn" => match n {
            1 => dyn_ops::<1>(op, a, mhex),
            2 => dyn_ops::<2>(op, a, mhex),
            4 => dyn_ops::<4>(op, a, mhex),
            8 => dyn_ops::<8>(op, a, mhex),
            16 => dyn_ops::<16>(op, a, mhex),
            _ => Some("unsupported-width".to_string()),
        },
        "const" => with_const_modulus(n, mhex, ConstRun { op, a }),
        _ => bad,
    }
}
