//! C04 — add / sub / neg
use crate::util::*;
use crypto_bigint::subtle::{Choice, ConditionallySelectable, ConstantTimeEq, CtOption};
use crypto_bigint::{BoxedUint, Checked, CheckedAdd, CheckedSub, Limb, Uint, Wrapping, WrappingAdd, WrappingNeg, WrappingSub};

fn agree(vals: &[String]) -> String {
    if vals.iter().all(|v| *v == vals[0]) { vals[0].clone() } else { format!("routes-differ:{}", vals.join("|")) }
}
fn optu<const N: usize>(o: CtOption<Uint<N>>) -> String {
    Option::<Uint<N>>::from(o).map(|v| uhex(&v)).unwrap_or("none".into())
}
fn optb(o: CtOption<BoxedUint>) -> String {
    Option::<BoxedUint>::from(o).map(|v| bhexlen(&v)).unwrap_or("none".into())
}
fn optl(o: CtOption<Limb>) -> String {
    Option::<Limb>::from(o).map(lhex).unwrap_or("none".into())
}


fn fixed<const N: usize>(op: &str, a: &[&str]) -> Option<String> {
    Some(match (op, a) {
        ("c04.u.adc", [x, y, c]) => {
            let (x, y, c) = (arg!(uint::<N>(x)), arg!(uint::<N>(y)), arg!(limb(c)));
            let (r, c) = x.adc(&y, c);
            format!("{} {}", uhex(&r), lhex(c))
        }
        ("c04.u.sbb", [x, y, c]) => {
            let (x, y, c) = (arg!(uint::<N>(x)), arg!(uint::<N>(y)), arg!(limb(c)));
            let (r, c) = x.sbb(&y, c);
            format!("{} {}", uhex(&r), lhex(c))
        }
        ("c04.u.wrapping_add", [x, y]) => uhex(&arg!(uint::<N>(x)).wrapping_add(&arg!(uint::<N>(y)))),
        ("c04.u.wrapping_sub", [x, y]) => uhex(&arg!(uint::<N>(x)).wrapping_sub(&arg!(uint::<N>(y)))),
        ("c04.u.saturating_add", [x, y]) => uhex(&arg!(uint::<N>(x)).saturating_add(&arg!(uint::<N>(y)))),
        ("c04.u.saturating_sub", [x, y]) => uhex(&arg!(uint::<N>(x)).saturating_sub(&arg!(uint::<N>(y)))),
        ("c04.u.checked_add", [x, y]) => {
            let r: Option<Uint<N>> = arg!(uint::<N>(x)).checked_add(&arg!(uint::<N>(y))).into();
            r.map(|v| uhex(&v)).unwrap_or("none".into())
        }
        ("c04.u.checked_sub", [x, y]) => {
            let r: Option<Uint<N>> = arg!(uint::<N>(x)).checked_sub(&arg!(uint::<N>(y))).into();
            r.map(|v| uhex(&v)).unwrap_or("none".into())
        }
        ("c04.u.neg", [x, c]) => {
            let (x, c) = (arg!(uint::<N>(x)), arg!(toconst(c)));
            let (v, carry) = x.carrying_neg();
            let wn = agree(&[uhex(&x.wrapping_neg()), uhex(&WrappingNeg::wrapping_neg(&x)), uhex(&(-Wrapping(x)).0)]);
            format!("{} {} {wn} {}", uhex(&v), cchoice(carry), uhex(&x.wrapping_neg_if(c)))
        }
        ("c04.u.op_add", [x, y]) => {
            let (x, y) = (arg!(uint::<N>(x)), arg!(uint::<N>(y)));
            // every operator form must behave alike; each runs under its own catch_unwind
            let forms: Vec<String> = vec![
                std::panic::catch_unwind(|| uhex(&(x + y))).unwrap_or("panic".into()),
                std::panic::catch_unwind(|| uhex(&(x + &y))).unwrap_or("panic".into()),
                std::panic::catch_unwind(|| { let mut t = x; t += y; uhex(&t) }).unwrap_or("panic".into()),
                std::panic::catch_unwind(|| { let mut t = x; t += &y; uhex(&t) }).unwrap_or("panic".into()),
            ];
            agree(&forms)
        }
        ("c04.u.op_sub", [x, y]) => {
            let (x, y) = (arg!(uint::<N>(x)), arg!(uint::<N>(y)));
            let forms: Vec<String> = vec![
                std::panic::catch_unwind(|| uhex(&(x - y))).unwrap_or("panic".into()),
                std::panic::catch_unwind(|| uhex(&(x - &y))).unwrap_or("panic".into()),
                std::panic::catch_unwind(|| { let mut t = x; t -= y; uhex(&t) }).unwrap_or("panic".into()),
                std::panic::catch_unwind(|| { let mut t = x; t -= &y; uhex(&t) }).unwrap_or("panic".into()),
            ];
            agree(&forms)
        }
        ("c04.u.wrapping_chain", [x, y, z]) => {
            let (x, y, z) = (Wrapping(arg!(uint::<N>(x))), Wrapping(arg!(uint::<N>(y))), Wrapping(arg!(uint::<N>(z))));
            let r1 = (x + y) - z;
            let r2 = (x + &y) - &z;
            let mut r3 = x;
            r3 += y;
            r3 -= z;
            let mut r4 = x;
            r4 += &y;
            r4 -= &z;
            let r5 = WrappingSub::wrapping_sub(&WrappingAdd::wrapping_add(&x.0, &y.0), &z.0);
            format!("{} {}", agree(&[uhex(&r1.0), uhex(&r2.0), uhex(&r3.0), uhex(&r4.0), uhex(&r5)]), uhex(&(-x).0))
        }
        ("c04.u.checked_chain", [x, y, z]) => {
            let (x, y, z) = (Checked::new(arg!(uint::<N>(x))), Checked::new(arg!(uint::<N>(y))), Checked::new(arg!(uint::<N>(z))));
            let r1 = x + y;
            let r2 = r1 - z;
            let r3 = r2 + z;
            let mut a1 = x;
            a1 += y;
            let mut a2 = a1;
            a2 -= &z;
            let mut a3 = a2;
            a3 += &z;
            format!(
                "{} {} {}",
                agree(&[optu(r1.0), optu(a1.0), optu((x + &y).0)]),
                agree(&[optu(r2.0), optu(a2.0)]),
                agree(&[optu(r3.0), optu(a3.0)])
            )
        }
        // ---- coverage round: `Checked<Uint<N>>` trait forms (src/checked.rs 266-300)
        // operands are CtOptions `(x, sx)`, `(y, sy)` with chosen `is_some`; prints
        // conditional_select  ct_eq  default  [From<Checked> for CtOption | From<CtOption> for Checked | From<Checked> for Option](a)
        ("c04.u.checked_ct", [x, sx, y, sy, c]) => {
            let (x, y) = (arg!(uint::<N>(x)), arg!(uint::<N>(y)));
            let (sx, sy, c) = (arg!(tochoice(sx)), arg!(tochoice(sy)), arg!(tochoice(c)));
            let a = Checked(CtOption::new(x, sx));
            let b = Checked(CtOption::new(y, sy));
            let sel = Checked::conditional_select(&a, &b, c);
            let eq = a.ct_eq(&b);
            let dflt = Checked::<Uint<N>>::default();
            let as_ct: CtOption<Uint<N>> = CtOption::from(a);
            let back: Checked<Uint<N>> = Checked::from(CtOption::new(x, sx));
            let as_opt: Option<Uint<N>> = Option::from(a);
            format!(
                "{} {} {} {}",
                optu(sel.0),
                choice(eq),
                optu(dflt.0),
                agree(&[optu(as_ct), optu(back.0), as_opt.map(|v| uhex(&v)).unwrap_or("none".into())])
            )
        }
        // ---- every operator form of `Checked<Uint<N>>` + / - with EITHER operand possibly `None` (sticky none, seed C04-m6):
        // operands are CtOptions `(x, sx)`, `(y, sy)`; prints  add(all forms agree)  sub(all forms agree)
        ("c04.u.checked_forms", [x, sx, y, sy]) => {
            let (x, y) = (arg!(uint::<N>(x)), arg!(uint::<N>(y)));
            let (sx, sy) = (arg!(tochoice(sx)), arg!(tochoice(sy)));
            let a = Checked(CtOption::new(x, sx));
            let b = Checked(CtOption::new(y, sy));
            let (mut p1, mut p2, mut m1, mut m2) = (a, a, a, a);
            p1 += b;
            p2 += &b;
            m1 -= b;
            m2 -= &b;
            format!(
                "{} {}",
                agree(&[optu((a + b).0), optu((a + &b).0), optu((&a + b).0), optu((&a + &b).0), optu(p1.0), optu(p2.0)]),
                agree(&[optu((a - b).0), optu((a - &b).0), optu((&a - b).0), optu((&a - &b).0), optu(m1.0), optu(m2.0)])
            )
        }
        // ---- coverage round: `Wrapping<Uint<N>>` trait forms (src/wrapping.rs 187-231); prints
        // conditional_select  ct_eq  zero  is_zero(x)  one  is_one(x)
        ("c04.u.wrapping_ct", [x, y, c]) => {
            let (x, y, c) = (Wrapping(arg!(uint::<N>(x))), Wrapping(arg!(uint::<N>(y))), arg!(tochoice(c)));
            let sel = Wrapping::conditional_select(&x, &y, c);
            let eq = x.ct_eq(&y);
            let zero = agree(&[
                uhex(&<Wrapping<Uint<N>> as crypto_bigint::Zero>::zero().0),
                uhex(&<Wrapping<Uint<N>> as num_traits::Zero>::zero().0),
            ]);
            let one = <Wrapping<Uint<N>> as num_traits::One>::one();
            format!(
                "{} {} {zero} {} {} {}",
                uhex(&sel.0),
                choice(eq),
                bit(num_traits::Zero::is_zero(&x)),
                uhex(&one.0),
                bit(num_traits::One::is_one(&x))
            )
        }
        // `Wrapping<T>` formatting forwards to `T`: Display  UpperHex  LowerHex  Binary  (then the `#` forms)
        ("c04.u.wrapping_fmt", [x]) => {
            let x = arg!(uint::<N>(x));
            wrapping_fmt_line(&x)
        }
        _ => return None,
    })
}

/// every `fmt` trait of `Wrapping<T>` must print what `T` prints; text tokens are `x`-prefixed hex
fn wrapping_fmt_line<T>(x: &T) -> String
where
    T: Clone + std::fmt::Display + std::fmt::UpperHex + std::fmt::LowerHex + std::fmt::Binary,
{
    let w = Wrapping(x.clone());
    let t = |via_w: String, direct: String| {
        if via_w == direct { bytes_tok(via_w.as_bytes()) } else { format!("routes-differ:{via_w}|{direct}") }
    };
    format!(
        "{} {} {} {} {} {} {}",
        t(format!("{w}"), format!("{x}")),
        t(format!("{w:X}"), format!("{x:X}")),
        t(format!("{w:x}"), format!("{x:x}")),
        t(format!("{w:b}"), format!("{x:b}")),
        t(format!("{w:#X}"), format!("{x:#X}")),
        t(format!("{w:#x}"), format!("{x:#x}")),
        t(format!("{w:#b}"), format!("{x:#b}"))
    )
}

pub fn dispatch(op: &str, a: &[&str]) -> Option<String> {
    match (op, a) {
        // ---- coverage round: assigning forms of `Wrapping<Limb>` / `Checked<Limb>` (src/limb/add.rs 47-73,
        // src/limb/sub.rs 56-82) and the `WrappingNeg` trait form (src/limb/neg.rs 14-19); prints
        // wrapping+=  wrapping-=  checked+=  checked-=  WrappingNeg::wrapping_neg(x)
        ("c04.l.assign", [x, y]) => {
            let (x, y) = (arg!(limb(x)), arg!(limb(y)));
            let (mut w1, mut w2, mut w3, mut w4) = (Wrapping(x), Wrapping(x), Wrapping(x), Wrapping(x));
            w1 += Wrapping(y);
            w2 += &Wrapping(y);
            w3 -= Wrapping(y);
            w4 -= &Wrapping(y);
            let (mut c1, mut c2, mut c3, mut c4) = (Checked::new(x), Checked::new(x), Checked::new(x), Checked::new(x));
            c1 += Checked::new(y);
            c2 += &Checked::new(y);
            c3 -= Checked::new(y);
            c4 -= &Checked::new(y);
            Some(format!(
                "{} {} {} {} {}",
                agree(&[lhex(w1.0), lhex(w2.0)]),
                agree(&[lhex(w3.0), lhex(w4.0)]),
                agree(&[optl(c1.0), optl(c2.0)]),
                agree(&[optl(c3.0), optl(c4.0)]),
                lhex(WrappingNeg::wrapping_neg(&x))
            ))
        }
        // a `none` on either side is sticky through the assigning forms as well: `(x, sx) += (y, sy)`, `-=`
        ("c04.l.checked_assign", [x, sx, y, sy]) => {
            let (x, y) = (arg!(limb(x)), arg!(limb(y)));
            let (sx, sy) = (arg!(tochoice(sx)), arg!(tochoice(sy)));
            let mk = |v: Limb, s: Choice| Checked(CtOption::new(v, s));
            let (mut c1, mut c2, mut c3, mut c4) = (mk(x, sx), mk(x, sx), mk(x, sx), mk(x, sx));
            c1 += mk(y, sy);
            c2 += &mk(y, sy);
            c3 -= mk(y, sy);
            c4 -= &mk(y, sy);
            Some(format!("{} {}", agree(&[optl(c1.0), optl(c2.0)]), agree(&[optl(c3.0), optl(c4.0)])))
        }
        // `Checked<Limb>` / `Wrapping<Limb>` trait forms (same generic code as the `Uint` lines, other instantiation)
        ("c04.l.checked_ct", [x, sx, y, sy, c]) => {
            let (x, y) = (arg!(limb(x)), arg!(limb(y)));
            let (sx, sy, c) = (arg!(tochoice(sx)), arg!(tochoice(sy)), arg!(tochoice(c)));
            let a = Checked(CtOption::new(x, sx));
            let b = Checked(CtOption::new(y, sy));
            let sel = Checked::conditional_select(&a, &b, c);
            let eq = a.ct_eq(&b);
            let dflt = Checked::<Limb>::default();
            let as_ct: CtOption<Limb> = CtOption::from(a);
            let back: Checked<Limb> = Checked::from(CtOption::new(x, sx));
            let as_opt: Option<Limb> = Option::from(a);
            Some(format!(
                "{} {} {} {}",
                optl(sel.0),
                choice(eq),
                optl(dflt.0),
                agree(&[optl(as_ct), optl(back.0), as_opt.map(lhex).unwrap_or("none".into())])
            ))
        }
        ("c04.l.wrapping_ct", [x, y, c]) => {
            let (x, y, c) = (Wrapping(arg!(limb(x))), Wrapping(arg!(limb(y))), arg!(tochoice(c)));
            let sel = Wrapping::conditional_select(&x, &y, c);
            let eq = x.ct_eq(&y);
            let zero = agree(&[
                lhex(<Wrapping<Limb> as crypto_bigint::Zero>::zero().0),
                lhex(<Wrapping<Limb> as num_traits::Zero>::zero().0),
            ]);
            let one = <Wrapping<Limb> as num_traits::One>::one();
            Some(format!(
                "{} {} {zero} {} {} {}",
                lhex(sel.0),
                choice(eq),
                bit(num_traits::Zero::is_zero(&x)),
                lhex(one.0),
                bit(num_traits::One::is_one(&x))
            ))
        }
        ("c04.l.wrapping_fmt", [x]) => Some(wrapping_fmt_line(&arg!(limb(x)))),
        // `Wrapping<BoxedUint>`: ct_eq (zero padded, any two precisions), num_traits zero / is_zero / one / is_one, fmt
        ("c04.b.wrapping_ct", [na, x, nb, y]) => {
            let (x, y) = (Wrapping(arg!(boxed(x, arg!(dec(na))))), Wrapping(arg!(boxed(y, arg!(dec(nb))))));
            let zero = agree(&[
                bhexlen(&<Wrapping<BoxedUint> as crypto_bigint::Zero>::zero().0),
                bhexlen(&<Wrapping<BoxedUint> as num_traits::Zero>::zero().0),
            ]);
            let one = <Wrapping<BoxedUint> as num_traits::One>::one();
            Some(format!(
                "{} {zero} {} {} {}",
                choice(x.ct_eq(&y)),
                bit(num_traits::Zero::is_zero(&x)),
                bhexlen(&one.0),
                bit(num_traits::One::is_one(&x))
            ))
        }
        ("c04.b.wrapping_fmt", [n, x]) => Some(wrapping_fmt_line(&arg!(boxed(x, arg!(dec(n)))))),
        // `Octal` forwarding has no crate-owned operand type; a primitive word exercises it
        ("c04.w.wrapping_octal", [x]) => {
            let x = arg!(word(x));
            let (a, b) = (format!("{:o}", Wrapping(x)), format!("{:o}", x));
            Some(if a == b { bytes_tok(a.as_bytes()) } else { format!("routes-differ:{a}|{b}") })
        }
        ("c04.w.adc", [x, y, c]) => {
            let (r, c) = arg!(limb(x)).adc(arg!(limb(y)), arg!(limb(c)));
            Some(format!("{} {}", lhex(r), lhex(c)))
        }
        ("c04.w.sbb", [x, y, c]) => {
            let (r, c) = arg!(limb(x)).sbb(arg!(limb(y)), arg!(limb(c)));
            Some(format!("{} {}", lhex(r), lhex(c)))
        }
        ("c04.w.mac", [x, y, z, c]) => {
            let (r, c) = arg!(limb(x)).mac(arg!(limb(y)), arg!(limb(z)), arg!(limb(c)));
            Some(format!("{} {}", lhex(r), lhex(c)))
        }
        ("c04.l.forms", [x, y]) => {
            let (x, y) = (arg!(limb(x)), arg!(limb(y)));
            let wa = agree(&[lhex(x.wrapping_add(y)), lhex(WrappingAdd::wrapping_add(&x, &y)), lhex((Wrapping(x) + Wrapping(y)).0), lhex(x.adc(y, Limb::ZERO).0), lhex(x.overflowing_add(y).0)]);
            let ws = agree(&[lhex(x.wrapping_sub(y)), lhex(WrappingSub::wrapping_sub(&x, &y)), lhex((Wrapping(x) - Wrapping(y)).0), lhex(x.sbb(y, Limb::ZERO).0)]);
            let ca = agree(&[optl(x.checked_add(&y)), optl((Checked::new(x) + Checked::new(y)).0)]);
            let cs = agree(&[optl(x.checked_sub(&y)), optl((Checked::new(x) - Checked::new(y)).0)]);
            Some(format!("{wa} {ws} {} {} {ca} {cs} {}", lhex(x.saturating_add(y)), lhex(x.saturating_sub(y)), lhex(x.wrapping_neg())))
        }
        ("c04.l.op_add", [x, y]) => {
            let (x, y) = (arg!(limb(x)), arg!(limb(y)));
            Some(lhex(x + y))
        }
        ("c04.l.op_sub", [x, y]) => {
            let (x, y) = (arg!(limb(x)), arg!(limb(y)));
            let forms: Vec<String> = vec![
                std::panic::catch_unwind(|| lhex(x - y)).unwrap_or("panic".into()),
                std::panic::catch_unwind(|| lhex(x - &y)).unwrap_or("panic".into()),
            ];
            Some(agree(&forms))
        }
        ("c04.b.adc", [na, x, nb, y, c]) => {
            let (x, y, c) = (arg!(boxed(x, arg!(dec(na)))), arg!(boxed(y, arg!(dec(nb)))), arg!(limb(c)));
            let (r, c) = x.adc(&y, c);
            Some(format!("{} {}", bhexlen(&r), lhex(c)))
        }
        ("c04.b.sbb", [na, x, nb, y, c]) => {
            let (x, y, c) = (arg!(boxed(x, arg!(dec(na)))), arg!(boxed(y, arg!(dec(nb)))), arg!(limb(c)));
            let (r, c) = x.sbb(&y, c);
            Some(format!("{} {}", bhexlen(&r), lhex(c)))
        }
        ("c04.b.forms", [na, x, nb, y]) => {
            let (x, y) = (arg!(boxed(x, arg!(dec(na)))), arg!(boxed(y, arg!(dec(nb)))));
            let wa = agree(&[bhexlen(&x.wrapping_add(&y)), bhexlen(&WrappingAdd::wrapping_add(&x, &y)), bhexlen(&(Wrapping(x.clone()) + Wrapping(y.clone())).0)]);
            let ws = agree(&[bhexlen(&x.wrapping_sub(&y)), bhexlen(&WrappingSub::wrapping_sub(&x, &y)), bhexlen(&(Wrapping(x.clone()) - Wrapping(y.clone())).0)]);
            let wn = agree(&[bhexlen(&x.wrapping_neg()), bhexlen(&WrappingNeg::wrapping_neg(&x))]);
            Some(format!("{wa} {ws} {} {} {wn}", optb(x.checked_add(&y)), optb(x.checked_sub(&y))))
        }
        ("c04.b.op_add", [na, x, nb, y]) => {
            let (x, y) = (arg!(boxed(x, arg!(dec(na)))), arg!(boxed(y, arg!(dec(nb)))));
            let forms: Vec<String> = vec![
                std::panic::catch_unwind(|| bhexlen(&(&x + &y))).unwrap_or("panic".into()),
                std::panic::catch_unwind(|| bhexlen(&(x.clone() + y.clone()))).unwrap_or("panic".into()),
                std::panic::catch_unwind(|| bhexlen(&(x.clone() + &y))).unwrap_or("panic".into()),
                std::panic::catch_unwind(|| bhexlen(&(&x + y.clone()))).unwrap_or("panic".into()),
            ];
            Some(agree(&forms))
        }
        ("c04.b.op_sub", [na, x, nb, y]) => {
            let (x, y) = (arg!(boxed(x, arg!(dec(na)))), arg!(boxed(y, arg!(dec(nb)))));
            let forms: Vec<String> = vec![
                std::panic::catch_unwind(|| bhexlen(&(&x - &y))).unwrap_or("panic".into()),
                std::panic::catch_unwind(|| bhexlen(&(x.clone() - y.clone()))).unwrap_or("panic".into()),
                std::panic::catch_unwind(|| bhexlen(&(x.clone() - &y))).unwrap_or("panic".into()),
                std::panic::catch_unwind(|| bhexlen(&(&x - y.clone()))).unwrap_or("panic".into()),
            ];
            Some(agree(&forms))
        }
        ("c04.b.add_assign", [na, x, nb, y]) => {
            let (x, y) = (arg!(boxed(x, arg!(dec(na)))), arg!(boxed(y, arg!(dec(nb)))));
            let mut forms: Vec<String> = vec![
                std::panic::catch_unwind(|| { let mut t = x.clone(); t += &y; bhexlen(&t) }).unwrap_or("panic".into()),
                std::panic::catch_unwind(|| { let mut t = x.clone(); t += y.clone(); bhexlen(&t) }).unwrap_or("panic".into()),
            ];
            // the same through a fixed-width right-hand side and through primitives, where the value fits
            forms.push(with_rhs_uint(&x, &y, true));
            if let Some(p) = prim_forms(&x, &y, true) { forms.push(p); }
            Some(agree(&forms))
        }
        ("c04.b.sub_assign", [na, x, nb, y]) => {
            let (x, y) = (arg!(boxed(x, arg!(dec(na)))), arg!(boxed(y, arg!(dec(nb)))));
            let mut forms: Vec<String> = vec![
                std::panic::catch_unwind(|| { let mut t = x.clone(); t -= &y; bhexlen(&t) }).unwrap_or("panic".into()),
                std::panic::catch_unwind(|| { let mut t = x.clone(); t -= y.clone(); bhexlen(&t) }).unwrap_or("panic".into()),
            ];
            forms.push(with_rhs_uint(&x, &y, false));
            if let Some(p) = prim_forms(&x, &y, false) { forms.push(p); }
            Some(agree(&forms))
        }
        ("c04.b.wrapping_assign", [na, x, nb, y]) => {
            let (x, y) = (arg!(boxed(x, arg!(dec(na)))), arg!(boxed(y, arg!(dec(nb)))));
            let mut a = Wrapping(x.clone());
            a += Wrapping(y.clone());
            let mut a2 = Wrapping(x.clone());
            a2 += &Wrapping(y.clone());
            let mut s = Wrapping(x.clone());
            s -= Wrapping(y.clone());
            let mut s2 = Wrapping(x.clone());
            s2 -= &Wrapping(y.clone());
            Some(format!("{} {}", agree(&[bhexlen(&a.0), bhexlen(&a2.0)]), agree(&[bhexlen(&s.0), bhexlen(&s2.0)])))
        }
        _ if op.starts_with("c04.u.") && !a.is_empty() => {
            let n = arg!(dec(a[0]));
            let rest = &a[1..];
            with_n!(n, fixed, op, rest)
        }
        _ => None,
    }
}

/// `boxed (+|-)= Uint<N>` and `boxed (+|-) Uint<N>` with N = the right-hand side's limb count
fn with_rhs_uint(x: &BoxedUint, y: &BoxedUint, add: bool) -> String {
    fn go<const N: usize>(x: &BoxedUint, y: &BoxedUint, add: bool) -> Option<String> {
        let mut w = [0u64; N];
        w.copy_from_slice(y.as_words());
        let u = Uint::<N>::from_words(w);
        let f: Vec<String> = vec![
            std::panic::catch_unwind(|| { let mut t = x.clone(); if add { t += &u } else { t -= &u }; bhexlen(&t) }).unwrap_or("panic".into()),
            std::panic::catch_unwind(|| { let mut t = x.clone(); if add { t += u } else { t -= u }; bhexlen(&t) }).unwrap_or("panic".into()),
            std::panic::catch_unwind(|| bhexlen(&if add { x.clone() + &u } else { x.clone() - &u })).unwrap_or("panic".into()),
            std::panic::catch_unwind(|| bhexlen(&if add { x + u } else { x - u })).unwrap_or("panic".into()),
            std::panic::catch_unwind(|| bhexlen(&if add { x + &u } else { x - &u })).unwrap_or("panic".into()),
        ];
        Some(agree(&f))
    }
    let n = y.as_words().len();
    let r: Option<String> = with_n!(n, go, x, y, add);
    // widths outside the table: fall back to the boxed form's answer (no extra information)
    match r.as_deref() {
        Some("unsupported-width") | None => std::panic::catch_unwind(|| { let mut t = x.clone(); if add { t += y } else { t -= y }; bhexlen(&t) }).unwrap_or("panic".into()),
        Some(s) => s.to_string(),
    }
}

/// `boxed (+|-) primitive` for every primitive type that can hold the right-hand value
fn prim_forms(x: &BoxedUint, y: &BoxedUint, add: bool) -> Option<String> {
    let w = y.as_words();
    // only where the boxed form is inside its documented precondition (rhs not wider than the receiver)
    if w.len() > x.as_words().len() || w.iter().skip(2).any(|v| *v != 0) { return None; }
    let v: u128 = (w[0] as u128) | ((*w.get(1).unwrap_or(&0) as u128) << 64);
    let mut f: Vec<String> = Vec::new();
    macro_rules! p {
        ($t:ty) => {
            if v <= <$t>::MAX as u128 {
                let r = v as $t;
                f.push(std::panic::catch_unwind(|| bhexlen(&if add { x.clone() + r } else { x.clone() - r })).unwrap_or("panic".into()));
                f.push(std::panic::catch_unwind(|| bhexlen(&if add { x + r } else { x - r })).unwrap_or("panic".into()));
                f.push(std::panic::catch_unwind(|| { let mut t = x.clone(); if add { t += r } else { t -= r }; bhexlen(&t) }).unwrap_or("panic".into()));
            }
        };
    }
    p!(u8); p!(u16); p!(u32); p!(u64);
    if x.as_words().len() >= 2 { p!(u128); }
    if f.is_empty() { None } else { Some(agree(&f)) }
}
