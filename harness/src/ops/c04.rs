//! C04 — add / sub / neg
use crate::util::*;
use crypto_bigint::{CheckedAdd, CheckedSub, Uint};

fn fixed<const N: usize>(op: &str, a: &[&str]) -> Option<String> {
    Some(match (op, a) {
        ("c04.u.adc", [x, y, c]) => {
            let (x, y, c) = (arg!(uint::<N>(x)), arg!(uint::<N>(y)), arg!(limb(c)));
            let (r, c) = x.adc(&y, c);
            format!("{} {}", uhex(&r), lhex(c))
        }
        ("c04.u.sbb", [x, y, c]) => {
            let (x, y, c) = (arg!(uint::<N>(x)), arg!(uint::<N>(y)), arg!(limb(c)));
            let (r, c) = x.sbb(&y, c);
            format!("{} {}", uhex(&r), lhex(c))
        }
        ("c04.u.wrapping_add", [x, y]) => uhex(&arg!(uint::<N>(x)).wrapping_add(&arg!(uint::<N>(y)))),
        ("c04.u.wrapping_sub", [x, y]) => uhex(&arg!(uint::<N>(x)).wrapping_sub(&arg!(uint::<N>(y)))),
        ("c04.u.saturating_add", [x, y]) => uhex(&arg!(uint::<N>(x)).saturating_add(&arg!(uint::<N>(y)))),
        ("c04.u.saturating_sub", [x, y]) => uhex(&arg!(uint::<N>(x)).saturating_sub(&arg!(uint::<N>(y)))),
        ("c04.u.checked_add", [x, y]) => {
            let r: Option<Uint<N>> = arg!(uint::<N>(x)).checked_add(&arg!(uint::<N>(y))).into();
            r.map(|v| uhex(&v)).unwrap_or("none".into())
        }
        ("c04.u.checked_sub", [x, y]) => {
            let r: Option<Uint<N>> = arg!(uint::<N>(x)).checked_sub(&arg!(uint::<N>(y))).into();
            r.map(|v| uhex(&v)).unwrap_or("none".into())
        }
        _ => return None,
    })
}

pub fn dispatch(op: &str, a: &[&str]) -> Option<String> {
    match (op, a) {
        ("c04.w.adc", [x, y, c]) => {
            let (r, c) = arg!(limb(x)).adc(arg!(limb(y)), arg!(limb(c)));
            Some(format!("{} {}", lhex(r), lhex(c)))
        }
        ("c04.w.sbb", [x, y, c]) => {
            let (r, c) = arg!(limb(x)).sbb(arg!(limb(y)), arg!(limb(c)));
            Some(format!("{} {}", lhex(r), lhex(c)))
        }
        ("c04.w.mac", [x, y, z, c]) => {
            let (r, c) = arg!(limb(x)).mac(arg!(limb(y)), arg!(limb(z)), arg!(limb(c)));
            Some(format!("{} {}", lhex(r), lhex(c)))
        }
        _ if op.starts_with("c04.u.") && !a.is_empty() => {
            let n = arg!(dec(a[0]));
            let rest = &a[1..];
            with_n!(n, fixed, op, rest)
        }
        _ => None,
    }
}
