//! C03 — multiplication and squaring (op names start with `c03.`)
//!
//! `c03.l.*`  Limb ops            `c03.u.* n m x y` / `c03.u.* n x`  fixed `Uint`
//! `c03.i.*`  fixed `Int`          `c03.b.*`  `BoxedUint`
//!
//! Forwarding forms (trait methods, operators by value / by reference / assigning, `Wrapping`,
//! `Checked`) are all evaluated and must agree; a disagreement prints `forms-differ:…`.
use crate::util::*;
use crypto_bigint::{
    BoxedUint, Checked, CheckedMul, Concat, ConcatMixed, Int, Limb, Uint, WideningMul, Wrapping, WrappingMul,
};
use std::panic::{AssertUnwindSafe, catch_unwind};

/// evaluate one form; a panic inside it is the result `panic`
fn form<F: FnOnce() -> String>(f: F) -> String {
    match catch_unwind(AssertUnwindSafe(f)) {
        Ok(s) => s,
        Err(_) => "panic".to_string(),
    }
}

fn agree(forms: Vec<String>) -> String {
    if forms.iter().all(|f| *f == forms[0]) { forms[0].clone() } else { format!("forms-differ:{}", forms.join("|")) }
}

fn opt<T>(o: Option<T>, p: impl Fn(&T) -> String) -> String {
    o.map(|v| p(&v)).unwrap_or("none".into())
}

// ---------------------------------------------------------------- Limb

fn limb_ops(op: &str, a: &[&str]) -> Option<String> {
    Some(match (op, a) {
        ("c03.l.mac", [x, y, z, c]) => {
            let (r, c) = arg!(limb(x)).mac(arg!(limb(y)), arg!(limb(z)), arg!(limb(c)));
            format!("{} {}", lhex(r), lhex(c))
        }
        ("c03.l.saturating_mul", [x, y]) => lhex(arg!(limb(x)).saturating_mul(arg!(limb(y)))),
        ("c03.l.wrapping_mul", [x, y]) => {
            let (x, y) = (arg!(limb(x)), arg!(limb(y)));
            let mut w = Wrapping(x);
            w *= Wrapping(y);
            let mut w2 = Wrapping(x);
            w2 *= &Wrapping(y);
            agree(vec![
                lhex(x.wrapping_mul(y)),
                lhex(WrappingMul::wrapping_mul(&x, &y)),
                lhex((Wrapping(x) * Wrapping(y)).0),
                lhex((Wrapping(x) * &Wrapping(y)).0),
                lhex((&Wrapping(x) * Wrapping(y)).0),
                lhex((&Wrapping(x) * &Wrapping(y)).0),
                lhex(w.0),
                lhex(w2.0),
            ])
        }
        ("c03.l.checked_mul", [x, y]) => {
            let r: Option<Limb> = arg!(limb(x)).checked_mul(&arg!(limb(y))).into();
            opt(r, |v| lhex(*v))
        }
        ("c03.l.checked_ops", [x, y]) => {
            let (x, y) = (Checked::new(arg!(limb(x))), Checked::new(arg!(limb(y))));
            // sticky none in every operator form, either side (seed C13-m7: `Checked * &Checked` ignored a `None` rhs)
            {
                let none: Checked<Limb> = Checked(crypto_bigint::subtle::CtOption::new(Limb::ONE, 0u8.into()));
                let (mut t1, mut t2, mut t3) = (x, x, none);
                t1 *= none;
                t2 *= &none;
                t3 *= &x;
                let forms = [x * none, x * &none, &x * none, &x * &none, none * x, none * &x, &none * x, &none * &x, t1, t2, t3];
                if let Some(i) = forms.iter().position(|c| bool::from(c.0.is_some())) {
                    return Some(format!("sticky-none-lost:form{i}"));
                }
            }
            let p = |c: Checked<Limb>| opt(Option::<Limb>::from(c.0), |v| lhex(*v));
            let mut w = x;
            w *= y;
            let mut w2 = x;
            w2 *= &y;
            agree(vec![p(x * y), p(x * &y), p(&x * y), p(&x * &y), p(w), p(w2)])
        }
        ("c03.l.mul_ops", [x, y]) => {
            let (x, y) = (arg!(limb(x)), arg!(limb(y)));
            agree(vec![
                form(|| lhex(x * y)),
                form(|| lhex(x * &y)),
                form(|| lhex(&x * y)),
                form(|| lhex(&x * &y)),
            ])
        }
        _ => return None,
    })
}

// ---------------------------------------------------------------- fixed Uint

fn u_mixed<const N: usize, const M: usize>(op: &str, a: &[&str]) -> Option<String> {
    let [x, y] = a else { return Some(BAD.into()) };
    let (x, y) = (arg!(uint::<N>(x)), arg!(uint::<M>(y)));
    Some(match op {
        "c03.u.split_mul" => {
            let (lo, hi) = x.split_mul(&y);
            format!("{} {}", uhex(&lo), uhex(&hi))
        }
        "c03.u.wrapping_mul" => uhex(&x.wrapping_mul(&y)),
        "c03.u.saturating_mul" => uhex(&x.saturating_mul(&y)),
        "c03.u.checked_mul" => {
            let r: Option<Uint<N>> = x.checked_mul(&y).into();
            opt(r, uhex)
        }
        "c03.u.mul_ops" => {
            let mut forms = vec![
                form(|| uhex(&(x * y))),
                form(|| uhex(&(x * &y))),
                form(|| uhex(&(&x * y))),
                form(|| uhex(&(&x * &y))),
            ];
            forms.push(form(|| {
                let mut w = x;
                w *= y;
                uhex(&w)
            }));
            forms.push(form(|| {
                let mut w = x;
                w *= &y;
                uhex(&w)
            }));
            agree(forms)
        }
        _ => return None,
    })
}

/// forms that exist only for equal widths: `WrappingMul`, `Wrapping`, `Checked`, squarings
fn u_eq<const N: usize>(op: &str, a: &[&str]) -> Option<String> {
    Some(match (op, a) {
        ("c03.u.wrapping_mul", [x, y]) => {
            let (x, y) = (arg!(uint::<N>(x)), arg!(uint::<N>(y)));
            let mut w = Wrapping(x);
            w *= Wrapping(y);
            let mut w2 = Wrapping(x);
            w2 *= &Wrapping(y);
            agree(vec![
                uhex(&x.wrapping_mul(&y)),
                uhex(&WrappingMul::wrapping_mul(&x, &y)),
                uhex(&(Wrapping(x) * Wrapping(y)).0),
                uhex(&(Wrapping(x) * &Wrapping(y)).0),
                uhex(&(&Wrapping(x) * Wrapping(y)).0),
                uhex(&(&Wrapping(x) * &Wrapping(y)).0),
                uhex(&w.0),
                uhex(&w2.0),
            ])
        }
        ("c03.u.checked_ops", [x, y]) => {
            let (x, y) = (Checked::new(arg!(uint::<N>(x))), Checked::new(arg!(uint::<N>(y))));
            // sticky none in every operator form, either side (seed C13-m7: `Checked * &Checked` ignored a `None` rhs)
            {
                let none: Checked<Uint<N>> = Checked(crypto_bigint::subtle::CtOption::new(Uint::<N>::ONE, 0u8.into()));
                let (mut t1, mut t2, mut t3) = (x, x, none);
                t1 *= none;
                t2 *= &none;
                t3 *= &x;
                let forms = [x * none, x * &none, &x * none, &x * &none, none * x, none * &x, &none * x, &none * &x, t1, t2, t3];
                if let Some(i) = forms.iter().position(|c| bool::from(c.0.is_some())) {
                    return Some(format!("sticky-none-lost:form{i}"));
                }
            }
            let p = |c: Checked<Uint<N>>| opt(Option::<Uint<N>>::from(c.0), uhex);
            let mut w = x;
            w *= y;
            let mut w2 = x;
            w2 *= &y;
            agree(vec![p(x * y), p(x * &y), p(&x * y), p(&x * &y), p(w), p(w2)])
        }
        ("c03.u.square_wide", [x]) => {
            let (lo, hi) = arg!(uint::<N>(x)).square_wide();
            format!("{} {}", uhex(&lo), uhex(&hi))
        }
        ("c03.u.wrapping_square", [x]) => uhex(&arg!(uint::<N>(x)).wrapping_square()),
        ("c03.u.saturating_square", [x]) => uhex(&arg!(uint::<N>(x)).saturating_square()),
        ("c03.u.checked_square", [x]) => {
            let r: Option<Uint<N>> = arg!(uint::<N>(x)).checked_square().into();
            opt(r, uhex)
        }
        (_, [_, _]) => return u_mixed::<N, N>(op, a),
        _ => return None,
    })
}

/// widening forms, `N + M = W` with a `ConcatMixed` impl
fn u_wide<const N: usize, const M: usize, const W: usize>(op: &str, a: &[&str]) -> Option<String>
where
    Uint<N>: ConcatMixed<Uint<M>, MixedOutput = Uint<W>>,
{
    Some(match (op, a) {
        ("c03.u.widening_mul", [x, y]) => {
            let (x, y) = (arg!(uint::<N>(x)), arg!(uint::<M>(y)));
            agree(vec![
                uhex(&x.widening_mul(&y)),
                uhex(&WideningMul::widening_mul(&x, y)),
                uhex(&WideningMul::widening_mul(&x, &y)),
            ])
        }
        ("c03.i.widening_mul", [x, y]) => {
            let (x, y) = (arg!(int::<N>(x)), arg!(int::<M>(y)));
            ihex(&x.widening_mul(&y))
        }
        _ => return None,
    })
}

/// `widening_square` / `square`, `2N = W`
fn u_wide_sq<const N: usize, const W: usize>(op: &str, a: &[&str]) -> Option<String>
where
    Uint<N>: ConcatMixed<Uint<N>, MixedOutput = Uint<W>> + Concat<Output = Uint<W>>,
{
    Some(match (op, a) {
        ("c03.u.widening_square", [x]) => {
            let x = arg!(uint::<N>(x));
            agree(vec![uhex(&x.widening_square()), uhex(&x.square())])
        }
        ("c03.i.widening_square", [x]) => uhex(&arg!(int::<N>(x)).widening_square()),
        (_, [_, _]) => return u_wide::<N, N, W>(op, a),
        _ => return None,
    })
}

// ---------------------------------------------------------------- fixed Int

fn i_mixed<const N: usize, const M: usize>(op: &str, a: &[&str]) -> Option<String> {
    let [x, y] = a else { return Some(BAD.into()) };
    let (x, y) = (arg!(int::<N>(x)), arg!(int::<M>(y)));
    Some(match op {
        "c03.i.split_mul" => {
            let (lo, hi, neg) = x.split_mul(&y);
            format!("{} {} {}", uhex(&lo), uhex(&hi), cchoice(neg))
        }
        "c03.i.checked_mul" => {
            let r: Option<Int<N>> = x.checked_mul(&y).into();
            opt(r, ihex)
        }
        "c03.i.mul_ops" => agree(vec![
            form(|| ihex(&(x * y))),
            form(|| ihex(&(x * &y))),
            form(|| ihex(&(&x * y))),
            form(|| ihex(&(&x * &y))),
        ]),
        _ => return None,
    })
}

fn i_eq<const N: usize>(op: &str, a: &[&str]) -> Option<String> {
    Some(match (op, a) {
        ("c03.i.checked_ops", [x, y]) => {
            let (x, y) = (Checked::new(arg!(int::<N>(x))), Checked::new(arg!(int::<N>(y))));
            // sticky none in every operator form, either side (seed C13-m7: `Checked * &Checked` ignored a `None` rhs)
            {
                let none: Checked<Int<N>> = Checked(crypto_bigint::subtle::CtOption::new(Int::<N>::ONE, 0u8.into()));
                let (mut t1, mut t2, mut t3) = (x, x, none);
                t1 *= none;
                t2 *= &none;
                t3 *= &x;
                let forms = [x * none, x * &none, &x * none, &x * &none, none * x, none * &x, &none * x, &none * &x, t1, t2, t3];
                if let Some(i) = forms.iter().position(|c| bool::from(c.0.is_some())) {
                    return Some(format!("sticky-none-lost:form{i}"));
                }
            }
            let p = |c: Checked<Int<N>>| opt(Option::<Int<N>>::from(c.0), ihex);
            let mut w = x;
            w *= y;
            let mut w2 = x;
            w2 *= &y;
            agree(vec![p(x * y), p(x * &y), p(&x * y), p(&x * &y), p(w), p(w2)])
        }
        ("c03.i.wrapping_square", [x]) => uhex(&arg!(int::<N>(x)).wrapping_square()),
        ("c03.i.saturating_square", [x]) => uhex(&arg!(int::<N>(x)).saturating_square()),
        ("c03.i.checked_square", [x]) => {
            let r: Option<Uint<N>> = arg!(int::<N>(x)).checked_square().into();
            opt(r, uhex)
        }
        (_, [_, _]) => return i_mixed::<N, N>(op, a),
        _ => return None,
    })
}

// ---------------------------------------------------------------- width tables

const UNSUP: &str = "unsupported-width";

/// equal widths: 1..=12 and every Karatsuba dispatch width 16, 32, 64, 128
macro_rules! eq_widths {
    ($n:expr, $f:ident, $op:expr, $a:expr) => {
        match $n {
            1 => $f::<1>($op, $a),
            2 => $f::<2>($op, $a),
            3 => $f::<3>($op, $a),
            4 => $f::<4>($op, $a),
            5 => $f::<5>($op, $a),
            6 => $f::<6>($op, $a),
            7 => $f::<7>($op, $a),
            8 => $f::<8>($op, $a),
            9 => $f::<9>($op, $a),
            10 => $f::<10>($op, $a),
            11 => $f::<11>($op, $a),
            12 => $f::<12>($op, $a),
            16 => $f::<16>($op, $a),
            32 => $f::<32>($op, $a),
            64 => $f::<64>($op, $a),
            128 => $f::<128>($op, $a),
            _ => Some(UNSUP.to_string()),
        }
    };
}

/// mixed (lhs, rhs) widths
macro_rules! mixed_widths {
    ($n:expr, $m:expr, $f:ident, $op:expr, $a:expr) => {
        match ($n, $m) {
            (1, 2) => $f::<1, 2>($op, $a),
            (2, 1) => $f::<2, 1>($op, $a),
            (3, 1) => $f::<3, 1>($op, $a),
            (2, 4) => $f::<2, 4>($op, $a),
            (4, 2) => $f::<4, 2>($op, $a),
            (3, 5) => $f::<3, 5>($op, $a),
            (5, 3) => $f::<5, 3>($op, $a),
            (4, 8) => $f::<4, 8>($op, $a),
            (8, 4) => $f::<8, 4>($op, $a),
            (1, 8) => $f::<1, 8>($op, $a),
            (7, 2) => $f::<7, 2>($op, $a),
            (6, 10) => $f::<6, 10>($op, $a),
            (12, 4) => $f::<12, 4>($op, $a),
            (16, 8) => $f::<16, 8>($op, $a),
            (8, 16) => $f::<8, 16>($op, $a),
            (16, 32) => $f::<16, 32>($op, $a),
            (32, 16) => $f::<32, 16>($op, $a),
            (64, 32) => $f::<64, 32>($op, $a),
            (16, 24) => $f::<16, 24>($op, $a),
            (32, 64) => $f::<32, 64>($op, $a),
            (64, 128) => $f::<64, 128>($op, $a),
            (128, 64) => $f::<128, 64>($op, $a),
            (64, 16) => $f::<64, 16>($op, $a),
            _ => Some(UNSUP.to_string()),
        }
    };
}

fn wide_sq(n: usize, op: &str, a: &[&str]) -> Option<String> {
    match n {
        1 => u_wide_sq::<1, 2>(op, a),
        2 => u_wide_sq::<2, 4>(op, a),
        3 => u_wide_sq::<3, 6>(op, a),
        4 => u_wide_sq::<4, 8>(op, a),
        5 => u_wide_sq::<5, 10>(op, a),
        6 => u_wide_sq::<6, 12>(op, a),
        7 => u_wide_sq::<7, 14>(op, a),
        8 => u_wide_sq::<8, 16>(op, a),
        12 => u_wide_sq::<12, 24>(op, a),
        16 => u_wide_sq::<16, 32>(op, a),
        32 => u_wide_sq::<32, 64>(op, a),
        64 => u_wide_sq::<64, 128>(op, a),
        128 => u_wide_sq::<128, 256>(op, a),
        _ => Some(UNSUP.to_string()),
    }
}

fn wide_mixed(n: usize, m: usize, op: &str, a: &[&str]) -> Option<String> {
    match (n, m) {
        (1, 2) => u_wide::<1, 2, 3>(op, a),
        (2, 1) => u_wide::<2, 1, 3>(op, a),
        (3, 1) => u_wide::<3, 1, 4>(op, a),
        (2, 4) => u_wide::<2, 4, 6>(op, a),
        (4, 2) => u_wide::<4, 2, 6>(op, a),
        (3, 5) => u_wide::<3, 5, 8>(op, a),
        (5, 3) => u_wide::<5, 3, 8>(op, a),
        (4, 8) => u_wide::<4, 8, 12>(op, a),
        (8, 4) => u_wide::<8, 4, 12>(op, a),
        (1, 8) => u_wide::<1, 8, 9>(op, a),
        (7, 2) => u_wide::<7, 2, 9>(op, a),
        (6, 10) => u_wide::<6, 10, 16>(op, a),
        (12, 4) => u_wide::<12, 4, 16>(op, a),
        _ => Some(UNSUP.to_string()),
    }
}

// ---------------------------------------------------------------- BoxedUint

fn boxed_ops(op: &str, a: &[&str]) -> Option<String> {
    if let ("c03.b.square", [n, x]) = (op, a) {
        let x = arg!(boxed(x, arg!(dec(n))));
        return Some(bhexlen(&x.square()));
    }
    let [n, m, x, y] = a else { return Some(BAD.into()) };
    let (x, y) = (arg!(boxed(x, arg!(dec(n)))), arg!(boxed(y, arg!(dec(m)))));
    Some(match op {
        // inherent mul, by-value operators (widening), WideningMul, MulAssign
        "c03.b.mul" => {
            let mut w = x.clone();
            w *= y.clone();
            let mut w2 = x.clone();
            w2 *= &y;
            agree(vec![
                bhexlen(&x.mul(&y)),
                bhexlen(&(x.clone() * y.clone())),
                bhexlen(&(x.clone() * &y)),
                bhexlen(&(&x * y.clone())),
                bhexlen(&WideningMul::widening_mul(&x, y.clone())),
                bhexlen(&WideningMul::widening_mul(&x, &y)),
                bhexlen(&w),
                bhexlen(&w2),
            ])
        }
        // `&a * &b` is the checked (panicking) form
        "c03.b.mul_ref" => bhexlen(&(&x * &y)),
        "c03.b.wrapping_mul" => {
            let mut w = Wrapping(x.clone());
            w *= Wrapping(y.clone());
            let mut w2 = Wrapping(x.clone());
            w2 *= &Wrapping(y.clone());
            agree(vec![
                bhexlen(&x.wrapping_mul(&y)),
                bhexlen(&WrappingMul::wrapping_mul(&x, &y)),
                bhexlen(&(Wrapping(x.clone()) * Wrapping(y.clone())).0),
                // every by-value / by-reference combination (seed C03-m7: `&W * W` forwarded to `rhs * self`: other precision)
                bhexlen(&(Wrapping(x.clone()) * &Wrapping(y.clone())).0),
                bhexlen(&(&Wrapping(x.clone()) * Wrapping(y.clone())).0),
                bhexlen(&(&Wrapping(x.clone()) * &Wrapping(y.clone())).0),
                bhexlen(&w.0),
                bhexlen(&w2.0),
            ])
        }
        "c03.b.checked_mul" => {
            let r: Option<BoxedUint> = x.checked_mul(&y).into();
            opt(r, bhexlen)
        }
        _ => return None,
    })
}

// ---------------------------------------------------------------- hooks (crate-internal limb-slice routines)
//   c03.hook.adc_mul_limbs n m x y acc     `out = acc` (n + m limbs); prints `<n+m>:<out> <carry>`
//   c03.hook.kara_mul n m x y dirty        `karatsuba_mul_limbs` with `out`, `scratch` of n + m limbs each (as
//                                          `BoxedUint::mul` sizes them); dirty = 1 pre-fills both with a5a5…
//   c03.hook.kara_square n x dirty         `karatsuba_square_limbs`, `out`, `scratch` of 2n limbs each

fn hook_limbs(s: &str, n: usize) -> Option<Vec<Limb>> {
    Some(hex_words(s, n)?.into_iter().map(Limb).collect())
}
fn hook_hexlen(l: &[Limb]) -> String {
    format!("{}:{}", l.len(), words_hex(&l.iter().map(|x| x.0).collect::<Vec<_>>()))
}

#[cfg(crypto_bigint_verif)]
fn hook_ops(op: &str, a: &[&str]) -> Option<String> {
    use crypto_bigint::verif_hooks as h;
    const MAXL: usize = 600;
    Some(match (op, a) {
        ("c03.hook.adc_mul_limbs", [n, m, x, y, acc]) => {
            let (n, m) = (arg!(dec(n)), arg!(dec(m)));
            if n + m > MAXL {
                return Some("unsupported-width".into());
            }
            let (x, y) = (arg!(hook_limbs(x, n)), arg!(hook_limbs(y, m)));
            let mut out = arg!(hook_limbs(acc, n + m));
            let carry = h::adc_mul_limbs(&x, &y, &mut out);
            format!("{} {}", hook_hexlen(&out), lhex(carry))
        }
        ("c03.hook.kara_mul", [n, m, x, y, dirty]) => {
            let (n, m) = (arg!(dec(n)), arg!(dec(m)));
            if n + m > MAXL {
                return Some("unsupported-width".into());
            }
            let (x, y) = (arg!(hook_limbs(x, n)), arg!(hook_limbs(y, m)));
            let fill = if arg!(dec(dirty)) == 1 { Limb(0xa5a5_a5a5_a5a5_a5a5) } else { Limb::ZERO };
            let mut out = vec![fill; n + m];
            let mut scratch = vec![fill; n + m];
            h::karatsuba_mul_limbs(&x, &y, &mut out, &mut scratch);
            hook_hexlen(&out)
        }
        ("c03.hook.kara_square", [n, x, dirty]) => {
            let n = arg!(dec(n));
            if 2 * n > MAXL {
                return Some("unsupported-width".into());
            }
            let x = arg!(hook_limbs(x, n));
            let fill = if arg!(dec(dirty)) == 1 { Limb(0xa5a5_a5a5_a5a5_a5a5) } else { Limb::ZERO };
            let mut out = vec![fill; 2 * n];
            let mut scratch = vec![fill; 2 * n];
            h::karatsuba_square_limbs(&x, &mut out, &mut scratch);
            hook_hexlen(&out)
        }
        _ => return None,
    })
}

pub fn dispatch(op: &str, a: &[&str]) -> Option<String> {
    if op.starts_with("c03.hook.") {
        return hook_ops(op, a);
    }
    if op.starts_with("c03.l.") {
        return limb_ops(op, a);
    }
    if op.starts_with("c03.b.") {
        return boxed_ops(op, a);
    }
    let uns = op.starts_with("c03.u.");
    if !uns && !op.starts_with("c03.i.") {
        return None;
    }
    match a {
        // unary: n x
        [n, _x] => {
            let n = arg!(dec(n));
            let rest = &a[1..];
            if op.ends_with(".widening_square") {
                wide_sq(n, op, rest)
            } else if uns {
                eq_widths!(n, u_eq, op, rest)
            } else {
                eq_widths!(n, i_eq, op, rest)
            }
        }
        // binary: n m x y
        [n, m, _x, _y] => {
            let (n, m) = (arg!(dec(n)), arg!(dec(m)));
            let rest = &a[2..];
            if op.ends_with(".widening_mul") {
                if n == m { wide_sq(n, op, rest) } else { wide_mixed(n, m, op, rest) }
            } else if n == m {
                if uns { eq_widths!(n, u_eq, op, rest) } else { eq_widths!(n, i_eq, op, rest) }
            } else if uns {
                mixed_widths!(n, m, u_mixed, op, rest)
            } else {
                mixed_widths!(n, m, i_mixed, op, rest)
            }
        }
        _ => Some(BAD.into()),
    }
}

// ---- the same entry points when the crate is built WITHOUT `--cfg crypto_bigint_verif` (fallback build of the runner when the
// hook forwarders of /repo no longer compile, e.g. after a refactor of an internal signature): hook operations answer
// `hook-unavailable` and are skipped by the runner; the public operations still run.
#[cfg(not(crypto_bigint_verif))]
fn hook_ops(_op: &str, _a: &[&str]) -> Option<String> {
    Some(crate::util::HOOK_UNAVAILABLE.to_string())
}
