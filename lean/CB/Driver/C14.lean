import CB.Driver.Util
namespace CB

/-- operations of property C14 (op names start with `c14.`) -/
def dispatchC14 : Dispatch := fun _ _ => none

end CB
