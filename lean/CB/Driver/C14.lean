import CB.Driver.Util
import CB.Driver.C13
import CB.Model.IntDiv
namespace CB

/-! Driver of property C14.  Every line is printed as `L1 ;; L0`: `L1` = the model of
    CB/Model/IntDiv.lean (the code as written, including the floor-remainder sign it computes),
    `L0` = `Int.tdiv/tmod` resp. `Int.fdiv/fmod` on `toInt` (what the property demands). -/

open CB.SInt CB.SInt.Drv CB.IntDiv

namespace IntDiv.Drv
/-- a signed remainder that must be stored in an `m`-limb `Int` -/
def encFit (m : Nat) (x : Int) : String := if inRange m x then encI m x else "unrepresentable"
end IntDiv.Drv
open IntDiv.Drv

def dispatchC14 : Dispatch := fun op args =>
  let two (n a m b : String) (f : List Nat → List Nat → Option String) : Option String :=
    match lim n a, lim m b with
    | some x, some y => f x y
    | _, _ => badArgs
  -- signed divisor, truncating
  let divRem (x y : List Nat) : Option String :=
    if val y = 0 then both "zero-divisor none" "zero-divisor none" else
    let r := iCheckedDivRem x y
    both s!"{optTok r.1} {limbsHex r.2}"
         s!"{encOpt x.length (Int.tdiv (toInt x) (toInt y))} {encFit y.length (Int.tmod (toInt x) (toInt y))}"
  -- signed divisor, flooring
  let divRemFloor (x y : List Nat) : Option String :=
    if val y = 0 then both "zero-divisor none" "zero-divisor none" else
    let r := iCheckedDivRemFloor x y
    both s!"{optTok r.1} {limbsHex r.2}"
         s!"{encOpt x.length (Int.fdiv (toInt x) (toInt y))} {encFit y.length (Int.fmod (toInt x) (toInt y))}"
  -- unsigned divisor, truncating
  let divRemUint (x y : List Nat) : Option String :=
    if val y = 0 then both "zero-divisor" "zero-divisor" else
    let r := iDivRemUint x y
    both s!"{limbsHex r.1} {limbsHex r.2}"
         s!"{encFit x.length (Int.tdiv (toInt x) (val y : Int))} {encFit y.length (Int.tmod (toInt x) (val y : Int))}"
  -- unsigned divisor, flooring; the remainder is a `Uint`
  let divRemFloorUint (x y : List Nat) : Option String :=
    if val y = 0 then both "zero-divisor" "zero-divisor" else
    let r := iDivRemFloorUint x y
    both s!"{limbsHex r.1} {limbsHex r.2}"
         s!"{encFit x.length (Int.fdiv (toInt x) (val y : Int))} {natToHex (Int.fmod (toInt x) (val y : Int)).toNat}"
  match op, args with
  | "c14.div_rem", [n, a, b] => two n a n b divRem
  | "c14.div_rem_vartime", [n, a, m, b] => two n a m b divRem
  | "c14.div_rem_floor", [n, a, b] => two n a n b divRemFloor
  | "c14.div_rem_floor_vartime", [n, a, m, b] => two n a m b divRemFloor
  | "c14.div_rem_uint", [n, a, b] => two n a n b divRemUint
  | "c14.div_rem_uint_vartime", [n, a, m, b] => two n a m b divRemUint
  | "c14.div_rem_floor_uint", [n, a, b] => two n a n b divRemFloorUint
  | "c14.div_rem_floor_uint_vartime", [n, a, m, b] => two n a m b divRemFloorUint
  | _, _ => none

end CB
