import CB.Driver.Util
namespace CB

/-- operations of property C07 (op names start with `c07.`) -/
def dispatchC07 : Dispatch := fun _ _ => none

end CB
