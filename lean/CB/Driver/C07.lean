import CB.Driver.Util
import CB.Model.ModArith
namespace CB
open CB.ModArith

/-!
  Driver of property C07.  Every line prints `L1 ;; L0`:
  `L1` = the limb-level model of `CB.Model.ModArith` (mirrors the code; both build profiles agree),
  `L0` = what the property demands, computed on plain `Nat`s (the canonical residue).
  Fixed-width results are printed as hex values, boxed results as `<nlimbs>:<hex>`.
  Generators only emit lines inside the documented preconditions (`a, b < p`, `p` odd where
  required, `1 ≤ c < 2^64`), so `L0` is defined on every line.
-/

private def hexs? (l : List String) : Option (List Nat) := l.mapM hexToNat?

/-- L0 helpers on values -/
private def l0add (a b p : Nat) : Nat := (a + b) % p
private def l0sub (a b p : Nat) : Nat := (a + p - b % p) % p
private def l0neg (a p : Nat) : Nat := (p - a % p) % p
private def l0mul (a b p : Nat) : Nat := (a * b) % p
/-- the unique `r < p` with `2 r ≡ a (mod p)`, `p` odd: `a · (p+1)/2 mod p` -/
private def l0half (a p : Nat) : Nat := (a * ((p + 1) / 2)) % p

private def outU (l1 : List Nat) (l0 : Nat) : String := s!"{limbsHex l1} ;; {natToHex l0}"
private def outB (l1 : List Nat) (n l0 : Nat) : String := s!"{limbsHexLen l1} ;; {n}:{natToHex l0}"

/-- `c07.hook.*`: crate-internal functions reached through `crypto_bigint::verif_hooks`.
    `sub_mod_with_carry`: L0 (the difference `(a + carry·2^BITS) - b` reduced mod `p`) is printed only inside the
    documented precondition `carry ≤ 1`, `-p ≤ (a + carry·2^BITS) - b < p`; outside it the line is `L1` alone.
    `mac_by_limb`: L0 = `a + b·c + carry` split at `2^BITS`.
    `div_by_2`: L0 (the `r < p` with `2r ≡ a`) only for `a < p` (`p` is odd by construction of `Odd`). -/
private def hookC07 (op : String) (n : Nat) (vs : List Nat) : Option String :=
  let L := toLimbs n
  let K := B ^ n
  let subL0 (a carry b p : Nat) : Option Nat :=
    let d : Int := (a : Int) + (carry : Int) * (K : Int) - (b : Int)
    if carry ≤ 1 ∧ -(p : Int) ≤ d ∧ d < (p : Int) then some (d % (p : Int)).toNat else none
  match op, vs with
  | "c07.hook.sub_mod_with_carry", [a, carry, b, p] =>
    let l1 := subModWithCarry (L a) carry (L b) (L p)
    some (match subL0 a carry b p with
      | some r => outU l1 r
      | none => limbsHex l1)
  | "c07.hook.bsub_mod_with_carry", [a, carry, b, p] =>
    let l1 := bSubModWithCarry (L a) carry (L b) (L p)
    some (match subL0 a carry b p with
      | some r => outB l1 n r
      | none => limbsHexLen l1)
  | "c07.hook.mac_by_limb", [a, b, c, carry] =>
    let r := macByLimb (L a) (L b) c carry
    let t := a + b * c + carry
    some s!"{limbsHex r.1} {natToHex r.2} ;; {natToHex (t % K)} {natToHex (t / K)}"
  | "c07.hook.bmac_by_limb", [a, b, c, carry] =>
    let r := macByLimb (L a) (L b) c carry
    let t := a + b * c + carry
    some s!"{limbsHexLen r.1} {natToHex r.2} ;; {n}:{natToHex (t % K)} {natToHex (t / K)}"
  | "c07.hook.div_by_2", [a, p] =>
    let l1 := divBy2 (L a) (L p)
    some (if a < p then outU l1 (l0half a p) else limbsHex l1)
  | "c07.hook.bdiv_by_2", [a, p] =>
    let l1 := bDivBy2 (L a) (L p)
    some (if a < p then outB l1 n (l0half a p) else limbsHexLen l1)
  | "c07.hook.bdiv_by_2_assign", [a, p] =>
    let l1 := bDivBy2 (L a) (L p)
    some (if a < p then outB l1 n (l0half a p) else limbsHexLen l1)
  | _, _ => none

def dispatchC07 : Dispatch := fun op args =>
  match args with
  | [] => none
  | nTok :: rest =>
    match nTok.toNat?, hexs? rest with
    | some n, some vs =>
      let L := toLimbs n
      let K := B ^ n
      match op, vs with
      -- fixed width --------------------------------------------------------------------------
      | "c07.u.add_mod", [a, b, p] => some (outU (addMod (L a) (L b) (L p)) (l0add a b p))
      | "c07.u.add_mod_tr", [a, b, p] => some (outU (addMod (L a) (L b) (L p)) (l0add a b p))
      | "c07.u.double_mod", [a, p] => some (outU (doubleMod (L a) (L p)) (l0add a a p))
      | "c07.u.sub_mod", [a, b, p] => some (outU (subMod (L a) (L b) (L p)) (l0sub a b p))
      | "c07.u.sub_mod_tr", [a, b, p] => some (outU (subMod (L a) (L b) (L p)) (l0sub a b p))
      | "c07.u.neg_mod", [a, p] => some (outU (negMod (L a) (L p)) (l0neg a p))
      | "c07.u.neg_mod_tr", [a, p] => some (outU (negMod (L a) (L p)) (l0neg a p))
      | "c07.u.add_mod_special", [a, b, c] => some (outU (addModSpecial (L a) (L b) c) (l0add a b (K - c)))
      | "c07.u.sub_mod_special", [a, b, c] => some (outU (subModSpecial (L a) (L b) c) (l0sub a b (K - c)))
      | "c07.u.neg_mod_special", [a, c] => some (outU (negModSpecial (L a) c) (l0neg a (K - c)))
      | "c07.u.mul_mod_special", [a, b, c] => some (outU (mulModSpecial (L a) (L b) c) (l0mul a b (K - c)))
      | "c07.u.mul_mod", [a, b, p] => some (outU (mulMod (L a) (L b) (L p)) (l0mul a b p))
      | "c07.u.mul_mod_vartime", [a, b, p] => some (outU (mulModVartime (L a) (L b) (L p)) (l0mul a b p))
      | "c07.u.mul_mod_tr", [a, b, p] => some (outU (mulModVartime (L a) (L b) (L p)) (l0mul a b p))
      | "c07.u.div_by_2", [a, p] => some (outU (divBy2 (L a) (L p)) (l0half a p))
      -- boxed --------------------------------------------------------------------------------
      | "c07.b.add_mod", [a, b, p] => some (outB (bAddMod (L a) (L b) (L p)) n (l0add a b p))
      | "c07.b.add_mod_assign", [a, b, p] => some (outB (bAddMod (L a) (L b) (L p)) n (l0add a b p))
      | "c07.b.add_mod_tr", [a, b, p] => some (outB (bAddMod (L a) (L b) (L p)) n (l0add a b p))
      | "c07.b.double_mod", [a, p] => some (outB (bDoubleMod (L a) (L p)) n (l0add a a p))
      | "c07.b.sub_mod", [a, b, p] => some (outB (bSubMod (L a) (L b) (L p)) n (l0sub a b p))
      | "c07.b.sub_mod_tr", [a, b, p] => some (outB (bSubMod (L a) (L b) (L p)) n (l0sub a b p))
      | "c07.b.neg_mod", [a, p] => some (outB (bNegMod (L a) (L p)) n (l0neg a p))
      | "c07.b.neg_mod_tr", [a, p] => some (outB (bNegMod (L a) (L p)) n (l0neg a p))
      | "c07.b.sub_mod_special", [a, b, c] => some (outB (bSubModSpecial (L a) (L b) c) n (l0sub a b (K - c)))
      | "c07.b.neg_mod_special", [a, c] => some (outB (bNegModSpecial (L a) c) n (l0neg a (K - c)))
      | "c07.b.mul_mod_special", [a, b, c] => some (outB (bMulModSpecial (L a) (L b) c) n (l0mul a b (K - c)))
      | "c07.b.mul_mod", [a, b, p] => some (outB (mulMod (L a) (L b) (L p)) n (l0mul a b p))
      | "c07.b.mul_mod_tr", [a, b, p] => some (outB (mulMod (L a) (L b) (L p)) n (l0mul a b p))
      | "c07.b.div_by_2", [a, p] => some (outB (bDivBy2 (L a) (L p)) n (l0half a p))
      | "c07.b.div_by_2_assign", [a, p] => some (outB (bDivBy2 (L a) (L p)) n (l0half a p))
      | _, _ => if op.startsWith "c07.hook." then hookC07 op n vs else none
    | _, _ => badArgs

end CB
