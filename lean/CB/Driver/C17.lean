/-
  CB.Driver.C17 — op lines of property C17 (radix strings). Every line prints `L1 ;; L0`:
  L1 = limb-level model of the crate's decoder / encoder (CB.Model.Radix part 2),
  L0 = what the property demands (canonical numeral / value of the numeral, part 1).
-/
import CB.Driver.Util
import CB.Model.Radix
namespace CB.Radix
open CB

def errTok : Err → String
  | .empty => "err:Empty"
  | .invalidDigit => "err:InvalidDigit"
  | .inputSize => "err:InputSize"
  | .precision => "err:Precision"
  | .panic => "panic"

def radixOk (r : Nat) : Bool := radixMin ≤ r && r ≤ radixMax

def both (l1 l0 : String) : Option String := some (l1 ++ " ;; " ++ l0)

/-- L0 of a parse into `n` limbs, printed by `pr` -/
def specFixedTok (n r : Nat) (s : List Nat) : String :=
  if !radixOk r then "panic" else
  match specParseFixed r n s with
  | .ok v => natToHex v
  | .error e => errTok e

def lenTok (n v : Nat) : String := s!"{n}:{natToHex v}"

end CB.Radix

namespace CB
open CB.Radix

def dispatchC17 : Dispatch := fun op args =>
  match op, args with
  | "c17.u.parse", [n, r, s] | "c17.u.parse_num", [n, r, s] =>
    match n.toNat?, r.toNat?, tokToBytes? s with
    | some n, some r, some s =>
      let l1 := match uintFromStr n r s with
        | .ok l => limbsHex l
        | .error e => errTok e
      both l1 (specFixedTok n r s)
    | _, _, _ => badArgs
  | "c17.u.fmt", [n, r, x] | "c17.b.fmt", [n, r, x] =>
    match n.toNat?, r.toNat?, hexToNat? x with
    | some n, some r, some x =>
      -- `BoxedUint::from_words` of no words pads to one limb
      let n := if op == "c17.b.fmt" then max 1 n else n
      let l1 := match encodeToString r (toLimbs n x) with
        | .ok bs => bytesToTok bs
        | .error e => errTok e
      let l0 := if !radixOk r then "panic" else bytesToTok (specFormat r (x % B ^ n))
      both l1 l0
    | _, _, _ => badArgs
  | "c17.b.parse", [r, s] =>
    match r.toNat?, tokToBytes? s with
    | some r, some s =>
      let l1 := match boxedFromStr r s with
        | .ok l => limbsHexLen l
        | .error e => errTok e
      let l0 := if !radixOk r then "panic" else
        match specParse r s with
        | .ok v => lenTok (max 1 (limbsNeeded v)) v
        | .error e => errTok e
      both l1 l0
    | _, _ => badArgs
  | "c17.b.parse_prec", [r, p, s] =>
    match r.toNat?, p.toNat?, tokToBytes? s with
    | some r, some p, some s =>
      let l1 := match boxedFromStrPrec r p s with
        | .ok l => limbsHexLen l
        | .error e => errTok e
      let l0 := if !radixOk r then "panic" else
        match specParsePrec r p s with
        | .ok v => lenTok (precLimbs p) v
        | .error e => errTok e
      both l1 l0
    | _, _, _ => badArgs
  | "c17.b.roundtrip", [r, s] =>
    match r.toNat?, tokToBytes? s with
    | some r, some s =>
      let l1 := match boxedFromStr r s with
        | .ok l => (match encodeToString r l with
          | .ok bs => bytesToTok bs
          | .error e => errTok e)
        | .error e => errTok e
      let l0 := if !radixOk r then "panic" else
        match specParse r s with
        | .ok v => bytesToTok (specFormat r v)
        | .error e => errTok e
      both l1 l0
    | _, _ => badArgs
  | "c17.b.parse_bits", [r, s] =>
    match r.toNat?, tokToBytes? s with
    | some r, some s =>
      let l1 := match boxedFromStr r s with
        | .ok l => toString (bitLen (val l))
        | .error e => errTok e
      let l0 := if !radixOk r then "panic" else
        match specParse r s with
        | .ok v => toString (bitLen v)
        | .error e => errTok e
      both l1 l0
    | _, _ => badArgs
  | _, _ => none

end CB
