import CB.Driver.Util
namespace CB

/-- operations of property C17 (op names start with `c17.`) -/
def dispatchC17 : Dispatch := fun _ _ => none

end CB
