/-
  CB.Driver.C10 — op lines of property C10 (inversion and gcd).  Every result is printed as
  `L1 ;; L0`: L1 = the model mirroring the crate, L0 = what the property demands
  (`Nat.gcd`, the modular inverse iff coprime), because `L1 = L0` rests on `H_divsteps_done`.
-/
import CB.Driver.Util
import CB.Model.Gcd
namespace CB
open CB.InvMod2k CB.SafeGcd CB.Gcd

namespace C10Driver

def optTok : Option Nat → String
  | none => "none"
  | some x => natToHex x

def rTok : R → String
  | .panic => "panic"
  | .none => "none"
  | .some x => natToHex x

def both (l1 l0 : String) : String := l1 ++ " ;; " ++ l0

/-- `inv_odd_mod` for `n`-limb fixed operands on values (`SafeGcdInverter::new(m, ONE).inv(a)`). -/
def fixedInv (vartime : Bool) (n a m adj : Nat) : InvOut :=
  let inv := Inverter.new n (toLimbs n m) (toLimbs n adj)
  if vartime then inv.invVartime n (toLimbs n a) else inv.inv n (toLimbs n a)

def invOutOpt (o : InvOut) : Option Nat := if o.isSome then some (val o.value) else none

def fixedInvOdd (n : Nat) (a m : Nat) : Option Nat := invOutOpt (fixedInv false n a m 1)

/-- boxed inverter; `none` = the `assert!(!is_negative)` panic of `BoxedUnsatInt::to_uint`. -/
def boxedInv (vartime : Bool) (a m adj : List Nat) : Option (Option Nat) :=
  let o := (Inverter.newBoxed m adj).invBoxed vartime a
  if o.negative then none else some (invOutOpt o)

/-- with debug assertions: `BoxedUnsatInt::widen` (boxed.rs:420) rejects a value wider than the
    modulus and `to_uint(value.bits_precision())` (boxed.rs:321) a value of any other precision. -/
def boxedInvD (dbg vartime : Bool) (a m adj : List Nat) : Option (Option Nat) :=
  if dbg && nlimbsFor (a.length * 64) != nlimbsFor (m.length * 64) then none else boxedInv vartime a m adj

/-- `release ## dbgchk` when the two profiles differ -/
def prof (rel dbg : String) : String := if rel = dbg then rel else rel ++ " ## " ++ dbg

def optLimbsTok : Option (List Nat) → String
  | none => "panic"
  | some v => limbsHex v

/-- boxed result with its precision: L1 `<nlimbs>:<hex>`; L0 = the demanded value at that precision -/
def precBoth (r : Option (List Nat)) (spec : Nat) : String :=
  match r with
  | none => both "panic" (natToHex spec)
  | some v => both (limbsHexLen v) s!"{v.length}:{natToHex spec}"

def boxedInvOddVal (l : Nat) (a m : Nat) : Option Nat :=
  match boxedInv false (toLimbs l a) (toLimbs l m) [1] with
  | some r => r
  | none => none

/-- L0 for inversion mod 2^k -/
def specInv2k (a k : Nat) : Option Nat :=
  if k = 0 then some 0 else if a % 2 = 1 then specInv (a % 2 ^ k) (2 ^ k) else none

/-- … for a `w`-bit result: `k > BITS` (outside C10's `k ≤ BITS`) can only mean the low `BITS` bits -/
def specInv2kW (w a k : Nat) : Option Nat := specInv2k a (if k > w then w else k)

/-- Montgomery-form inversion on values: `R = 2^(64n)`; retrieve by multiplying with `R⁻¹`. -/
def montyInv (n a m : Nat) (run : Nat → Nat → Option (Option Nat)) : String :=
  let r := 2 ^ (64 * n)
  let mf := (a % m * (r % m)) % m          -- MontyForm::new: a·R mod m
  let r2 := (r % m) * (r % m) % m          -- params.r2
  match run mf r2 with
  | none => "panic"
  | some none => "none"
  | some (some v) =>
    match specInv (r % m) m with
    | some ri => natToHex (v * ri % m)
    | none => "bad-modulus"

def p3 (n a b : String) : Option (Nat × Nat × Nat) :=
  match n.toNat?, hexToNat? a, hexToNat? b with
  | some n, some a, some b => some (n, a, b)
  | _, _, _ => none

def flag? (s : String) : Option Bool :=
  if s = "0" then some false else if s = "1" then some true else none

/-- slack report for an inversion/gcd run: `iterations trips slack` -/
def slackTok (iters trips : Nat) : String := s!"{iters} {trips} {iters - trips}"

/-! ### hook-level ops (`crypto_bigint::verif_hooks::{safegcd, safegcd_boxed}`): the safegcd building blocks on
    plain limb lists.  L1 = the model function (`CB.SafeGcd.*`) the lemmas of C10 are stated about; L0 = plain
    `Int` arithmetic on the two's-complement values, printed where the inputs are in the function's domain
    (proper 62-bit limbs; `f` odd for `jump`; …), otherwise L1 alone. -/

def parseLimbs (s : String) : Option (List Nat) :=
  (s.splitOn ",").mapM fun t => (hexToNat? t).bind fun x => if x < 2 ^ 64 then some x else none

def limbsTok (l : List Nat) : String := String.intercalate "," (l.map natToHex)

def i64? (s : String) : Option Int :=
  (hexToNat? s).bind fun x => if x < 2 ^ 64 then some (wrapI64 (x : Nat)) else none

def x64 (x : Int) : String := natToHex (toU64 x)

def parseMat (s : String) : Option Mat :=
  match (s.splitOn ",").mapM i64? with
  | some [a, b, c, d] => some ⟨a, b, c, d⟩
  | _ => none

/-- every limb is a proper 62-bit limb -/
def norm62 (l : List Nat) : Bool := l.all (· ≤ MASK)

/-- the `n` limbs (62 bits each) of `x` modulo `2^(62 n)` (two's complement) -/
def toUnsat (n : Nat) (x : Int) : List Nat :=
  let r := (x % ((2 : Int) ^ (62 * n))).toNat
  (List.range n).map fun i => (r / 2 ^ (62 * i)) % 2 ^ 62

/-- signed reduction modulo `2^(62 n)` -/
def wrapS (n : Nat) (x : Int) : Int :=
  let m := (2 : Int) ^ (62 * n)
  let r := x % m
  if r < m / 2 then r else r - m

def bitLen (x : Nat) : Nat := if x = 0 then 0 else Nat.log2 x + 1

/-- inverse of an odd word modulo `2^62` (Newton; plain `Nat`) -/
def inv62 (w : Nat) : Nat :=
  let r := 2 ^ 62
  let stp := fun x => (x * ((2 * r + 2 - (w * x) % r) % r)) % r
  stp (stp (stp (stp (stp (stp 1)))))

/-- the divstep of Bernstein–Yang on integers, with the transition matrix scaled by `2` per step, in the form the
    crate uses: if `δ > 0` and `g` is odd, first swap `(δ, f, g) ↦ (−δ, g, −f)` (no step consumed), then
    `(δ, f, g) ↦ (δ+1, f, (g + (g mod 2) f)/2)`.  For odd `f` this is `(1−δ, g, (g−f)/2)` resp.
    `(1+δ, f, (g + (g mod 2) f)/2)` of the paper; for even `f` (only with `g` odd, `δ > 0`) the division stays exact. -/
structure DV where
  delta : Int
  f : Int
  g : Int
  u : Int
  v : Int
  q : Int
  r : Int

def divstepSpec (s0 : DV) : DV :=
  let s : DV := if s0.delta > 0 ∧ s0.g % 2 = 1 then ⟨-s0.delta, s0.g, -s0.f, s0.q, s0.r, -s0.u, -s0.v⟩ else s0
  let b := s.g % 2
  ⟨s.delta + 1, s.f, (s.g + b * s.f) / 2, 2 * s.u, 2 * s.v, s.q + b * s.u, s.r + b * s.v⟩

def divstepsSpec : Nat → DV → DV
  | 0, s => s
  | n + 1, s => divstepsSpec n (divstepSpec s)

def matTok (d : Int) (t : Mat) : String := s!"{x64 d} {x64 t.t00} {x64 t.t01} {x64 t.t10} {x64 t.t11}"

/-- `jump(f, g, delta)`; generated only for `f` odd, or `f` even with `g` odd and `delta > 0` (the first step
    swaps) — for any other even `f` the inner loop of the crate does not terminate; `|delta| ≤ 2^63 − 64`. -/
def runJump (f g : List Nat) (delta : Int) : String :=
  let r := jump f g delta
  let s := divstepsSpec 62 ⟨delta, wrapI64 (f.headD 0 : Nat), ((g.headD 0 : Nat) : Int), 1, 0, 0, 1⟩
  both (matTok r.1 r.2) (matTok s.delta ⟨s.u, s.v, s.q, s.r⟩)

/-- matrix entries a `fg` / `de` line may carry: no `i64::MIN` (its negation traps) -/
def matOK (t : Mat) : Bool :=
  let lim : Int := 2 ^ 63
  (-lim < t.t00 && t.t00 < lim) && (-lim < t.t01 && t.t01 < lim) && (-lim < t.t10 && t.t10 < lim) && (-lim < t.t11 && t.t11 < lim)

def runFg (f g : List Nat) (t : Mat) : String :=
  let n := f.length
  let r := fg f g t
  let l1 := s!"{limbsTok r.1} {limbsTok r.2}"
  if norm62 f && norm62 g then
    let F := uval f
    let G := uval g
    both l1 s!"{limbsTok (toUnsat n (wrapS n (t.t00 * F + t.t01 * G) / 2 ^ 62))} {limbsTok (toUnsat n (wrapS n (t.t10 * F + t.t11 * G) / 2 ^ 62))}"
  else l1

def runDe (m : List Nat) (inverse : Int) (t : Mat) (d e : List Nat) : String :=
  let n := m.length
  let r := de m inverse t d e
  let l1 := s!"{limbsTok r.1} {limbsTok r.2}"
  if norm62 m && norm62 d && norm62 e then
    let M := uval m
    let D := uval d
    let E := uval e
    let dn : Int := if D < 0 then 1 else 0
    let en : Int := if E < 0 then 1 else 0
    let p62 : Int := 2 ^ 62
    let row := fun (a b : Int) =>
      let m0 := a * dn + b * en
      let c := (a * D + b * E) % p62
      let md := m0 - (inverse * c + m0) % p62
      toUnsat n (wrapS n (a * D + b * E + md * M) / p62)
    both l1 s!"{limbsTok (row t.t00 t.t01)} {limbsTok (row t.t10 t.t11)}"
  else l1

/-- `divsteps(e, f0, g, inverse)` / `divsteps_vartime` → `(d, f)` (boxed: `(d, g, f)` with a caller-provided
    starting `d`).  L0 on the contract (`f0 = M` odd, `inverse·M ≡ 1 (mod 2^62)`, `0 ≤ g`, `e ∈ (−2M, M)`,
    `gcd(M, g) = 1`, room for `(−2M, M)`): `f = ±1` and `d ≡ ±e·g⁻¹ (mod M)`, `d ∈ (−2M, M)` — the
    alternatives are listed.  With debug assertions the fixed-count routine asserts `g = 0` at the end. -/
def runDivsteps (boxed vt : Bool) (d0 : Option (List Nat)) (e f0 g : List Nat) (inverse : Int) : String :=
  let n := f0.length
  let z := uzero n
  let start : DS := ⟨1, f0, g, d0.getD z, e⟩
  let s : DS :=
    if vt then (dsVtLoop f0 inverse (vtFuel n) start 0).1
    else dsLoop f0 inverse (if boxed then iterations (ubitsBoxed f0) (ubitsBoxed g) else iterations (ubits f0) (ubits g)) start
  let gz := ueq s.g (uzero s.g.length)
  let out := fun (d f : List Nat) => if boxed then s!"{limbsTok d} {limbsTok z} {limbsTok f}" else s!"{limbsTok d} {limbsTok f}"
  let l1raw := if boxed then s!"{limbsTok s.d} {limbsTok s.g} {limbsTok s.f}" else s!"{limbsTok s.d} {limbsTok s.f}"
  -- `debug_assert!(g.eq(&ZERO))` exists in the fixed constant-time routine only
  let l1 := if !boxed && !vt && !gz then l1raw ++ " ## panic" else l1raw
  let M := uval f0
  let G := uval g
  let E := uval e
  let dZero := match d0 with | none => true | some d => ueq d z
  if norm62 f0 && norm62 g && norm62 e && dZero && gz && M > 0 && M % 2 = 1 && G ≥ 0 && -2 * M < E && E < M
      -- "both the modulus and the integer to be inverted should not exceed 2^(62·L − 64)": room for the products of
      -- `fg` / `de` (|t| ≤ 2^62, |md| < 2^63) in `62·L` bits
      && M * 2 ^ 66 ≤ (2 : Int) ^ (62 * n) && G * 2 ^ 66 ≤ (2 : Int) ^ (62 * n)
      && toU64 inverse = inv62 (M.toNat % 2 ^ 62) && Nat.gcd M.toNat G.toNat = 1 then
    match specInv G.toNat M.toNat with
    | some gi =>
      let alts := [1, -1].flatMap fun (sg : Int) =>
        let r := (sg * E * (gi : Int)) % M
        [r, r - M, r - 2 * M].map fun dv => out (toUnsat n dv) (toUnsat n sg)
      l1 ++ " ;; " ++ String.intercalate " || " alts
    | none => l1
  else l1

/-- `UnsatInt::to_uint` / `BoxedUnsatInt::to_uint`: negative values are rejected by a `debug_assert!` (fixed) /
    an `assert!` (boxed). -/
def runToUint (boxed : Bool) (sat : Nat) (x : List Nat) (lenOK : Bool) : String :=
  let v := toUint x sat
  let tok := if boxed then limbsHexLen v else limbsHex v
  let neg := uisNeg x
  let l1 := if boxed then (if neg then "panic" else if lenOK then tok else tok ++ " ## panic")
            else (if neg then tok ++ " ## panic" else tok)
  if norm62 x && !neg && lenOK then
    both l1 (if boxed then s!"{sat}:{natToHex (uvalN x % 2 ^ (64 * sat))}" else natToHex (uvalN x % 2 ^ (64 * sat)))
  else l1

def runNorm (m v : List Nat) (negate : Bool) : String :=
  let n := m.length
  let l1 := limbsTok (norm m v negate)
  let M := uval m
  let V := uval v
  if norm62 m && norm62 v && M > 0 && -2 * M < V && V < M && 4 * M < (2 : Int) ^ (62 * n) then
    both l1 (limbsTok (toUnsat n ((if negate then -V else V) % M)))
  else l1

/-- the unary / binary `UnsatInt` operations; `boxed` selects the boxed `leading_zeros` (which walks the limbs from
    the least significant one, as written in safegcd/boxed.rs — L1 alone, see notes/C10.md). -/
def runUnsat (boxed : Bool) (name : String) (a : List Nat) (b : Option (List Nat)) (k : Option Int) : Option String :=
  let n := a.length
  let ok := norm62 a && (b.map norm62).getD true
  let A := uval a
  let two (l1 l0 : String) := if ok then both l1 l0 else l1
  match name, b, k with
  | "add", some b, _ => some (two (limbsTok (uadd a b)) (limbsTok (toUnsat n (A + uval b))))
  | "eq", some b, _ => some (two (if ueq a b then "1" else "0") (if A = uval b then "1" else "0"))
  | "mul", _, some k => some (two (limbsTok (umul a k)) (limbsTok (toUnsat n (A * k))))
  | "neg", _, _ => some (two (limbsTok (uneg a)) (limbsTok (toUnsat n (-A))))
  | "shr", _, _ => some (two (limbsTok (ushr a)) (limbsTok (toUnsat n (A / 2 ^ 62))))
  | "is_negative", _, _ => some (two (if uisNeg a then "1" else "0") (if A < 0 then "1" else "0"))
  | "lz", _, _ =>
    if boxed then some (toString (ulzBoxed a)) else some (two (toString (ulz a)) (toString (62 * n - bitLen (uvalN a))))
  | "bits", _, _ =>
    if boxed then some (toString (ubitsBoxed a)) else some (two (toString (ubits a)) (toString (bitLen (uvalN a))))
  | _, _, _ => none

def hookOp (name : String) (args : List String) : Option String :=
  let bx := name.startsWith "b" && name != "bits"
  let base := if bx then (name.drop 1).toString else name
  match base, args with
  | "inv_mod2_62", [w] =>
    match parseLimbs w with
    | some ws =>
      let l1 := x64 (invMod2_62 ws)
      some (if ws.headD 0 % 2 = 1 then both l1 (natToHex (inv62 (ws.headD 0))) else l1)
    | none => badArgs
  | "iterations", [f, g] =>
    match f.toNat?, g.toNat? with
    | some f, some g =>
      if f > 1000000 ∨ g > 1000000 then badArgs else
      let d := max f g
      some (both (toString (iterations f g)) (toString ((49 * d + (if d < 46 then 80 else 57)) / 17)))
    | _, _ => badArgs
  | "nlimbs", [s] =>
    match s.toNat? with
    | some s => some (both (toString (nlimbsFor (s * 64))) (toString ((64 * s + 64 + 61) / 62)))
    | none => badArgs
  | "jump", [f, g, d] =>
    match parseLimbs f, parseLimbs g, i64? d with
    | some f, some g, some d =>
      let lim : Int := 2 ^ 63 - 64
      if f.isEmpty || g.isEmpty || d > lim || d < -lim then badArgs
      else if f.headD 0 % 2 = 1 || (g.headD 0 % 2 = 1 && d > 0) then some (runJump f g d) else badArgs
    | _, _, _ => badArgs
  | "fg", [f, g, t] =>
    match parseLimbs f, parseLimbs g, parseMat t with
    | some f, some g, some t => if f.length = g.length && !f.isEmpty && matOK t then some (runFg f g t) else badArgs
    | _, _, _ => badArgs
  | "de", [m, inv, t, d, e] =>
    match parseLimbs m, i64? inv, parseMat t, parseLimbs d, parseLimbs e with
    | some m, some inv, some t, some d, some e =>
      let p62 : Int := 2 ^ 62
      -- `md`, `me` are computed with trapping `* + -`: stay on the matrices a `jump` can return
      if m.length = d.length && m.length = e.length && !m.isEmpty
          && t.t00.natAbs + t.t01.natAbs ≤ p62.toNat && t.t10.natAbs + t.t11.natAbs ≤ p62.toNat then
        some (runDe m inv t d e) else badArgs
    | _, _, _, _, _ => badArgs
  | "divsteps", vt :: rest =>
    match flag? vt, rest.mapM parseLimbs with
    | some vt, some ls =>
      match bx, ls, rest.getLast? with
      | false, [e, f0, g, _], some inv =>
        match i64? inv with
        | some inv => if e.length = f0.length && g.length = f0.length && !f0.isEmpty && f0.headD 0 % 2 = 1
                      then some (runDivsteps false vt none e f0 g inv) else badArgs
        | none => badArgs
      | true, [d, e, f0, g, _], some inv =>
        match i64? inv with
        | some inv => if d.length = f0.length && e.length = f0.length && g.length = f0.length && !f0.isEmpty
                        && f0.headD 0 % 2 = 1 then some (runDivsteps true vt (some d) e f0 g inv) else badArgs
        | none => badArgs
      | _, _, _ => badArgs
    | _, _ => badArgs
  | "from_uint", [s, l, x] =>
    if bx then
      -- `bfrom_uint <sat> <hex> <nlimbs>`: `debug_assert!(nlimbs >= unsat_nlimbs_for_sat_nlimbs(sat))`
      match s.toNat?, hexToNat? l, x.toNat? with
      | some s, some v, some n =>
        if s = 0 || n = 0 then badArgs else
        let l1 := limbsTok (fromUint (toLimbs s v) n)
        if n ≥ nlimbsFor (s * 64) then some (both l1 (limbsTok (toUnsat n (v % 2 ^ (64 * s))))) else some (l1 ++ " ## panic")
      | _, _, _ => badArgs
    else
      match s.toNat?, l.toNat?, hexToNat? x with
      | some s, some l, some x =>
        -- a limb count other than `safegcd_nlimbs!(64 s)` is the crate's "incorrect number of limbs" panic
        if l ≠ nlimbsFor (s * 64) then some "panic" else
        some (both (limbsTok (fromUint (toLimbs s x) l)) (limbsTok (toUnsat l (x % 2 ^ (64 * s)))))
      | _, _, _ => badArgs
  | "to_uint", [s, l, x] =>
    match bx, s.toNat?, l.toNat?, parseLimbs x with
    | false, some s, some l, some x =>
      if x.length ≠ l then badArgs else if l ≠ nlimbsFor (s * 64) then some "panic" else some (runToUint false s x true)
    | _, _, _, _ => badArgs
  | "to_uint", [x, p] =>
    match bx, parseLimbs x, p.toNat? with
    | true, some x, some p =>
      if p % 64 ≠ 0 || p = 0 || x.isEmpty then badArgs else some (runToUint true (p / 64) x (x.length = nlimbsFor p))
    | _, _, _ => badArgs
  | "inverter", [s, m, adj] =>
    match bx, s.toNat?, hexToNat? m, hexToNat? adj with
    | false, some s, some m, some adj =>
      if m % 2 = 0 || s = 0 then badArgs else
      let inv := Inverter.new s (toLimbs s m) (toLimbs s adj)
      let n := nlimbsFor (s * 64)
      some (both s!"{limbsTok inv.modulus} {limbsTok inv.adjuster} {x64 inv.inverse}"
                 s!"{limbsTok (toUnsat n m)} {limbsTok (toUnsat n adj)} {natToHex (inv62 (m % 2 ^ 62))}")
    | _, _, _, _ => badArgs
  | "inverter", [s, m, sa, adj] =>
    match bx, s.toNat?, hexToNat? m, sa.toNat?, hexToNat? adj with
    | true, some s, some m, some sa, some adj =>
      -- `adjuster.widen(modulus.bits_precision())`: a wider adjuster is a `debug_assert` in `widen`; generated with sa ≤ s
      if m % 2 = 0 || s = 0 || sa = 0 || sa > s then badArgs else
      let inv := Inverter.newBoxed (toLimbs s m) (toLimbs sa adj)
      let n := nlimbsFor (s * 64)
      some (both s!"{limbsTok inv.modulus} {limbsTok inv.adjuster} {x64 inv.inverse}"
                 s!"{limbsTok (toUnsat n m)} {limbsTok (toUnsat n adj)} {natToHex (inv62 (m % 2 ^ 62))}")
    | _, _, _, _, _ => badArgs
  | "norm", [s, m, v, neg] =>
    match s.toNat?, hexToNat? m, parseLimbs v, flag? neg with
    | some s, some m, some v, some neg =>
      let n := nlimbsFor (s * 64)
      if m % 2 = 0 || s = 0 || v.length ≠ n then badArgs else some (runNorm (fromUint (toLimbs s m) n) v neg)
    | _, _, _, _ => badArgs
  | nm, [a] =>
    match parseLimbs a with
    | some a => if a.isEmpty then badArgs else (runUnsat bx nm a none none).orElse fun _ => none
    | none => badArgs
  | "mul", [a, k] =>
    match parseLimbs a, i64? k with
    | some a, some k => if a.isEmpty || k = -(2 : Int) ^ 63 then badArgs else runUnsat bx "mul" a none (some k)
    | _, _ => badArgs
  | nm, [a, b] =>
    match parseLimbs a, parseLimbs b with
    | some a, some b => if a.isEmpty || a.length ≠ b.length then badArgs else runUnsat bx nm a (some b) none
    | _, _ => badArgs
  | _, _ => none

end C10Driver
open C10Driver

def dispatchC10 : Dispatch := fun op args =>
  match op, args with
  -- ---------------------------------------------------------------- mod 2^k
  | "c10.u.inv_mod2k", [n, a, k] =>
    match n.toNat?, hexToNat? a, k.toNat? with
    | some n, some a, some k =>
      let r := invMod2k (64 * n) a k
      some (both (optTok (if r.2 then some r.1 else none)) (optTok (specInv2kW (64 * n) a k)))
    | _, _, _ => badArgs
  | "c10.u.inv_mod2k_vartime", [n, a, k] =>
    match n.toNat?, hexToNat? a, k.toNat? with
    | some n, some a, some k =>
      let l1 := match invMod2kVartime (64 * n) a k with
        | none => "panic"
        | some r => optTok (if r.2 then some r.1 else none)
      some (both l1 (optTok (specInv2kW (64 * n) a k)))
    | _, _, _ => badArgs
  | "c10.hook.inv_mod2k_full_vartime", [n, a, k] =>
    match n.toNat?, hexToNat? a, k.toNat? with
    | some n, some a, some k => some (optTok (invMod2kFullVartime (64 * n) a k))
    | _, _, _ => badArgs
  | "c10.b.inv_mod2k", [n, a, k] =>
    match n.toNat?, hexToNat? a, k.toNat? with
    | some n, some a, some k =>
      let r := invMod2k (64 * n) a k
      some (both (optTok (if r.2 then some r.1 else none)) (optTok (specInv2kW (64 * n) a k)))
    | _, _, _ => badArgs
  | "c10.b.inv_mod2k_vartime", [n, a, k] =>
    match n.toNat?, hexToNat? a, k.toNat? with
    | some n, some a, some k =>
      let r := invMod2kVartimeBoxed (64 * n) a k
      some (both (optTok (if r.2 then some r.1 else none)) (optTok (specInv2kW (64 * n) a k)))
    | _, _, _ => badArgs
  -- ---------------------------------------------------------------- general modulus
  | "c10.u.inv_mod", [n, a, m] | "c10.u.inv_mod_trait", [n, a, m] =>
    match p3 n a m with
    | some (n, a, m) => some (both (rTok (invModWith (fixedInvOdd n) (64 * n) a m)) (optTok (specInv a m)))
    | none => badArgs
  | "c10.u.inv_mod_m0", [n, a, _form] =>
    match n.toNat?, hexToNat? a with
    -- modulus 0 (outside C10's domain m ≥ 1; DESIGN §7 row 8, repaired by /repo be88d84): `none`
    -- (theorem `inv_mod_zero_modulus_none`)
    | some n, some a => some (both (rTok (invModWith (fixedInvOdd n) (64 * n) a 0)) "none")
    | _, _ => badArgs
  | "c10.b.inv_mod", [n, a, m] | "c10.b.inv_mod_trait", [n, a, m] =>
    match p3 n a m with
    | some (n, a, m) =>
      -- the odd-part inversion is evaluated first; its `to_uint` assertion may panic
      let w := 64 * n
      let k := tz w m
      let s := if k < w then m / 2 ^ k else 0
      let l1 := match boxedInv false (toLimbs n a) (toLimbs n s) [1] with
        | none => "panic"
        | some _ => rTok (invModBoxedWith (boxedInvOddVal n) w a m)
      some (both l1 (optTok (specInv a m)))
    | none => badArgs
  | "c10.b.inv_mod_mixed", [la, a, lm, m] =>
    -- `BoxedUint::inv_mod` documents "must have the same number of limbs, or the function will panic";
    -- since /repo fb50dbc the `assert_eq!` runs in every build
    match la.toNat?, hexToNat? a, lm.toNat?, hexToNat? m with
    | some la, some _, some lm, some _ => if la = lm then badArgs else some (both "panic" "panic")
    | _, _, _, _ => badArgs
  | "c10.u.inv_odd_mod", [n, a, m] =>
    match p3 n a m with
    | some (n, a, m) => some (both (optTok (fixedInvOdd n a m)) (optTok (specInv a m)))
    | none => badArgs
  | "c10.b.inv_odd_mod", [n, a, m] =>
    match p3 n a m with
    | some (n, a, m) =>
      let l1 := match boxedInv false (toLimbs n a) (toLimbs n m) [1] with
        | none => "panic"
        | some r => optTok r
      some (both l1 (optTok (specInv a m)))
    | none => badArgs
  | "c10.b.inv_odd_mod_mixed", [la, a, lm, m] =>
    match la.toNat?, hexToNat? a, lm.toNat?, hexToNat? m with
    | some la, some a, some lm, some m =>
      let t := fun dbg => match boxedInvD dbg false (toLimbs la a) (toLimbs lm m) [1] with
        | none => "panic"
        | some r => optTok r
      some (both (prof (t false) (t true)) (optTok (specInv a m)))
    | _, _, _, _ => badArgs
  | "c10.u.inverter", [n, m, a, vt] =>
    match p3 n m a, flag? vt with
    | some (n, m, a), some vt => some (both (optTok (invOutOpt (fixedInv vt n a m 1))) (optTok (specInv a m)))
    | _, _ => badArgs
  | "c10.b.inverter", [n, m, a, vt] =>
    match p3 n m a, flag? vt with
    | some (n, m, a), some vt =>
      let l1 := match boxedInv vt (toLimbs n a) (toLimbs n m) [1] with
        | none => "panic"
        | some r => optTok r
      some (both l1 (optTok (specInv a m)))
    | _, _ => badArgs
  -- ---------------------------------------------------------------- Montgomery forms
  | "c10.u.monty_inv", [n, m, a, form] | "c10.c.monty_inv", [n, m, a, form] =>
    match p3 n m a, form.toNat? with
    | some (n, m, a), some form =>
      let vt := form % 2 = 1
      let l1 := montyInv n a m fun mf r2 => some (invOutOpt (fixedInv vt n mf m r2))
      some (both l1 (optTok (specInv a m)))
    | _, _ => badArgs
  | "c10.b.monty_inv", [n, m, a, form] =>
    match p3 n m a, form.toNat? with
    | some (n, m, a), some form =>
      let vt := form % 2 = 1
      let l1 := montyInv n a m fun mf r2 => boxedInv vt (toLimbs n mf) (toLimbs n m) (toLimbs n r2)
      some (both l1 (optTok (specInv a m)))
    | _, _ => badArgs
  -- ---------------------------------------------------------------- signed inversion
  | "c10.i.inv_odd_mod", [n, a, m] =>
    match p3 n a m with
    | some (n, a, m) =>
      let w := 64 * n
      let (ab, neg) := absSign w a
      let l0 := (specInv ab m).map fun x => if neg then (m - x) % m else x
      some (both (optTok (signedFix w m neg (fixedInvOdd n ab m))) (optTok l0))
    | none => badArgs
  | "c10.i.inv_mod", [n, a, m] =>
    match p3 n a m with
    | some (n, a, m) =>
      let w := 64 * n
      let (ab, neg) := absSign w a
      let l1 := match invModWith (fixedInvOdd n) w ab m with
        | .panic => "panic"
        | .none => "none"
        | .some x => optTok (signedFix w m neg (some x))
      -- the inverse of the signed value: -(|a|⁻¹) mod m
      let l0 := (specInv ab m).map fun x => if neg then (m - x) % m else x
      some (both l1 (optTok l0))
    | none => badArgs
  -- ---------------------------------------------------------------- gcd
  | "c10.u.gcd", [n, a, b] =>
    match p3 n a b with
    | some (n, a, b) => some (both (natToHex (uintGcd n a b)) (natToHex (specGcd a b)))
    | none => badArgs
  | "c10.u.gcd_trait", [n, a, b, vt] | "c10.u.gcd_int", [n, a, b, vt] | "c10.i.gcd", [n, a, b, vt]
  | "c10.i.gcd_uint", [n, a, b, vt] =>
    match p3 n a b, flag? vt with
    | some (n, a, b), some vt =>
      let w := 64 * n
      let a := if op = "c10.i.gcd" || op = "c10.i.gcd_uint" then iabs w a else a
      let b := if op = "c10.i.gcd" || op = "c10.u.gcd_int" then iabs w b else b
      let l1 := if vt then uintGcdVartime n a b else uintGcd n a b
      some (both (natToHex l1) (natToHex (specGcd a b)))
    | _, _ => badArgs
  | "c10.u.odd_gcd", [n, f, g, form] =>
    -- form 0: Gcd::gcd, 1: Gcd::gcd_vartime, 2: inherent Odd::gcd_vartime
    match p3 n f g, form.toNat? with
    | some (n, f, g), some form =>
      some (both (natToHex (oddGcdFixed (form ≠ 0) n f g)) (natToHex (specGcd f g)))
    | _, _ => badArgs
  | "c10.b.gcd", [n, a, b, vt] =>
    match p3 n a b, flag? vt with
    | some (n, a, b), some vt =>
      let r := if vt then boxedGcdVartime (toLimbs n a) (toLimbs n b) else boxedGcd (toLimbs n a) (toLimbs n b)
      some (both (match r with | none => "panic" | some v => limbsHex v) (natToHex (specGcd a b)))
    | _, _ => badArgs
  | "c10.b.odd_gcd", [n, f, g, vt] =>
    match p3 n f g, flag? vt with
    | some (n, f, g), some vt =>
      let r := boxedOddGcd vt (toLimbs n f) (toLimbs n g)
      some (both (match r with | none => "panic" | some v => limbsHex v) (natToHex (specGcd f g)))
    | _, _ => badArgs
  | "c10.b.gcd_mixed", [la, a, lb, b, vt] =>
    match la.toNat?, hexToNat? a, lb.toNat?, hexToNat? b, flag? vt with
    | some la, some a, some lb, some b, some vt =>
      let r := if vt then boxedGcdVartime (toLimbs la a) (toLimbs lb b) else boxedGcd (toLimbs la a) (toLimbs lb b)
      some (precBoth r (specGcd a b))
    | _, _, _, _, _ => badArgs
  | "c10.b.odd_gcd_mixed", [la, a, lb, b, vt] =>
    match la.toNat?, hexToNat? a, lb.toNat?, hexToNat? b, flag? vt with
    | some la, some a, some lb, some b, some vt =>
      some (precBoth (boxedOddGcd vt (toLimbs la a) (toLimbs lb b)) (specGcd a b))
    | _, _, _, _, _ => badArgs
  -- ---------------------------------------------------------------- model-only reports (not generated)
  | "c10.slack.inv", [n, a, m] =>
    match p3 n a m with
    | some (n, a, m) =>
      let inv := Inverter.new n (toLimbs n m) (toLimbs n 1)
      let g := fromUint (toLimbs n a) inv.modulus.length
      let iters := iterations (ubits inv.modulus) (ubits g)
      let o := inv.invVartime n (toLimbs n a)
      some (slackTok iters o.trips)
    | none => badArgs
  | "c10.slack.gcd", [n, f, g] =>
    match p3 n f g with
    | some (n, f, g) =>
      let o := gcdFixed true n (toLimbs n f) (toLimbs n g)
      some (slackTok o.iters o.trips)
    | none => badArgs
  | "c10.slack.bgcd", [n, f, g] =>
    match p3 n f g with
    | some (n, f, g) =>
      let o := gcdBoxed true (toLimbs n f) (toLimbs n g)
      some (slackTok o.iters o.trips)
    | none => badArgs
  | _, _ =>
    if op.startsWith "c10.hook." then hookOp ((op.drop 9).toString) args else none

end CB
