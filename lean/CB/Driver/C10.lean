/-
  CB.Driver.C10 — op lines of property C10 (inversion and gcd).  Every result is printed as
  `L1 ;; L0`: L1 = the model mirroring the crate, L0 = what the property demands
  (`Nat.gcd`, the modular inverse iff coprime), because `L1 = L0` rests on `H_divsteps_done`.
-/
import CB.Driver.Util
import CB.Model.Gcd
namespace CB
open CB.InvMod2k CB.SafeGcd CB.Gcd

namespace C10Driver

def optTok : Option Nat → String
  | none => "none"
  | some x => natToHex x

def rTok : R → String
  | .panic => "panic"
  | .none => "none"
  | .some x => natToHex x

def both (l1 l0 : String) : String := l1 ++ " ;; " ++ l0

/-- `inv_odd_mod` for `n`-limb fixed operands on values (`SafeGcdInverter::new(m, ONE).inv(a)`). -/
def fixedInv (vartime : Bool) (n a m adj : Nat) : InvOut :=
  let inv := Inverter.new n (toLimbs n m) (toLimbs n adj)
  if vartime then inv.invVartime n (toLimbs n a) else inv.inv n (toLimbs n a)

def invOutOpt (o : InvOut) : Option Nat := if o.isSome then some (val o.value) else none

def fixedInvOdd (n : Nat) (a m : Nat) : Option Nat := invOutOpt (fixedInv false n a m 1)

/-- boxed inverter; `none` = the `assert!(!is_negative)` panic of `BoxedUnsatInt::to_uint`. -/
def boxedInv (vartime : Bool) (a m adj : List Nat) : Option (Option Nat) :=
  let o := (Inverter.newBoxed m adj).invBoxed vartime a
  if o.negative then none else some (invOutOpt o)

/-- with debug assertions: `BoxedUnsatInt::widen` (boxed.rs:420) rejects a value wider than the
    modulus and `to_uint(value.bits_precision())` (boxed.rs:321) a value of any other precision. -/
def boxedInvD (dbg vartime : Bool) (a m adj : List Nat) : Option (Option Nat) :=
  if dbg && nlimbsFor (a.length * 64) != nlimbsFor (m.length * 64) then none else boxedInv vartime a m adj

/-- `release ## dbgchk` when the two profiles differ -/
def prof (rel dbg : String) : String := if rel = dbg then rel else rel ++ " ## " ++ dbg

def optLimbsTok : Option (List Nat) → String
  | none => "panic"
  | some v => limbsHex v

/-- boxed result with its precision: L1 `<nlimbs>:<hex>`; L0 = the demanded value at that precision -/
def precBoth (r : Option (List Nat)) (spec : Nat) : String :=
  match r with
  | none => both "panic" (natToHex spec)
  | some v => both (limbsHexLen v) s!"{v.length}:{natToHex spec}"

def boxedInvOddVal (l : Nat) (a m : Nat) : Option Nat :=
  match boxedInv false (toLimbs l a) (toLimbs l m) [1] with
  | some r => r
  | none => none

/-- L0 for inversion mod 2^k -/
def specInv2k (a k : Nat) : Option Nat :=
  if k = 0 then some 0 else if a % 2 = 1 then specInv (a % 2 ^ k) (2 ^ k) else none

/-- … for a `w`-bit result: `k > BITS` (outside C10's `k ≤ BITS`) can only mean the low `BITS` bits -/
def specInv2kW (w a k : Nat) : Option Nat := specInv2k a (if k > w then w else k)

/-- Montgomery-form inversion on values: `R = 2^(64n)`; retrieve by multiplying with `R⁻¹`. -/
def montyInv (n a m : Nat) (run : Nat → Nat → Option (Option Nat)) : String :=
  let r := 2 ^ (64 * n)
  let mf := (a % m * (r % m)) % m          -- MontyForm::new: a·R mod m
  let r2 := (r % m) * (r % m) % m          -- params.r2
  match run mf r2 with
  | none => "panic"
  | some none => "none"
  | some (some v) =>
    match specInv (r % m) m with
    | some ri => natToHex (v * ri % m)
    | none => "bad-modulus"

def p3 (n a b : String) : Option (Nat × Nat × Nat) :=
  match n.toNat?, hexToNat? a, hexToNat? b with
  | some n, some a, some b => some (n, a, b)
  | _, _, _ => none

def flag? (s : String) : Option Bool :=
  if s = "0" then some false else if s = "1" then some true else none

/-- slack report for an inversion/gcd run: `iterations trips slack` -/
def slackTok (iters trips : Nat) : String := s!"{iters} {trips} {iters - trips}"

end C10Driver
open C10Driver

def dispatchC10 : Dispatch := fun op args =>
  match op, args with
  -- ---------------------------------------------------------------- mod 2^k
  | "c10.u.inv_mod2k", [n, a, k] =>
    match n.toNat?, hexToNat? a, k.toNat? with
    | some n, some a, some k =>
      let r := invMod2k (64 * n) a k
      some (both (optTok (if r.2 then some r.1 else none)) (optTok (specInv2kW (64 * n) a k)))
    | _, _, _ => badArgs
  | "c10.u.inv_mod2k_vartime", [n, a, k] =>
    match n.toNat?, hexToNat? a, k.toNat? with
    | some n, some a, some k =>
      let l1 := match invMod2kVartime (64 * n) a k with
        | none => "panic"
        | some r => optTok (if r.2 then some r.1 else none)
      some (both l1 (optTok (specInv2kW (64 * n) a k)))
    | _, _, _ => badArgs
  | "c10.hook.inv_mod2k_full_vartime", [n, a, k] =>
    match n.toNat?, hexToNat? a, k.toNat? with
    | some n, some a, some k => some (optTok (invMod2kFullVartime (64 * n) a k))
    | _, _, _ => badArgs
  | "c10.b.inv_mod2k", [n, a, k] =>
    match n.toNat?, hexToNat? a, k.toNat? with
    | some n, some a, some k =>
      let r := invMod2k (64 * n) a k
      some (both (optTok (if r.2 then some r.1 else none)) (optTok (specInv2kW (64 * n) a k)))
    | _, _, _ => badArgs
  | "c10.b.inv_mod2k_vartime", [n, a, k] =>
    match n.toNat?, hexToNat? a, k.toNat? with
    | some n, some a, some k =>
      let r := invMod2kVartimeBoxed (64 * n) a k
      some (both (optTok (if r.2 then some r.1 else none)) (optTok (specInv2kW (64 * n) a k)))
    | _, _, _ => badArgs
  -- ---------------------------------------------------------------- general modulus
  | "c10.u.inv_mod", [n, a, m] | "c10.u.inv_mod_trait", [n, a, m] =>
    match p3 n a m with
    | some (n, a, m) => some (both (rTok (invModWith (fixedInvOdd n) (64 * n) a m)) (optTok (specInv a m)))
    | none => badArgs
  | "c10.u.inv_mod_m0", [n, a, _form] =>
    match n.toNat?, hexToNat? a with
    -- modulus 0 (outside C10's domain m ≥ 1; DESIGN §7 row 8, repaired by /repo be88d84): `none`
    -- (theorem `inv_mod_zero_modulus_none`)
    | some n, some a => some (both (rTok (invModWith (fixedInvOdd n) (64 * n) a 0)) "none")
    | _, _ => badArgs
  | "c10.b.inv_mod", [n, a, m] | "c10.b.inv_mod_trait", [n, a, m] =>
    match p3 n a m with
    | some (n, a, m) =>
      -- the odd-part inversion is evaluated first; its `to_uint` assertion may panic
      let w := 64 * n
      let k := tz w m
      let s := if k < w then m / 2 ^ k else 0
      let l1 := match boxedInv false (toLimbs n a) (toLimbs n s) [1] with
        | none => "panic"
        | some _ => rTok (invModBoxedWith (boxedInvOddVal n) w a m)
      some (both l1 (optTok (specInv a m)))
    | none => badArgs
  | "c10.b.inv_mod_mixed", [la, a, lm, m] =>
    -- `BoxedUint::inv_mod` documents "must have the same number of limbs, or the function will panic";
    -- since /repo fb50dbc the `assert_eq!` runs in every build
    match la.toNat?, hexToNat? a, lm.toNat?, hexToNat? m with
    | some la, some _, some lm, some _ => if la = lm then badArgs else some (both "panic" "panic")
    | _, _, _, _ => badArgs
  | "c10.u.inv_odd_mod", [n, a, m] =>
    match p3 n a m with
    | some (n, a, m) => some (both (optTok (fixedInvOdd n a m)) (optTok (specInv a m)))
    | none => badArgs
  | "c10.b.inv_odd_mod", [n, a, m] =>
    match p3 n a m with
    | some (n, a, m) =>
      let l1 := match boxedInv false (toLimbs n a) (toLimbs n m) [1] with
        | none => "panic"
        | some r => optTok r
      some (both l1 (optTok (specInv a m)))
    | none => badArgs
  | "c10.b.inv_odd_mod_mixed", [la, a, lm, m] =>
    match la.toNat?, hexToNat? a, lm.toNat?, hexToNat? m with
    | some la, some a, some lm, some m =>
      let t := fun dbg => match boxedInvD dbg false (toLimbs la a) (toLimbs lm m) [1] with
        | none => "panic"
        | some r => optTok r
      some (both (prof (t false) (t true)) (optTok (specInv a m)))
    | _, _, _, _ => badArgs
  | "c10.u.inverter", [n, m, a, vt] =>
    match p3 n m a, flag? vt with
    | some (n, m, a), some vt => some (both (optTok (invOutOpt (fixedInv vt n a m 1))) (optTok (specInv a m)))
    | _, _ => badArgs
  | "c10.b.inverter", [n, m, a, vt] =>
    match p3 n m a, flag? vt with
    | some (n, m, a), some vt =>
      let l1 := match boxedInv vt (toLimbs n a) (toLimbs n m) [1] with
        | none => "panic"
        | some r => optTok r
      some (both l1 (optTok (specInv a m)))
    | _, _ => badArgs
  -- ---------------------------------------------------------------- Montgomery forms
  | "c10.u.monty_inv", [n, m, a, form] | "c10.c.monty_inv", [n, m, a, form] =>
    match p3 n m a, form.toNat? with
    | some (n, m, a), some form =>
      let vt := form % 2 = 1
      let l1 := montyInv n a m fun mf r2 => some (invOutOpt (fixedInv vt n mf m r2))
      some (both l1 (optTok (specInv a m)))
    | _, _ => badArgs
  | "c10.b.monty_inv", [n, m, a, form] =>
    match p3 n m a, form.toNat? with
    | some (n, m, a), some form =>
      let vt := form % 2 = 1
      let l1 := montyInv n a m fun mf r2 => boxedInv vt (toLimbs n mf) (toLimbs n m) (toLimbs n r2)
      some (both l1 (optTok (specInv a m)))
    | _, _ => badArgs
  -- ---------------------------------------------------------------- signed inversion
  | "c10.i.inv_odd_mod", [n, a, m] =>
    match p3 n a m with
    | some (n, a, m) =>
      let w := 64 * n
      let (ab, neg) := absSign w a
      let l0 := (specInv ab m).map fun x => if neg then (m - x) % m else x
      some (both (optTok (signedFix w m neg (fixedInvOdd n ab m))) (optTok l0))
    | none => badArgs
  | "c10.i.inv_mod", [n, a, m] =>
    match p3 n a m with
    | some (n, a, m) =>
      let w := 64 * n
      let (ab, neg) := absSign w a
      let l1 := match invModWith (fixedInvOdd n) w ab m with
        | .panic => "panic"
        | .none => "none"
        | .some x => optTok (signedFix w m neg (some x))
      -- the inverse of the signed value: -(|a|⁻¹) mod m
      let l0 := (specInv ab m).map fun x => if neg then (m - x) % m else x
      some (both l1 (optTok l0))
    | none => badArgs
  -- ---------------------------------------------------------------- gcd
  | "c10.u.gcd", [n, a, b] =>
    match p3 n a b with
    | some (n, a, b) => some (both (natToHex (uintGcd n a b)) (natToHex (specGcd a b)))
    | none => badArgs
  | "c10.u.gcd_trait", [n, a, b, vt] | "c10.u.gcd_int", [n, a, b, vt] | "c10.i.gcd", [n, a, b, vt]
  | "c10.i.gcd_uint", [n, a, b, vt] =>
    match p3 n a b, flag? vt with
    | some (n, a, b), some vt =>
      let w := 64 * n
      let a := if op = "c10.i.gcd" || op = "c10.i.gcd_uint" then iabs w a else a
      let b := if op = "c10.i.gcd" || op = "c10.u.gcd_int" then iabs w b else b
      let l1 := if vt then uintGcdVartime n a b else uintGcd n a b
      some (both (natToHex l1) (natToHex (specGcd a b)))
    | _, _ => badArgs
  | "c10.u.odd_gcd", [n, f, g, form] =>
    -- form 0: Gcd::gcd, 1: Gcd::gcd_vartime, 2: inherent Odd::gcd_vartime
    match p3 n f g, form.toNat? with
    | some (n, f, g), some form =>
      some (both (natToHex (oddGcdFixed (form ≠ 0) n f g)) (natToHex (specGcd f g)))
    | _, _ => badArgs
  | "c10.b.gcd", [n, a, b, vt] =>
    match p3 n a b, flag? vt with
    | some (n, a, b), some vt =>
      let r := if vt then boxedGcdVartime (toLimbs n a) (toLimbs n b) else boxedGcd (toLimbs n a) (toLimbs n b)
      some (both (match r with | none => "panic" | some v => limbsHex v) (natToHex (specGcd a b)))
    | _, _ => badArgs
  | "c10.b.odd_gcd", [n, f, g, vt] =>
    match p3 n f g, flag? vt with
    | some (n, f, g), some vt =>
      let r := boxedOddGcd vt (toLimbs n f) (toLimbs n g)
      some (both (match r with | none => "panic" | some v => limbsHex v) (natToHex (specGcd f g)))
    | _, _ => badArgs
  | "c10.b.gcd_mixed", [la, a, lb, b, vt] =>
    match la.toNat?, hexToNat? a, lb.toNat?, hexToNat? b, flag? vt with
    | some la, some a, some lb, some b, some vt =>
      let r := if vt then boxedGcdVartime (toLimbs la a) (toLimbs lb b) else boxedGcd (toLimbs la a) (toLimbs lb b)
      some (precBoth r (specGcd a b))
    | _, _, _, _, _ => badArgs
  | "c10.b.odd_gcd_mixed", [la, a, lb, b, vt] =>
    match la.toNat?, hexToNat? a, lb.toNat?, hexToNat? b, flag? vt with
    | some la, some a, some lb, some b, some vt =>
      some (precBoth (boxedOddGcd vt (toLimbs la a) (toLimbs lb b)) (specGcd a b))
    | _, _, _, _, _ => badArgs
  -- ---------------------------------------------------------------- model-only reports (not generated)
  | "c10.slack.inv", [n, a, m] =>
    match p3 n a m with
    | some (n, a, m) =>
      let inv := Inverter.new n (toLimbs n m) (toLimbs n 1)
      let g := fromUint (toLimbs n a) inv.modulus.length
      let iters := iterations (ubits inv.modulus) (ubits g)
      let o := inv.invVartime n (toLimbs n a)
      some (slackTok iters o.trips)
    | none => badArgs
  | "c10.slack.gcd", [n, f, g] =>
    match p3 n f g with
    | some (n, f, g) =>
      let o := gcdFixed true n (toLimbs n f) (toLimbs n g)
      some (slackTok o.iters o.trips)
    | none => badArgs
  | "c10.slack.bgcd", [n, f, g] =>
    match p3 n f g with
    | some (n, f, g) =>
      let o := gcdBoxed true (toLimbs n f) (toLimbs n g)
      some (slackTok o.iters o.trips)
    | none => badArgs
  | _, _ => none

end CB
