import CB.Driver.Util
namespace CB

/-- operations of property C10 (op names start with `c10.`) -/
def dispatchC10 : Dispatch := fun _ _ => none

end CB
