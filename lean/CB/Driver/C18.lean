import CB.Driver.Util
import CB.Model.Der
import CB.Model.Rlp
namespace CB.Der
open CB

def decTok : Dec → String
  | .ok v => limbsHex v
  | .err => "err"
  | .panic => "panic"

def optBytesTok : Option (List Nat) → String
  | some b => bytesToTok b
  | none => "err"

/-- `L1 ;; L0`: the model of the code, then what the property demands -/
def two (l1 l0 : Dec) : String := s!"{decTok l1} ;; {decTok l0}"

/-- widths for which the harness has the DER / RLP ops monomorphised -/
def derWidth (n : Nat) : Bool := [1, 2, 3, 4, 6, 7, 8, 9, 12, 13, 14, 16, 24, 28, 32, 48, 56, 64, 96, 128].contains n
def rlpDecWidth (n : Nat) : Bool := [1, 2, 3, 4].contains n

def withVal (n v : String) (ok : Nat → Bool) (f : Nat → List Nat → String) : Option String :=
  match n.toNat?, hexToNat? v with
  | some n, some v =>
    if !ok n then some "unsupported-width"
    else if v ≥ B ^ n then badArgs
    else some (f n (toLimbs n v))
  | _, _ => badArgs

def withBytes (n b : String) (ok : Nat → Bool) (f : Nat → List Nat → String) : Option String :=
  match n.toNat?, tokToBytes? b with
  | some n, some b => if !ok n then some "unsupported-width" else some (f n b)
  | _, _ => badArgs

end CB.Der

namespace CB
open CB.Der CB.Rlp

/-- operations of property C18 (op names start with `c18.`) -/
def dispatchC18 : Dispatch := fun op args =>
  match op, args with
  | "c18.der.to_der", [n, v] => withVal n v derWidth fun n a => optBytesTok (derToDer n a)
  | "c18.der.len", [n, v] => withVal n v derWidth fun n a =>
      match derEncodedLen n a, derValueLen n a with
      | some e, some l => s!"{e} {l}"
      | _, _ => "err"
  | "c18.der.encode_to_slice", [n, v, cap] =>
      match cap.toNat? with
      | some cap => withVal n v derWidth fun n a => optBytesTok (derEncodeToSlice n a cap)
      | none => badArgs
  | "c18.der.from_der", [n, b] => withBytes n b derWidth fun n bs =>
      two (derFromDer n bs) (derSpecFromDer n bs)
  | "c18.der.any_from_der", [n, b] => withBytes n b derWidth fun n bs =>
      two (derAnyFromDer n bs) (failClosed (derAnyFromDer n bs))
  | "c18.der.any", [n, t, b] =>
      match tokToBytes? t with
      | some [t] => withBytes n b derWidth fun n bs => two (derFromAny n t bs) (failClosed (derFromAny n t bs))
      | _ => badArgs
  | "c18.der.uintref", [n, b] => withBytes n b derWidth fun n bs =>
      two (derFromUintRefNew n bs) (failClosed (derFromUintRefNew n bs))
  | "c18.rlp.encode", [n, v] => withVal n v derWidth fun n a => bytesToTok (rlpEncode n a)
  | "c18.rlp.decode", [n, b] => withBytes n b rlpDecWidth fun n bs =>
      two (rlpDecode n bs) (rlpSpecDecode n bs)
  | "c18.rlp.list3", [n, v1, v2, v3] =>
    match n.toNat?, hexToNat? v1, hexToNat? v2, hexToNat? v3 with
    | some n, some a, some b, some c =>
      if !rlpDecWidth n then some "unsupported-width" else
      let lim := fun (x : Nat) => toLimbs n x
      let items := [rlpEncode n (lim a), rlpEncode n (lim b), rlpEncode n (lim c)]
      let dec := fun (x : Nat) => decTok (rlpDecode n (rlpEncode n (lim x)))
      some s!"{bytesToTok (rlpListOf items)} 3 {dec a} {dec b} {dec c}"
    | _, _, _, _ => badArgs
  | "c18.rlp.list1", [n, v] => withVal n v rlpDecWidth fun n a =>
      s!"{bytesToTok (rlpList1 n a)} {decTok (rlpDecode n (rlpEncode n a))}"
  | _, _ => none

end CB
