import CB.Driver.Util
namespace CB

/-- operations of property C18 (op names start with `c18.`) -/
def dispatchC18 : Dispatch := fun _ _ => none

end CB
