import CB.Driver.Util
namespace CB

/-- operations of property C01 (op names start with `c01.`) -/
def dispatchC01 : Dispatch := fun _ _ => none

end CB
