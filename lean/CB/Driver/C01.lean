/-
  CB.Driver.C01 — value correspondence for the LEAKAGE MODEL of property C01 (`CB/Model/LeakOps.lean`).

  The noninterference theorems of `CB/Props/C01.lean` speak about the traces of the `CB.Leak.*` functions; this driver
  ties the VALUES those functions compute to the real crate: every op `c01.leak.<fn> …` runs the leak-model function on
  secrets built from the operands (`Sec.ofNat`), reveals the result (`Sec.reveal` — allowed here, never in LeakOps.lean)
  and prints     L1 ;; L0     where L1 = the leak model's result and L0 = the plain `Nat` / `Int` specification of the
  operation.  `harness/src/ops/c01.rs` prints the result of the REAL public function in the same format.  So a one-token
  change in the arithmetic of the leak model (L1 ≠ L0 / ≠ crate), or a semantic change in the Rust, is a disagreement.

  Token conventions (AGENT_GUIDE §2): limb counts, shifts, bit indices decimal; values hex; signed values as the hex of
  their two's complement limbs; masks `0`/`1`; a value under a false mask prints `none`.  Core Lean only.
-/
import CB.Driver.Util
import CB.Model.LeakOps
namespace CB
namespace D01
open CB.Leak

def sec (n x : Nat) : List Sec := (toLimbs n x).map Sec.ofNat
def rv (l : List Sec) : List Nat := l.map Sec.reveal
def vl (l : List Sec) : Nat := val (rv l)
def hx (l : List Sec) : String := limbsHex (rv l)
def hxl (l : List Sec) : String := limbsHexLen (rv l)
def wd (s : Sec) : String := natToHex s.reveal
def mk (s : Sec) : String := choiceTok s.reveal
def b01 (p : Bool) : String := if p then "1" else "0"
/-- a value under a mask: printed only when the mask is set -/
def opt (v : String) (s : Sec) : String := if s.reveal = WMAX then v else if s.reveal = 0 then "none" else s!"badchoice:{natToHex s.reveal}"
def optB (v : String) (p : Bool) : String := if p then v else "none"
def msk (c : Nat) : Sec := if c = 0 then Sec.zero else Sec.max
def nhl (n x : Nat) : String := s!"{n}:{natToHex x}"

/-- signed reading of an `n`-limb two's complement value, and back -/
def sgn (n x : Nat) : Int := if 2 * (x % B ^ n) ≥ B ^ n then ((x % B ^ n : Nat) : Int) - ((B ^ n : Nat) : Int) else ((x % B ^ n : Nat) : Int)
def twos (n : Nat) (i : Int) : Nat := (i % ((B ^ n : Nat) : Int)).toNat
def fitsI (n : Nat) (i : Int) : Bool := decide (-(((B ^ n / 2 : Nat)) : Int) ≤ i ∧ i < ((B ^ n / 2 : Nat) : Int))
def ihx (n : Nat) (i : Int) : String := natToHex (twos n i)
def iopt (n : Nat) (i : Int) : String := if fitsI n i then ihx n i else "none"
/-- the i8 of an `Ordering` held in a word -/
def ordTok (s : Sec) : String := if s.reveal = 0 then "0" else if s.reveal = 1 then "1" else if s.reveal = WMAX then "-1" else "badord"
def ordOf (a b : Int) : String := if a < b then "-1" else if a = b then "0" else "1"
def lz (n x : Nat) : Nat := 64 * n - (if x = 0 then 0 else Nat.log2 x + 1)
def tzN (bits x : Nat) : Nat := if x = 0 then bits else (List.range bits).foldr (fun i acc => if x / 2 ^ i % 2 = 1 then i else acc) bits
def toN (bits x : Nat) : Nat := tzN bits (2 ^ bits - 1 - x % 2 ^ bits)
def isqrt (x : Nat) : Nat := Nat.sqrt x

/-- `-m⁻¹ mod 2^64` for odd `m` (Newton on words; PUBLIC precomputation of the Montgomery parameters) -/
def negInv64 (m : Nat) : Nat :=
  let m0 := m % B
  let x := (List.range 6).foldl (fun x _ => (x * (2 + B * B - m0 * x)) % B) 1
  (B - x) % B

/-- `x^e mod m` by square-and-multiply over the bits of `e` -/
def powMod (x e m : Nat) : Nat :=
  (List.range (Nat.log2 e + 1)).foldr (fun i acc => (acc * acc % m) * (if e / 2 ^ i % 2 = 1 then x % m else 1) % m) (1 % m)


/-- unsaturated (62-bit limb) integers: words `< 2^62` packed in 64-bit words of the token -/
def u62val (u x : Nat) : Nat := (List.range u).foldl (fun acc i => acc + (x / B ^ i % B % 2 ^ 62) * 2 ^ (62 * i)) 0
def u62enc (u v : Nat) : Nat := (List.range u).foldl (fun acc i => acc + (v / 2 ^ (62 * i) % 2 ^ 62) * B ^ i) 0
def u62sgn (u v : Nat) : Int := if 2 * (v % 2 ^ (62 * u)) ≥ 2 ^ (62 * u) then ((v % 2 ^ (62 * u) : Nat) : Int) - ((2 ^ (62 * u) : Nat) : Int) else ((v % 2 ^ (62 * u) : Nat) : Int)
def u62ofInt (u : Nat) (i : Int) : Nat := u62enc u (i % ((2 ^ (62 * u) : Nat) : Int)).toNat
def s64 (x : Nat) : Int := if x % B ≥ HALF then ((x % B : Nat) : Int) - (B : Int) else ((x % B : Nat) : Int)
def w64 (i : Int) : Nat := (i % (B : Int)).toNat
def bitlen (x : Nat) : Nat := if x = 0 then 0 else Nat.log2 x + 1
/-- modular inverse by the extended Euclidean algorithm on `Int` (specification side) -/
def egcdInv (a m : Nat) : Option Nat :=
  let rec go (fuel : Nat) (r0 r1 : Int) (s0 s1 : Int) : Int × Int :=
    match fuel with
    | 0 => (r0, s0)
    | f + 1 => if r1 = 0 then (r0, s0) else go f r1 (r0 - (r0 / r1) * r1) s1 (s0 - (r0 / r1) * s1)
  let r := go (2 * (bitlen a + bitlen m) + 4) (a % m : Nat) m 1 0
  if r.1 = 1 then some (r.2 % (m : Int)).toNat else if m = 1 then some 0 else none

abbrev Fn := List Nat → String
def bad : String := "bad-args"

def op (name sig : String) (f : Fn) : String × String × Fn := (name, sig, f)

/-- per op: the signature (`d` decimal, `h` hex per argument) and the function printing `L1 ;; L0` -/
def ops : List (String × String × Fn) := [
  -- ---- limb
  op "c01.leak.limb" "hhhh" (fun
    | [a, b, c, d] =>
      let sa := Sec.ofNat a; let sb := Sec.ofNat b; let sc := Sec.ofNat c; let sd := Sec.ofNat d
      let ad := (limbAdc sa sb sc).val; let sbb := (limbSbb sa sb sc).val; let mc := (limbMac sa sb sc sd).val
      let l1 := s!"{mk (limbEq sa sb).val} {mk (limbLt sa sb).val} {wd (limbSelect sa sb (msk (c % 2))).val} {wd ad.1} {wd ad.2} {wd sbb.1} {wd sbb.2} {wd mc.1} {wd mc.2} {wd (limbBits sa).val}"
      let bw := c / HALF
      let l0 := s!"{b01 (a == b)} {b01 (decide (a < b))} {natToHex (if c % 2 = 1 then b else a)} {natToHex ((a + b + c) % B)} {natToHex ((a + b + c) / B)} {natToHex ((a + B - b - bw) % B)} {natToHex (if a < b + bw then WMAX else 0)} {natToHex ((a + b * c + d) % B)} {natToHex ((a + b * c + d) / B)} {natToHex (if a = 0 then 0 else Nat.log2 a + 1)}"
      s!"{l1} ;; {l0}"
    | _ => bad),
  -- ---- Uint select / comparison
  op "c01.leak.ucmp" "dhhd" (fun
    | [n, a, b, c] =>
      let x := sec n a; let y := sec n b
      let l1 := s!"{hx (uselect n x y (msk c)).val} {mk (isNonzero n x).val} {mk (ueq n x y).val} {mk (ult n x y).val} {mk (ugt n x y).val} {ordTok (ucmp n x y).val} {mk (ulte n x y).val}"
      let l0 := s!"{natToHex (if c = 0 then a else b)} {b01 (a != 0)} {b01 (a == b)} {b01 (decide (a < b))} {b01 (decide (a > b))} {ordOf a b} {b01 (decide (a ≤ b))}"
      s!"{l1} ;; {l0}"
    | _ => bad),
  op "c01.leak.cmp_vartime" "dhh" (fun
    | [n, a, b] => s!"{ordTok (cmpVartime n (sec n a) (sec n b)).val} ;; {ordOf a b}"
    | _ => bad),
  -- ---- add / sub / neg / bit ops
  op "c01.leak.addsub" "dhhh" (fun
    | [n, a, b, c] =>
      let x := sec n a; let y := sec n b; let m := B ^ n
      let ad := (uadc n x y (Sec.ofNat c)).val; let sb := (usbb n x y (Sec.ofNat c)).val; let ng := (uneg n x).val
      let l1 := s!"{hx ad.1} {wd ad.2} {hx sb.1} {wd sb.2} {hx ng.1} {wd ng.2} {hx (wrappingAdd n x y).val} {hx (wrappingSub n x y).val} {hx (bitandLimb n x (Sec.ofNat c)).val} {hx (unot n x).val} {hx (ubitxor n x y).val} {hx (ubitor n x y).val} {hx (wrappingNegIf n x (msk (c % 2))).val}"
      let bw := c / HALF
      let cmask := (List.range n).foldl (fun acc i => acc + c * B ^ i) 0
      let l0 := s!"{natToHex ((a + b + c) % m)} {natToHex ((a + b + c) / m)} {natToHex ((a + m - b - bw) % m)} {natToHex (if a < b + bw then WMAX else 0)} {natToHex ((m - a) % m)} {natToHex (if a = 0 then 1 else 0)} {natToHex ((a + b) % m)} {natToHex ((a + m - b) % m)} {natToHex (a &&& cmask)} {natToHex (m - 1 - a)} {natToHex (a ^^^ b)} {natToHex (a ||| b)} {natToHex (if c % 2 = 1 then (m - a) % m else a)}"
      s!"{l1} ;; {l0}"
    | _ => bad),
  -- ---- shifts
  op "c01.leak.shl_vartime" "dhd" (fun
    | [n, a, s] => let r := (shlVartime n (sec n a) s).val
      s!"{opt (hx r.1) r.2} ;; {optB (natToHex (a * 2 ^ s % B ^ n)) (s < 64 * n)}"
    | _ => bad),
  op "c01.leak.shr_vartime" "dhd" (fun
    | [n, a, s] => let r := (shrVartime n (sec n a) s).val
      s!"{opt (hx r.1) r.2} ;; {optB (natToHex (a / 2 ^ s)) (s < 64 * n)}"
    | _ => bad),
  op "c01.leak.shl" "dhd" (fun
    | [n, a, s] => let r := (overflowingShl n (sec n a) (Sec.ofNat s)).val
      s!"{opt (hx r.1) r.2} ;; {optB (natToHex (a * 2 ^ s % B ^ n)) (s < 64 * n)}"
    | _ => bad),
  op "c01.leak.shr" "dhd" (fun
    | [n, a, s] => let r := (overflowingShr n (sec n a) (Sec.ofNat s)).val
      s!"{opt (hx r.1) r.2} ;; {optB (natToHex (a / 2 ^ s)) (s < 64 * n)}"
    | _ => bad),
  op "c01.hook.shl_limb" "dhd" (fun
    | [n, a, s] => let r := (shlLimb n (sec n a) (Sec.ofNat s)).val
      s!"{hx r.1} {wd r.2} ;; {natToHex (a * 2 ^ s % B ^ n)} {natToHex (a * 2 ^ s / B ^ n)}"
    | _ => bad),
  op "c01.hook.shr1" "dh" (fun
    | [n, a] => s!"{hx (shr1 n (sec n a)).val} ;; {natToHex (a / 2)}"
    | _ => bad),
  -- ---- bit queries
  op "c01.leak.bits" "dhdd" (fun
    | [n, a, i, v] =>
      let x := sec n a
      let l1 := s!"{mk (bit n x (Sec.ofNat i)).val} {wd (bitVartime n x i).val} {wd (leadingZeros n x).val} {wd (trailingZeros n x).val} {wd (trailingOnes n x).val} {wd (bits n x).val} {wd (bitsVartime n x).val} {hx (setBit n x (Sec.ofNat i) (msk v)).val}"
      let bitv := a / 2 ^ i % 2
      let setv := if i < 64 * n then (if v = 1 then a ||| 2 ^ i else a - bitv * 2 ^ i) else a
      let l0 := s!"{bitv} {bitv} {natToHex (lz n a)} {natToHex (tzN (64 * n) a)} {natToHex (toN (64 * n) a)} {natToHex (64 * n - lz n a)} {natToHex (64 * n - lz n a)} {natToHex setv}"
      s!"{l1} ;; {l0}"
    | _ => bad),
  -- ---- modular add / sub / neg  (a, b < p)
  op "c01.leak.modarith" "dhhh" (fun
    | [n, a, b, p] =>
      let x := sec n a; let y := sec n b; let q := sec n p
      let l1 := s!"{hx (addMod n x y q).val} {hx (subMod n x y q).val} {hx (negMod n x q).val}"
      let l0 := s!"{natToHex ((a + b) % p)} {natToHex ((a + p - b) % p)} {natToHex ((p - a) % p)}"
      s!"{l1} ;; {l0}"
    | _ => bad),
  op "c01.hook.sub_mod_with_carry" "dhdhh" (fun
    | [n, a, c, b, p] =>
      -- requires a + c·2^BITS - b < p … as the callers guarantee; the spec is the modular difference
      s!"{hx (subModWithCarry n (sec n a) (Sec.ofNat c) (sec n b) (sec n p)).val} ;; {natToHex ((a + c * B ^ n + p - b) % p)}"
    | _ => bad),
  -- ---- multiplication
  op "c01.leak.split_mul" "ddhh" (fun
    | [n, m, a, b] => let r := (splitMul n m (sec n a) (sec m b)).val
      s!"{hx r.1} {hx r.2} ;; {natToHex (a * b % B ^ n)} {natToHex (a * b / B ^ n)}"
    | _ => bad),
  op "c01.leak.square_wide" "dh" (fun
    | [n, a] => let r := (squareWide n (sec n a)).val
      s!"{hx r.1} {hx r.2} ;; {natToHex (a * a % B ^ n)} {natToHex (a * a / B ^ n)}"
    | _ => bad),
  op "c01.leak.mul_forms" "dhh" (fun
    | [n, a, b] =>
      let x := sec n a; let y := sec n b; let m := B ^ n
      let cm := (checkedMul n n x y).val; let cs := (checkedSquare n x).val
      let l1 := s!"{hx (wrappingMul n n x y).val} {opt (hx cm.1) cm.2} {hx (saturatingMul n n x y).val} {opt (hx cs.1) cs.2}"
      let l0 := s!"{natToHex (a * b % m)} {optB (natToHex (a * b)) (a * b < m)} {natToHex (if a * b < m then a * b else m - 1)} {optB (natToHex (a * a)) (a * a < m)}"
      s!"{l1} ;; {l0}"
    | _ => bad),
  op "c01.leak.concat_split" "dhh" (fun
    | [n, a, b] =>
      let c := (concatMixed n n (2 * n) (sec n a) (sec n b)).val
      let s := (splitMixed (2 * n) n n c).val
      let r := (resize (2 * n) n c).val
      let w := (resize n (2 * n) (sec n b)).val
      s!"{hx c} {hx s.1} {hx s.2} {hx r} {hx w} ;; {natToHex (a + B ^ n * b)} {natToHex a} {natToHex b} {natToHex a} {natToHex b}"
    | _ => bad),
  -- ---- division
  op "c01.hook.reciprocal" "h" (fun
    | [d] => s!"{wd (reciprocal (Sec.ofNat d)).val} ;; {natToHex ((B * B - 1) / d - B)}"
    | _ => bad),
  op "c01.leak.div_rem_limb" "dhh" (fun
    | [n, a, d] => let r := (divRemLimb n (sec n a) (Sec.ofNat d)).val
      s!"{hx r.1} {wd r.2} ;; {natToHex (a / d)} {natToHex (a % d)}"
    | _ => bad),
  op "c01.leak.div_rem" "dhh" (fun
    | [n, a, d] => let r := (udivRem n (sec n a) (sec n d)).val
      s!"{hx r.1} {hx r.2} ;; {natToHex (a / d)} {natToHex (a % d)}"
    | _ => bad),
  op "c01.leak.div_rem_vartime" "dhh" (fun
    | [n, a, d] => let r := (divRemVartime n (sec n a) (sec n d)).val
      s!"{hx r.1} {hx r.2} ;; {natToHex (a / d)} {natToHex (a % d)}"
    | _ => bad),
  op "c01.leak.sqrt" "dh" (fun
    | [n, a] => s!"{hx (sqrt n (sec n a)).val} ;; {natToHex (isqrt a)}"
    | _ => bad),
  -- ---- inversion mod 2^k
  op "c01.leak.inv_mod2k" "dhd" (fun
    | [n, a, k] =>
      let r := (invMod2k n (sec n a) (Sec.ofNat k)).val; let v := (invMod2kVartime n (sec n a) k).val
      let some := decide (k = 0 ∨ a % 2 = 1)
      -- the inverse is unique mod 2^k: check the defining equation, print the model's value when it holds
      let ok (x : Nat) : Bool := x < 2 ^ (min k (64 * n)) ∧ x * a % 2 ^ (min k (64 * n)) = 1 % 2 ^ (min k (64 * n))
      let l0v := if ok (vl r.1) then natToHex (vl r.1) else "no-inverse-found"
      s!"{opt (hx r.1) r.2} {opt (hx v.1) v.2} ;; {optB l0v some} {optB l0v some}"
    | _ => bad),
  -- ---- Montgomery multiplication / exponentiation (odd modulus m; operands < m)
  op "c01.leak.monty" "dhhhd" (fun
    | [n, x, e, m, ebits] =>
      let r := B ^ n
      let ni := Sec.ofNat (negInv64 m)
      let ms := sec n m
      let one' := sec n (r % m)
      let xm := sec n (x * r % m)
      let em := sec n (e * r % m)
      let prod := (mulMont n xm em ms ni).val
      let prodR := (montgomeryReduction n prod (zeros n) ms ni).val
      let pw := (powBoundedExp n xm (sec n e) ebits ms one' ni).val
      let pwR := (montgomeryReduction n pw (zeros n) ms ni).val
      let pf := (pow n xm (sec n e) ms one' ni).val
      let pfR := (montgomeryReduction n pf (zeros n) ms ni).val
      let l0 := s!"{natToHex (x * e % m)} {natToHex (powMod x (e % 2 ^ ebits) m)} {natToHex (powMod x e m)}"
      s!"{hx prodR} {hx pwR} {hx pfR} ;; {l0}"
    | _ => bad),
  -- ---- Int
  op "c01.leak.int_arith" "dhh" (fun
    | [n, a, b] =>
      let x := sec n a; let y := sec n b; let ia := sgn n a; let ib := sgn n b
      let ab := (intAbsSign n x).val; let ca := (intCheckedAdd n x y).val; let cs := (intCheckedSub n x y).val
      let cn := (intCheckedNeg n x).val; let on := (intOverflowingNeg n x).val
      let nf := (intNewFromAbsSign n x (msk (b % 2))).val
      let l1 := s!"{hx ab.1} {mk ab.2} {opt (hx ca.1) ca.2} {opt (hx cs.1) cs.2} {opt (hx cn.1) cn.2} {hx on.1} {mk (intLt n x y).val} {mk (intGt n x y).val} {ordTok (intCmp n x y).val} {opt (hx nf.1) nf.2}"
      let nfv : Int := if b % 2 = 1 then -((a % B ^ n : Nat) : Int) else ((a % B ^ n : Nat) : Int)
      let l0 := s!"{natToHex ia.natAbs} {b01 (decide (ia < 0))} {iopt n (ia + ib)} {iopt n (ia - ib)} {iopt n (-ia)} {ihx n (-ia)} {b01 (decide (ia < ib))} {b01 (decide (ia > ib))} {ordOf ia ib} {iopt n nfv}"
      s!"{l1} ;; {l0}"
    | _ => bad),
  op "c01.leak.int_mul" "ddhh" (fun
    | [n, m, a, b] =>
      let x := sec n a; let y := sec m b; let ia := sgn n a; let ib := sgn m b
      let cm := (intCheckedMul n m x y).val; let cu := (intCheckedMulUint n m x y).val
      let l1 := s!"{opt (hx cm.1) cm.2} {opt (hx cu.1) cu.2} {hx (intWideningMul n m x y).val}"
      let l0 := s!"{iopt n (ia * ib)} {iopt n (ia * ((b % B ^ m : Nat) : Int))} {ihx (n + m) (ia * ib)}"
      s!"{l1} ;; {l0}"
    | _ => bad),
  op "c01.leak.int_shr" "dhd" (fun
    | [n, a, s] =>
      let x := sec n a; let ia := sgn n a
      let o := (intOverflowingShr n x (Sec.ofNat s)).val; let v := (intShrVartime n x s).val
      let l1 := s!"{opt (hx o.1) o.2} {hx (intWrappingShr n x (Sec.ofNat s)).val} {opt (hx v.1) v.2}"
      let sh : Int := ia / ((2 ^ s : Nat) : Int)
      let l0 := s!"{optB (ihx n sh) (s < 64 * n)} {ihx n (if s < 64 * n then sh else if ia < 0 then -1 else 0)} {optB (ihx n sh) (s < 64 * n)}"
      s!"{l1} ;; {l0}"
    | _ => bad),
  op "c01.leak.int_div" "dhh" (fun   -- divisor non-zero
    | [n, a, d] =>
      let x := sec n a; let y := sec n d; let ia := sgn n a; let id := sgn n d
      let r := (intCheckedDivRem n x y).val; let f := (intCheckedDivRemFloor n x y).val
      let l1 := s!"{opt (hx r.1) r.2.1} {hx r.2.2} {opt (hx f.1) f.2.1} {hx f.2.2}"
      -- the remainder of `checked_div_rem_floor` is specified AS THE CODE DEFINES IT (re-signed by `opposing_signs`;
      -- the deviation from floor-mod is finding C14-floor-remainder-sign of property C14, not a concern of C01)
      let opp := decide ((ia < 0) ≠ (id < 0))
      let rm := ia.natAbs % id.natAbs
      let fr : Int := if opp then -(((if rm ≠ 0 then id.natAbs - rm else 0 : Nat)) : Int) else (rm : Int)
      let l0 := s!"{iopt n (Int.tdiv ia id)} {ihx n (Int.tmod ia id)} {iopt n (Int.fdiv ia id)} {ihx n fr}"
      s!"{l1} ;; {l0}"
    | _ => bad),
  op "c01.leak.int_checked_div" "dhh" (fun   -- divisor may be zero
    | [n, a, d] =>
      let r := (intCheckedDiv n (sec n a) (sec n d)).val
      s!"{opt (hx r.1) r.2} ;; {if d % B ^ n = 0 then "none" else iopt n (Int.tdiv (sgn n a) (sgn n d))}"
    | _ => bad),
  op "c01.leak.int_div_uint" "dhh" (fun   -- divisor non-zero, unsigned
    | [n, a, d] =>
      let x := sec n a; let y := sec n d; let ia := sgn n a; let id : Int := ((d % B ^ n : Nat) : Int)
      let r := (intDivRemUint n x y).val; let f := (intDivRemFloorUint n x y).val
      let l1 := s!"{hx r.1} {hx r.2} {hx f.1} {hx f.2}"
      let l0 := s!"{ihx n (Int.tdiv ia id)} {ihx n (Int.tmod ia id)} {ihx n (Int.fdiv ia id)} {natToHex (Int.fmod ia id).toNat}"
      s!"{l1} ;; {l0}"
    | _ => bad),
  -- ---- BoxedUint
  op "c01.leak.boxed_addsub" "dhdhh" (fun
    | [na, a, nb, b, c] =>
      let x := sec na a; let y := sec nb b; let k := max na nb; let m := B ^ k
      let ad := (boxedAdc na nb x y (Sec.ofNat c)).val; let sb := (boxedSbb na nb x y (Sec.ofNat c)).val
      let l1 := s!"{hxl ad.1} {wd ad.2} {hxl sb.1} {wd sb.2} {mk (boxedCtEq na nb x y).val} {mk (boxedCtLt na nb x y).val} {mk (boxedCtGt na nb x y).val} {ordTok (boxedCmp na nb x y).val}"
      let bw := c / HALF
      let l0 := s!"{nhl k ((a + b + c) % m)} {natToHex ((a + b + c) / m)} {nhl k ((a + m - b - bw) % m)} {natToHex (if a < b + bw then WMAX else 0)} {b01 (a == b)} {b01 (decide (a < b))} {b01 (decide (a > b))} {ordOf a b}"
      s!"{l1} ;; {l0}"
    | _ => bad),
  op "c01.leak.boxed_assign" "dhdhhd" (fun   -- nb ≤ na
    | [na, a, nb, b, c, ch] =>
      let x := sec na a; let y := sec nb b; let m := B ^ na
      let ad := (boxedAdcAssign na nb x y (Sec.ofNat c)).val; let sb := (boxedSbbAssign na nb x y (Sec.ofNat c)).val
      let l1 := s!"{hxl ad.1} {wd ad.2} {hxl sb.1} {wd sb.2} {hxl (boxedConditionalNegate na x (msk ch)).val} {hxl (boxedWrappingNeg na x).val} {mk (boxedIsZero na x).val}"
      let bw := c / HALF
      let l0 := s!"{nhl na ((a + b + c) % m)} {natToHex ((a + b + c) / m)} {nhl na ((a + m - b - bw) % m)} {natToHex (if a < b + bw then WMAX else 0)} {nhl na (if ch = 1 then (m - a) % m else a)} {nhl na ((m - a) % m)} {b01 (a == 0)}"
      s!"{l1} ;; {l0}"
    | _ => bad),
  op "c01.leak.boxed_ct" "dhhd" (fun
    | [n, a, b, c] =>
      let x := sec n a; let y := sec n b
      let sw := (boxedCtSwap n x y (msk c)).val
      s!"{hxl (boxedCtSelect n x y (msk c)).val} {hxl (boxedCtAssign n x y (msk c)).val} {hxl sw.1} {hxl sw.2} ;; {nhl n (if c = 0 then a else b)} {nhl n (if c = 0 then a else b)} {nhl n (if c = 0 then a else b)} {nhl n (if c = 0 then b else a)}"
    | _ => bad),
  op "c01.leak.boxed_mul" "dhdh" (fun
    | [na, a, nb, b] =>
      let x := sec na a; let y := sec nb b
      let cm := (boxedCheckedMul na nb x y).val
      let l1 := s!"{hxl (boxedMul na nb x y).val} {hxl (boxedWrappingMul na nb x y).val} {opt (hxl cm.1) cm.2}"
      let l0 := s!"{nhl (na + nb) (a * b)} {nhl na (a * b % B ^ na)} {optB (nhl na (a * b)) (a * b < B ^ na)}"
      s!"{l1} ;; {l0}"
    | _ => bad),
  op "c01.leak.boxed_square" "dh" (fun
    | [n, a] => s!"{hxl (boxedSquare n (sec n a)).val} ;; {nhl (2 * n) (a * a)}"
    | _ => bad),
  op "c01.leak.boxed_shift" "dhd" (fun
    | [n, a, s] =>
      let x := sec n a
      let l := (boxedOverflowingShl n x (Sec.ofNat s)).val; let r := (boxedOverflowingShr n x (Sec.ofNat s)).val
      let v := (boxedShrVartimeInto n x (zeros n) s).val
      let l1 := s!"{hxl l.1} {mk l.2} {hxl r.1} {mk r.2} {if v.2 then hxl v.1 else "none"}"
      let inr := decide (s < 64 * n)
      let l0 := s!"{nhl n (if inr then a * 2 ^ s % B ^ n else 0)} {b01 inr} {nhl n (if inr then a / 2 ^ s else 0)} {b01 (!inr)} {optB (nhl n (a / 2 ^ s)) inr}"
      s!"{l1} ;; {l0}"
    | _ => bad),
  op "c01.leak.boxed_modarith" "dhhh" (fun
    | [n, a, b, p] =>
      let x := sec n a; let y := sec n b; let q := sec n p
      let l1 := s!"{hxl (boxedAddMod n x y q).val} {hxl (boxedSubMod n x y q).val} {hxl (boxedNegMod n x q).val}"
      let l0 := s!"{nhl n ((a + b) % p)} {nhl n ((a + p - b) % p)} {nhl n ((p - a) % p)}"
      s!"{l1} ;; {l0}"
    | _ => bad),
  op "c01.leak.boxed_bits" "dhdd" (fun
    | [n, a, i, v] =>
      let x := sec n a
      let l1 := s!"{mk (boxedBit n x (Sec.ofNat i)).val} {wd (boxedLeadingZeros n x).val} {wd (boxedTrailingZeros n x).val} {wd (trailingOnes n x).val} {wd (boxedBits n x).val} {hxl (boxedSetBit n x (Sec.ofNat i) (msk v)).val}"
      let bitv := a / 2 ^ i % 2
      let setv := if i < 64 * n then (if v = 1 then a ||| 2 ^ i else a - bitv * 2 ^ i) else a
      let l0 := s!"{bitv} {natToHex (lz n a)} {natToHex (tzN (64 * n) a)} {natToHex (toN (64 * n) a)} {natToHex (64 * n - lz n a)} {nhl n setv}"
      s!"{l1} ;; {l0}"
    | _ => bad),
  op "c01.leak.boxed_inv_mod2k" "dhd" (fun
    | [n, a, k] =>
      let r := (boxedInvMod2k n (sec n a) (Sec.ofNat k)).val; let v := (boxedInvMod2kVartime n (sec n a) k).val
      let some := decide (k = 0 ∨ a % 2 = 1)
      let kk := min k (64 * n)
      -- for an even `a` (k > 0) the crate still returns the bit pattern the loop produced: the model's value is the spec
      let ok (x : Nat) : Bool := a % 2 = 0 ∨ (x < 2 ^ kk ∧ x * a % 2 ^ kk = 1 % 2 ^ kk)
      let l0v (x : Nat) := if ok x then nhl n x else "no-inverse-found"
      s!"{hxl r.1} {mk r.2} {hxl v.1} {mk v.2} ;; {l0v (vl r.1)} {b01 some} {l0v (vl v.1)} {b01 some}"
    | _ => bad),
  op "c01.hook.boxed_shr1" "dh" (fun
    | [n, a] => s!"{hxl (boxedShr1 n (sec n a)).val} ;; {nhl n (a / 2)}"
    | _ => bad),
  -- ---- safegcd: UnsatInt arithmetic (u 62-bit limbs held in 64-bit words), jump, fg, de, divsteps (hooks), inv_odd_mod, gcd
  op "c01.hook.unsat" "dhhh" (fun
    | [u, a, b, o] =>
      let x := sec u a; let y := sec u b; let so := Sec.ofNat o
      let l1 := s!"{hx (unsatAdd u x y).val} {hx (unsatMul u x so).val} {hx (unsatNeg u x).val} {hx (unsatShr u x).val} {mk (unsatEq u x y).val} {mk (unsatIsNegative u x).val} {wd (unsatBits u x).val} {hx (unsatSelect u x y (msk (o % 2))).val}"
      let va := u62val u a; let vb := u62val u b; let ia := u62sgn u va
      let l0 := s!"{natToHex (u62enc u ((va + vb) % 2 ^ (62 * u)))} {natToHex (u62ofInt u (ia * s64 o))} {natToHex (u62ofInt u (-ia))} {natToHex (u62ofInt u (ia / ((2 ^ 62 : Nat) : Int)))} {b01 (va == vb)} {b01 (decide (ia < 0))} {natToHex (bitlen va)} {natToHex (if o % 2 = 1 then u62enc u vb else u62enc u va)}"
      s!"{l1} ;; {l0}"
    | _ => bad),
  op "c01.hook.unsat_conv" "dh" (fun
    | [n, a] =>
      let u := unsatLimbs n
      let c := (unsatFromUint n u (sec n a)).val
      s!"{hx c} {hx (unsatToUint u n c).val} ;; {natToHex (u62enc u a)} {natToHex a}"
    | _ => bad),
  op "c01.hook.jump" "hhh" (fun
    | [f, g, d] =>
      let r := (jumpFull (Sec.ofNat f) (Sec.ofNat g) (Sec.ofNat d)).val
      s!"{wd r.1} {wd r.2.1} {wd r.2.2.1} {wd r.2.2.2.1} {wd r.2.2.2.2}"
    | _ => bad),
  op "c01.hook.fgde" "dhhhhhhhhhh" (fun
    | [u, f, g, d, e, m, inv, t00, t01, t10, t11] =>
      let s := fun x => Sec.ofNat x
      let r := (fgStep u (sec u f) (sec u g) (s t00) (s t01) (s t10) (s t11)).val
      let q := (deStep u (sec u m) (s inv) (s t00) (s t01) (s t10) (s t11) (sec u d) (sec u e)).val
      let l1 := s!"{hx r.1} {hx r.2} {hx q.1} {hx q.2}"
      let iv := fun x => u62sgn u (u62val u x)
      -- the sums are formed modulo 2^(62u) (as `UnsatInt::add` wraps), then shifted arithmetically
      let sh := fun (i : Int) => natToHex (u62ofInt u (u62sgn u (i % ((2 ^ (62 * u) : Nat) : Int)).toNat / ((2 ^ 62 : Nat) : Int)))
      let dn : Int := if iv d < 0 then 1 else 0
      let en : Int := if iv e < 0 then 1 else 0
      let md := fun (a b : Int) =>
        let m0 := a * dn + b * en
        let dl : Nat := d % B % 2 ^ 62
        let el : Nat := e % B % 2 ^ 62
        let c : Nat := (w64 (a * (dl : Int) + b * (el : Int))) % 2 ^ 62
        let r : Nat := (w64 (s64 inv * (c : Int) + m0)) % 2 ^ 62
        m0 - (r : Int)
      let l0 := s!"{sh (s64 t00 * iv f + s64 t01 * iv g)} {sh (s64 t10 * iv f + s64 t11 * iv g)} {sh (s64 t00 * iv d + s64 t01 * iv e + md (s64 t00) (s64 t01) * iv m)} {sh (s64 t10 * iv d + s64 t11 * iv e + md (s64 t10) (s64 t11) * iv m)}"
      s!"{l1} ;; {l0}"
    | _ => bad),
  op "c01.hook.divsteps" "dhhhh" (fun
    | [u, e, f0, g, inv] =>
      let r := (divsteps u (sec u e) (sec u f0) (sec u g) (Sec.ofNat inv)).val
      s!"{hx r.1} {hx r.2}"
    | _ => bad),
  op "c01.leak.inv_odd_mod" "dhh" (fun   -- modulus odd
    | [n, m, v] =>
      let r := (safegcdInv n (sec n m) (sec n v)).val
      s!"{opt (hx r.1) r.2} ;; {match egcdInv v m with | some x => natToHex x | none => "none"}"
    | _ => bad),
  op "c01.leak.inv_mod" "dhh" (fun   -- any modulus
    | [n, m, v] =>
      let r := (uinvMod n (sec n v) (sec n m)).val
      s!"{opt (hx r.1) r.2} ;; {if m % B ^ n = 0 then "none" else match egcdInv v m with | some x => natToHex x | none => "none"}"
    | _ => bad),
  op "c01.leak.gcd" "dhh" (fun
    | [n, a, b] =>
      s!"{hx (ugcd n (sec n a) (sec n b)).val} ;; {natToHex (Nat.gcd a b)}"
    | _ => bad),
  -- ---- special-modulus forms, mul_mod, div_by_2, rem_limb, mac_by_limb, Montgomery parameters
  op "c01.leak.special" "dhhh" (fun      -- modulus 2^BITS − c, c ≠ 0, operands below it
    | [n, a, b, c] =>
      let x := sec n a; let y := sec n b; let sc := Sec.ofNat c; let p := B ^ n - c
      s!"{hx (addModSpecial n x y sc).val} {hx (subModSpecial n x y sc).val} {hx (mulModSpecial n x y sc).val} ;; {natToHex ((a + b) % p)} {natToHex ((a + p - b) % p)} {natToHex (a * b % p)}"
    | _ => bad),
  op "c01.leak.mul_mod" "dhhh" (fun      -- p odd, a < p
    | [n, a, b, p] =>
      let x := sec n a; let y := sec n b; let q := sec n p
      s!"{hx (mulMod n x y q).val} {hx (doubleMod n x q).val} ;; {natToHex (a * b % p)} {natToHex (2 * a % p)}"
    | _ => bad),
  op "c01.leak.mul_mod_vartime" "dhhh" (fun   -- p non-zero: `mul_mod_vartime` and the `MulMod` trait form
    | [n, a, b, p] =>
      let r := hx (mulModVartime n (sec n a) (sec n b) (sec n p)).val
      s!"{r} {r} ;; {natToHex (a * b % p)} {natToHex (a * b % p)}"
    | _ => bad),
  op "c01.leak.rem_limb" "dhh" (fun
    | [n, a, d] => s!"{wd (remLimb n (sec n a) (Sec.ofNat d)).val} ;; {natToHex (a % d)}"
    | _ => bad),
  op "c01.hook.mac_by_limb" "dhhhh" (fun
    | [n, a, b, c, d] => let r := (macByLimb n (sec n a) (sec n b) (Sec.ofNat c) (Sec.ofNat d)).val
      s!"{hx r.1} {wd r.2} ;; {natToHex ((a + b * c + d) % B ^ n)} {natToHex ((a + b * c + d) / B ^ n)}"
    | _ => bad),
  op "c01.hook.monty_params" "dh" (fun   -- m odd
    | [n, m] => let r := (montyParamsNew n (sec n m)).val
      s!"{hx r.1} {hx r.2.1} {hx r.2.2.1} {wd r.2.2.2.1} {wd r.2.2.2.2} ;; {natToHex (B ^ n % m)} {natToHex (B ^ (2 * n) % m)} {natToHex (B ^ (3 * n) % m)} {natToHex (negInv64 m)} {natToHex (min (lz n m) 63)}"
    | _ => bad),
  op "c01.hook.div_by_2" "dhh" (fun      -- m odd, a < m
    | [n, a, m] =>
      let v := natToHex (if a % 2 = 0 then a / 2 else (a + m) / 2)
      s!"{hx (divBy2 n (sec n a) (sec n m)).val} {hx (divBy2Boxed n (sec n a) (sec n m)).val} ;; {v} {v}"
    | _ => bad)
]

/-- ops with a variable number of operands -/
def varOps (op : String) (args : List String) : Option String :=
  match op, args with
  -- `c01.hook.lincomb n mlz m a1 b1 a2 b2 …`: m odd, operands < m, mlz ≤ leading zeros of m: `lincomb_monty_form` (hook, chosen
  -- window) and the public `MontyForm::lincomb_vartime` when mlz is the parameter set's own
  | "c01.hook.lincomb", n :: mlz :: m :: rest =>
    match n.toNat?, mlz.toNat?, hexToNat? m, rest.mapM hexToNat? with
    | some n, some mlz, some m, some vs =>
      if vs.length % 2 = 1 then badArgs else
      let r := B ^ n
      let ni := Sec.ofNat (negInv64 m)
      let pairs := (List.range (vs.length / 2)).map fun i => (vs.getD (2 * i) 0, vs.getD (2 * i + 1) 0)
      let ab := pairs.map fun (a, b) => (sec n (a * r % m), sec n (b * r % m))
      let res := (lincombMonty n pairs.length ab (sec n m) ni mlz).val
      some s!"{hx (montyRetrieve n res (sec n m) ni).val} ;; {natToHex (pairs.foldl (fun acc (a, b) => acc + a * b) 0 % m)}"
    | _, _, _, _ => badArgs
  -- `c01.leak.multi_exp n ebits m b1 e1 b2 e2 …`: m odd, bases < m
  | "c01.leak.multi_exp", n :: ebits :: m :: rest =>
    match n.toNat?, ebits.toNat?, hexToNat? m, rest.mapM hexToNat? with
    | some n, some ebits, some m, some vs =>
      if vs.length % 2 = 1 then badArgs else
      let r := B ^ n
      let ni := Sec.ofNat (negInv64 m)
      let pairs := (List.range (vs.length / 2)).map fun i => (vs.getD (2 * i) 0, vs.getD (2 * i + 1) 0)
      let bes := pairs.map fun (b, e) => (sec n (b * r % m), sec n e)
      let res := (multiExp n pairs.length bes ebits (sec n m) (sec n (r % m)) ni).val
      some s!"{hx (montyRetrieve n res (sec n m) ni).val} ;; {natToHex (pairs.foldl (fun acc (b, e) => acc * powMod b (e % 2 ^ ebits) m % m) (1 % m))}"
    | _, _, _, _ => badArgs
  -- `c01.leak.random_mod n m w0 w1 …`: the RNG replays the words w_i; m non-zero; enough words for the draw to end
  | "c01.leak.random_mod", n :: m :: rest =>
    match n.toNat?, hexToNat? m, rest.mapM hexToNat? with
    | some n, some m, some ws =>
      let nl := (bitlen m + 63) / 64
      let himod := m / B ^ (nl - 1) % B
      let mask := (B - 1) / 2 ^ (64 - bitlen himod)
      -- specification: the first candidate (high word re-drawn until ≤ the modulus' high word, then the low words in order) below m
      let rec spec (fuel hi : Nat) (s : List Nat) : String :=
        match fuel with
        | 0 => "stream-exhausted"
        | f + 1 =>
          if hi > himod then spec f (s.headD 0 &&& mask) (s.drop 1)
          else
            let cand := hi * B ^ (nl - 1) + val (s.take (nl - 1))
            if cand < m then natToHex cand else spec f ((s.drop (nl - 1)).headD 0 &&& mask) (s.drop nl)
      some s!"{hx (randomMod n ws.length (sec n m) (ws.map Sec.ofNat)).val} ;; {spec ws.length (ws.headD 0 &&& mask) (ws.drop 1)}"
    | _, _, _ => badArgs
  | _, _ => none

def parse (sig : String) (args : List String) : Option (List Nat) :=
  if sig.length ≠ args.length then none else
  (sig.toList.zip args).mapM fun (c, a) => if c = 'd' then a.toNat? else hexToNat? a

end D01

/-- operations of property C01 (op names start with `c01.`) -/
def dispatchC01 : Dispatch := fun op args =>
  match D01.ops.find? (fun e => e.1 == op) with
  | none => D01.varOps op args
  | some (_, sig, f) =>
    match D01.parse sig args with
    | some l => some (f l)
    | none => badArgs

end CB
