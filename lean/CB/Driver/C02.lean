import CB.Driver.Util
namespace CB

/-- operations of property C02 (op names start with `c02.`) -/
def dispatchC02 : Dispatch := fun _ _ => none

end CB
