import CB.Driver.Util
import CB.Model.Div
namespace CB
open CB.Div

/-! Driver of property C02.  Every public operation prints `L1 ;; L0`:
    L1 = the limb-level model (`CB.Model.DivLimb`, `CB.Model.Div`), L0 = `n / d`, `n % d` on `Nat`. -/

private def hexW (n : Nat) (x : Nat) : String := natToHex (x % B ^ n)

/-- print `<nlimbs>:<hex>` of a value in `n` limbs -/
private def lenHex (n : Nat) (x : Nat) : String := s!"{n}:{natToHex (x % B ^ n)}"

private def both (l1 l0 : String) : Option String := some (l1 ++ " ;; " ++ l0)

private def qr (p : List Nat × List Nat) : String := s!"{limbsHex p.1} {limbsHex p.2}"
private def qrLen (p : List Nat × List Nat) : String := s!"{limbsHexLen p.1} {limbsHexLen p.2}"

private def optHex : Option (List Nat) → String
  | some v => limbsHex v
  | none => "none"

/-- fixed-width ops `c02.u.<name> L n d` -/
private def fixedOp (name : String) (L n d : Nat) : Option String :=
  let a := toLimbs L n
  let b := toLimbs L d
  let q0 := hexW L (n / d)
  let r0 := hexW L (n % d)
  if name = "checked_div" then
    both (optHex (checkedDiv a b)) (if d = 0 then "none" else q0)
  else if name = "checked_rem" then
    both (optHex (checkedRem a b)) (if d = 0 then "none" else r0)
  else if d = 0 then
    -- `Uint / Uint`, `Uint % Uint`, `wrapping_rem_vartime` document a panic for a zero divisor;
    -- every other form takes `NonZero`, whose constructor yields none
    if name = "op_div_uint" ∨ name = "op_rem_uint" ∨ name = "wrapping_rem_vartime" then both "panic" "panic"
    else both "none" "none"
  else match name with
  | "div_rem" => both (qr (divRemCt a b)) s!"{q0} {r0}"
  | "div_forms" => both (limbsHex (wrappingDiv a b) ++ " ok") (q0 ++ " ok")
  | "rem_forms" => both (limbsHex (urem a b) ++ " ok") (r0 ++ " ok")
  | "op_div_uint" => both (limbsHex (wrappingDiv a b) ++ " ok") (q0 ++ " ok")
  | "op_rem_uint" => both (limbsHex (urem a b) ++ " ok") (r0 ++ " ok")
  | "div_rem_vartime" => both (qr (divRemVartime a b) ++ " ok") s!"{q0} {r0} ok"
  | "wrapping_rem_vartime" => both (limbsHex (remVartime a b)) r0
  | _ => none

/-- boxed ops `c02.b.<name> NL DL n d` -/
private def boxedOp (name : String) (NL DL n d : Nat) : Option String :=
  let a := toLimbs NL n
  let b := toLimbs DL d
  let q0 := lenHex NL (n / d)
  let r0 := lenHex DL (n % d)
  if name = "checked_div" ∨ name = "checked_div_mixed" then
    -- with debug assertions `ct_select` asserts equal precision first: `<release> ## <dbgchk>`
    both ((match boxedCheckedDiv a b with
          | some (some p) => limbsHexLen p
          | some none => "none"
          | none => "panic") ++ (if NL = DL then "" else " ## panic")) (if d = 0 then "none" else q0)
  else if d = 0 then both "none" "none"
  else match name with
  | "div_rem" | "div_rem_mixed" =>
    both (match boxedDivRem a b with | some p => qrLen p | none => "panic") s!"{q0} {r0}"
  | "div_forms" | "div_forms_mixed" =>
    both (match boxedDivRem a b with | some p => limbsHexLen p.1 ++ " ok" | none => "panic") (q0 ++ " ok")
  | "rem_forms" | "rem_forms_mixed" =>
    both (match boxedDivRem a b with | some p => limbsHexLen p.2 ++ " ok" | none => "panic") (r0 ++ " ok")
  | "div_rem_vartime" => both (qrLen (boxedDivRemVartime a b) ++ " ok") s!"{q0} {r0} ok"
  | "rem_vartime" => both (limbsHexLen (boxedRemVartime a b)) r0
  | _ => none

private def nat4 (a b c d : String) (f : Nat → Nat → Nat → Nat → Option String) : Option String :=
  match a.toNat?, b.toNat?, hexToNat? c, hexToNat? d with
  | some a, some b, some c, some d => f a b c d
  | _, _, _, _ => badArgs

def dispatchC02 : Dispatch := fun op args =>
  match op.splitOn ".", args with
  -- `Reciprocal::new(d)` observed through its `Debug` output: divisor_normalized shift reciprocal
  | ["c02", "recip"], [d] =>
    match hexToNat? d with
    | some d =>
      if d = 0 then some "none" else
      let rc := Reciprocal.new d
      both s!"{natToHex rc.divisorNormalized} {rc.shift} {natToHex rc.reciprocal}"
           s!"{natToHex rc.divisorNormalized} {rc.shift} {natToHex (reciprocalSpec rc.divisorNormalized)}"
    | none => badArgs
  -- `div2by1(u1, u0, Reciprocal::new(d))`, `d ≥ 2^63`, `u1 < d` (observed through a two-limb division)
  | ["c02", "div2by1"], [u1, u0, d] =>
    match hexToNat? u1, hexToNat? u0, hexToNat? d with
    | some u1, some u0, some d =>
      if d < HALF ∨ u1 ≥ d then badArgs else
      let r := div2by1 u1 u0 (Reciprocal.new d)
      both s!"{natToHex r.1} {natToHex r.2}" s!"{natToHex ((u1 * B + u0) / d)} {natToHex ((u1 * B + u0) % d)}"
    | _, _, _ => badArgs
  -- hook-level (crate-internal) functions (`crypto_bigint::verif_hooks`)
  -- `short_div(dividend, dividend_bits, divisor, divisor_bits)`: L0 = `dividend / divisor` on the function's
  -- contract (`dividend < 2^dividend_bits`, `divisor` of exactly `divisor_bits` bits, `dividend_bits ≤ 32`);
  -- outside it only the mirror L1.  Lines with `dividend_bits < divisor_bits` or a shift `≥ 32` are not
  -- generated (release wraps the subtraction / masks the shift amount, dbgchk panics).
  | ["c02", "hook", "short_div"], [x, xb, y, yb] =>
    match hexToNat? x, xb.toNat?, hexToNat? y, yb.toNat? with
    | some x, some xb, some y, some yb =>
      if x ≥ U32 ∨ y ≥ U32 ∨ xb < yb ∨ xb - yb ≥ 32 then badArgs else
      let l1 := natToHex (shortDiv x xb y yb)
      if xb ≤ 32 ∧ x < 2 ^ xb ∧ 0 < y ∧ y < 2 ^ yb ∧ 2 ^ yb ≤ 2 * y then both l1 (natToHex (x / y)) else some l1
    | _, _, _, _ => badArgs
  -- `Reciprocal::new(d).verif_fields()` (also compared with the Debug output, `shift()` and `reciprocal(dn)`
  -- in the harness): L0 = `(d·2^lz, lz, ⌊(B²−1)/dn⌋ − B)`
  | ["c02", "hook", "recip_fields"], [d] =>
    match hexToNat? d with
    | some d =>
      if d = 0 then some "none" else if d ≥ B then badArgs else
      let rc := Reciprocal.new d
      let lz := 64 - (Nat.log2 d + 1)
      both s!"{natToHex rc.divisorNormalized} {rc.shift} {natToHex rc.reciprocal}"
           s!"{natToHex (d * 2 ^ lz)} {lz} {natToHex (reciprocalSpec (d * 2 ^ lz))}"
    | none => badArgs
  -- raw `reciprocal(d)`, `d ≥ 2^63`
  | ["c02", "hook", "reciprocal"], [d] =>
    match hexToNat? d with
    | some d =>
      -- `debug_assert!(d >= 1 << 63)`: only normalised divisors are generated
      if d ≥ B ∨ d < HALF then badArgs else both (natToHex (reciprocalImpl d)) (natToHex (reciprocalSpec d))
    | none => badArgs
  -- `div2by1(u1, u0, Reciprocal::new(d))` for ANY non-zero `d`: L0 (contract `u1 < dn`) divides by the normalised divisor
  | ["c02", "hook", "div2by1"], [u1, u0, d] =>
    match hexToNat? u1, hexToNat? u0, hexToNat? d with
    | some u1, some u0, some d =>
      if d = 0 then some "none" else
      let rc := Reciprocal.new d
      let dn := rc.divisorNormalized
      if u1 ≥ dn ∨ u0 ≥ B then badArgs else
      let r := div2by1 u1 u0 rc
      both s!"{natToHex r.1} {natToHex r.2}" s!"{natToHex ((u1 * B + u0) / dn)} {natToHex ((u1 * B + u0) % dn)}"
    | _, _, _ => badArgs
  -- `div3by2(u2, u1, u0, Reciprocal::new(v1), v0)`, `v1 ≥ 2^63`, `u2 ≤ v1`: L0 = min(⌊u / v⌋, B − 1)
  | ["c02", "hook", "div3by2"], [u2, u1, u0, v1, v0] =>
    match hexToNat? u2, hexToNat? u1, hexToNat? u0, hexToNat? v1, hexToNat? v0 with
    | some u2, some u1, some u0, some v1, some v0 =>
      if v1 < HALF ∨ v1 ≥ B ∨ u2 > v1 ∨ u1 ≥ B ∨ u0 ≥ B ∨ v0 ≥ B then badArgs else
      both (natToHex (div3by2 u2 u1 u0 (Reciprocal.new v1) v0))
           (natToHex (min (((u2 * B + u1) * B + u0) / (v1 * B + v0)) (B - 1)))
    | _, _, _, _, _ => badArgs
  -- `Reciprocal::default()` / `conditional_select` used in a subsequent division:
  -- c bit 0 = choice, bit 1 = operand order; the selected divisor is `d` or `Word::MAX`
  | ["c02", "u", "recip_select"], [l, n, d, c] | ["c02", "b", "recip_select"], [l, n, d, c] =>
    match l.toNat?, hexToNat? n, hexToNat? d, c.toNat? with
    | some L, some n, some d, some c =>
      if d = 0 then some "none" else if d ≥ B ∨ c ≥ 4 ∨ L = 0 then badArgs else
      let boxed := op = "c02.b.recip_select"
      let fresh := Reciprocal.new d
      let a := if c / 2 = 0 then fresh else Reciprocal.dflt
      let b := if c / 2 = 0 then Reciprocal.dflt else fresh
      -- `Word::conditional_select(&a.f, &b.f, choice)` per field
      let rc : Reciprocal := if c % 2 = 1 then b else a
      let dsel := if (c % 2 = 1) = (c / 2 = 0) then WMAX else d
      let lz := 64 - (Nat.log2 dsel + 1)
      let u := toLimbs L n
      let r := divRemLimbWithReciprocal u rc
      let rr := if boxed then boxedRemLimbWithReciprocal u rc else remLimbWithReciprocal u rc
      let q1 := if boxed then limbsHexLen r.1 else limbsHex r.1
      let q0 := if boxed then lenHex L (n / dsel) else hexW L (n / dsel)
      if rr ≠ r.2 then some "model-forms-differ" else
      both s!"{natToHex rc.divisorNormalized} {rc.shift} {natToHex rc.reciprocal} {q1} {natToHex r.2} ok"
           s!"{natToHex (dsel * 2 ^ lz)} {lz} {natToHex (reciprocalSpec (dsel * 2 ^ lz))} {q0} {natToHex (n % dsel)} ok"
    | _, _, _, _ => badArgs
  -- single-limb divisor, fixed: `c02.u.<name> L n d`
  | ["c02", "u", "div_rem_limb"], [l, n, d] =>
    match l.toNat?, hexToNat? n, hexToNat? d with
    | some L, some n, some d =>
      if d = 0 then some "none" else
      let r := divRemLimb (toLimbs L n) d
      let rr := remLimb (toLimbs L n) d
      both s!"{limbsHex r.1} {natToHex r.2} {natToHex rr} ok" s!"{hexW L (n / d)} {natToHex (n % d)} {natToHex (n % d)} ok"
    | _, _, _ => badArgs
  | ["c02", "b", "div_rem_limb"], [l, n, d] =>
    match l.toNat?, hexToNat? n, hexToNat? d with
    | some L, some n, some d =>
      if d = 0 then some "none" else
      let r := divRemLimb (toLimbs L n) d
      let rr := boxedRemLimb (toLimbs L n) d
      both s!"{limbsHexLen r.1} {natToHex r.2} {natToHex rr} ok" s!"{lenHex L (n / d)} {natToHex (n % d)} {natToHex (n % d)} ok"
    | _, _, _ => badArgs
  | ["c02", "u", "rem_wide_vartime"], [l, lo, hi, d] =>
    match l.toNat?, hexToNat? lo, hexToNat? hi, hexToNat? d with
    | some L, some lo, some hi, some d =>
      if d = 0 then some "none" else
      both (limbsHex (remWideVartime (toLimbs L lo) (toLimbs L hi) (toLimbs L d)))
           (hexW L ((lo % B ^ L + B ^ L * (hi % B ^ L)) % d))
    | _, _, _, _ => badArgs
  | ["c02", "u", "rem2k_vartime"], [l, n, k] =>
    match l.toNat?, hexToNat? n, k.toNat? with
    | some L, some n, some k =>
      both (limbsHex (rem2kVartime (toLimbs L n) k)) (hexW L (n % 2 ^ k))
    | _, _, _ => badArgs
  -- mixed widths: `c02.u.<name> L R n d`
  | ["c02", "u", "div_rem_vartime_mixed"], [l, r, n, d] => nat4 l r n d fun L R n d =>
      if d = 0 then some "none" else
      both (qr (divRemVartime (toLimbs L n) (toLimbs R d))) s!"{hexW L (n / d)} {hexW R (n % d)}"
  | ["c02", "u", "rem_mixed"], [l, r, n, d] => nat4 l r n d fun L R n d =>
      if d = 0 then some "none" else
      both (limbsHex (divRemVartime (toLimbs L n) (toLimbs R d)).2) (hexW R (n % d))
  | ["c02", "u", name], [l, n, d] =>
    match l.toNat?, hexToNat? n, hexToNat? d with
    | some L, some n, some d => fixedOp name L n d
    | _, _, _ => badArgs
  | ["c02", "b", name], [nl, dl, n, d] => nat4 nl dl n d fun NL DL n d => boxedOp name NL DL n d
  | _, _ => none

end CB
