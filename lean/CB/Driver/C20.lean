/-
  CB.Driver.C20 — op lines of property C20 (integer square root).
    c20.u.<form> <limbs> <hex>     Uint<limbs>      → `<hex>` | `none` | `panic`
    c20.b.<form> <limbs> <hex>     BoxedUint        → `<limbs>:<hex>` | `none`
    c20.{u,b}.rounds <limbs> <hex> → `<j> <log2_bits>`: least `j` with Newton iterate `x_j = ⌊√x⌋`
                                     from the code's initial guess (the fixed count is log2_bits + 2)
  Every sqrt line is printed as `L1 ;; L0` (L1 = model mirroring the code, L0 = `Nat.sqrt`).
-/
import CB.Driver.Util
import CB.Model.Sqrt
namespace CB
open CB.Sqrt

private def c20arg (n x : String) : Option (List Nat) :=
  match n.toNat?, hexToNat? x with
  | some n, some x => if n = 0 ∨ x ≥ B ^ n then none else some (toLimbs n x)
  | _, _ => none

private def fixedTok : Option (List Nat) → String
  | none => "panic"
  | some r => limbsHex r

private def fixedCheckedTok : Option (List Nat × Bool) → String
  | none => "panic"
  | some (r, ok) => if ok then limbsHex r else "none"

private def boxedTok : Option (List Nat) → String
  | none => "nofuel"
  | some r => limbsHexLen r

private def boxedCheckedTok : Option (List Nat × Bool) → String
  | none => "nofuel"
  | some (r, ok) => if ok then limbsHexLen r else "none"

/-- L0: what the property demands -/
private def specSqrt (a : List Nat) (boxed : Bool) : String :=
  let s := Nat.sqrt (val a)
  if boxed then s!"{a.length}:{natToHex s}" else natToHex s

private def specChecked (a : List Nat) (boxed : Bool) : String :=
  let s := Nat.sqrt (val a)
  if s * s = val a then (if boxed then s!"{a.length}:{natToHex s}" else natToHex s) else "none"

/-- least `j ≤ fuel` with `x_j = ⌊√v⌋` (pure Newton iterates), counting from `j`. -/
private def hitIndex (v s : Nat) : Nat → Nat → Nat → Nat
  | 0, j, _ => j
  | f + 1, j, x => if x = s then j else hitIndex v s f (j + 1) (newton v x)

def dispatchC20 : Dispatch := fun op args =>
  match args with
  | [n, x] =>
    match (op.splitOn "."), c20arg n x with
    | ["c20", _, _], none => badArgs
    | ["c20", "u", form], some a =>
      let two (l1 l0 : String) := some (l1 ++ " ;; " ++ l0)
      match form with
      | "sqrt" | "trait_sqrt" => two (fixedTok (uintSqrt a)) (specSqrt a false)
      | "sqrt_vartime" | "trait_sqrt_vartime" => two (fixedTok (uintSqrtVartime a)) (specSqrt a false)
      | "wrapping_sqrt" => two (fixedTok (uintWrappingSqrt a)) (specSqrt a false)
      | "wrapping_sqrt_vartime" => two (fixedTok (uintWrappingSqrtVartime a)) (specSqrt a false)
      | "checked_sqrt" => two (fixedCheckedTok (uintCheckedSqrt a)) (specChecked a false)
      | "checked_sqrt_vartime" => two (fixedCheckedTok (uintCheckedSqrtVartime a)) (specChecked a false)
      | "rounds" =>
        match sqrtInit a.length (val a) with
        | none => some "panic"
        | some x0 => some s!"{hitIndex (val a) (Nat.sqrt (val a)) 200 0 x0} {log2Bits a.length}"
      | _ => none
    | ["c20", "b", form], some a =>
      let two (l1 l0 : String) := some (l1 ++ " ;; " ++ l0)
      match form with
      | "sqrt" | "trait_sqrt" => two (limbsHexLen (boxedSqrt a)) (specSqrt a true)
      | "sqrt_vartime" | "trait_sqrt_vartime" => two (boxedTok (boxedSqrtVartime a)) (specSqrt a true)
      | "wrapping_sqrt" => two (limbsHexLen (boxedWrappingSqrt a)) (specSqrt a true)
      | "wrapping_sqrt_vartime" => two (boxedTok (boxedWrappingSqrtVartime a)) (specSqrt a true)
      | "checked_sqrt" =>
        let r := boxedCheckedSqrt a
        two (if r.2 then limbsHexLen r.1 else "none") (specChecked a true)
      | "checked_sqrt_vartime" => two (boxedCheckedTok (boxedCheckedSqrtVartime a)) (specChecked a true)
      | "rounds" =>
        some s!"{hitIndex (val a) (Nat.sqrt (val a)) 200 0 (bsqrtInit a.length (val a))} {log2Bits a.length}"
      | _ => none
    | _, _ => none
  | _ => if op.startsWith "c20." then badArgs else none

end CB
