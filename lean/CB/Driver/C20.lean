import CB.Driver.Util
namespace CB

/-- operations of property C20 (op names start with `c20.`) -/
def dispatchC20 : Dispatch := fun _ _ => none

end CB
