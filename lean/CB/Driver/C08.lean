import CB.Driver.Util
namespace CB

/-- operations of property C08 (op names start with `c08.`) -/
def dispatchC08 : Dispatch := fun _ _ => none

end CB
