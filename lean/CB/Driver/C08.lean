/-
  CB.Driver.C08 — line protocol of property C08 (Montgomery forms over operation histories).

    c08.hist <kind> <n> <modulus> <step;step;…>     kind ∈ dyn dynv const boxed boxedv
        step = name[.form],arg,…   (see `parseStep`); prints `mod=<m>` and, after every step,
        `<montgomery form>:<retrieve()>` of the value the step produced or overwrote
    c08.params <kind> <n> <modulus>                 the six parameter fields
    c08.params_eq <n> <modulus>                     constructor agreement (1/0 flags)
    c08.redc <n> <lower> <upper> <modulus> <k>      public `montgomery_reduction`
    c08.mul_mod <kind> <n> <a> <b> <p>              `Uint::mul_mod` / `BoxedUint::mul_mod`
    c08.hook.amm / c08.hook.amm_by_one / c08.hook.redc_inner / c08.hook.params   crate-internal functions (verif_hooks)
    c08.params_cteq <n> <m1> <m2>                   `ConstantTimeEq` of `MontyParams` / `MontyForm` across parameter sets
  Coverage round (CB.Model.MontyX): further steps of `c08.hist`
        frommont,v  setmont,i,v  lincomb.t,i,j,i,j,…  zeroize,i  eq,i,j  obs.<t|tm|p|pt|z|bp>,i
    (`new.t`, `new.arc`, `zero.t`, `zero.d`, `zero.z`, `one.t` are surface forms of `new/zero/one`); some of them
    append `|<extra>` to the step's token (see `Extra`); kinds `dynt`, `boxedt` = `Monty::new_params_vartime`.
  Every line is printed as `L1 ;; L0` (L1 = limb model, L0 = what the property demands).
-/
import CB.Driver.Util
import CB.Model.MontyX
namespace CB.Monty
open CB

def decArgs (l : List String) : Option (List Nat) := l.mapM String.toNat?

/-- one history step: `name[.form],args` → `MontyOp` (the `.form` suffix names the Rust surface form). -/
def parseStep (s : String) : Option MontyOp :=
  match s.splitOn "," with
  | [] => none
  | nameForm :: args =>
    let name := (nameForm.splitOn ".").head!
    match name, args with
    | "new", [v] => (hexToNat? v).map MontyOp.new
    | "zero", [] => some .zero
    | "one", [] => some .one
    | "conv", [] => some .conv
    | "select", [i, j, c] =>
      match i.toNat?, j.toNat?, c with
      | some i, some j, "0" => some (.select i j false)
      | some i, some j, "1" => some (.select i j true)
      | _, _, _ => none
    | _, _ =>
      let form := ((nameForm.splitOn ".").drop 1).headD ""
      let assign := form = "a" || form = "av" || form = "mm" || form = "ai"
      match name, decArgs args with
      | "add", some [i, j] => some (if assign then .addAssign i j else .add i j)
      | "sub", some [i, j] => some (if assign then .subAssign i j else .sub i j)
      | "mul", some [i, j] => some (if assign then .mulAssign i j else .mul i j)
      | "neg", some [i] => some (.neg i)
      | "double", some [i] => some (.double i)
      | "square", some [i] => some (if assign then .squareAssign i else .square i)
      | "div2", some [i] => some (if assign then .div2Assign i else .div2 i)
      | "copy", some [i, j] => some (.copyFrom i j)
      | _, _ => none

def handlesOk (len : Nat) : MontyOp → Bool
  | .add i j | .sub i j | .mul i j | .addAssign i j | .subAssign i j | .mulAssign i j
  | .select i j _ | .copyFrom i j => i < len && j < len
  | .neg i | .double i | .square i | .div2 i | .squareAssign i | .div2Assign i => i < len
  | .conv => 0 < len
  | _ => true

def kindInit (kind : String) (ms : List Nat) : Option (Rep × Params) :=
  match kind with
  | "dyn" => some (.dyn, paramsNew ms)
  | "dynv" => some (.dyn, paramsNewVartime ms)
  | "const" => some (.const, paramsConst ms)
  | "boxed" => some (.boxed, paramsBoxed ms)
  | "boxedv" => some (.boxed, paramsBoxed ms)
  -- `<MontyForm as Monty>::new_params_vartime` / `<BoxedMontyForm as Monty>::new_params_vartime`
  | "dynt" => some (.dyn, paramsNewVartime ms)
  | "boxedt" => some (.boxed, paramsBoxed ms)
  | _ => none

/-! ### coverage round: extended steps -/

/-- what a step appends to its `form:retrieve` token. -/
inductive Extra where
  | none
  | params        -- `|mod=…,one=…,r2=…,r3=…,k=…,lz=…` read through `params()` / `Monty::params()`
  | isZero        -- `|z=<is_zero>[<is_nonzero>]`
  | bits          -- `|bits=<bits_precision()>`
  | eq (j : Nat)  -- `|eq=<ct_eq / ==>` against handle `j`
  | zeroized      -- runtime form only: `|zp=<the zeroized parameter fields>`

def paramsTokC (p : Params) : String :=
  s!"mod={limbsHex p.modulus},one={limbsHex p.one},r2={limbsHex p.r2},r3={limbsHex p.r3},k={natToHex p.modNegInv},lz={p.modLeadingZeros}"

def pairsOf : List Nat → Option (List (Nat × Nat))
  | [] => some []
  | i :: j :: rest => (pairsOf rest).map ((i, j) :: ·)
  | _ => none

def parseStepX (s : String) : Option (XOp × Extra) :=
  match s.splitOn "," with
  | [] => none
  | nameForm :: args =>
    let name := (nameForm.splitOn ".").head!
    let form := ((nameForm.splitOn ".").drop 1).headD ""
    match name, args with
    | "obs", [i] =>
      match i.toNat?, form with
      | some i, "t" | some i, "tm" => some (.observe i, .none)
      | some i, "p" | some i, "pt" => some (.observe i, .params)
      | some i, "z" => some (.observe i, .isZero)
      | some i, "bp" => some (.observe i, .bits)
      | _, _ => none
    | "eq", [i, j] =>
      match i.toNat?, j.toNat? with
      | some i, some j => some (.observe i, .eq j)
      | _, _ => none
    | "frommont", [v] => (hexToNat? v).map fun v => (.fromMont v, .none)
    | "setmont", [i, v] =>
      match i.toNat?, hexToNat? v with
      | some i, some v => some (.setMont i v, .none)
      | _, _ => none
    | "lincomb", _ =>
      match decArgs args with
      | some l => (pairsOf l).map fun ps => (.lincomb ps, .none)
      | none => none
    | "zeroize", [i] => i.toNat?.map fun i => (.zeroize i, .zeroized)
    | _, _ => (parseStep s).map fun op => (.base op, .none)

def handlesOkX (len : Nat) : XOp × Extra → Bool
  | (.base op, _) => handlesOk len op
  | (.fromMont _, _) => true
  | (.setMont i _, _) | (.zeroize i, _) => i < len
  | (.lincomb ps, _) => !ps.isEmpty && ps.all fun p => p.1 < len && p.2 < len
  | (.observe i, .eq j) => i < len && j < len
  | (.observe i, _) => i < len

def bitTok (x : Bool) : String := if x then "1" else "0"

def extraL1 (st : State) (v : List Nat) : Extra → String
  | .none => ""
  | .params => "|" ++ paramsTokC st.params
  | .isZero =>
    match st.rep with
    | .boxed => s!"|z={bitTok (formIsZero v)}{bitTok (!formIsZero v)}"
    | _ => s!"|z={bitTok (formIsZero v)}"
  | .bits => s!"|bits={64 * st.n}"
  | .eq j => s!"|eq={bitTok (formCtEq st v (st.get j))}"
  | .zeroized =>
    match st.rep with
    | .dyn => "|zp=" ++ paramsTokC (zeroizeParams st.params)
    | _ => ""

/-- run the extended history on the limb model, one output token per step. -/
def histL1X (st : State) : List (XOp × Extra) → List String → Option (List String)
  | [], acc => some acc.reverse
  | (op, ex) :: ops, acc =>
    if !handlesOkX st.store.length (op, ex) then none else
    let idx := affectedX st op
    let st' := stepX st op
    let v := st'.get idx
    histL1X st' ops (s!"{limbsHex v}:{limbsHex (opRetrieve st' v)}{extraL1 st' v ex}" :: acc)

def repAfter (rep : Rep) : XOp → Rep
  | .base .conv => match rep with | .const => .dyn | _ => .boxed
  | _ => rep

def extraL0 (n m : Nat) (rep : Rep) (sp : List Nat) (x : Nat) : Extra → String
  | .none => ""
  | .params => "|" ++ paramsTokC (paramsSpec n m)
  | .isZero =>
    match rep with
    | .boxed => s!"|z={bitTok (x == 0)}{bitTok (x != 0)}"
    | _ => s!"|z={bitTok (x == 0)}"
  | .bits => s!"|bits={64 * n}"
  | .eq j => s!"|eq={bitTok (x == sget sp j)}"
  | .zeroized =>
    match rep with
    | .dyn => "|zp=mod=0,one=0,r2=0,r3=0,k=0,lz=0"
    | _ => ""

/-- the same extended history on residues. -/
def histL0X (n m : Nat) (rep : Rep) (sp : List Nat) : List (XOp × Extra) → List String → List String
  | [], acc => acc.reverse
  | (op, ex) :: ops, acc =>
    let len := sp.length
    let idx := match op with
      | .base (.addAssign i _) | .base (.subAssign i _) | .base (.mulAssign i _) | .base (.squareAssign i)
      | .base (.div2Assign i) | .base (.copyFrom i _) => i
      | .base .conv => len - 1
      | .setMont i _ | .zeroize i | .observe i => i
      | _ => len
    let sp' := stepSpecX n m sp op
    let rep' := repAfter rep op
    let x := sget sp' idx
    histL0X n m rep' sp' ops (s!"{limbsHex (canon n m x)}:{natToHex x}{extraL0 n m rep' sp' x ex}" :: acc)

def paramsTok (p : Params) : String :=
  s!"mod={limbsHex p.modulus} one={limbsHex p.one} r2={limbsHex p.r2} r3={limbsHex p.r3} k={natToHex p.modNegInv} lz={p.modLeadingZeros}"

/-- `−m⁻¹ mod 2^(64 n)` by Newton doubling (value level; only used for the L0 of `c08.redc`). -/
def negInvFull (n m : Nat) : Nat :=
  let R := B ^ n
  let stp := fun x => (x * ((R + 2 - (m * x) % R) % R)) % R
  let x := (List.range 13).foldl (fun x _ => stp x) (m % R)
  (R - x) % R

end CB.Monty

namespace CB
open CB.Monty

def dispatchC08 : Dispatch := fun op args =>
  match op, args with
  | "c08.hist", [kind, n, m, ops] =>
    match n.toNat?, hexToNat? m with
    | some n, some m =>
      let ms := toLimbs n m
      match kindInit kind ms, (ops.splitOn ";").mapM parseStepX with
      | some (rep, p), some ops =>
        match histL1X { rep := rep, params := p, store := [] } ops [] with
        | some l1 =>
          let l0 := histL0X n m rep [] ops []
          some (s!"mod={natToHex m} " ++ " ".intercalate l1 ++ " ;; " ++ s!"mod={natToHex m} " ++ " ".intercalate l0)
        | none => badArgs
      | _, _ => badArgs
    | _, _ => badArgs
  | "c08.params", [kind, n, m] =>
    match n.toNat?, hexToNat? m with
    | some n, some m =>
      let ms := toLimbs n m
      let p? : Option Params := match kind with
        | "dyn" => some (paramsNew ms)
        | "dynv" | "dynt" => some (paramsNewVartime ms)
        | "const" | "dynfromconst" | "boxedfromconst" => some (paramsConst ms)
        | "boxed" | "boxedv" | "boxedt" => some (paramsBoxed ms)
        | _ => none
      match p? with
      | some p => some (paramsTok p ++ " ;; " ++ paramsTok (paramsSpec n m))
      | none => badArgs
    | _, _ => badArgs
  | "c08.params_eq", [n, m] =>
    match n.toNat?, hexToNat? m with
    | some n, some m =>
      let ms := toLimbs n m
      let b := fun (x : Bool) => if x then "1" else "0"
      some (s!"{b (decide (paramsNew ms = paramsNewVartime ms))} {b (decide (paramsBoxed ms = paramsBoxed ms))} {b (decide (paramsNew ms = paramsBoxed ms))} ;; 1 1 1")
    | _, _ => badArgs
  | "c08.params_cteq", [n, m1, m2] =>
    -- `MontyParams::new(m1).ct_eq(&MontyParams::new_vartime(m2))`, `MontyForm::zero(p1).ct_eq(&MontyForm::zero(p2))`
    match n.toNat?, hexToNat? m1, hexToNat? m2 with
    | some n, some m1, some m2 =>
      let p := paramsNew (toLimbs n m1)
      let q := paramsNewVartime (toLimbs n m2)
      let e := bitTok (m1 == m2)
      some s!"{bitTok (paramsCtEq p q)} {bitTok (decide (val (uzero n) = val (uzero n)) && paramsCtEq p q)} ;; {e} {e}"
    | _, _, _ => badArgs
  | "c08.params_select", [n, m1, m2, c, x] =>
    -- selection between two parameter sets: every field of the chosen side; the selected form is the chosen side's
    match n.toNat?, hexToNat? m1, hexToNat? m2, c.toNat?, hexToNat? x with
    | some n, some m1, some m2, some c, some x =>
      let m := if c % 2 = 1 then m2 else m1
      let commas := fun (t : String) => t.replace " " ","
      let v := x % m
      let tok := fun (p : Params) => s!"{commas (paramsTok p)} 1 1 1 | {natToHex v} {natToHex (v * v % m)} {commas (paramsTok p)}"
      some (tok (paramsNew (toLimbs n m)) ++ " ;; " ++ tok (paramsSpec n m))
    | _, _, _, _, _ => badArgs
  | "c08.mmseq", [_kind, n, m, x, y, ops] =>
    -- a sequence of multiplications / squarings on ONE multiplier object: after every operation the accumulator is the
    -- canonical representative of the running product (value v, Montgomery representation v·R mod m)
    match n.toNat?, hexToNat? m, hexToNat? x, hexToNat? y with
    | some n, some m, some x, some y =>
      if m % 2 = 0 ∨ m = 0 then badArgs else
      let R := B ^ n
      let step := fun (acc : Nat × List String) (c : Char) =>
        let v := if c = 'm' then acc.1 * (y % m) % m else acc.1 * acc.1 % m
        (v, acc.2 ++ [s!"{natToHex v}/{natToHex (v * R % m)}"])
      let r := ops.toList.foldl step (x % m, [])
      let t := " ".intercalate r.2
      some (t ++ " ;; " ++ t)
    | _, _, _, _ => badArgs
  | "c08.params_eq_const", [n, m] =>
    match n.toNat?, hexToNat? m with
    | some n, some m =>
      let ms := toLimbs n m
      let b := fun (x : Bool) => if x then "1" else "0"
      some (s!"{b (decide (paramsConst ms = paramsNew ms))} {b (decide (paramsConst ms = paramsBoxed ms))} ;; 1 1")
    | _, _ => badArgs
  | "c08.redc", [n, lo, hi, m, k] =>
    match n.toNat?, hexToNat? lo, hexToNat? hi, hexToNat? m, hexToNat? k with
    | some n, some lo, some hi, some m, some k =>
      let ms := toLimbs n m
      let r := montgomeryReduction (toLimbs n lo) (toLimbs n hi) ms k
      let T := lo + B ^ n * hi
      -- L0 only where the property speaks: m odd, k·m ≡ −1 (mod B), T < m·R
      if m % 2 = 1 ∧ (k * m + 1) % B = 0 ∧ T < m * B ^ n ∧ n > 0 then
        let rinv := ((1 + m * negInvFull n m) / B ^ n) % m
        some (s!"{limbsHex r} ;; {natToHex ((T * rinv) % m)}")
      else some (limbsHex r)
    | _, _, _, _, _ => badArgs
  | "c08.mul_mod", [kind, n, a, b, p] =>
    match n.toNat?, hexToNat? a, hexToNat? b, hexToNat? p with
    | some n, some a, some b, some p =>
      let ms := toLimbs n p
      match kindInit kind ms with
      | some (rep, prm) =>
        let st : State := { rep := rep, params := prm, store := [] }
        let r := opRetrieve st (opMul st (opNew st a) (opNew st b))
        some (s!"{limbsHex r} ;; {natToHex ((a * b) % p)}")
      | none => badArgs
    | _, _, _, _ => badArgs
  -- crate-internal functions reached through `crypto_bigint::verif_hooks`.  L0 (printed when `m` is odd and
  -- `k·m ≡ −1 (mod 2^64)`) is the textbook value: with `k' = −m⁻¹ mod R`, `U = (T·k') mod R`, `X = (T + U·m) / R`;
  -- AMM returns `X` or `X − m` when `X ≥ R` (`T = x·y`, any `x, y < R`); `redc_inner` returns `(X mod R, X / R)`.
  | "c08.hook.amm", [n, x, y, m, k] =>
    match n.toNat?, hexToNat? x, hexToNat? y, hexToNat? m, hexToNat? k with
    | some n, some x, some y, some m, some k =>
      let l1 := limbsHex (almostMontgomeryMul (toLimbs n x) (toLimbs n y) (toLimbs n m) k)
      let R := B ^ n
      if m % 2 = 1 ∧ (k * m + 1) % B = 0 ∧ n > 0 ∧ x < R ∧ y < R ∧ m < R then
        let X := (x * y + ((x * y * negInvFull n m) % R) * m) / R
        some s!"{l1} ;; {natToHex (if X ≥ R then X - m else X)}"
      else some l1
    | _, _, _, _, _ => badArgs
  | "c08.hook.amm_by_one", [n, x, m, k] =>
    match n.toNat?, hexToNat? x, hexToNat? m, hexToNat? k with
    | some n, some x, some m, some k =>
      let l1 := limbsHex (almostMontgomeryMulByOne (toLimbs n x) (toLimbs n m) k)
      let R := B ^ n
      if m % 2 = 1 ∧ (k * m + 1) % B = 0 ∧ n > 0 ∧ x < R ∧ m < R then
        let X := (x + ((x * negInvFull n m) % R) * m) / R
        some s!"{l1} ;; {natToHex (if X ≥ R then X - m else X)}"
      else some l1
    | _, _, _, _ => badArgs
  | "c08.hook.redc_inner", [n, lo, hi, m, k] =>
    match n.toNat?, hexToNat? lo, hexToNat? hi, hexToNat? m, hexToNat? k with
    | some n, some lo, some hi, some m, some k =>
      let r := redcInner (toLimbs n hi) (toLimbs n lo) (toLimbs n m) k
      let l1 := s!"{limbsHex r.1} {natToHex r.2}"
      let R := B ^ n
      if m % 2 = 1 ∧ (k * m + 1) % B = 0 ∧ n > 0 ∧ lo < R ∧ hi < R ∧ m < R then
        let X := (lo + R * hi + ((lo * negInvFull n m) % R) * m) / R
        some s!"{l1} ;; {natToHex (X % R)} {natToHex (X / R)}"
      else some l1
    | _, _, _, _, _ => badArgs
  | "c08.hook.params", [kind, n, m] =>
    -- the private parameter fields read through `verif_fields()`: same answer as `c08.params`
    match n.toNat?, hexToNat? m with
    | some n, some m =>
      let ms := toLimbs n m
      let p? : Option Params := match kind with
        | "dyn" => some (paramsNew ms)
        | "dynv" => some (paramsNewVartime ms)
        | "dynfromconst" | "boxedfromconst" => some (paramsConst ms)
        | "boxed" | "boxedv" => some (paramsBoxed ms)
        | _ => none
      match p? with
      | some p => some (paramsTok p ++ " ;; " ++ paramsTok (paramsSpec n m))
      | none => badArgs
    | _, _ => badArgs
  | _, _ => none

end CB
