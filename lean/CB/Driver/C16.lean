import CB.Driver.Util
import CB.Model.Encoding
namespace CB.Encoding
open CB

/-! Driver for C16.  Every line is printed as `L1 ;; L0`: L1 = the model mirroring the code
    (CB/Model/Encoding.lean, first half), L0 = the positional spec (second half). -/

namespace D16

def both (l1 l0 : String) : Option String := some (l1 ++ " ;; " ++ l0)

def optHex : Option (List Nat) → String
  | some l => limbsHex l
  | none => "panic"

def optNatHex : Option Nat → String
  | some v => natToHex v
  | none => "panic"

def wordsTok (l : List Nat) : String := if l.isEmpty then "-" else ",".intercalate (l.map natToHex)

def exceptTok : Except DecodeError (List Nat) → String
  | .ok l => limbsHexLen l
  | .error e => "err:" ++ e.name

def specExceptTok : Except DecodeError (Nat × Nat) → String
  | .ok (n, v) => s!"{n}:{natToHex v}"
  | .error e => "err:" ++ e.name

def allBytes (bs : List Nat) : Bool := bs.all (· < 256)

/-- formatting kinds: (L1 text, L0 text) for a fixed-width value of `l.length` limbs -/
def fmtKind (name : String) (kind : String) (l : List Nat) : Option (List Nat × List Nat) :=
  let k := 16 * l.length
  let v := val l
  let nm := name.toList.map Char.toNat
  match kind with
  | "x" => some (fmtHex false false l, specHexText false k v)
  | "X" => some (fmtHex true false l, specHexText true k v)
  | "d" => some (fmtHex true false l, specHexText true k v)
  | "#x" => some (fmtHex false true l, [48, 120] ++ specHexText false k v)
  | "#X" => some (fmtHex true true l, [48, 120] ++ specHexText true k v)
  | "b" => some (fmtBin false l, specBinText (64 * l.length) v)
  | "#b" => some (fmtBin true l, [48, 98] ++ specBinText (64 * l.length) v)
  | "dbg" => some (fmtDebug nm (fmtHex true false l), nm ++ [40, 48, 120] ++ specHexText true k v ++ [41])
  | _ => none

def boxedFmtKind (kind : String) (l : List Nat) : Option (List Nat × List Nat) :=
  let l0 := if l.isEmpty then [0] else l      -- a zero-limb value prints like one zero limb
  let k := 16 * l0.length
  let v := val l0
  let nm := "BoxedUint".toList.map Char.toNat
  match kind with
  | "x" => some (boxedFmtHex false false l, specHexText false k v)
  | "X" => some (boxedFmtHex true false l, specHexText true k v)
  | "d" => some (boxedFmtHex true false l, specHexText true k v)
  | "#x" => some (boxedFmtHex false true l, [48, 120] ++ specHexText false k v)
  | "#X" => some (boxedFmtHex true true l, [48, 120] ++ specHexText true k v)
  | "b" => some (boxedFmtBin false l, specBinText (64 * l0.length) v)
  | "#b" => some (boxedFmtBin true l, [48, 98] ++ specBinText (64 * l0.length) v)
  | "dbg" => some (fmtDebug nm (boxedFmtHex true false l), nm ++ [40, 48, 120] ++ specHexText true k v ++ [41])
  | _ => none

def primBits : String → Option Nat
  | "u8" | "i8" => some 8
  | "u16" | "i16" => some 16
  | "u32" | "i32" => some 32
  | "u64" | "i64" | "word" => some 64
  | "u128" | "i128" | "wide_word" => some 128
  | _ => none

def optNz (o : Option (List Nat)) : String :=
  match o with
  | none => "panic"
  | some l => match nzNew l with
    | some l => limbsHex l
    | none => "none"

/-- formatting kinds the wrappers `NonZero<T>` / `Odd<T>` forward (no `Debug`, which is derived): (L1, L0) -/
def wrapFmtKind (boxed : Bool) (kind : String) (l : List Nat) : Option (List Nat × List Nat) :=
  let k := 16 * l.length
  let v := val l
  let hx := fun (upper alt : Bool) => if boxed then wrapBoxedFmtHex upper alt l else wrapFmtHex upper alt l
  let bn := fun (alt : Bool) => if boxed then wrapBoxedFmtBin alt l else wrapFmtBin alt l
  match kind with
  | "x" => some (hx false false, specHexText false k v)
  | "X" => some (hx true false, specHexText true k v)
  | "d" => some (hx true false, specHexText true k v)
  | "#x" => some (hx false true, [48, 120] ++ specHexText false k v)
  | "#X" => some (hx true true, [48, 120] ++ specHexText true k v)
  | "b" => some (bn false, specBinText (64 * l.length) v)
  | "#b" => some (bn true, [48, 98] ++ specBinText (64 * l.length) v)
  | _ => none

/-- a wrapper line: `none` when the value is not admissible for the wrapper, else the forwarded formatting -/
def wrapFmtLine (boxed odd : Bool) (kind : String) (l : List Nat) : Option String :=
  let ok := if odd then val l % 2 = 1 else val l ≠ 0
  match wrapFmtKind boxed kind l with
  | none => badArgs
  | some (a, b) => if ok then both (bytesToTok a) (bytesToTok b) else both "none" "none"

/-- L0 of the `Uint` serde frame: `u64` LE length `8n`, then `8n` LE bytes; trailing bytes ignored -/
def specFrameDe (n : Nat) (b : List Nat) : Option Nat :=
  if b.length < 8 + 8 * n ∨ beVal (b.take 8).reverse ≠ 8 * n then none
  else some (beVal ((b.drop 8).take (8 * n)).reverse)

def specFrameSer (n v : Nat) : List Nat := specLeBytes 8 (8 * n) ++ specLeBytes (8 * n) v

def optSerde : Option Nat → String
  | some v => natToHex v
  | none => "err:serde"

def decodeErrorOf : String → Option DecodeError
  | "Empty" => some .Empty | "InvalidDigit" => some .InvalidDigit
  | "InputSize" => some .InputSize | "Precision" => some .Precision
  | _ => none

/-- coverage-round operations (serde of the wrappers, word views, wrapper formatting, error texts) -/
def coverageOps (op : String) (args : List String) : Option String :=
  match op, args with
  -- ---- Limb
  | "c16.l.serde_ser", [w] =>
    match hexToNat? w with
    | some w => if w < B then both (bytesToTok (limbSerialize w)) (bytesToTok (specLeBytes 8 w)) else badArgs
    | _ => badArgs
  | "c16.l.serde_de", [b] =>
    match tokToBytes? b with
    | some b => both (optSerde (limbDeserialize b)) (if b.length < 8 then "err:serde" else natToHex (beVal (b.take 8).reverse))
    | _ => badArgs
  | "c16.l.to_prim", [w] =>
    match hexToNat? w with
    | some w => if w < B then both s!"{natToHex (limbToWord w)} {natToHex (limbToWide w)}" s!"{natToHex w} {natToHex w}" else badArgs
    | _ => badArgs
  | "c16.nz.l.fmt", [kind, w] =>
    match hexToNat? w with
    | some w => if w < B then wrapFmtLine false false kind [w] else badArgs
    | _ => badArgs
  | "c16.odd.l.fmt", [kind] => wrapFmtLine false true kind [1]      -- `Odd::<Limb>::default()` holds `Limb::ONE`
  -- ---- Wrapping<Uint>, Checked<Uint>
  | "c16.w.serde_ser", [n, v] =>
    match n.toNat?, hexToNat? v with
    | some n, some v => both (bytesToTok (wrappingSerialize (toLimbs n v))) (bytesToTok (specFrameSer n v))
    | _, _ => badArgs
  | "c16.w.serde_de", [n, b] =>
    match n.toNat?, tokToBytes? b with
    | some n, some b => both (match wrappingDeserialize n b with | some l => limbsHex l | none => "err:serde") (optSerde (specFrameDe n b))
    | _, _ => badArgs
  | "c16.ck.serde_ser", [n, sm, v] =>
    match n.toNat?, hexToNat? v with
    | some n, some v =>
      if sm = "1" then both (bytesToTok (checkedSerialize (some (toLimbs n v)))) (bytesToTok (1 :: specFrameSer n v))
      else if sm = "0" then both (bytesToTok (checkedSerialize none)) (bytesToTok [0])
      else badArgs
    | _, _ => badArgs
  | "c16.ck.serde_de", [n, b] =>
    match n.toNat?, tokToBytes? b with
    | some n, some b =>
      let l1 := match checkedDeserialize n b with
        | none => "err:serde"
        | some none => "none"
        | some (some l) => "some " ++ limbsHex l
      let l0 := match b with
        | [] => "err:serde"
        | t :: r =>
          if t = 0 then "none"
          else if t = 1 then (match specFrameDe n r with | some v => "some " ++ natToHex v | none => "err:serde")
          else "err:serde"
      both l1 l0
    | _, _ => badArgs
  -- ---- ConstMontyForm (the line carries the modulus; the harness compares it with its compile-time constant)
  | "c16.cm.serde_ser", [n, m, v] =>
    match n.toNat?, hexToNat? m, hexToNat? v with
    | some n, some _, some v => both (bytesToTok (cmSerialize (toLimbs n v))) (bytesToTok (specFrameSer n v))
    | _, _, _ => badArgs
  | "c16.cm.serde_de", [n, m, b] =>
    match n.toNat?, hexToNat? m, tokToBytes? b with
    | some n, some m, some b =>
      both (match cmDeserialize (toLimbs n m) b with | some l => limbsHex l | none => "err:serde")
        (match specFrameDe n b with | some v => if v < m then natToHex v else "err:serde" | none => "err:serde")
    | _, _, _ => badArgs
  | "c16.cm.roundtrip", [n, m, v] =>
    match n.toNat?, hexToNat? m, hexToNat? v with
    | some n, some m, some v =>
      -- Montgomery representation of `v` (value level; the conversion and `retrieve` are C08's)
      let mf := toLimbs n (v % B ^ n * B ^ n % m)
      both (match cmDeserialize (toLimbs n m) (cmSerialize mf) with
            | some a => if a = mf then "ok " ++ natToHex (v % B ^ n % m) else "forms-differ roundtrip"
            | none => "err:serde")
        ("ok " ++ natToHex (v % B ^ n % m))
    | _, _, _ => badArgs
  -- ---- word / limb views
  | "c16.i.words", [n, v] =>
    match n.toNat?, hexToNat? v with
    | some n, some v =>
      both (wordsTok (toWords (fromWords (toLimbs n v)))) (wordsTok ((List.range n).map fun i => v / B ^ i % B))
    | _, _ => badArgs
  | "c16.u.words_mut", [n, v, i, w] | "c16.i.words_mut", [n, v, i, w] =>
    match n.toNat?, hexToNat? v, i.toNat?, hexToNat? w with
    | some n, some v, some i, some w =>
      if i ≥ n ∨ w ≥ B ∨ v ≥ B ^ n then badArgs else
      both (limbsHex (setWord (toLimbs n v) i w)) (natToHex (v - v / B ^ i % B * B ^ i + w * B ^ i))
    | _, _, _, _ => badArgs
  | "c16.b.words_mut", [n, v, i, w] =>
    match n.toNat?, hexToNat? v, i.toNat?, hexToNat? w with
    | some n, some v, some i, some w =>
      if i ≥ max 1 n ∨ w ≥ B ∨ v ≥ B ^ n then badArgs else
      both (limbsHexLen (setWord (boxedOfVec (fromWords (toLimbs n v))) i w))
        s!"{max 1 n}:{natToHex (v - v / B ^ i % B * B ^ i + w * B ^ i)}"
    | _, _, _, _ => badArgs
  | "c16.b.from_odd", [n, v] =>
    match n.toNat?, hexToNat? v with
    | some n, some v =>
      if v ≥ B ^ n then badArgs else
      if v % 2 = 0 then both "none" "none" else
      both (limbsHexLen (boxedFromOdd (toLimbs n v))) s!"{max 1 n}:{natToHex v}"
    | _, _ => badArgs
  -- ---- formatting forwarded by the wrappers
  | "c16.nz.fmt", [n, kind, v] | "c16.nz.i.fmt", [n, kind, v] =>
    match n.toNat?, hexToNat? v with
    | some n, some v => wrapFmtLine false false kind (toLimbs n v)
    | _, _ => badArgs
  | "c16.odd.fmt", [n, kind, v] | "c16.odd.i.fmt", [n, kind, v] =>
    match n.toNat?, hexToNat? v with
    | some n, some v => wrapFmtLine false true kind (toLimbs n v)
    | _, _ => badArgs
  | "c16.nz.b.fmt", [n, kind, v] =>
    match n.toNat?, hexToNat? v with
    | some n, some v => wrapFmtLine true false kind (boxedOfVec (toLimbs n v))
    | _, _ => badArgs
  | "c16.odd.b.fmt", [n, kind, v] =>
    match n.toNat?, hexToNat? v with
    | some n, some v => wrapFmtLine true true kind (boxedOfVec (toLimbs n v))
    | _, _ => badArgs
  | "c16.nz.octal", [kind, v] =>
    match hexToNat? v with
    | some v =>
      if v ≥ B ∨ (kind ≠ "o" ∧ kind ≠ "#o") then badArgs else
      if v = 0 then both "none" "none" else
      both (bytesToTok (fmtOctal (kind = "#o") v)) (bytesToTok ((if kind = "#o" then [48, 111] else []) ++ specOctText v))
    | _ => badArgs
  | "c16.odd.octal", [kind] =>
    if kind ≠ "o" ∧ kind ≠ "#o" then badArgs else
    both (bytesToTok (fmtOctal (kind = "#o") 1)) (bytesToTok ((if kind = "#o" then [48, 111] else []) ++ specOctText 1))
  -- ---- error texts (L1 only: the property does not fix the wording; the line pins the documented messages)
  | "c16.err.decode", [k] =>
    match decodeErrorOf k with
    | some e => some (bytesToTok (decodeErrorText e))
    | none => badArgs
  | "c16.err.boxed_decode", [bp, b] =>
    match bp.toNat?, tokToBytes? b with
    | some bp, some b =>
      both (match boxedFromBeSlice b bp with | .ok _ => "ok" | .error e => bytesToTok (decodeErrorText e))
        (match specBoxedDecode b.length bp (beVal b) with | .ok _ => "ok" | .error e => bytesToTok (decodeErrorText e))
    | _, _ => badArgs
  | "c16.err.randbits", ["rand_core", t] =>
    match tokToBytes? t with
    | some t => (randomBitsErrorText "rand_core" t 0 0).map bytesToTok
    | none => badArgs
  | "c16.err.randbits", [variant, x, y] =>
    match x.toNat?, y.toNat? with
    | some x, some y => match randomBitsErrorText variant [] x y with
      | some t => some (bytesToTok t)
      | none => badArgs
    | _, _ => badArgs
  | _, _ => none

end D16
end CB.Encoding

namespace CB
open CB.Encoding CB.Encoding.D16

/-- `c16.hook.*`: the crate-internal `decode_hex_byte([a, b])` reached through `crypto_bigint::verif_hooks`.
    `decode_hex_byte a b` prints the pair `(byte, err)` exactly as the limb-level model computes it (L1 only: when the
    pair is not two hex digits the property only demands `err ≠ 0`, not particular values);
    `hex_pair a b` prints what the callers act on — the byte when `err = 0`, else `invalid` — as `L1 ;; L0` with
    L0 from the positional specification (`hexVal?`): both characters hex digits ⇒ `16·hi + lo`, otherwise invalid. -/
def hookC16 (op : String) (a b : Nat) : Option String :=
  let r := decodeHexByte a b
  match op with
  | "c16.hook.decode_hex_byte" => some s!"{natToHex r.1} {natToHex r.2}"
  | "c16.hook.hex_pair" =>
    let l1 := if r.2 = 0 then natToHex r.1 else "invalid"
    let l0 := match hexVal? a, hexVal? b with
      | some h, some l => natToHex (16 * h + l)
      | _, _ => "invalid"
    both l1 l0
  | _ => none

def dispatchC16 : Dispatch := fun op args =>
  match op, args with
  | "c16.hook.decode_hex_byte", [a, b] | "c16.hook.hex_pair", [a, b] =>
    match hexToNat? a, hexToNat? b with
    | some a, some b => if a < 256 ∧ b < 256 then hookC16 op a b else badArgs
    | _, _ => badArgs
  -- ---------------------------------------------------------------- Limb
  | "c16.l.to_be_bytes", [w] =>
    match hexToNat? w with
    | some w => both (bytesToTok (wordToBeBytes w)) (bytesToTok (specBeBytes 8 w))
    | _ => badArgs
  | "c16.l.to_le_bytes", [w] =>
    match hexToNat? w with
    | some w => both (bytesToTok (wordToLeBytes w)) (bytesToTok (specLeBytes 8 w))
    | _ => badArgs
  | "c16.l.from_be_bytes", [b] =>
    match tokToBytes? b with
    | some b => if b.length = 8 then both (natToHex (wordFromBeBytes b)) (natToHex (beVal b)) else badArgs
    | _ => badArgs
  | "c16.l.from_le_bytes", [b] =>
    match tokToBytes? b with
    | some b => if b.length = 8 then both (natToHex (wordFromLeBytes b)) (natToHex (beVal b.reverse)) else badArgs
    | _ => badArgs
  | "c16.l.fmt", [kind, w] =>
    match hexToNat? w with
    | some w => match fmtKind "Limb" kind [w % B] with
      | some (a, b) => both (bytesToTok a) (bytesToTok b)
      | none => badArgs
    | _ => badArgs
  -- ---------------------------------------------------------------- Uint: bytes
  | "c16.u.to_be_bytes", [n, v] =>
    match n.toNat?, hexToNat? v with
    | some n, some v => both (bytesToTok (uintToBeBytes (toLimbs n v))) (bytesToTok (specBeBytes (8 * n) v))
    | _, _ => badArgs
  | "c16.u.to_le_bytes", [n, v] =>
    match n.toNat?, hexToNat? v with
    | some n, some v => both (bytesToTok (uintToLeBytes (toLimbs n v))) (bytesToTok (specLeBytes (8 * n) v))
    | _, _ => badArgs
  | "c16.u.from_be_slice", [n, b] | "c16.u.from_be_bytes", [n, b] =>
    match n.toNat?, tokToBytes? b with
    | some n, some b =>
      if op = "c16.u.from_be_bytes" ∧ b.length ≠ 8 * n then badArgs else
      both (optHex (fromBeSlice n b)) (if b.length = 8 * n then natToHex (beVal b) else "panic")
    | _, _ => badArgs
  | "c16.u.from_le_slice", [n, b] | "c16.u.from_le_bytes", [n, b] =>
    match n.toNat?, tokToBytes? b with
    | some n, some b =>
      if op = "c16.u.from_le_bytes" ∧ b.length ≠ 8 * n then badArgs else
      both (optHex (fromLeSlice n b)) (if b.length = 8 * n then natToHex (beVal b.reverse) else "panic")
    | _, _ => badArgs
  -- ---------------------------------------------------------------- Uint / Int / Odd / NonZero: hex
  | "c16.u.from_be_hex", [n, t] | "c16.i.from_be_hex", [n, t] =>
    match n.toNat?, tokToBytes? t with
    | some n, some t => both (optHex (fromBeHex n t)) (optNatHex (specFromBeHex n t))
    | _, _ => badArgs
  | "c16.u.from_le_hex", [n, t] =>
    match n.toNat?, tokToBytes? t with
    | some n, some t => both (optHex (fromLeHex n t)) (optNatHex (specFromLeHex n t))
    | _, _ => badArgs
  | "c16.odd.from_be_hex", [n, t] =>
    match n.toNat?, tokToBytes? t with
    | some n, some t =>
      both (optHex (oddFromBeHex n t))
        (optNatHex ((specFromBeHex n t).bind oddOnly))
    | _, _ => badArgs
  | "c16.odd.from_le_hex", [n, t] =>
    match n.toNat?, tokToBytes? t with
    | some n, some t =>
      both (optHex (oddFromLeHex n t))
        (optNatHex ((specFromLeHex n t).bind oddOnly))
    | _, _ => badArgs
  | "c16.nz.from_be_byte_array", [n, b] | "c16.nz.from_be_bytes", [n, b] =>
    match n.toNat?, tokToBytes? b with
    | some n, some b =>
      if b.length ≠ 8 * n then badArgs else
      both (optNz (fromBeSlice n b)) (if beVal b = 0 then "none" else natToHex (beVal b))
    | _, _ => badArgs
  | "c16.nz.from_le_bytes", [n, b] =>
    match n.toNat?, tokToBytes? b with
    | some n, some b =>
      if b.length ≠ 8 * n then badArgs else
      both (optNz (fromLeSlice n b)) (if beVal b = 0 then "none" else natToHex (beVal b.reverse))
    | _, _ => badArgs
  | "c16.nz.from_le_byte_array", [n, b] =>
    -- src/non_zero.rs:193-195 (after fix ad61352): `T::from_le_byte_array`
    match n.toNat?, tokToBytes? b with
    | some n, some b =>
      if b.length ≠ 8 * n then badArgs else
      both (optNz (fromLeSlice n b)) (if beVal b = 0 then "none" else natToHex (beVal b.reverse))
    | _, _ => badArgs
  -- ---------------------------------------------------------------- words
  | "c16.u.words", [n, v] =>
    match n.toNat?, hexToNat? v with
    | some n, some v =>
      let l := toLimbs n v
      both (wordsTok (toWords (fromWords l))) (wordsTok ((List.range n).map fun i => v / B ^ i % B))
    | _, _ => badArgs
  -- ---------------------------------------------------------------- primitives
  | "c16.u.from_prim", [n, ty, v] =>
    match n.toNat?, primBits ty, hexToNat? v with
    | some n, some bits, some v =>
      if v ≥ 2 ^ bits then badArgs else
      if bits = 128 then both (optHex (fromU128 n v)) (if n ≥ 2 then natToHex v else "panic")
      else both (optHex (fromWord n v)) (if n ≥ 1 then natToHex v else "panic")
    | _, _, _ => badArgs
  | "c16.u.to_u64", [v] =>
    match hexToNat? v with
    | some v => both (natToHex (toU64 (toLimbs 1 v))) (natToHex (v % 2 ^ 64))
    | _ => badArgs
  | "c16.u.to_u128", [v] =>
    match hexToNat? v with
    | some v => both (natToHex (toU128 (toLimbs 2 v))) (natToHex (v % 2 ^ 128))
    | _ => badArgs
  | "c16.i.from_prim", [n, ty, v] =>
    match n.toNat?, primBits ty, hexToNat? v with
    | some n, some bits, some v =>
      if v ≥ 2 ^ bits then badArgs else
      let sv := signedVal bits v
      if bits = 128 then
        both (optHex (intFromI128 n v)) (if n ≥ 2 then natToHex (ofInt n sv) else "panic")
      else both (optHex (intFromPrim bits n v)) (if n ≥ 1 then natToHex (ofInt n sv) else "panic")
    | _, _, _ => badArgs
  | "c16.i.to_i64", [v] =>
    match hexToNat? v with
    | some v => both (natToHex (toU64 (toLimbs 1 v))) (natToHex (v % 2 ^ 64))
    | _ => badArgs
  | "c16.i.to_i128", [v] =>
    match hexToNat? v with
    | some v => both (natToHex (toU128 (toLimbs 2 v))) (natToHex (v % 2 ^ 128))
    | _ => badArgs
  -- ---------------------------------------------------------------- concat / split / resize
  | "c16.u.concat", [l, h, lo, hi] =>
    match l.toNat?, h.toNat?, hexToNat? lo, hexToNat? hi with
    | some l, some h, some lo, some hi =>
      both (limbsHex (concatMixed (l + h) (toLimbs l lo) (toLimbs h hi)))
        (natToHex (lo % B ^ l + B ^ l * (hi % B ^ h)))
    | _, _, _, _ => badArgs
  | "c16.u.split", [l, h, x] =>
    match l.toNat?, h.toNat?, hexToNat? x with
    | some l, some h, some x =>
      let r := splitMixed l h (toLimbs (l + h) x)
      both s!"{limbsHex r.1} {limbsHex r.2}" s!"{natToHex (x % B ^ l)} {natToHex (x / B ^ l % B ^ h)}"
    | _, _, _ => badArgs
  | "c16.u.resize", [n, t, v] =>
    match n.toNat?, t.toNat?, hexToNat? v with
    | some n, some t, some v =>
      both (limbsHex (uintResize t (toLimbs n v))) (natToHex (v % B ^ n % B ^ t))
    | _, _, _ => badArgs
  | "c16.i.resize", [n, t, v] =>
    match n.toNat?, t.toNat?, hexToNat? v with
    | some n, some t, some v =>
      let l := toLimbs n v
      both (limbsHex (intResize t l)) (natToHex (ofInt t (toInt l)))
    | _, _, _ => badArgs
  -- ---------------------------------------------------------------- formatting
  | "c16.u.fmt", [n, kind, v] | "c16.i.fmt", [n, kind, v] =>
    match n.toNat?, hexToNat? v with
    | some n, some v =>
      match fmtKind (if op = "c16.u.fmt" then "Uint" else "Int") kind (toLimbs n v) with
      | some (a, b) => both (bytesToTok a) (bytesToTok b)
      | none => badArgs
    | _, _ => badArgs
  | "c16.b.fmt", [n, kind, v] =>
    match n.toNat?, hexToNat? v with
    | some n, some v =>
      match boxedFmtKind kind (toLimbs n v) with
      | some (a, b) => both (bytesToTok a) (bytesToTok b)
      | none => badArgs
    | _, _ => badArgs
  -- ---------------------------------------------------------------- serde (bincode)
  | "c16.u.serde_ser", [n, v] =>
    match n.toNat?, hexToNat? v with
    | some n, some v => both (bytesToTok (serdeSerialize (toLimbs n v))) (bytesToTok (specLeBytes 8 (8 * n) ++ specLeBytes (8 * n) v))
    | _, _ => badArgs
  | "c16.u.serde_de", [n, b] =>
    match n.toNat?, tokToBytes? b with
    | some n, some b =>
      both (match serdeDeserialize n b with | some l => limbsHex l | none => "err:serde")
        (if b.length < 8 + 8 * n ∨ beVal (b.take 8).reverse ≠ 8 * n then "err:serde"
         else natToHex (beVal ((b.drop 8).take (8 * n)).reverse))
    | _, _ => badArgs
  -- ---------------------------------------------------------------- BoxedUint
  | "c16.b.from_be_slice", [bp, b] =>
    match bp.toNat?, tokToBytes? b with
    | some bp, some b => both (exceptTok (boxedFromBeSlice b bp)) (specExceptTok (specBoxedDecode b.length bp (beVal b)))
    | _, _ => badArgs
  | "c16.b.from_le_slice", [bp, b] =>
    match bp.toNat?, tokToBytes? b with
    | some bp, some b => both (exceptTok (boxedFromLeSlice b bp)) (specExceptTok (specBoxedDecode b.length bp (beVal b.reverse)))
    | _, _ => badArgs
  | "c16.b.to_be_bytes", [n, v] =>
    match n.toNat?, hexToNat? v with
    | some n, some v => both (bytesToTok (uintToBeBytes (toLimbs n v))) (bytesToTok (specBeBytes (8 * n) v))
    | _, _ => badArgs
  | "c16.b.to_le_bytes", [n, v] =>
    match n.toNat?, hexToNat? v with
    | some n, some v => both (bytesToTok (uintToLeBytes (toLimbs n v))) (bytesToTok (specLeBytes (8 * n) v))
    | _, _ => badArgs
  | "c16.b.from_be_hex", [bp, t] =>
    match bp.toNat?, tokToBytes? t with
    | some bp, some t =>
      let l1 := match boxedFromBeHexApi t bp with
        | none => "panic"
        | some (l, ok) => if ok then limbsHexLen l else "none"
      let l0 := if t.length = 16 * (bp / 64) then
          (match hexDigits? t with
           | some ds => s!"{max 1 (bp / 64)}:{natToHex (beValBase 16 ds)}"
           | none => "none")
        else "panic"
      both l1 l0
    | _, _ => badArgs
  | "c16.b.widen", [n, v, bp] =>
    match n.toNat?, hexToNat? v, bp.toNat? with
    | some n, some v, some bp =>
      both (match boxedWiden (toLimbs n v) bp with | some l => limbsHexLen l | none => "panic")
        (if bp ≥ 64 * n then s!"{max 1 ((bp + 63) / 64)}:{natToHex (v % B ^ n)}" else "panic")
    | _, _, _ => badArgs
  | "c16.b.shorten", [n, v, bp] =>
    match n.toNat?, hexToNat? v, bp.toNat? with
    | some n, some v, some bp =>
      let t := max 1 ((bp + 63) / 64)
      both (match boxedShorten (toLimbs n v) bp with | some l => limbsHexLen l | none => "panic")
        (if bp ≤ 64 * n ∧ t ≤ n then s!"{t}:{natToHex (v % B ^ n % B ^ t)}" else "panic")
    | _, _, _ => badArgs
  | "c16.b.from_prim", [ty, v] =>
    match primBits ty, hexToNat? v with
    | some bits, some v =>
      if v ≥ 2 ^ bits then badArgs else
      let n := if bits = 128 then 2 else 1
      both (limbsHexLen (boxedOfVec ((if bits = 128 then fromU128 2 v else fromWord 1 v).getD []))) s!"{n}:{natToHex v}"
    | _, _ => badArgs
  | "c16.b.from_uint", [n, v] | "c16.b.from_vec", [n, v] =>
    match n.toNat?, hexToNat? v with
    | some n, some v => both (limbsHexLen (boxedOfVec (toLimbs n v))) s!"{max 1 n}:{natToHex (v % B ^ n)}"
    | _, _ => badArgs
  | "c16.b.from_slice", [n, v] =>
    match n.toNat?, hexToNat? v with
    -- `From<&[Limb]>` goes through `From<Vec<Limb>>` since /repo fix a47b355 (an empty slice is padded to one limb)
    | some n, some v => both (limbsHexLen (boxedOfVec (fromWords (toLimbs n v)))) s!"{max 1 n}:{natToHex (v % B ^ n)}"
    | _, _ => badArgs
  | "c16.b.words", [n, v] =>
    match n.toNat?, hexToNat? v with
    | some n, some v =>
      -- `BoxedUint::from_words` pads an empty sequence to one limb since /repo fix a47b355
      both (wordsTok (toWords (boxedOfVec (fromWords (toLimbs n v))))) (wordsTok ((List.range (max 1 n)).map fun i => v / B ^ i % B))
    | _, _ => badArgs
  | _, _ => coverageOps op args

end CB
