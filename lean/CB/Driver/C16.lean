import CB.Driver.Util
namespace CB

/-- operations of property C16 (op names start with `c16.`) -/
def dispatchC16 : Dispatch := fun _ _ => none

end CB
