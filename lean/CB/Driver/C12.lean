/-
  CB.Driver.C12 — op lines of property C12.  Every producer prints `L1 ;; L0`:
  L1 = CB.Model.Wrappers (mirrors the code), L0 = what the property demands, computed here on plain
  `Nat` values (a valid wrapped value, decoded in the STATED byte order, or a failure).
  A produced wrapper whose value breaks the invariant prints `INVALID:<hex>` (as the harness does).
-/
import CB.Driver.Util
import CB.Model.Wrappers
namespace CB.Wrappers.D12
open CB CB.Wrappers

def pNz (a : List Nat) : Bool := val a ≠ 0
def pOdd (a : List Nat) : Bool := val a % 2 = 1
def tagS (ok : Bool) (s : String) : String := if ok then s else "INVALID:" ++ s
def showU (p : List Nat → Bool) (a : List Nat) : String := tagS (p a) (limbsHex a)
def showB (p : List Nat → Bool) (a : List Nat) : String := tagS (p a) (limbsHexLen a)
def showL (p : List Nat → Bool) (x : Nat) : String := tagS (p [x]) (natToHex x)

def resStr {α : Type} (sh : α → String) : Res α → String
  | .ok v => sh v
  | .none => "none"
  | .panic => "panic"
  | .err k => "err:" ++ k

def both (l1 l0 : String) : Option String := some (l1 ++ " ;; " ++ l0)

/-- L0 helpers on plain numbers -/
def optNz (v : Nat) (fail : String) : String := if v = 0 then fail else natToHex v
def optOdd (v : Nat) (fail : String) : String := if v % 2 = 1 then natToHex v else fail
def optNzB (k v : Nat) (fail : String) : String := if v = 0 then fail else s!"{k}:{natToHex v}"
def optOddB (k v : Nat) (fail : String) : String := if v % 2 = 1 then s!"{k}:{natToHex v}" else fail

def words? (tok : String) : Option (List Nat) :=
  match tokToBytes? tok with
  | none => none
  | some bs =>
    if bs.length % 8 ≠ 0 then none else
    let rec go : Nat → List Nat → List Nat → List Nat
      | 0, _, acc => acc.reverse
      | k + 1, bs, acc => go k (bs.drop 8) (leVal (bs.take 8) :: acc)
    some (go (bs.length / 8) bs [])

/-- L0 of rejection sampling: first aligned group of `n` words with a non-zero value -/
def specNzRandom (n : Nat) : Nat → List Nat → Nat → String
  | 0, _, _ => "err:fuel"
  | f + 1, s, used =>
    if s.length < n then "err:exhausted" else
    let v := val ((s.take n).map (· % B))
    if v ≠ 0 then s!"{natToHex v} {used + n}" else specNzRandom n f (s.drop n) (used + n)

def isHexChar (c : Nat) : Bool := (48 ≤ c ∧ c ≤ 57) ∨ (65 ≤ c ∧ c ≤ 70) ∨ (97 ≤ c ∧ c ≤ 102)
def hexDigitVal (c : Nat) : Nat := if c ≤ 57 then c - 48 else if c ≤ 70 then c - 55 else c - 87
/-- L0 of a hex constructor of `Odd<Uint<n>>`: `le = true` for the little-endian reading -/
def specOddHex (n : Nat) (cs : List Nat) (le : Bool) : String :=
  if cs.length ≠ 16 * n ∨ ¬ cs.all isHexChar then "panic" else
  let rec bytes : List Nat → List Nat
    | h :: l :: r => (hexDigitVal h * 16 + hexDigitVal l) :: bytes r
    | _ => []
  let bs := bytes cs
  let v := if le then leVal bs else beVal bs
  optOdd v "panic"

def specFrame (n : Nat) (bs : List Nat) : Except String Nat :=
  if bs.length < 8 then .error "err:decode" else
  let len := leVal (bs.take 8)
  if bs.length - 8 < len then .error "err:decode" else
  if len ≠ 8 * n then .error "err:custom" else
  .ok (leVal ((bs.drop 8).take len))

/-- L0 of the serialised form: positional little-endian bytes behind the `u64` length `8n` -/
def specSerFrame (n x : Nat) : List Nat :=
  ((List.range 8).map fun i => 8 * n / 256 ^ i % 256) ++ ((List.range (8 * n)).map fun i => x / 256 ^ i % 256)

def intOf (n v : Nat) : Int := if v ≥ B ^ n / 2 then (v : Int) - (B ^ n : Nat) else v

def sel (c : String) : Option Nat := if c = "0" then some 0 else if c = "1" then some WMAX else none

/-- producers on `Uint<n>` / `Int<n>` operands: `args` = tokens after the limb count -/
def fixedOps (op : String) (n : Nat) (args : List String) : Option String :=
  let M := B ^ n
  let u1 (v : String) (f : List Nat → Nat → Option String) : Option String :=
    match hexToNat? v with
    | some x => if x < M then f (toLimbs n x) x else badArgs
    | none => badArgs
  let bytesN (t : String) (f : List Nat → Option String) : Option String :=
    match tokToBytes? t with
    | some bs => if bs.length = 8 * n then f bs else badArgs
    | none => badArgs
  let pair (x y c : String) (f : List Nat → List Nat → Nat → Nat → Nat → Nat → Option String) : Option String :=
    match hexToNat? x, hexToNat? y, sel c with
    | some a, some b, some m => if a < M ∧ b < M then f (toLimbs n a) (toLimbs n b) m a b (if m = 0 then 0 else 1) else badArgs
    | _, _, _ => badArgs
  match op, args with
  | "c12.nz.u.new", [v] | "c12.nz.i.new", [v] => u1 v fun a x => both (resStr (showU pNz) (nzNew a)) (optNz x "none")
  | "c12.nz.u.new_unwrap", [v] => u1 v fun a x => both (resStr (showU pNz) (nzNewUnwrap a)) (optNz x "panic")
  | "c12.nz.u.to_nz", [v] | "c12.nz.i.to_nz", [v] => u1 v fun a x => both (resStr (showU pNz) (uintToNz a)) (optNz x "none")
  | "c12.nz.u.to_nz_expect", [v] => u1 v fun a x => both (resStr (showU pNz) (expectRes (uintToNz a))) (optNz x "panic")
  | "c12.nz.u.from_prim", [bits, v] | "c12.nz.u.from_into", [bits, v] =>
    match bits.toNat?, hexToNat? v with
    | some bits, some x =>
      if x ≥ 2 ^ bits then badArgs else
      both (resStr (showU pNz) (nzFromPrim n bits x))
        (if x = 0 then "none" else if bits = 128 ∧ n < 2 then "panic" else natToHex x)
    | _, _ => badArgs
  | "c12.nz.u.const", ["one"] => both (resStr (showU pNz) (nzOne n)) "1"
  | "c12.nz.u.const", ["max"] => both (resStr (showU pNz) (nzMax n)) (natToHex (M - 1))
  | "c12.nz.i.const", ["one"] => both (resStr (showU pNz) (nzOne n)) "1"
  | "c12.nz.i.const", ["max"] => both (resStr (showU pNz) (nzIntMax n)) (natToHex (M / 2 - 1))
  | "c12.nz.u.default", [] | "c12.nz.i.default", [] => both (resStr (showU pNz) (nzDefault n)) "1"
  | "c12.nz.u.from_be_bytes", [t] => bytesN t fun bs => both (resStr (showU pNz) (nzFromBeBytes n bs)) (optNz (beVal bs) "none")
  | "c12.nz.u.from_le_bytes", [t] => bytesN t fun bs => both (resStr (showU pNz) (nzFromLeBytes n bs)) (optNz (leVal bs) "none")
  | "c12.nz.u.from_be_byte_array", [t] => bytesN t fun bs => both (resStr (showU pNz) (nzFromBeByteArray n bs)) (optNz (beVal bs) "none")
  | "c12.nz.u.from_le_byte_array", [t] => bytesN t fun bs => both (resStr (showU pNz) (nzFromLeByteArray n bs)) (optNz (leVal bs) "none")
  | "c12.nz.u.select", [x, y, c] | "c12.nz.u.cassign", [x, y, c] | "c12.nz.i.select", [x, y, c] =>
    pair x y c fun a b m va vb bit =>
      match nzNew a, nzNew b with
      | .ok a, .ok b => both (resStr (showU pNz) (wrapSelect a b m)) (if va = 0 ∨ vb = 0 then "none" else natToHex (if bit = 0 then va else vb))
      | _, _ => both "none" (if va = 0 ∨ vb = 0 then "none" else natToHex (if bit = 0 then va else vb))
  | "c12.nz.u.cswap", [x, y, c] =>
    pair x y c fun a b m va vb bit =>
      let l0 := if va = 0 ∨ vb = 0 then "none" else if bit = 0 then s!"{natToHex va} {natToHex vb}" else s!"{natToHex vb} {natToHex va}"
      match nzNew a, nzNew b with
      | .ok a, .ok b => let r := wrapSwap a b m; both s!"{showU pNz r.1} {showU pNz r.2}" l0
      | _, _ => both "none" l0
  | "c12.nz.u.random", [s] | "c12.nz.i.random", [s] =>
    match words? s with
    | some ws => both (resStr (fun r : List Nat × Nat => s!"{showU pNz r.1} {r.2}") (nzTryRandom n ws)) (specNzRandom n (ws.length + 1) ws 0)
    | none => badArgs
  | "c12.nz.u.random_inf", [s] =>
    match words? s with
    | some ws =>
      let t := ws ++ List.replicate (2 * n) WMAX
      both (resStr (fun r : List Nat × Nat => s!"{showU pNz r.1} {r.2}") (nzRandomInf n ws)) (specNzRandom n (t.length + 1) t 0)
    | none => badArgs
  | "c12.nz.u.deser", [t] =>
    match tokToBytes? t with
    | some bs => both (resStr (showU pNz) (nzDeser n bs))
        (match specFrame n bs with | .error e => e | .ok v => if v = 0 then "err:zero" else natToHex v)
    | none => badArgs
  | "c12.nz.u.zeroize", [v] => u1 v fun a x =>
      match nzNew a with
      | .ok a => both (resStr (showU pNz) (wrapZeroize a)) (if x = 0 then "none" else "1")
      | _ => both "none" (if x = 0 then "none" else "1")
  | "c12.nz.u.clone", [v] => u1 v fun a x =>
      match nzNew a with
      | .ok a => both (resStr (showU pNz) (wrapSame a)) (optNz x "none")
      | _ => both "none" (optNz x "none")
  -- ---- coverage round: AsRef<T>, AsRef<[Limb]>, Serialize (+ round trip)
  | "c12.nz.u.as_ref", [v] | "c12.nz.i.as_ref", [v] => u1 v fun a x =>
      match nzNew a with
      | .ok a => both (resStr (showU pNz) (wrapAsRef a)) (optNz x "none")
      | _ => both "none" (optNz x "none")
  | "c12.odd.u.as_ref", [v] => u1 v fun a x =>
      match oddNew a with
      | .ok a => both (resStr (showU pOdd) (wrapAsRef a)) (optOdd x "none")
      | _ => both "none" (optOdd x "none")
  | "c12.odd.i.as_ref", [v] => u1 v fun a x =>
      match uintToOdd a with
      | .ok a => both (resStr (showU pOdd) (wrapAsRef a)) (optOdd x "none")
      | _ => both "none" (optOdd x "none")
  | "c12.odd.u.as_ref_limbs", [v] => u1 v fun a x =>
      match oddNew a with
      | .ok a => both (resStr (showB pOdd) (oddAsRefLimbs a)) (optOddB n x "none")
      | _ => both "none" (optOddB n x "none")
  | "c12.odd.i.as_ref_limbs", [v] => u1 v fun a x =>
      match uintToOdd a with
      | .ok a => both (resStr (showB pOdd) (oddAsRefLimbs a)) (optOddB n x "none")
      | _ => both "none" (optOddB n x "none")
  | "c12.nz.u.ser", [v] => u1 v fun a x =>
      let l0 := if x = 0 then "none" else s!"{bytesToTok (specSerFrame n x)} {natToHex x}"
      match nzNew a with
      | .ok a => (match wrapSer a with
        | .ok bs => both s!"{bytesToTok bs} {resStr (showU pNz) (nzDeser n bs)}" l0
        | r => both (resStr bytesToTok r) l0)
      | _ => both "none" l0
  | "c12.odd.u.ser", [v] => u1 v fun a x =>
      let l0 := if x % 2 = 0 then "none" else s!"{bytesToTok (specSerFrame n x)} {natToHex x}"
      match oddNew a with
      | .ok a => (match wrapSer a with
        | .ok bs => both s!"{bytesToTok bs} {resStr (showU pOdd) (oddDeser n bs)}" l0
        | r => both (resStr bytesToTok r) l0)
      | _ => both "none" l0
  | "c12.nz.i.abs_sign", [v] => u1 v fun a x =>
      let i := intOf n x
      let l0 := if x = 0 then "none" else s!"{natToHex i.natAbs} {if i < 0 then 1 else 0}"
      match uintToNz a with
      | .ok a => both (resStr (fun r : List Nat × Nat => s!"{showU pNz r.1} {choiceTok r.2}") (nzIntAbsSign a)) l0
      | _ => both "none" l0
  -- ---- Odd
  | "c12.odd.u.new", [v] => u1 v fun a x => both (resStr (showU pOdd) (oddNew a)) (optOdd x "none")
  | "c12.odd.u.to_odd", [v] | "c12.odd.i.to_odd", [v] => u1 v fun a x => both (resStr (showU pOdd) (uintToOdd a)) (optOdd x "none")
  | "c12.odd.u.to_odd_expect", [v] => u1 v fun a x => both (resStr (showU pOdd) (expectRes (uintToOdd a))) (optOdd x "panic")
  | "c12.odd.u.default", [] | "c12.odd.i.default", [] => both (resStr (showU pOdd) (oddDefault n)) "1"
  | "c12.odd.u.default_as_nz", [] =>
    both (match oddDefault n with | .ok a => resStr (showU pNz) (oddAsNzRef a) | r => resStr (showU pNz) r) "1"
  | "c12.odd.u.from_be_hex", [t] =>
    match tokToBytes? t with
    | some cs => both (resStr (showU pOdd) (oddFromBeHex n cs)) (specOddHex n cs false)
    | none => badArgs
  | "c12.odd.u.from_le_hex", [t] =>
    match tokToBytes? t with
    | some cs => both (resStr (showU pOdd) (oddFromLeHex n cs)) (specOddHex n cs true)
    | none => badArgs
  | "c12.odd.u.select", [x, y, c] | "c12.odd.u.cassign", [x, y, c] =>
    pair x y c fun a b m va vb bit =>
      let l0 := if va % 2 = 0 ∨ vb % 2 = 0 then "none" else natToHex (if bit = 0 then va else vb)
      match oddNew a, oddNew b with
      | .ok a, .ok b => both (resStr (showU pOdd) (wrapSelect a b m)) l0
      | _, _ => both "none" l0
  | "c12.odd.i.select", [x, y, c] =>
    pair x y c fun a b m va vb bit =>
      let l0 := if va % 2 = 0 ∨ vb % 2 = 0 then "none" else natToHex (if bit = 0 then va else vb)
      match uintToOdd a, uintToOdd b with
      | .ok a, .ok b => both (resStr (showU pOdd) (wrapSelect a b m)) l0
      | _, _ => both "none" l0
  | "c12.odd.u.cswap", [x, y, c] =>
    pair x y c fun a b m va vb bit =>
      let l0 := if va % 2 = 0 ∨ vb % 2 = 0 then "none" else if bit = 0 then s!"{natToHex va} {natToHex vb}" else s!"{natToHex vb} {natToHex va}"
      match oddNew a, oddNew b with
      | .ok a, .ok b => let r := wrapSwap a b m; both s!"{showU pOdd r.1} {showU pOdd r.2}" l0
      | _, _ => both "none" l0
  | "c12.odd.u.random", [s] =>
    match words? s with
    | some ws => both (resStr (fun r : List Nat × Nat => s!"{showU pOdd r.1} {r.2}") (oddTryRandom n ws))
        (if ws.length < n then "err:exhausted" else
          let v := val ((ws.take n).map (· % B)); s!"{natToHex (v - v % 2 + 1)} {n}")
    | none => badArgs
  | "c12.odd.u.random_inf", [s] =>
    match words? s with
    | some ws =>
      let t := ws ++ List.replicate n WMAX
      both (resStr (fun r : List Nat × Nat => s!"{showU pOdd r.1} {r.2}") (oddRandomInf n ws))
        (let v := val ((t.take n).map (· % B)); s!"{natToHex (v - v % 2 + 1)} {n}")
    | none => badArgs
  | "c12.odd.u.deser", [t] =>
    match tokToBytes? t with
    | some bs => both (resStr (showU pOdd) (oddDeser n bs))
        (match specFrame n bs with | .error e => e | .ok v => if v % 2 = 0 then "err:even" else natToHex v)
    | none => badArgs
  | "c12.odd.u.as_nz_ref", [v] | "c12.odd.u.as_ref_nz", [v] => u1 v fun a x =>
      match oddNew a with
      | .ok a => both (resStr (showU pNz) (oddAsNzRef a)) (optOdd x "none")
      | _ => both "none" (optOdd x "none")
  | "c12.odd.u.zeroize", [v] => u1 v fun a x =>
      match oddNew a with
      | .ok a => both (resStr (showU pOdd) (wrapZeroize a)) (if x % 2 = 0 then "none" else "1")
      | _ => both "none" (if x % 2 = 0 then "none" else "1")
  | "c12.odd.u.clone", [v] | "c12.odd.u.monty_modulus", [v] => u1 v fun a x =>
      match oddNew a with
      | .ok a => both (resStr (showU pOdd) (wrapSame a)) (optOdd x "none")
      | _ => both "none" (optOdd x "none")
  | "c12.odd.u.into_boxed", [v] | "c12.odd.u.ref_into_boxed", [v] => u1 v fun a x =>
      match oddNew a with
      | .ok a => both (resStr (showB pOdd) (oddIntoBoxed a)) (optOddB n x "none")
      | _ => both "none" (optOddB n x "none")
  | _, _ => none

def limbOps (op : String) (args : List String) : Option String :=
  let l1 (v : String) (f : Nat → Option String) : Option String :=
    match hexToNat? v with
    | some x => if x < B then f x else badArgs
    | none => badArgs
  let sh := resStr (showL pNz)
  match op, args with
  | "c12.nz.l.new", [v] => l1 v fun x => both (sh (nzLimbNew x)) (optNz x "none")
  | "c12.nz.l.new_unwrap", [v] => l1 v fun x => both (sh (nzLimbNewUnwrap x)) (optNz x "panic")
  | "c12.nz.l.to_nz", [v] => l1 v fun x => both (sh (limbToNz x)) (optNz x "none")
  | "c12.nz.l.to_nz_expect", [v] => l1 v fun x => both (sh (limbToNzExpect x)) (optNz x "panic")
  | "c12.nz.l.from_prim", [bits, v] | "c12.nz.l.from_into", [bits, v] =>
    match bits.toNat?, hexToNat? v with
    | some bits, some x => if x ≥ 2 ^ bits ∨ bits > 64 then badArgs else both (sh (nzLimbFromPrim bits x)) (optNz x "none")
    | _, _ => badArgs
  | "c12.nz.l.const", ["one"] => both (sh nzLimbOne) "1"
  | "c12.nz.l.const", ["max"] => both (sh nzLimbMax) (natToHex (B - 1))
  | "c12.nz.l.default", [] => both (sh nzLimbDefault) "1"
  | "c12.odd.l.default", [] => both (resStr (showL pOdd) oddLimbDefault) "1"
  | "c12.nz.l.from_be_bytes", [t] =>
    match tokToBytes? t with
    | some bs => if bs.length = 8 then both (sh (nzLimbFromBeBytes bs)) (optNz (beVal bs) "none") else badArgs
    | none => badArgs
  | "c12.nz.l.from_le_bytes", [t] =>
    match tokToBytes? t with
    | some bs => if bs.length = 8 then both (sh (nzLimbFromLeBytes bs)) (optNz (leVal bs) "none") else badArgs
    | none => badArgs
  | "c12.nz.l.select", [x, y, c] | "c12.nz.l.cassign", [x, y, c] | "c12.nz.l.cswap", [x, y, c] =>
    match hexToNat? x, hexToNat? y, sel c with
    | some a, some b, some m =>
      if a ≥ B ∨ b ≥ B then badArgs else
      let swap := op = "c12.nz.l.cswap"
      let pick := if m = 0 then a else b
      let other := if m = 0 then b else a
      let l0 := if a = 0 ∨ b = 0 then "none" else if swap then s!"{natToHex pick} {natToHex other}" else natToHex pick
      match nzLimbNew a, nzLimbNew b with
      | .ok a, .ok b =>
        if swap then both s!"{showL pNz (selectWord a b m)} {showL pNz (selectWord b a m)}" l0
        else both (sh (nzLimbSelect a b m)) l0
      | _, _ => both "none" l0
    | _, _, _ => badArgs
  | "c12.nz.l.random", [s] =>
    match words? s with
    | some ws => both (resStr (fun r : List Nat × Nat => s!"{showU pNz r.1} {r.2}") (nzTryRandom 1 ws)) (specNzRandom 1 (ws.length + 1) ws 0)
    | none => badArgs
  | "c12.nz.l.random_inf", [s] =>
    match words? s with
    | some ws =>
      let t := ws ++ List.replicate 2 WMAX
      both (resStr (fun r : List Nat × Nat => s!"{showU pNz r.1} {r.2}") (nzRandomInf 1 ws)) (specNzRandom 1 (t.length + 1) t 0)
    | none => badArgs
  | "c12.nz.l.deser", [t] =>
    match tokToBytes? t with
    | some bs => both (sh (nzLimbDeser bs))
        (if bs.length < 8 then "err:decode" else let v := leVal (bs.take 8); if v = 0 then "err:zero" else natToHex v)
    | none => badArgs
  | "c12.nz.l.as_ref", [v] => l1 v fun x =>
      match nzLimbNew x with
      | .ok y => both (sh (wrapLimbAsRef y)) (optNz x "none")
      | _ => both "none" (optNz x "none")
  | "c12.odd.l.as_ref", [] =>
      match oddLimbDefault with
      | .ok y => both (resStr (showL pOdd) (wrapLimbAsRef y)) "1"
      | r => both (resStr (showL pOdd) r) "1"
  | "c12.nz.l.ser", [v] => l1 v fun x =>
      let l0 := if x = 0 then "none" else s!"{bytesToTok ((List.range 8).map fun i => x / 256 ^ i % 256)} {natToHex x}"
      match nzLimbNew x with
      | .ok y => (match wrapLimbSer y with
        | .ok bs => both s!"{bytesToTok bs} {sh (nzLimbDeser bs)}" l0
        | r => both (resStr bytesToTok r) l0)
      | _ => both "none" l0
  | "c12.odd.l.ser", [] =>
      match oddLimbDefault with
      | .ok y => both (resStr bytesToTok (wrapLimbSer y)) (bytesToTok [1, 0, 0, 0, 0, 0, 0, 0])
      | r => both (resStr (showL pOdd) r) (bytesToTok [1, 0, 0, 0, 0, 0, 0, 0])
  | "c12.nz.l.zeroize", [v] => l1 v fun x =>
      match nzLimbNew x with
      | .ok x => both (sh (nzLimbZeroize x)) "1"
      | _ => both "none" "none"
  | _, _ => none

def boxedOps (op : String) (args : List String) : Option String :=
  let b1 (k v : String) (f : List Nat → Nat → Nat → Option String) : Option String :=
    match k.toNat?, hexToNat? v with
    | some k, some x => if x < B ^ k then f (toLimbs k x) k x else badArgs
    | _, _ => badArgs
  match op, args with
  | "c12.nz.b.new", [k, v] => b1 k v fun a k x => both (resStr (showB pNz) (nzBoxedNew a)) (optNzB k x "none")
  | "c12.nz.b.widen", [k, v, bits] =>
    match bits.toNat? with
    | some bits => b1 k v fun a k x =>
        let l0 := if x = 0 then "none" else if bits < 64 * k then "panic" else s!"{max 1 ((bits + 63) / 64)}:{natToHex x}"
        match nzBoxedNew a with
        | .ok a => both (resStr (showB pNz) (nzBoxedWiden a bits)) l0
        | _ => both "none" l0
    | none => badArgs
  | "c12.nz.b.clone", [k, v] => b1 k v fun a k x =>
      match nzBoxedNew a with
      | .ok a => both (resStr (showB pNz) (wrapSame a)) (optNzB k x "none")
      | _ => both "none" (optNzB k x "none")
  | "c12.nz.b.zeroize", [k, v] => b1 k v fun a k x =>
      match nzBoxedNew a with
      | .ok a => both (resStr (showB pNz) (wrapZeroize a)) (if x = 0 then "none" else s!"{k}:1")
      | _ => both "none" (if x = 0 then "none" else s!"{k}:1")
  | "c12.nz.b.as_ref", [k, v] => b1 k v fun a k x =>
      match nzBoxedNew a with
      | .ok a => both (resStr (showB pNz) (wrapAsRef a)) (optNzB k x "none")
      | _ => both "none" (optNzB k x "none")
  | "c12.odd.b.as_ref", [k, v] => b1 k v fun a k x =>
      match oddNew a with
      | .ok a => both (resStr (showB pOdd) (wrapAsRef a)) (optOddB k x "none")
      | _ => both "none" (optOddB k x "none")
  | "c12.odd.b.as_ref_limbs", [k, v] => b1 k v fun a k x =>
      match oddNew a with
      | .ok a => both (resStr (showB pOdd) (oddAsRefLimbs a)) (optOddB k x "none")
      | _ => both "none" (optOddB k x "none")
  | "c12.odd.b.new", [k, v] | "c12.odd.b.to_odd", [k, v] => b1 k v fun a k x => both (resStr (showB pOdd) (oddNew a)) (optOddB k x "none")
  | "c12.odd.b.default", [] => both (resStr (showB pOdd) oddBoxedDefault) "1:1"
  | "c12.odd.b.random", [bits, s] =>
    match bits.toNat?, words? s with
    | some bits, some ws =>
      let k := (bits + 63) / 64
      let l0 := if bits = 0 then "1:1 0" else if ws.length < k then "panic" else
        let v := val ((ws.take k).map (· % B)) % 2 ^ bits
        s!"{k}:{natToHex (v - v % 2 + 1)} {k}"
      both (resStr (fun r : List Nat × Nat => s!"{showB pOdd r.1} {r.2}") (oddBoxedRandom bits ws)) l0
    | _, _ => badArgs
  | "c12.odd.b.as_nz_ref", [k, v] => b1 k v fun a k x =>
      match oddNew a with
      | .ok a => both (resStr (showB pNz) (oddAsNzRef a)) (optOddB k x "none")
      | _ => both "none" (optOddB k x "none")
  | "c12.odd.b.clone", [k, v] | "c12.odd.b.monty_modulus", [k, v] => b1 k v fun a k x =>
      match oddNew a with
      | .ok a => both (resStr (showB pOdd) (wrapSame a)) (optOddB k x "none")
      | _ => both "none" (optOddB k x "none")
  | "c12.odd.b.zeroize", [k, v] => b1 k v fun a k x =>
      match oddNew a with
      | .ok a => both (resStr (showB pOdd) (wrapZeroize a)) (if x % 2 = 0 then "none" else s!"{k}:1")
      | _ => both "none" (if x % 2 = 0 then "none" else s!"{k}:1")
  | _, _ => none

end CB.Wrappers.D12

namespace CB
open CB.Wrappers

/-- operations of property C12 (op names start with `c12.`) -/
def dispatchC12 : Dispatch := fun op args =>
  if op = "c12.inventory" then some ("producer-unknown-to-model:" ++ "_".intercalate args)
  else if op = "c12.inventory.ok" then some ("covered " ++ " ".intercalate args)
  else
  match op.splitOn "." with
  | [_, _, "l", _] => Wrappers.D12.limbOps op args
  | [_, _, "b", _] => Wrappers.D12.boxedOps op args
  | [_, _, _, _] =>
    match args with
    | n :: rest =>
      match n.toNat? with
      | some n => if n = 1 ∨ n = 2 ∨ n = 4 then Wrappers.D12.fixedOps op n rest else some "unsupported-width"
      | none => badArgs
    | [] => none
  | _ => none

end CB
