import CB.Driver.Util
namespace CB

/-- operations of property C12 (op names start with `c12.`) -/
def dispatchC12 : Dispatch := fun _ _ => none

end CB
