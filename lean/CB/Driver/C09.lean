/-
  CB.Driver.C09 — line protocol of property C09 (pow, multi-exponentiation, lincomb).

    c09.pow    <kind> <form> <n> <m> <ne> <base> <exp>        kind ∈ dyn const boxed; form ∈ m (inherent) t (Pow trait)
    c09.powb   <kind> <form> <n> <m> <ne> <base> <exp> <k>    pow_bounded_exp; form ∈ m | t (PowBoundedExp trait)
    c09.multi  <kind> <form> <n> <m> <ne> <b,e;b,e;…|->        MultiExponentiate; form ∈ arr | slice
    c09.multib <kind> <form> <n> <m> <ne> <k> <b,e;…|->        MultiExponentiateBoundedExp
    c09.lincomb <kind> <n> <m> <a,b;a,b;…|->                  lincomb_vartime
  `n` limbs of the modulus/bases, `ne` limbs of the exponents; bases / a / b are plain integers (converted with
  `new`). Output: `<retrieve()> <montgomery form>` (boxed: both as `<nlimbs>:<hex>`), always `L1 ;; L0`.
-/
import CB.Driver.Util
import CB.Model.Pow
import CB.Model.Lincomb
namespace CB
open CB.Monty

namespace C09drv

def initState (kind : String) (ms : List Nat) : Option State :=
  match kind with
  | "dyn" => some { rep := .dyn, params := paramsNew ms, store := [] }
  | "const" => some { rep := .const, params := paramsConst ms, store := [] }
  | "boxed" => some { rep := .boxed, params := paramsBoxed ms, store := [] }
  | _ => none

def parsePairs (s : String) : Option (List (Nat × Nat)) :=
  if s = "-" then some [] else
  (s.splitOn ";").mapM fun p =>
    match p.splitOn "," with
    | [a, b] => match hexToNat? a, hexToNat? b with
      | some a, some b => some (a, b)
      | _, _ => none
    | _ => none

def outTok (st : State) (z : List Nat) : String :=
  match st.rep with
  | .boxed => s!"{limbsHexLen (opRetrieve st z)} {limbsHexLen z}"
  | _ => s!"{limbsHex (opRetrieve st z)} {limbsHex z}"

def specTok (st : State) (n m r : Nat) : String :=
  match st.rep with
  | .boxed => s!"{n}:{natToHex r} {n}:{natToHex ((r * B ^ n) % m)}"
  | _ => s!"{natToHex r} {natToHex ((r * B ^ n) % m)}"

/-- single exponentiation, `bits` already resolved. -/
def runPow (st : State) (n m ne base e bits : Nat) : String :=
  let x := opNew st base
  let el := toLimbs ne e
  if Pow.indexPanics bits [el] then "panic" else
  let z := Pow.opPow st x el bits
  outTok st z ++ " ;; " ++ specTok st n m (Pow.modPow m (base % m) (e % 2 ^ bits))

def multiSpecFast (m bits : Nat) : List (Nat × Nat) → Nat
  | [] => 1 % m
  | (x, e) :: rest => (Pow.modPow m (x % m) (e % 2 ^ bits) * multiSpecFast m bits rest) % m

def runMulti (st : State) (form : String) (n m ne bits : Nat) (bes : List (Nat × Nat)) : Option String :=
  let p := st.params
  let l := bes.map fun be => (opNew st be.1, toLimbs ne be.2)
  -- MontyForm impls assert a non-empty input; the ConstMontyForm impls do not
  if bes.isEmpty && st.rep == .dyn then some "panic" else
  if Pow.indexPanics bits (l.map (·.2)) then some "panic" else
  match st.rep, form with
  | .boxed, _ => none
  | _, "arr" => some (outTok st (Pow.multiExpArray l bits p.modulus p.one p.modNegInv) ++ " ;; "
                       ++ specTok st n m (multiSpecFast m bits bes))
  | _, "slice" => some (outTok st (Pow.multiExpSlice l bits p.modulus p.one p.modNegInv) ++ " ;; "
                       ++ specTok st n m (multiSpecFast m bits bes))
  | _, _ => none

def runLincomb (st : State) (n m : Nat) (abs : List (Nat × Nat)) : String :=
  let l := abs.map fun ab => (opNew st ab.1, opNew st ab.2)
  -- MontyForm / BoxedMontyForm::lincomb_vartime: documented panic on empty input
  if abs.isEmpty && st.rep != .const then "panic" else
  let z := Lincomb.opLincomb st l
  outTok st z ++ " ;; " ++ specTok st n m (Lincomb.sumSpec m (abs.map fun ab => (ab.1 % m, ab.2 % m)))

/-! ### hook-level ops (`crypto_bigint::verif_hooks`): the crate-internal functions on RAW Montgomery-domain
    limbs. L1 = the model function the lemmas are stated about; L0 (plain `Nat` arithmetic) is printed where
    the inputs satisfy the function's contract, otherwise L1 alone. -/

/-- `m⁻¹ mod 2^bits` for odd `m` (Newton: `x ← x(2 − m x)`), then negated: `−m⁻¹ mod 2^bits`. -/
def negInvPow2 (m bits : Nat) : Nat :=
  let r := 2 ^ bits
  let stp := fun x => (x * ((2 * r + 2 - (m * x) % r) % r)) % r
  let rec go : Nat → Nat → Nat
    | 0, x => x
    | f + 1, x => go f (stp x)
  (r - go (Nat.log2 bits + 2) 1 % r) % r

/-- the modular inverse of `R = B^n` modulo the odd `m`: from `R·R⁻¹ = 1 + N·m` with `N = −m⁻¹ mod R`:
    `R⁻¹ = (1 + N·m) / R`. -/
def rInv (n m : Nat) : Nat := ((1 + negInvPow2 m (64 * n) * m) / B ^ n) % m

def joinComma (l : List String) : String := String.intercalate "," l

/-- inputs on which the C08/C09 lemmas speak: odd modulus (non-zero), `k·m ≡ −1 (mod 2^64)`. -/
def modOK (n m k : Nat) : Bool := m % 2 = 1 && m < B ^ n && (k * m + 1) % B = 0 && k < B

/-- `compute_powers(x, m, one, k)`; L0 for canonical inputs (`one = R mod m`, `x < m`): entry `j` is the Montgomery
    form of `X^j`, `X = x·R⁻¹ mod m`. -/
def runComputePowers (n m one k x : Nat) : String :=
  let ms := toLimbs n m
  let t := Pow.computePowers (toLimbs n x) ms (toLimbs n one) k
  let l1 := joinComma (t.map limbsHex)
  if modOK n m k && one = B ^ n % m && x < m then
    let X := x * rInv n m % m
    l1 ++ " ;; " ++ joinComma ((List.range Pow.TABLE).map fun j => natToHex (Pow.modPow m X j * (B ^ n % m) % m))
  else l1

def parseTables (s : String) : Option (List (List Nat × Nat)) :=
  if s = "-" then some [] else
  (s.splitOn ";").mapM fun p =>
    match p.splitOn "," with
    | [tab, e] => match (tab.splitOn ":").mapM hexToNat?, hexToNat? e with
      | some t, some e => if t.length = Pow.TABLE then some (t, e) else none
      | _, _ => none
    | _ => none

/-- is `t` the table of Montgomery forms of `X^0 … X^15` for `X = t[1]·R⁻¹`? -/
def isPowerTable (n m : Nat) (t : List Nat) : Bool :=
  let X := t.getD 1 0 * rInv n m % m
  (List.range Pow.TABLE).all fun j => t.getD j 0 == Pow.modPow m X j * (B ^ n % m) % m

/-- `multi_exponentiate_montgomery_form_internal` on caller-provided tables. `exponent_bits = 0`: the code
    computes `exponent_bits - 1` (overflow panic with checks; without, the wrapped `starting_limb` indexes the
    exponent out of bounds) — a panic in both profiles as soon as there is a term; not generated without terms. -/
def runMultiInternal (n ne m one k bits : Nat) (tabs : List (List Nat × Nat)) : String :=
  let ms := toLimbs n m
  let pes := tabs.map fun te => (te.1.map (toLimbs n), toLimbs ne te.2)
  if bits = 0 || Pow.indexPanics bits (pes.map (·.2)) then "panic" else
  let z := Pow.multiExpInternal pes bits ms (toLimbs n one) k
  if modOK n m k && one = B ^ n % m && tabs.all (fun te => isPowerTable n m te.1) then
    let r := multiSpecFast m bits (tabs.map fun te => (te.1.getD 1 0 * rInv n m % m, te.2))
    limbsHex z ++ " ;; " ++ natToHex (r * (B ^ n % m) % m)
  else limbsHex z

/-- ONE pass of `impl_longa_monty_lincomb!` → `(u, hi_carry)`. L0 for a proper `k` and ANY limbs `a, b < B^n`,
    any number of terms: the interleaved reduction adds the multiple `Q·m`, `Q = S·(−m⁻¹) mod R`, that clears
    the low `n` limbs of `S = Σ aᵢ·bᵢ`, so `u + hi_carry·R = (S + Q·m) / R` exactly. -/
def runLonga (boxed : Bool) (n m k : Nat) (abs : List (Nat × Nat)) : String :=
  let ms := toLimbs n m
  let r := Lincomb.longa (abs.map fun ab => (toLimbs n ab.1, toLimbs n ab.2)) ms k
  let l1 := (if boxed then limbsHexLen r.1 else limbsHex r.1) ++ " " ++ natToHex r.2
  -- `BoxedMontyForm::as_montgomery()` (called by the macro for every limb read) carries
  -- `debug_assert!(self.montgomery_form < self.params.modulus)`: unreduced boxed limbs panic with debug assertions
  let unred := boxed && abs.any (fun ab => ab.1 ≥ m || ab.2 ≥ m)
  let l1 := if unred then l1 ++ " ## panic" else l1
  if modOK n m k && !unred then
    let R := B ^ n
    let S := abs.foldl (fun acc ab => acc + ab.1 * ab.2) 0
    let Q := S * negInvPow2 m (64 * n) % R
    let U := (S + Q * m) / R
    if (S + Q * m) % R ≠ 0 then "bad-l0" else
    l1 ++ " ;; " ++ (if boxed then s!"{n}:{natToHex (U % R)}" else natToHex (U % R)) ++ " " ++ natToHex (U / R)
  else l1

/-- boxed `pow_montgomery_form(x, e, bits, m, one, k)`. The closing `debug_assert!(&z < modulus)` makes the
    overflow-checking profile panic when the two conditional subtractions do not reach `[0, m)` (possible only
    for inputs outside the contract). L0 for canonical inputs: the Montgomery form of `X^(e mod 2^bits)`. -/
def runBPow (n ne m one k bits x e : Nat) : String :=
  let ms := toLimbs n m
  let el := toLimbs ne e
  if Pow.indexPanics bits [el] then "panic" else
  let z := Pow.bPowMont (toLimbs n x) el bits ms (toLimbs n one) k
  let l1 := if bits = 0 || val z < m then limbsHexLen z else limbsHexLen z ++ " ## panic"
  if modOK n m k && one = B ^ n % m && x < m then
    let X := x * rInv n m % m
    l1 ++ " ;; " ++ s!"{n}:{natToHex (Pow.modPow m X (e % 2 ^ bits) * (B ^ n % m) % m)}"
  else l1

end C09drv
open C09drv

/-- operations of property C09 (op names start with `c09.`) -/
def dispatchC09 : Dispatch := fun op args =>
  match op, args with
  | "c09.pow", [kind, form, n, m, ne, base, e] =>
    match n.toNat?, hexToNat? m, ne.toNat?, hexToNat? base, hexToNat? e with
    | some n, some m, some ne, some base, some e =>
      match initState kind (toLimbs n m) with
      | some st =>
        if (form = "m" || (form = "t" && kind != "boxed")) && m % 2 = 1 && n > 0 then
          some (runPow st n m ne base e (64 * ne))
        else badArgs
      | none => badArgs
    | _, _, _, _, _ => badArgs
  | "c09.powb", [kind, form, n, m, ne, base, e, k] =>
    match n.toNat?, hexToNat? m, ne.toNat?, hexToNat? base, hexToNat? e, k.toNat? with
    | some n, some m, some ne, some base, some e, some k =>
      match initState kind (toLimbs n m) with
      | some st =>
        if (form = "m" || form = "t") && m % 2 = 1 && n > 0 then some (runPow st n m ne base e k) else badArgs
      | none => badArgs
    | _, _, _, _, _, _ => badArgs
  | "c09.multi", [kind, form, n, m, ne, bes] =>
    match n.toNat?, hexToNat? m, ne.toNat?, parsePairs bes with
    | some n, some m, some ne, some bes =>
      match initState kind (toLimbs n m) with
      | some st => if m % 2 = 1 && n > 0 then (runMulti st form n m ne (64 * ne) bes).orElse (fun _ => badArgs) else badArgs
      | none => badArgs
    | _, _, _, _ => badArgs
  | "c09.multib", [kind, form, n, m, ne, k, bes] =>
    match n.toNat?, hexToNat? m, ne.toNat?, k.toNat?, parsePairs bes with
    | some n, some m, some ne, some k, some bes =>
      match initState kind (toLimbs n m) with
      | some st => if m % 2 = 1 && n > 0 then (runMulti st form n m ne k bes).orElse (fun _ => badArgs) else badArgs
      | none => badArgs
    | _, _, _, _, _ => badArgs
  | "c09.lincomb", [kind, n, m, abs] =>
    match n.toNat?, hexToNat? m, parsePairs abs with
    | some n, some m, some abs =>
      match initState kind (toLimbs n m) with
      | some st => if m % 2 = 1 && n > 0 then some (runLincomb st n m abs) else badArgs
      | none => badArgs
    | _, _, _ => badArgs
  | "c09.hook.compute_powers", [n, m, one, k, x] =>
    match n.toNat?, hexToNat? m, hexToNat? one, hexToNat? k, hexToNat? x with
    | some n, some m, some one, some k, some x =>
      if m % 2 = 1 && n > 0 then some (runComputePowers n m one k x) else badArgs
    | _, _, _, _, _ => badArgs
  | "c09.hook.multi_internal", [n, ne, m, one, k, bits, tabs] =>
    match n.toNat?, ne.toNat?, hexToNat? m, hexToNat? one, hexToNat? k, bits.toNat?, parseTables tabs with
    | some n, some ne, some m, some one, some k, some bits, some tabs =>
      if m % 2 = 1 && n > 0 && ne > 0 && !(bits = 0 && tabs.isEmpty) then some (runMultiInternal n ne m one k bits tabs)
      else badArgs
    | _, _, _, _, _, _, _ => badArgs
  | "c09.hook.longa", [n, m, k, abs] | "c09.hook.blonga", [n, m, k, abs] =>
    match n.toNat?, hexToNat? m, hexToNat? k, parsePairs abs with
    | some n, some m, some k, some abs =>
      if m % 2 = 1 && n > 0 then some (runLonga (op = "c09.hook.blonga") n m k abs) else badArgs
    | _, _, _, _ => badArgs
  | "c09.hook.bpow", [n, ne, m, one, k, bits, x, e] =>
    match n.toNat?, ne.toNat?, hexToNat? m, hexToNat? one, hexToNat? k, bits.toNat?, hexToNat? x, hexToNat? e with
    | some n, some ne, some m, some one, some k, some bits, some x, some e =>
      if m % 2 = 1 && n > 0 && ne > 0 then some (runBPow n ne m one k bits x e) else badArgs
    | _, _, _, _, _, _, _, _ => badArgs
  | _, _ => none

end CB
