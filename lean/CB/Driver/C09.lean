/-
  CB.Driver.C09 — line protocol of property C09 (pow, multi-exponentiation, lincomb).

    c09.pow    <kind> <form> <n> <m> <ne> <base> <exp>        kind ∈ dyn const boxed; form ∈ m (inherent) t (Pow trait)
    c09.powb   <kind> <form> <n> <m> <ne> <base> <exp> <k>    pow_bounded_exp; form ∈ m | t (PowBoundedExp trait)
    c09.multi  <kind> <form> <n> <m> <ne> <b,e;b,e;…|->        MultiExponentiate; form ∈ arr | slice
    c09.multib <kind> <form> <n> <m> <ne> <k> <b,e;…|->        MultiExponentiateBoundedExp
    c09.lincomb <kind> <n> <m> <a,b;a,b;…|->                  lincomb_vartime
  `n` limbs of the modulus/bases, `ne` limbs of the exponents; bases / a / b are plain integers (converted with
  `new`). Output: `<retrieve()> <montgomery form>` (boxed: both as `<nlimbs>:<hex>`), always `L1 ;; L0`.
-/
import CB.Driver.Util
import CB.Model.Pow
import CB.Model.Lincomb
namespace CB
open CB.Monty

namespace C09drv

def initState (kind : String) (ms : List Nat) : Option State :=
  match kind with
  | "dyn" => some { rep := .dyn, params := paramsNew ms, store := [] }
  | "const" => some { rep := .const, params := paramsConst ms, store := [] }
  | "boxed" => some { rep := .boxed, params := paramsBoxed ms, store := [] }
  | _ => none

def parsePairs (s : String) : Option (List (Nat × Nat)) :=
  if s = "-" then some [] else
  (s.splitOn ";").mapM fun p =>
    match p.splitOn "," with
    | [a, b] => match hexToNat? a, hexToNat? b with
      | some a, some b => some (a, b)
      | _, _ => none
    | _ => none

def outTok (st : State) (z : List Nat) : String :=
  match st.rep with
  | .boxed => s!"{limbsHexLen (opRetrieve st z)} {limbsHexLen z}"
  | _ => s!"{limbsHex (opRetrieve st z)} {limbsHex z}"

def specTok (st : State) (n m r : Nat) : String :=
  match st.rep with
  | .boxed => s!"{n}:{natToHex r} {n}:{natToHex ((r * B ^ n) % m)}"
  | _ => s!"{natToHex r} {natToHex ((r * B ^ n) % m)}"

/-- single exponentiation, `bits` already resolved. -/
def runPow (st : State) (n m ne base e bits : Nat) : String :=
  let x := opNew st base
  let el := toLimbs ne e
  if Pow.indexPanics bits [el] then "panic" else
  let z := Pow.opPow st x el bits
  outTok st z ++ " ;; " ++ specTok st n m (Pow.modPow m (base % m) (e % 2 ^ bits))

def multiSpecFast (m bits : Nat) : List (Nat × Nat) → Nat
  | [] => 1 % m
  | (x, e) :: rest => (Pow.modPow m (x % m) (e % 2 ^ bits) * multiSpecFast m bits rest) % m

def runMulti (st : State) (form : String) (n m ne bits : Nat) (bes : List (Nat × Nat)) : Option String :=
  let p := st.params
  let l := bes.map fun be => (opNew st be.1, toLimbs ne be.2)
  -- MontyForm impls assert a non-empty input; the ConstMontyForm impls do not
  if bes.isEmpty && st.rep == .dyn then some "panic" else
  if Pow.indexPanics bits (l.map (·.2)) then some "panic" else
  match st.rep, form with
  | .boxed, _ => none
  | _, "arr" => some (outTok st (Pow.multiExpArray l bits p.modulus p.one p.modNegInv) ++ " ;; "
                       ++ specTok st n m (multiSpecFast m bits bes))
  | _, "slice" => some (outTok st (Pow.multiExpSlice l bits p.modulus p.one p.modNegInv) ++ " ;; "
                       ++ specTok st n m (multiSpecFast m bits bes))
  | _, _ => none

def runLincomb (st : State) (n m : Nat) (abs : List (Nat × Nat)) : String :=
  let l := abs.map fun ab => (opNew st ab.1, opNew st ab.2)
  -- MontyForm / BoxedMontyForm::lincomb_vartime: documented panic on empty input
  if abs.isEmpty && st.rep != .const then "panic" else
  let z := Lincomb.opLincomb st l
  outTok st z ++ " ;; " ++ specTok st n m (Lincomb.sumSpec m (abs.map fun ab => (ab.1 % m, ab.2 % m)))

end C09drv
open C09drv

/-- operations of property C09 (op names start with `c09.`) -/
def dispatchC09 : Dispatch := fun op args =>
  match op, args with
  | "c09.pow", [kind, form, n, m, ne, base, e] =>
    match n.toNat?, hexToNat? m, ne.toNat?, hexToNat? base, hexToNat? e with
    | some n, some m, some ne, some base, some e =>
      match initState kind (toLimbs n m) with
      | some st =>
        if (form = "m" || (form = "t" && kind != "boxed")) && m % 2 = 1 && n > 0 then
          some (runPow st n m ne base e (64 * ne))
        else badArgs
      | none => badArgs
    | _, _, _, _, _ => badArgs
  | "c09.powb", [kind, form, n, m, ne, base, e, k] =>
    match n.toNat?, hexToNat? m, ne.toNat?, hexToNat? base, hexToNat? e, k.toNat? with
    | some n, some m, some ne, some base, some e, some k =>
      match initState kind (toLimbs n m) with
      | some st =>
        if (form = "m" || form = "t") && m % 2 = 1 && n > 0 then some (runPow st n m ne base e k) else badArgs
      | none => badArgs
    | _, _, _, _, _, _ => badArgs
  | "c09.multi", [kind, form, n, m, ne, bes] =>
    match n.toNat?, hexToNat? m, ne.toNat?, parsePairs bes with
    | some n, some m, some ne, some bes =>
      match initState kind (toLimbs n m) with
      | some st => if m % 2 = 1 && n > 0 then (runMulti st form n m ne (64 * ne) bes).orElse (fun _ => badArgs) else badArgs
      | none => badArgs
    | _, _, _, _ => badArgs
  | "c09.multib", [kind, form, n, m, ne, k, bes] =>
    match n.toNat?, hexToNat? m, ne.toNat?, k.toNat?, parsePairs bes with
    | some n, some m, some ne, some k, some bes =>
      match initState kind (toLimbs n m) with
      | some st => if m % 2 = 1 && n > 0 then (runMulti st form n m ne k bes).orElse (fun _ => badArgs) else badArgs
      | none => badArgs
    | _, _, _, _, _ => badArgs
  | "c09.lincomb", [kind, n, m, abs] =>
    match n.toNat?, hexToNat? m, parsePairs abs with
    | some n, some m, some abs =>
      match initState kind (toLimbs n m) with
      | some st => if m % 2 = 1 && n > 0 then some (runLincomb st n m abs) else badArgs
      | none => badArgs
    | _, _, _ => badArgs
  | _, _ => none

end CB
