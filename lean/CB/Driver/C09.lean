import CB.Driver.Util
namespace CB

/-- operations of property C09 (op names start with `c09.`) -/
def dispatchC09 : Dispatch := fun _ _ => none

end CB
