/-
  CB.Driver.C15 — line protocol of property C15 (all routes to the same operation agree).

  One op line = one route FAMILY.  The harness (harness/src/ops/c15.rs) executes every route of the family
  on the same input and prints `r1 | r2 | …`; this driver prints the same tuple twice:
      <L1 of route 1> | <L1 of route 2> | …  ;;  <L0 of route 1> | <L0 of route 2> | …
  L1 of a route = the limb-level model function of THAT route (the models of C02–C07, C20; a route that
  merely forwards shares the model function of its target), L0 = what the property demands: every route
  equals the specification value on `Nat`, fixed results printed as hex, boxed results as
  `<documented nlimbs>:<hex>`.  The route order in every family follows the order in c15.rs.
-/
import CB.Driver.Util
import CB.Model.AddSubForms
import CB.Model.Bits
import CB.Model.Karatsuba
import CB.Model.ModArith
import CB.Model.Sqrt
import CB.Model.Div
import CB.Model.Gcd
import CB.Model.Int
import CB.Model.IntDiv
import CB.Model.Encoding
import CB.Model.Radix
import CB.Driver.C19
namespace CB
namespace D15
open CB CB.Cmp CB.AddSub

/-- a route: (L1 token, L0 token) -/
abbrev Route := String × String

def fam (rs : List Route) : Option String :=
  some (" | ".intercalate (rs.map (·.1)) ++ " ;; " ++ " | ".intercalate (rs.map (·.2)))

def rep (k : Nat) (r : Route) : List Route := List.replicate k r

def lenHex (n v : Nat) : String := s!"{n}:{natToHex v}"
def bitTok (b : Bool) : String := if b then "1" else "0"
def ordTok (o : Int) : String := if o < 0 then "lt" else if o = 0 then "eq" else "gt"
def natOrd (a b : Nat) : Int := if a < b then -1 else if a = b then 0 else 1

/-- `Option` = panic on none -/
def pHex : Option (List Nat) → String
  | some r => limbsHex r
  | none => "panic"
def pLen : Option (List Nat) → String
  | some r => limbsHexLen r
  | none => "panic"
def pDec : Option Nat → String
  | some r => toString r
  | none => "panic"
/-- value under a mask: `none` when the mask is false -/
def mHex (o : List Nat × Nat) : String :=
  if o.2 = WMAX then limbsHex o.1 else if o.2 = 0 then "none" else s!"badchoice:{natToHex o.2}"
def mLen (o : List Nat × Nat) : String :=
  if o.2 = WMAX then limbsHexLen o.1 else if o.2 = 0 then "none" else s!"badchoice:{natToHex o.2}"
/-- value under a mask, consumed by `expect`: `panic` when the mask is false -/
def xHex (o : List Nat × Nat) : String :=
  if o.2 = WMAX then limbsHex o.1 else if o.2 = 0 then "panic" else s!"badchoice:{natToHex o.2}"
def oHex : Option (List Nat) → String
  | some r => limbsHex r
  | none => "none"
def oLen : Option (List Nat) → String
  | some r => limbsHexLen r
  | none => "none"

def bitlen0 (x : Nat) : Nat := if x = 0 then 0 else Nat.log2 x + 1
def tz0 (bits x : Nat) : Nat := Id.run do
  if x = 0 then return bits
  let mut k := 0
  let mut y := x
  for _ in [0:bits] do
    if y % 2 = 1 then break
    k := k + 1
    y := y / 2
  return k
def to0 (bits x : Nat) : Nat := tz0 bits (2 ^ bits - 1 - x)

/-- `c15.<family> n v…` with all values parsed as hex (`vs`) -/
def valueFam (name : String) (n : Nat) (vs : List Nat) : Option String :=
  let L := toLimbs n
  let K := B ^ n
  let h := natToHex
  let hl := lenHex n
  match name, vs with
  -- ------------------------------------------------------------------ C04
  | "add", [a, b] =>
    let x := L a; let y := L b
    let s := (a + b) % K
    fam (rep 8 (limbsHex (wrappingAdd x y), h s) ++ [(limbsHex (uadc x y 0).1, h s)]
      ++ rep 4 (limbsHexLen (badc x y 0).1, hl s)
      ++ rep 2 (pLen (boxedWrappingAddAssign x y), hl s)
      ++ [(limbsHexLen (badc x y 0).1, hl s), (limbsHexLen (adcAssign x y 0).1, hl s)])
  | "sub", [a, b] =>
    let x := L a; let y := L b
    let s := (a + K - b % K) % K
    fam (rep 8 (limbsHex (wrappingSub x y), h s) ++ [(limbsHex (usbb x y 0).1, h s)]
      ++ rep 4 (limbsHexLen (bsbb x y 0).1, hl s)
      ++ rep 2 (pLen (boxedWrappingSubAssign x y), hl s)
      ++ [(limbsHexLen (bsbb x y 0).1, hl s), (limbsHexLen (sbbAssign x y 0).1, hl s)])
  | "cadd", [a, b] =>
    let x := L a; let y := L b
    let fits := a + b < K
    let o0 := if fits then h (a + b) else "none"
    let p0 := if fits then h (a + b) else "panic"
    let bo0 := if fits then hl (a + b) else "none"
    let bp0 := if fits then hl (a + b) else "panic"
    let ra := badc x y 0
    fam ([(mHex (checkedAdd x y), o0)] ++ rep 6 (oHex (checkedAddO (some x) (some y)), o0)
      ++ rep 4 (xHex (checkedAdd x y), p0)
      ++ [(if fromWordEq ra.2 0 = WMAX then limbsHexLen ra.1 else "none", bo0)]
      ++ rep 4 (pLen (boxedOpAdd x y), bp0)
      ++ rep 8 (pLen (boxedAddAssign x y), bp0))
  | "csub", [a, b] =>
    let x := L a; let y := L b
    let fits := b ≤ a
    let o0 := if fits then h (a - b) else "none"
    let p0 := if fits then h (a - b) else "panic"
    let bo0 := if fits then hl (a - b) else "none"
    let bp0 := if fits then hl (a - b) else "panic"
    let rs := bsbb x y 0
    fam ([(mHex (checkedSub x y), o0)] ++ rep 6 (oHex (checkedSubO (some x) (some y)), o0)
      ++ rep 4 (xHex (checkedSub x y), p0)
      ++ [(if fromWordEq rs.2 0 = WMAX then limbsHexLen rs.1 else "none", bo0)]
      ++ rep 4 (pLen (boxedOpSub x y), bp0)
      ++ rep 8 (pLen (boxedSubAssign x y), bp0))
  | "neg", [a] =>
    let x := L a
    let s := (K - a % K) % K
    fam (rep 4 (limbsHex (wrappingNeg x), h s)
      ++ [(limbsHex (carryingNeg x).1, h s), (limbsHex (wrappingNegIf x WMAX), h s),
          (limbsHex (wrappingSub (uzero n) x), h s)]
      ++ rep 3 (limbsHexLen (wrappingNeg x), hl s)
      ++ [(limbsHexLen (uselect x (wrappingNeg x) WMAX), hl s), (limbsHexLen (bsbb (uzero n) x 0).1, hl s)])
  -- ------------------------------------------------------------------ C05 bitwise
  | "and", [a, b] =>
    let x := L a; let y := L b
    let s := a &&& b
    fam (rep 12 (limbsHex (Bits.ubitand x y), h s) ++ rep 10 (limbsHexLen (Bits.mapLimbs (· &&& ·) x y), hl s))
  | "or", [a, b] =>
    let x := L a; let y := L b
    let s := a ||| b
    fam (rep 12 (limbsHex (Shift.ubitor x y), h s) ++ rep 5 (limbsHexLen (Bits.mapLimbs (· ||| ·) x y), hl s)
      ++ rep 2 (limbsHexLen (Bits.orAssign x y), hl s) ++ rep 3 (limbsHexLen (Bits.mapLimbs (· ||| ·) x y), hl s))
  | "xor", [a, b] =>
    let x := L a; let y := L b
    let s := a ^^^ b
    fam (rep 12 (limbsHex (Bits.ubitxor x y), h s) ++ rep 10 (limbsHexLen (Bits.mapLimbs (· ^^^ ·) x y), hl s))
  | "not", [a] =>
    let x := L a
    let s := K - 1 - a
    fam (rep 3 (limbsHex (Bits.unot x), h s) ++ [(limbsHex (Bits.ubitxor x (umax n)), h s)]
      ++ rep 3 (limbsHexLen (Bits.unot x), hl s))
  -- ------------------------------------------------------------------ C06
  | "cmp", [a, b] =>
    let x := L a; let y := L b
    let o := ordTok (natOrd a b)
    let fromCt (lt gt : Nat) : String := if lt = WMAX then "lt" else if gt = WMAX then "gt" else "eq"
    fam ([(ordTok (ucmp x y), o), (ordTok (ucmp x y), o), (ordTok (ucmpVartime x y), o), (ordTok (-(ucmp y x)), o),
          (fromCt (ult x y) (ugt x y), o),
          (ordTok (bcmp x y), o), (ordTok (bcmp x y), o), (ordTok (ucmpVartime x y), o),
          (fromCt (bctLt x y) (bctGt x y), o)])
  | "eq", [a, b] =>
    let x := L a; let y := L b
    let e := bitTok (a = b)
    fam (rep 4 (choiceTok (ueq x y), e) ++ [(bitTok (ucmpVartime x y = 0), e)]
      ++ rep 3 (bitTok (bctEq x y = 1), e))
  | "lt", [a, b] =>
    let x := L a; let y := L b
    let e := bitTok (a < b)
    fam [(choiceTok (ult x y), e), (bitTok (ucmp x y < 0), e), (choiceTok (ugt y x), e), (bitTok (ucmp y x > 0), e),
         (bitTok (ucmpVartime x y < 0), e),
         (choiceTok (bctLt x y), e), (bitTok (bcmp x y < 0), e), (choiceTok (bctGt y x), e), (bitTok (bcmp y x > 0), e)]
  | "is_zero", [a] =>
    let x := L a
    let e := bitTok (a = 0)
    fam [(choiceTok (choiceNot (isNonzero x)), e), (choiceTok (ueq x (uzero n)), e), (choiceTok (ueq x (uzero n)), e),
         (match Bits.bitsVartime x with | some k => bitTok (k = 0) | none => "panic", e),
         (choiceTok (ModArith.bIsZero x), e), (bitTok (bctEq x [0] = 1), e),
         (match Bits.bitsVartime x with | some k => bitTok (k = 0) | none => "panic", e)]
  | "is_odd", [a] =>
    let x := L a
    let e := bitTok (a % 2 = 1)
    fam (rep 2 (choiceTok (isOdd x), e) ++ [(choiceTok (choiceNot (choiceNot (isOdd x))), e), (bitTok (Bits.bitVartime x 0), e)]
      ++ rep 2 (choiceTok (isOdd x), e) ++ [(choiceTok (choiceNot (choiceNot (isOdd x))), e), (bitTok (Bits.bitVartime x 0), e)])
  -- ------------------------------------------------------------------ C03
  | "wmul", [a, b] =>
    let x := L a; let y := L b
    let s := (a * b) % K
    fam (rep 8 (limbsHex (Mul.wrappingOfPair (Karatsuba.splitMul x y)), h s) ++ [(limbsHex (Karatsuba.splitMul x y).1, h s)]
      ++ rep 5 (limbsHexLen (Karatsuba.boxedWrappingMul x y), hl s))
  | "cmul", [a, b] =>
    let x := L a; let y := L b
    let fits := a * b < K
    let c := Mul.checkedOfPair (Karatsuba.splitMul x y)
    fam (rep 7 (mHex c, if fits then h (a * b) else "none") ++ rep 6 (xHex c, if fits then h (a * b) else "panic")
      ++ [(mLen (Karatsuba.boxedCheckedMul x y), if fits then hl (a * b) else "none")])
  | "mulwide", [a, b] =>
    let x := L a; let y := L b
    let p := a * b
    let lohi (r : List Nat × List Nat) : String := s!"{limbsHex r.1} {limbsHex r.2}"
    let l0 := s!"{h (p % K)} {h (p / K)}"
    let w0 := lenHex (2 * n) p
    -- the last route is `&a * &b` on boxed operands: the crate's impl is the CHECKED product at the left
    -- operand's precision; the property demands what `a * b` / `BoxedUint::mul` return
    fam ([(lohi (Karatsuba.splitMul x y), l0), (lohi (Karatsuba.splitMul y x), l0),
          (limbsHexLen (Karatsuba.boxedMul x y), w0), (limbsHexLen (Karatsuba.boxedMul y x), w0)]
      ++ rep 7 (limbsHexLen (Karatsuba.boxedMul x y), w0)
      ++ [(let c := Karatsuba.boxedCheckedMul x y
           if c.2 = WMAX then limbsHexLen c.1 else if c.2 = 0 then "panic" else "badchoice", w0)])
  | "square", [a] =>
    let x := L a
    let p := a * a
    let lohi (r : List Nat × List Nat) : String := s!"{limbsHex r.1} {limbsHex r.2}"
    let l0 := s!"{h (p % K)} {h (p / K)}"
    let w0 := lenHex (2 * n) p
    fam [(lohi (Karatsuba.squareWide x), l0), (lohi (Karatsuba.splitMul x x), l0),
         (limbsHexLen (Karatsuba.boxedSquare x), w0), (limbsHexLen (Karatsuba.boxedMul x x), w0)]
  | "wsquare", [a] =>
    let x := L a
    let p := a * a
    let fits := p < K
    let w0 := h (p % K)
    let c0 := if fits then h p else "none"
    let s0 := h (min p (K - 1))
    fam [(limbsHex (Mul.wrappingOfPair (Karatsuba.squareWide x)), w0),
         (limbsHex (Mul.wrappingOfPair (Karatsuba.splitMul x x)), w0),
         (limbsHex (Karatsuba.squareWide x).1, w0),
         (mHex (Mul.checkedSquareOfPair (Karatsuba.squareWide x)), c0),
         (mHex (Mul.checkedOfPair (Karatsuba.splitMul x x)), c0),
         (limbsHex (Mul.saturatingOfPair (Karatsuba.squareWide x)), s0),
         (limbsHex (Mul.saturatingOfPair (Karatsuba.splitMul x x)), s0),
         (limbsHexLen (Karatsuba.boxedWrappingMul x x), hl (p % K)),
         (mLen (Karatsuba.boxedCheckedMul x x), if fits then hl p else "none")]
  -- ------------------------------------------------------------------ C07 (generators keep a, b < p)
  | "add_mod", [a, b, p] =>
    let x := L a; let y := L b; let q := L p
    let s := (a + b) % p
    fam (rep 2 (limbsHex (ModArith.addMod x y q), h s) ++ rep 3 (limbsHexLen (ModArith.bAddMod x y q), hl s))
  | "sub_mod", [a, b, p] =>
    let x := L a; let y := L b; let q := L p
    let s := (a + p - b % p) % p
    fam (rep 2 (limbsHex (ModArith.subMod x y q), h s) ++ rep 2 (limbsHexLen (ModArith.bSubMod x y q), hl s))
  | "neg_mod", [a, p] =>
    let x := L a; let q := L p
    let s := (p - a % p) % p
    fam (rep 2 (limbsHex (ModArith.negMod x q), h s) ++ [(limbsHex (ModArith.subMod (uzero n) x q), h s)]
      ++ rep 2 (limbsHexLen (ModArith.bNegMod x q), hl s))
  | "double_mod", [a, p] =>
    let x := L a; let q := L p
    let s := (a + a) % p
    fam [(limbsHex (ModArith.doubleMod x q), h s), (limbsHex (ModArith.addMod x x q), h s),
         (limbsHexLen (ModArith.bDoubleMod x q), hl s), (limbsHexLen (ModArith.bAddMod x x q), hl s)]
  | "mul_mod", [a, b, p] =>
    let x := L a; let y := L b; let q := L p
    let s := (a * b) % p
    fam ([(limbsHex (ModArith.mulMod x y q), h s)] ++ rep 2 (limbsHex (ModArith.mulModVartime x y q), h s)
      ++ [(limbsHex ((Div.divRemVartime (Mul.concatPair (Karatsuba.splitMul x y)) (Div.resize q (2 * n))).2.take n), h s)]
      ++ rep 2 (limbsHexLen (ModArith.mulMod x y q), hl s)
      ++ [(limbsHexLen (Div.boxedRemVartime (Karatsuba.boxedMul x y) q), hl s)])
  | "mul_mod_special", [a, b, c] =>
    let x := L a; let y := L b
    let s := (a * b) % (K - c)
    fam [(limbsHex (ModArith.mulModSpecial x y c), h s), (limbsHexLen (ModArith.bMulModSpecial x y c), hl s)]
  | "sub_mod_special", [a, b, c] =>
    let x := L a; let y := L b
    let p := K - c
    let s := (a + p - b % p) % p
    fam [(limbsHex (ModArith.subModSpecial x y c), h s), (limbsHexLen (ModArith.bSubModSpecial x y c), hl s)]
  | "neg_mod_special", [a, c] =>
    let x := L a
    let p := K - c
    let s := (p - a % p) % p
    fam [(limbsHex (ModArith.negModSpecial x c), h s), (limbsHexLen (ModArith.bNegModSpecial x c), hl s)]
  -- ------------------------------------------------------------------ C20
  | "sqrt", [a] =>
    let x := L a
    let s := Nat.sqrt a
    let bv (o : Option (List Nat)) : String := match o with | some r => limbsHexLen r | none => "nofuel"
    fam [(pHex (Sqrt.uintSqrt x), h s), (pHex (Sqrt.uintSqrtVartime x), h s), (pHex (Sqrt.uintWrappingSqrt x), h s),
         (pHex (Sqrt.uintWrappingSqrtVartime x), h s), (pHex (Sqrt.uintSqrt x), h s), (pHex (Sqrt.uintSqrtVartime x), h s),
         (limbsHexLen (Sqrt.boxedSqrt x), hl s), (bv (Sqrt.boxedSqrtVartime x), hl s),
         (limbsHexLen (Sqrt.boxedWrappingSqrt x), hl s), (bv (Sqrt.boxedWrappingSqrtVartime x), hl s),
         (limbsHexLen (Sqrt.boxedSqrt x), hl s), (bv (Sqrt.boxedSqrtVartime x), hl s)]
  | "csqrt", [a] =>
    let x := L a
    let s := Nat.sqrt a
    let sq := s * s = a
    let fc (o : Option (List Nat × Bool)) : String :=
      match o with | none => "panic" | some (r, ok) => if ok then limbsHex r else "none"
    let bc (o : Option (List Nat × Bool)) : String :=
      match o with | none => "nofuel" | some (r, ok) => if ok then limbsHexLen r else "none"
    fam [(fc (Sqrt.uintCheckedSqrt x), if sq then h s else "none"),
         (fc (Sqrt.uintCheckedSqrtVartime x), if sq then h s else "none"),
         (bc (some (Sqrt.boxedCheckedSqrt x)), if sq then hl s else "none"),
         (bc (Sqrt.boxedCheckedSqrtVartime x), if sq then hl s else "none")]
  -- ------------------------------------------------------------------ C02 (generators keep d ≠ 0)
  | "div", [a, d] =>
    if d = 0 then badArgs else
    let x := L a; let y := L d
    let qr (p : List Nat × List Nat) : String := s!"{limbsHex p.1} {limbsHex p.2}"
    let bqr (p : List Nat × List Nat) : String := s!"{limbsHexLen p.1} {limbsHexLen p.2}"
    let ob (o : Option (List Nat × List Nat)) (f : List Nat × List Nat → String) : String :=
      match o with | some p => f p | none => "panic"
    let q0 := a / d; let r0 := a % d
    let e := s!"{h q0} {h r0}"
    let be := s!"{hl q0} {hl r0}"
    let ct := (Div.wrappingDiv x y, Div.urem x y)
    let vt := (Div.wrappingDivVartime x y, Div.remVartime x y)
    let bvt := ((Div.boxedDivRemVartime x y).1, Div.boxedRemVartime x y)
    let bcd : String := match Div.boxedCheckedDiv x y with
      | some (some p) => limbsHexLen p | some none => "none" | none => "panic"
    fam ([(qr (Div.divRemCt x y), e), (qr (Div.divRemVartime x y), e), (qr ct, e), (qr vt, e), (qr vt, e)]
      ++ rep 11 (qr ct, e)
      ++ [(s!"{oHex (Div.checkedDiv x y)} {oHex (Div.checkedRem x y)}", e),
          (s!"{oHex (Div.checkedDiv x y)} {oHex (Div.checkedDiv x y)}", s!"{h q0} {h q0}"),
          (limbsHex (Div.remWideVartime x (uzero n) y), h r0)]
      ++ [(ob (Div.boxedDivRem x y) bqr, be), (bqr (Div.boxedDivRemVartime x y), be),
          (ob (Div.boxedDivRem x y) bqr, be), (bqr bvt, be), (bqr bvt, be)]
      ++ rep 6 (ob (Div.boxedDivRem x y) bqr, be)
      ++ [(ob (Div.boxedDivRem x y) (fun p => limbsHexLen p.1), hl q0), (bcd, hl q0), (bcd, hl q0)])
  | "divlimb", [a, d] =>
    if d = 0 ∨ d ≥ B then badArgs else
    let x := L a
    let q0 := a / d; let r0 := a % d
    let e := s!"{h q0} {h r0}"
    let be := s!"{hl q0} {h r0}"
    let rc := Div.Reciprocal.new d
    let one := Div.divRemLimb x d
    let pre := Div.divRemLimbWithReciprocal x rc
    let p1 (p : List Nat × Nat) : String := s!"{limbsHex p.1} {natToHex p.2}"
    let pb (p : List Nat × Nat) : String := s!"{limbsHexLen p.1} {natToHex p.2}"
    fam ([(p1 one, e), (p1 pre, e), (p1 one, e), (p1 pre, e)]
      ++ rep 6 (p1 (one.1, Div.remLimb x d), e)
      ++ [(p1 (one.1, Div.remLimb x d), e), (p1 (one.1, Div.remLimbWithReciprocal x rc), e),
          (p1 (one.1, Div.remLimb x d), e), (p1 (one.1, Div.remLimbWithReciprocal x rc), e)]
      ++ rep 3 (p1 (one.1, Div.remLimb x d), e)
      ++ [(pb one, be), (pb pre, be), (pb one, be), (pb pre, be)]
      ++ [(pb (one.1, Div.boxedRemLimb x d), be), (pb (one.1, Div.boxedRemLimbWithReciprocal x rc), be),
          (pb (one.1, Div.boxedRemLimb x d), be), (pb (one.1, Div.boxedRemLimbWithReciprocal x rc), be)])
  | _, _ => none

/-- `c15.<family> n a s…` with decimal small parameters after the first value -/
def shiftFam (name : String) (n a : Nat) (ps : List Nat) : Option String :=
  let x := toLimbs n a
  let K := B ^ n
  let bits := 64 * n
  let h := natToHex
  let hl := lenHex n
  match name, ps with
  | "shl", [s] =>
    let v := if s < bits then (a * 2 ^ s) % K else 0
    fam ([(pHex (Shift.ushl x s), if s < bits then h v else "panic"),
          (pHex (Shift.ushlVartime x s), if s < bits then h v else "panic")]
      ++ rep 6 (pHex (Shift.ushl x s), if s < bits then h v else "panic")
      ++ rep 7 (pLen (Shift.boxedShl x s), if s < bits then hl v else "panic"))
  | "shr", [s] =>
    let v := if s < bits then a / 2 ^ s else 0
    fam ([(pHex (Shift.ushr x s), if s < bits then h v else "panic"),
          (pHex (Shift.ushrVartime x s), if s < bits then h v else "panic")]
      ++ rep 6 (pHex (Shift.ushr x s), if s < bits then h v else "panic")
      ++ rep 7 (pLen (Shift.boxedShr x s), if s < bits then hl v else "panic"))
  | "oshl", [s] =>
    let v := if s < bits then (a * 2 ^ s) % K else 0
    let e := if s < bits then h v else "none"
    let be := if s < bits then hl v else "none"
    let ct : String := match Shift.overflowingShl x s with | some o => mHex o | none => "panic"
    let bct : String := match Shift.boxedOverflowingShl x s with
      | some o => if o.2 then "none" else limbsHexLen o.1 | none => "panic"
    fam [(ct, e), (mHex (Shift.overflowingShlVartime x s), e), (ct, e),
         (bct, be), (oLen (Shift.boxedShlVartime x s), be), (bct, be)]
  | "oshr", [s] =>
    let v := if s < bits then a / 2 ^ s else 0
    let e := if s < bits then h v else "none"
    let be := if s < bits then hl v else "none"
    let ct : String := match Shift.overflowingShr x s with | some o => mHex o | none => "panic"
    let bct : String := match Shift.boxedOverflowingShr x s with
      | some o => if o.2 then "none" else limbsHexLen o.1 | none => "panic"
    fam [(ct, e), (mHex (Shift.overflowingShrVartime x s), e), (ct, e),
         (bct, be), (oLen (Shift.boxedShrVartime x s), be), (bct, be)]
  | "wshl", [s] =>
    let v := if s < bits then (a * 2 ^ s) % K else 0
    let bw : String := match Shift.boxedOverflowingShl x s with | some o => limbsHexLen o.1 | none => "panic"
    fam ([(pHex (Shift.wrappingShlU x s), h v), (limbsHex (Shift.wrappingShlVartimeU x s), h v)]
      ++ rep 4 (pHex (Shift.wrappingShlU x s), h v)
      ++ [(bw, hl v), (limbsHexLen (Shift.boxedWrappingShlVartime x s), hl v)] ++ rep 4 (bw, hl v))
  | "wshr", [s] =>
    let v := if s < bits then a / 2 ^ s else 0
    let bw : String := match Shift.boxedOverflowingShr x s with | some o => limbsHexLen o.1 | none => "panic"
    fam ([(pHex (Shift.wrappingShrU x s), h v), (limbsHex (Shift.wrappingShrVartimeU x s), h v)]
      ++ rep 4 (pHex (Shift.wrappingShrU x s), h v)
      ++ [(bw, hl v), (limbsHexLen (Shift.boxedWrappingShrVartime x s), hl v)] ++ rep 4 (bw, hl v))
  | "bits", [] =>
    let e := toString (bitlen0 a)
    let ct := (toString (Bits.ubits x), e)
    let vt := (pDec (Bits.bitsVartime x), e)
    fam [ct, vt, ct, vt, ct, vt, ct, vt]
  | "lz", [] =>
    let e := toString (bits - bitlen0 a)
    let ct := (toString (Bits.leadingZeros x), e)
    let vt := (pDec (Bits.leadingZerosVartime x), e)
    fam [ct, vt, ct, vt, ct, ct, vt]
  | "tz", [] =>
    let e := toString (tz0 bits a)
    let ct := (toString (Bits.trailingZeros x), e)
    let vt := (toString (Bits.trailingZerosVartime x), e)
    fam [ct, vt, ct, vt, ct, vt, ct, vt]
  | "to", [] =>
    let e := toString (to0 bits a)
    let ct := (toString (Bits.trailingOnes x), e)
    let vt := (toString (Bits.trailingOnesVartime x), e)
    fam [ct, vt, ct, vt, ct, vt, ct, vt]
  | "bit", [i] =>
    let e := bitTok (a.testBit i)
    let ct := (choiceTok (Bits.bitCt x i), e)
    let vt := (bitTok (Bits.bitVartime x i), e)
    fam [ct, vt, ct, vt, ct, vt, ct, vt]
  | "set_bit", [i, v] =>
    let r0 := if i < bits then (if v = 1 then a ||| 2 ^ i else a - (if a.testBit i then 2 ^ i else 0)) else a
    let ct := Bits.setBit x i (if v = 1 then WMAX else 0)
    let vt := Bits.setBitVartime x i (v = 1)
    fam [(limbsHex ct, h r0), (limbsHex vt, h r0), (limbsHexLen ct, hl r0), (limbsHexLen vt, hl r0)]
  | "select", [b, c] =>
    let y := toLimbs n b
    let m := maskOfBit c
    let r0 := if c = 0 then a else b
    fam (rep 6 (limbsHex (uselect x y m), h r0) ++ rep 3 (limbsHexLen (uselect x y m), hl r0))
  | _, _ => none


/-- `c15.bm.<family> na a nb b`: boxed operands of two precisions; L0 carries the DOCUMENTED result precision:
    add / sub / bit operators "the widest input", `mul` the sum, `wrapping_mul` / `checked_mul` the width of self,
    `gcd` the larger precision (comment in src/uint/boxed/gcd.rs) -/
def mixedFam (name : String) (na a nb b : Nat) : Option String :=
  let x := toLimbs na a; let y := toLimbs nb b
  let k := max na nb
  let m := B ^ k
  let hk := lenHex k
  match name with
  | "add" =>
    let s := (a + b) % m
    let ra := badc x y 0
    let fits := a + b < m
    fam (rep 4 (limbsHexLen ra.1, hk s) ++ [(limbsHexLen (badc y x 0).1, hk s),
      (if fromWordEq ra.2 0 = WMAX then limbsHexLen ra.1 else "none", if fits then hk (a + b) else "none")]
      ++ rep 4 (pLen (boxedOpAdd x y), if fits then hk (a + b) else "panic"))
  | "sub" =>
    let s := (a + m - b) % m
    let rs := bsbb x y 0
    let fits := b ≤ a
    fam (rep 4 (limbsHexLen rs.1, hk s) ++ [
      (if fromWordEq rs.2 0 = WMAX then limbsHexLen rs.1 else "none", if fits then hk (a - b) else "none")]
      ++ rep 4 (pLen (boxedOpSub x y), if fits then hk (a - b) else "panic"))
  | "and" =>
    fam (rep 9 (limbsHexLen (Bits.mapLimbs (· &&& ·) x y), hk (a &&& b)) ++ [(limbsHexLen (Bits.mapLimbs (· &&& ·) y x), hk (a &&& b))])
  | "or" =>
    fam (rep 5 (limbsHexLen (Bits.mapLimbs (· ||| ·) x y), hk (a ||| b)) ++ rep 2 (limbsHexLen (Bits.orAssign x y), hk (a ||| b))
      ++ rep 2 (limbsHexLen (Bits.mapLimbs (· ||| ·) x y), hk (a ||| b)) ++ [(limbsHexLen (Bits.mapLimbs (· ||| ·) y x), hk (a ||| b))])
  | "xor" =>
    fam (rep 9 (limbsHexLen (Bits.mapLimbs (· ^^^ ·) x y), hk (a ^^^ b)) ++ [(limbsHexLen (Bits.mapLimbs (· ^^^ ·) y x), hk (a ^^^ b))])
  | "cmp" =>
    let o := ordTok (natOrd a b)
    let fromCt (lt gt : Nat) : String := if lt = WMAX then "lt" else if gt = WMAX then "gt" else "eq"
    fam [(ordTok (bcmp x y), o), (ordTok (bcmp x y), o), (ordTok (-(bcmp y x)), o), (fromCt (bctLt x y) (bctGt x y), o),
         (if bctEq x y = 1 then "eq" else if bcmp x y < 0 then "lt" else "gt", o),
         (if bctEq x y = 1 then "eq" else if bctGt y x = WMAX then "lt" else "gt", o)]
  | "mul" =>
    let p := a * b
    let w0 := lenHex (na + nb) p
    let ka := B ^ na
    fam ([(limbsHexLen (Karatsuba.boxedMul x y), w0), (limbsHexLen (Karatsuba.boxedMul y x), w0)]
      ++ rep 7 (limbsHexLen (Karatsuba.boxedMul x y), w0)
      ++ rep 2 (limbsHexLen (Karatsuba.boxedWrappingMul x y), lenHex na (p % ka))
      ++ [(mLen (Karatsuba.boxedCheckedMul x y), if p < ka then lenHex na p else "none"),
          (let c := Karatsuba.boxedCheckedMul x y
           if c.2 = WMAX then limbsHexLen c.1 else if c.2 = 0 then "panic" else "badchoice", w0)])
  | "gcd" =>
    let g := hk (Nat.gcd a b)
    fam [(pLen (Gcd.boxedGcd x y), g), (pLen (Gcd.boxedGcdVartime x y), g),
         (pLen (Gcd.boxedGcd y x), g), (pLen (Gcd.boxedGcdVartime y x), g)]
  | _ => none

/-- L0 for inversion mod 2^k -/
def specInv2k (a k : Nat) : Option Nat :=
  if k = 0 then some 0 else if a % 2 = 1 then Gcd.specInv (a % 2 ^ k) (2 ^ k) else none

def fixedInv (vartime : Bool) (n a m : Nat) : SafeGcd.InvOut :=
  let inv := SafeGcd.Inverter.new n (toLimbs n m) (toLimbs n 1)
  if vartime then inv.invVartime n (toLimbs n a) else inv.inv n (toLimbs n a)
def invOutOpt (o : SafeGcd.InvOut) : Option Nat := if o.isSome then some (val o.value) else none
/-- boxed inverter; `none` = the `assert!(!is_negative)` panic of `BoxedUnsatInt::to_uint` -/
def boxedInv (vartime : Bool) (a m : List Nat) : Option (Option Nat) :=
  let o := (SafeGcd.Inverter.newBoxed m [1]).invBoxed vartime a
  if o.negative then none else some (invOutOpt o)

/-- `c15.inv_mod2k n a k`, `c15.inv_odd_mod n a m`, `c15.gcd n a b` -/
def invFam (name : String) (n a p : Nat) : Option String :=
  let h := natToHex
  let hl := lenHex n
  let oh (o : Option Nat) : String := match o with | some v => h v | none => "none"
  let ol (o : Option Nat) : String := match o with | some v => hl v | none => "none"
  match name with
  | "inv_mod2k" =>
    let w := 64 * n
    let ct := InvMod2k.invMod2k w a p
    let e := specInv2k a p
    let vb := InvMod2k.invMod2kVartimeBoxed w a p
    fam [(oh (if ct.2 then some ct.1 else none), oh e),
         (match InvMod2k.invMod2kVartime w a p with
           | none => "panic" | some r => oh (if r.2 then some r.1 else none), oh e),
         (ol (if ct.2 then some ct.1 else none), ol e), (ol (if vb.2 then some vb.1 else none), ol e)]
  | "inv_odd_mod" =>
    let e := Gcd.specInv a p
    let one := invOutOpt (fixedInv false n a p)
    let rTok : InvMod2k.R → String := fun r => match r with | .panic => "panic" | .none => "none" | .some x => h x
    let rLen : InvMod2k.R → String := fun r => match r with | .panic => "panic" | .none => "none" | .some x => hl x
    let gen := InvMod2k.invModWith (fun a s => invOutOpt (fixedInv false n a s)) (64 * n) a p
    let bo (vt : Bool) : String := match boxedInv vt (toLimbs n a) (toLimbs n p) with
      | none => "panic" | some r => ol r
    let bval : Nat → Nat → Option Nat := fun a s => match boxedInv false (toLimbs n a) (toLimbs n s) with
      | some r => r | none => none
    let bgen : String := match boxedInv false (toLimbs n a) (toLimbs n p) with
      | none => "panic" | some _ => rLen (InvMod2k.invModBoxedWith bval (64 * n) a p)
    let rs (e : Option Nat) : List Route :=
        [(oh one, oh e), (oh (invOutOpt (fixedInv false n a p)), oh e), (oh (invOutOpt (fixedInv true n a p)), oh e),
         (rTok gen, oh e), (rTok gen, oh e),
         (bo false, ol e), (bo false, ol e), (bo true, ol e), (bgen, ol e), (bgen, ol e)]
    -- modulus 1: every x is an inverse and C10's range clause binds only for m ≥ 2; C15 demands that all routes
    -- return the SAME one (0, the canonical residue, or 1, what the crate returns)
    if p = 1 then
      some (" | ".intercalate ((rs e).map (·.1)) ++ " ;; " ++ " | ".intercalate ((rs (some 0)).map (·.2))
        ++ " || " ++ " | ".intercalate ((rs (some 1)).map (·.2)))
    else fam (rs e)
  | "gcd" =>
    let g := Nat.gcd a p
    fam [(h (Gcd.uintGcd n a p), h g), (h (Gcd.uintGcd n a p), h g), (h (Gcd.uintGcdVartime n a p), h g),
         (pLen (Gcd.boxedGcd (toLimbs n a) (toLimbs n p)), hl g),
         (pLen (Gcd.boxedGcdVartime (toLimbs n a) (toLimbs n p)), hl g)]
  | _ => none


/-- signed reading / two's complement encoding of `n`-limb patterns -/
def sInt (n a : Nat) : Int := if 2 * a ≥ B ^ n then (a : Int) - (B ^ n : Nat) else (a : Int)
def encI (n : Nat) (x : Int) : String := natToHex ((x % ((B ^ n : Nat) : Int)).toNat)
def fitsI (n : Nat) (x : Int) : Bool := decide (-(((B ^ n / 2 : Nat) : Int)) ≤ x) && decide (x < ((B ^ n / 2 : Nat) : Int))

/-- `c15.i.<family> n a [b | s]`: `Int<n>` routes (models of C13 / C14 / C05 / C06) -/
def intFam (name : String) (n a b : Nat) : Option String :=
  let x := toLimbs n a; let y := toLimbs n b
  let K := B ^ n
  let bits := 64 * n
  let h := natToHex
  let sa := sInt n a; let sb := sInt n b
  let opt (x : Int) : String := if fitsI n x then encI n x else "none"
  let pan (x : Int) : String := if fitsI n x then encI n x else "panic"
  match name with
  | "add" =>
    let s := h ((a + b) % K)
    fam (rep 8 (limbsHex (SInt.iWrappingAdd x y), s) ++ [(limbsHex (SInt.iOverflowingAdd x y).1, s)])
  | "sub" => fam (rep 7 (limbsHex (SInt.iWrappingSub x y), h ((a + K - b % K) % K)))
  | "cadd" =>
    let c := SInt.iCheckedAdd x y
    fam (rep 8 (mHex c, opt (sa + sb)) ++ rep 4 (xHex c, pan (sa + sb)))
  | "csub" =>
    let c := SInt.iCheckedSub x y
    fam (rep 7 (mHex c, opt (sa - sb)) ++ rep 2 (xHex c, pan (sa - sb)))
  | "cmul" =>
    let c := SInt.iCheckedMul x y
    fam (rep 7 (mHex c, opt (sa * sb)) ++ rep 4 (xHex c, pan (sa * sb)))
  | "neg" =>
    let s := h ((K - a % K) % K)
    fam [(limbsHex (SInt.iWrappingNeg x), s), (limbsHex (SInt.iOverflowingNeg x).1, s),
         (limbsHex (SInt.iWrappingNegIf x WMAX), s), (limbsHex (SInt.iWrappingSub (uzero n) x), s)]
  | "cmp" =>
    let o := ordTok (if sa < sb then -1 else if sa = sb then 0 else 1)
    let fromCt (lt gt : Nat) : String := if lt = WMAX then "lt" else if gt = WMAX then "gt" else "eq"
    fam [(ordTok (icmp x y), o), (ordTok (icmp x y), o), (ordTok (icmpVartime x y), o), (ordTok (-(icmp y x)), o),
         (fromCt (ilt x y) (igt x y), o)]
  | "shr" =>
    let s := b
    let e := if s < bits then encI n (sa / ((2 ^ s : Nat) : Int)) else "panic"
    fam ([(pHex (Shift.intShr x s), e), (pHex (Shift.intShrVartime x s), e)] ++ rep 5 (pHex (Shift.intShr x s), e))
  | "wshr" =>
    let s := b
    let e := if s < bits then encI n (sa / ((2 ^ s : Nat) : Int)) else (if sa < 0 then h (K - 1) else "0")
    fam [(pHex (Shift.intWrappingShr x s), e), (limbsHex (Shift.intWrappingShrVartime x s), e),
         (pHex (Shift.intWrappingShr x s), e), (pHex (Shift.intWrappingShr x s), e)]
  | "div" =>
    if b % K = 0 then badArgs else
    let r := IntDiv.iCheckedDivRem x y
    let q0 := Int.tdiv sa sb; let r0 := Int.tmod sa sb
    let l1 := s!"{mHex r.1} {limbsHex r.2}"
    let l0 := s!"{opt q0} {encI n r0}"
    fam (rep 9 (l1, l0) ++ rep 3 (xHex r.1, pan q0) ++ [(mHex r.1, opt q0)])
  | _ => none

def asciiStr (cs : List Nat) : String := String.ofList (cs.map Char.ofNat)
def lowerAscii (cs : List Nat) : List Nat := cs.map fun c => if 65 ≤ c ∧ c ≤ 90 then c + 32 else c

/-- `c15.enc n a`, `c15.dec n x<8n bytes big endian>`, `c15.radix n a r`, `c15.rand n m x<stream>` -/
def encFam (n a : Nat) : Option String :=
  let l := toLimbs n a
  let be := bytesToTok (Encoding.uintToBeBytes l)
  let ler := bytesToTok (Encoding.uintToLeBytes l).reverse
  let e := bytesToTok (Encoding.specBeBytes (8 * n) a)
  let t := asciiStr (Encoding.specHexText false (16 * n) a)
  fam [(be, e), (ler, e), (be, e), (ler, e), (be, e), (ler, e),
       (asciiStr (Encoding.fmtHex false false l), t), (asciiStr (lowerAscii (Encoding.fmtHex true false l)), t),
       (asciiStr (Encoding.boxedFmtHex false false l), t), (asciiStr (lowerAscii (Encoding.boxedFmtHex true false l)), t),
       (asciiStr (Encoding.fmtHex false false l), t)]

def decFam (n : Nat) (be : List Nat) : Option String :=
  if be.length ≠ 8 * n then badArgs else
  let le := be.reverse
  let v := Encoding.beVal be
  let h := natToHex
  let hexOf (bs : List Nat) : List Nat := (bs.map fun b => [Encoding.hexChar false (b / 16), Encoding.hexChar false (b % 16)]).flatten
  let o (r : Option (List Nat)) : String := match r with | some l => limbsHex l | none => "panic"
  let bx (r : Except Encoding.DecodeError (List Nat)) : String :=
    match r with | .ok l => limbsHexLen l | .error e => s!"err:{e.name}"
  fam [(o (Encoding.fromBeSlice n be), h v), (o (Encoding.fromLeSlice n le), h v),
       (o (Encoding.fromBeSlice n be), h v), (o (Encoding.fromLeSlice n le), h v),
       (o (Encoding.fromBeHex n (hexOf be)), h v), (o (Encoding.fromLeHex n (hexOf le)), h v),
       (o (Encoding.fromBeSlice n be), h v), (o (Encoding.fromLeSlice n le), h v),
       (bx (Encoding.boxedFromBeSlice be (64 * n)), lenHex n v), (bx (Encoding.boxedFromLeSlice le (64 * n)), lenHex n v)]

def radixFam (n a r : Nat) : Option String :=
  let l := toLimbs n a
  let enc : String := match Radix.encodeToString r l with | .ok cs => bytesToTok cs | .error _ => "panic"
  let e := bytesToTok (Radix.specFormat r a)
  -- the text handed to both parsers is what the fixed encoder produced
  let back (boxed : Bool) : String :=
    match Radix.encodeToString r l with
    | .ok cs =>
      if boxed then (match Radix.boxedFromStrPrec r (64 * n) cs with | .ok v => limbsHexLen v | .error _ => "err")
      else (match Radix.uintFromStr n r cs with | .ok v => limbsHex v | .error _ => "err")
    | .error _ => "panic"
  fam [(enc, e), (enc, e), (back false, natToHex a), (back true, lenHex n a)]

open CB.Rand in
def randFam (n m : Nat) (bs : List Nat) : Option String :=
  if m = 0 ∨ n = 0 then badArgs else
  let ml := toLimbs n m
  let u (mode : ErrMode) := showOut mode limbsHex (uintRandomMod (fuelFor bs) (rng0 bs) ml)
  let b (mode : ErrMode) := showOut mode limbsHexLen (boxedRandomMod (fuelFor bs) (rng0 bs) ml)
  fam [(u .exhausted, specModLine .exhausted natToHex m bs), (u .exhausted, specModLine .exhausted natToHex m bs),
       (u .tryErr, specModLine .tryErr natToHex m bs),
       (b .exhausted, specModLine .exhausted (boxedLen n) m bs), (b .tryErr, specModLine .tryErr (boxedLen n) m bs)]

/-- `c15.l.<family>`: `Limb` routes next to `U64` -/
def limbFam (name : String) (vs : List Nat) : Option String :=
  let h := natToHex
  match name, vs with
  | "add", [a, b] =>
    let s := h ((a + b) % B)
    fam (rep 3 (h (wadd a b), s) ++ [(h (adc a b 0).1, s), (h (overflowingAdd a b).1, s), (h (wadd a b), s),
      (limbsHex (wrappingAdd [a] [b]), s)])
  | "sub", [a, b] =>
    let s := h ((a + B - b) % B)
    fam (rep 3 (h (wsub a b), s) ++ [(h (sbb a b 0).1, s), (h (wsub a b), s), (limbsHex (wrappingSub [a] [b]), s)])
  | "cadd", [a, b] =>
    let ca := adc a b 0
    let ok := fromWordEq ca.2 0 = WMAX
    fam (rep 2 (if ok then h ca.1 else "none", if a + b < B then h (a + b) else "none")
      ++ [(if ok then h ca.1 else "panic", if a + b < B then h (a + b) else "panic"),
          (mHex (checkedAdd [a] [b]), if a + b < B then h (a + b) else "none")])
  | "csub", [a, b] =>
    let cs := sbb a b 0
    let ok := fromWordEq cs.2 0 = WMAX
    fam (rep 2 (if ok then h cs.1 else "none", if b ≤ a then h (a - b) else "none")
      ++ rep 2 (if ok then h cs.1 else "panic", if b ≤ a then h (a - b) else "panic")
      ++ [(mHex (checkedSub [a] [b]), if b ≤ a then h (a - b) else "none")])
  | "mul", [a, b] =>
    let s := h ((a * b) % B)
    fam (rep 4 (h (Mul.limbWrappingMul a b), s) ++ [(h (mac 0 a b 0).1, s),
      (limbsHex (Mul.wrappingOfPair (Karatsuba.splitMul [a] [b])), s)])
  | "cmul", [a, b] =>
    let r := Mul.limbCheckedMul a b
    let fits := a * b < B
    fam (rep 2 (if r.2 = WMAX then h r.1 else "none", if fits then h (a * b) else "none")
      ++ rep 2 (if r.2 = WMAX then h r.1 else "panic", if fits then h (a * b) else "panic")
      ++ [(mHex (Mul.checkedOfPair (Karatsuba.splitMul [a] [b])), if fits then h (a * b) else "none")])
  | "cmp", [a, b] =>
    let o := ordTok (natOrd a b)
    fam (rep 3 (ordTok (limbCmp a b), o) ++ [(ordTok (ucmp [a] [b]), o)])
  | "bits", [a] =>
    let e := toString (bitlen0 a)
    fam [(toString (Bits.limbBits a), e), (toString (64 - Shift.wlz a), e), (toString (Bits.ubits [a]), e),
         (pDec (Bits.bitsVartime [a]), e)]
  | _, _ => none

/-- `c15.const.<family> k …`: the compile-time table of the harness (U256 inputs repeated on the line) -/
def constFam (name : String) (args : List String) : Option String :=
  let n := 4
  let L := toLimbs n
  let K := B ^ n
  let h := natToHex
  match name, args with
  | "add", [_, a, b] =>
    match hexToNat? a, hexToNat? b with
    | some a, some b => fam (rep 2 (limbsHex (wrappingAdd (L a) (L b)), h ((a + b) % K)))
    | _, _ => badArgs
  | "sub", [_, a, b] =>
    match hexToNat? a, hexToNat? b with
    | some a, some b => fam (rep 2 (limbsHex (wrappingSub (L a) (L b)), h ((a + K - b % K) % K)))
    | _, _ => badArgs
  | "mul", [_, a, b] =>
    match hexToNat? a, hexToNat? b with
    | some a, some b =>
      let r := Karatsuba.splitMul (L a) (L b)
      fam (rep 2 (s!"{limbsHex (Mul.wrappingOfPair r)} {limbsHex r.2}", s!"{h (a * b % K)} {h (a * b / K)}"))
    | _, _ => badArgs
  | "neg", [_, a] =>
    match hexToNat? a with
    | some a => fam (rep 2 (limbsHex (wrappingNeg (L a)), h ((K - a % K) % K)))
    | none => badArgs
  | "shl", [_, a, s] =>
    match hexToNat? a, s.toNat? with
    | some a, some s =>
      let e := if s < 256 then h ((a * 2 ^ s) % K) else "panic"
      fam [(pHex (Shift.ushl (L a) s), e), (pHex (Shift.ushlVartime (L a) s), e),
           (pHex (Shift.ushl (L a) s), e), (pHex (Shift.ushlVartime (L a) s), e)]
    | _, _ => badArgs
  | "shr", [_, a, s] =>
    match hexToNat? a, s.toNat? with
    | some a, some s =>
      let e := if s < 256 then h (a / 2 ^ s) else "panic"
      fam [(pHex (Shift.ushr (L a) s), e), (pHex (Shift.ushrVartime (L a) s), e),
           (pHex (Shift.ushr (L a) s), e), (pHex (Shift.ushrVartime (L a) s), e)]
    | _, _ => badArgs
  | "bits", [_, a] =>
    match hexToNat? a with
    | some a =>
      let e := toString (bitlen0 a)
      fam [(toString (Bits.ubits (L a)), e), (pDec (Bits.bitsVartime (L a)), e),
           (toString (Bits.ubits (L a)), e), (pDec (Bits.bitsVartime (L a)), e)]
    | none => badArgs
  | "tz", [_, a] =>
    match hexToNat? a with
    | some a => fam (rep 2 (toString (Bits.trailingZeros (L a)), toString (tz0 256 a)))
    | none => badArgs
  | "sqrt", [_, a] =>
    match hexToNat? a with
    | some a =>
      let e := h (Nat.sqrt a)
      fam [(pHex (Sqrt.uintSqrt (L a)), e), (pHex (Sqrt.uintSqrtVartime (L a)), e),
           (pHex (Sqrt.uintSqrt (L a)), e), (pHex (Sqrt.uintSqrtVartime (L a)), e)]
    | none => badArgs
  | "div", [_, a, d] =>
    match hexToNat? a, hexToNat? d with
    | some a, some d =>
      if d = 0 then badArgs else
      let qr (p : List Nat × List Nat) : String := s!"{limbsHex p.1} {limbsHex p.2}"
      let e := s!"{h (a / d)} {h (a % d)}"
      fam [(qr (Div.divRemCt (L a) (L d)), e), (qr (Div.divRemVartime (L a) (L d)), e),
           (qr (Div.divRemCt (L a) (L d)), e), (qr (Div.divRemVartime (L a) (L d)), e)]
    | _, _ => badArgs
  | "cmp", [_, a, b] =>
    match hexToNat? a, hexToNat? b with
    | some a, some b =>
      let e := toString (natOrd a b)
      fam [(toString (ucmpVartime (L a) (L b)), e), (toString (ucmpVartime (L a) (L b)), e), (toString (ucmp (L a) (L b)), e)]
    | _, _ => badArgs
  -- conversions: the value of the literal (forwarding / decoding routes; exercised, L1 = value level)
  | "hex", [s] =>
    match tokToBytes? s with
    | some bs =>
      match hexToNat? (String.ofList (bs.map Char.ofNat)) with
      | some v => fam (rep 4 (h v, h v))
      | none => badArgs
    | none => badArgs
  | "u128", [v] =>
    match hexToNat? v with
    | some v => fam (rep 4 (h v, h v))
    | none => badArgs
  | "words", [v] =>
    match hexToNat? v with
    | some v => fam (rep 3 (h v, h v))
    | none => badArgs
  | _, _ => none

def hexs? (l : List String) : Option (List Nat) := l.mapM hexToNat?
def decs? (l : List String) : Option (List Nat) := l.mapM (·.toNat?)

/-- families whose parameters after the first value are decimal (shift amounts, bit indices, choices) -/
def isShiftFam (name : String) : Bool :=
  ["shl", "shr", "oshl", "oshr", "wshl", "wshr", "bits", "lz", "tz", "to", "bit", "set_bit"].contains name

end D15

open D15 in
/-- operations of property C15 (op names start with `c15.`) -/
def dispatchC15 : Dispatch := fun op args =>
  match op.splitOn ".", args with
  | ["c15", "l", name], vs =>
    match hexs? vs with
    | some vs => limbFam name vs
    | none => badArgs
  | ["c15", "const", name], vs => constFam name vs
  | ["c15", "i", name], [n, a] =>
    match n.toNat?, hexToNat? a with
    | some n, some a => intFam name n a 0
    | _, _ => badArgs
  | ["c15", "i", name], [n, a, b] =>
    match n.toNat?, hexToNat? a, (if name = "shr" ∨ name = "wshr" then b.toNat? else hexToNat? b) with
    | some n, some a, some b => intFam name n a b
    | _, _, _ => badArgs
  | ["c15", "enc"], [n, a] =>
    match n.toNat?, hexToNat? a with
    | some n, some a => encFam n a
    | _, _ => badArgs
  | ["c15", "dec"], [n, bs] =>
    match n.toNat?, tokToBytes? bs with
    | some n, some bs => decFam n bs
    | _, _ => badArgs
  | ["c15", "radix"], [n, a, r] =>
    match n.toNat?, hexToNat? a, r.toNat? with
    | some n, some a, some r => radixFam n a r
    | _, _, _ => badArgs
  | ["c15", "rand"], [n, m, st] =>
    match n.toNat?, hexToNat? m, tokToBytes? st with
    | some n, some m, some bs => randFam n m bs
    | _, _, _ => badArgs
  | ["c15", "bm", name], [na, a, nb, b] =>
    match na.toNat?, hexToNat? a, nb.toNat?, hexToNat? b with
    | some na, some a, some nb, some b => mixedFam name na a nb b
    | _, _, _, _ => badArgs
  | ["c15", "inv_mod2k"], [n, a, k] =>
    match n.toNat?, hexToNat? a, k.toNat? with
    | some n, some a, some k => invFam "inv_mod2k" n a k
    | _, _, _ => badArgs
  | ["c15", "inv_odd_mod"], [n, a, m] =>
    match n.toNat?, hexToNat? a, hexToNat? m with
    | some n, some a, some m => invFam "inv_odd_mod" n a m
    | _, _, _ => badArgs
  | ["c15", "gcd"], [n, a, b] =>
    match n.toNat?, hexToNat? a, hexToNat? b with
    | some n, some a, some b => invFam "gcd" n a b
    | _, _, _ => badArgs
  | ["c15", "select"], [n, a, b, c] =>
    match n.toNat?, hexToNat? a, hexToNat? b, c.toNat? with
    | some n, some a, some b, some c => shiftFam "select" n a [b, c]
    | _, _, _, _ => badArgs
  | ["c15", name], n :: a :: rest =>
    if isShiftFam name then
      match n.toNat?, hexToNat? a, decs? rest with
      | some n, some a, some ps => shiftFam name n a ps
      | _, _, _ => badArgs
    else
      match n.toNat?, hexs? (a :: rest) with
      | some n, some vs => valueFam name n vs
      | _, _ => badArgs
  | _, _ => none

end CB
