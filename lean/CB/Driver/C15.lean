import CB.Driver.Util
namespace CB

/-- operations of property C15 (op names start with `c15.`) -/
def dispatchC15 : Dispatch := fun _ _ => none

end CB
