import CB.Driver.Util
import CB.Model.Int
namespace CB

/-! Driver of property C13.  Every line is printed as `L1 ;; L0`: `L1` = the limb-level model of
    CB/Model/Int.lean, `L0` = plain `Int` arithmetic on `toInt` (what the property demands). -/

namespace SInt.Drv
open CB.SInt

/-- `x mod 2^(64 n)` as the hex of the two's-complement limbs -/
def encI (n : Nat) (x : Int) : String := natToHex ((x % ((B ^ n : Nat) : Int)).toNat)
/-- `x ∈ [MIN, MAX]` of an `n`-limb `Int` -/
def inRange (n : Nat) (x : Int) : Bool :=
  decide (-((B ^ n : Nat) : Int) ≤ 2 * x ∧ 2 * x < ((B ^ n : Nat) : Int))
def encOpt (n : Nat) (x : Int) : String := if inRange n x then encI n x else "none"
def bit (b : Bool) : String := if b then "1" else "0"
def optTok (r : List Nat × Nat) : String :=
  if r.2 = WMAX then limbsHex r.1 else if r.2 = 0 then "none" else s!"badchoice:{natToHex r.2}"
def maskOf (s : String) : Option Nat := if s = "1" then some WMAX else if s = "0" then some 0 else none

def lim (n a : String) : Option (List Nat) :=
  match n.toNat?, hexToNat? a with
  | some n, some a => some (toLimbs n a)
  | _, _ => none

def both (l1 l0 : String) : Option String := some (l1 ++ " ;; " ++ l0)

end SInt.Drv
open CB.SInt CB.SInt.Drv

def dispatchC13 : Dispatch := fun op args =>
  match op, args with
  | "c13.add", [n, a, b] =>
    match lim n a, lim n b with
    | some x, some y =>
      let k := x.length
      let r := iOverflowingAdd x y
      let c := iCheckedAdd x y
      let s := toInt x + toInt y
      both s!"{limbsHex r.1} {choiceTok r.2} {optTok c} {limbsHex (iWrappingAdd x y)}"
           s!"{encI k s} {bit (!inRange k s)} {encOpt k s} {encI k s}"
    | _, _ => badArgs
  | "c13.sub", [n, a, b] =>
    match lim n a, lim n b with
    | some x, some y =>
      let k := x.length
      let s := toInt x - toInt y
      both s!"{optTok (iCheckedSub x y)} {limbsHex (iWrappingSub x y)}" s!"{encOpt k s} {encI k s}"
    | _, _ => badArgs
  | "c13.neg", [n, a] =>
    match lim n a with
    | some x =>
      let k := x.length
      let r := iOverflowingNeg x
      let s := - toInt x
      -- the forwarding forms `wrapping_neg_if(TRUE/FALSE)` are compared inside the harness
      let l1 := if iWrappingNegIf x WMAX = iWrappingNeg x ∧ iWrappingNegIf x 0 = x
        then s!"{limbsHex r.1} {choiceTok r.2} {optTok (iCheckedNeg x)} {limbsHex (iWrappingNeg x)}"
        else "forms-differ:neg_if"
      both l1 s!"{encI k s} {bit (!inRange k s)} {encOpt k s} {encI k s}"
    | none => badArgs
  | "c13.sign", [n, a] =>
    match lim n a with
    | some x =>
      let k := x.length
      let v := toInt x
      let m : Int := ((B ^ k : Nat) : Int)
      both s!"{choiceTok (isNegative x)} {choiceTok (isPositive x)} {choiceTok (isMin x)} {choiceTok (isMax x)} {limbsHex (absSign x).1}"
           s!"{bit (decide (v < 0))} {bit (decide (0 < v))} {bit (decide (2 * v = -m))} {bit (decide (2 * v = m - 2))} {natToHex v.natAbs}"
    | none => badArgs
  | "c13.from_abs_sign", [n, a, c] =>
    match lim n a, maskOf c with
    | some x, some c =>
      let v : Int := if c = 0 then (val x : Int) else - (val x : Int)
      both (optTok (newFromAbsSign x c)) (encOpt x.length v)
    | _, _ => badArgs
  | "c13.square", [n, a] =>
    match lim n a with
    | some x =>
      let k := x.length
      let s := (toInt x).natAbs * (toInt x).natAbs
      let m := B ^ k
      both s!"{optTok (iCheckedSquare x)} {limbsHex (iWrappingSquare x)} {limbsHex (iSaturatingSquare x)}"
           s!"{if s < m then natToHex s else "none"} {natToHex (s % m)} {natToHex (if s < m then s else m - 1)}"
    | none => badArgs
  | "c13.widening_square", [n, a] =>
    match lim n a with
    | some x => both (limbsHex (iWideningSquare x)) (natToHex ((toInt x).natAbs * (toInt x).natAbs))
    | none => badArgs
  | "c13.ck_mul", [n, a, b] =>
    match lim n a, lim n b with
    | some x, some y => both (optTok (iCheckedMul x y)) (encOpt x.length (toInt x * toInt y))
    | _, _ => badArgs
  | "c13.from_prim", [n, k, x] =>
    match n.toNat?, k.toNat?, hexToNat? x with
    | some n, some k, some x =>
      let x := x % 2 ^ k
      let v : Int := if 2 ^ (k - 1) ≤ x then (x : Int) - ((2 ^ k : Nat) : Int) else (x : Int)
      both (limbsHex (if k = 128 then iFromI128 x n else iFromPrim k x n)) (encI n v)
    | _, _, _ => badArgs
  | "c13.resize", [n, a, t] =>
    match lim n a, t.toNat? with
    | some x, some t => both (limbsHex (iResize x t)) (encI t (toInt x))
    | _, _ => badArgs
  | "c13.split_mul", [n, a, m, b] =>
    match lim n a, lim m b with
    | some x, some y =>
      let r := iSplitMul x y
      let p := (toInt x).natAbs * (toInt y).natAbs
      both s!"{limbsHex r.1} {limbsHex r.2.1} {choiceTok r.2.2}"
           s!"{natToHex (p % B ^ x.length)} {natToHex (p / B ^ x.length)} {bit (decide (toInt x < 0) != decide (toInt y < 0))}"
    | _, _ => badArgs
  | "c13.checked_mul", [n, a, m, b] =>
    match lim n a, lim m b with
    | some x, some y => both (optTok (iCheckedMul x y)) (encOpt x.length (toInt x * toInt y))
    | _, _ => badArgs
  | "c13.widening_mul", [n, a, m, b] =>
    match lim n a, lim m b with
    | some x, some y => both (limbsHex (iWideningMul x y)) (encI (x.length + y.length) (toInt x * toInt y))
    | _, _ => badArgs
  | "c13.split_mul_uint", [n, a, m, b] =>
    match lim n a, lim m b with
    | some x, some y =>
      let r := iSplitMulUint x y
      let p := (toInt x).natAbs * val y
      both s!"{limbsHex r.1} {limbsHex r.2.1} {choiceTok r.2.2}"
           s!"{natToHex (p % B ^ x.length)} {natToHex (p / B ^ x.length)} {bit (decide (toInt x < 0))}"
    | _, _ => badArgs
  | "c13.split_mul_uint_right", [n, a, m, b] =>
    match lim n a, lim m b with
    | some x, some y =>
      let r := iSplitMulUintRight x y
      let p := (toInt x).natAbs * val y
      both s!"{limbsHex r.1} {limbsHex r.2.1} {choiceTok r.2.2}"
           s!"{natToHex (p % B ^ y.length)} {natToHex (p / B ^ y.length)} {bit (decide (toInt x < 0))}"
    | _, _ => badArgs
  | "c13.checked_mul_uint", [n, a, m, b] =>
    match lim n a, lim m b with
    | some x, some y => both (optTok (iCheckedMulUint x y)) (encOpt x.length (toInt x * (val y : Int)))
    | _, _ => badArgs
  | "c13.checked_mul_uint_right", [n, a, m, b] =>
    match lim n a, lim m b with
    | some x, some y => both (optTok (iCheckedMulUintRight x y)) (encOpt y.length (toInt x * (val y : Int)))
    | _, _ => badArgs
  | "c13.widening_mul_uint", [n, a, m, b] =>
    match lim n a, lim m b with
    | some x, some y =>
      both (limbsHex (iWideningMulUint x y)) (encI (x.length + y.length) (toInt x * (val y : Int)))
    | _, _ => badArgs
  | _, _ => none

end CB
