import CB.Driver.Util
namespace CB

/-- operations of property C13 (op names start with `c13.`) -/
def dispatchC13 : Dispatch := fun _ _ => none

end CB
