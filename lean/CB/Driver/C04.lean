import CB.Driver.Util
import CB.Model.Uint
namespace CB

private def u2 (n a b : String) (f : List Nat → List Nat → String) : Option String :=
  match n.toNat?, hexToNat? a, hexToNat? b with
  | some n, some a, some b => some (f (toLimbs n a) (toLimbs n b))
  | _, _, _ => badArgs

def dispatchC04 : Dispatch := fun op args =>
  match op, args with
  | "w.adc", [a, b, c] =>
    match hexToNat? a, hexToNat? b, hexToNat? c with
    | some a, some b, some c => let r := adc a b c; some s!"{natToHex r.1} {natToHex r.2}"
    | _, _, _ => badArgs
  | "w.sbb", [a, b, c] =>
    match hexToNat? a, hexToNat? b, hexToNat? c with
    | some a, some b, some c => let r := sbb a b c; some s!"{natToHex r.1} {natToHex r.2}"
    | _, _, _ => badArgs
  | "w.mac", [a, b, c, d] =>
    match hexToNat? a, hexToNat? b, hexToNat? c, hexToNat? d with
    | some a, some b, some c, some d => let r := mac a b c d; some s!"{natToHex r.1} {natToHex r.2}"
    | _, _, _, _ => badArgs
  | "u.adc", [n, a, b, c] =>
    match hexToNat? c with
    | some c => u2 n a b fun x y => let r := uadc x y c; s!"{limbsHex r.1} {natToHex r.2}"
    | none => badArgs
  | "u.sbb", [n, a, b, c] =>
    match hexToNat? c with
    | some c => u2 n a b fun x y => let r := usbb x y c; s!"{limbsHex r.1} {natToHex r.2}"
    | none => badArgs
  | "u.wrapping_add", [n, a, b] => u2 n a b fun x y => limbsHex (wrappingAdd x y)
  | "u.wrapping_sub", [n, a, b] => u2 n a b fun x y => limbsHex (wrappingSub x y)
  | "u.saturating_add", [n, a, b] => u2 n a b fun x y => limbsHex (saturatingAdd x y)
  | "u.saturating_sub", [n, a, b] => u2 n a b fun x y => limbsHex (saturatingSub x y)
  | "u.checked_add", [n, a, b] => u2 n a b fun x y =>
      let r := checkedAdd x y; if r.2 = WMAX then limbsHex r.1 else "none"
  | "u.checked_sub", [n, a, b] => u2 n a b fun x y =>
      let r := checkedSub x y; if r.2 = WMAX then limbsHex r.1 else "none"
  | _, _ => none

end CB
