import CB.Driver.Util
import CB.Model.Uint
namespace CB

private def u2 (n a b : String) (f : List Nat → List Nat → String) : Option String :=
  match n.toNat?, hexToNat? a, hexToNat? b with
  | some n, some a, some b => some (f (toLimbs n a) (toLimbs n b))
  | _, _, _ => badArgs

def dispatchC04 : Dispatch := fun op args =>
  match op, args with
  | "c04.w.adc", [a, b, c] =>
    match hexToNat? a, hexToNat? b, hexToNat? c with
    | some a, some b, some c => let r := adc a b c; some s!"{natToHex r.1} {natToHex r.2}"
    | _, _, _ => badArgs
  | "c04.w.sbb", [a, b, c] =>
    match hexToNat? a, hexToNat? b, hexToNat? c with
    | some a, some b, some c => let r := sbb a b c; some s!"{natToHex r.1} {natToHex r.2}"
    | _, _, _ => badArgs
  | "c04.w.mac", [a, b, c, d] =>
    match hexToNat? a, hexToNat? b, hexToNat? c, hexToNat? d with
    | some a, some b, some c, some d => let r := mac a b c d; some s!"{natToHex r.1} {natToHex r.2}"
    | _, _, _, _ => badArgs
  | "c04.u.adc", [n, a, b, c] =>
    match hexToNat? c with
    | some c => u2 n a b fun x y => let r := uadc x y c; s!"{limbsHex r.1} {natToHex r.2}"
    | none => badArgs
  | "c04.u.sbb", [n, a, b, c] =>
    match hexToNat? c with
    | some c => u2 n a b fun x y => let r := usbb x y c; s!"{limbsHex r.1} {natToHex r.2}"
    | none => badArgs
  | "c04.u.wrapping_add", [n, a, b] => u2 n a b fun x y => limbsHex (wrappingAdd x y)
  | "c04.u.wrapping_sub", [n, a, b] => u2 n a b fun x y => limbsHex (wrappingSub x y)
  | "c04.u.saturating_add", [n, a, b] => u2 n a b fun x y => limbsHex (saturatingAdd x y)
  | "c04.u.saturating_sub", [n, a, b] => u2 n a b fun x y => limbsHex (saturatingSub x y)
  | "c04.u.checked_add", [n, a, b] => u2 n a b fun x y =>
      let r := checkedAdd x y; if r.2 = WMAX then limbsHex r.1 else "none"
  | "c04.u.checked_sub", [n, a, b] => u2 n a b fun x y =>
      let r := checkedSub x y; if r.2 = WMAX then limbsHex r.1 else "none"
  | _, _ => none

end CB
