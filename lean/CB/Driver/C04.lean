import CB.Driver.Util
import CB.Model.AddSubForms
import CB.Model.WrapForms
namespace CB
open CB.Cmp CB.AddSub

namespace D04
open CB.WrapForms CB.NumTests

/-- a `CtOption` token: the value under a true mask, `none` under a false one -/
def ctoptTok (o : List Nat × Nat) : String :=
  if o.2 = 1 then limbsHex o.1 else if o.2 = 0 then "none" else s!"badchoice:{natToHex o.2}"
def optNatTok (o : Option Nat) : String := match o with | some v => natToHex v | none => "none"
def bit01 (p : Bool) : String := if p then "1" else "0"
def bitOfTok? (s : String) : Option Nat := match s with | "0" => some 0 | "1" => some 1 | _ => none

/-- `c04.{u,l}.checked_ct`: conditional_select  ct_eq  default  conversions(a) -/
def checkedCt (n x sx y sy c : Nat) : String :=
  let a : CtOpt := (toLimbs n x, sx)
  let b : CtOpt := (toLimbs n y, sy)
  let conv := if ctoptTok (checkedToCtOption a) = ctoptTok (checkedFromCtOption a) ∧
      ctoptTok (checkedToCtOption a) = (match checkedToOption a with | some v => limbsHex v | none => "none")
    then ctoptTok (checkedToCtOption a) else "routes-differ"
  let l1 := s!"{ctoptTok (ctoptSelect a b c)} {ctoptEq a b} {ctoptTok (checkedDefault n)} {conv}"
  let m := B ^ n
  let va : Option Nat := if sx = 1 then some (x % m) else none
  let vb : Option Nat := if sy = 1 then some (y % m) else none
  let l0 := s!"{optNatTok (if c = 1 then vb else va)} {bit01 (va == vb)} 0 {optNatTok va}"
  s!"{l1} ;; {l0}"

/-- `c04.{u,l}.wrapping_ct`: conditional_select  ct_eq  zero  is_zero(x)  one  is_one(x) -/
def wrappingCt (n x y c : Nat) : String :=
  let a := toLimbs n x; let b := toLimbs n y
  let l1 := s!"{limbsHex (wrappingSelect a b c)} {choiceTok (wrappingCtEq a b)} {limbsHex (wrappingZero n)} {choiceTok (wrappingIsZero a)} {limbsHex (wrappingOne n)} {choiceTok (wrappingIsOne a)}"
  let l0 := s!"{natToHex (if c = 1 then y else x)} {bit01 (x == y)} 0 {bit01 (x == 0)} 1 {bit01 (x == 1)}"
  s!"{l1} ;; {l0}"

/-- `c04.{u,l,b}.wrapping_fmt`: Display  UpperHex  LowerHex  Binary  #X  #x  #b  (boxed: a zero-limb value cannot be built here) -/
def wrappingFmt (boxed : Bool) (l : List Nat) : String :=
  let k := 16 * l.length
  let v := val l
  let hx := fun (u a : Bool) => if boxed then wrappingBoxedFmtHex u a l else wrappingFmtHex u a l
  let bn := fun (a : Bool) => if boxed then wrappingBoxedFmtBin a l else wrappingFmtBin a l
  let l1 := " ".intercalate ([hx true false, hx true false, hx false false, bn false, hx true true, hx false true, bn true].map bytesToTok)
  let sh := fun (u : Bool) => Encoding.specHexText u k v
  let sb := Encoding.specBinText (64 * l.length) v
  let l0 := " ".intercalate ([sh true, sh true, sh false, sb, [48, 120] ++ sh true, [48, 120] ++ sh false, [48, 98] ++ sb].map bytesToTok)
  s!"{l1} ;; {l0}"

end D04

private def u2 (n a b : String) (f : List Nat → List Nat → String) : Option String :=
  match n.toNat?, hexToNat? a, hexToNat? b with
  | some n, some a, some b => some (f (toLimbs n a) (toLimbs n b))
  | _, _, _ => badArgs

def dispatchC04 : Dispatch := fun op args =>
  match op, args with
  | "c04.w.adc", [a, b, c] =>
    match hexToNat? a, hexToNat? b, hexToNat? c with
    | some a, some b, some c => let r := adc a b c; some s!"{natToHex r.1} {natToHex r.2}"
    | _, _, _ => badArgs
  | "c04.w.sbb", [a, b, c] =>
    match hexToNat? a, hexToNat? b, hexToNat? c with
    | some a, some b, some c => let r := sbb a b c; some s!"{natToHex r.1} {natToHex r.2}"
    | _, _, _ => badArgs
  | "c04.w.mac", [a, b, c, d] =>
    match hexToNat? a, hexToNat? b, hexToNat? c, hexToNat? d with
    | some a, some b, some c, some d => let r := mac a b c d; some s!"{natToHex r.1} {natToHex r.2}"
    | _, _, _, _ => badArgs
  | "c04.u.adc", [n, a, b, c] =>
    match hexToNat? c with
    | some c => u2 n a b fun x y => let r := uadc x y c; s!"{limbsHex r.1} {natToHex r.2}"
    | none => badArgs
  | "c04.u.sbb", [n, a, b, c] =>
    match hexToNat? c with
    | some c => u2 n a b fun x y => let r := usbb x y c; s!"{limbsHex r.1} {natToHex r.2}"
    | none => badArgs
  | "c04.u.wrapping_add", [n, a, b] => u2 n a b fun x y => limbsHex (wrappingAdd x y)
  | "c04.u.wrapping_sub", [n, a, b] => u2 n a b fun x y => limbsHex (wrappingSub x y)
  | "c04.u.saturating_add", [n, a, b] => u2 n a b fun x y => limbsHex (saturatingAdd x y)
  | "c04.u.saturating_sub", [n, a, b] => u2 n a b fun x y => limbsHex (saturatingSub x y)
  | "c04.u.checked_add", [n, a, b] => u2 n a b fun x y =>
      let r := checkedAdd x y; if r.2 = WMAX then limbsHex r.1 else "none"
  | "c04.u.checked_sub", [n, a, b] => u2 n a b fun x y =>
      let r := checkedSub x y; if r.2 = WMAX then limbsHex r.1 else "none"
  -- Uint negation: carrying_neg (value, carry), wrapping_neg, wrapping_neg_if(c)
  | "c04.u.neg", [n, a, c] =>
    match n.toNat?, hexToNat? a, c.toNat? with
    | some n, some a, some c =>
      let x := toLimbs n a
      let cn := carryingNeg x
      let l1 := s!"{limbsHex cn.1} {choiceTok cn.2} {limbsHex (wrappingNeg x)} {limbsHex (wrappingNegIf x (maskOfBit c))}"
      let av := a % B ^ n
      let neg := (B ^ n - av) % B ^ n
      let l0 := s!"{natToHex neg} {if av = 0 then 1 else 0} {natToHex neg} {natToHex (if c = 0 then av else neg)}"
      some s!"{l1} ;; {l0}"
    | _, _, _ => badArgs
  -- panicking operators `a + b`, `a - b` (and the assigning forms)
  | "c04.u.op_add", [n, a, b] =>
    match n.toNat?, hexToNat? a, hexToNat? b with
    | some n, some a, some b =>
      let r := checkedAdd (toLimbs n a) (toLimbs n b)
      let l1 := if r.2 = WMAX then limbsHex r.1 else "panic"
      let l0 := if a + b < B ^ n then natToHex (a + b) else "panic"
      some s!"{l1} ;; {l0}"
    | _, _, _ => badArgs
  | "c04.u.op_sub", [n, a, b] =>
    match n.toNat?, hexToNat? a, hexToNat? b with
    | some n, some a, some b =>
      let r := checkedSub (toLimbs n a) (toLimbs n b)
      let l1 := if r.2 = WMAX then limbsHex r.1 else "panic"
      let l0 := if b ≤ a then natToHex (a - b) else "panic"
      some s!"{l1} ;; {l0}"
    | _, _, _ => badArgs
  -- Wrapping<Uint>: (a + b) - c  and  -a
  | "c04.u.wrapping_chain", [n, a, b, c] =>
    match n.toNat?, hexToNat? a, hexToNat? b, hexToNat? c with
    | some n, some a, some b, some c =>
      let x := toLimbs n a; let y := toLimbs n b; let z := toLimbs n c
      let l1 := s!"{limbsHex (wrappingSub (wrappingAdd x y) z)} {limbsHex (wrappingNeg x)}"
      let m := B ^ n
      let l0 := s!"{natToHex ((a + b + m - c) % m)} {natToHex ((m - a) % m)}"
      some s!"{l1} ;; {l0}"
    | _, _, _, _ => badArgs
  -- Checked<Uint>: r1 = a + b, r2 = r1 - c, r3 = r2 + c  (none is sticky)
  | "c04.u.checked_chain", [n, a, b, c] =>
    match n.toNat?, hexToNat? a, hexToNat? b, hexToNat? c with
    | some n, some a, some b, some c =>
      let x := some (toLimbs n a); let y := some (toLimbs n b); let z := some (toLimbs n c)
      let r1 := checkedAddO x y; let r2 := checkedSubO r1 z; let r3 := checkedAddO r2 z
      let pr := fun (o : Option (List Nat)) => match o with | some v => limbsHex v | none => "none"
      let m := B ^ n
      let s1 : Option Nat := if a + b < m then some (a + b) else none
      let s2 : Option Nat := match s1 with | some v => if c ≤ v then some (v - c) else none | none => none
      let s3 : Option Nat := match s2 with | some v => if v + c < m then some (v + c) else none | none => none
      let ps := fun (o : Option Nat) => match o with | some v => natToHex v | none => "none"
      some s!"{pr r1} {pr r2} {pr r3} ;; {ps s1} {ps s2} {ps s3}"
    | _, _, _, _ => badArgs
  -- Limb forms: wrapping_add wrapping_sub saturating_add saturating_sub checked_add checked_sub wrapping_neg
  | "c04.l.forms", [a, b] =>
    match hexToNat? a, hexToNat? b with
    | some a, some b =>
      let ca := adc a b 0; let cs := sbb a b 0
      let l1 := s!"{natToHex (wadd a b)} {natToHex (wsub a b)} {natToHex (limbSatAdd a b)} {natToHex (limbSatSub a b)} {if fromWordEq ca.2 0 = WMAX then natToHex ca.1 else "none"} {if fromWordEq cs.2 0 = WMAX then natToHex cs.1 else "none"} {natToHex (wneg a)}"
      let l0 := s!"{natToHex ((a + b) % B)} {natToHex ((a + B - b) % B)} {natToHex (min (a + b) WMAX)} {natToHex (a - b)} {if a + b < B then natToHex (a + b) else "none"} {if b ≤ a then natToHex (a - b) else "none"} {natToHex ((B - a) % B)}"
      some s!"{l1} ;; {l0}"
    | _, _ => badArgs
  | "c04.l.op_add", [a, b] =>
    match hexToNat? a, hexToNat? b with
    | some a, some b =>
      let ca := adc a b 0
      some s!"{if fromWordEq ca.2 0 = WMAX then natToHex ca.1 else "panic"} ;; {if a + b < B then natToHex (a + b) else "panic"}"
    | _, _ => badArgs
  | "c04.l.op_sub", [a, b] =>
    match hexToNat? a, hexToNat? b with
    | some a, some b =>
      let cs := sbb a b 0
      some s!"{if fromWordEq cs.2 0 = WMAX then natToHex cs.1 else "panic"} ;; {if b ≤ a then natToHex (a - b) else "panic"}"
    | _, _ => badArgs
  -- boxed, any two precisions
  | "c04.b.adc", [na, a, nb, b, c] =>
    match na.toNat?, hexToNat? a, nb.toNat?, hexToNat? b, hexToNat? c with
    | some na, some a, some nb, some b, some c =>
      let r := badc (toLimbs na a) (toLimbs nb b) c
      let m := B ^ (max na nb)
      some s!"{limbsHexLen r.1} {natToHex r.2} ;; {max na nb}:{natToHex ((a + b + c) % m)} {natToHex ((a + b + c) / m)}"
    | _, _, _, _, _ => badArgs
  | "c04.b.sbb", [na, a, nb, b, c] =>
    match na.toNat?, hexToNat? a, nb.toNat?, hexToNat? b, hexToNat? c with
    | some na, some a, some nb, some b, some c =>
      let r := bsbb (toLimbs na a) (toLimbs nb b) c
      let m := B ^ (max na nb)
      let s := b + c / HALF
      some s!"{limbsHexLen r.1} {natToHex r.2} ;; {max na nb}:{natToHex ((a + m - s % m) % m)} {natToHex (if a < s then WMAX else 0)}"
    | _, _, _, _, _ => badArgs
  -- wrapping_add wrapping_sub checked_add checked_sub wrapping_neg(a)
  | "c04.b.forms", [na, a, nb, b] =>
    match na.toNat?, hexToNat? a, nb.toNat?, hexToNat? b with
    | some na, some a, some nb, some b =>
      let x := toLimbs na a; let y := toLimbs nb b
      let ra := badc x y 0; let rs := bsbb x y 0
      let k := max na nb; let m := B ^ k
      let l1 := s!"{limbsHexLen ra.1} {limbsHexLen rs.1} {if fromWordEq ra.2 0 = WMAX then limbsHexLen ra.1 else "none"} {if fromWordEq rs.2 0 = WMAX then limbsHexLen rs.1 else "none"} {limbsHexLen (wrappingNeg x)}"
      let l0 := s!"{k}:{natToHex ((a + b) % m)} {k}:{natToHex ((a + m - b) % m)} {if a + b < m then s!"{k}:{natToHex (a + b)}" else "none"} {if b ≤ a then s!"{k}:{natToHex (a - b)}" else "none"} {na}:{natToHex ((B ^ na - a) % B ^ na)}"
      some s!"{l1} ;; {l0}"
    | _, _, _, _ => badArgs
  | "c04.b.op_add", [na, a, nb, b] =>
    match na.toNat?, hexToNat? a, nb.toNat?, hexToNat? b with
    | some na, some a, some nb, some b =>
      let k := max na nb
      let l1 := match boxedOpAdd (toLimbs na a) (toLimbs nb b) with | some v => limbsHexLen v | none => "panic"
      some s!"{l1} ;; {if a + b < B ^ k then s!"{k}:{natToHex (a + b)}" else "panic"}"
    | _, _, _, _ => badArgs
  | "c04.b.op_sub", [na, a, nb, b] =>
    match na.toNat?, hexToNat? a, nb.toNat?, hexToNat? b with
    | some na, some a, some nb, some b =>
      let k := max na nb
      let l1 := match boxedOpSub (toLimbs na a) (toLimbs nb b) with | some v => limbsHexLen v | none => "panic"
      some s!"{l1} ;; {if b ≤ a then s!"{k}:{natToHex (a - b)}" else "panic"}"
    | _, _, _, _ => badArgs
  -- `a += &b`, also used for `a += Uint<N>` and `a + primitive`: the receiver keeps its precision.
  -- spec: exact result if it fits the receiver; panic if it does not; a wider rhs may also panic (documented precondition).
  | "c04.b.add_assign", [na, a, nb, b] =>
    match na.toNat?, hexToNat? a, nb.toNat?, hexToNat? b with
    | some na, some a, some nb, some b =>
      let l1 := match boxedAddAssign (toLimbs na a) (toLimbs nb b) with | some v => limbsHexLen v | none => "panic"
      let exact := if a + b < B ^ na then s!"{na}:{natToHex (a + b)}" else "panic"
      some s!"{l1} ;; {if nb > na ∧ exact ≠ "panic" then exact ++ " || panic" else exact}"
    | _, _, _, _ => badArgs
  | "c04.b.sub_assign", [na, a, nb, b] =>
    match na.toNat?, hexToNat? a, nb.toNat?, hexToNat? b with
    | some na, some a, some nb, some b =>
      let l1 := match boxedSubAssign (toLimbs na a) (toLimbs nb b) with | some v => limbsHexLen v | none => "panic"
      let exact := if b ≤ a then s!"{na}:{natToHex (a - b)}" else "panic"
      some s!"{l1} ;; {if nb > na ∧ exact ≠ "panic" then exact ++ " || panic" else exact}"
    | _, _, _, _ => badArgs
  -- Wrapping<BoxedUint> `+=` / `-=`: no overflow check; result mod 2^BITS of the receiver
  | "c04.b.wrapping_assign", [na, a, nb, b] =>
    match na.toNat?, hexToNat? a, nb.toNat?, hexToNat? b with
    | some na, some a, some nb, some b =>
      let x := toLimbs na a; let y := toLimbs nb b
      let m := B ^ na
      let l1 := match boxedWrappingAddAssign x y, boxedWrappingSubAssign x y with
        | some u, some v => s!"{limbsHexLen u} {limbsHexLen v}"
        | _, _ => "panic"
      let exact := s!"{na}:{natToHex ((a + b) % m)} {na}:{natToHex ((a + m - b % m) % m)}"
      some s!"{l1} ;; {if nb > na then exact ++ " || panic" else exact}"
    | _, _, _, _ => badArgs
  -- ---- coverage round: Wrapping<Limb> / Checked<Limb> assigning forms, WrappingNeg trait form
  | "c04.l.assign", [a, b] =>
    match hexToNat? a, hexToNat? b with
    | some a, some b =>
      let ca := WrapForms.limbCheckedAddAssign (a, 1) (b, 1); let cs := WrapForms.limbCheckedSubAssign (a, 1) (b, 1)
      let l1 := s!"{natToHex (WrapForms.limbWrappingAddAssign a b)} {natToHex (WrapForms.limbWrappingSubAssign a b)} {D04.ctoptTok ([ca.1], ca.2)} {D04.ctoptTok ([cs.1], cs.2)} {natToHex (WrapForms.limbWrappingNegTrait a)}"
      let l0 := s!"{natToHex ((a + b) % B)} {natToHex ((a + B - b) % B)} {if a + b < B then natToHex (a + b) else "none"} {if b ≤ a then natToHex (a - b) else "none"} {natToHex ((B - a) % B)}"
      some s!"{l1} ;; {l0}"
    | _, _ => badArgs
  | "c04.l.checked_assign", [a, sa, b, sb] =>
    match hexToNat? a, D04.bitOfTok? sa, hexToNat? b, D04.bitOfTok? sb with
    | some a, some sa, some b, some sb =>
      let ca := WrapForms.limbCheckedAddAssign (a, sa) (b, sb); let cs := WrapForms.limbCheckedSubAssign (a, sa) (b, sb)
      let l1 := s!"{D04.ctoptTok ([ca.1], ca.2)} {D04.ctoptTok ([cs.1], cs.2)}"
      let both := sa = 1 ∧ sb = 1
      let l0 := s!"{if both ∧ a + b < B then natToHex (a + b) else "none"} {if both ∧ b ≤ a then natToHex (a - b) else "none"}"
      some s!"{l1} ;; {l0}"
    | _, _, _, _ => badArgs
  | "c04.l.checked_ct", [a, sa, b, sb, c] =>
    match hexToNat? a, D04.bitOfTok? sa, hexToNat? b, D04.bitOfTok? sb, D04.bitOfTok? c with
    | some a, some sa, some b, some sb, some c => some (D04.checkedCt 1 a sa b sb c)
    | _, _, _, _, _ => badArgs
  | "c04.u.checked_forms", [n, a, sa, b, sb] =>
    match n.toNat?, hexToNat? a, D04.bitOfTok? sa, hexToNat? b, D04.bitOfTok? sb with
    | some n, some a, some sa, some b, some sb =>
      -- `Checked` addition / subtraction: `None` if either operand is `None` (sticky) or the result does not fit
      let both := sa == 1 && sb == 1
      let x := toLimbs n a
      let y := toLimbs n b
      let ra := checkedAdd x y
      let rs := checkedSub x y
      let l1a := if both && ra.2 = WMAX then limbsHex ra.1 else "none"
      let l1s := if both && rs.2 = WMAX then limbsHex rs.1 else "none"
      let m := B ^ n
      let l0a := if both && a % m + b % m < m then natToHex (a % m + b % m) else "none"
      let l0s := if both && b % m ≤ a % m then natToHex (a % m - b % m) else "none"
      some (s!"{l1a} {l1s} ;; {l0a} {l0s}")
    | _, _, _, _, _ => badArgs
  | "c04.u.checked_ct", [n, a, sa, b, sb, c] =>
    match n.toNat?, hexToNat? a, D04.bitOfTok? sa, hexToNat? b, D04.bitOfTok? sb, D04.bitOfTok? c with
    | some n, some a, some sa, some b, some sb, some c => some (D04.checkedCt n a sa b sb c)
    | _, _, _, _, _, _ => badArgs
  | "c04.l.wrapping_ct", [a, b, c] =>
    match hexToNat? a, hexToNat? b, D04.bitOfTok? c with
    | some a, some b, some c => some (D04.wrappingCt 1 a b c)
    | _, _, _ => badArgs
  | "c04.u.wrapping_ct", [n, a, b, c] =>
    match n.toNat?, hexToNat? a, hexToNat? b, D04.bitOfTok? c with
    | some n, some a, some b, some c => some (D04.wrappingCt n a b c)
    | _, _, _, _ => badArgs
  | "c04.l.wrapping_fmt", [a] =>
    match hexToNat? a with
    | some a => some (D04.wrappingFmt false [a % B])
    | _ => badArgs
  | "c04.u.wrapping_fmt", [n, a] =>
    match n.toNat?, hexToNat? a with
    | some n, some a => some (D04.wrappingFmt false (toLimbs n a))
    | _, _ => badArgs
  | "c04.b.wrapping_fmt", [n, a] =>
    match n.toNat?, hexToNat? a with
    | some n, some a => some (D04.wrappingFmt true (toLimbs n a))
    | _, _ => badArgs
  -- Wrapping<BoxedUint>: ct_eq (zero padded)  zero  is_zero  one  is_one
  | "c04.b.wrapping_ct", [na, a, nb, b] =>
    match na.toNat?, hexToNat? a, nb.toNat?, hexToNat? b with
    | some na, some a, some nb, some b =>
      let x := toLimbs na a; let y := toLimbs nb b
      let l1 := s!"{bctEq x y} 1:0 {NumTests.bIsZero x} 1:1 {NumTests.bIsOne x}"
      let l0 := s!"{D04.bit01 (a == b)} 1:0 {D04.bit01 (a == 0)} 1:1 {D04.bit01 (a == 1)}"
      some s!"{l1} ;; {l0}"
    | _, _, _, _ => badArgs
  -- `{:o}` of a primitive word through `Wrapping`: minimal octal digits (Rust's formatting of u64; no L0 of its own)
  | "c04.w.wrapping_octal", [a] =>
    match hexToNat? a with
    | some a => some (bytesToTok ((Nat.toDigits 8 (a % B)).map Char.toNat))
    | _ => badArgs
  | _, _ => none

end CB
