import CB.Driver.Util
namespace CB

/-- operations of property C03 (op names start with `c03.`) -/
def dispatchC03 : Dispatch := fun _ _ => none

end CB
