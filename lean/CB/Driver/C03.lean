/-
  CB.Driver.C03 — line protocol of property C03 (multiplication / squaring).
  Every line prints `L1 ;; L0`: L1 = the limb-level model (CB.Model.Mul / Karatsuba), L0 = what the
  property demands, computed with plain `Nat` / `Int` arithmetic on the operand values.
-/
import CB.Driver.Util
import CB.Model.Karatsuba
namespace CB

namespace D03
open CB.Mul CB.Karatsuba

def both (l1 l0 : String) : Option String := some s!"{l1} ;; {l0}"

def optTok (v : List Nat) (m : Nat) : String := if m = WMAX then limbsHex v else if m = 0 then "none" else s!"badchoice:{natToHex m}"
def panicTok (v : List Nat) (m : Nat) : String := if m = WMAX then limbsHex v else if m = 0 then "panic" else s!"badchoice:{natToHex m}"

/-- value of `n` two's-complement limbs as an `Int` -/
def toInt (n : Nat) (a : Nat) : Int := if 2 * a ≥ B ^ n then (a : Int) - (B ^ n : Nat) else (a : Int)
/-- two's-complement encoding on `n` limbs -/
def ofInt (n : Nat) (i : Int) : Nat := (i % ((B ^ n : Nat) : Int)).toNat
def fitsInt (n : Nat) (i : Int) : Bool := decide (-(((B ^ n / 2 : Nat) : Int)) ≤ i) && decide (i < ((B ^ n / 2 : Nat) : Int))

def parse2 (n m x y : String) : Option (Nat × Nat × Nat × Nat) :=
  match n.toNat?, m.toNat?, hexToNat? x, hexToNat? y with
  | some n, some m, some x, some y => some (n, m, x, y)
  | _, _, _, _ => none

def parse1 (n x : String) : Option (Nat × Nat) :=
  match n.toNat?, hexToNat? x with
  | some n, some x => some (n, x)
  | _, _ => none

/-- unsigned binary ops on fixed `Uint<n>` × `Uint<m>` -/
def uintOp (name : String) (n m a b : Nat) : Option String :=
  let x := toLimbs n a
  let y := toLimbs m b
  let p := a * b
  let K := B ^ n
  match name with
  | "split_mul" =>
    let r := splitMul x y
    both s!"{limbsHex r.1} {limbsHex r.2}" s!"{natToHex (p % K)} {natToHex (p / K)}"
  | "widening_mul" => both (limbsHex (concatPair (splitMul x y))) (natToHex p)
  | "wrapping_mul" => both (limbsHex (wrappingOfPair (splitMul x y))) (natToHex (p % K))
  | "saturating_mul" => both (limbsHex (saturatingOfPair (splitMul x y))) (natToHex (min p (K - 1)))
  | "checked_mul" =>
    let r := checkedOfPair (splitMul x y)
    both (optTok r.1 r.2) (if p < K then natToHex p else "none")
  | "mul_ops" =>
    let r := checkedOfPair (splitMul x y)
    both (panicTok r.1 r.2) (if p < K then natToHex p else "panic")
  | "checked_ops" =>
    let r := checkedOfPair (splitMul x y)
    both (optTok r.1 r.2) (if p < K then natToHex p else "none")
  | _ => none

/-- unsigned unary (squaring) ops on `Uint<n>` -/
def uintSq (name : String) (n a : Nat) : Option String :=
  let x := toLimbs n a
  let p := a * a
  let K := B ^ n
  match name with
  | "square_wide" =>
    let r := squareWide x
    both s!"{limbsHex r.1} {limbsHex r.2}" s!"{natToHex (p % K)} {natToHex (p / K)}"
  | "widening_square" => both (limbsHex (concatPair (squareWide x))) (natToHex p)
  | "wrapping_square" => both (limbsHex (wrappingOfPair (squareWide x))) (natToHex (p % K))
  | "saturating_square" => both (limbsHex (saturatingOfPair (squareWide x))) (natToHex (min p (K - 1)))
  | "checked_square" =>
    let r := checkedSquareOfPair (squareWide x)
    both (optTok r.1 r.2) (if p < K then natToHex p else "none")
  | _ => none

def intOp (name : String) (n m a b : Nat) : Option String :=
  let x := toLimbs n a
  let y := toLimbs m b
  let sa := toInt n (a % B ^ n)
  let sb := toInt m (b % B ^ m)
  let p := sa * sb
  let K := B ^ n
  match name with
  | "split_mul" =>
    let r := intSplitMul splitMul x y
    let neg := decide (sa < 0) != decide (sb < 0)
    both s!"{limbsHex r.1} {limbsHex r.2.1} {choiceTok r.2.2}"
      s!"{natToHex (p.natAbs % K)} {natToHex (p.natAbs / K)} {if neg then "1" else "0"}"
  | "widening_mul" => both (limbsHex (intWideningMul splitMul x y)) (natToHex (ofInt (n + m) p))
  | "checked_mul" =>
    let r := intCheckedMul splitMul x y
    both (optTok r.1 r.2) (if fitsInt n p then natToHex (ofInt n p) else "none")
  | "mul_ops" =>
    let r := intCheckedMul splitMul x y
    both (panicTok r.1 r.2) (if fitsInt n p then natToHex (ofInt n p) else "panic")
  | "checked_ops" =>
    let r := intCheckedMul splitMul x y
    both (optTok r.1 r.2) (if fitsInt n p then natToHex (ofInt n p) else "none")
  | _ => none

def intSq (name : String) (n a : Nat) : Option String :=
  let x := toLimbs n a
  let sa := toInt n (a % B ^ n)
  let p := sa.natAbs * sa.natAbs
  let K := B ^ n
  let ab := (intAbsSign x).1
  match name with
  | "widening_square" => both (limbsHex (concatPair (squareWide ab))) (natToHex p)
  | "wrapping_square" => both (limbsHex (wrappingOfPair (squareWide ab))) (natToHex (p % K))
  | "saturating_square" => both (limbsHex (saturatingOfPair (squareWide ab))) (natToHex (min p (K - 1)))
  | "checked_square" =>
    let r := checkedSquareOfPair (squareWide ab)
    both (optTok r.1 r.2) (if p < K then natToHex p else "none")
  | _ => none

def limbOp (name : String) (a b : Nat) : Option String :=
  let p := a * b
  match name with
  | "saturating_mul" => both (natToHex (limbSaturatingMul a b)) (natToHex (min p WMAX))
  | "wrapping_mul" => both (natToHex (limbWrappingMul a b)) (natToHex (p % B))
  | "mul_wide" => let r := mulWide a b; both s!"{natToHex r.1} {natToHex r.2}" s!"{natToHex (p % B)} {natToHex (p / B)}"
  | "checked_mul" =>
    let r := limbCheckedMul a b
    both (if r.2 = WMAX then natToHex r.1 else "none") (if p < B then natToHex p else "none")
  | "checked_ops" =>
    let r := limbCheckedMul a b
    both (if r.2 = WMAX then natToHex r.1 else "none") (if p < B then natToHex p else "none")
  | "mul_ops" =>
    let r := limbCheckedMul a b
    both (if r.2 = WMAX then natToHex r.1 else "panic") (if p < B then natToHex p else "panic")
  | _ => none

def lenHex (n v : Nat) : String := s!"{n}:{natToHex v}"

def boxedOp (name : String) (n m a b : Nat) : Option String :=
  let x := toLimbs n a
  let y := toLimbs m b
  let p := a * b
  let K := B ^ n
  match name with
  | "mul" => both (limbsHexLen (boxedMul x y)) (lenHex (n + m) p)
  | "wrapping_mul" => both (limbsHexLen (boxedWrappingMul x y)) (lenHex n (p % K))
  | "checked_mul" =>
    let r := boxedCheckedMul x y
    both (if r.2 = WMAX then limbsHexLen r.1 else "none") (if p < K then lenHex n p else "none")
  | "mul_ref" =>
    let r := boxedCheckedMul x y
    both (if r.2 = WMAX then limbsHexLen r.1 else "panic") (if p < K then lenHex n p else "panic")
  | _ => none

/-- `c03.hook.*`: the crate-internal limb-slice routines reached through `crypto_bigint::verif_hooks`.
    `adc_mul_limbs n m x y acc`: `(out, carry)` with `out + B^(n+m)·carry = acc + x·y`;
    `kara_mul n m x y dirty` / `kara_square n x dirty`: the product on `n + m` / `2n` limbs (the routines overwrite all of
    `out`, so pre-filled buffers — `dirty = 1` — give the same answer; scratch is not modelled). Fuel = total limb count,
    as in `boxedMul` / `boxedSquare`. -/
def hookOp (name : String) (args : List String) : Option String :=
  match name, args with
  | "adc_mul_limbs", [n, m, x, y, acc] =>
    match parse2 n m x y, hexToNat? acc with
    | some (n, m, x, y), some acc =>
      let r := adcMulLimbs (toLimbs n x) (toLimbs m y) (toLimbs (n + m) acc)
      let t := acc + x * y
      let K := B ^ (n + m)
      both s!"{limbsHexLen r.1} {natToHex r.2}" s!"{lenHex (n + m) (t % K)} {natToHex (t / K)}"
    | _, _ => badArgs
  | "kara_mul", [n, m, x, y, _dirty] =>
    match parse2 n m x y with
    | some (n, m, x, y) => both (limbsHexLen (karaMulLimbs (n + m) (toLimbs n x) (toLimbs m y))) (lenHex (n + m) (x * y))
    | none => badArgs
  | "kara_square", [n, x, _dirty] =>
    match parse1 n x with
    | some (n, x) => both (limbsHexLen (karaSquareLimbs n (toLimbs n x))) (lenHex (2 * n) (x * x))
    | none => badArgs
  | _, _ => none

end D03

open D03 CB.Mul CB.Karatsuba in
/-- operations of property C03 (op names start with `c03.`) -/
def dispatchC03 : Dispatch := fun op args =>
  match op.splitOn ".", args with
  | ["c03", "hook", name], args => hookOp name args
  | ["c03", "l", "mac"], [a, b, c, d] =>
    match hexToNat? a, hexToNat? b, hexToNat? c, hexToNat? d with
    | some a, some b, some c, some d =>
      let r := mac a b c d
      let s := a + b * c + d
      both s!"{natToHex r.1} {natToHex r.2}" s!"{natToHex (s % B)} {natToHex (s / B)}"
    | _, _, _, _ => badArgs
  | ["c03", "l", name], [a, b] =>
    match hexToNat? a, hexToNat? b with
    | some a, some b => limbOp name a b
    | _, _ => badArgs
  | ["c03", "u", name], [n, m, x, y] =>
    match parse2 n m x y with
    | some (n, m, x, y) => uintOp name n m x y
    | none => badArgs
  | ["c03", "u", name], [n, x] =>
    match parse1 n x with
    | some (n, x) => uintSq name n x
    | none => badArgs
  | ["c03", "i", name], [n, m, x, y] =>
    match parse2 n m x y with
    | some (n, m, x, y) => intOp name n m x y
    | none => badArgs
  | ["c03", "i", name], [n, x] =>
    match parse1 n x with
    | some (n, x) => intSq name n x
    | none => badArgs
  | ["c03", "b", "square"], [n, x] =>
    match parse1 n x with
    | some (n, x) => both (limbsHexLen (boxedSquare (toLimbs n x))) (lenHex (2 * n) (x * x))
    | none => badArgs
  | ["c03", "b", name], [n, m, x, y] =>
    match parse2 n m x y with
    | some (n, m, x, y) => boxedOp name n m x y
    | none => badArgs
  | _, _ => none

end CB
