/-
  Driver of property C05: every line is answered as `L1 ;; L0` — L1 = the limb-level model
  (CB/Model/{Shift,Bits}.lean), L0 = what the property demands, computed with plain `Nat`/`Int`
  arithmetic on the parsed values.
-/
import CB.Driver.Util
import CB.Model.Bits
import CB.Model.BitForms
namespace CB
namespace D05
open CB CB.Shift CB.Bits CB.BitForms

def both (l1 l0 : String) : Option String := some (l1 ++ " ;; " ++ l0)

def optHex (o : Option (List Nat)) : String :=
  match o with
  | some r => limbsHex r
  | none => "panic"

/-- value under a ConstCtOption mask: `none` when the mask is false -/
def ctoptHex (o : List Nat × Nat) : String :=
  if o.2 = WMAX then limbsHex o.1 else if o.2 = 0 then "none" else s!"badchoice:{natToHex o.2}"

def bitlen0 (x : Nat) : Nat := if x = 0 then 0 else Nat.log2 x + 1

/-- spec: number of trailing zeros of `x` within `bits` bits -/
def tz0 (bits x : Nat) : Nat := Id.run do
  if x = 0 then return bits
  let mut k := 0
  let mut y := x
  for _ in [0:bits] do
    if y % 2 = 1 then break
    k := k + 1
    y := y / 2
  return k

def to0 (bits x : Nat) : Nat := tz0 bits (2 ^ bits - 1 - x)

/-- signed value of an `n`-limb two's complement word -/
def sval (n x : Nat) : Int := if x ≥ 2 ^ (64 * n - 1) then (x : Int) - (2 ^ (64 * n) : Nat) else x
/-- two's complement limbs of a signed value -/
def ofInt (n : Nat) (i : Int) : Nat := (i % ((2 ^ (64 * n) : Nat) : Int)).toNat

def decTok (n : Nat) : String := toString n
def bitTok (b : Bool) : String := if b then "1" else "0"

/-- `c05.u.*`: args after the op name are `n x …` -/
def uintOp (op : String) (n x : Nat) (rest : List Nat) : Option String :=
  let a := toLimbs n x
  let bits := 64 * n
  let m := 2 ^ bits
  let shl0 (s : Nat) := (x * 2 ^ s) % m
  let shr0 (s : Nat) := x / 2 ^ s
  match op, rest with
  | "shl", [s] | "op_shl", [s, _] => both (optHex (ushl a s)) (if s < bits then natToHex (shl0 s) else "panic")
  | "shr", [s] | "op_shr", [s, _] => both (optHex (ushr a s)) (if s < bits then natToHex (shr0 s) else "panic")
  | "shl_vartime", [s] => both (optHex (ushlVartime a s)) (if s < bits then natToHex (shl0 s) else "panic")
  | "shr_vartime", [s] => both (optHex (ushrVartime a s)) (if s < bits then natToHex (shr0 s) else "panic")
  | "overflowing_shl", [s] | "tr_overflowing_shl_vartime", [s] =>
    both (match overflowingShl a s with | some o => ctoptHex o | none => "panic")
         (if s < bits then natToHex (shl0 s) else "none")
  | "overflowing_shr", [s] | "tr_overflowing_shr_vartime", [s] =>
    both (match overflowingShr a s with | some o => ctoptHex o | none => "panic")
         (if s < bits then natToHex (shr0 s) else "none")
  | "overflowing_shl_vartime", [s] =>
    both (ctoptHex (overflowingShlVartime a s)) (if s < bits then natToHex (shl0 s) else "none")
  | "overflowing_shr_vartime", [s] =>
    both (ctoptHex (overflowingShrVartime a s)) (if s < bits then natToHex (shr0 s) else "none")
  | "wrapping_shl", [s] | "tr_wrapping_shl", [s] | "tr_wrapping_shl_vartime", [s] =>
    both (optHex (wrappingShlU a s)) (if s < bits then natToHex (shl0 s) else "0")
  | "wrapping_shr", [s] | "tr_wrapping_shr", [s] | "tr_wrapping_shr_vartime", [s] =>
    both (optHex (wrappingShrU a s)) (if s < bits then natToHex (shr0 s) else "0")
  | "wrapping_shl_vartime", [s] =>
    both (limbsHex (wrappingShlVartimeU a s)) (if s < bits then natToHex (shl0 s) else "0")
  | "wrapping_shr_vartime", [s] =>
    both (limbsHex (wrappingShrVartimeU a s)) (if s < bits then natToHex (shr0 s) else "0")
  | "shl_wide", [hi, s] =>
    let w := x + m * hi
    both (match shlVartimeWide a (toLimbs n hi) s with
          | none => "panic"
          | some (r, c) => if c = WMAX then s!"{limbsHex r.1} {limbsHex r.2}" else "none")
         (if s < 2 * bits then
            let r := (w * 2 ^ s) % (m * m); s!"{natToHex (r % m)} {natToHex (r / m)}" else "none")
  | "shr_wide", [hi, s] =>
    let w := x + m * hi
    both (match shrVartimeWide a (toLimbs n hi) s with
          | none => "panic"
          | some (r, c) => if c = WMAX then s!"{limbsHex r.1} {limbsHex r.2}" else "none")
         (if s < 2 * bits then
            let r := w / 2 ^ s; s!"{natToHex (r % m)} {natToHex (r / m)}" else "none")
  | "bits", [] => both (decTok (ubits a)) (decTok (bitlen0 x))
  | "bits_vartime", [] =>
    both (match bitsVartime a with | some b => decTok b | none => "panic") (decTok (bitlen0 x))
  | "leading_zeros", [] => both (decTok (leadingZeros a)) (decTok (bits - bitlen0 x))
  | "leading_zeros_vartime", [] =>
    both (match leadingZerosVartime a with | some b => decTok b | none => "panic") (decTok (bits - bitlen0 x))
  | "trailing_zeros", [] => both (decTok (trailingZeros a)) (decTok (tz0 bits x))
  | "trailing_zeros_vartime", [] => both (decTok (trailingZerosVartime a)) (decTok (tz0 bits x))
  | "trailing_ones", [] => both (decTok (trailingOnes a)) (decTok (to0 bits x))
  | "trailing_ones_vartime", [] => both (decTok (trailingOnesVartime a)) (decTok (to0 bits x))
  | "bitops", [] =>
    -- BitOps trait: bits_precision log2_bits bytes_precision bits bits_vartime lz lz_vartime tz tz_vartime to to_vartime
    let l1 := s!"{bits} {bitlen0 bits - 1} {8 * n} {ubits a} {(bitsVartime a).getD 0} {leadingZeros a} {(leadingZerosVartime a).getD 0} {trailingZeros a} {trailingZerosVartime a} {trailingOnes a} {trailingOnesVartime a}"
    let b := bitlen0 x
    let l0 := s!"{bits} {bitlen0 bits - 1} {8 * n} {b} {b} {bits - b} {bits - b} {tz0 bits x} {tz0 bits x} {to0 bits x} {to0 bits x}"
    both l1 l0
  | "bit", [i] | "tr_bit", [i] => both (choiceTok (bitCt a i)) (bitTok (x.testBit i))
  | "bit_vartime", [i] | "tr_bit_vartime", [i] => both (bitTok (bitVartime a i)) (bitTok (x.testBit i))
  | "set_bit", [i, v] =>
    let r0 := if i < bits then (if v = 1 then x ||| 2 ^ i else x - (if x.testBit i then 2 ^ i else 0)) else x
    both (limbsHex (setBit a i (if v = 1 then WMAX else 0))) (natToHex r0)
  | "set_bit_vartime", [i, v] =>
    -- property: constant-time and vartime variants return identical results
    let r0 := if i < bits then (if v = 1 then x ||| 2 ^ i else x - (if x.testBit i then 2 ^ i else 0)) else x
    both (limbsHex (setBitVartime a i (v = 1))) (natToHex r0)
  | "and", [y] => both (limbsHex (ubitand a (toLimbs n y))) (natToHex (x &&& y))
  | "or", [y] => both (limbsHex (ubitor a (toLimbs n y))) (natToHex (x ||| y))
  | "xor", [y] => both (limbsHex (ubitxor a (toLimbs n y))) (natToHex (x ^^^ y))
  | "not", [] => both (limbsHex (unot a)) (natToHex (m - 1 - x))
  | "and_limb", [l] =>
    both (limbsHex (ubitandLimb a l)) (natToHex (x &&& (l * ((m - 1) / (B - 1)))))
  | _, _ => none

/-- `c05.i.*`: `Int<n>` given by its two's complement limbs -/
def intOp (op : String) (n x : Nat) (rest : List Nat) : Option String :=
  let a := toLimbs n x
  let bits := 64 * n
  let m := 2 ^ bits
  let v := sval n x
  let shr0 (s : Nat) := natToHex (ofInt n (v / ((2 ^ s : Nat) : Int)))
  let fill0 := if v < 0 then natToHex (m - 1) else "0"
  let shl0 (s : Nat) := natToHex ((x * 2 ^ s) % m)
  match op, rest with
  | "shr", [s] | "op_shr", [s, _] => both (optHex (intShr a s)) (if s < bits then shr0 s else "panic")
  | "shr_vartime", [s] => both (optHex (intShrVartime a s)) (if s < bits then shr0 s else "panic")
  | "overflowing_shr", [s] | "tr_overflowing_shr_vartime", [s] =>
    both (match intOverflowingShr a s with | some o => ctoptHex o | none => "panic")
         (if s < bits then shr0 s else "none")
  | "overflowing_shr_vartime", [s] =>
    both (ctoptHex (intOverflowingShrVartime a s)) (if s < bits then shr0 s else "none")
  | "wrapping_shr", [s] | "tr_wrapping_shr", [s] | "tr_wrapping_shr_vartime", [s] =>
    both (optHex (intWrappingShr a s)) (if s < bits then shr0 s else fill0)
  | "wrapping_shr_vartime", [s] =>
    both (limbsHex (intWrappingShrVartime a s)) (if s < bits then shr0 s else fill0)
  | "shl", [s] | "op_shl", [s, _] => both (optHex (ushl a s)) (if s < bits then shl0 s else "panic")
  | "shl_vartime", [s] => both (optHex (ushlVartime a s)) (if s < bits then shl0 s else "panic")
  | "overflowing_shl", [s] | "tr_overflowing_shl_vartime", [s] =>
    both (match overflowingShl a s with | some o => ctoptHex o | none => "panic")
         (if s < bits then shl0 s else "none")
  | "overflowing_shl_vartime", [s] =>
    both (ctoptHex (overflowingShlVartime a s)) (if s < bits then shl0 s else "none")
  | "wrapping_shl", [s] | "tr_wrapping_shl", [s] | "tr_wrapping_shl_vartime", [s] =>
    both (optHex (wrappingShlU a s)) (if s < bits then shl0 s else "0")
  | "wrapping_shl_vartime", [s] =>
    both (limbsHex (wrappingShlVartimeU a s)) (if s < bits then shl0 s else "0")
  -- coverage round: `& | ^ !` and `bitand_limb` of `Int` (all forms agree inside the harness); L0 on the
  -- two's-complement bit pattern, and for `!` also through the signed value: `!x = -x - 1`
  | "and", [y] => both (limbsHex (intBitand a (toLimbs n y))) (natToHex (x &&& y))
  | "or", [y] => both (limbsHex (intBitor a (toLimbs n y))) (natToHex (x ||| y))
  | "xor", [y] => both (limbsHex (intBitxor a (toLimbs n y))) (natToHex (x ^^^ y))
  | "not", [] => both (limbsHex (intNot a)) (natToHex (ofInt n (-v - 1)))
  | "and_limb", [l] =>
    both (limbsHex (intBitandLimb a l)) (natToHex (x &&& (l * ((m - 1) / (B - 1)))))
  | _, _ => none

def bhex (n : Nat) (v : Nat) : String := s!"{n}:{natToHex v}"
def optB (o : Option (List Nat)) (onNone : String) : String :=
  match o with
  | some r => limbsHexLen r
  | none => onNone

/-- `c05.b.*`: `BoxedUint` with `n` limbs -/
def boxedOp (op : String) (n x : Nat) (rest : List Nat) : Option String :=
  let a := toLimbs n x
  let bits := 64 * n
  let m := 2 ^ bits
  let shl0 (s : Nat) := bhex n ((x * 2 ^ s) % m)
  let shr0 (s : Nat) := bhex n (x / 2 ^ s)
  match op, rest with
  | "shl", [s] | "op_shl", [s, _] => both (optB (boxedShl a s) "panic") (if s < bits then shl0 s else "panic")
  | "shr", [s] | "op_shr", [s, _] => both (optB (boxedShr a s) "panic") (if s < bits then shr0 s else "panic")
  | "overflowing_shl", [s] =>
    both (match boxedOverflowingShl a s with | some o => s!"{limbsHexLen o.1} {bitTok o.2}" | none => "panic")
         (if s < bits then s!"{shl0 s} 0" else s!"{bhex n 0} 1")
  | "overflowing_shr", [s] =>
    both (match boxedOverflowingShr a s with | some o => s!"{limbsHexLen o.1} {bitTok o.2}" | none => "panic")
         (if s < bits then s!"{shr0 s} 0" else s!"{bhex n 0} 1")
  | "tr_overflowing_shl_vartime", [s] =>
    both (match boxedOverflowingShl a s with
          | some o => if o.2 then "none" else limbsHexLen o.1 | none => "panic")
         (if s < bits then shl0 s else "none")
  | "tr_overflowing_shr_vartime", [s] =>
    both (match boxedOverflowingShr a s with
          | some o => if o.2 then "none" else limbsHexLen o.1 | none => "panic")
         (if s < bits then shr0 s else "none")
  | "wrapping_shl", [s] | "tr_wrapping_shl", [s] | "tr_wrapping_shl_vartime", [s] =>
    both (match boxedOverflowingShl a s with | some o => limbsHexLen o.1 | none => "panic")
         (if s < bits then shl0 s else bhex n 0)
  | "wrapping_shr", [s] | "tr_wrapping_shr", [s] | "tr_wrapping_shr_vartime", [s] =>
    both (match boxedOverflowingShr a s with | some o => limbsHexLen o.1 | none => "panic")
         (if s < bits then shr0 s else bhex n 0)
  | "shl_vartime", [s] => both (optB (boxedShlVartime a s) "none") (if s < bits then shl0 s else "none")
  | "shr_vartime", [s] => both (optB (boxedShrVartime a s) "none") (if s < bits then shr0 s else "none")
  | "wrapping_shl_vartime", [s] =>
    both (limbsHexLen (boxedWrappingShlVartime a s)) (if s < bits then shl0 s else bhex n 0)
  | "wrapping_shr_vartime", [s] =>
    both (limbsHexLen (boxedWrappingShrVartime a s)) (if s < bits then shr0 s else bhex n 0)
  | "bitops", [] =>
    let l1 := s!"{bits} {bitlen0 bits - 1} {8 * n} {ubits a} {(bitsVartime a).getD 0} {leadingZeros a} {(leadingZerosVartime a).getD 0} {trailingZeros a} {trailingZerosVartime a} {trailingOnes a} {trailingOnesVartime a}"
    let b := bitlen0 x
    let l0 := s!"{bits} {bitlen0 bits - 1} {8 * n} {b} {b} {bits - b} {bits - b} {tz0 bits x} {tz0 bits x} {to0 bits x} {to0 bits x}"
    both l1 l0
  | "bits", [] => both (decTok (ubits a)) (decTok (bitlen0 x))
  | "bits_vartime", [] =>
    both (match bitsVartime a with | some b => decTok b | none => "panic") (decTok (bitlen0 x))
  | "leading_zeros", [] => both (decTok (leadingZeros a)) (decTok (bits - bitlen0 x))
  | "trailing_zeros", [] => both (decTok (trailingZeros a)) (decTok (tz0 bits x))
  | "trailing_zeros_vartime", [] => both (decTok (trailingZerosVartime a)) (decTok (tz0 bits x))
  | "trailing_ones", [] => both (decTok (trailingOnes a)) (decTok (to0 bits x))
  | "trailing_ones_vartime", [] => both (decTok (trailingOnesVartime a)) (decTok (to0 bits x))
  | "bit", [i] | "tr_bit", [i] => both (choiceTok (bitCt a i)) (bitTok (x.testBit i))
  | "bit_vartime", [i] | "tr_bit_vartime", [i] => both (bitTok (bitVartime a i)) (bitTok (x.testBit i))
  | "set_bit", [i, v] =>
    let r0 := if i < bits then (if v = 1 then x ||| 2 ^ i else x - (if x.testBit i then 2 ^ i else 0)) else x
    both (limbsHexLen (setBit a i (if v = 1 then WMAX else 0))) (bhex n r0)
  | "set_bit_vartime", [i, v] =>
    let r0 := if i < bits then (if v = 1 then x ||| 2 ^ i else x - (if x.testBit i then 2 ^ i else 0)) else x
    both (limbsHexLen (setBitVartime a i (v = 1))) (bhex n r0)
  | "not", [] => both (limbsHexLen (unot a)) (bhex n (m - 1 - x))
  | "and_limb", [l] =>
    both (limbsHexLen (ubitandLimb a l)) (bhex n (x &&& (l * ((m - 1) / (B - 1)))))
  | "and", [ny, y] => both (limbsHexLen (mapLimbs (· &&& ·) a (toLimbs ny y))) (bhex (max n ny) (x &&& y))
  | "or", [ny, y] => both (limbsHexLen (mapLimbs (· ||| ·) a (toLimbs ny y))) (bhex (max n ny) (x ||| y))
  | "xor", [ny, y] => both (limbsHexLen (mapLimbs (· ^^^ ·) a (toLimbs ny y))) (bhex (max n ny) (x ^^^ y))
  | "or_assign", [ny, y, _] => both (limbsHexLen (orAssign a (toLimbs ny y))) (bhex (max n ny) (x ||| y))
  | _, _ => none

/-- `c05.l.*`: a single `Limb` -/
def limbOp (op : String) (x : Nat) (rest : List Nat) : Option String :=
  match op, rest with
  | "shl", [s] | "op_shl", [s, _] =>
    both (match limbShl x s with | some r => natToHex r | none => "panic")
         (if s < 64 then natToHex ((x * 2 ^ s) % B) else "panic")
  | "shr", [s] | "op_shr", [s, _] =>
    both (match limbShr x s with | some r => natToHex r | none => "panic")
         (if s < 64 then natToHex (x / 2 ^ s) else "panic")
  | "wrapping_shl", [s] => some (natToHex (wrappingShl x s))     -- num_traits: shift masked to 6 bits
  | "wrapping_shr", [s] => some (natToHex (wrappingShr x s))
  | "bits", [] => both (decTok (limbBits x)) (decTok (bitlen0 x))
  | "leading_zeros", [] => both (decTok (wlz x)) (decTok (64 - bitlen0 x))
  | "trailing_zeros", [] => both (decTok (wtz x)) (decTok (tz0 64 x))
  | "trailing_ones", [] => both (decTok (wto x)) (decTok (to0 64 x))
  -- coverage round: `Limb` `& | ^ !` incl. the assigning forms
  | "and", [y] => both (natToHex (limbAnd x y)) (natToHex (x &&& y))
  | "or", [y] => both (natToHex (limbOr x y)) (natToHex (x ||| y))
  | "xor", [y] => both (natToHex (limbXor x y)) (natToHex (x ^^^ y))
  | "not", [] => both (natToHex (limbNot x)) (natToHex (B - 1 - x))
  | _, _ => none

/-- crate-internal functions reached through hooks: `c05.hook.*` (no L0 of their own) -/
def hookOp (op : String) (n x : Nat) (rest : List Nat) : Option String :=
  let a := toLimbs n x
  let m := 2 ^ (64 * n)
  match op, rest with
  | "shl_limb", [s] =>
    let r := shlLimb a s
    both s!"{limbsHex r.1} {natToHex r.2}" s!"{natToHex ((x * 2 ^ s) % m)} {natToHex ((x * 2 ^ s) / m)}"
  | "shl1", [] =>
    let r := overflowingShl1 a
    both s!"{limbsHex r.1} {natToHex r.2}" s!"{natToHex ((x * 2) % m)} {natToHex ((x * 2) / m)}"
  | "shr1", [] =>
    let r := shr1WithCarry a
    both s!"{limbsHex r.1} {choiceTok r.2}" s!"{natToHex (x / 2)} {x % 2}"
  | "ushr1", [] => both (limbsHex (ushr1 a)) (natToHex (x / 2))
  | "bshl_limb", [s] =>
    let r := shlLimb a s
    both s!"{limbsHexLen r.1} {natToHex r.2}" s!"{bhex n ((x * 2 ^ s) % m)} {natToHex ((x * 2 ^ s) / m)}"
  | "bshl1", [] =>
    let r := boxedShl1 a
    both s!"{limbsHexLen r.1} {natToHex r.2}" s!"{bhex n ((x * 2) % m)} {natToHex ((x * 2) / m)}"
  | "bshr1", [] => both (limbsHexLen (boxedShr1 a)) (bhex n (x / 2))
  | _, _ => none

/-- parse: first token decimal limb count, second hex value, then per-op tokens -/
def parseRest (op : String) (toks : List String) : Option (List Nat) :=
  -- which positions are hex values (all other numeric tokens are decimal)
  let hexPos : List Nat :=
    match op with
    | "shl_wide" | "shr_wide" | "and" | "or" | "xor" | "and_limb" => [0]
    | _ => []
  let rec go (i : Nat) : List String → Option (List Nat)
    | [] => some []
    | t :: ts =>
      match (if hexPos.contains i then hexToNat? t else t.toNat?), go (i + 1) ts with
      | some v, some vs => some (v :: vs)
      | _, _ => none
  go 0 toks

end D05

/-- the operator forms taking a `usize` / `i32` shift convert it with `u32::try_from(shift).expect("invalid shift")`
    (`impl_shl!` / `impl_shr!`): an amount above `u32::MAX` panics before any shifting — in the model AND in what the property
    demands (the operator panics for every shift ≥ BITS) -/
def D05.opShiftTooWide (name : String) (r : List Nat) : Bool :=
  (name = "op_shl" || name = "op_shr") && (match r with | [s, _] => decide (s ≥ 2 ^ 32) | _ => false)

open D05 in
/-- operations of property C05 (op names start with `c05.`) -/
def dispatchC05 : Dispatch := fun op args =>
  match op.splitOn "." with
  | ["c05", "l", name] =>
    match args with
    | x :: rest =>
      match hexToNat? x, parseRest name rest with
      | some x, some r => if opShiftTooWide name r then some "panic ;; panic" else limbOp name x r
      | _, _ => badArgs
    | _ => badArgs
  | ["c05", "b", name] =>
    match args with
    | n :: x :: rest =>
      -- boxed and/or/xor: `n x ny y`
      let r := if name = "and" ∨ name = "or" ∨ name = "xor" ∨ name = "or_assign" then
          match rest with
          | [ny, y] => match ny.toNat?, hexToNat? y with
            | some ny, some y => some [ny, y]
            | _, _ => none
          | [ny, y, f] => match ny.toNat?, hexToNat? y, f.toNat? with
            | some ny, some y, some f => some [ny, y, f]
            | _, _, _ => none
          | _ => none
        else parseRest name rest
      match n.toNat?, hexToNat? x, r with
      | some n, some x, some r => if opShiftTooWide name r then some "panic ;; panic" else boxedOp name n x r
      | _, _, _ => badArgs
    | _ => badArgs
  | ["c05", "hook", name] =>
    match args with
    | n :: x :: rest =>
      match n.toNat?, hexToNat? x, parseRest name rest with
      | some n, some x, some r => hookOp name n x r
      | _, _, _ => badArgs
    | _ => badArgs
  | ["c05", kind, name] =>
    match args with
    | n :: x :: rest =>
      match n.toNat?, hexToNat? x, parseRest name rest with
      | some n, some x, some r =>
        if opShiftTooWide name r then some "panic ;; panic"
        else if kind = "u" then uintOp name n x r
        else if kind = "i" then intOp name n x r
        else none
      | _, _, _ => badArgs
    | _ => badArgs
  | _ => none

end CB
