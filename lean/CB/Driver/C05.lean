import CB.Driver.Util
namespace CB

/-- operations of property C05 (op names start with `c05.`) -/
def dispatchC05 : Dispatch := fun _ _ => none

end CB
