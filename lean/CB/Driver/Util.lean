/-
  CB.Driver.Util — line-protocol helpers for the `cbmodel` driver (core Lean only).
  Values are lower-case hex without prefix; small parameters (limb counts, shifts) are decimal;
  byte strings are hex prefixed by `x` (so the empty string is `x`).
-/
import CB.Model.Basic
namespace CB

def hexDigit? (c : Char) : Option Nat :=
  if '0' ≤ c ∧ c ≤ '9' then some (c.toNat - '0'.toNat)
  else if 'a' ≤ c ∧ c ≤ 'f' then some (c.toNat - 'a'.toNat + 10)
  else none

def hexToNat? (s : String) : Option Nat :=
  if s.isEmpty then none else
  s.toList.foldl (fun acc c => match acc, hexDigit? c with
    | some a, some d => some (a * 16 + d)
    | _, _ => none) (some 0)

def natToHex (n : Nat) : String := String.ofList (Nat.toDigits 16 n)

/-- bytes as `x`-prefixed hex -/
def bytesToTok (bs : List Nat) : String :=
  "x" ++ String.join (bs.map fun b =>
    let d := Nat.toDigits 16 (b % 256)
    String.ofList (if d.length < 2 then '0' :: d else d))

def tokToBytes? (s : String) : Option (List Nat) :=
  match s.toList with
  | 'x' :: rest =>
    let rec go : List Char → List Nat → Option (List Nat)
      | [], acc => some acc.reverse
      | [_], _ => none
      | a :: b :: t, acc =>
        match hexDigit? a, hexDigit? b with
        | some x, some y => go t ((x * 16 + y) :: acc)
        | _, _ => none
    go rest []
  | _ => none

/-- print a limb list as the hex of its value -/
def limbsHex (l : List Nat) : String := natToHex (val l)

/-- print a limb list limb by limb (for malformed/zero-length boxed values): `n:hex` -/
def limbsHexLen (l : List Nat) : String := s!"{l.length}:{natToHex (val l)}"

def choiceTok (c : Nat) : String := if c = 0 then "0" else if c = WMAX then "1" else s!"badchoice:{natToHex c}"

def intTok (i : Int) : String := if i < 0 then "-" ++ natToHex i.natAbs else natToHex i.natAbs

def intTok? (s : String) : Option Int :=
  match s.toList with
  | '-' :: r => (hexToNat? (String.ofList r)).map fun n => - (n : Int)
  | _ => (hexToNat? s).map fun n => (n : Int)

/-- A dispatcher: `none` = operation not handled here; `some out` = result line. -/
abbrev Dispatch := String → List String → Option String

def badArgs : Option String := some "bad-args"

end CB
