import CB.Driver.Util
import CB.Model.Rand
namespace CB.Rand
open CB

/-- how an RNG failure is reported by the harness: `try_*` on the fallible fixture, infallible API on
    the panicking fixture (`exhausted`), panicking wrapper (`.expect`) -/
inductive ErrMode where
  | tryErr | exhausted | panics

def showOut {α : Type} (mode : ErrMode) (sh : α → String) : Out α → String
  | .ok v r => s!"{sh v} {r.used}"
  | .rngErr r =>
    match mode with
    | .tryErr => s!"err:RandCore {r.used}"
    | .exhausted => s!"exhausted {r.used}"
    | .panics => "panic"
  | .fuel => "model-out-of-fuel"

def showBits (mode : ErrMode) (sh : List Nat → String) : BitsRes → String
  | .out o => showOut mode sh o
  | .precisionMismatch bp ib =>
    match mode with
    | .panics => "panic"
    | _ => s!"err:BitsPrecisionMismatch {bp} {ib} 0"
  | .bitLengthTooLarge bl bp =>
    match mode with
    | .panics => "panic"
    | _ => s!"err:BitLengthTooLarge {bl} {bp} 0"

def rng0 (bs : List Nat) : Rng := ⟨bs, 0⟩
/-- every loop iteration of every sampler consumes at least one byte -/
def fuelFor (bs : List Nat) : Nat := bs.length + 2

/-- L0 line for modular sampling (value-level rejection sampling on the word stream) -/
def specModLine (mode : ErrMode) (sh : Nat → String) (m : Nat) (bs : List Nat) : String :=
  match specRandomMod (bs.length + 2) m bs with
  | some (v, u) => s!"{sh v} {u}"
  | none =>
    let u := 8 * (bs.length / 8)
    match mode with
    | .tryErr => s!"err:RandCore {u}"
    | .exhausted => s!"exhausted {u}"
    | .panics => "panic"

/-- L0 line for bit-bounded sampling -/
def specBitsLine (mode : ErrMode) (sh : Nat → String) (bl : Nat) (bs : List Nat) : String :=
  match specRandomBits bl bs with
  | some v => s!"{sh v} {bitsBytes bl}"
  | none =>
    match mode with
    | .panics => "panic"
    | _ => s!"err:RandCore {8 * min ((bl + 63) / 64 - 1) (bs.length / 8)}"

/-- L0 line for `Limb::random_mod` -/
def specLimbLine (mode : ErrMode) (m : Nat) (bs : List Nat) : String :=
  match specLimbRandomMod (bs.length + 2) m bs with
  | some (v, u) => s!"{natToHex v} {u}"
  | none =>
    let nb := (bitLen m + 7) / 8
    let u := nb * (bs.length / nb)
    match mode with
    | .tryErr => s!"err:RandCore {u}"
    | .exhausted => s!"exhausted {u}"
    | .panics => "panic"

def both (l1 l0 : String) : String := s!"{l1} ;; {l0}"

/-- moduli of the `impl_modulus!` instances in harness/src/ops/c19.rs: (limbs, value) -/
def cmfModulus : String → Option (Nat × Nat)
  | "0" => some (1, 0xffffffff00000001)
  | "1" => some (2, 0x1000000000000000d)
  | "2" => some (4, 0x73eda753299d7d483339d80809a1d80553bda402fffe5bfeffffffff00000001)
  | "3" => some (4, 0xffffffffffffffffffffffffffffffffffffffffffffffffffffffffffffff43)
  | "4" => some (1, 3)
  | _ => none

def widthOk (n : Nat) : Bool := n = 1 || n = 2 || n = 3 || n = 4 || n = 8

def boxedLen (n : Nat) (v : Nat) : String := s!"{n}:{natToHex v}"

end CB.Rand

namespace CB
open CB.Rand

def dispatchC19 : Dispatch := fun op args =>
  -- fixed-width modular sampling
  let modOp (mode : ErrMode) (boxedOut : Bool) (n m s : String) : Option String :=
    match n.toNat?, hexToNat? m, tokToBytes? s with
    | some n, some m, some bs =>
      if m = 0 ∨ m ≥ B ^ n ∨ n = 0 then badArgs
      else if !boxedOut && !widthOk n then some "unsupported-width"
      else
        let ml := toLimbs n m
        if boxedOut then
          some (both (showOut mode limbsHexLen (boxedRandomMod (fuelFor bs) (rng0 bs) ml))
                     (specModLine mode (boxedLen n) m bs))
        else
          some (both (showOut mode limbsHex (uintRandomMod (fuelFor bs) (rng0 bs) ml))
                     (specModLine mode natToHex m bs))
    | _, _, _ => badArgs
  let bitsOp (mode : ErrMode) (n bl : String) (bp : Option String) (s : String) : Option String :=
    match n.toNat?, bl.toNat?, tokToBytes? s with
    | some n, some bl, some bs =>
      if !widthOk n then some "unsupported-width" else
      match bp with
      | none =>
        let l1 := showBits mode limbsHex (uintRandomBits (rng0 bs) n bl)
        if bl ≤ 64 * n then some (both l1 (specBitsLine mode natToHex bl bs)) else some l1
      | some bp =>
        match bp.toNat? with
        | some bp =>
          let l1 := showBits mode limbsHex (uintRandomBitsWP (rng0 bs) n bl bp)
          if bp = 64 * n ∧ bl ≤ 64 * n then some (both l1 (specBitsLine mode natToHex bl bs)) else some l1
        | none => badArgs
    | _, _, _ => badArgs
  let bbitsOp (mode : ErrMode) (bl : String) (bp : Option String) (s : String) : Option String :=
    match bl.toNat?, tokToBytes? s with
    | some bl, some bs =>
      match bp with
      | none =>
        let n := (zeroWithPrecision bl).length
        some (both (showBits mode limbsHexLen (boxedRandomBits (rng0 bs) bl)) (specBitsLine mode (boxedLen n) bl bs))
      | some bp =>
        match bp.toNat? with
        | some bp =>
          let l1 := showBits mode limbsHexLen (boxedRandomBitsWP (rng0 bs) bl bp)
          let n := (zeroWithPrecision bp).length
          if bl ≤ bp then some (both l1 (specBitsLine mode (boxedLen n) bl bs)) else some l1
        | none => badArgs
    | _, _ => badArgs
  let randOp (mode : ErrMode) (n s : String) (f : Rng → Nat → List Nat → Out (List Nat)) : Option String :=
    match n.toNat?, tokToBytes? s with
    | some n, some bs =>
      if !widthOk n then some "unsupported-width"
      else some (showOut mode limbsHex (f (rng0 bs) n bs))
    | _, _ => badArgs
  match op, args with
  | "c19.u.random_mod", [n, m, s] => modOp .exhausted false n m s
  | "c19.u.try_random_mod", [n, m, s] => modOp .tryErr false n m s
  | "c19.b.random_mod", [n, m, s] => modOp .exhausted true n m s
  | "c19.b.try_random_mod", [n, m, s] => modOp .tryErr true n m s
  | "c19.u.random", [n, s] => randOp .exhausted n s fun r n _ => uintRandom r n
  | "c19.u.try_random", [n, s] => randOp .tryErr n s fun r n _ => uintRandom r n
  | "c19.i.random", [n, s] => randOp .exhausted n s fun r n _ => uintRandom r n
  | "c19.i.try_random", [n, s] => randOp .tryErr n s fun r n _ => uintRandom r n
  | "c19.wrapping.random", [n, s] => randOp .exhausted n s fun r n _ => uintRandom r n
  | "c19.nz.random", [n, s] => randOp .exhausted n s fun r n bs => nonZeroUintRandom (fuelFor bs) r n
  | "c19.nz.try_random", [n, s] => randOp .tryErr n s fun r n bs => nonZeroUintRandom (fuelFor bs) r n
  | "c19.odd.random", [n, s] => randOp .exhausted n s fun r n _ => oddUintRandom r n
  | "c19.odd.try_random", [n, s] => randOp .tryErr n s fun r n _ => oddUintRandom r n
  | "c19.u.try_random_bits", [n, bl, s] => bitsOp .tryErr n bl none s
  | "c19.u.try_random_bits_wp", [n, bl, bp, s] => bitsOp .tryErr n bl (some bp) s
  | "c19.u.random_bits", [n, bl, s] => bitsOp .panics n bl none s
  | "c19.u.random_bits_wp", [n, bl, bp, s] => bitsOp .panics n bl (some bp) s
  | "c19.i.try_random_bits", [n, bl, s] => bitsOp .tryErr n bl none s
  | "c19.i.try_random_bits_wp", [n, bl, bp, s] => bitsOp .tryErr n bl (some bp) s
  | "c19.b.try_random_bits", [bl, s] => bbitsOp .tryErr bl none s
  | "c19.b.try_random_bits_wp", [bl, bp, s] => bbitsOp .tryErr bl (some bp) s
  | "c19.b.random_bits", [bl, s] => bbitsOp .panics bl none s
  | "c19.b.random_bits_wp", [bl, bp, s] => bbitsOp .panics bl (some bp) s
  | "c19.oddb.random", [bl, s] =>
    match bl.toNat?, tokToBytes? s with
    | some bl, some bs => some (showBits .panics limbsHexLen (oddBoxedRandom (rng0 bs) bl))
    | _, _ => badArgs
  | "c19.l.random", [s] =>
    match tokToBytes? s with
    | some bs => some (showOut .exhausted natToHex (limbRandom (rng0 bs)))
    | none => badArgs
  | "c19.l.try_random", [s] =>
    match tokToBytes? s with
    | some bs => some (showOut .tryErr natToHex (limbRandom (rng0 bs)))
    | none => badArgs
  | "c19.nzl.random", [s] =>
    match tokToBytes? s with
    | some bs => some (showOut .exhausted natToHex (nonZeroLimbRandom (fuelFor bs) (rng0 bs)))
    | none => badArgs
  | "c19.l.random_mod", [m, s] =>
    match hexToNat? m, tokToBytes? s with
    | some m, some bs =>
      if m = 0 ∨ m ≥ B then badArgs
      else some (both (showOut .exhausted natToHex (limbRandomMod (fuelFor bs) (rng0 bs) m)) (specLimbLine .exhausted m bs))
    | _, _ => badArgs
  | "c19.l.try_random_mod", [m, s] =>
    match hexToNat? m, tokToBytes? s with
    | some m, some bs =>
      if m = 0 ∨ m ≥ B then badArgs
      else some (both (showOut .tryErr natToHex (limbRandomMod (fuelFor bs) (rng0 bs) m)) (specLimbLine .tryErr m bs))
    | _, _ => badArgs
  | "c19.cmf.random", [id, s] =>
    match cmfModulus id, tokToBytes? s with
    | some (n, m), some bs =>
      some (both (showOut .exhausted limbsHex (constMontyRandom (fuelFor bs) (rng0 bs) (toLimbs n m)))
                 (specModLine .exhausted natToHex m bs))
    | _, _ => badArgs
  | "c19.cmf.try_random", [id, s] =>
    match cmfModulus id, tokToBytes? s with
    | some (n, m), some bs =>
      some (both (showOut .tryErr limbsHex (constMontyRandom (fuelFor bs) (rng0 bs) (toLimbs n m)))
                 (specModLine .tryErr natToHex m bs))
    | _, _ => badArgs
  -- statistical sanity run of the real crate: the property demands `ok`
  | "c19.chi2", [_, _, _, _] => some "ok"
  | _, _ => none

end CB
