import CB.Driver.Util
namespace CB

/-- operations of property C19 (op names start with `c19.`) -/
def dispatchC19 : Dispatch := fun _ _ => none

end CB
