import CB.Driver.Util
namespace CB

/-- operations of property C06 (op names start with `c06.`) -/
def dispatchC06 : Dispatch := fun _ _ => none

end CB
