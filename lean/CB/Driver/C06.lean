import CB.Driver.Util
import CB.Model.Cmp
import CB.Model.NumTests
namespace CB
open CB.Cmp CB.NumTests

private def ordTok (o : Int) : String := if o < 0 then "lt" else if o = 0 then "eq" else "gt"
private def bitTok (c : Nat) : String := if c = 0 then "0" else "1"

/-- all comparison outputs of one pair of fixed-width unsigned values -/
private def ucmpAll (x y : List Nat) : String :=
  s!"{choiceTok (ueq x y)} {choiceTok (ult x y)} {choiceTok (ugt x y)} {choiceTok (ulte x y)} {ordTok (ucmp x y)} {ordTok (ucmpVartime x y)}"

private def icmpAll (x y : List Nat) : String :=
  s!"{choiceTok (ueq x y)} {choiceTok (ilt x y)} {choiceTok (igt x y)} {ordTok (icmp x y)} {ordTok (icmpVartime x y)}"

/-- spec (L0): the order of the represented integers -/
private def natCmpAll (a b : Nat) : String :=
  let o : Int := if a < b then -1 else if a = b then 0 else 1
  s!"{bitTok (if a = b then 1 else 0)} {bitTok (if a < b then 1 else 0)} {bitTok (if a > b then 1 else 0)} {bitTok (if a ≤ b then 1 else 0)} {ordTok o} {ordTok o}"
private def intCmpAll (a b : Int) : String :=
  let o : Int := if a < b then -1 else if a = b then 0 else 1
  s!"{bitTok (if a = b then 1 else 0)} {bitTok (if a < b then 1 else 0)} {bitTok (if a > b then 1 else 0)} {ordTok o} {ordTok o}"

private def b01 (p : Bool) : String := if p then "1" else "0"

/-- `c06.{u,b}.wrapped_cmp`: comparisons of a plain value with `Odd(y)` and the `ct_eq` of the wrappers;
    `eq`/`cmp`/`cteq` are the models of the underlying operations (fixed: masks, boxed: 0/1 choices) -/
private def wrappedCmp (x y : List Nat) (a b : Nat) (eqTok : List Nat → List Nat → String)
    (cmp : List Nat → List Nat → Int) (lt gt : List Nat → List Nat → Nat) : String :=
  let o3 : Int := if a < b then -1 else if a = b then 0 else 1
  let oy := wrapNew (b % 2 = 1) y
  let ox := wrapNew (a % 2 = 1) x
  let first := match oy with
    | some y' => s!"{eqTok x y'} {ordTok (cmp x y')} {bitTok (lt x y')} {bitTok (gt x y')}"
    | none => "- - - -"
  let first0 := if b % 2 = 1 then s!"{b01 (a == b)} {ordTok o3} {b01 (a < b)} {b01 (a > b)}" else "- - - -"
  let oeq := match ox, oy with
    | some x', some y' => eqTok x' y'
    | _, _ => "-"
  let oeq0 := if a % 2 = 1 ∧ b % 2 = 1 then b01 (a == b) else "-"
  let neq := match wrapNew (a != 0) x, wrapNew (b != 0) y with
    | some x', some y' => eqTok x' y'
    | _, _ => "-"
  let neq0 := if a ≠ 0 ∧ b ≠ 0 then b01 (a == b) else "-"
  s!"{first} {oeq} {neq} ;; {first0} {oeq0} {neq0}"

def dispatchC06 : Dispatch := fun op args =>
  match op, args with
  -- ---- coverage round: num-traits style constructors / tests, provided trait methods, wrappers, ConstChoice ==
  | "c06.w.numtests", [a] =>   -- zero is_zero one is_one set_zero zero_like
    match hexToNat? a with
    | some a =>
      let l1 := s!"0 {choiceTok (limbIsZero a)} 1 {choiceTok (limbIsOne a)} {limbsHex (setZero [a])} {limbsHex (zeroLike [a])}"
      let l0 := s!"0 {b01 (a == 0)} 1 {b01 (a == 1)} 0 0"
      some s!"{l1} ;; {l0}"
    | _ => badArgs
  | "c06.w.choice_eq", [p, q] =>
    match p.toNat?, q.toNat? with
    | some p, some q =>
      let e := choiceEq (maskOfBit p) (maskOfBit q)
      some s!"{b01 e} {b01 (!e)} ;; {b01 (p == q)} {b01 (p != q)}"
    | _, _ => badArgs
  | "c06.u.numtests", [n, a, l] =>
    -- one from_limb_like nlimbs zero is_zero is_one one_like set_zero zero_like
    match n.toNat?, hexToNat? a, hexToNat? l with
    | some n, some a, some l =>
      let x := toLimbs n a
      let l1 := s!"{limbsHex (uone n)} {limbsHex (fromLimbLike n l)} {x.length} {limbsHex (uzero n)} {choiceTok (isZeroNum x)} {choiceTok (isOneNum x)} {limbsHex (oneLike x)} {limbsHex (setZero x)} {limbsHex (zeroLike x)}"
      let l0 := s!"1 {natToHex l} {n} 0 {b01 (a == 0)} {b01 (a == 1)} 1 0 0"
      some s!"{l1} ;; {l0}"
    | _, _, _ => badArgs
  | "c06.i.numtests", [n, a] =>   -- zero is_zero one is_one set_zero zero_like (on the signed value)
    match n.toNat?, hexToNat? a with
    | some n, some a =>
      let x := toLimbs n a
      let v := toInt x
      let l1 := s!"{limbsHex (uzero n)} {choiceTok (isZeroNum x)} {limbsHex (uone n)} {choiceTok (isOneNum x)} {limbsHex (setZero x)} {limbsHex (zeroLike x)}"
      let l0 := s!"0 {b01 (v == 0)} 1 {b01 (v == 1)} 0 0"
      some s!"{l1} ;; {l0}"
    | _, _ => badArgs
  | "c06.u.wrapped_cmp", [n, a, b] =>
    match n.toNat?, hexToNat? a, hexToNat? b with
    | some n, some a, some b =>
      some (wrappedCmp (toLimbs n a) (toLimbs n b) a b (fun x y => choiceTok (eqOdd x y)) cmpOdd ult ugt)
    | _, _, _ => badArgs
  | "c06.b.wrapped_cmp", [na, a, nb, b] =>
    match na.toNat?, hexToNat? a, nb.toNat?, hexToNat? b with
    | some na, some a, some nb, some b =>
      some (wrappedCmp (toLimbs na a) (toLimbs nb b) a b (fun x y => bitTok (bEqOdd x y)) bCmpOdd bctLt bctGt)
    | _, _, _, _ => badArgs
  | "c06.b.numtests", [n, a, l] =>
    -- is_one default one from_limb_like nlimbs zero is_zero set_zero is_one(num) one_like zero_like
    match n.toNat?, hexToNat? a, hexToNat? l with
    | some n, some a, some l =>
      let x := toLimbs n a
      let l1 := s!"{bIsOne x} 1:0 1:1 {limbsHexLen (bFromLimbLike l x)} {x.length} 1:0 {bIsZero x} {limbsHexLen (bSetZero x)} {bIsOne x} {limbsHexLen (oneLike x)} {limbsHexLen (bSetZero x)}"
      let l0 := s!"{b01 (a == 1)} 1:0 1:1 {n}:{natToHex l} {n} 1:0 {b01 (a == 0)} {n}:0 {b01 (a == 1)} {n}:1 {n}:0"
      some s!"{l1} ;; {l0}"
    | _, _, _ => badArgs
  | "c06.b.select_default", [n, a, b, c] =>   -- provided ct_assign, ct_swap(2)
    match n.toNat?, hexToNat? a, hexToNat? b, c.toNat? with
    | some n, some a, some b, some c =>
      let x := toLimbs n a; let y := toLimbs n b; let m := maskOfBit c
      let sw := defaultCtSwap x y m
      let l1 := s!"{limbsHexLen (defaultCtAssign x y m)} {limbsHexLen sw.1} {limbsHexLen sw.2}"
      let l0 := if c = 0 then s!"{n}:{natToHex a} {n}:{natToHex a} {n}:{natToHex b}" else s!"{n}:{natToHex b} {n}:{natToHex b} {n}:{natToHex a}"
      some s!"{l1} ;; {l0}"
    | _, _, _, _ => badArgs
  | "c06.w.cmp", [a, b] =>
    match hexToNat? a, hexToNat? b with
    | some a, some b =>
      let l1 := s!"{choiceTok (fromWordEq a b)} {choiceTok (fromWordLt a b)} {choiceTok (fromWordGt a b)} {ordTok (limbCmp a b)} {bitTok (a % 2)} {choiceTok (choiceNot (fromWordNonzero a))}"
      let o : Int := if a < b then -1 else if a = b then 0 else 1
      let l0 := s!"{bitTok (if a = b then 1 else 0)} {bitTok (if a < b then 1 else 0)} {bitTok (if a > b then 1 else 0)} {ordTok o} {bitTok (a % 2)} {bitTok (if a = 0 then 1 else 0)}"
      some s!"{l1} ;; {l0}"
    | _, _ => badArgs
  | "c06.u.cmp", [n, a, b] =>
    match n.toNat?, hexToNat? a, hexToNat? b with
    | some n, some a, some b => some s!"{ucmpAll (toLimbs n a) (toLimbs n b)} ;; {natCmpAll a b}"
    | _, _, _ => badArgs
  | "c06.u.tests", [n, a] =>   -- is_zero is_nonzero(is_zero negated) is_odd is_even is_one
    match n.toNat?, hexToNat? a with
    | some n, some a =>
      let x := toLimbs n a
      let l1 := s!"{choiceTok (choiceNot (isNonzero x))} {choiceTok (isOdd x)} {choiceTok (choiceNot (isOdd x))} {choiceTok (ueq x (uone n))}"
      let l0 := s!"{bitTok (if a = 0 then 1 else 0)} {bitTok (a % 2)} {bitTok (1 - a % 2)} {bitTok (if a = 1 then 1 else 0)}"
      some s!"{l1} ;; {l0}"
    | _, _ => badArgs
  | "c06.i.cmp", [n, a, b] =>
    match n.toNat?, hexToNat? a, hexToNat? b with
    | some n, some a, some b =>
      let x := toLimbs n a; let y := toLimbs n b
      some s!"{icmpAll x y} ;; {intCmpAll (toInt x) (toInt y)}"
    | _, _, _ => badArgs
  | "c06.i.tests", [n, a] =>   -- is_negative is_positive is_min is_max is_zero
    match n.toNat?, hexToNat? a with
    | some n, some a =>
      let x := toLimbs n a
      let v := toInt x
      let neg := isNegative x
      let pos := choiceNot neg &&& isNonzero x
      let imin := toLimbs n (B ^ n / 2)
      let imax := toLimbs n (B ^ n / 2 - 1)
      let l1 := s!"{choiceTok neg} {choiceTok pos} {choiceTok (ueq x imin)} {choiceTok (ueq x imax)} {choiceTok (choiceNot (isNonzero x))}"
      let l0 := s!"{bitTok (if v < 0 then 1 else 0)} {bitTok (if v > 0 then 1 else 0)} {bitTok (if v = -((B ^ n / 2 : Nat) : Int) then 1 else 0)} {bitTok (if v = ((B ^ n / 2 - 1 : Nat) : Int) then 1 else 0)} {bitTok (if v = 0 then 1 else 0)}"
      some s!"{l1} ;; {l0}"
    | _, _ => badArgs
  | "c06.b.cmp", [na, a, nb, b] =>
    match na.toNat?, hexToNat? a, nb.toNat?, hexToNat? b with
    | some na, some a, some nb, some b =>
      let x := toLimbs na a; let y := toLimbs nb b
      let l1 := s!"{bitTok (bctEq x y)} {choiceTok (bctLt x y)} {choiceTok (bctGt x y)} {ordTok (bcmp x y)}"
      let o : Int := if a < b then -1 else if a = b then 0 else 1
      let l0 := s!"{bitTok (if a = b then 1 else 0)} {bitTok (if a < b then 1 else 0)} {bitTok (if a > b then 1 else 0)} {ordTok o}"
      some s!"{l1} ;; {l0}"
    | _, _, _, _ => badArgs
  | "c06.b.cmp_vartime", [n, a, b] =>
    match n.toNat?, hexToNat? a, hexToNat? b with
    | some n, some a, some b =>
      let o : Int := if a < b then -1 else if a = b then 0 else 1
      some s!"{ordTok (ucmpVartime (toLimbs n a) (toLimbs n b))} ;; {ordTok o}"
    | _, _, _ => badArgs
  -- equal values must hash equally: prints `<eq> <hash-input-equal or - when not eq>`
  | "c06.u.hash", [n, a, b] =>
    match n.toNat?, hexToNat? a, hexToNat? b with
    | some n, some a, some b =>
      let x := toLimbs n a; let y := toLimbs n b
      let e := ueq x y = WMAX
      let l1 := if e then s!"1 {bitTok (if hashInputFixed x = hashInputFixed y then 1 else 0)}" else "0 -"
      let l0 := if a = b then "1 1" else "0 -"
      some s!"{l1} ;; {l0}"
    | _, _, _ => badArgs
  | "c06.b.hash", [na, a, nb, b] =>
    match na.toNat?, hexToNat? a, nb.toNat?, hexToNat? b with
    | some na, some a, some nb, some b =>
      let x := toLimbs na a; let y := toLimbs nb b
      let e := bctEq x y = 1
      let l1 := if e then s!"1 {bitTok (if hashInputBoxed x = hashInputBoxed y then 1 else 0)}" else "0 -"
      let l0 := if a = b then "1 1" else "0 -"
      some s!"{l1} ;; {l0}"
    | _, _, _, _ => badArgs
  -- selection: select, assign, swap with choice c in {0,1}
  | "c06.u.select", [n, a, b, c] =>
    match n.toNat?, hexToNat? a, hexToNat? b, c.toNat? with
    | some n, some a, some b, some c =>
      let x := toLimbs n a; let y := toLimbs n b; let m := maskOfBit c
      let sw := uswap x y m
      let l1 := s!"{limbsHex (uselect x y m)} {limbsHex (uselect x y m)} {limbsHex sw.1} {limbsHex sw.2}"
      let l0 := if c = 0 then s!"{natToHex a} {natToHex a} {natToHex a} {natToHex b}" else s!"{natToHex b} {natToHex b} {natToHex b} {natToHex a}"
      some s!"{l1} ;; {l0}"
    | _, _, _, _ => badArgs
  | "c06.b.select", [n, a, b, c] =>   -- ct_select, ct_assign, ct_swap(2), conditional_negate(a)
    match n.toNat?, hexToNat? a, hexToNat? b, c.toNat? with
    | some n, some a, some b, some c =>
      let x := toLimbs n a; let y := toLimbs n b; let m := maskOfBit c
      let sw := uswap x y m
      let l1 := s!"{limbsHexLen (uselect x y m)} {limbsHexLen (uselect x y m)} {limbsHexLen sw.1} {limbsHexLen sw.2} {limbsHexLen (uselect x (wrappingNeg x) m)}"
      let neg := (B ^ n - a) % B ^ n
      let l0 := if c = 0 then s!"{n}:{natToHex a} {n}:{natToHex a} {n}:{natToHex a} {n}:{natToHex b} {n}:{natToHex a}"
                else s!"{n}:{natToHex b} {n}:{natToHex b} {n}:{natToHex b} {n}:{natToHex a} {n}:{natToHex neg}"
      some s!"{l1} ;; {l0}"
    | _, _, _, _ => badArgs
  | "c06.w.select", [a, b, c] =>
    match hexToNat? a, hexToNat? b, c.toNat? with
    | some a, some b, some c =>
      some s!"{natToHex (selectWord a b (maskOfBit c))} ;; {natToHex (if c = 0 then a else b)}"
    | _, _, _ => badArgs
  -- option-like results: is_some and unwrap_or for ConstCtOption / CtOption built from (value, choice)
  | "c06.u.ctoption", [n, a, d, c] =>
    match n.toNat?, hexToNat? a, hexToNat? d, c.toNat? with
    | some _, some a, some d, some c =>
      let r := if c = 0 then d else a
      some s!"{c} {natToHex r} {c} {natToHex r}"
    | _, _, _, _ => badArgs
  | _, _ => none

end CB
