import CB.Driver.Util
import CB.Model.Cmp
namespace CB
open CB.Cmp

private def ordTok (o : Int) : String := if o < 0 then "lt" else if o = 0 then "eq" else "gt"
private def bitTok (c : Nat) : String := if c = 0 then "0" else "1"

/-- all comparison outputs of one pair of fixed-width unsigned values -/
private def ucmpAll (x y : List Nat) : String :=
  s!"{choiceTok (ueq x y)} {choiceTok (ult x y)} {choiceTok (ugt x y)} {choiceTok (ulte x y)} {ordTok (ucmp x y)} {ordTok (ucmpVartime x y)}"

private def icmpAll (x y : List Nat) : String :=
  s!"{choiceTok (ueq x y)} {choiceTok (ilt x y)} {choiceTok (igt x y)} {ordTok (icmp x y)} {ordTok (icmpVartime x y)}"

/-- spec (L0): the order of the represented integers -/
private def natCmpAll (a b : Nat) : String :=
  let o : Int := if a < b then -1 else if a = b then 0 else 1
  s!"{bitTok (if a = b then 1 else 0)} {bitTok (if a < b then 1 else 0)} {bitTok (if a > b then 1 else 0)} {bitTok (if a ≤ b then 1 else 0)} {ordTok o} {ordTok o}"
private def intCmpAll (a b : Int) : String :=
  let o : Int := if a < b then -1 else if a = b then 0 else 1
  s!"{bitTok (if a = b then 1 else 0)} {bitTok (if a < b then 1 else 0)} {bitTok (if a > b then 1 else 0)} {ordTok o} {ordTok o}"

def dispatchC06 : Dispatch := fun op args =>
  match op, args with
  | "c06.w.cmp", [a, b] =>
    match hexToNat? a, hexToNat? b with
    | some a, some b =>
      let l1 := s!"{choiceTok (fromWordEq a b)} {choiceTok (fromWordLt a b)} {choiceTok (fromWordGt a b)} {ordTok (limbCmp a b)} {bitTok (a % 2)} {choiceTok (choiceNot (fromWordNonzero a))}"
      let o : Int := if a < b then -1 else if a = b then 0 else 1
      let l0 := s!"{bitTok (if a = b then 1 else 0)} {bitTok (if a < b then 1 else 0)} {bitTok (if a > b then 1 else 0)} {ordTok o} {bitTok (a % 2)} {bitTok (if a = 0 then 1 else 0)}"
      some s!"{l1} ;; {l0}"
    | _, _ => badArgs
  | "c06.u.cmp", [n, a, b] =>
    match n.toNat?, hexToNat? a, hexToNat? b with
    | some n, some a, some b => some s!"{ucmpAll (toLimbs n a) (toLimbs n b)} ;; {natCmpAll a b}"
    | _, _, _ => badArgs
  | "c06.u.tests", [n, a] =>   -- is_zero is_nonzero(is_zero negated) is_odd is_even is_one
    match n.toNat?, hexToNat? a with
    | some n, some a =>
      let x := toLimbs n a
      let l1 := s!"{choiceTok (choiceNot (isNonzero x))} {choiceTok (isOdd x)} {choiceTok (choiceNot (isOdd x))} {choiceTok (ueq x (uone n))}"
      let l0 := s!"{bitTok (if a = 0 then 1 else 0)} {bitTok (a % 2)} {bitTok (1 - a % 2)} {bitTok (if a = 1 then 1 else 0)}"
      some s!"{l1} ;; {l0}"
    | _, _ => badArgs
  | "c06.i.cmp", [n, a, b] =>
    match n.toNat?, hexToNat? a, hexToNat? b with
    | some n, some a, some b =>
      let x := toLimbs n a; let y := toLimbs n b
      some s!"{icmpAll x y} ;; {intCmpAll (toInt x) (toInt y)}"
    | _, _, _ => badArgs
  | "c06.i.tests", [n, a] =>   -- is_negative is_positive is_min is_max is_zero
    match n.toNat?, hexToNat? a with
    | some n, some a =>
      let x := toLimbs n a
      let v := toInt x
      let neg := isNegative x
      let pos := choiceNot neg &&& isNonzero x
      let imin := toLimbs n (B ^ n / 2)
      let imax := toLimbs n (B ^ n / 2 - 1)
      let l1 := s!"{choiceTok neg} {choiceTok pos} {choiceTok (ueq x imin)} {choiceTok (ueq x imax)} {choiceTok (choiceNot (isNonzero x))}"
      let l0 := s!"{bitTok (if v < 0 then 1 else 0)} {bitTok (if v > 0 then 1 else 0)} {bitTok (if v = -((B ^ n / 2 : Nat) : Int) then 1 else 0)} {bitTok (if v = ((B ^ n / 2 - 1 : Nat) : Int) then 1 else 0)} {bitTok (if v = 0 then 1 else 0)}"
      some s!"{l1} ;; {l0}"
    | _, _ => badArgs
  | "c06.b.cmp", [na, a, nb, b] =>
    match na.toNat?, hexToNat? a, nb.toNat?, hexToNat? b with
    | some na, some a, some nb, some b =>
      let x := toLimbs na a; let y := toLimbs nb b
      let l1 := s!"{bitTok (bctEq x y)} {choiceTok (bctLt x y)} {choiceTok (bctGt x y)} {ordTok (bcmp x y)}"
      let o : Int := if a < b then -1 else if a = b then 0 else 1
      let l0 := s!"{bitTok (if a = b then 1 else 0)} {bitTok (if a < b then 1 else 0)} {bitTok (if a > b then 1 else 0)} {ordTok o}"
      some s!"{l1} ;; {l0}"
    | _, _, _, _ => badArgs
  | "c06.b.cmp_vartime", [n, a, b] =>
    match n.toNat?, hexToNat? a, hexToNat? b with
    | some n, some a, some b =>
      let o : Int := if a < b then -1 else if a = b then 0 else 1
      some s!"{ordTok (ucmpVartime (toLimbs n a) (toLimbs n b))} ;; {ordTok o}"
    | _, _, _ => badArgs
  -- equal values must hash equally: prints `<eq> <hash-input-equal or - when not eq>`
  | "c06.u.hash", [n, a, b] =>
    match n.toNat?, hexToNat? a, hexToNat? b with
    | some n, some a, some b =>
      let x := toLimbs n a; let y := toLimbs n b
      let e := ueq x y = WMAX
      let l1 := if e then s!"1 {bitTok (if hashInputFixed x = hashInputFixed y then 1 else 0)}" else "0 -"
      let l0 := if a = b then "1 1" else "0 -"
      some s!"{l1} ;; {l0}"
    | _, _, _ => badArgs
  | "c06.b.hash", [na, a, nb, b] =>
    match na.toNat?, hexToNat? a, nb.toNat?, hexToNat? b with
    | some na, some a, some nb, some b =>
      let x := toLimbs na a; let y := toLimbs nb b
      let e := bctEq x y = 1
      let l1 := if e then s!"1 {bitTok (if hashInputBoxed x = hashInputBoxed y then 1 else 0)}" else "0 -"
      let l0 := if a = b then "1 1" else "0 -"
      some s!"{l1} ;; {l0}"
    | _, _, _, _ => badArgs
  -- selection: select, assign, swap with choice c in {0,1}
  | "c06.u.select", [n, a, b, c] =>
    match n.toNat?, hexToNat? a, hexToNat? b, c.toNat? with
    | some n, some a, some b, some c =>
      let x := toLimbs n a; let y := toLimbs n b; let m := maskOfBit c
      let sw := uswap x y m
      let l1 := s!"{limbsHex (uselect x y m)} {limbsHex (uselect x y m)} {limbsHex sw.1} {limbsHex sw.2}"
      let l0 := if c = 0 then s!"{natToHex a} {natToHex a} {natToHex a} {natToHex b}" else s!"{natToHex b} {natToHex b} {natToHex b} {natToHex a}"
      some s!"{l1} ;; {l0}"
    | _, _, _, _ => badArgs
  | "c06.b.select", [n, a, b, c] =>   -- ct_select, ct_assign, ct_swap(2), conditional_negate(a)
    match n.toNat?, hexToNat? a, hexToNat? b, c.toNat? with
    | some n, some a, some b, some c =>
      let x := toLimbs n a; let y := toLimbs n b; let m := maskOfBit c
      let sw := uswap x y m
      let l1 := s!"{limbsHexLen (uselect x y m)} {limbsHexLen (uselect x y m)} {limbsHexLen sw.1} {limbsHexLen sw.2} {limbsHexLen (uselect x (wrappingNeg x) m)}"
      let neg := (B ^ n - a) % B ^ n
      let l0 := if c = 0 then s!"{n}:{natToHex a} {n}:{natToHex a} {n}:{natToHex a} {n}:{natToHex b} {n}:{natToHex a}"
                else s!"{n}:{natToHex b} {n}:{natToHex b} {n}:{natToHex b} {n}:{natToHex a} {n}:{natToHex neg}"
      some s!"{l1} ;; {l0}"
    | _, _, _, _ => badArgs
  | "c06.w.select", [a, b, c] =>
    match hexToNat? a, hexToNat? b, c.toNat? with
    | some a, some b, some c =>
      some s!"{natToHex (selectWord a b (maskOfBit c))} ;; {natToHex (if c = 0 then a else b)}"
    | _, _, _ => badArgs
  -- option-like results: is_some and unwrap_or for ConstCtOption / CtOption built from (value, choice)
  | "c06.u.ctoption", [n, a, d, c] =>
    match n.toNat?, hexToNat? a, hexToNat? d, c.toNat? with
    | some _, some a, some d, some c =>
      let r := if c = 0 then d else a
      some s!"{c} {natToHex r} {c} {natToHex r}"
    | _, _, _, _ => badArgs
  | _, _ => none

end CB
