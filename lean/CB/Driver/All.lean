import CB.Driver.C04
namespace CB
def dispatchers : List Dispatch := [dispatchC04]
def dispatchAll : Dispatch := fun op args =>
  dispatchers.foldl (fun acc d => match acc with | some r => some r | none => d op args) none
end CB
