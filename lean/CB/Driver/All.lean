import CB.Driver.C01
import CB.Driver.C02
import CB.Driver.C03
import CB.Driver.C04
import CB.Driver.C05
import CB.Driver.C06
import CB.Driver.C07
import CB.Driver.C08
import CB.Driver.C09
import CB.Driver.C10
import CB.Driver.C11
import CB.Driver.C12
import CB.Driver.C13
import CB.Driver.C14
import CB.Driver.C15
import CB.Driver.C16
import CB.Driver.C17
import CB.Driver.C18
import CB.Driver.C19
import CB.Driver.C20
namespace CB

/-- route by the op-name prefix (`c04.u.adc` → `dispatchC04`) -/
def dispatchAll : Dispatch := fun op args =>
  match (op.splitOn ".").head! with
  | "c01" => dispatchC01 op args
  | "c02" => dispatchC02 op args
  | "c03" => dispatchC03 op args
  | "c04" => dispatchC04 op args
  | "c05" => dispatchC05 op args
  | "c06" => dispatchC06 op args
  | "c07" => dispatchC07 op args
  | "c08" => dispatchC08 op args
  | "c09" => dispatchC09 op args
  | "c10" => dispatchC10 op args
  | "c11" => dispatchC11 op args
  | "c12" => dispatchC12 op args
  | "c13" => dispatchC13 op args
  | "c14" => dispatchC14 op args
  | "c15" => dispatchC15 op args
  | "c16" => dispatchC16 op args
  | "c17" => dispatchC17 op args
  | "c18" => dispatchC18 op args
  | "c19" => dispatchC19 op args
  | "c20" => dispatchC20 op args
  | _ => none

end CB
