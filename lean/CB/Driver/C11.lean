import CB.Driver.Util
import CB.Model.Panic
namespace CB
open CB.Panic

/-!
  Driver of property C11.  Every `c11.*` line prints `L1 ;; L0`:
    `L1` = outcome of the checked twin(s) of `CB.Model.Panic` that mirror the code path of the call:
           `panic`, `ok`, or the value the twin returns (compared exactly with the crate when present);
           `<release> ## <dbgchk>` where a debug assertion / overflow check makes the builds differ;
    `L0` = what the DOCUMENTATION says (`CB.Panic.panics`): `panic` or `ok`.
  A method for which no twin exists prints `L0` alone.
  tools/check_c11.py compares the panic class of the real crate (two build profiles) with `L0`.
-/

private def cls {α : Type} (r : Chk α) : String := if isPanic r then "panic" else "ok"

/-- `L1` over the two profiles, from a profile-indexed twin and a printer of the `.ok` value -/
private def two {α : Type} (f : Profile → Chk α) (pr : α → String) : String :=
  let s := fun (r : Chk α) => match r with
    | .ok v => pr v
    | .error _ => "panic"
  let a := s (f release)
  let b := s (f dbgchk)
  if a = b then a else s!"{a} ## {b}"

private def doc (o : Op) : String := if panics o then "panic" else "ok"

private def okS {α : Type} : α → String := fun _ => "ok"

/-- twins of the methods of a ZERO-LIMB `BoxedUint` (`limbs = []`) that have one -/
private def b0Twin (method : String) : Option String :=
  match method with
  | "bits_vartime" => some (two (fun p => bitsVartimeD p []) okS)
  | "overflowing_shl" | "overflowing_shr" | "wrapping_shl" | "wrapping_shr" =>
    some (two (fun p => boxedShiftPrologueD p 0 0) okS)
  -- `sqrt` starts with `one_with_precision(..).overflowing_shl(..)` on the operand's precision
  | "sqrt" | "sqrt_vartime" | "checked_sqrt" => some (two (fun p => boxedShiftPrologueD p 0 0) okS)
  -- `gcd` starts with `self.overflowing_shr(k)`
  | "gcd_self" | "gcd_one" => some (two (fun p => boxedShiftPrologueD p 0 0) okS)
  | "shorten" => some (two (fun _ => shortenD 0 0) okS)
  | "square" => some (two (fun p => squareTopIndexD p 0) okS)
  | "checked_div_self" => some (two (fun p => boxedCheckedDivD p 0 0) okS)
  | "one_checked_div" => some (two (fun p => boxedCheckedDivD p 1 0) okS)
  | "to_string_radix_10" | "to_string_radix_16" => some (two (fun p => radixEncodeNonEmptyD p 0) okS)
  | _ => none

def dispatchC11 : Dispatch := fun op args =>
  match op, args with
  -- ---- inversion ------------------------------------------------------------------------------
  | "c11.u.inv_mod", [n, a, m] =>
    match n.toNat?, hexToNat? a, hexToNat? m with
    | some n, some _, some m => some s!"{cls (invModExpectD (64 * n) m)} ;; {doc (.uintInvMod (64 * n) m)}"
    | _, _, _ => badArgs
  | "c11.u.inv_mod2k", [n, _, k] =>
    match n.toNat?, k.toNat? with
    | some n, some k => some s!"ok ;; {doc (.uintInvMod2k (64 * n) k)}"
    | _, _ => badArgs
  | "c11.u.inv_mod2k_vartime", [n, a, k] =>
    match n.toNat?, hexToNat? a, k.toNat? with
    | some n, some _, some k =>
      some s!"{cls (invMod2kVartimeD (64 * n) k)} ;; {doc (.uintInvMod2k (64 * n) k)}"
    | _, _, _ => badArgs
  | "c11.b.inv_mod", [na, _, nm, _] =>
    match na.toNat?, nm.toNat? with
    | some na, some nm =>
      some s!"{two (fun p => boxedInvModPrecisionD p na nm) okS} ;; {doc (.boxedInvMod na nm)}"
    | _, _ => badArgs
  | "c11.b.inv_mod2k", [_, _, _] => some "ok ;; ok"
  | "c11.b.inv_mod2k_vartime", [_, _, _] => some "ok ;; ok"
  -- ---- zero-limb boxed values -------------------------------------------------------------------
  | "c11.b0", [_, method] =>
    match b0Twin method with
    | some t => some s!"{t} ;; {doc (.boxedMethod 0)}"
    | none => some (doc (.boxedMethod 0))
  | "c11.b.odd_new0", [_] => some (doc (.boxedMethod 0))
  -- ---- decoders / constructors ----------------------------------------------------------------
  | "c11.b.from_be_hex", [s, prec] =>
    match tokToBytes? s, prec.toNat? with
    | some bs, some pr => some s!"{cls (boxedFromBeHexLenD bs.length pr)} ;; {doc (.boxedFromBeHex bs.length pr)}"
    | _, _ => badArgs
  | "c11.b.ctor0", [name] =>
    if name = "widen0" then some s!"{cls (widenD 64 0)} ;; {doc (.boxedWiden 64 0)}"
    else if name = "shorten0" then some s!"{cls (shortenD 1 0)} ;; {doc (.boxedShorten 64 0)}"
    else some "ok"
  | "c11.b.try_random_bits", [_, _] => some "ok"
  -- ---- total shift forms, Int extremes -----------------------------------------------------------
  | "c11.u.shift_all", [n, _, s] =>
    match n.toNat?, s.toNat? with
    | some n, some s => some (doc (.uintShiftTotal (64 * n) s))
    | _, _ => badArgs
  | "c11.i.extreme", [_, _, _] => some "ok"
  -- ---- twins with values: tie the checked twins to the code through the public API ---------------
  | "c11.u.div_rem_limb", [n, a, d] =>
    match n.toNat?, hexToNat? a, hexToNat? d with
    | some n, some a, some d =>
      if d = 0 ∨ d ≥ B then badArgs else
      some (two (fun p => divRemLimbWithReciprocalD p (toLimbs n a) (Div.Reciprocal.new d))
        (fun r => s!"{limbsHex r.1} {natToHex r.2}"))
    | _, _, _ => badArgs
  | "c11.u.mul_mod_special", [n, a, b, c] =>
    match n.toNat?, hexToNat? a, hexToNat? b, hexToNat? c with
    | some n, some a, some b, some c =>
      if n < 2 then badArgs else
      let prod := a * b
      some (two (fun p => specialReduceD p (toLimbs n prod) (toLimbs n (prod / B ^ n)) c) limbsHex)
    | _, _, _, _ => badArgs
  | _, _ => none

end CB
