import CB.Driver.Util
namespace CB

/-- operations of property C11 (op names start with `c11.`) -/
def dispatchC11 : Dispatch := fun _ _ => none

end CB
