/-
  CB.Lemmas.C02LimbDiv — division of a multi-limb value by one limb through `div2by1`
  (`div_rem_limb_with_reciprocal`, `rem_limb_with_reciprocal`, `rem_limb_with_reciprocal_wide`),
  including the normalisation shift and the final un-shift, for every limb count.
-/
import CB.Lemmas.C02Shift
namespace CB.Div
open CB

/-- **H_recip**: the Newton iteration of `reciprocal` computes `⌊(B²−1)/d⌋ − B` on normalised divisors. -/
def HRecip : Prop := ∀ d, HALF ≤ d → d < B → reciprocalImpl d = reciprocalSpec d

theorem val_append (a b : List Nat) : val (a ++ b) = val a + B ^ a.length * val b := by
  induction a with
  | nil => simp
  | cons x xs ih =>
    simp only [List.cons_append, val_cons, ih, List.length_cons, Nat.pow_succ]
    rw [Nat.mul_add, Nat.mul_comm (B ^ xs.length) B, Nat.mul_assoc, Nat.add_assoc]

theorem WF_append {a b : List Nat} : WF (a ++ b) ↔ WF a ∧ WF b := by
  constructor
  · intro h; exact ⟨fun x hx => h x (List.mem_append_left _ hx), fun x hx => h x (List.mem_append_right _ hx)⟩
  · intro ⟨h1, h2⟩ x hx
    rcases List.mem_append.mp hx with h | h
    · exact h1 x h
    · exact h2 x h

theorem WF_reverse {a : List Nat} : WF a.reverse ↔ WF a := by
  constructor <;> intro h x hx
  · exact h x (List.mem_reverse.mpr hx)
  · exact h x (List.mem_reverse.mp hx)

theorem divLimbLoopRev_cons (rc : Reciprocal) (u r : Nat) (us : List Nat) :
    divLimbLoopRev rc (u :: us) r =
      ((div2by1 r u rc).1 :: (divLimbLoopRev rc us (div2by1 r u rc).2).1,
       (divLimbLoopRev rc us (div2by1 r u rc).2).2) := rfl

/-- a reciprocal that is usable: normalised divisor with the specified reciprocal -/
structure RcOK (rc : Reciprocal) : Prop where
  h1 : HALF ≤ rc.divisorNormalized
  h2 : rc.divisorNormalized < B
  hv : rc.reciprocal = reciprocalSpec rc.divisorNormalized

/-- the `while j > 0` loop of `div_rem_limb_with_reciprocal` (limbs most significant first). -/
theorem divLimbLoopRev_spec {rc : Reciprocal} (ok : RcOK rc) {us : List Nat} {r : Nat}
    (hu : WF us) (hr : r < rc.divisorNormalized) :
    val (divLimbLoopRev rc us r).1.reverse =
        (r * B ^ us.length + val us.reverse) / rc.divisorNormalized ∧
    (divLimbLoopRev rc us r).2 = (r * B ^ us.length + val us.reverse) % rc.divisorNormalized ∧
    WF (divLimbLoopRev rc us r).1 ∧ (divLimbLoopRev rc us r).1.length = us.length := by
  have hdpos : 0 < rc.divisorNormalized := Nat.lt_of_lt_of_le (by decide) ok.h1
  induction us generalizing r with
  | nil =>
    have e : divLimbLoopRev rc [] r = ([], r) := rfl
    rw [e]
    refine ⟨?_, ?_, WF_nil, rfl⟩
    · simp [Nat.div_eq_of_lt hr]
    · simp [Nat.mod_eq_of_lt hr]
  | cons u us ih =>
    have ⟨hu0, hus⟩ := WF_cons.mp hu
    have hd := div2by1_exact ok.h1 ok.h2 ok.hv hr hu0
    have hr1 : (div2by1 r u rc).2 < rc.divisorNormalized := by rw [hd]; exact Nat.mod_lt _ hdpos
    have hq1 : (div2by1 r u rc).1 < B := by
      rw [hd]; show (r * B + u) / rc.divisorNormalized < B
      rw [Nat.div_lt_iff_lt_mul hdpos]
      have : (r + 1) * B ≤ rc.divisorNormalized * B := Nat.mul_le_mul_right B (by omega)
      rw [Nat.add_mul, Nat.one_mul] at this
      rw [Nat.mul_comm B]; omega
    have ⟨i1, i2, i3, i4⟩ := ih (r := (div2by1 r u rc).2) hus hr1
    rw [divLimbLoopRev_cons]
    have hdm := Nat.div_add_mod (r * B + u) rc.divisorNormalized
    have e1 : (div2by1 r u rc).1 = (r * B + u) / rc.divisorNormalized := by rw [hd]
    have e2 : (div2by1 r u rc).2 = (r * B + u) % rc.divisorNormalized := by rw [hd]
    generalize (div2by1 r u rc).1 = q1 at *
    generalize (div2by1 r u rc).2 = r1 at *
    generalize hL : divLimbLoopRev rc us r1 = L at *
    have hQlt := val_lt (WF_reverse.mpr i3)
    rw [List.length_reverse, i4] at hQlt
    -- N = (q1·Bⁿ + Q')·d + rf
    have hN : r * B ^ (u :: us).length + val (u :: us).reverse =
        (q1 * B ^ us.length + val L.1.reverse) * rc.divisorNormalized + L.2 := by
      have hdm2 := Nat.div_add_mod (r1 * B ^ us.length + val us.reverse) rc.divisorNormalized
      rw [← i1, ← i2] at hdm2
      simp only [List.reverse_cons, val_append, List.length_reverse, List.length_cons, val_cons, val_nil,
        Nat.mul_zero, Nat.add_zero, Nat.pow_succ]
      rw [← e1, ← e2] at hdm
      generalize rc.divisorNormalized = d at *
      generalize B ^ us.length = K at *
      generalize val us.reverse = V at *
      generalize val L.1.reverse = Q at *
      zify at hdm hdm2 ⊢
      linear_combination (-(K:ℤ)) * hdm - hdm2
    have hrf : L.2 < rc.divisorNormalized := by rw [i2]; exact Nat.mod_lt _ hdpos
    have hres := div_mod_of_eq (q := q1 * B ^ us.length + val L.1.reverse) (r := L.2)
      (u := r * B ^ (u :: us).length + val (u :: us).reverse) (d := rc.divisorNormalized) hN.symm hrf
    refine ⟨?_, hres.2.symm, WF_cons.mpr ⟨hq1, i3⟩, by simp [i4]⟩
    rw [hres.1, List.reverse_cons, val_append, List.length_reverse, i4]
    have : val [q1] = q1 := by simp
    rw [this, Nat.mul_comm, Nat.add_comm]

theorem remLimbLoopRev_cons (rc : Reciprocal) (u r : Nat) (us : List Nat) :
    remLimbLoopRev rc (u :: us) r = remLimbLoopRev rc us (div2by1 r u rc).2 := List.foldl_cons ..
theorem remLimbLoopRev_nil (rc : Reciprocal) (r : Nat) : remLimbLoopRev rc [] r = r := List.foldl_nil
theorem divLimbLoopRev_nil (rc : Reciprocal) (r : Nat) : divLimbLoopRev rc [] r = ([], r) := rfl

theorem remLimbLoopRev_eq (rc : Reciprocal) (us : List Nat) (r : Nat) :
    remLimbLoopRev rc us r = (divLimbLoopRev rc us r).2 := by
  induction us generalizing r with
  | nil => rw [remLimbLoopRev_nil, divLimbLoopRev_nil]
  | cons u us ih => rw [divLimbLoopRev_cons, remLimbLoopRev_cons, ih]

/-- `leading_zeros` normalises a non-zero word. -/
theorem leadingZeros_spec {d : Nat} (hd0 : 0 < d) (hd : d < B) :
    leadingZeros d < 64 ∧ HALF ≤ d * 2 ^ leadingZeros d ∧ d * 2 ^ leadingZeros d < B := by
  have hne : d ≠ 0 := by omega
  have h1 := Nat.log2_self_le hne
  have h2 := Nat.lt_log2_self (n := d)
  have hl : d.log2 < 64 := by
    rw [Nat.log2_lt hne, ← B_eq_pow]; exact hd
  unfold leadingZeros
  rw [if_neg hne]
  refine ⟨by omega, ?_, ?_⟩
  · have : 2 ^ d.log2 * 2 ^ (63 - d.log2) ≤ d * 2 ^ (63 - d.log2) := Nat.mul_le_mul_right _ h1
    rw [← Nat.pow_add] at this
    have e : d.log2 + (63 - d.log2) = 63 := by omega
    rw [e] at this
    have : HALF = 2 ^ 63 := by decide
    omega
  · have : d * 2 ^ (63 - d.log2) < 2 ^ (d.log2 + 1) * 2 ^ (63 - d.log2) :=
      Nat.mul_lt_mul_of_pos_right h2 (Nat.pow_pos (by decide))
    rw [← Nat.pow_add] at this
    have e : d.log2 + 1 + (63 - d.log2) = 64 := by omega
    rw [e, ← B_eq_pow] at this
    exact this

theorem Reciprocal_new_ok (H : HRecip) {d : Nat} (hd0 : 0 < d) (hd : d < B) :
    RcOK (Reciprocal.new d) ∧ (Reciprocal.new d).divisorNormalized = d * 2 ^ leadingZeros d ∧
    (Reciprocal.new d).shift = leadingZeros d := by
  have ⟨l1, l2, l3⟩ := leadingZeros_spec hd0 hd
  have e : (d <<< leadingZeros d) % B = d * 2 ^ leadingZeros d := by
    rw [Nat.shiftLeft_eq, Nat.mod_eq_of_lt l3]
  refine ⟨⟨?_, ?_, ?_⟩, ?_, rfl⟩
  · show HALF ≤ (d <<< leadingZeros d) % B; rw [e]; exact l2
  · show (d <<< leadingZeros d) % B < B; rw [e]; exact l3
  · show reciprocalImpl ((d <<< leadingZeros d) % B) = reciprocalSpec ((d <<< leadingZeros d) % B)
    rw [e]; exact H _ l2 l3
  · exact e

/-- **T02.3** `div_rem_limb_with_reciprocal` for a usable reciprocal of `d` (shift `s`, `dn = d·2^s`). -/
theorem divRemLimbWithReciprocal_spec {rc : Reciprocal} (ok : RcOK rc) {d : Nat} (hs : rc.shift < 64)
    (hdn : rc.divisorNormalized = d * 2 ^ rc.shift) {u : List Nat} (hu : WF u) :
    (divRemLimbWithReciprocal u rc).1 = toLimbs u.length (val u / d) ∧
    (divRemLimbWithReciprocal u rc).2 = val u % d ∧
    remLimbWithReciprocal u rc = val u % d := by
  have ⟨s1, s2, s3, s4⟩ := shlLimb_spec hs hu
  have hpow : 2 ^ rc.shift ≤ rc.divisorNormalized := by
    have : 2 ^ rc.shift ≤ 2 ^ 63 := Nat.pow_le_pow_right (by decide) (by omega)
    have : HALF = 2 ^ 63 := by decide
    have := ok.h1
    omega
  have hr : (shlLimb u rc.shift).2 < rc.divisorNormalized := by omega
  have ⟨l1, l2, l3, l4⟩ := divLimbLoopRev_spec ok (us := (shlLimb u rc.shift).1.reverse) (r := (shlLimb u rc.shift).2)
    (WF_reverse.mpr s2) hr
  rw [List.reverse_reverse, List.length_reverse, s3, Nat.mul_comm, Nat.add_comm, s1, hdn] at l1 l2
  have h2pos : 0 < 2 ^ rc.shift := Nat.pow_pos (by decide)
  rw [Nat.mul_div_mul_right _ _ h2pos] at l1
  rw [Nat.mul_mod_mul_right] at l2
  rw [List.length_reverse, s3] at l4
  have hrem : (divLimbLoopRev rc (shlLimb u rc.shift).1.reverse (shlLimb u rc.shift).2).2 >>> rc.shift = val u % d := by
    rw [l2, Nat.shiftRight_eq_div_pow, Nat.mul_div_cancel _ h2pos]
  refine ⟨?_, hrem, ?_⟩
  · show (divLimbLoopRev rc (shlLimb u rc.shift).1.reverse (shlLimb u rc.shift).2).1.reverse = _
    have hw := WF_reverse.mpr l3
    have := toLimbs_val hw
    rw [List.length_reverse, l4, l1] at this
    exact this.symm
  · show (remLimbLoopRev rc (shlLimb u rc.shift).1.reverse (shlLimb u rc.shift).2) >>> rc.shift = _
    rw [remLimbLoopRev_eq]; exact hrem

/-- **T02.3** `div_rem_limb` / `rem_limb`: exact for every limb count and every non-zero limb divisor
    (given H_recip). -/
theorem divRemLimb_spec (H : HRecip) {d : Nat} (hd0 : 0 < d) (hd : d < B) {u : List Nat} (hu : WF u) :
    (divRemLimb u d).1 = toLimbs u.length (val u / d) ∧ (divRemLimb u d).2 = val u % d ∧
    remLimb u d = val u % d := by
  have ⟨ok, e1, e2⟩ := Reciprocal_new_ok H hd0 hd
  have ⟨l1, _, _⟩ := leadingZeros_spec hd0 hd
  exact divRemLimbWithReciprocal_spec ok (by rw [e2]; exact l1) (by rw [e1, e2]) hu

end CB.Div
