/-
  CB.Lemmas.C17Aligned — the limb-aligned decoder for radix 2, 4, 16
  (`radix_decode_str_aligned_digits`): digits are packed from the least significant end,
  `radix ^ limb_digits = 2^64`.
-/
import CB.Lemmas.C17Decode
namespace CB.Radix
open CB

theorem valLE_append (r : Nat) (a b : List Nat) :
    valLE r (a ++ b) = valLE r a + r ^ a.length * valLE r b := by
  induction a with
  | nil => simp [valLE]
  | cons x xs ih =>
    simp only [List.cons_append, valLE, ih, List.length_cons, Nat.pow_succ, Nat.mul_add]
    rw [Nat.mul_comm (r ^ xs.length) r, Nat.mul_assoc, Nat.add_assoc]

theorem valLE_lt {r : Nat} {ds : List Nat} (h : ∀ d ∈ ds, d < r) : valLE r ds < r ^ ds.length := by
  have := ofDigits_lt (r := r) (ds := ds.reverse) (fun d hd => h d (List.mem_reverse.mp hd))
  rw [ofDigits_reverse, List.length_reverse] at this
  exact this

theorem getLast?_append_ne (a b : List Nat) (hb : b ≠ []) : (a ++ b).getLast? = b.getLast? := by
  induction a with
  | nil => rfl
  | cons x xs ih => rw [List.cons_append, List.getLast?_cons_of_ne_nil (by simp [hb]), ih]

/-- `w = (w << shift) | c` over the chunk, most significant digit first, is the chunk's value -/
theorem packDigits_eq {shift : Nat} {buf : List Nat} (hd : ∀ d ∈ buf, d < 2 ^ shift)
    (hfit : (2 ^ shift) ^ buf.length ≤ B) : packDigits shift buf = valLE (2 ^ shift) buf := by
  unfold packDigits
  induction buf with
  | nil => rfl
  | cons d ds ih =>
    have hd0 : d < 2 ^ shift := hd d List.mem_cons_self
    have hds : ∀ x ∈ ds, x < 2 ^ shift := fun x hx => hd x (List.mem_cons_of_mem _ hx)
    have hp : 0 < 2 ^ shift := Nat.pow_pos (by decide)
    have hfit' : (2 ^ shift) ^ ds.length ≤ B := by
      have : (2 ^ shift) ^ ds.length ≤ (2 ^ shift) ^ (d :: ds).length :=
        Nat.pow_le_pow_right hp (by simp)
      omega
    rw [List.reverse_cons, List.foldl_append, ih hds hfit']
    simp only [List.foldl_cons, List.foldl_nil, valLE]
    have hlt := valLE_lt hds
    have hmul : valLE (2 ^ shift) ds * 2 ^ shift < B := by
      have h1 : (valLE (2 ^ shift) ds + 1) * 2 ^ shift ≤ (2 ^ shift) ^ ds.length * 2 ^ shift :=
        Nat.mul_le_mul_right _ hlt
      have h2 : (2 ^ shift) ^ (d :: ds).length = (2 ^ shift) ^ ds.length * 2 ^ shift := by
        rw [List.length_cons, Nat.pow_succ]
      rw [Nat.add_mul] at h1
      omega
    rw [Nat.mod_eq_of_lt hmul, ← Nat.shiftLeft_eq, ← Nat.shiftLeft_add_eq_or_of_lt hd0,
      Nat.shiftLeft_eq, Nat.mul_comm, Nat.add_comm]

/-- post-condition of `decodeAlignedLoop` on the reversed remaining digits -/
def AlignedPost (radix : Nat) (rdigits : List Nat) (t : Target) (res : Except Err Target) : Prop :=
  (∀ dsr, bodyDigits radix rdigits = some dsr →
     match res with
     | .ok t' => val t'.limbs = val t.limbs + B ^ t.limbs.length * valLE radix dsr ∧ WF t'.limbs ∧
         t'.cap = t.cap ∧ CapOK t'
     | .error e => e = .inputSize ∧ ∃ n, t.cap = some n ∧
         (dsr.getLast? ≠ some 0 → B ^ n ≤ val t.limbs + B ^ t.limbs.length * valLE radix dsr)) ∧
  (bodyDigits radix rdigits = none →
     match res with
     | .ok _ => False
     | .error e => e = .invalidDigit ∨ (e = .inputSize ∧ t.cap ≠ none))

theorem decodeAlignedLoop_spec {radix shift k : Nat} (hrad : radix = 2 ^ shift) (hk : 0 < k)
    (hB : radix ^ k = B) :
    ∀ (fuel : Nat) (rdigits : List Nat) (t : Target),
      rdigits.length ≤ fuel → (rdigits ≠ [] → rdigits.getLast? ≠ some 95) → WF t.limbs → CapOK t →
      AlignedPost radix rdigits t (decodeAlignedLoop radix shift k fuel rdigits t) := by
  intro fuel
  induction fuel with
  | zero =>
    intro rdigits t hlen _ hw hcap
    have : rdigits = [] := List.eq_nil_of_length_eq_zero (by omega)
    subst this
    simp only [decodeAlignedLoop, List.isEmpty_nil, if_true]
    constructor
    · intro ds hds
      simp only [bodyDigits, Option.some.injEq] at hds
      subst hds
      exact ⟨by simp [valLE], hw, rfl, hcap⟩
    · intro h; simp [bodyDigits] at h
  | succ fuel ih =>
    intro rdigits t hlen hlast hw hcap
    by_cases hne : rdigits = []
    · subst hne
      simp only [decodeAlignedLoop, List.isEmpty_nil, if_true]
      constructor
      · intro ds hds
        simp only [bodyDigits, Option.some.injEq] at hds
        subst hds
        exact ⟨by simp [valLE], hw, rfl, hcap⟩
      · intro h; simp [bodyDigits] at h
    · have hemp : rdigits.isEmpty = false := by
        cases rdigits with
        | nil => exact absurd rfl hne
        | cons _ _ => rfl
      rw [decodeAlignedLoop]
      simp only [hemp, Bool.false_eq_true, if_false]
      have hrb := readBatch_spec (radix := radix) (k := k) rdigits [] hne (hlast hne) (by simpa using hk)
      cases hr' : readBatch radix k rdigits [] with
      | error e =>
        rw [hr'] at hrb
        simp only
        constructor
        · intro ds hds; rw [hrb.2] at hds; simp at hds
        · intro _; left; exact hrb.1
      | ok p =>
        obtain ⟨buf, rest⟩ := p
        rw [hr'] at hrb
        obtain ⟨dsc, h1, h2, h3, h4, h5, h6, h7, h8⟩ := hrb
        simp only [List.nil_append] at h1
        subst h1
        simp only
        have hpos : 0 < buf.length := by
          cases buf with
          | nil => exact absurd rfl h2
          | cons _ _ => simp
        rw [if_pos hpos]
        have hp1 : 1 ≤ radix := by rw [hrad]; exact Nat.pow_pos (by decide)
        have hfit : (2 ^ shift) ^ buf.length ≤ B := by
          rw [← hrad, ← hB]; exact Nat.pow_le_pow_right hp1 h4
        have hw_eq : packDigits shift buf = valLE radix buf := by
          rw [packDigits_eq (by rw [← hrad]; exact h3) hfit, hrad]
        have hwlt : valLE radix buf < B := by
          have := valLE_lt h3
          have : radix ^ buf.length ≤ B := by rw [← hB]; exact Nat.pow_le_pow_right hp1 h4
          omega
        rw [hw_eq]
        have hrest_len : rest.length ≤ fuel := by omega
        -- value bookkeeping shared by the two successful pushes
        have hstep : ∀ dsr', bodyDigits radix rest = some dsr' →
            val (t.limbs ++ [valLE radix buf]) + B ^ (t.limbs ++ [valLE radix buf]).length * valLE radix dsr'
              = val t.limbs + B ^ t.limbs.length * valLE radix (buf ++ dsr') := by
          intro dsr' hd'
          rw [val_append_singleton, valLE_append, List.length_append, List.length_singleton, Nat.pow_succ,
            Nat.mul_add, Nat.add_assoc]
          congr 2
          rcases h5 with hnil | hfull
          · subst hnil
            simp only [bodyDigits, Option.some.injEq] at hd'
            subst hd'
            simp [valLE]
          · rw [hfull, hB, Nat.mul_assoc]
        have hpost_of : ∀ res, AlignedPost radix rest ⟨t.cap, t.limbs ++ [valLE radix buf]⟩ res →
            AlignedPost radix rdigits t res := by
          intro res hres
          constructor
          · intro ds hds
            rw [h8] at hds
            cases hrr : bodyDigits radix rest with
            | none => rw [hrr] at hds; simp at hds
            | some dsr' =>
              rw [hrr] at hds
              simp only [Option.map_some, Option.some.injEq] at hds
              subst hds
              have := hres.1 dsr' hrr
              have e := hstep dsr' hrr
              cases res with
              | ok t' => simp only at this ⊢; rw [← e]; exact this
              | error e' =>
                simp only at this ⊢
                obtain ⟨a1, n, a2, a3⟩ := this
                refine ⟨a1, n, a2, fun hl => ?_⟩
                rw [← e]
                apply a3
                by_cases hd0 : dsr' = []
                · subst hd0; simp
                · rw [getLast?_append_ne _ _ hd0] at hl; exact hl
          · intro hn
            rw [h8] at hn
            have hrn : bodyDigits radix rest = none := by
              cases hrr : bodyDigits radix rest with
              | none => rfl
              | some x => rw [hrr] at hn; simp at hn
            have := hres.2 hrn
            cases res with
            | ok t' => exact this
            | error e' => exact this
        have hw2 : WF (t.limbs ++ [valLE radix buf]) := WF_append_singleton hw hwlt
        have hcases : t.cap = none ∨ ∃ n, t.cap = some n := by
          cases t.cap with
          | none => left; rfl
          | some n => right; exact ⟨n, rfl⟩
        rcases hcases with hcp | ⟨n, hcp⟩
        · have hpush : t.push (valLE radix buf) = some ⟨t.cap, t.limbs ++ [valLE radix buf]⟩ := by
            simp [Target.push, hcp]
          rw [hpush]
          apply hpost_of
          exact ih rest _ hrest_len h7 hw2 (by unfold CapOK; simp [hcp])
        · by_cases hroom : t.limbs.length < n
          · have hpush : t.push (valLE radix buf) = some ⟨t.cap, t.limbs ++ [valLE radix buf]⟩ := by
              simp [Target.push, hcp, hroom]
            rw [hpush]
            apply hpost_of
            exact ih rest _ hrest_len h7 hw2 (by unfold CapOK; simp [hcp]; omega)
          · have hpush : t.push (valLE radix buf) = none := by simp [Target.push, hcp, hroom]
            rw [hpush]
            have hlen_n : t.limbs.length = n := by
              unfold CapOK at hcap; rw [hcp] at hcap; simp only at hcap; omega
            constructor
            · intro ds hds
              refine ⟨rfl, n, hcp, fun hl => ?_⟩
              have hdne : ds ≠ [] := by
                rw [h8] at hds
                cases hrr : bodyDigits radix rest with
                | none => rw [hrr] at hds; simp at hds
                | some dsr' =>
                  rw [hrr] at hds
                  simp only [Option.map_some, Option.some.injEq] at hds
                  subst hds
                  simp [h2]
              have := valLE_pos_of_last (r := radix) (by omega) hdne hl
              rw [hlen_n]
              have : B ^ n ≤ B ^ n * valLE radix ds := Nat.le_mul_of_pos_right _ this
              omega
            · intro _; right; exact ⟨rfl, by rw [hcp]; simp⟩

/-! ### top level -/

theorem bodyDigits_append (r : Nat) (a b : List Nat) :
    bodyDigits r (a ++ b) =
      match bodyDigits r a, bodyDigits r b with
      | some x, some y => some (x ++ y)
      | _, _ => none := by
  induction a with
  | nil => simp only [List.nil_append, bodyDigits]; cases bodyDigits r b <;> rfl
  | cons c a ih =>
    by_cases hc : c = 95
    · subst hc; rw [List.cons_append, bodyDigits_us, bodyDigits_us]; exact ih
    · rw [List.cons_append, bodyDigits_cons_ne _ hc, bodyDigits_cons_ne _ hc, ih]
      by_cases hd : (charDigit? c).getD r < r
      · simp only [if_pos hd]
        cases bodyDigits r a <;> cases bodyDigits r b <;> rfl
      · simp only [if_neg hd]

theorem bodyDigits_reverse (r : Nat) (l : List Nat) :
    bodyDigits r l.reverse = (bodyDigits r l).map List.reverse := by
  induction l with
  | nil => rfl
  | cons c l ih =>
    rw [List.reverse_cons, bodyDigits_append, ih]
    by_cases hc : c = 95
    · subst hc
      rw [bodyDigits_us r l]
      have : bodyDigits r [95] = some [] := by simp [bodyDigits]
      rw [this]
      cases bodyDigits r l <;> simp
    · rw [bodyDigits_cons_ne _ hc, bodyDigits_cons_ne _ hc]
      by_cases hd : (charDigit? c).getD r < r
      · simp only [if_pos hd, bodyDigits, Option.map_some]
        cases bodyDigits r l <;> simp
      · simp only [if_neg hd]
        cases bodyDigits r l <;> simp

theorem stripLeading_head : ∀ (body : List Nat),
    (stripLeading body).head? ≠ some 48 ∧ (stripLeading body).head? ≠ some 95 := by
  intro body
  induction body with
  | nil => simp [stripLeading]
  | cons b bs ih =>
    by_cases hb : b = 48 ∨ b = 95
    · have e : stripLeading (b :: bs) = stripLeading bs := by simp only [stripLeading, if_pos hb]
      rw [e]; exact ih
    · have e : stripLeading (b :: bs) = b :: bs := by simp only [stripLeading, if_neg hb]
      rw [e]
      simp only [List.head?_cons, ne_eq, Option.some.injEq]
      omega

theorem charDigit_eq_zero {b : Nat} (h : charDigit? b = some 0) : b = 48 := by
  unfold charDigit? at h
  split at h
  · injection h with h; omega
  · split at h
    · injection h with h; omega
    · split at h
      · injection h with h; omega
      · exact absurd h (by simp)

theorem bodyDigits_head_ne_zero {r : Nat} (hr : 0 < r) {digits ds : List Nat}
    (h48 : digits.head? ≠ some 48) (h95 : digits.head? ≠ some 95)
    (h : bodyDigits r digits = some ds) : ds.head? ≠ some 0 := by
  cases digits with
  | nil => simp only [bodyDigits, Option.some.injEq] at h; subst h; simp
  | cons b bs =>
    have hb95 : b ≠ 95 := by simpa using h95
    have hb48 : b ≠ 48 := by simpa using h48
    rw [bodyDigits_cons_ne _ hb95] at h
    by_cases hd : (charDigit? b).getD r < r
    · rw [if_pos hd] at h
      cases hbs : bodyDigits r bs with
      | none => rw [hbs] at h; simp at h
      | some x =>
        rw [hbs] at h
        simp only [Option.map_some, Option.some.injEq] at h
        subst h
        simp only [List.head?_cons, ne_eq, Option.some.injEq]
        intro h0
        cases hc : charDigit? b with
        | none => rw [hc] at h0; simp at h0; omega
        | some d =>
          rw [hc] at h0
          simp only [Option.getD_some] at h0
          subst h0
          exact hb48 (charDigit_eq_zero hc)
    · rw [if_neg hd] at h; simp at h

/-- T17.2 for the limb-aligned decoder (radix 2, 4, 16), any target -/
theorem decodeAligned_correct {radix : Nat} (ha : radix = 2 ∨ radix = 4 ∨ radix = 16) (s : List Nat)
    (cap : Option Nat) : DecodeCorrect radix s cap (decodeAligned radix s ⟨cap, []⟩) := by
  have hpar : radix = 2 ^ trailingZeros radix ∧ 0 < 64 / trailingZeros radix ∧
      radix ^ (64 / trailingZeros radix) = B := by
    rcases ha with h | h | h <;> subst h <;> decide
  have h2 : 2 ≤ radix := by omega
  unfold DecodeCorrect specParse decodeAligned preprocess
  simp only
  generalize stripPlus s = body
  by_cases hemp : body.isEmpty = true
  · simp only [hemp, if_true]
    exact ⟨fun v h => by simp at h, fun _ => trivial, fun h => by simp at h⟩
  · simp only [hemp, Bool.false_eq_true, if_false]
    by_cases hus : body.head? = some 95 ∨ body.getLast? = some 95
    · simp only [if_pos hus]
      exact ⟨fun v h => by simp at h, fun h => by simp at h, fun _ => Or.inl trivial⟩
    · simp only [if_neg hus]
      have hsl := stripLeading_body (r := radix) (by omega) body
      have hhead := stripLeading_head body
      have hlast : (stripLeading body).reverse ≠ [] →
          (stripLeading body).reverse.getLast? ≠ some 95 := by
        intro _; rw [List.getLast?_reverse]; exact hhead.2
      have hpost := decodeAlignedLoop_spec hpar.1 hpar.2.1 hpar.2.2 (stripLeading body).length
        (stripLeading body).reverse ⟨cap, []⟩ (by simp) hlast WF_nil (by unfold CapOK; cases cap <;> simp)
      generalize decodeAlignedLoop radix (trailingZeros radix) (64 / trailingZeros radix)
        (stripLeading body).length (stripLeading body).reverse ⟨cap, []⟩ = res at hpost
      unfold AlignedPost at hpost
      rw [bodyDigits_reverse] at hpost
      cases hbd : bodyDigits radix body with
      | none =>
        simp only
        refine ⟨fun v h => by simp at h, fun h => by simp at h, fun _ => ?_⟩
        have := hpost.2 (by rw [hsl.2 hbd]; rfl)
        cases res with
        | ok t => exact absurd this id
        | error e =>
          simp only at this
          rcases this with h | ⟨h, hc⟩
          · left; rw [h]
          · right; exact ⟨by rw [h], hc⟩
      | some ds =>
        simp only
        refine ⟨fun v h => ?_, fun h => by simp at h, fun h => by simp at h⟩
        injection h with h
        subst h
        obtain ⟨ds', hd1, hd2⟩ := hsl.1 ds hbd
        have := hpost.1 ds'.reverse (by rw [hd1]; rfl)
        have hv : valLE radix ds'.reverse = ofDigits radix ds := by
          rw [← ofDigits_reverse, List.reverse_reverse, hd2]
        simp only [val_nil, List.length_nil, Nat.pow_zero, Nat.one_mul, Nat.zero_add, hv] at this
        cases res with
        | ok t => left; exact ⟨t, rfl, this.1, this.2.1, this.2.2.2, this.2.2.1⟩
        | error e =>
          simp only at this
          right
          obtain ⟨a1, n, a2, a3⟩ := this
          refine ⟨by rw [a1], n, a2, a3 ?_⟩
          rw [List.getLast?_reverse]
          exact bodyDigits_head_ne_zero (by omega) hhead.1 hhead.2 hd1

end CB.Radix
