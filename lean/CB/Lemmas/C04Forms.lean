/-
  CB.Lemmas.C04Forms — boxed mixed-precision add/sub and the in-place forms.
-/
import CB.Lemmas.C06Cmp
import CB.Model.AddSubForms
namespace CB
open CB.Cmp CB.AddSub

theorem max_pad_len (a b : List Nat) :
    (pad (max a.length b.length) a).length = (pad (max a.length b.length) b).length := by
  rw [pad_length (Nat.le_max_left _ _), pad_length (Nat.le_max_right _ _)]

/-- `BoxedUint::adc` on ANY two precisions: exact at the larger precision. -/
theorem badc_spec (a b : List Nat) (c : Nat) :
    val (badc a b c).1 + B ^ (max a.length b.length) * (badc a b c).2 = val a + val b + c ∧
    (badc a b c).1.length = max a.length b.length := by
  unfold badc
  have hl := max_pad_len a b
  have e := uadc_spec _ _ c hl
  rw [val_pad, val_pad, pad_length (Nat.le_max_left _ _)] at e
  exact ⟨e, by rw [uadc_length _ _ _ hl, pad_length (Nat.le_max_left _ _)]⟩

/-- `BoxedUint::sbb` on ANY two precisions. -/
theorem bsbb_spec {a b : List Nat} {bw : Nat} (ha : WF a) (hb : WF b) (hbw : bw < B) :
    val (bsbb a b bw).1 + (val b + bw / HALF) =
      val a + B ^ (max a.length b.length) * ((bsbb a b bw).2 / HALF) ∧
    (bsbb a b bw).1.length = max a.length b.length := by
  unfold bsbb
  have hl := max_pad_len a b
  have e := (usbb_spec (pad_WF (n := max a.length b.length) ha) (pad_WF (n := max a.length b.length) hb) hbw hl).1
  rw [val_pad, val_pad, pad_length (Nat.le_max_left _ _)] at e
  exact ⟨e, by rw [usbb_length _ _ _ hl, pad_length (Nat.le_max_left _ _)]⟩

theorem take_append_of_le {l m : List Nat} : (l ++ m).take l.length = l := by
  simp

/-- for a right-hand side that is not wider, the receiver sees its exact value -/
theorem rhsFor_val {self rhs : List Nat} (h : rhs.length ≤ self.length) :
    val (rhsFor self rhs) = val rhs ∧ (rhsFor self rhs).length = self.length := by
  unfold rhsFor
  have hl : (pad self.length rhs).length = self.length := pad_length h
  have : (pad self.length rhs).take self.length = pad self.length rhs :=
    List.take_of_length_le (Nat.le_of_eq hl)
  rw [this, val_pad]
  exact ⟨rfl, hl⟩

theorem rhsFor_WF {self rhs : List Nat} (h : WF rhs) : WF (rhsFor self rhs) := by
  intro x hx
  exact pad_WF h x (List.mem_of_mem_take hx)

theorem rhsFor_length (self rhs : List Nat) : (rhsFor self rhs).length = self.length := by
  unfold rhsFor pad
  simp; omega

end CB
