/-
  CB.Lemmas.C03Api — the API shapes built on a `(lo, hi)` pair: wrapping / checked / saturating /
  widening, stated once for ANY pair that holds an exact product (helper lemmas of property C03).
-/
import CB.Lemmas.C03Mul
namespace CB.Mul

/-- `(lo, hi)` holds the number `P` exactly: `lo` has `n` limbs, `lo + B^n·hi = P`. -/
def ExactPair (p : List Nat × List Nat) (n m P : Nat) : Prop :=
  WF p.1 ∧ WF p.2 ∧ p.1.length = n ∧ p.2.length = m ∧ val p.1 + B ^ n * val p.2 = P

theorem val_eq_zero_iff (l : List Nat) : val l = 0 ↔ ∀ x ∈ l, x = 0 := by
  induction l with
  | nil => simp
  | cons x xs ih =>
    simp only [val_cons, List.mem_cons, forall_eq_or_imp, ← ih]
    constructor
    · intro h
      have hB := B_pos
      have h1 : x = 0 := by omega
      subst h1
      rcases Nat.mul_eq_zero.mp (by simpa using h) with h | h
      · omega
      · exact ⟨rfl, h⟩
    · rintro ⟨h1, h2⟩; simp [h1, h2]

theorem orAll_lt {l : List Nat} (h : WF l) : orAll l < B := by
  induction l with
  | nil => decide
  | cons x xs ih =>
    have ⟨hx, hxs⟩ := WF_cons.mp h
    exact or_lt_B hx (ih hxs)

theorem orAll_eq_zero (l : List Nat) : orAll l = 0 ↔ val l = 0 := by
  rw [val_eq_zero_iff]
  induction l with
  | nil => simp [orAll]
  | cons x xs ih =>
    simp only [orAll, List.mem_cons, forall_eq_or_imp, ← ih]
    exact Nat.or_eq_zero_iff

theorem isNonzero_spec {l : List Nat} (h : WF l) : isNonzero l = mask (decide (val l ≠ 0)) := by
  unfold isNonzero
  rw [fromWordNonzero_spec (orAll_lt h)]
  congr 1
  simp only [ne_eq, orAll_eq_zero]

theorem xorAcc_uzero (l : List Nat) : xorAcc l (uzero l.length) = orAll l := by
  induction l with
  | nil => rfl
  | cons x xs ih =>
    simp only [List.length_cons, uzero_succ, xorAcc, orAll, Nat.xor_zero, ih]

theorem ueq_zero_spec {l : List Nat} (h : WF l) : ueq l (uzero l.length) = mask (decide (val l = 0)) := by
  unfold ueq
  rw [xorAcc_uzero, fromWordNonzero_spec (orAll_lt h), choiceNot_mask]
  congr 1
  simp only [ne_eq, orAll_eq_zero, decide_not, Bool.not_not]

theorem uisZero_spec {l : List Nat} (h : WF l) : uisZero l = mask (decide (val l = 0)) :=
  ueq_zero_spec h

namespace ExactPair
variable {p : List Nat × List Nat} {n m P : Nat}

theorem lo_lt (h : ExactPair p n m P) : val p.1 < B ^ n := val_lt_pow h.1 h.2.2.1

theorem lo_eq (h : ExactPair p n m P) : val p.1 = P % B ^ n := by
  have e := h.2.2.2.2
  rw [← e, Nat.add_mul_mod_self_left, Nat.mod_eq_of_lt h.lo_lt]

theorem hi_eq (h : ExactPair p n m P) : val p.2 = P / B ^ n := by
  have e := h.2.2.2.2
  rw [← e, Nat.add_mul_div_left _ _ (Nat.pow_pos B_pos), Nat.div_eq_of_lt h.lo_lt, Nat.zero_add]

theorem hi_zero_iff (h : ExactPair p n m P) : val p.2 = 0 ↔ P < B ^ n := by
  rw [h.hi_eq]; exact Nat.div_eq_zero_iff_lt (Nat.pow_pos B_pos)

/-- widening / concatenated forms: every limb of the product -/
theorem concat (h : ExactPair p n m P) :
    val (concatPair p) = P ∧ WF (concatPair p) ∧ (concatPair p).length = n + m := by
  unfold concatPair
  refine ⟨by rw [val_append, h.2.2.1]; exact h.2.2.2.2, WF_append.mpr ⟨h.1, h.2.1⟩, ?_⟩
  rw [List.length_append, h.2.2.1, h.2.2.2.1]

/-- wrapping forms: the product mod `2^BITS` -/
theorem wrapping (h : ExactPair p n m P) : val (wrappingOfPair p) = P % B ^ n := h.lo_eq

/-- checked forms (`hi.is_zero()`): `is_some` exactly when the product fits; then the value is it -/
theorem checked (h : ExactPair p n m P) :
    (checkedOfPair p).2 = mask (decide (P < B ^ n)) ∧ (P < B ^ n → val (checkedOfPair p).1 = P) := by
  refine ⟨?_, fun hlt => ?_⟩
  · show uisZero p.2 = _
    rw [uisZero_spec h.2.1]; congr 1; simp only [h.hi_zero_iff]
  · show val p.1 = P
    rw [h.lo_eq, Nat.mod_eq_of_lt hlt]

/-- `checked_square` (`Uint::eq(&hi, &ZERO)`) -/
theorem checkedSquare (h : ExactPair p n m P) :
    (checkedSquareOfPair p).2 = mask (decide (P < B ^ n)) ∧
    (P < B ^ n → val (checkedSquareOfPair p).1 = P) := by
  refine ⟨?_, fun hlt => ?_⟩
  · show ueq p.2 (uzero p.2.length) = _
    rw [ueq_zero_spec h.2.1]; congr 1; simp only [h.hi_zero_iff]
  · show val p.1 = P
    rw [h.lo_eq, Nat.mod_eq_of_lt hlt]

/-- saturating forms: `MAX` exactly on overflow, else the product -/
theorem saturating (h : ExactPair p n m P) : val (saturatingOfPair p) = min P (B ^ n - 1) := by
  unfold saturatingOfPair
  rw [isNonzero_spec h.2.1, uselect_spec _ h.1 (umax_WF _) (by simp [umax])]
  have hm := val_umax p.1.length
  rw [h.2.2.1] at hm
  by_cases hlt : P < B ^ n
  · have : val p.2 = 0 := h.hi_zero_iff.mpr hlt
    simp only [this, ne_eq, not_true_eq_false, decide_false, Bool.false_eq_true, if_false]
    rw [h.lo_eq, Nat.mod_eq_of_lt hlt]; omega
  · have : val p.2 ≠ 0 := fun h0 => hlt (h.hi_zero_iff.mp h0)
    simp only [this, ne_eq, not_false_eq_true, decide_true, if_true]
    rw [h.2.2.1]; omega

end ExactPair

/-- splitting an exact `n + m`-limb product list into `(lo, hi)` -/
theorem exactPair_of_list {l : List Nat} {n m P : Nat} (hW : WF l) (hl : l.length = n + m)
    (hv : val l = P) : ExactPair (l.take n, l.drop n) n m P := by
  have hn : n ≤ l.length := by omega
  refine ⟨WF_take hW n, WF_drop hW n, by simp [List.length_take]; omega, by simp [List.length_drop]; omega, ?_⟩
  have e := val_take_drop l n
  rw [Nat.min_eq_left hn] at e
  simp only
  rw [← e, hv]

end CB.Mul
