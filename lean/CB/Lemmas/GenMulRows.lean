/-
  CB.Lemmas.GenMulRows — the hand-written row model of schoolbook multiplication (`macRowSet`, `schoolRows`,
  `schoolbookMul`, `uintMulLimbs` of CB/Model/Mul.lean, on which T03.2 and everything above it is proved) IS the
  translated source `schoolbook_multiplication` (CB/Gen/MulRows.lean, regenerated from src/uint/mul.rs on every run),
  for EVERY pair of limb counts and every content of the `lo` / `hi` buffers.

  The source writes into two slices `lo` (`lhs.len()` limbs) and `hi` (`rhs.len()` limbs), choosing by
  `if k >= lhs.len() { hi[k - lhs.len()] } else { lo[k] }`; the model works on ONE buffer `lo ++ hi`.  `split_getD` /
  `split_set` say that this addressing is position `k` of `lo ++ hi`.  Then two inductions over the fuel of the translated
  loops (invariant `counter + fuel = bound`, which makes every loop test true):
    inner: after the remaining rounds and the store of the carry at `i + rhs.len()`,
           `lo ++ hi` = (first `i + j` limbs) ++ `macRowSet xi (limbs from i + j on) (rhs from j on) carry`;
    outer: `lo ++ hi` = (first `i` limbs) ++ `schoolRows (lhs from i on) rhs (limbs from i on)`.
  One round of each translated loop is taken from CB/Lemmas/GenBitsMulRows.lean (the only file that reads the generated
  text), one word of the model from `mac_bridge` (GenBitsMul.lean).  No `bv_decide` in this file.
-/
import CB.Lemmas.GenBitsMulRows
import CB.Lemmas.GenChainsSub
import CB.Lemmas.C03Mul
namespace CB.GenMulRows
open CB CB.Gen CB.GenBits CB.GenChains CB.Mul

/-! ## the two-slice addressing is one buffer -/

theorem split_getD (lo hi : List (BitVec 64)) (k : Nat) :
    (if k ≥ lo.length then hi.getD (k - lo.length) 0#64 else lo.getD k 0#64) = (lo ++ hi).getD k 0#64 := by
  simp only [List.getD_eq_getElem?_getD, List.getElem?_append]
  by_cases h : k < lo.length
  · rw [if_neg (by omega), if_pos h]
  · rw [if_pos (by omega), if_neg h]

theorem split_set (lo hi : List (BitVec 64)) (k : Nat) (v : BitVec 64) :
    (if k ≥ lo.length then lo else lo.set k v) ++ (if k ≥ lo.length then hi.set (k - lo.length) v else hi) =
      (lo ++ hi).set k v := by
  rw [List.set_append]
  by_cases h : k < lo.length
  · rw [if_neg (by omega), if_neg (by omega), if_pos h]
  · rw [if_pos (by omega), if_pos (by omega), if_neg h]

theorem macRowSet_length (xi : Nat) (w ys : List Nat) (c : Nat) : (macRowSet xi w ys c).length = w.length := by
  induction w generalizing ys c with
  | nil => simp [macRowSet]
  | cons o os ih =>
    cases ys with
    | nil => simp [macRowSet]
    | cons y ys => simp [macRowSet_cons, ih]

theorem macRowSet_nil_right (xi o : Nat) (os : List Nat) (c : Nat) : macRowSet xi (o :: os) [] c = c :: os := rfl

/-! ## the inner loop -/

/-- the translated inner loop from column `j` with `n` rounds to go, followed by the store of the final carry at position
    `i + rhs.len()`: the first `i + j` limbs of `lo ++ hi` stay, behind them stands the model row -/
theorem inner_bridge (lhs rhs : List (BitVec 64)) (i : Nat) (xi : BitVec 64) :
    ∀ (n j : Nat) (lo hi : List (BitVec 64)) (c : BitVec 64), j + n = rhs.length → lo.length = lhs.length →
      i + rhs.length < lo.length + hi.length →
      (MulRows.schoolbook_multiplication_loop2 lhs rhs i xi n j lo hi c).1.length = lhs.length ∧
      (MulRows.schoolbook_multiplication_loop2 lhs rhs i xi n j lo hi c).2.1.length = hi.length ∧
      nats (((MulRows.schoolbook_multiplication_loop2 lhs rhs i xi n j lo hi c).1 ++
             (MulRows.schoolbook_multiplication_loop2 lhs rhs i xi n j lo hi c).2.1).set (i + rhs.length)
             (MulRows.schoolbook_multiplication_loop2 lhs rhs i xi n j lo hi c).2.2) =
        nats ((lo ++ hi).take (i + j)) ++
          macRowSet xi.toNat (nats ((lo ++ hi).drop (i + j))) (nats (rhs.drop j)) c.toNat := by
  intro n
  induction n with
  | zero =>
    intro j lo hi c hj hl hb
    have hj' : j = rhs.length := by omega
    subst hj'
    rw [mul_inner_zero]
    refine ⟨hl, rfl, ?_⟩
    have hlen : i + rhs.length < (lo ++ hi).length := by simpa using hb
    rw [List.drop_of_length_le (Nat.le_refl _), List.set_eq_take_append_cons_drop, if_pos hlen]
    have hd : (lo ++ hi).drop (i + rhs.length) =
        (lo ++ hi).getD (i + rhs.length) 0#64 :: (lo ++ hi).drop (i + rhs.length + 1) :=
      drop_eq_getD_cons _ _ hlen
    rw [hd]
    simp only [nats, List.map_append, List.map_cons, List.map_nil, macRowSet_nil_right]
  | succ n ih =>
    intro j lo hi c hj hl hb
    have hj' : j < rhs.length := by omega
    have hlen : i + j < (lo ++ hi).length := by simp only [List.length_append]; omega
    -- one round of the source, on whichever slice holds position `i + j`, is one `mac` at position `i + j` of `lo ++ hi`
    have round : ∃ lo' hi', lo'.length = lhs.length ∧ hi'.length = hi.length ∧
        lo' ++ hi' = (lo ++ hi).set (i + j) (Prim.mac ((lo ++ hi).getD (i + j) 0#64) xi (rhs.getD j 0#64) c).1 ∧
        MulRows.schoolbook_multiplication_loop2 lhs rhs i xi (n + 1) j lo hi c =
          MulRows.schoolbook_multiplication_loop2 lhs rhs i xi n (j + 1) lo' hi'
            (Prim.mac ((lo ++ hi).getD (i + j) 0#64) xi (rhs.getD j 0#64) c).2 := by
      have hg := split_getD lo hi (i + j)
      by_cases hk : i + j ≥ lhs.length
      · have hk' : i + j ≥ lo.length := by omega
        rw [if_pos hk'] at hg
        have hs := split_set lo hi (i + j) (Prim.mac ((lo ++ hi).getD (i + j) 0#64) xi (rhs.getD j 0#64) c).1
        rw [if_pos hk', if_pos hk'] at hs
        refine ⟨lo, hi.set (i + j - lo.length) _, hl, by simp, hs, ?_⟩
        rw [mul_inner_succ_hi lhs rhs i xi n j lo hi c hj' hk, ← hl, hg]
      · have hk' : ¬ i + j ≥ lo.length := by omega
        rw [if_neg hk'] at hg
        have hs := split_set lo hi (i + j) (Prim.mac ((lo ++ hi).getD (i + j) 0#64) xi (rhs.getD j 0#64) c).1
        rw [if_neg hk', if_neg hk'] at hs
        refine ⟨lo.set (i + j) _, hi, by simpa using hl, rfl, hs, ?_⟩
        rw [mul_inner_succ_lo lhs rhs i xi n j lo hi c hj' hk, hg]
    obtain ⟨lo', hi', hl', hh', hset, hround⟩ := round
    obtain ⟨ih1, ih2, ih3⟩ := ih (j + 1) lo' hi' (Prim.mac ((lo ++ hi).getD (i + j) 0#64) xi (rhs.getD j 0#64) c).2
      (by omega) hl' (by omega)
    rw [hround]
    refine ⟨ih1, by rw [ih2, hh'], ?_⟩
    rw [ih3, hset, drop_eq_getD_cons (lo ++ hi) (i + j) hlen, drop_eq_getD_cons rhs j hj',
      ← Nat.add_assoc, take_set_succ (lo ++ hi) (i + j) _ hlen, List.drop_set_of_lt (by omega)]
    simp only [nats, List.map_cons, List.map_append, List.map_nil, macRowSet_cons, mac_bridge,
      List.append_assoc, List.cons_append, List.nil_append]

/-! ## the outer loop -/

theorem outer_bridge (lhs rhs : List (BitVec 64)) :
    ∀ (n i : Nat) (lo hi : List (BitVec 64)), i + n = lhs.length → lo.length = lhs.length → hi.length = rhs.length →
      (MulRows.schoolbook_multiplication_loop1 lhs rhs n i lo hi).1.length = lhs.length ∧
      (MulRows.schoolbook_multiplication_loop1 lhs rhs n i lo hi).2.length = rhs.length ∧
      nats ((MulRows.schoolbook_multiplication_loop1 lhs rhs n i lo hi).1 ++
            (MulRows.schoolbook_multiplication_loop1 lhs rhs n i lo hi).2) =
        nats ((lo ++ hi).take i) ++ schoolRows (nats (lhs.drop i)) (nats rhs) (nats ((lo ++ hi).drop i)) := by
  intro n
  induction n with
  | zero =>
    intro i lo hi hi' hl hh
    have : i = lhs.length := by omega
    subst this
    rw [mul_outer_zero, List.drop_of_length_le (Nat.le_refl _)]
    refine ⟨hl, hh, ?_⟩
    simp only [nats, List.map_nil, schoolRows, ← List.map_append, List.take_append_drop]
  | succ n ih =>
    intro i lo hi hi' hl hh
    have hi'' : i < lhs.length := by omega
    obtain ⟨r1, r2, r3⟩ := inner_bridge lhs rhs i (lhs.getD i 0#64) rhs.length 0 lo hi 0#64 (by omega) hl (by omega)
    rw [mul_outer_succ lhs rhs n i lo hi hi'']
    generalize MulRows.schoolbook_multiplication_loop2 lhs rhs i (lhs.getD i 0#64) rhs.length 0 lo hi 0#64 = R at r1 r2 r3 ⊢
    have hs := split_set R.1 R.2.1 (i + rhs.length) R.2.2
    rw [r1] at hs
    have hlo : (if i + rhs.length ≥ lhs.length then R.1 else R.1.set (i + rhs.length) R.2.2).length = lhs.length := by
      split <;> simp [r1]
    have hhi : (if i + rhs.length ≥ lhs.length then R.2.1.set (i + rhs.length - lhs.length) R.2.2 else R.2.1).length =
        rhs.length := by
      split <;> simp [r2, hh]
    obtain ⟨j1, j2, j3⟩ := ih (i + 1) _ _ (by omega) hlo hhi
    refine ⟨j1, j2, ?_⟩
    rw [j3, hs]
    simp only [Nat.add_zero, List.drop_zero] at r3
    -- the buffer after the row: first `i` limbs, then the model row `M` (non-empty)
    have hM := macRowSet_length (lhs.getD i 0#64).toNat (nats ((lo ++ hi).drop i)) (nats rhs) (0#64 : BitVec 64).toNat
    have hdl : (nats ((lo ++ hi).drop i)).length = lhs.length + rhs.length - i := by
      simp [nats, hl, hh]
    rw [drop_eq_getD_cons lhs i hi'']
    simp only [nats, List.map_cons] at r3 hM hdl ⊢
    rw [schoolRows_cons]
    have e0 : (0#64 : BitVec 64).toNat = 0 := rfl
    rw [e0] at r3 hM
    generalize macRowSet (lhs.getD i 0#64).toNat (List.map BitVec.toNat ((lo ++ hi).drop i)) (List.map BitVec.toNat rhs)
      0 = M at r3 hM ⊢
    cases M with
    | nil => simp only [List.length_nil] at hM; omega
    | cons o os =>
      have hT : (List.map BitVec.toNat ((lo ++ hi).take i)).length = i := by
        simp only [List.length_map, List.length_take, List.length_append, hl, hh]; omega
      simp only [List.map_take, List.map_drop, r3] at hT ⊢
      generalize List.take i (List.map BitVec.toNat (lo ++ hi)) = T at hT ⊢
      subst hT
      rw [List.take_length_add_append, List.drop_length_add_append]
      simp only [List.take_succ_cons, List.take_zero, List.drop_succ_cons, List.drop_zero, List.append_assoc,
        List.cons_append, List.nil_append]

/-! ## the function: `schoolbook_multiplication`, `uint_mul_limbs`' use of it -/

/-- **`schoolbook_multiplication`** on ANY buffers of the lengths the source insists on (it panics unless
    `lo.len() == lhs.len()` and `hi.len() == rhs.len()`): the model's rows on the one buffer `lo ++ hi` are the
    translated source, for every pair of limb counts -/
theorem schoolRows_bridge (a b lo hi : List (BitVec 64)) (hl : lo.length = a.length) (hh : hi.length = b.length) :
    schoolRows (nats a) (nats b) (nats (lo ++ hi)) =
        nats ((MulRows.schoolbook_multiplication a b lo hi).1 ++ (MulRows.schoolbook_multiplication a b lo hi).2) ∧
      (MulRows.schoolbook_multiplication a b lo hi).1.length = a.length ∧
      (MulRows.schoolbook_multiplication a b lo hi).2.length = b.length := by
  obtain ⟨h1, h2, h3⟩ := outer_bridge a b a.length 0 lo hi (by omega) hl hh
  rw [schoolbook_multiplication_eq_loop]
  refine ⟨?_, h1, h2⟩
  rw [h3]
  simp only [List.take_zero, List.drop_zero, nats, List.map_nil, List.nil_append]

/-- on zeroed `lo` / `hi` (how `uint_mul_limbs` and `mul_limbs` call it): the model's `schoolbookMul` -/
theorem schoolbookMul_bridge (a b : List (BitVec 64)) :
    schoolbookMul (nats a) (nats b) =
      nats ((MulRows.schoolbook_multiplication a b (List.replicate a.length 0#64) (List.replicate b.length 0#64)).1 ++
            (MulRows.schoolbook_multiplication a b (List.replicate a.length 0#64) (List.replicate b.length 0#64)).2) := by
  obtain ⟨h1, _, _⟩ := schoolRows_bridge a b (List.replicate a.length 0#64) (List.replicate b.length 0#64)
    (by simp) (by simp)
  rw [← h1, schoolbookMul]
  congr 1
  simp only [nats, uzero, List.map_replicate, List.length_map, List.replicate_append_replicate]
  rfl

/-- the `(lo, hi)` pair of the model's `uintMulLimbs` is the pair the translated source returns -/
theorem uintMulLimbs_bridge (a b : List (BitVec 64)) :
    uintMulLimbs (nats a) (nats b) =
      (nats (MulRows.schoolbook_multiplication a b (List.replicate a.length 0#64) (List.replicate b.length 0#64)).1,
       nats (MulRows.schoolbook_multiplication a b (List.replicate a.length 0#64) (List.replicate b.length 0#64)).2) := by
  obtain ⟨_, h2, _⟩ := schoolRows_bridge a b (List.replicate a.length 0#64) (List.replicate b.length 0#64)
    (by simp) (by simp)
  rw [uintMulLimbs, schoolbookMul_bridge]
  generalize MulRows.schoolbook_multiplication a b (List.replicate a.length 0#64) (List.replicate b.length 0#64) = R at h2 ⊢
  have hn : (nats R.1).length = (nats a).length := by simp [nats, h2]
  simp only [nats, List.map_append] at hn ⊢
  rw [List.take_left' hn, List.drop_left' hn]

/-! ## `impl Limb` (src/limb/mul.rs): the model's word multiplications are the translated source -/

theorem limbWrappingMul_bridge (a b : BitVec 64) :
    limbWrappingMul a.toNat b.toNat = (MulRows.Limb.wrapping_mul a b).toNat := by
  rw [limb_wrapping_mul_eq, limbWrappingMul, wmul, BitVec.toNat_mul]
  rfl

theorem limbMulWide_bridge (a b : BitVec 64) :
    CB.mulWide a.toNat b.toNat = ((MulRows.Limb.mul_wide a b).1.toNat, (MulRows.Limb.mul_wide a b).2.toNat) := by
  rw [limb_mul_wide_eq]
  exact mulWide_bridge a b

theorem limbSaturatingMul_bridge (a b : BitVec 64) :
    limbSaturatingMul a.toNat b.toNat = (MulRows.Limb.saturating_mul a b).toNat := by
  rw [limb_saturating_mul_eq, limbSaturatingMul]
  have ha := a.isLt; have hb := b.isLt
  have hp : a.toNat * b.toNat < 2 ^ 128 := by
    have := Nat.mul_lt_mul'' ha hb
    simpa [← Nat.pow_add] using this
  have hs : ((a.setWidth 128 * b.setWidth 128) >>> 64 == 0#128) = decide (a.toNat * b.toNat < B) := by
    rw [Bool.eq_iff_iff, beq_iff_eq, decide_eq_true_iff, ← BitVec.toNat_inj]
    simp only [BitVec.toNat_ushiftRight, BitVec.toNat_mul, BitVec.toNat_setWidth, BitVec.toNat_ofNat,
      Nat.mod_eq_of_lt (Nat.lt_trans ha (by decide : 2 ^ 64 < 2 ^ 128)),
      Nat.mod_eq_of_lt (Nat.lt_trans hb (by decide : 2 ^ 64 < 2 ^ 128)), Nat.mod_eq_of_lt hp, Nat.shiftRight_eq_div_pow,
      B_def]
    omega
  rw [hs]
  by_cases h : a.toNat * b.toNat < B
  · simp only [h, decide_true, if_true, BitVec.toNat_mul]
    rw [B_def] at h
    exact (Nat.mod_eq_of_lt h).symm
  · simp only [h, decide_false, if_false]
    simp [WMAX_def]

end CB.GenMulRows
