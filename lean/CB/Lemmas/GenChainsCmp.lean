/-
  CB.Lemmas.GenChainsCmp — the hand-written model of the comparisons (`orAll`/`isNonzero`, `xorAcc`/`ueq`, `ult`, `ugt`,
  `ulte` of CB/Model/Uint.lean) IS the translated source (CB/Gen/Chains.lean, regenerated from src/uint/cmp.rs and
  src/uint/sub.rs on every run), for EVERY limb count.  Method: see CB/Lemmas/GenChainsSub.lean.  No `bv_decide` here.
-/
import CB.Lemmas.GenChainsSub
import CB.Lemmas.GenBitsChainsCmp
namespace CB.GenChains
open CB CB.Gen CB.Gen.Chains CB.GenBits

/-! ## `Uint::is_nonzero`, `Uint::eq`, `Uint::lt`, `Uint::gt`, `Uint::lte` -/

theorem is_nonzero_loop_bridge (L : Nat) (a : List (BitVec 64)) (ha : a.length = L) :
    ∀ (n i : Nat) (acc : BitVec 64), i + n = L →
      (Uint.is_nonzero_loop1 L a n i acc).toNat = acc.toNat ||| orAll (nats (a.drop i)) := by
  intro n
  induction n with
  | zero =>
    intro i acc hi
    rw [is_nonzero_loop_zero, List.drop_of_length_le (by omega)]
    simp [nats, orAll]
  | succ n ih =>
    intro i acc hi
    have hi' : i < L := by omega
    rw [is_nonzero_loop_succ L a n i acc hi', ih (i + 1) _ (by omega), drop_eq_getD_cons a i (by omega)]
    simp only [nats, List.map_cons, orAll, BitVec.toNat_or, Nat.or_assoc]

/-- **`Uint::is_nonzero`** -/
theorem isNonzero_bridge (a : List (BitVec 64)) :
    isNonzero (nats a) = (Uint.is_nonzero a.length a).toNat := by
  have h := is_nonzero_loop_bridge a.length a rfl a.length 0 0#64 (by omega)
  rw [is_nonzero_eq_loop, isNonzero, ← fromWordNonzero_bridge, h]
  simp

theorem eq_loop_bridge (L : Nat) (a b : List (BitVec 64)) (ha : a.length = L) (hb : b.length = L) :
    ∀ (n i : Nat) (acc : BitVec 64), i + n = L →
      (Uint.eq_loop1 L a b n i acc).toNat = acc.toNat ||| xorAcc (nats (a.drop i)) (nats (b.drop i)) := by
  intro n
  induction n with
  | zero =>
    intro i acc hi
    rw [eq_loop_zero, List.drop_of_length_le (by omega), List.drop_of_length_le (by omega)]
    simp [nats, xorAcc]
  | succ n ih =>
    intro i acc hi
    have hi' : i < L := by omega
    rw [eq_loop_succ L a b n i acc hi', ih (i + 1) _ (by omega), drop_eq_getD_cons a i (by omega),
      drop_eq_getD_cons b i (by omega)]
    simp only [nats, List.map_cons, xorAcc, BitVec.toNat_or, BitVec.toNat_xor, Nat.or_assoc]

/-- **`Uint::eq`** -/
theorem ueq_bridge (a b : List (BitVec 64)) (h : a.length = b.length) :
    ueq (nats a) (nats b) = (Uint.eq a.length a b).toNat := by
  have hl := eq_loop_bridge a.length a b rfl h.symm a.length 0 0#64 (by omega)
  rw [eq_eq_loop, ueq, ← choiceNot_bridge, ← fromWordNonzero_bridge, hl]
  simp

/-- **`Uint::lt`** (the borrow chain) -/
theorem ult_bridge (a b : List (BitVec 64)) (h : a.length = b.length) :
    ult (nats a) (nats b) = (Uint.lt a.length a b).toNat := by
  rw [lt_eq, ult, ← fromWordMask_bridge]
  exact congrArg (fun p => fromWordMask p.2) (usbb_bridge a b 0#64 h)

/-- **`Uint::gt`** -/
theorem ugt_bridge (a b : List (BitVec 64)) (h : a.length = b.length) :
    ugt (nats a) (nats b) = (Uint.gt a.length a b).toNat := by
  rw [gt_eq, ugt, ← fromWordMask_bridge]
  have := usbb_bridge b a 0#64 h.symm
  rw [← h] at this
  exact congrArg (fun p => fromWordMask p.2) this

/-- **`Uint::lte`** -/
theorem ulte_bridge (a b : List (BitVec 64)) (h : a.length = b.length) :
    ulte (nats a) (nats b) = (Uint.lte a.length a b).toNat := by
  rw [lte_eq, ulte, ← choiceNot_bridge, ugt_bridge a b h]

end CB.GenChains
