/-
  CB.Lemmas.C16Boxed — `BoxedUint::from_{be,le}_slice`: chunked limb assembly = positional value;
  error kinds; widen / shorten.
-/
import CB.Lemmas.C16Bytes
namespace CB.Encoding

/-! ### slice::chunks(8) -/

theorem chunksFuel_succ_cons (f : Nat) (b : Nat) (bs : List Nat) :
    chunksFuel (f + 1) (b :: bs) = (b :: bs).take 8 :: chunksFuel f ((b :: bs).drop 8) := rfl

theorem chunksFuel_nil (f : Nat) : chunksFuel f [] = [] := by
  cases f <;> rfl

/-- value of the per-chunk little-endian words = little-endian value of the whole string -/
theorem val_chunksFuel (f : Nat) (bs : List Nat) (hf : bs.length ≤ f) :
    val ((chunksFuel f bs).map leVal) = leVal bs := by
  induction f generalizing bs with
  | zero =>
    have : bs = [] := List.eq_nil_of_length_eq_zero (by omega)
    subst this; rfl
  | succ f ih =>
    cases bs with
    | nil => rfl
    | cons b bs =>
      rw [chunksFuel_succ_cons, List.map_cons, val_cons,
        ih _ (by simp only [List.length_drop, List.length_cons] at *; omega)]
      have e : leVal (b :: bs) = leVal ((b :: bs).take 8 ++ (b :: bs).drop 8) := by
        rw [List.take_append_drop]
      rw [e]
      simp only [leVal, digitsVal_append]
      by_cases h8 : 8 ≤ (b :: bs).length
      · have : ((b :: bs).take 8).length = 8 := by rw [List.length_take]; omega
        rw [this, B_eq_256]
      · have : (b :: bs).drop 8 = [] := List.drop_eq_nil_of_le (by omega)
        rw [this]; simp

theorem WF_chunksFuel (f : Nat) (bs : List Nat) (hb : Bytes bs) : WF ((chunksFuel f bs).map leVal) := by
  induction f generalizing bs with
  | zero => exact WF_nil
  | succ f ih =>
    cases bs with
    | nil => exact WF_nil
    | cons b bs =>
      rw [chunksFuel_succ_cons, List.map_cons]
      exact WF_cons.mpr ⟨leVal_lt_B (Bytes_take hb 8) (by rw [List.length_take]; omega), ih _ (Bytes_drop hb 8)⟩

theorem chunksFuel_length (f : Nat) (bs : List Nat) (hf : bs.length ≤ f) :
    (chunksFuel f bs).length = (bs.length + 7) / 8 := by
  induction f generalizing bs with
  | zero =>
    have : bs = [] := List.eq_nil_of_length_eq_zero (by omega)
    subst this; rfl
  | succ f ih =>
    cases bs with
    | nil => rfl
    | cons b bs =>
      rw [chunksFuel_succ_cons, List.length_cons,
        ih _ (by simp only [List.length_drop, List.length_cons] at *; omega)]
      simp only [List.length_drop, List.length_cons]
      omega

theorem chunksFuel_mem_length (f : Nat) (bs : List Nat) : ∀ c ∈ chunksFuel f bs, c.length ≤ 8 := by
  induction f generalizing bs with
  | zero => intro c hc; cases hc
  | succ f ih =>
    cases bs with
    | nil => intro c hc; cases hc
    | cons b bs =>
      intro c hc
      rw [chunksFuel_succ_cons] at hc
      cases hc with
      | head => rw [List.length_take]; omega
      | tail _ hc => exact ih _ c hc

/-! ### Limb::from_{be,le}_slice -/

theorem leVal_append_zeros (c : List Nat) (k : Nat) : leVal (c ++ List.replicate k 0) = leVal c := by
  simp [leVal, digitsVal_append, digitsVal_replicate_zero]

theorem limbFromLeSlice_eq (c : List Nat) : limbFromLeSlice c = leVal c := by
  simp [limbFromLeSlice, wordFromLeBytes, leVal_append_zeros]

theorem limbFromBeSlice_eq (c : List Nat) : limbFromBeSlice c = leVal c.reverse := by
  simp [limbFromBeSlice, wordFromBeBytes, List.reverse_append, leVal_append_zeros]

theorem map_limbFromBe_rchunks (bs : List Nat) :
    (sliceRChunks8 bs).map limbFromBeSlice = (sliceChunks8 bs.reverse).map leVal := by
  unfold sliceRChunks8
  rw [List.map_map]
  apply List.map_congr_left
  intro c _
  simp [limbFromBeSlice_eq]

theorem map_limbFromLe_chunks (bs : List Nat) :
    (sliceChunks8 bs).map limbFromLeSlice = (sliceChunks8 bs).map leVal := by
  apply List.map_congr_left
  intro c _
  exact limbFromLeSlice_eq c

/-! ### zipSet into a zeroed limb vector -/

theorem zipSet_zeros (vs : List Nat) (n : Nat) (h : vs.length ≤ n) :
    zipSet vs (List.replicate n 0) = vs ++ List.replicate (n - vs.length) 0 := by
  induction vs generalizing n with
  | nil => cases n <;> simp [zipSet]
  | cons v vs ih =>
    cases n with
    | zero => simp at h
    | succ n =>
      rw [List.replicate_succ]
      show v :: zipSet vs (List.replicate n 0) = _
      rw [ih n (by simpa using h)]
      simp

theorem zeroWithPrecision_eq (bp : Nat) :
    zeroWithPrecision bp = List.replicate (max 1 ((bp + 63) / 64)) 0 := by
  unfold zeroWithPrecision boxedOfVec limbsForPrecision
  by_cases h : (bp + 63) / 64 = 0
  · rw [h]; rfl
  · have : max 1 ((bp + 63) / 64) = (bp + 63) / 64 := by omega
    rw [this]
    cases hh : (bp + 63) / 64 with
    | zero => exact absurd hh h
    | succ m => rfl

theorem bitLen_gt_iff (bp x : Nat) : bp < bitLen x ↔ 2 ^ bp ≤ x := by
  unfold bitLen
  by_cases hx : x = 0
  · subst hx
    simp
  · rw [if_neg hx]
    rw [show bp < Nat.log2 x + 1 ↔ bp ≤ Nat.log2 x from Nat.lt_succ_iff]
    exact Nat.le_log2 hx

/-- common core of both boxed slice decoders, on the little-endian byte string `r` -/
theorem boxed_core (r : List Nat) (bp : Nat) (hb : Bytes r) (hlen : r.length ≤ (bp + 7) / 8) :
    let ret := zipSet ((sliceChunks8 r).map leVal) (zeroWithPrecision bp)
    val ret = leVal r ∧ WF ret ∧ ret.length = max 1 ((bp + 63) / 64) := by
  intro ret
  have hc : ((sliceChunks8 r).map leVal).length ≤ max 1 ((bp + 63) / 64) := by
    rw [List.length_map]
    unfold sliceChunks8
    rw [chunksFuel_length _ _ (Nat.le_refl _)]
    omega
  have e : ret = (sliceChunks8 r).map leVal ++
      List.replicate (max 1 ((bp + 63) / 64) - ((sliceChunks8 r).map leVal).length) 0 := by
    show zipSet _ _ = _
    rw [zeroWithPrecision_eq, zipSet_zeros _ _ hc]
  refine ⟨?_, ?_, ?_⟩
  · rw [e, val_append, val_replicate_zero, Nat.mul_zero, Nat.add_zero]
    exact val_chunksFuel _ _ (Nat.le_refl _)
  · rw [e]
    exact WF_append.mpr ⟨WF_chunksFuel _ _ hb, WF_replicate B_pos⟩
  · rw [e, List.length_append, List.length_replicate]
    omega

/-- **`BoxedUint::from_le_slice` = spec on the little-endian value** -/
theorem boxedFromLeSlice_spec (bytes : List Nat) (bp : Nat) (hb : Bytes bytes) :
    boxedFromLeSlice bytes bp =
      boxedOfSpec (specBoxedDecode bytes.length bp (leVal bytes)) := by
  unfold boxedOfSpec boxedFromLeSlice specBoxedDecode
  by_cases h0 : bytes.isEmpty = true ∧ bp = 0
  · obtain ⟨he, rfl⟩ := h0
    have : bytes = [] := List.isEmpty_iff.mp he
    subst this
    rw [if_pos ⟨rfl, rfl⟩]
    rfl
  · rw [if_neg h0]
    by_cases h1 : bytes.length > (bp + 7) / 8
    · rw [if_pos h1, if_pos h1]
    · rw [if_neg h1, if_neg h1]
      rw [map_limbFromLe_chunks]
      have ⟨hv, hwf, hl⟩ := boxed_core bytes bp hb (by omega)
      simp only
      rw [hv]
      by_cases h2 : 2 ^ bp ≤ leVal bytes
      · rw [if_pos ((bitLen_gt_iff _ _).mpr h2), if_pos h2]
      · rw [if_neg (mt (bitLen_gt_iff _ _).mp h2), if_neg (by omega)]
        simp only
        congr 1
        exact eq_toLimbs hwf hl hv

/-- **`BoxedUint::from_be_slice` = spec on the big-endian value** -/
theorem boxedFromBeSlice_spec (bytes : List Nat) (bp : Nat) (hb : Bytes bytes) :
    boxedFromBeSlice bytes bp =
      boxedOfSpec (specBoxedDecode bytes.length bp (beVal bytes)) := by
  unfold boxedOfSpec boxedFromBeSlice specBoxedDecode
  by_cases h0 : bytes.isEmpty = true ∧ bp = 0
  · obtain ⟨he, rfl⟩ := h0
    have : bytes = [] := List.isEmpty_iff.mp he
    subst this
    rw [if_pos ⟨rfl, rfl⟩]
    rfl
  · rw [if_neg h0]
    by_cases h1 : bytes.length > (bp + 7) / 8
    · rw [if_pos h1, if_pos h1]
    · rw [if_neg h1, if_neg h1]
      rw [map_limbFromBe_rchunks, beVal_eq]
      have ⟨hv, hwf, hl⟩ := boxed_core bytes.reverse bp (Bytes_reverse.mpr hb) (by simp; omega)
      simp only
      rw [hv]
      by_cases h2 : 2 ^ bp ≤ leVal bytes.reverse
      · rw [if_pos ((bitLen_gt_iff _ _).mpr h2), if_pos h2]
      · rw [if_neg (mt (bitLen_gt_iff _ _).mp h2), if_neg (by omega)]
        simp only
        congr 1
        exact eq_toLimbs hwf hl hv

/-! ### widen / shorten -/

theorem boxedWiden_spec {l : List Nat} (h : WF l) (hl : 1 ≤ l.length) (bp : Nat) :
    boxedWiden l bp = if bp ≥ 64 * l.length
      then some (toLimbs (max 1 ((bp + 63) / 64)) (val l)) else none := by
  unfold boxedWiden
  by_cases hb : bp ≥ 64 * l.length
  · rw [if_pos hb, if_pos hb]
    simp only
    congr 1
    rw [zeroWithPrecision_eq, List.drop_replicate]
    have hge : l.length ≤ max 1 ((bp + 63) / 64) := by omega
    apply eq_toLimbs (WF_append.mpr ⟨h, WF_replicate B_pos⟩)
    · rw [List.length_append, List.length_replicate]; omega
    · rw [val_append, val_replicate_zero, Nat.mul_zero, Nat.add_zero]
  · rw [if_neg hb, if_neg hb]

theorem boxedShorten_spec {l : List Nat} (h : WF l) (hl : 1 ≤ l.length) (bp : Nat) :
    boxedShorten l bp = if bp ≤ 64 * l.length
      then some (toLimbs (max 1 ((bp + 63) / 64)) (val l % B ^ (max 1 ((bp + 63) / 64)))) else none := by
  unfold boxedShorten
  by_cases hb : bp ≤ 64 * l.length
  · rw [if_pos hb, if_pos hb]
    simp only
    rw [zeroWithPrecision_eq, List.length_replicate]
    have hge : max 1 ((bp + 63) / 64) ≤ l.length := by omega
    rw [if_pos hge]
    congr 1
    apply eq_toLimbs (WF_take h _)
    · rw [List.length_take]; omega
    · exact val_take l _ h
  · rw [if_neg hb, if_neg hb]

end CB.Encoding
