/-
  CB.Lemmas.GenDivLimbVartime — the hand-written model of the private sub-limb shifts of `div_rem_vartime`
  (`shlVtLoop`/`shlLimbVartime`, `shrVtLoop`/`shrLimbVartime` of CB/Model/Div.lean — what `shlLimbVartime_full/_low`,
  `shrLimbVartime_low` of CB/Lemmas/C02Knuth.lean are proved about) IS the translated source
  (`Uint::shl_limb_vartime`, `Uint::shr_limb_vartime` of src/uint/div.rs, CB/Gen/DivLimbLoops.lean, namespace
  `CB.Gen.DivLimbLoops.Vartime`), for EVERY limb count `L`, every `1 ≤ limbs_num ≤ L` and every shift below 64.

  Both sides are compared position by position (`l[j]?`): the translated loops write into a zeroed array (`shl`: from
  `limbs_num - 1` DOWN to 1, then position 0; `shr`: from 0 UP to `limbs_num - 2`, then position `limbs_num - 1`), the
  model builds the list head first.  One round of a translated loop is taken from CB/Lemmas/GenBitsDivLimbLoops.lean.
  No `bv_decide` in this file.
-/
import CB.Lemmas.GenDivLimbLoops
import CB.Lemmas.C02Knuth
namespace CB.GenDivLimbVartime
open CB CB.Div CB.Gen CB.GenBits CB.GenShifts

/-! ## list / word facts -/

theorem getD_toNat (a : List (BitVec 64)) (j : Nat) : (a.getD j 0#64).toNat = (nats a).getD j 0 := by
  simp only [List.getD_eq_getElem?_getD, nats, List.getElem?_map]
  cases a[j]? <;> rfl

theorem getD_take {α : Type} (xs : List α) (k j : Nat) (d : α) (h : j < k) : (xs.take k).getD j d = xs.getD j d := by
  simp only [List.getD_eq_getElem?_getD, List.getElem?_take, if_pos h]

theorem shl_toNat (x : BitVec 64) (s : BitVec 32) (hs : s.toNat < 64) :
    (x <<< (s % 64#32)).toNat = (x.toNat <<< s.toNat) % B := by
  rw [BitVec.shiftLeft_eq', BitVec.toNat_shiftLeft, mod64_toNat, Nat.mod_eq_of_lt hs, B_eq_pow]

theorem shr_toNat (x : BitVec 64) (s : BitVec 32) (hs : s.toNat < 64) :
    (x >>> (s % 64#32)).toNat = x.toNat >>> s.toNat := by
  rw [BitVec.ushiftRight_eq', BitVec.toNat_ushiftRight, mod64_toNat, Nat.mod_eq_of_lt hs]

theorem sub64_toNat (s : BitVec 32) (hs : s.toNat < 64) : (64#32 - s).toNat = 64 - s.toNat := by
  rw [BitVec.toNat_sub]
  have : (64#32 : BitVec 32).toNat = 64 := rfl
  rw [this]; omega

/-! ## the model, position by position -/

theorem shlVtLoop_length (l r : Nat) : ∀ (xs : List Nat) (prev : Nat), (shlVtLoop l r prev xs).length = xs.length
  | [], _ => rfl
  | x :: xs, _ => by simp [shlVtLoop, shlVtLoop_length l r xs x]

theorem shlVtLoop_getElem? (l r : Nat) : ∀ (xs : List Nat) (prev j : Nat),
    (shlVtLoop l r prev xs)[j]? =
      if j < xs.length then
        some ((((xs.getD j 0) <<< l) % B) ||| ((if j = 0 then prev else xs.getD (j - 1) 0) >>> r))
      else none
  | [], prev, j => by simp [shlVtLoop]
  | x :: xs, prev, 0 => by simp [shlVtLoop]
  | x :: xs, prev, j + 1 => by
    have ih := shlVtLoop_getElem? l r xs x j
    simp only [shlVtLoop, List.getElem?_cons_succ, ih, List.length_cons, Nat.add_lt_add_iff_right,
      List.getD_cons_succ, Nat.add_sub_cancel]
    have e : (if j = 0 then x else xs.getD (j - 1) 0) = (x :: xs).getD j 0 := by
      cases j with
      | zero => rfl
      | succ i => simp
    rw [e]
    simp

theorem shlLimbVartime_fst_getElem? (xs : List Nat) (s k j : Nat) (hs0 : s ≠ 0) (hk : k ≤ xs.length) :
    ((shlLimbVartime xs s k).1)[j]? =
      if j < k then some ((((xs.getD j 0) <<< s) % B) ||| ((if j = 0 then 0 else xs.getD (j - 1) 0) >>> (64 - s)))
      else if j < xs.length then some 0 else none := by
  unfold shlLimbVartime
  rw [if_neg hs0]
  simp only []
  rw [List.getElem?_append, shlVtLoop_length, List.length_take, Nat.min_eq_left hk, shlVtLoop_getElem?,
    List.length_take, Nat.min_eq_left hk]
  by_cases h : j < k
  · rw [if_pos h, if_pos h, if_pos h, getD_take _ _ _ _ h]
    by_cases hj : j = 0
    · rw [if_pos hj, if_pos hj]
    · rw [if_neg hj, if_neg hj, getD_take _ _ _ _ (by omega)]
  · rw [if_neg h, if_neg h]
    unfold zeros
    rw [List.getElem?_replicate]
    by_cases h2 : j < xs.length
    · rw [if_pos (by omega), if_pos h2]
    · rw [if_neg (by omega), if_neg h2]

theorem shrVtLoop_length (l r : Nat) : ∀ (xs : List Nat), (shrVtLoop l r xs).length = xs.length
  | [] => rfl
  | [x] => rfl
  | x :: x' :: xs => by
    have ih := shrVtLoop_length l r (x' :: xs)
    simp only [shrVtLoop, List.length_cons] at ih ⊢
    omega

theorem shrVtLoop_getElem? (l r : Nat) : ∀ (xs : List Nat) (j : Nat),
    (shrVtLoop l r xs)[j]? =
      if j < xs.length then
        some (if j + 1 < xs.length then ((xs.getD j 0) >>> r) ||| (((xs.getD (j + 1) 0) <<< l) % B) else (xs.getD j 0) >>> r)
      else none
  | [], j => by simp [shrVtLoop]
  | [x], 0 => by simp [shrVtLoop]
  | [x], j + 1 => by simp [shrVtLoop]
  | x :: x' :: xs, 0 => by simp [shrVtLoop]
  | x :: x' :: xs, j + 1 => by
    have ih := shrVtLoop_getElem? l r (x' :: xs) j
    simp only [shrVtLoop, List.getElem?_cons_succ, ih, List.length_cons, Nat.add_lt_add_iff_right, List.getD_cons_succ]

theorem shrLimbVartime_getElem? (xs : List Nat) (s k j : Nat) (hs0 : s ≠ 0) (hk : k ≤ xs.length) :
    (shrLimbVartime xs s k)[j]? =
      if j < k then
        some (if j + 1 < k then ((xs.getD j 0) >>> s) ||| (((xs.getD (j + 1) 0) <<< (64 - s)) % B) else (xs.getD j 0) >>> s)
      else if j < xs.length then some 0 else none := by
  unfold shrLimbVartime
  rw [if_neg hs0]
  rw [List.getElem?_append, shrVtLoop_length, List.length_take, Nat.min_eq_left hk, shrVtLoop_getElem?,
    List.length_take, Nat.min_eq_left hk]
  by_cases h : j < k
  · rw [if_pos h, if_pos h, if_pos h, getD_take _ _ _ _ h]
    by_cases hj : j + 1 < k
    · rw [if_pos hj, if_pos hj, getD_take _ _ _ _ hj]
    · rw [if_neg hj, if_neg hj]
  · rw [if_neg h, if_neg h]
    unfold zeros
    rw [List.getElem?_replicate]
    by_cases h2 : j < xs.length
    · rw [if_pos (by omega), if_pos h2]
    · rw [if_neg (by omega), if_neg h2]

/-! ## the translated loops, position by position -/

theorem shlvt_loop_length (L : Nat) (a : List (BitVec 64)) (ls rs : BitVec 32) :
    ∀ (n : Nat) (limbs : List (BitVec 64)),
      (DivLimbLoops.Vartime.shl_limb_vartime_loop1 L a ls rs n limbs).length = limbs.length := by
  intro n
  induction n with
  | zero => intro limbs; rw [shlvt_loop_zero]
  | succ n ih => intro limbs; rw [shlvt_loop_succ, ih, List.length_set]

/-- the count-down loop of `shl_limb_vartime` started at `i = n`: positions `1..n` written, the others untouched -/
theorem shlvt_loop_getElem? (L : Nat) (a : List (BitVec 64)) (ls rs : BitVec 32) :
    ∀ (n : Nat) (limbs : List (BitVec 64)) (j : Nat), n < limbs.length →
      (DivLimbLoops.Vartime.shl_limb_vartime_loop1 L a ls rs n limbs)[j]? =
        if 1 ≤ j ∧ j ≤ n then
          some (((a.getD j 0#64) <<< (ls % 64#32)) ||| ((a.getD (j - 1) 0#64) >>> (rs % 64#32)))
        else limbs[j]? := by
  intro n
  induction n with
  | zero =>
    intro limbs j _
    rw [shlvt_loop_zero, if_neg (by omega)]
  | succ n ih =>
    intro limbs j hl
    rw [shlvt_loop_succ, ih _ j (by rw [List.length_set]; omega)]
    by_cases h1 : 1 ≤ j ∧ j ≤ n
    · rw [if_pos h1, if_pos (by omega)]
    · rw [if_neg h1]
      by_cases h2 : j = n + 1
      · subst h2
        rw [if_pos (by omega), List.getElem?_set_self hl, Nat.add_sub_cancel]
      · rw [if_neg (by omega), List.getElem?_set_ne (by omega)]

theorem shrvt_loop_length (L : Nat) (a : List (BitVec 64)) (k : Nat) (ls rs : BitVec 32) :
    ∀ (n i : Nat) (limbs : List (BitVec 64)), i + n = k - 1 →
      (DivLimbLoops.Vartime.shr_limb_vartime_loop1 L a k ls rs n i limbs).length = limbs.length := by
  intro n
  induction n with
  | zero => intro i limbs _; rw [shrvt_loop_zero]
  | succ n ih =>
    intro i limbs h
    rw [shrvt_loop_succ _ _ _ _ _ _ _ _ (by omega), ih _ _ (by omega), List.length_set]

/-- the ascending loop of `shr_limb_vartime` at counter `i` with `n` rounds left (`i + n = limbs_num - 1`): positions
    `i..limbs_num - 2` written, the others untouched -/
theorem shrvt_loop_getElem? (L : Nat) (a : List (BitVec 64)) (k : Nat) (ls rs : BitVec 32) :
    ∀ (n i : Nat) (limbs : List (BitVec 64)) (j : Nat), i + n = k - 1 → k - 1 ≤ limbs.length →
      (DivLimbLoops.Vartime.shr_limb_vartime_loop1 L a k ls rs n i limbs)[j]? =
        if i ≤ j ∧ j < k - 1 then
          some (((a.getD j 0#64) >>> (rs % 64#32)) ||| ((a.getD (j + 1) 0#64) <<< (ls % 64#32)))
        else limbs[j]? := by
  intro n
  induction n with
  | zero =>
    intro i limbs j h _
    rw [shrvt_loop_zero, if_neg (by omega)]
  | succ n ih =>
    intro i limbs j h hl
    rw [shrvt_loop_succ _ _ _ _ _ _ _ _ (by omega), ih _ _ j (by omega) (by rw [List.length_set]; exact hl)]
    by_cases h1 : i + 1 ≤ j ∧ j < k - 1
    · rw [if_pos h1, if_pos (by omega)]
    · rw [if_neg h1]
      by_cases h2 : j = i
      · subst h2
        rw [if_pos (by omega), List.getElem?_set_self (by omega)]
      · rw [if_neg (by omega), List.getElem?_set_ne (by omega)]

/-! ## the functions -/

/-- **`Uint::shl_limb_vartime(shift, limbs_num)`**: limbs and carry limb, for every limb count, `1 ≤ limbs_num ≤ LIMBS`,
    `shift < 64` (for `shift = 0` both sides return the operand and a zero carry) -/
theorem shlLimbVartime_bridge (a : List (BitVec 64)) (s : BitVec 32) (k : Nat) (hs : s.toNat < 64) (hk1 : 1 ≤ k)
    (hk : k ≤ a.length) :
    shlLimbVartime (nats a) s.toNat k =
      (nats (DivLimbLoops.Vartime.shl_limb_vartime a.length a s k).1,
       (DivLimbLoops.Vartime.shl_limb_vartime a.length a s k).2.toNat) := by
  by_cases h0 : s = 0#32
  · subst h0
    rw [shl_limb_vartime_zero]
    simp [shlLimbVartime]
  · have hsn : s.toNat ≠ 0 := fun h => h0 (BitVec.eq_of_toNat_eq (by simpa using h))
    have e64 := sub64_toNat s hs
    have hs' : (64#32 - s).toNat < 64 := by omega
    rw [shl_limb_vartime_eq_loop _ _ _ _ h0]
    refine Prod.ext ?_ ?_
    · apply List.ext_getElem?
      intro j
      rw [shlLimbVartime_fst_getElem? _ _ _ _ hsn (by rw [nats_length]; exact hk)]
      simp only [nats, List.getElem?_map]
      have hlen := shlvt_loop_length a.length a s (64#32 - s) (k - 1) (List.replicate a.length 0#64)
      rw [List.length_replicate] at hlen
      by_cases hj0 : j = 0
      · subst hj0
        rw [if_pos (by omega), List.getElem?_set_self (by omega)]
        simp only [if_true, Option.map_some, shl_toNat _ _ hs, getD_toNat, Nat.zero_shiftRight, Nat.or_zero, nats]
      · rw [List.getElem?_set_ne (by omega),
          shlvt_loop_getElem? a.length a s (64#32 - s) (k - 1) _ j (by rw [List.length_replicate]; omega)]
        by_cases hjk : j < k
        · rw [if_pos hjk, if_neg hj0, if_pos (show 1 ≤ j ∧ j ≤ k - 1 by omega)]
          simp only [Option.map_some, BitVec.toNat_or, shl_toNat _ _ hs, shr_toNat _ _ hs', getD_toNat, e64, nats]
        · rw [if_neg hjk, if_neg (show ¬(1 ≤ j ∧ j ≤ k - 1) by omega), List.getElem?_replicate, List.length_map]
          by_cases hjl : j < a.length
          · rw [if_pos hjl, if_pos hjl]; rfl
          · rw [if_neg hjl, if_neg hjl]; rfl
    · show (shlLimbVartime (nats a) s.toNat k).2 = _
      unfold shlLimbVartime
      rw [if_neg hsn]
      simp only [shr_toNat _ _ hs', getD_toNat, e64]

/-- **`Uint::shr_limb_vartime(shift, limbs_num)`**, for every limb count, `1 ≤ limbs_num ≤ LIMBS`, `shift < 64` -/
theorem shrLimbVartime_bridge (a : List (BitVec 64)) (s : BitVec 32) (k : Nat) (hs : s.toNat < 64) (hk1 : 1 ≤ k)
    (hk : k ≤ a.length) :
    shrLimbVartime (nats a) s.toNat k = nats (DivLimbLoops.Vartime.shr_limb_vartime a.length a s k) := by
  by_cases h0 : s = 0#32
  · subst h0
    rw [shr_limb_vartime_zero]
    simp [shrLimbVartime]
  · have hsn : s.toNat ≠ 0 := fun h => h0 (BitVec.eq_of_toNat_eq (by simpa using h))
    have e64 := sub64_toNat s hs
    have hs' : (64#32 - s).toNat < 64 := by omega
    rw [shr_limb_vartime_eq_loop _ _ _ _ h0]
    apply List.ext_getElem?
    intro j
    rw [shrLimbVartime_getElem? _ _ _ _ hsn (by rw [nats_length]; exact hk)]
    simp only [nats, List.getElem?_map]
    have hlen := shrvt_loop_length a.length a k (64#32 - s) s (k - 1) 0 (List.replicate a.length 0#64) (by omega)
    rw [List.length_replicate] at hlen
    by_cases hjl : j = k - 1
    · subst hjl
      rw [if_pos (show k - 1 < k by omega), List.getElem?_set_self (by omega), if_neg (show ¬(k - 1 + 1 < k) by omega)]
      simp only [Option.map_some, shr_toNat _ _ hs, getD_toNat, nats]
    · rw [List.getElem?_set_ne (by omega),
        shrvt_loop_getElem? a.length a k (64#32 - s) s (k - 1) 0 _ j (by omega) (by rw [List.length_replicate]; omega)]
      by_cases hjk : j < k
      · rw [if_pos hjk, if_pos (show j + 1 < k by omega), if_pos (show 0 ≤ j ∧ j < k - 1 by omega)]
        simp only [Option.map_some, BitVec.toNat_or, shl_toNat _ _ hs', shr_toNat _ _ hs, getD_toNat, e64, nats]
      · rw [if_neg hjk, if_neg (show ¬(0 ≤ j ∧ j < k - 1) by omega), List.getElem?_replicate, List.length_map]
        by_cases hjl2 : j < a.length
        · rw [if_pos hjl2, if_pos hjl2]; rfl
        · rw [if_neg hjl2, if_neg hjl2]; rfl

end CB.GenDivLimbVartime
