/-
  CB.Lemmas.C09Lincomb — lincomb chunking / recombination and the bridge to C08's `Good` parameter sets.
-/
import CB.Lemmas.C09Pow
import CB.Model.Lincomb
namespace CB.Pow
open CB CB.Monty

/-! ### bridge: C08's `Good p n m` gives the standing assumptions of the C09 lemmas -/

theorem modOK_of_good {p : Params} {n m : Nat} (g : Good p n m) : ModOK p.modulus p.modNegInv := by
  have hv : val p.modulus = m := by rw [g.modulus]; exact val_toLimbs_lt g.mlt
  exact ⟨by rw [g.modulus]; exact toLimbs_WF _ _, by rw [hv]; exact g.k, by rw [hv]; exact g.mpos⟩

theorem rep_one_of_good {p : Params} {n m : Nat} (g : Good p n m) : Rep p.modulus p.one 1 := by
  have hv : val p.modulus = m := by rw [g.modulus]; exact val_toLimbs_lt g.mlt
  have hl : p.modulus.length = n := by rw [g.modulus]; exact toLimbs_length _ _
  have hpos : 0 < m := g.mpos
  refine ⟨by rw [g.one]; exact toLimbs_WF _ _, by rw [g.one, toLimbs_length, hl], ?_⟩
  rw [g.one, hv, hl, Nat.one_mul]
  exact val_toLimbs_lt (Nat.lt_trans (Nat.mod_lt _ hpos) g.mlt)

theorem rep_canon {p : Params} {n m : Nat} (g : Good p n m) (x : Nat) : Rep p.modulus (canon n m x) x := by
  have hv : val p.modulus = m := by rw [g.modulus]; exact val_toLimbs_lt g.mlt
  have hl : p.modulus.length = n := by rw [g.modulus]; exact toLimbs_length _ _
  have hpos : 0 < m := g.mpos
  exact ⟨canon_WF x, by rw [canon_length, hl], by rw [canon_val g.mlt hpos, hv, hl]⟩

theorem eq_canon_of_rep {p : Params} {n m : Nat} (g : Good p n m) {z : List Nat} {V : Nat}
    (h : Rep p.modulus z V) : z = canon n m V := by
  have hv : val p.modulus = m := by rw [g.modulus]; exact val_toLimbs_lt g.mlt
  have hl : p.modulus.length = n := by rw [g.modulus]; exact toLimbs_length _ _
  exact eq_canon_of_val h.wf (by rw [h.len, hl]) (by rw [h.eq, hv, hl])

end CB.Pow
