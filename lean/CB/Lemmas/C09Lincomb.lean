/-
  CB.Lemmas.C09Lincomb — the bridge to C08's `Good` parameter sets, and lincomb: one reduced window, the
  `max_accum = 2^mod_leading_zeros` chunking, the `add_mod` recombination, fixed = boxed.
-/
import CB.Lemmas.C09Longa
namespace CB.Pow
open CB CB.Monty

/-! ### bridge: C08's `Good p n m` gives the standing assumptions of the C09 lemmas -/

theorem modOK_of_good {p : Params} {n m : Nat} (g : Good p n m) : ModOK p.modulus p.modNegInv := by
  have hv : val p.modulus = m := by rw [g.modulus]; exact val_toLimbs_lt g.mlt
  exact ⟨by rw [g.modulus]; exact toLimbs_WF _ _, by rw [hv]; exact g.k, by rw [hv]; exact g.mpos⟩

theorem rep_one_of_good {p : Params} {n m : Nat} (g : Good p n m) : Rep p.modulus p.one 1 := by
  have hv : val p.modulus = m := by rw [g.modulus]; exact val_toLimbs_lt g.mlt
  have hl : p.modulus.length = n := by rw [g.modulus]; exact toLimbs_length _ _
  have hpos : 0 < m := g.mpos
  refine ⟨by rw [g.one]; exact toLimbs_WF _ _, by rw [g.one, toLimbs_length, hl], ?_⟩
  rw [g.one, hv, hl, Nat.one_mul]
  exact val_toLimbs_lt (Nat.lt_trans (Nat.mod_lt _ hpos) g.mlt)

theorem rep_canon {p : Params} {n m : Nat} (g : Good p n m) (x : Nat) : Rep p.modulus (canon n m x) x := by
  have hv : val p.modulus = m := by rw [g.modulus]; exact val_toLimbs_lt g.mlt
  have hl : p.modulus.length = n := by rw [g.modulus]; exact toLimbs_length _ _
  have hpos : 0 < m := g.mpos
  exact ⟨canon_WF x, by rw [canon_length, hl], by rw [canon_val g.mlt hpos, hv, hl]⟩

theorem eq_canon_of_rep {p : Params} {n m : Nat} (g : Good p n m) {z : List Nat} {V : Nat}
    (h : Rep p.modulus z V) : z = canon n m V := by
  have hv : val p.modulus = m := by rw [g.modulus]; exact val_toLimbs_lt g.mlt
  have hl : p.modulus.length = n := by rw [g.modulus]; exact toLimbs_length _ _
  exact eq_canon_of_val h.wf (by rw [h.len, hl]) (by rw [h.eq, hv, hl])

end CB.Pow

namespace CB.Lincomb
open CB CB.Monty CB.Pow

/-- `z` is a reduced `n`-limb value with `z·B^n ≡ S (mod m)`: the Montgomery-level meaning of "`z` is the sum `S`
    of products of Montgomery forms". -/
structure WinOK (ms z : List Nat) (S : Nat) : Prop where
  wf : WF z
  len : z.length = ms.length
  lt : val z < val ms
  cong : val z * B ^ ms.length ≡ S [MOD val ms]

theorem TermsOK.take {n M terms} (h : TermsOK n M terms) (c : Nat) : TermsOK n M (terms.take c) :=
  fun t ht => h t (List.mem_of_mem_take ht)
theorem TermsOK.drop {n M terms} (h : TermsOK n M terms) (c : Nat) : TermsOK n M (terms.drop c) :=
  fun t ht => h t (List.mem_of_mem_drop ht)

theorem valDot_take_drop (terms : List (List Nat × List Nat)) (c : Nat) :
    valDot (terms.take c) + valDot (terms.drop c) = valDot terms := by
  rw [← valDot_append, List.take_append_drop]

/-! ### one window -/

/-- `buf.sub_mod_with_carry(carry, &modulus, &modulus)` after the accumulation (at most `B^n / m` terms). -/
theorem windowFixed_spec {ms : List Nat} {k : Nat} (hm : ModOK ms k) {terms : List (List Nat × List Nat)}
    (hT : TermsOK ms.length (val ms) terms) (hcap : terms.length * val ms ≤ B ^ ms.length) :
    WinOK ms (windowFixed terms ms k) (valDot terms) := by
  have ⟨hw, hl, hc, hU, hcong⟩ := longa_spec hm hT hcap
  unfold windowFixed
  have ⟨r1, r2, r3⟩ := addTail_spec hw hm.wf hl hc (by rw [hl]; exact hU)
  rw [hl] at r1
  refine ⟨r2, by rw [r3, hl], by rw [r1]; exact Nat.mod_lt _ hm.pos, ?_⟩
  rw [r1]
  exact ((Nat.mod_modEq _ _).mul_right _).trans hcong

/-- the boxed `sub_assign_mod_with_carry(carry, p, p)` is the fixed-width one for every `carry ≤ 1`. -/
theorem bSubAssign_eq {a p : List Nat} {c : Nat} (ha : WF a) (hp : WF p) (hl : a.length = p.length)
    (hne : a ≠ []) (hc : c ≤ 1) : bSubAssignModWithCarry a c p p = subModWithCarry a c p p := by
  have ⟨_, _, s3⟩ := usbb_spec ha hp B_pos hl
  obtain ⟨b, hb⟩ := borrow_is_mask (s3 hne)
  rw [bSubAssign_unfold, condAdc_fst _ _ p _ rfl]
  simp only [subModWithCarry]
  rw [hb]
  have : nzMask (wnot (wneg c) &&& mask b) = wnot (wneg c) &&& mask b := by
    rcases Nat.le_one_iff_eq_zero_or_eq_one.mp hc with h | h <;> subst h <;> cases b <;> decide
  rw [this]

theorem ms_ne_nil {ms : List Nat} {k : Nat} (hm : ModOK ms k) : ms ≠ [] := by
  intro h; have := hm.pos; rw [h] at this; simp at this

theorem ne_nil_of_len {z ms : List Nat} {k : Nat} (hm : ModOK ms k) (hl : z.length = ms.length) : z ≠ [] := by
  intro h; rw [h] at hl; exact ms_ne_nil hm (List.length_eq_zero_iff.mp hl.symm)

theorem windowBoxed_eq {ms : List Nat} {k : Nat} (hm : ModOK ms k) {terms : List (List Nat × List Nat)}
    (hT : TermsOK ms.length (val ms) terms) (hcap : terms.length * val ms ≤ B ^ ms.length) :
    windowBoxed terms ms k = windowFixed terms ms k := by
  have ⟨hw, hl, hc, _, _⟩ := longa_spec hm hT hcap
  unfold windowBoxed windowFixed
  exact bSubAssign_eq hw hm.wf hl (ne_nil_of_len hm hl) hc

/-! ### recombination of windows -/

/-- `ret.add_mod(&buf, modulus)` adds the denoted sums. -/
theorem WinOK.add {ms ret w : List Nat} {k S W : Nat} (hm : ModOK ms k) (hr : WinOK ms ret S) (hw : WinOK ms w W) :
    WinOK ms (addMod ret w ms) (S + W) := by
  have ⟨⟨v, wf, l⟩, _⟩ := addMod_spec hr.wf hw.wf hm.wf (by rw [hr.len, hw.len]) hr.len hr.lt hw.lt
  refine ⟨wf, by rw [l, hr.len], by rw [v]; exact Nat.mod_lt _ hm.pos, ?_⟩
  rw [v]
  calc (val ret + val w) % val ms * B ^ ms.length
      ≡ (val ret + val w) * B ^ ms.length [MOD val ms] := (Nat.mod_modEq _ _).mul_right _
    _ = val ret * B ^ ms.length + val w * B ^ ms.length := Nat.add_mul ..
    _ ≡ S + W [MOD val ms] := hr.cong.add hw.cong

/-- the boxed recombination `carry = ret.adc_assign(&buf, 0); ret.sub_assign_mod_with_carry(carry, m, m)` is
    `add_mod`. -/
theorem boxedAdd_eq {ms ret w : List Nat} {k S W : Nat} (hm : ModOK ms k) (hr : WinOK ms ret S)
    (hw : WinOK ms w W) :
    bSubAssignModWithCarry (uadc ret w 0).1 (uadc ret w 0).2 ms ms = addMod ret w ms := by
  have hlen : ret.length = w.length := by rw [hr.len, hw.len]
  have sw := uadc_WF ret w 0
  have sl := uadc_length ret w 0 hlen
  have sc : (uadc ret w 0).2 ≤ 1 := uadc_carry_le_one hr.wf hw.wf (by omega)
  have hne : (uadc ret w 0).1 ≠ [] := ne_nil_of_len hm (sl.trans hr.len)
  rw [bSubAssign_eq sw hm.wf (sl.trans hr.len) hne sc, addMod_unfold]
  exact (addTail_eq sw hm.wf (sl.trans hr.len) hne sc).1.symm

theorem chunkLoopFixed_succ (ms : List Nat) (k maxAccum fuel : Nat) (products : List (List Nat × List Nat))
    (ret : List Nat) :
    chunkLoopFixed ms k maxAccum (fuel + 1) products ret =
      if products.length = 0 then ret
      else chunkLoopFixed ms k maxAccum fuel (products.drop (min products.length maxAccum))
        (addMod ret (windowFixed (products.take (min products.length maxAccum)) ms k) ms) := rfl

theorem chunkLoopBoxed_succ (ms : List Nat) (k maxAccum fuel : Nat) (products : List (List Nat × List Nat))
    (ret : List Nat) :
    chunkLoopBoxed ms k maxAccum (fuel + 1) products ret =
      if products.length = 0 then ret
      else chunkLoopBoxed ms k maxAccum fuel (products.drop (min products.length maxAccum))
        (bSubAssignModWithCarry
          (uadc ret (windowBoxed (products.take (min products.length maxAccum)) ms k) 0).1
          (uadc ret (windowBoxed (products.take (min products.length maxAccum)) ms k) 0).2 ms ms) := rfl

/-- the window taken by one round of the chunk loop is a legal single window. -/
theorem chunk_window_ok {ms : List Nat} {maxAccum : Nat}
    (hcap : maxAccum * val ms ≤ B ^ ms.length) {products : List (List Nat × List Nat)}
    (hT : TermsOK ms.length (val ms) products) :
    TermsOK ms.length (val ms) (products.take (min products.length maxAccum)) ∧
    (products.take (min products.length maxAccum)).length * val ms ≤ B ^ ms.length := by
  refine ⟨hT.take _, ?_⟩
  have : (products.take (min products.length maxAccum)).length ≤ maxAccum := by
    rw [List.length_take]; omega
  exact Nat.le_trans (Nat.mul_le_mul_right _ this) hcap

/-- `while remain > 0`: every round adds one window; `fuel ≥ products.len()` rounds always suffice because
    `max_accum ≥ 1`. -/
theorem chunkLoopFixed_spec {ms : List Nat} {k maxAccum : Nat} (hm : ModOK ms k) (hpos : 0 < maxAccum)
    (hcap : maxAccum * val ms ≤ B ^ ms.length) :
    ∀ (fuel : Nat) (products : List (List Nat × List Nat)) (ret : List Nat) (S : Nat),
      products.length ≤ fuel → TermsOK ms.length (val ms) products → WinOK ms ret S →
      WinOK ms (chunkLoopFixed ms k maxAccum fuel products ret) (S + valDot products) ∧
      chunkLoopBoxed ms k maxAccum fuel products ret = chunkLoopFixed ms k maxAccum fuel products ret := by
  intro fuel
  induction fuel with
  | zero =>
    intro products ret S hlen _ hr
    have : products = [] := List.length_eq_zero_iff.mp (by omega)
    subst this
    exact ⟨by simpa [chunkLoopFixed, valDot] using hr, rfl⟩
  | succ f ih =>
    intro products ret S hlen hT hr
    rw [chunkLoopFixed_succ, chunkLoopBoxed_succ]
    by_cases h0 : products.length = 0
    · have : products = [] := List.length_eq_zero_iff.mp h0
      subst this
      exact ⟨by simpa [valDot] using hr, by simp⟩
    · simp only [h0, if_false]
      have ⟨hTw, hcw⟩ := chunk_window_ok hcap hT
      have hwin := windowFixed_spec hm hTw hcw
      have hadd := hr.add hm hwin
      have hdl : (products.drop (min products.length maxAccum)).length ≤ f := by
        rw [List.length_drop]; omega
      have ⟨r1, r2⟩ := ih _ _ _ hdl (hT.drop _) hadd
      refine ⟨?_, ?_⟩
      · have e : S + valDot (products.take (min products.length maxAccum)) +
            valDot (products.drop (min products.length maxAccum)) = S + valDot products := by
          rw [Nat.add_assoc, valDot_take_drop]
        rw [← e]; exact r1
      · rw [windowBoxed_eq hm hTw hcw, boxedAdd_eq hm hr hwin]
        exact r2

theorem uzero_winOK {ms : List Nat} {k : Nat} (hm : ModOK ms k) : WinOK ms (uzero ms.length) 0 :=
  ⟨uzero_WF _, by simp [uzero], by rw [val_uzero]; exact hm.pos, by rw [val_uzero, Nat.zero_mul]⟩

/-- `lincomb_monty_form` / `lincomb_const_monty_form` / `lincomb_boxed_monty_form` for ANY number of terms, given
    that `2^mod_leading_zeros · m ≤ B^n` (which is what "leading zeros" means): the result is reduced and
    `result·B^n ≡ Σ aᵢ·bᵢ (mod m)` on the stored Montgomery forms; the boxed routine returns the same limbs. -/
theorem lincomb_spec {ms : List Nat} {k lz : Nat} (hm : ModOK ms k) (hlz : 2 ^ lz * val ms ≤ B ^ ms.length)
    {terms : List (List Nat × List Nat)} (hT : TermsOK ms.length (val ms) terms) :
    WinOK ms (lincombFixed terms ms k lz) (valDot terms) ∧
    lincombBoxed terms ms k lz = lincombFixed terms ms k lz := by
  have hsh : 1 <<< lz = 2 ^ lz := by rw [Nat.shiftLeft_eq, Nat.one_mul]
  unfold lincombFixed lincombBoxed
  rw [hsh]
  by_cases hle : terms.length ≤ 2 ^ lz
  · simp only [hle, if_true]
    have hcap : terms.length * val ms ≤ B ^ ms.length := Nat.le_trans (Nat.mul_le_mul_right _ hle) hlz
    exact ⟨windowFixed_spec hm hT hcap, windowBoxed_eq hm hT hcap⟩
  · simp only [hle, if_false]
    have ⟨r1, r2⟩ := chunkLoopFixed_spec hm (Nat.two_pow_pos lz) hlz terms.length terms (uzero ms.length) 0
      (Nat.le_refl _) hT (uzero_winOK hm)
    exact ⟨by simpa using r1, r2⟩

/-! ### from Montgomery forms to residues -/

/-- `Σ Aᵢ·Bᵢ` on residues (no reduction). -/
def dotSpec : List (Nat × Nat) → Nat
  | [] => 0
  | XY :: rest => XY.1 * XY.2 + dotSpec rest

theorem sumSpec_eq (m : Nat) (XYs : List (Nat × Nat)) : sumSpec m XYs = dotSpec XYs % m := by
  induction XYs with
  | nil => simp [sumSpec, dotSpec]
  | cons a r ih =>
    obtain ⟨x, y⟩ := a
    simp only [sumSpec, dotSpec]
    rw [ih, Nat.add_mod_mod]

theorem dotSpec_mod (m : Nat) (abs : List (Nat × Nat)) :
    dotSpec (abs.map fun ab => (ab.1 % m, ab.2 % m)) ≡ dotSpec abs [MOD m] := by
  induction abs with
  | nil => rfl
  | cons a r ih =>
    simp only [List.map_cons, dotSpec]
    exact ((Nat.mod_modEq _ _).mul (Nat.mod_modEq _ _)).add ih

theorem canon_congr {n m a b : Nat} (h : a ≡ b [MOD m]) : canon n m a = canon n m b := by
  unfold canon
  congr 1
  exact h.mul_right _

/-- a pair of canonical Montgomery forms matches a pair of residues. -/
def PairOK (ms : List Nat) (t : List Nat × List Nat) (XY : Nat × Nat) : Prop :=
  Rep ms t.1 XY.1 ∧ Rep ms t.2 XY.2

theorem terms_of_pairs {ms : List Nat} {k : Nat} (hm : ModOK ms k) {terms : List (List Nat × List Nat)}
    {XYs : List (Nat × Nat)} (h : List.Forall₂ (PairOK ms) terms XYs) :
    TermsOK ms.length (val ms) terms ∧
    valDot terms ≡ dotSpec XYs * B ^ ms.length * B ^ ms.length [MOD val ms] := by
  induction h with
  | nil =>
    refine ⟨fun t ht => (by cases ht), ?_⟩
    show 0 ≡ 0 * B ^ ms.length * B ^ ms.length [MOD val ms]
    rw [Nat.zero_mul, Nat.zero_mul]
  | @cons t XY ts XYs' h _ ih =>
    obtain ⟨ha, hb⟩ := h
    refine ⟨?_, ?_⟩
    · intro x hx
      rcases List.mem_cons.mp hx with e | e
      · subst e; exact ⟨ha.wf, hb.wf, ha.len, hb.len, ha.lt hm, hb.lt hm⟩
      · exact ih.1 x e
    · simp only [valDot, dotSpec]
      have h1 : val t.1 * val t.2 ≡ (XY.1 * B ^ ms.length) * (XY.2 * B ^ ms.length) [MOD val ms] := by
        rw [ha.eq, hb.eq]; exact (Nat.mod_modEq _ _).mul (Nat.mod_modEq _ _)
      have h2 := h1.add ih.2
      have e : (XY.1 * XY.2 + dotSpec XYs') * B ^ ms.length * B ^ ms.length =
          XY.1 * B ^ ms.length * (XY.2 * B ^ ms.length) + dotSpec XYs' * B ^ ms.length * B ^ ms.length := by ring
      rw [e]; exact h2

/-- a reduced value with `z·B^n ≡ V·B^n·B^n` is THE canonical Montgomery form of `V`. -/
theorem WinOK.rep {ms z : List Nat} {k S V : Nat} (hm : ModOK ms k) (h : WinOK ms z S)
    (hS : S ≡ V * B ^ ms.length * B ^ ms.length [MOD val ms]) : Rep ms z V := by
  refine ⟨h.wf, h.len, ?_⟩
  have hc : val z ≡ V * B ^ ms.length [MOD val ms] := by
    apply Nat.ModEq.cancel_right_of_coprime (c := B ^ ms.length)
    · exact Nat.Coprime.symm (coprime_Bpow_of_odd hm.odd ms.length)
    · exact h.cong.trans hS
  have := hc
  unfold Nat.ModEq at this
  rw [Nat.mod_eq_of_lt h.lt] at this
  exact this

/-- `2^min(leading_zeros(m), 63) · m ≤ B^n`: the accumulation limit `max_accum` never lets in more terms than one
    window can hold. -/
theorem lz_ok {n m : Nat} (hm : m < B ^ n) (hpos : 0 < m) : 2 ^ (Nat.min (leadingZeros n m) 63) * m ≤ B ^ n := by
  have hne : m ≠ 0 := by omega
  have hbl : bitLen m = Nat.log2 m + 1 := by simp [bitLen, hne]
  have h1 : m < 2 ^ bitLen m := by rw [hbl]; exact Nat.lt_log2_self
  have hB : B ^ n = 2 ^ (64 * n) := by rw [B_eq_pow, ← Nat.pow_mul]
  have h2 : bitLen m ≤ 64 * n := by
    rw [hbl]
    have : Nat.log2 m < 64 * n := (Nat.log2_lt hne).mpr (by rw [← hB]; exact hm)
    omega
  have h3 : 2 ^ (Nat.min (leadingZeros n m) 63) ≤ 2 ^ (64 * n - bitLen m) :=
    Nat.pow_le_pow_right (by decide) (Nat.min_le_left _ _)
  calc 2 ^ (Nat.min (leadingZeros n m) 63) * m ≤ 2 ^ (64 * n - bitLen m) * m := Nat.mul_le_mul_right _ h3
    _ ≤ 2 ^ (64 * n - bitLen m) * 2 ^ bitLen m := Nat.mul_le_mul_left _ (Nat.le_of_lt h1)
    _ = B ^ n := by rw [← Nat.pow_add, hB]; congr 1; omega

end CB.Lincomb
