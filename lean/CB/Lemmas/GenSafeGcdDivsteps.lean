/-
  CB.Lemmas.GenSafeGcdDivsteps — the outer loop of safegcd: `divsteps` of src/modular/safegcd.rs (CB/Gen/SafeGcdLimbs.lean:
  `divsteps`, `divsteps_loop1`, regenerated from /repo's current source on every run) IS the hand-written model
  `CB.SafeGcd.divsteps false` (CB/Model/SafeGcd.lean: `dsLoop` over `dsStep` = `jump`, `fg`, `de`), for every limb count.

  One trip of the translated loop is `jump` (bridged in GenSafeGcdJump.lean), `fg` and `de` (GenSafeGcdLimbs.lean); the
  bridges of these three need the callers' guarantees — well-formed limbs, `f` odd, `|delta| ≤ 2^62`, matrix rows of absolute
  sum `≤ 2^62`, `d, e ∈ (-2M, M)` — which are exactly the loop invariants `FGI` / `DEI` of CB/Lemmas/C10Loop.lean plus a
  budget for `delta` (`jump` moves it by at most 62: `jump_delta_bound`, proved here on the model).  The trip count
  `m = iterations(f_0.bits(), g.bits())` is bridged through `ulz_bridge` and `iterations_bridge`.
  No `bv_decide` in this file.
-/
import CB.Lemmas.GenSafeGcdLimbs
import CB.Lemmas.C10Loop
namespace CB.GenSafeGcdLimbs
open CB CB.Gen CB.Gen.SafeGcdLimbs CB.GenBits CB.SafeGcd
open CB.GenChains (nats)

/-! ## `jump` moves `delta` by at most the 62 steps it consumes (model) -/

theorem jzeros_le (s : JS) : jzeros s ≤ s.steps := by
  unfold jzeros; split <;> omega

theorem jumpShift_delta (s : JS) :
    |(jumpShift s).delta| + ((jumpShift s).steps : Int) ≤ |s.delta| + (s.steps : Int) := by
  have hz := jzeros_le s
  show |s.delta + ((jzeros s : Nat) : Int)| + ((s.steps - jzeros s : Nat) : Int) ≤ _
  rcases abs_cases (s.delta + ((jzeros s : Nat) : Int)) with ⟨h1, _⟩ | ⟨h1, _⟩ <;>
    rcases abs_cases s.delta with ⟨h2, _⟩ | ⟨h2, _⟩ <;> omega

theorem jumpSwap_delta (s : JS) : |(jumpSwap s).delta| = |s.delta| ∧ (jumpSwap s).steps = s.steps := by
  unfold jumpSwap
  split
  · exact ⟨abs_neg _, rfl⟩
  · exact ⟨rfl, rfl⟩

theorem jumpLoop_delta : ∀ (fuel : Nat) (s : JS),
    |(jumpLoop fuel s).delta| + ((jumpLoop fuel s).steps : Int) ≤ |s.delta| + (s.steps : Int) := by
  intro fuel
  induction fuel with
  | zero => intro s; exact le_refl _
  | succ k ih =>
    intro s
    rw [jumpLoop]
    split
    · exact jumpShift_delta s
    · refine le_trans (ih _) ?_
      have h1 := jumpSwap_delta (jumpShift s)
      show |(jumpSwap (jumpShift s)).delta| + ((jumpSwap (jumpShift s)).steps : Int) ≤ _
      rw [h1.1, h1.2]
      exact jumpShift_delta s

theorem jump_delta_bound (f g : List Nat) (delta : Int) : |(jump f g delta).1| ≤ |delta| + 62 := by
  have := jumpLoop_delta jumpFuel ⟨CB.Extracted.safegcdJumpSteps, delta, wrapI64 (f.headD 0 : Nat), ((g.headD 0 : Nat) : Int),
    ⟨1, 0, 0, 1⟩⟩
  have h62 : ((CB.Extracted.safegcdJumpSteps : Nat) : Int) = 62 := rfl
  simp only [h62] at this
  show |(jumpLoop jumpFuel _).delta| ≤ _
  have hs : (0 : Int) ≤ ((jumpLoop jumpFuel ⟨CB.Extracted.safegcdJumpSteps, delta, wrapI64 (f.headD 0 : Nat),
    ((g.headD 0 : Nat) : Int), ⟨1, 0, 0, 1⟩⟩).steps : Int) := Int.natCast_nonneg _
  omega

/-! ## one trip -/

/-- the state of the translated loop as the model's state -/
def dsOf (e g d f : List (BitVec 64)) (delta : BitVec 64) : DS := ⟨delta.toInt, nats f, nats g, nats d, nats e⟩

theorem length_of_nats {x : List (BitVec 64)} {l : List Nat} (h : nats x = l) : x.length = l.length := by
  rw [← h, nats_length]

/-- one trip of the source's loop is the model's `dsStep`, and keeps the invariants and the `delta` budget -/
theorem trip_bridge (n : Nat) (Bd : Int) (gs : Nat) (hn : 2 ≤ n) (hcap : 2 ^ 64 * Bd ≤ ((Q ^ n : Nat) : Int))
    (f0 : List (BitVec 64)) (inv : BitVec 64) (x adj : Int) (w0 : WFw f0) (hl0 : f0.length = n)
    (hM : 0 < uval (nats f0)) (hModd : uval (nats f0) % 2 = 1) (hMB : uval (nats f0) ≤ Bd)
    (hinv : inv.toInt * uval (nats f0) ≡ 1 [ZMOD 2 ^ 62])
    (e g d f : List (BitVec 64)) (delta : BitVec 64)
    (hfg : FGI n Bd gs (dsOf e g d f delta)) (hde : DEI n (nats f0) x adj (dsOf e g d f delta))
    (hd : |delta.toInt| ≤ 2 ^ 62) :
    dsOf (de n f0 inv (Gen.SafeGcd.jump f g delta).2 d e).2 (fg n f g (Gen.SafeGcd.jump f g delta).2).2
        (de n f0 inv (Gen.SafeGcd.jump f g delta).2 d e).1 (fg n f g (Gen.SafeGcd.jump f g delta).2).1
        (Gen.SafeGcd.jump f g delta).1 = dsStep (nats f0) inv.toInt (dsOf e g d f delta) ∧
    |(Gen.SafeGcd.jump f g delta).1.toInt| ≤ |delta.toInt| + 62 := by
  have lf : f.length = n := by have := hfg.lf; simpa [dsOf, nats] using this
  have lg : g.length = n := by have := hfg.lg; simpa [dsOf, nats] using this
  have ld : d.length = n := by have := hde.ld; simpa [dsOf, nats] using this
  have le : e.length = n := by have := hde.le; simpa [dsOf, nats] using this
  have wf : WFw f := (WFw_iff f).mpr hfg.wf
  have wg : WFw g := (WFw_iff g).mpr hfg.wg
  have wd : WFw d := (WFw_iff d).mpr hde.wd
  have we : WFw e := (WFw_iff e).mpr hde.we
  have hnef : f ≠ [] := by intro h0; rw [h0] at lf; simp at lf; omega
  have hned : d ≠ [] := by intro h0; rw [h0] at ld; simp at ld; omega
  have hnef' : nats f ≠ [] := by simpa [nats] using hnef
  -- the low word of `f` is odd
  have hlow := ulowest_modEq (nats f) hfg.wf hnef'
  rw [Qi_eq, ulowest_bridge f, unsat_lowest_eq] at hlow
  have hodd : (f.getD 0 0#64).toNat % 2 = 1 := by
    have h1 : uval (nats f) % 2 = 1 := hfg.odd
    have h2 := (Int.ModEq.dvd hlow)
    have : ((f.getD 0 0#64).toNat : Int) % 2 = 1 := by omega
    omega
  have hfl := WFw_getD wf 0
  have hgl := WFw_getD wg 0
  rw [Q_def] at hfl hgl
  have habs := abs_le.mp hd
  obtain ⟨j1, j00, j01, j10, j11⟩ := GenSafeGcd.jump_bridge_toInt f g delta (by omega) (by omega) (Or.inl hodd) habs.1 habs.2
  have hmat : matOf (Gen.SafeGcd.jump f g delta).2 = (jump (nats f) (nats g) delta.toInt).2 := by
    simp only [matOf, j00, j01, j10, j11, nats]
  obtain ⟨_, b0, b1, _, _⟩ := fg_step n Bd gs hn hcap (nats f0) inv.toInt (dsOf e g d f delta) hfg
  simp only [dsOf] at b0 b1
  rw [← hmat] at b0 b1
  simp only [matOf] at b0 b1
  have e00 := abs_le.mp (le_trans (le_add_of_nonneg_right (abs_nonneg _)) b0)
  have e01 := abs_le.mp (le_trans (le_add_of_nonneg_left (abs_nonneg _)) b0)
  have e10 := abs_le.mp (le_trans (le_add_of_nonneg_right (abs_nonneg _)) b1)
  have e11 := abs_le.mp (le_trans (le_add_of_nonneg_left (abs_nonneg _)) b1)
  have hfgb := fg_bridge f g (Gen.SafeGcd.jump f g delta).2 (lf.trans lg.symm) hnef wf wg (by omega) (by omega) (by omega)
    (by omega)
  have hdeb := de_bridge f0 d e inv (Gen.SafeGcd.jump f g delta).2 (le.trans ld.symm) (hl0.trans ld.symm) hned w0 wd we b0 b1
  rw [lf] at hfgb
  rw [ld] at hdeb
  rw [hmat] at hfgb hdeb
  constructor
  · simp only [dsOf, dsStep, j1]
    rw [hfgb, hdeb]
  · rw [j1]
    exact jump_delta_bound _ _ _

/-! ## the loop -/

theorem divsteps_loop_bridge (n : Nat) (Bd : Int) (gs : Nat) (hn : 2 ≤ n) (hcap : 2 ^ 64 * Bd ≤ ((Q ^ n : Nat) : Int))
    (f0 : List (BitVec 64)) (inv m : BitVec 64) (x adj : Int) (w0 : WFw f0) (hl0 : f0.length = n)
    (hM : 0 < uval (nats f0)) (hModd : uval (nats f0) % 2 = 1) (hMB : uval (nats f0) ≤ Bd)
    (hinv : inv.toInt * uval (nats f0) ≡ 1 [ZMOD 2 ^ 62]) :
    ∀ (k i : Nat) (e g d f : List (BitVec 64)) (delta : BitVec 64), i + k = m.toNat →
      FGI n Bd gs (dsOf e g d f delta) → DEI n (nats f0) x adj (dsOf e g d f delta) →
      |delta.toInt| + 62 * (k : Int) ≤ 2 ^ 62 →
      dsOf (divsteps_loop1 n f0 inv m k i e g d f delta).1 (divsteps_loop1 n f0 inv m k i e g d f delta).2.1
          (divsteps_loop1 n f0 inv m k i e g d f delta).2.2.1 (divsteps_loop1 n f0 inv m k i e g d f delta).2.2.2.1
          (divsteps_loop1 n f0 inv m k i e g d f delta).2.2.2.2 =
        dsLoop (nats f0) inv.toInt k (dsOf e g d f delta) := by
  intro k
  induction k with
  | zero =>
    intro i e g d f delta _ _ _ _
    rw [divsteps_loop_zero]
    rfl
  | succ k ih =>
    intro i e g d f delta hi hfg hde hb
    have hd : |delta.toInt| ≤ 2 ^ 62 := by omega
    obtain ⟨t1, t2⟩ := trip_bridge n Bd gs hn hcap f0 inv x adj w0 hl0 hM hModd hMB hinv e g d f delta hfg hde hd
    rw [divsteps_loop_succ n f0 inv m k i e g d f delta (by omega)]
    have hfg' := (fg_step n Bd gs hn hcap (nats f0) inv.toInt _ hfg).1
    have hde' := de_step n Bd gs hn hcap (nats f0) inv.toInt x adj ((WFw_iff f0).mp w0) (by rw [nats_length, hl0]) hM hModd
      hMB hinv _ hfg hde
    rw [← t1] at hfg' hde'
    rw [ih (i + 1) _ _ _ _ _ (by omega) hfg' hde' (by push_cast at hb ⊢; omega), t1]
    rfl

/-! ## the trip count and the function -/

theorem iterations_lt (f g : BitVec 32) : (Gen.SafeGcd.iterations f g).toNat < 2 ^ 32 := by
  rw [iterations_meaning, BitVec.toNat_setWidth]
  exact lt_of_le_of_lt (Nat.mod_le _ _) (BitVec.isLt _)

/-- the trip count of the source is the model's, for limb counts `≤ 1413748` (the `u32` arithmetic of `bits` / `iterations`
    does not wrap: `62·LIMBS ≤ 87652392`) -/
theorem trips_bridge (f0 g : List (BitVec 64)) (w0 : WFw f0) (wg : WFw g) (hlg : g.length = f0.length)
    (hL : f0.length ≤ 1413748) :
    (Gen.SafeGcd.iterations (UnsatInt.bits f0.length f0) (UnsatInt.bits f0.length g)).toNat =
      iterations (ubits (nats f0)) (ubits (nats g)) := by
  obtain ⟨_, b1⟩ := ulz_bridge f0 w0 (by omega)
  obtain ⟨_, b2⟩ := ulz_bridge g wg (by rw [hlg]; omega)
  rw [hlg] at b2
  have h1 : ubits (nats f0) ≤ 62 * f0.length := by unfold ubits; rw [nats_length, LB_eq]; omega
  have h2 : ubits (nats g) ≤ 62 * f0.length := by unfold ubits; rw [nats_length, LB_eq, hlg]; omega
  rw [iterations_bridge _ _ (by rw [b1]; unfold iterMax; omega) (by rw [b2]; unfold iterMax; omega), b1, b2]

/-- **`divsteps`**: for every limb count `2 ≤ LIMBS ≤ 1413748`, whenever the initial state satisfies the loop invariants of
    CB/Lemmas/C10Loop.lean (`FGI`: well-formed `f_0`, `g` with `f_0` odd and both within `Bd`; `DEI`: well-formed
    `d = 0`, `e` in `(-2M, M)` — what `SafeGcdInverter::inv` / `gcd` establish), the pair `(d, f)` the SOURCE returns is the
    model's `(d, f)` after `iterations(f_0.bits(), g.bits())` trips -/
theorem divsteps_bridge (Bd : Int) (gs : Nat) (x adj : Int) (e f0 g : List (BitVec 64)) (inv : BitVec 64)
    (hn : 2 ≤ f0.length) (hL : f0.length ≤ 1413748) (hcap : 2 ^ 64 * Bd ≤ ((Q ^ f0.length : Nat) : Int))
    (w0 : WFw f0) (hM : 0 < uval (nats f0)) (hModd : uval (nats f0) % 2 = 1) (hMB : uval (nats f0) ≤ Bd)
    (hinv : inv.toInt * uval (nats f0) ≡ 1 [ZMOD 2 ^ 62])
    (hfg : FGI f0.length Bd gs (dsOf e g (List.replicate f0.length 0#64) f0 1#64))
    (hde : DEI f0.length (nats f0) x adj (dsOf e g (List.replicate f0.length 0#64) f0 1#64)) :
    (nats (SafeGcdLimbs.divsteps f0.length e f0 g inv).1, nats (SafeGcdLimbs.divsteps f0.length e f0 g inv).2) =
      ((CB.SafeGcd.divsteps false (nats e) (nats f0) (nats g) inv.toInt).d,
       (CB.SafeGcd.divsteps false (nats e) (nats f0) (nats g) inv.toInt).f) := by
  have lg : g.length = f0.length := by have := hfg.lg; simpa [dsOf, nats] using this
  have wg : WFw g := (WFw_iff g).mpr hfg.wg
  have htr := trips_bridge f0 g w0 wg lg hL
  have hlt := iterations_lt (UnsatInt.bits f0.length f0) (UnsatInt.bits f0.length g)
  have h1 : (1#64 : BitVec 64).toInt = 1 := by decide
  have hb := divsteps_loop_bridge f0.length Bd gs hn hcap f0 inv
    (Gen.SafeGcd.iterations (UnsatInt.bits f0.length f0) (UnsatInt.bits f0.length g)) x adj w0 rfl hM hModd hMB hinv
    (Gen.SafeGcd.iterations (UnsatInt.bits f0.length f0) (UnsatInt.bits f0.length g)).toNat 0 e g
    (List.replicate f0.length 0#64) f0 1#64 (by omega) hfg hde (by rw [h1]; simp only [abs_one]; omega)
  rw [divsteps_eq_loop]
  have hmodel : CB.SafeGcd.divsteps false (nats e) (nats f0) (nats g) inv.toInt =
      dsLoop (nats f0) inv.toInt (Gen.SafeGcd.iterations (UnsatInt.bits f0.length f0) (UnsatInt.bits f0.length g)).toNat
        (dsOf e g (List.replicate f0.length 0#64) f0 1#64) := by
    simp only [CB.SafeGcd.divsteps, Bool.false_eq_true, if_false, htr, dsOf, h1, uzero, nats, List.map_replicate,
      List.length_map]
    rfl
  rw [hmodel, ← hb]
  rfl

end CB.GenSafeGcdLimbs
