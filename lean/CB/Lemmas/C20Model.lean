/-
  CB.Lemmas.C20Model — the sqrt model of `CB.Model.Sqrt` expressed through the mathematical Newton
  iteration: the initial guess, absence of wrap-around and of zero divisors, loop unrolling.
-/
import CB.Lemmas.C20Newton
namespace CB.Sqrt

theorem B_pow_eq (n : Nat) : B ^ n = 2 ^ (64 * n) := by
  rw [B_eq_pow, ← Nat.pow_mul]

theorem bitLen_bounds {v : Nat} (hv : 0 < v) : 2 ^ (bitLen v - 1) ≤ v ∧ v < 2 ^ bitLen v := by
  have hne : v ≠ 0 := by omega
  simp only [bitLen, if_neg hne, Nat.add_sub_cancel]
  exact ⟨Nat.log2_self_le hne, Nat.lt_log2_self⟩

theorem bitLen_pos {v : Nat} (hv : 0 < v) : 0 < bitLen v := by
  have hne : v ≠ 0 := by omega
  simp only [bitLen, if_neg hne]; omega

theorem bitLen_le {v m : Nat} (h : v < 2 ^ m) : bitLen v ≤ m := by
  by_cases hv : v = 0
  · simp [bitLen, hv]
  · simp only [bitLen, if_neg hv]
    exact (Nat.log2_lt hv).mpr h

/-- the initial guess `x0 = 2^⌈b/2⌉` satisfies `v < x0² ≤ 4·v`. -/
theorem start_bounds {v : Nat} (hv : 0 < v) :
    v < 2 ^ sqrtShift v * 2 ^ sqrtShift v ∧ 2 ^ sqrtShift v * 2 ^ sqrtShift v ≤ 4 * v := by
  obtain ⟨h1, h2⟩ := bitLen_bounds hv
  have hb := bitLen_pos hv
  unfold sqrtShift
  generalize bitLen v = b at *
  rw [← Nat.pow_add]
  constructor
  · have : 2 ^ b ≤ 2 ^ ((b + 1) / 2 + (b + 1) / 2) := Nat.pow_le_pow_right (by decide) (by omega)
    omega
  · have h3 : 2 ^ ((b + 1) / 2 + (b + 1) / 2) ≤ 2 ^ (b - 1 + 2) := Nat.pow_le_pow_right (by decide) (by omega)
    have h4 : 2 ^ (b - 1 + 2) = 2 ^ (b - 1) * 4 := by rw [Nat.pow_add]
    omega

theorem sqrtShift_lt {n v : Nat} (hn : 1 ≤ n) (hv : v < B ^ n) : sqrtShift v + 2 ≤ 64 * n := by
  rw [B_pow_eq] at hv
  have := bitLen_le hv
  unfold sqrtShift
  omega

theorem start_lt {n v : Nat} (hn : 1 ≤ n) (hv : v < B ^ n) : 2 * 2 ^ sqrtShift v + 1 < B ^ n := by
  have h := sqrtShift_lt hn hv
  rw [B_pow_eq]
  have h1 : 2 ^ (sqrtShift v + 2) ≤ 2 ^ (64 * n) := Nat.pow_le_pow_right (by decide) h
  have h2 : 2 ^ (sqrtShift v + 2) = 4 * 2 ^ sqrtShift v := by rw [Nat.pow_add]; omega
  have h3 : 0 < 2 ^ sqrtShift v := Nat.pow_pos (by decide)
  omega

theorem sqrtInit_eq {n v : Nat} (hn : 1 ≤ n) (hv : v < B ^ n) :
    sqrtInit n v = some (2 ^ sqrtShift v) := by
  have h := sqrtShift_lt hn hv
  have h2 := start_lt hn hv
  unfold sqrtInit
  simp only []
  rw [if_pos (by omega), Nat.mod_eq_of_lt (by omega)]

theorem bsqrtInit_eq {n v : Nat} (hn : 1 ≤ n) (hv : v < B ^ n) :
    bsqrtInit n v = 2 ^ sqrtShift v := by
  have h := sqrtShift_lt hn hv
  have h2 := start_lt hn hv
  unfold bsqrtInit
  simp only []
  rw [if_pos (by omega), Nat.mod_eq_of_lt (by omega)]

/-- `x + ⌊v/x⌋` does not wrap for any point between the root and the start. -/
theorem no_wrap {n v x : Nat} (hn : 1 ≤ n) (hv : v < B ^ n) (hv0 : 0 < v)
    (h1 : Nat.sqrt v ≤ x) (h2 : x ≤ 2 ^ sqrtShift v) : (x + v / x) % B ^ n = x + v / x := by
  apply Nat.mod_eq_of_lt
  have hs := sqrt_pos_of_pos hv0
  have hq : v / x ≤ v / Nat.sqrt v := Nat.div_le_div_left h1 hs
  have hq2 : v / Nat.sqrt v < Nat.sqrt v + 3 := by
    rw [Nat.div_lt_iff_lt_mul hs]
    have := lt_sqrt_succ_sq v
    generalize Nat.sqrt v = s at *
    have : (s + 1) * (s + 1) ≤ (s + 3) * s := by nlinarith
    omega
  have hs0 : Nat.sqrt v < 2 ^ sqrtShift v := sqrt_lt_iff.mpr (start_bounds hv0).1
  have := start_lt hn hv
  omega

/-- the masked constant-time step is the Newton step on every reachable point. -/
theorem sqrtCtStep_eq {n v x : Nat} (hn : 1 ≤ n) (hv : v < B ^ n) (hv0 : 0 < v)
    (h1 : Nat.sqrt v ≤ x) (h2 : x ≤ 2 ^ sqrtShift v) : sqrtCtStep n v x = newton v x := by
  have hx : x ≠ 0 := by have := sqrt_pos_of_pos hv0; omega
  unfold sqrtCtStep newton
  simp only [bne_iff_ne, ne_eq, hx, not_false_eq_true, if_true]
  rw [no_wrap hn hv hv0 h1 h2]

theorem bsqrtCtStep_eq {n v x nz : Nat} (hn : 1 ≤ n) (hv : v < B ^ n) (hv0 : 0 < v)
    (h1 : Nat.sqrt v ≤ x) (h2 : x ≤ 2 ^ sqrtShift v) : (bsqrtCtStep n v x nz).1 = newton v x := by
  have hx : x ≠ 0 := by have := sqrt_pos_of_pos hv0; omega
  unfold bsqrtCtStep newton
  simp only [bne_iff_ne, ne_eq, hx, not_false_eq_true, if_true]
  rw [no_wrap hn hv hv0 h1 h2]

theorem sqrtCtLoop_succ (n v r xp x : Nat) :
    sqrtCtLoop n v (r + 1) xp x = sqrtCtLoop n v r x (sqrtCtStep n v x) := rfl
theorem bsqrtCtLoop_succ (n v r xp x nz : Nat) :
    bsqrtCtLoop n v (r + 1) xp x nz =
      bsqrtCtLoop n v r x (bsqrtCtStep n v x nz).1 (bsqrtCtStep n v x nz).2 := rfl

/-- the constant-time loop computes consecutive Newton iterates `(x_{i+r}, x_{i+r+1})`. -/
theorem sqrtCtLoop_eq {n v : Nat} (hn : 1 ≤ n) (hv : v < B ^ n) (hv0 : 0 < v) :
    ∀ r i xp, sqrtCtLoop n v (r + 1) xp (newtonIter v (2 ^ sqrtShift v) i) =
      (newtonIter v (2 ^ sqrtShift v) (i + r), newtonIter v (2 ^ sqrtShift v) (i + r + 1)) := by
  have hs0 : Nat.sqrt v < 2 ^ sqrtShift v := sqrt_lt_iff.mpr (start_bounds hv0).1
  have step : ∀ i, sqrtCtStep n v (newtonIter v (2 ^ sqrtShift v) i) =
      newtonIter v (2 ^ sqrtShift v) (i + 1) := fun i =>
    sqrtCtStep_eq hn hv hv0 (newtonIter_ge hv0 hs0 i) (newtonIter_le_start hv0 hs0 i)
  intro r
  induction r with
  | zero => intro i xp; rw [sqrtCtLoop_succ, step]; rfl
  | succ r ih =>
    intro i xp
    rw [sqrtCtLoop_succ, step, ih (i + 1)]
    have e : i + 1 + r = i + (r + 1) := by omega
    rw [e]

theorem bsqrtCtLoop_eq {n v : Nat} (hn : 1 ≤ n) (hv : v < B ^ n) (hv0 : 0 < v) :
    ∀ r i xp nz, bsqrtCtLoop n v (r + 1) xp (newtonIter v (2 ^ sqrtShift v) i) nz =
      (newtonIter v (2 ^ sqrtShift v) (i + r), newtonIter v (2 ^ sqrtShift v) (i + r + 1)) := by
  have hs0 : Nat.sqrt v < 2 ^ sqrtShift v := sqrt_lt_iff.mpr (start_bounds hv0).1
  have step : ∀ i nz, (bsqrtCtStep n v (newtonIter v (2 ^ sqrtShift v) i) nz).1 =
      newtonIter v (2 ^ sqrtShift v) (i + 1) := fun i nz =>
    bsqrtCtStep_eq hn hv hv0 (newtonIter_ge hv0 hs0 i) (newtonIter_le_start hv0 hs0 i)
  intro r
  induction r with
  | zero => intro i xp nz; rw [bsqrtCtLoop_succ, step]; rfl
  | succ r ih =>
    intro i xp nz
    rw [bsqrtCtLoop_succ, step, ih (i + 1)]
    have e : i + 1 + r = i + (r + 1) := by omega
    rw [e]

/-! ### the zero operand -/

theorem one_lt_Bpow {n : Nat} (hn : 1 ≤ n) : 1 < B ^ n := by
  have h : B ^ 1 ≤ B ^ n := Nat.pow_le_pow_right B_pos hn
  rw [Nat.pow_one] at h
  have hB : 1 < B := by decide
  omega

theorem sqrtShift_zero : sqrtShift 0 = 0 := by decide

theorem sqrtCtLoop_zero_zero (n : Nat) : ∀ r xp, sqrtCtLoop n 0 (r + 1) xp 0 = (0, 0) := by
  intro r
  induction r with
  | zero => intro xp; rfl
  | succ r ih => intro xp; rw [sqrtCtLoop_succ]; exact ih _

/-- operand zero: `x0 = 1`, `x1 = 0`, and the masked step keeps `0`. -/
theorem sqrtCtLoop_zero {n : Nat} (hn : 1 ≤ n) (r : Nat) :
    sqrtCtLoop n 0 (r + 1) 1 1 = (1, 0) ∨ sqrtCtLoop n 0 (r + 1) 1 1 = (0, 0) := by
  have h1 : sqrtCtStep n 0 1 = 0 := by
    unfold sqrtCtStep
    simp [Nat.mod_eq_of_lt (one_lt_Bpow hn)]
  rw [sqrtCtLoop_succ, h1]
  cases r with
  | zero => left; rfl
  | succ r => right; exact sqrtCtLoop_zero_zero n r 1

theorem bsqrtCtLoop_zero_zero (n : Nat) : ∀ r xp nz, bsqrtCtLoop n 0 (r + 1) xp 0 nz = (0, 0) := by
  intro r
  induction r with
  | zero => intro xp nz; simp [bsqrtCtLoop, bsqrtCtStep]
  | succ r ih =>
    intro xp nz
    rw [bsqrtCtLoop_succ]
    have : (bsqrtCtStep n 0 0 nz).1 = 0 := by simp [bsqrtCtStep]
    rw [this]; exact ih _ _

theorem bsqrtCtLoop_zero {n : Nat} (hn : 1 ≤ n) (r : Nat) :
    bsqrtCtLoop n 0 (r + 1) 1 1 1 = (1, 0) ∨ bsqrtCtLoop n 0 (r + 1) 1 1 1 = (0, 0) := by
  have h1 : (bsqrtCtStep n 0 1 1).1 = 0 := by
    unfold bsqrtCtStep
    simp [Nat.mod_eq_of_lt (one_lt_Bpow hn)]
  rw [bsqrtCtLoop_succ, h1]
  cases r with
  | zero => left; rfl
  | succ r => right; exact bsqrtCtLoop_zero_zero n r 1 _

/-! ### the vartime loop -/

theorem sqrtVtLoop_succ (n v f x : Nat) :
    sqrtVtLoop n v (f + 1) x =
      if x = 0 then some x
      else if x > (x + v / x) % B ^ n / 2 then sqrtVtLoop n v f ((x + v / x) % B ^ n / 2)
      else some x := rfl

/-- the vartime loop stops exactly at the first iterate equal to `⌊√v⌋`, given enough fuel. -/
theorem sqrtVtLoop_eq {n v : Nat} (hn : 1 ≤ n) (hv : v < B ^ n) (hv0 : 0 < v) :
    ∀ f i, (∃ j, i ≤ j ∧ j < i + f ∧ newtonIter v (2 ^ sqrtShift v) j = Nat.sqrt v) →
      sqrtVtLoop n v f (newtonIter v (2 ^ sqrtShift v) i) = some (Nat.sqrt v) := by
  have hs0 : Nat.sqrt v < 2 ^ sqrtShift v := sqrt_lt_iff.mpr (start_bounds hv0).1
  have hs := sqrt_pos_of_pos hv0
  intro f
  induction f with
  | zero => intro i ⟨j, h1, h2, _⟩; omega
  | succ f ih =>
    intro i ⟨j, h1, h2, e⟩
    have hge := newtonIter_ge hv0 hs0 i
    have hle := newtonIter_le_start hv0 hs0 i
    rw [sqrtVtLoop_succ, no_wrap hn hv hv0 hge hle, if_neg (by omega)]
    rw [show (newtonIter v (2 ^ sqrtShift v) i + v / newtonIter v (2 ^ sqrtShift v) i) / 2 =
      newtonIter v (2 ^ sqrtShift v) (i + 1) from rfl]
    rcases Nat.eq_or_lt_of_le hge with heq | hlt
    · have := le_newton (by omega) (Nat.le_of_eq heq.symm)
      rw [newtonIter_succ, if_neg (by omega), ← heq]
    · have := newton_lt hlt
      rw [← newtonIter_succ] at this
      rw [if_pos this]
      apply ih (i + 1)
      refine ⟨j, ?_, by omega, e⟩
      rcases Nat.eq_or_lt_of_le h1 with h | h
      · subst h; omega
      · omega

/-! ### the round count -/

/-- `⌊log₂ BITS⌋ + 1` Newton steps reach `⌊√v⌋` for every `v < 2^BITS`. -/
theorem hit_within_log2Bits {n v : Nat} (hv : v < B ^ n) (hv0 : 0 < v) :
    ∃ j, j ≤ log2Bits n + 1 ∧ newtonIter v (2 ^ sqrtShift v) j = Nat.sqrt v := by
  obtain ⟨h0, h0'⟩ := start_bounds hv0
  apply newton_hits hv0 h0 h0' (by omega)
  unfold log2Bits
  have h1 : 64 * n < 2 ^ ((64 * n).log2 + 1) := Nat.lt_log2_self
  have h2 : 2 ^ ((64 * n).log2 + 1) = 2 * 2 ^ (64 * n).log2 := by rw [Nat.pow_succ]; omega
  have h3 : 64 * n + 2 ≤ 2 ^ ((64 * n).log2 + 1) := by omega
  have h4 : 2 ^ (64 * n + 2) ≤ 2 ^ (2 ^ ((64 * n).log2 + 1)) := Nat.pow_le_pow_right (by decide) h3
  rw [B_pow_eq] at hv
  have h5 : 2 ^ (64 * n + 2) = 4 * 2 ^ (64 * n) := by rw [Nat.pow_add]; omega
  omega

theorem log2Bits_fuel {n : Nat} (hn : 1 ≤ n) : log2Bits n + 2 ≤ sqrtFuel n := by
  unfold log2Bits sqrtFuel
  have h1 : n < 2 ^ n := Nat.lt_two_pow_self
  have h2 : 64 * n < 2 ^ (6 + n) := by rw [Nat.pow_add]; omega
  have h3 : (64 * n).log2 < 6 + n := (Nat.log2_lt (by omega)).mpr h2
  omega

end CB.Sqrt
