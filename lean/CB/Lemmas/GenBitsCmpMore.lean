/-
  CB.Lemmas.GenBitsCmpMore — what ONE ROUND of each translated loop of CB/Gen/CmpMore.lean is, and what the straight-line
  functions around them are (regenerated from /repo's source on every run by tools/translate.py):
  `impl Limb { eq_vartime, bitxor, bitor, not }`, `Uint::{is_odd, cmp, cmp_vartime, bitor, bitxor, not, wrapping_or,
  wrapping_xor, set_bit}`, the `impl Uint` forwarders of src/uint/bits.rs, and the variable-time slice queries
  `bit_vartime`, `bits_vartime`, `trailing_zeros_vartime`, `trailing_ones_vartime`.

  Like GenBitsChains*.lean / GenBitsShifts.lean this is the only file of the layer that looks at the generated TEXT:
  every lemma unfolds the generated definitions and, where the two sides are not already identical, decides the words with
  `bv_decide` (through `chain_congr`, which keeps the recursive calls and `List.set` folded and compares their arguments).
  The three data-dependent loop forms of this layer:
    * `cmp_vartime` — `loop { ..; if i == 0 { return Equal; } i -= 1; }`: structural recursion on the counter, the two
      patterns are the two outcomes of `i == 0` (`cmpv_loop_zero`, `cmpv_loop_succ`);
    * `bits_vartime` — the search loop `while i > 0 && limbs[i].0 == 0 { i -= 1; }` (`bitsv_loop_zero/succ`);
    * `trailing_{zeros,ones}_vartime` — `while i < len { ..; if z != BITS { break; } i += 1; }` (`tzv_loop_succ`, `tov_loop_succ`).
  The inductions are in CB/Lemmas/GenCmpMore.lean (no `bv_decide`).

  `bv_decide` file: its name matches `*Bits*`.
-/
import CB.Gen.CmpMore
import CB.Lemmas.GenBitsChainsCmp
import CB.Lemmas.GenBitsShifts
import Std.Tactic.BVDecide
namespace CB.GenBits
open CB.Gen

/-- two conditionals that differ only in the (Boolean) test -/
theorem ite_cond_congr {α : Type} (c1 c2 : Bool) (x y : α) (h : c1 = c2) :
    (if c1 = true then x else y) = (if c2 = true then x else y) := by rw [h]

/-- closes a round lemma whose two sides are conditionals with differently written tests (`0 == x` / `x == 0`) -/
macro "cond_eq" : tactic =>
  `(tactic| ((try simp only [gen_defs]) <;> first | with_reducible rfl | (refine ite_cond_congr _ _ _ _ ?_ <;> bv_decide) | round_eq))

/-- two conditionals with the same test -/
theorem ite_branch_congr {α : Type} (c : Prop) [Decidable c] (x x' y y' : α) (hx : x = x') (hy : y = y') :
    (if c then x else y) = (if c then x' else y') := by rw [hx, hy]

/-- closes a round lemma of a loop with `break`: both sides are `if exit then state else <recursive call>` with the same test;
    decide the state, compare the arguments of the recursive call -/
macro "break_eq" : tactic =>
  `(tactic| ((try simp only [gen_defs]) <;> first | with_reducible rfl | round_eq | (refine ite_branch_congr _ _ _ _ _ ?_ ?_ <;> chain_congr 6)))

/-! ## `impl Limb` -/

theorem cm_limb_bitor_eq (a b : BitVec 64) : CmpMore.Limb.bitor a b = a ||| b := by round_eq
theorem cm_limb_bitxor_eq (a b : BitVec 64) : CmpMore.Limb.bitxor a b = a ^^^ b := by round_eq
theorem cm_limb_not_eq (a : BitVec 64) : CmpMore.Limb.not a = ~~~a := by round_eq
theorem cm_limb_eq_vartime_eq (a b : BitVec 64) : CmpMore.Limb.eq_vartime a b = (a == b) := by
  simp only [gen_defs]

/-! ## `Uint::is_odd` -/

theorem is_odd_eq (L : Nat) (a : List (BitVec 64)) :
    CmpMore.Uint.is_odd L a = Choice.from_word_lsb (a.getD 0 0#64 &&& 1#64) := by
  simp only [CmpMore.Uint.is_odd]

/-! ## `Uint::cmp` (the fused loop: `sbb` chain of `rhs - lhs`, the result limbs OR-ed into `diff`) -/

theorem cmp_loop_zero (L : Nat) (a b : List (BitVec 64)) (i : Nat) (bw d : BitVec 64) :
    CmpMore.Uint.cmp_loop1 L a b 0 i bw d = (bw, d) := by
  rw [CmpMore.Uint.cmp_loop1]

theorem cmp_loop_succ (L : Nat) (a b : List (BitVec 64)) (n i : Nat) (bw d : BitVec 64) (h : i < L) :
    CmpMore.Uint.cmp_loop1 L a b (n + 1) i bw d =
      CmpMore.Uint.cmp_loop1 L a b n (i + 1) (Prim.sbb (b.getD i 0#64) (a.getD i 0#64) bw).2
        (d ||| (Prim.sbb (b.getD i 0#64) (a.getD i 0#64) bw).1) := by
  rw [CmpMore.Uint.cmp_loop1, if_pos h] <;> round_eq

/-- the value after the loop: `sgn = ((borrow & 2) as i8) - 1`, result `(diff.is_nonzero().to_u8() as i8) * sgn` -/
theorem cmp_eq_loop (L : Nat) (a b : List (BitVec 64)) :
    CmpMore.Uint.cmp L a b =
      ((Choice.from_word_nonzero (CmpMore.Uint.cmp_loop1 L a b L 0 0#64 0#64).2).setWidth 8 &&& 1#8) *
        ((((CmpMore.Uint.cmp_loop1 L a b L 0 0#64 0#64).1 &&& 2#64).setWidth 8) - 1#8) := by
  round_eq

/-- the last step of `cmp` on words: a borrow mask `bw ∈ {0, MAX}`, a non-zero flag `nz ∈ {0, MAX}` -/
theorem cmp_final_bv (nz bw : BitVec 64) (hnz : nz = 0#64 ∨ nz = ~~~0#64) (hbw : bw = 0#64 ∨ bw = ~~~0#64) :
    ((nz.setWidth 8 &&& 1#8) * ((bw &&& 2#64).setWidth 8 - 1#8)).toInt =
      (if nz = 0#64 then 0 else if bw = 0#64 then -1 else 1 : Int) := by
  rcases hnz with rfl | rfl <;> rcases hbw with rfl | rfl <;> decide

/-! ## `Uint::cmp_vartime` (`loop` left by `return`; structural recursion on the counter) -/

theorem cmpv_loop_zero (L : Nat) (a b : List (BitVec 64)) :
    CmpMore.Uint.cmp_vartime_loop1 L a b 0 =
      if (Prim.sbb (a.getD 0 0#64) (b.getD 0 0#64) 0#64).1 != 0#64 then
        (if (Prim.sbb (a.getD 0 0#64) (b.getD 0 0#64) 0#64).2 != 0#64 then -1#8 else 1#8)
      else 0#8 := by
  rw [CmpMore.Uint.cmp_vartime_loop1] <;> round_eq

theorem cmpv_loop_succ (L : Nat) (a b : List (BitVec 64)) (n : Nat) :
    CmpMore.Uint.cmp_vartime_loop1 L a b (n + 1) =
      if (Prim.sbb (a.getD (n + 1) 0#64) (b.getD (n + 1) 0#64) 0#64).1 != 0#64 then
        (if (Prim.sbb (a.getD (n + 1) 0#64) (b.getD (n + 1) 0#64) 0#64).2 != 0#64 then -1#8 else 1#8)
      else CmpMore.Uint.cmp_vartime_loop1 L a b n := by
  rw [CmpMore.Uint.cmp_vartime_loop1] <;> round_eq

theorem cmpv_eq (L : Nat) (a b : List (BitVec 64)) :
    CmpMore.Uint.cmp_vartime L a b = CmpMore.Uint.cmp_vartime_loop1 L a b (L - 1) := by
  simp only [CmpMore.Uint.cmp_vartime]

/-! ## `Uint::bitor`, `Uint::bitxor`, `Uint::not` (limb-wise loops) and the `wrapping_*` forwarders -/

theorem bitor_loop_zero (L : Nat) (a b : List (BitVec 64)) (i : Nat) (limbs : List (BitVec 64)) :
    CmpMore.Uint.bitor_loop1 L a b 0 i limbs = limbs := by
  rw [CmpMore.Uint.bitor_loop1]

theorem bitor_loop_succ (L : Nat) (a b : List (BitVec 64)) (n i : Nat) (limbs : List (BitVec 64)) (h : i < L) :
    CmpMore.Uint.bitor_loop1 L a b (n + 1) i limbs =
      CmpMore.Uint.bitor_loop1 L a b n (i + 1) (limbs.set i (a.getD i 0#64 ||| b.getD i 0#64)) := by
  rw [CmpMore.Uint.bitor_loop1, if_pos h] <;> round_eq

theorem bitor_eq_loop (L : Nat) (a b : List (BitVec 64)) :
    CmpMore.Uint.bitor L a b = CmpMore.Uint.bitor_loop1 L a b L 0 (List.replicate L 0#64) := by
  round_eq

theorem bitxor_loop_zero (L : Nat) (a b : List (BitVec 64)) (i : Nat) (limbs : List (BitVec 64)) :
    CmpMore.Uint.bitxor_loop1 L a b 0 i limbs = limbs := by
  rw [CmpMore.Uint.bitxor_loop1]

theorem bitxor_loop_succ (L : Nat) (a b : List (BitVec 64)) (n i : Nat) (limbs : List (BitVec 64)) (h : i < L) :
    CmpMore.Uint.bitxor_loop1 L a b (n + 1) i limbs =
      CmpMore.Uint.bitxor_loop1 L a b n (i + 1) (limbs.set i (a.getD i 0#64 ^^^ b.getD i 0#64)) := by
  rw [CmpMore.Uint.bitxor_loop1, if_pos h] <;> round_eq

theorem bitxor_eq_loop (L : Nat) (a b : List (BitVec 64)) :
    CmpMore.Uint.bitxor L a b = CmpMore.Uint.bitxor_loop1 L a b L 0 (List.replicate L 0#64) := by
  round_eq

theorem not_loop_zero (L : Nat) (a : List (BitVec 64)) (i : Nat) (limbs : List (BitVec 64)) :
    CmpMore.Uint.not_loop1 L a 0 i limbs = limbs := by
  rw [CmpMore.Uint.not_loop1]

theorem not_loop_succ (L : Nat) (a : List (BitVec 64)) (n i : Nat) (limbs : List (BitVec 64)) (h : i < L) :
    CmpMore.Uint.not_loop1 L a (n + 1) i limbs =
      CmpMore.Uint.not_loop1 L a n (i + 1) (limbs.set i (~~~(a.getD i 0#64))) := by
  rw [CmpMore.Uint.not_loop1, if_pos h] <;> round_eq

theorem not_eq_loop (L : Nat) (a : List (BitVec 64)) :
    CmpMore.Uint.not L a = CmpMore.Uint.not_loop1 L a L 0 (List.replicate L 0#64) := by
  round_eq

theorem wrapping_or_eq (L : Nat) (a b : List (BitVec 64)) : CmpMore.Uint.wrapping_or L a b = CmpMore.Uint.bitor L a b := by
  simp only [CmpMore.Uint.wrapping_or]
theorem wrapping_xor_eq (L : Nat) (a b : List (BitVec 64)) : CmpMore.Uint.wrapping_xor L a b = CmpMore.Uint.bitxor L a b := by
  simp only [CmpMore.Uint.wrapping_xor]

/-! ## `Uint::set_bit` (constant time: every limb rewritten through two `select_word`s) -/

theorem set_bit_loop_zero (L : Nat) (bv : BitVec 64) (lm : BitVec 32) (im : BitVec 64) (i : Nat) (r : List (BitVec 64)) :
    CmpMore.Uint.set_bit_loop1 L bv lm im 0 i r = r := by
  rw [CmpMore.Uint.set_bit_loop1]

/-- one round, the two selects spelled out (`select_word c x y = x ^ (c & (x ^ y))`) -/
theorem set_bit_loop_succ (L : Nat) (bv : BitVec 64) (lm : BitVec 32) (im : BitVec 64) (n i : Nat) (r : List (BitVec 64))
    (h : i < L) :
    CmpMore.Uint.set_bit_loop1 L bv lm im (n + 1) i r =
      CmpMore.Uint.set_bit_loop1 L bv lm im n (i + 1)
        (r.set i (r.getD i 0#64 ^^^ (Choice.from_u32_eq (BitVec.ofNat 32 i) lm &&&
          (r.getD i 0#64 ^^^ ((r.getD i 0#64 &&& ~~~im) ^^^ (bv &&& ((r.getD i 0#64 &&& ~~~im) ^^^ (r.getD i 0#64 ||| im)))))))) := by
  rw [CmpMore.Uint.set_bit_loop1, if_pos h] <;> (simp only [Choice.select_word] <;> chain_congr 6)

theorem set_bit_eq_loop (L : Nat) (a : List (BitVec 64)) (idx : BitVec 32) (bv : BitVec 64) :
    CmpMore.Uint.set_bit L a idx bv =
      CmpMore.Uint.set_bit_loop1 L bv (idx / 64#32) (1#64 <<< (idx % 64#32)) L 0 a := by
  simp only [CmpMore.Uint.set_bit] <;> chain_congr 6

/-! ## the forwarders of `impl Uint` in src/uint/bits.rs: a call of the slice function with `&self.limbs` -/

theorem uint_bit_eq (L : Nat) (a : List (BitVec 64)) (idx : BitVec 32) :
    CmpMore.Uint.bit L a idx = Shifts.Bits.bit a idx := by simp only [CmpMore.Uint.bit]
theorem uint_bit_vartime_eq (L : Nat) (a : List (BitVec 64)) (idx : BitVec 32) :
    CmpMore.Uint.bit_vartime L a idx = CmpMore.Bits.bit_vartime a idx := by simp only [CmpMore.Uint.bit_vartime]
theorem uint_leading_zeros_eq (L : Nat) (a : List (BitVec 64)) :
    CmpMore.Uint.leading_zeros L a = Shifts.Bits.leading_zeros a := by simp only [CmpMore.Uint.leading_zeros]
theorem uint_bits_eq (L : Nat) (a : List (BitVec 64)) :
    CmpMore.Uint.bits L a = BitVec.ofNat 32 (64 * L) - Shifts.Bits.leading_zeros a := by
  simp only [CmpMore.Uint.bits, CmpMore.Uint.leading_zeros]
theorem uint_bits_vartime_eq (L : Nat) (a : List (BitVec 64)) :
    CmpMore.Uint.bits_vartime L a = CmpMore.Bits.bits_vartime a := by simp only [CmpMore.Uint.bits_vartime]
theorem uint_leading_zeros_vartime_eq (L : Nat) (a : List (BitVec 64)) :
    CmpMore.Uint.leading_zeros_vartime L a = BitVec.ofNat 32 (64 * L) - CmpMore.Bits.bits_vartime a := by
  simp only [CmpMore.Uint.leading_zeros_vartime, CmpMore.Uint.bits_vartime]
theorem uint_trailing_zeros_eq (L : Nat) (a : List (BitVec 64)) :
    CmpMore.Uint.trailing_zeros L a = Shifts.Bits.trailing_zeros a := by simp only [CmpMore.Uint.trailing_zeros]
theorem uint_trailing_zeros_vartime_eq (L : Nat) (a : List (BitVec 64)) :
    CmpMore.Uint.trailing_zeros_vartime L a = CmpMore.Bits.trailing_zeros_vartime a := by
  simp only [CmpMore.Uint.trailing_zeros_vartime]
theorem uint_trailing_ones_eq (L : Nat) (a : List (BitVec 64)) :
    CmpMore.Uint.trailing_ones L a = Shifts.Bits.trailing_ones a := by simp only [CmpMore.Uint.trailing_ones]
theorem uint_trailing_ones_vartime_eq (L : Nat) (a : List (BitVec 64)) :
    CmpMore.Uint.trailing_ones_vartime L a = CmpMore.Bits.trailing_ones_vartime a := by
  simp only [CmpMore.Uint.trailing_ones_vartime]

/-! ## `bit_vartime` (an `if / else` expression) -/

theorem bit_vartime_eq (a : List (BitVec 64)) (idx : BitVec 32) :
    CmpMore.Bits.bit_vartime a idx =
      if (idx / 64#32).toNat ≥ a.length then false
      else (((a.getD (idx / 64#32).toNat 0#64) >>> ((idx % 64#32).toNat % 64)) &&& 1#64) == 1#64 := by
  simp only [CmpMore.Bits.bit_vartime, decide_eq_true_eq]
  <;> (by_cases hge : (idx / 64#32).toNat ≥ a.length <;> simp [hge, Nat.not_lt.mpr, Nat.lt_of_not_le])

/-! ## `bits_vartime` (the search loop `while i > 0 && limbs[i].0 == 0 { i -= 1; }`) -/

theorem bitsv_loop_zero (a : List (BitVec 64)) : CmpMore.Bits.bits_vartime_loop1 a 0 = 0 := by
  rw [CmpMore.Bits.bits_vartime_loop1]

theorem bitsv_loop_succ (a : List (BitVec 64)) (n : Nat) :
    CmpMore.Bits.bits_vartime_loop1 a (n + 1) =
      if a.getD (n + 1) 0#64 == 0#64 then CmpMore.Bits.bits_vartime_loop1 a n else n + 1 := by
  rw [CmpMore.Bits.bits_vartime_loop1] <;> cond_eq

theorem bitsv_eq (a : List (BitVec 64)) :
    CmpMore.Bits.bits_vartime a =
      64#32 * (BitVec.ofNat 32 (CmpMore.Bits.bits_vartime_loop1 a (a.length - 1)) + 1#32) -
        Shifts.Limb.leading_zeros (a.getD (CmpMore.Bits.bits_vartime_loop1 a (a.length - 1)) 0#64) := by
  simp only [CmpMore.Bits.bits_vartime]

/-! ## `trailing_zeros_vartime`, `trailing_ones_vartime` (loops with `break`) -/

theorem tzv_loop_zero (a : List (BitVec 64)) (i : Nat) (c : BitVec 32) :
    CmpMore.Bits.trailing_zeros_vartime_loop1 a 0 i c = c := by
  rw [CmpMore.Bits.trailing_zeros_vartime_loop1]

theorem tzv_loop_succ (a : List (BitVec 64)) (n i : Nat) (c : BitVec 32) (h : i < a.length) :
    CmpMore.Bits.trailing_zeros_vartime_loop1 a (n + 1) i c =
      if Shifts.Limb.trailing_zeros (a.getD i 0#64) != 64#32 then c + Shifts.Limb.trailing_zeros (a.getD i 0#64)
      else CmpMore.Bits.trailing_zeros_vartime_loop1 a n (i + 1) (c + Shifts.Limb.trailing_zeros (a.getD i 0#64)) := by
  rw [CmpMore.Bits.trailing_zeros_vartime_loop1, if_pos h] <;> break_eq

theorem tzv_eq (a : List (BitVec 64)) :
    CmpMore.Bits.trailing_zeros_vartime a = CmpMore.Bits.trailing_zeros_vartime_loop1 a a.length 0 0#32 := by
  simp only [CmpMore.Bits.trailing_zeros_vartime]

theorem tov_loop_zero (a : List (BitVec 64)) (i : Nat) (c : BitVec 32) :
    CmpMore.Bits.trailing_ones_vartime_loop1 a 0 i c = c := by
  rw [CmpMore.Bits.trailing_ones_vartime_loop1]

theorem tov_loop_succ (a : List (BitVec 64)) (n i : Nat) (c : BitVec 32) (h : i < a.length) :
    CmpMore.Bits.trailing_ones_vartime_loop1 a (n + 1) i c =
      if Shifts.Limb.trailing_ones (a.getD i 0#64) != 64#32 then c + Shifts.Limb.trailing_ones (a.getD i 0#64)
      else CmpMore.Bits.trailing_ones_vartime_loop1 a n (i + 1) (c + Shifts.Limb.trailing_ones (a.getD i 0#64)) := by
  rw [CmpMore.Bits.trailing_ones_vartime_loop1, if_pos h] <;> break_eq

theorem tov_eq (a : List (BitVec 64)) :
    CmpMore.Bits.trailing_ones_vartime a = CmpMore.Bits.trailing_ones_vartime_loop1 a a.length 0 0#32 := by
  simp only [CmpMore.Bits.trailing_ones_vartime]

end CB.GenBits
