/-
  CB.Lemmas.GenSafeGcdConv — the hand-written model of the limb conversion `impl_limb_convert!` (`convLoop`, `maskLoop`,
  `limbConvert` of CB/Model/SafeGcd.lean, lists of `Nat`s) IS the loop pair the translator emits for the EXPANDED macro
  (`UnsatInt::from_uint` / `UnsatInt::to_uint` of src/modular/safegcd.rs; CB/Gen/SafeGcdLimbs.lean, namespace
  `CB.Gen.SafeGcdLimbs.Convert`, regenerated from /repo's current source on every run), for EVERY input length, output length
  and every pair of word sizes `0 < ib, ob ≤ 64`.

  `cvLoop` / `cvMaskLoop` below are the two translated loops with the word sizes as parameters (the two instances
  `(64, 62)` and `(62, 64)` are compared with the generated text in CB/Lemmas/GenBitsSafeGcdConv.lean, the only file that reads
  it).  The bridge is an induction over the fuel of the translated `while bits < total` loop; the translator calls it with
  fuel `total` (the loop bound minus the start value), the model runs `total + 1` rounds: `convLoop_fuel` shows that every
  fuel `≥ total - bits` gives the same result, because every step `min (ib - bits % ib) (ob - bits % ob)` is `≥ 1`.
  No `bv_decide` in this file.
-/
import CB.Lemmas.C10Conv
import CB.Lemmas.GenChainsSub
namespace CB.GenSafeGcdConv
open CB CB.SafeGcd
open CB.GenChains (nats)

/-- the translated `while bits < total` loop of the expanded macro, the word sizes as parameters -/
def cvLoop (inp : List (BitVec 64)) (ib ob total : Nat) : Nat → Nat → List (BitVec 64) → List (BitVec 64)
  | 0, _, out => out
  | n + 1, bits, out =>
    if bits < total then
      cvLoop inp ib ob total n
        (bits + (if (ib - bits % ib) > (ob - bits % ob) then (ob - bits % ob) else (ib - bits % ib)))
        (out.set (bits / ob)
          ((out.getD (bits / ob) 0#64) ||| (((inp.getD (bits / ib) 0#64) >>> (bits % ib % 64)) <<< (bits % ob % 64))))
    else out

/-- the translated `while filled > 0 { filled -= 1; out[filled] &= mask }` loop -/
def cvMaskLoop (mask : BitVec 64) : Nat → List (BitVec 64) → List (BitVec 64)
  | 0, out => out
  | n + 1, out => cvMaskLoop mask n (out.set n ((out.getD n 0#64) &&& mask))

theorem nats_set (l : List (BitVec 64)) (i : Nat) (v : BitVec 64) : nats (l.set i v) = (nats l).set i v.toNat := by
  simp [nats, List.map_set]

theorem nats_getD (l : List (BitVec 64)) (i : Nat) : (nats l).getD i 0 = (l.getD i 0#64).toNat := by
  simp only [nats, List.getD, List.getElem?_map]
  cases l[i]? <;> simp

theorem nats_replicate (n : Nat) : nats (List.replicate n 0#64) = List.replicate n 0 := by
  simp [nats]

theorem step_eq_min (a b : Nat) : (if a > b then b else a) = min a b := by
  rw [Nat.min_def]; split <;> split <;> omega

/-- more fuel than `total - bits` changes nothing: every step of the bit cursor is `≥ 1` -/
theorem convLoop_fuel_succ (inp : List Nat) (ib ob otype total : Nat) (hib : 0 < ib) (hob : 0 < ob) :
    ∀ (fuel bits : Nat) (out : List Nat), total - bits ≤ fuel →
      convLoop inp ib ob otype total (fuel + 1) bits out = convLoop inp ib ob otype total fuel bits out := by
  intro fuel
  induction fuel with
  | zero =>
    intro bits out h
    have : ¬ bits < total := by omega
    simp [convLoop, this]
  | succ f ih =>
    intro bits out h
    conv_lhs => rw [convLoop]
    conv_rhs => rw [convLoop]
    by_cases hlt : bits < total
    · have h1 : bits % ib < ib := Nat.mod_lt _ hib
      have h2 : bits % ob < ob := Nat.mod_lt _ hob
      rw [if_pos hlt, if_pos hlt]
      exact ih _ _ (by omega)
    · rw [if_neg hlt, if_neg hlt]

theorem cvLoop_bridge (inp : List (BitVec 64)) (ib ob total : Nat) (hib : 0 < ib) (hob : 0 < ob) (hib64 : ib ≤ 64)
    (hob64 : ob ≤ 64) :
    ∀ (n bits : Nat) (out : List (BitVec 64)),
      nats (cvLoop inp ib ob total n bits out) = convLoop (nats inp) ib ob 64 total n bits (nats out) := by
  intro n
  induction n with
  | zero => intro bits out; rw [cvLoop, convLoop]
  | succ n ih =>
    intro bits out
    rw [cvLoop, convLoop]
    split
    · have h1 : bits % ib < ib := Nat.mod_lt _ hib
      have h2 : bits % ob < ob := Nat.mod_lt _ hob
      rw [ih, nats_set, step_eq_min]
      simp only [BitVec.toNat_or, BitVec.toNat_shiftLeft, BitVec.toNat_ushiftRight, nats_getD,
        Nat.mod_eq_of_lt (show bits % ib < 64 by omega), Nat.mod_eq_of_lt (show bits % ob < 64 by omega)]
    · rfl

theorem cvMaskLoop_bridge (mask : BitVec 64) :
    ∀ (n : Nat) (out : List (BitVec 64)), nats (cvMaskLoop mask n out) = maskLoop mask.toNat n (nats out) := by
  intro n
  induction n with
  | zero => intro out; rw [cvMaskLoop, maskLoop]
  | succ n ih =>
    intro out
    rw [cvMaskLoop, maskLoop, ih, nats_set]
    simp only [BitVec.toNat_and, nats_getD]

/-- the whole expanded macro: both loops, the bound `total` and the count `filled` as the translator emits them -/
def cvConvert (inp : List (BitVec 64)) (ib ob olen : Nat) (mask : BitVec 64) : List (BitVec 64) :=
  let total := (if (inp.length * ib) > (olen * ob) then (olen * ob) else (inp.length * ib))
  cvMaskLoop mask ((total / ob) + (if (total % ob) > 0 then 1 else 0))
    (cvLoop inp ib ob total total 0 (List.replicate olen 0#64))

theorem cvConvert_bridge (inp : List (BitVec 64)) (ib ob olen : Nat) (mask : BitVec 64) (hib : 0 < ib) (hob : 0 < ob)
    (hib64 : ib ≤ 64) (hob64 : ob ≤ 64) (hmask : mask.toNat = (2 ^ 64 - 1) >>> (64 - ob)) :
    nats (cvConvert inp ib ob olen mask) = limbConvert (nats inp) ib ob olen := by
  unfold cvConvert limbConvert
  simp only [step_eq_min, cvMaskLoop_bridge, cvLoop_bridge inp ib ob _ hib hob hib64 hob64, nats_replicate, hmask,
    CB.GenChains.nats_length]
  rw [convLoop_fuel_succ _ _ _ _ _ hib hob _ _ _ (by omega)]

end CB.GenSafeGcdConv
