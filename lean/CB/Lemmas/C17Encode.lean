/-
  CB.Lemmas.C17Encode — the output side: digit emission, zero padding and the final
  `while skip + 1 < size && out[skip] == b'0'` strip give the canonical numeral.
-/
import CB.Lemmas.C17Numeral
import CB.Lemmas.Limbs
namespace CB.Radix
open CB

/-- the `n`-digit zero-padded big-endian expansion (what the encoders write into the buffer) -/
def digitsPad (r : Nat) : Nat → Nat → List Nat
  | 0, _ => []
  | n + 1, x => digitsPad r n (x / r) ++ [x % r]

theorem digitsPad_length (r n x : Nat) : (digitsPad r n x).length = n := by
  induction n generalizing x with
  | zero => rfl
  | succ n ih => simp [digitsPad, ih]

/-- the inner digit loop of `encode_limbs` writes the `k` low digits of the word -/
theorem emitDigits_eq (radix : Nat) : ∀ (k w : Nat) (acc : List Nat),
    emitDigits radix k w acc = (digitsPad radix k w).map (fun d => digitByte (d % 256)) ++ acc := by
  intro k
  induction k with
  | zero => intro w acc; rfl
  | succ k ih =>
    intro w acc
    simp only [emitDigits, digitsPad, ih, List.map_append, List.map_cons, List.map_nil,
      List.append_assoc, List.cons_append, List.nil_append]

/-- the fuel of `digitsLE` does not matter once it is large enough -/
theorem digitsLE_fuel {r : Nat} (hr : 2 ≤ r) {f f' x : Nat} (hf : x ≤ f) (hf' : x ≤ f') :
    digitsLE r f x = digitsLE r f' x := by
  have h1 := digitsLE_valLE hr (digitsLE_lt (by omega) f' x) (digitsLE_last_ne_zero hr f' x hf') f
    (by rw [valLE_digitsLE hr f' x hf']; exact hf)
  rw [valLE_digitsLE hr f' x hf'] at h1
  exact h1

theorem digitsBE_step {r : Nat} (hr : 2 ≤ r) {x : Nat} (hx : x ≠ 0) :
    digitsBE r x = digitsBE r (x / r) ++ [x % r] := by
  have hlt : x / r < x := Nat.div_lt_self (by omega) (by omega)
  cases x with
  | zero => exact absurd rfl hx
  | succ y =>
    simp only [digitsBE]
    rw [digitsLE, if_neg hx, List.reverse_cons]
    congr 2
    exact digitsLE_fuel hr (by omega) (Nat.le_refl _)

/-- zero padding: the padded expansion is zeros followed by the canonical digits -/
theorem digitsPad_eq {r : Nat} (hr : 2 ≤ r) : ∀ (n x : Nat), x < r ^ n →
    digitsPad r n x = List.replicate (n - (digitsBE r x).length) 0 ++ digitsBE r x ∧
    (digitsBE r x).length ≤ n := by
  intro n
  induction n with
  | zero =>
    intro x hx
    have : x = 0 := by simpa using hx
    subst this
    simp [digitsPad, digitsBE_zero]
  | succ n ih =>
    intro x hx
    have hq : x / r < r ^ n := by
      rw [Nat.div_lt_iff_lt_mul (by omega)]; rw [Nat.pow_succ] at hx; exact hx
    obtain ⟨e, hl⟩ := ih (x / r) hq
    by_cases hx0 : x = 0
    · subst hx0
      have hz : (0 : Nat) / r = 0 := Nat.zero_div r
      rw [hz] at e
      simp only [digitsPad, hz, e, digitsBE_zero, List.length_nil, Nat.sub_zero, List.append_nil,
        Nat.zero_mod]
      refine ⟨?_, Nat.zero_le _⟩
      rw [← List.replicate_succ']
    · rw [digitsBE_step hr hx0]
      simp only [digitsPad, e, List.length_append, List.length_singleton]
      refine ⟨?_, by omega⟩
      rw [List.append_assoc]
      congr 2
      omega

theorem digitChar_eq_48 {d : Nat} : digitChar d = 48 ↔ d = 0 := by
  by_cases h10 : d < 10
  · rw [digitChar_lt10 h10]; omega
  · rw [digitChar_ge10 h10]; omega

theorem skipZeros_replicate : ∀ (z : Nat), skipZeros (List.replicate (z + 1) 48) = [48] := by
  intro z
  induction z with
  | zero => rfl
  | succ z ih =>
    rw [List.replicate_succ, List.replicate_succ, skipZeros, if_pos rfl, ← List.replicate_succ]
    exact ih

theorem skipZeros_zeros_append : ∀ (z : Nat) (l : List Nat), l ≠ [] → l.head? ≠ some 48 →
    skipZeros (List.replicate z 48 ++ l) = l := by
  intro z
  induction z with
  | zero =>
    intro l hne hh
    simp only [List.replicate_zero, List.nil_append]
    cases l with
    | nil => exact absurd rfl hne
    | cons a t =>
      cases t with
      | nil => rfl
      | cons b t =>
        rw [skipZeros, if_neg (by simpa using hh)]
  | succ z ih =>
    intro l hne hh
    rw [List.replicate_succ, List.cons_append]
    cases hrest : List.replicate z 48 ++ l with
    | nil =>
      have : l = [] := (List.append_eq_nil_iff.mp hrest).2
      exact absurd this hne
    | cons b t =>
      rw [skipZeros, if_pos rfl, ← hrest]
      exact ih l hne hh

/-- T17.3 (output stage): a non-empty buffer holding the zero-padded expansion of `x`, run through
the leading-zero strip, is the canonical numeral of `x` -/
theorem skipZeros_padded {r : Nat} (hr : 2 ≤ r) {n x : Nat} (hn : 0 < n) (hx : x < r ^ n) :
    skipZeros ((digitsPad r n x).map digitChar) = specFormat r x := by
  obtain ⟨e, hl⟩ := digitsPad_eq hr n x hx
  rw [e, List.map_append, List.map_replicate]
  have h48 : digitChar 0 = 48 := rfl
  rw [h48]
  by_cases hx0 : x = 0
  · subst hx0
    simp only [digitsBE_zero, List.length_nil, Nat.sub_zero, List.map_nil, List.append_nil, specFormat,
      if_true]
    obtain ⟨m, rfl⟩ : ∃ m, n = m + 1 := ⟨n - 1, by omega⟩
    exact skipZeros_replicate m
  · have hfmt : specFormat r x = (digitsBE r x).map digitChar := by simp [specFormat, hx0]
    rw [hfmt]
    have hc := digitsBE_canonical hr x
    have hne := digitsBE_ne_nil hr hx0
    apply skipZeros_zeros_append
    · simpa using hne
    · cases hd : digitsBE r x with
      | nil => exact absurd hd hne
      | cons d ds =>
        simp only [List.map_cons, List.head?_cons, ne_eq, Option.some.injEq]
        rw [digitChar_eq_48]
        intro h0
        apply hc.2
        rw [hd, h0]; rfl

/-! ### buffer sizes are large enough -/

theorem val_lt_two_pow {limbs : List Nat} (hw : WF limbs) : val limbs < 2 ^ (64 * limbs.length) := by
  have := val_lt hw
  rw [B_eq_pow, ← Nat.pow_mul] at this
  exact this

/-- power-of-two radix: `size = ceil(64·n / bits)` digits hold every `n`-limb value -/
theorem pow2_size_ok {radix : Nat} (h2 : 2 ≤ radix) (hp : isPow2 radix = true) {limbs : List Nat}
    (hne : limbs ≠ []) (hw : WF limbs) :
    0 < (limbs.length * 64 + trailingZeros radix - 1) / trailingZeros radix ∧
    val limbs < radix ^ ((limbs.length * 64 + trailingZeros radix - 1) / trailingZeros radix) := by
  have hr : radix = 2 ^ trailingZeros radix := by
    unfold isPow2 at hp
    simp only [Bool.and_eq_true, beq_iff_eq] at hp
    exact hp.2
  generalize trailingZeros radix = t at hr ⊢
  have ht : 1 ≤ t := by
    rcases Nat.eq_zero_or_pos t with h | h
    · subst h; simp at hr; omega
    · exact h
  have hn : 1 ≤ limbs.length := by
    cases limbs with
    | nil => exact absurd rfl hne
    | cons _ _ => simp
  have hdm := Nat.div_add_mod (limbs.length * 64 + t - 1) t
  have hml := Nat.mod_lt (limbs.length * 64 + t - 1) (show 0 < t by omega)
  generalize hq : (limbs.length * 64 + t - 1) / t = q at hdm ⊢
  have hge : 64 * limbs.length ≤ t * q := by omega
  have hqpos : 0 < q := by
    rcases Nat.eq_zero_or_pos q with h | h
    · subst h; simp at hge; omega
    · exact h
  refine ⟨hqpos, ?_⟩
  rw [hr, ← Nat.pow_mul]
  exact Nat.lt_of_lt_of_le (val_lt_two_pow hw) (Nat.pow_le_pow_right (by decide) hge)

theorem ilog_maximal : ∀ r, r < 37 → 2 ≤ r → B ≤ r ^ (ilog r + 1) := by decide +kernel

theorem allParamsGo_mem : ∀ (f radix : Nat) (p : DivParams), p ∈ allParamsGo f radix → p = mkParams p.radix := by
  intro f
  induction f with
  | zero => intro radix p h; simp [allParamsGo] at h
  | succ f ih =>
    intro radix p h
    simp only [allParamsGo] at h
    split at h
    · split at h
      · exact ih _ p h
      · rcases List.mem_cons.mp h with h | h
        · rw [h]; rfl
        · exact ih _ p h
    · simp at h

theorem forRadix_digitsLimb {radix : Nat} {p : DivParams} (h : forRadix radix = .ok p) :
    p.radix = radix ∧ p.digitsLimb = ilog radix := by
  unfold forRadix at h
  split at h
  · exact absurd h (by simp)
  · simp only at h
    split at h
    · exact absurd h (by simp)
    · split at h
      · exact absurd h (by simp)
      · next p' hp' =>
        split at h
        · exact absurd h (by simp)
        · next hrad =>
          injection h with h
          subst h
          have hmem : p' ∈ allParams := List.mem_of_getElem? hp'
          have := allParamsGo_mem _ _ p' hmem
          have hr : p'.radix = radix := by
            rcases Nat.lt_or_ge p'.radix radix with h1 | h1
            · exact absurd (by omega) hrad
            · rcases Nat.lt_or_ge radix p'.radix with h2 | h2
              · exact absurd (by omega) hrad
              · omega
          refine ⟨hr, ?_⟩
          rw [this, hr]; rfl

/-- division path: `n·(digits_limb + 1)` digits hold every `n`-limb value -/
theorem div_size_ok {radix : Nat} (h2 : 2 ≤ radix) (h36 : radix ≤ 36) {p : DivParams}
    (hpar : forRadix radix = .ok p) {limbs : List Nat} (hne : limbs ≠ []) (hw : WF limbs) :
    0 < limbs.length * (p.digitsLimb + 1) ∧ val limbs < radix ^ (limbs.length * (p.digitsLimb + 1)) := by
  have hn : 1 ≤ limbs.length := by
    cases limbs with
    | nil => exact absurd rfl hne
    | cons _ _ => simp
  refine ⟨Nat.mul_pos hn (by omega), ?_⟩
  rw [(forRadix_digitsLimb hpar).2, Nat.mul_comm, Nat.pow_mul]
  have hB := ilog_maximal radix (by omega) h2
  exact Nat.lt_of_lt_of_le (val_lt hw) (Nat.pow_le_pow_left hB _)

end CB.Radix
